From FP Require Import Lexer Parser ShowPT Digest Formatter.
From Coq Require Import String List NArith.
Import ListNotations.
Open Scope string_scope.
Set Printing Width 100000000.
Set Printing Depth 100000000.
Definition show_fres (r : fres) : string :=
  match r with
  | FOk s => "OK:" ++ sh_escaped s ""
  | FErr s => "ERR:" ++ sh_escaped s ""
  | FPanic p => "PANIC:" ++ p
  end.
Definition check (rs : list rune) : string := digest (show_fres (format_res rs)).
Definition full (rs : list rune) : string := show_fres (format_res rs).
Eval vm_compute in ("<<<M1561>>>" ++ check (runes_of_ascii "
packet Z9_	//x
    {@calculatedFrom(
	""1"" ) match 
body
	as
u8x

    {[7
	] :
u
,	[ 7,
    00 
, ""a\""b""
,""""
,

    ""\n"" 
, 00

]

    :
charz , 1

    :	// c
    	Packet ,""" ++ [28040; 24687]%N ++ runes_of_ascii """ :
    f32a
    ,  00 :	// trailing space 
    len
	}	,

    @lengthOf(  calculatedFrom

) MetaDataX

    ,

Packet @lengthOf(

    int )
    ,  repeat 	 // `tick` ""quote"" 'q'
char[	7 
]
calculatedFrom,
@calculatedFrom(
""a\\""
	)
	zchar[ 	 //
	255 // " ++ [128512]%N ++ runes_of_ascii " emoji
	]f32a@calculatedFrom(
    """ ++ [233]%N ++ runes_of_ascii "t" ++ [233]%N ++ runes_of_ascii """  ) 
,
@calculatedFrom(
""a\""b"" // packet A { u8 x, }
)char[
	7 

    //	t
    ]

    i8i8
	@calculatedFrom(

    ""a\\""
    )

    `crlf
line`
,

zchar[ 0123456789
    ]

    x  `line1
line2`

    ,@leftPad

( 
)
repeat
u64
stringy
,
	@lengthOf(	x )
repeat  body {//	t
  Z9_ {
repeat	asx  , repeat 
crc
    i64_// " ++ [27880; 37322]%N ++ runes_of_ascii "
    ,

repeat rootA
{  repeat rootA MetaDataX
    `line1
line2`
        // `tick` ""quote"" 'q'
	,
match
i64_ 
as 
calculatedFrom	{

7 : x
[	7]
:stringy	,

    ""1"" 
: i8i8,

[ ""1"" ,
42
    ,
        // trailing space 
/// triple
		""" ++ [233]%N ++ runes_of_ascii "t" ++ [233]%N ++ runes_of_ascii """	, 
10 ,

255
	,	0 
,

10 
]
    : u ,

""x y"" 
:

    i8i8 } 

// `tick` ""quote"" 'q'

//x
,
uint64
	_x
`
` , 
char[

0

]
	i64_

@calculatedFrom( ""CRC32"" )
    ,
	},

x_y_z{	char[]T 
	// a // b
  	// @lengthOf(
    ,
}

, }
	,  repeat
	u64

Foo	`a\`, 
uint8

    uint8x

,  match 

    //	t

  // trailing space 
	roots
	as chars
{

1	: _x
""a\""b""
    :

uint8x
    , 
42:metadata// " ++ [128512]%N ++ runes_of_ascii " emoji
	,// `tick` ""quote"" 'q'

[// @lengthOf(
  	""\n""	,
    255
    ] :
zchar [
""" ++ [233]%N ++ runes_of_ascii "t" ++ [233]%N ++ runes_of_ascii """
,
3  ,

4294967296
,  // trailing space 

  0123456789 ,

""x y""
]

: metadata
    [ // c

	""it's""
, ""// no comment"" ]: 
Z9_,
}

,
} , }	// a // b

MetaData
rootA
{ char[	4294967296  ]	msg_type

,// @lengthOf(

	char[]u128
	,uint64 a1
    ,int8 
crc ,	Pad

msg_type `doc` 
,
	} 
    //	t

/// triple
    packet x_y_z	{  @lengthOf(crc  ) match packetx
as
    f32a

{ 0123456789
    : A
	,  00 :

    u  // @lengthOf(
	} 
, }

")).
Eval vm_compute in ("<<<M1862>>>" ++ check (runes_of_ascii "packet  asx
{leftPad 
@calculatedFrom(
    """ ++ [233]%N ++ runes_of_ascii "t" ++ [233]%N ++ runes_of_ascii """ )

,@leftPad
	( '0'

)
// trailing space 
    u8x	As	`crlf
line` ,

    char[
	3
]
asx

@calculatedFrom( ""{,}""
)

, 
// @lengthOf(

// trailing space 
	  repeat
u128 { int	{packetx
    @calculatedFrom(""packet""

)
    ,
	match  T  as  T {	""a	b""
	:
o
	, }

,
zchar[
    00
]
lengthOf 
`{ , }`
, 
  /// triple
    // trailing space 
  	char[] crc  @calculatedFrom( ""abc""	)

,
    }
,

    Header	@calculatedFrom( """ ++ [233]%N ++ runes_of_ascii "t" ++ [233]%N ++ runes_of_ascii """) `two words`

    , repeat
uint8 uint8x , repeat 
//
	char[	0123456789
    ]float	`u8 x,`

, }  ,
    packetx	x`say ""hi""`

    ,
	@rightPad

( ) 
i8i8
	@calculatedFrom(""x y"" )	,  @leftPad ()
	BodyLength{ 
repeat int32
_x  ``
	,

    i8 msg_type`doc`  //
,  }
,

    }
    // `tick` ""quote"" 'q'

	// packet A { u8 x, }
	packet	body{
	}
	packet
    repeatCount {
    zchar[
3	]	Packet

, 
@lengthOf(// @lengthOf(
	Header
)
    i64 
    // c
  // c
Packet

`two words`, zchar[
65535
]

    calculatedFrom`tab	here` //	t
  , match

x  as

leftPad{
""// no comment""  : 
rootA  ,""`tick`""
: o
,} ,// " ++ [128512]%N ++ runes_of_ascii " emoji
	  zchar[ 	 //	t
	3  ]  
  // packet A { u8 x, }

	// " ++ [27880; 37322]%N ++ runes_of_ascii "
		u128
@calculatedFrom( ""{,}""
	)
`{ , }` , 
}

//	t
    	options
    { u
=char[

42

] 	 // " ++ [27880; 37322]%N ++ runes_of_ascii "
	  metadata 
=

""a\\""  ;Logon =
	string	;Z9_	=u16
    ; }

")).
Eval vm_compute in ("<<<M387>>>" ++ check (runes_of_ascii "options {
	StringPrefixLenType = u16;
	ArrayPrefixLenType = u16;
}

packet SampleBinary {
	uint16 MsgType `" ++ [28040; 24687; 31867; 22411]%N ++ runes_of_ascii "`,
	u16 BodyLenght @lengthOf(Body) `" ++ [28040; 24687; 20307; 38271; 24230]%N ++ runes_of_ascii "`,
	match MsgType as Body {
		1 : Logon,
		2 : Logout,
		3 : Heartbeat,
		4 : RiskControlRequest,
		5 : RiskControlResponse,
	},
	@calculatedFrom(""CRC32"")
	u32 Ckecksum `" ++ [26657; 39564; 21644]%N ++ runes_of_ascii "`,
}

packet Logon {
	@leftPad('0')
	char[10] UserName `" ++ [29992; 25143; 21517]%N ++ runes_of_ascii "`,
	string Password `" ++ [23494; 30721]%N ++ runes_of_ascii "`,
	uint64 ClientId `" ++ [23458; 25143; 31471]%N ++ runes_of_ascii "ID`,
	u16 HeartbeatInterval `" ++ [24515; 36339; 38388; 38548]%N ++ runes_of_ascii "`,
}

packet Logout {
	@rightPad('0')
	char[10] UserName `" ++ [29992; 25143; 21517]%N ++ runes_of_ascii "`,
	uint64 ClientId `" ++ [23458; 25143; 31471]%N ++ runes_of_ascii "ID`,
}

packet Heartbeat {
}

packet RiskControlRequest {
	string UniqueOrderId `" ++ [21807; 19968; 35746; 21333; 21495]%N ++ runes_of_ascii "`,
	char[16] ClOrdID `" ++ [23458; 25143; 35746; 21333; 21495]%N ++ runes_of_ascii "`,
	char[3] MarketID `" ++ [24066; 22330]%N ++ runes_of_ascii "id`,
	char[12] SecurityID `" ++ [35777; 21048; 20195; 30721]%N ++ runes_of_ascii "`,
	char Side `" ++ [20080; 21334; 26041; 21521]%N ++ runes_of_ascii "`,
	char OrderType `" ++ [35746; 21333; 31867; 22411]%N ++ runes_of_ascii "`,
	u64 Price `" ++ [20215; 26684]%N ++ runes_of_ascii "`,
	u32 Qty `" ++ [25968; 37327]%N ++ runes_of_ascii "`,
	repeat string ExtraInfo `" ++ [38468; 21152; 20449; 24687]%N ++ runes_of_ascii "`,
	repeat SubOrder {
		char[16] ClOrdID `" ++ [23376; 35746; 21333; 21495]%N ++ runes_of_ascii "`,
		u64 Price `" ++ [23376; 35746; 21333; 20215; 26684]%N ++ runes_of_ascii "`,
		u32 Qty `" ++ [23376; 35746; 21333; 25968; 37327]%N ++ runes_of_ascii "`,
	},
}

packet RiskControlResponse {
	string UniqueOrderId `" ++ [21807; 19968; 35746; 21333; 21495]%N ++ runes_of_ascii "`,
	i32 Status `" ++ [29366; 24577]%N ++ runes_of_ascii "`,
	string Msg `" ++ [32467; 26524; 20449; 24687]%N ++ runes_of_ascii "`,
	repeat Detail,
}

packet Detail {
	string RuleName `" ++ [35268; 21017; 21517; 31216]%N ++ runes_of_ascii "`,
	u16 Code `" ++ [21407; 22240; 20195; 30721]%N ++ runes_of_ascii "`,
}")).
Eval vm_compute in ("<<<M1341>>>" ++ check (runes_of_ascii "options {
    FixedStringPadFromLeft = true;
    FixedStringPadChar = '0';
}
packet Leg {
    InPrice0 {
        repeat string clOrdID,
        int16 msgKind,
        zchar[5] Px,
    },
    i16 f1,
    repeat f64 Side2,
    string Acct,
}
packet Cancel {
    zchar[4] clOrdID,
    string seqNo,
    Leg,
    @leftPad('0') char[11] OrderId,
}
packet Quote {
    repeat char[4] sym,
    f64 OrderId,
    repeat Leg,
    repeat i64 f1,
    int16 Note,
    zchar[3] count,
}
root packet Ack {
    @leftPad(' ') char[10] sym,
    InPx60 {
        Cancel,
        repeat char[1] f1,
        string Tail,
        repeat InNote55 {
            int8 count,
            f64 f1,
            repeat Cancel,
        },
        char[] tag7,
        repeat string msgKind,
    },
    u8 lastPx,
    match lastPx as Body {
        152 : Quote,
        173 : Cancel,
        4 : Leg,
    },
    u16 Ref @calculatedFrom(""CR\
C32""),
}
")).
Eval vm_compute in ("<<<M1371>>>" ++ check (runes_of_ascii "options {
    FixedStringPadFromLeft = true;
    FixedStringPadChar = '0';
}
packet Leg {
    repeat InSym93 {
        zchar[3] Acct,
        string Side2,
        i32 Flags,
        f32 Note,
        i32 msgKind,
    },
    f64 Note,
    uint16 Px,
}
packet Quote {
    zchar[2] OrderId,
}
packet Ack {
    repeat string lastPx,
    zchar[4] price,
    uint32 OrderId,
    Quote,
    int8 Acct,
}
packet Fill {
    repeat Leg,
    @rightPad('0') char[11] Note,
    f64 Px,
    @rightPad('\x00') char[5] Flags,
    zchar[9] x,
    string msgKind,
}
root packet Order {
    Leg,
    repeat Ack,
    @rightPad('\x00') char[3] Side2,
    repeat char[1] seqNo,
    u16 clOrdID,
    match clOrdID as Body {
        198 : Leg,
        23 : Quote,
        13 : Ack,
        159 : Fill,
    },
    u32 venue @calculatedFrom(""CR\
C32""),
}
")).
Eval vm_compute in ("<<<M1124>>>" ++ check (runes_of_ascii "// top
options
    // c0
{ // c1
uint8x // c2a
  // c2b
= 007 // c4a
  // c4b
; lengthOf
    // c6
= i8 ; // c9a
  // c9b
} packet i64_
    // c12
{ // c13
@calculatedFrom( // c14
""1""
    // c15
) // c16
@tag( // c17
3 )
    // c19
@lengthOf(
    // c20
rootA ) // c22
repeat // c23
int8 // c24a
  // c24b
Packet // c25a
  // c25b
`u8 x,` // c26
, // c27
} // c28a
  // c28b
root
    // c29
packet // c30a
  // c30b
stringy
    // c31
{ // c32a
  // c32b
@rightPad ( ' ' // c35
) // c36
repeat // c37a
  // c37b
char[ // c38
10 // c39
] repeatCount // c41a
  // c41b
, // c42
@tag( // c43a
  // c43b
255
    // c44
) // c45
float64
    // c46
msg_type
    // c47
@calculatedFrom( ""packet""
    // c49
) // c50a
  // c50b
, // c51a
  // c51b
} // c52
")).
Eval vm_compute in ("<<<M1904>>>" ++ check (runes_of_ascii "packet u128 {
    repeat char[65535] float,
}

options {
    f32a = char[];
}

packet _x {
    @rightPad('0')
    // packet A { u8 x, }
    @lengthOf(i8i8)
    @lengthOf(lengthOf)
    repeat Z9_ `crlf
    line`,
    string_ {
        // `tick` ""quote"" 'q'
        // c
        zchar[7] x_y_z,
        Header x `line1
        line2`,
    },//	t
    @leftPad()
    match float as x_y_z {
        """ ++ [28040; 24687]%N ++ runes_of_ascii """ : metadata,
        007 : A,
        00 : falsey,
        0123456789 : Foo,
        0123456789 : zchar,
    },
    @calculatedFrom(""1"")
    @tag(0)
    char[00] options1,
}

packet Pad {
    u16 body @lengthOf(stringy),
}

options {
    BodyLength = '0'
    msg_type = ""a\""b"";
}")).
Eval vm_compute in ("<<<M1404>>>" ++ check (runes_of_ascii "// top
options {
    LittleEndian = false;// c5a
    // c5b
    StringPrefixLenType = u8;
    ArrayPrefixLenType = u64;
    // c13
    FixedStringPadFromLeft = false;// c17a
    // c17b
    FixedStringPadChar = ' ';
    // c21
}// c22

packet Reject {
    repeat char[4] seqNo,// c31
    string Px,// c34
}

root packet Trade {
    // c39a
    // c39b
    @rightPad('0')
    // c43a
    // c43b
    char[2] msgKind,// c48
    repeat f64 price,// c52
    InAcct79 {
        // c54
        repeat Reject,// c57a
        // c57b
        zchar[7] OrderId,
        // c62
    },
    Reject,
}// c67a
// c67b")).
Eval vm_compute in ("<<<M1711>>>" ++ check (runes_of_ascii "// top
options {
    // c1
    LittleEndian = true;
}// c6a

// c6b
packet Logon {
    u8 x,
    // c12
}

// c13
packet Logout {
    // c16
    u16 reason,
}// c20

root packet Frame {
    // c24a
    // c24b
    u64 Kind,// c27
    u64 Kind2,
    match Kind as Body {
        // c35
        1 : Logon,
        // c39
        [
            2, 3,
            4
        ] : Logout,
        // c49
        100 : Logon,
        // c53
    },
    match Kind2 as Trailer {
        // c60a
        // c60b
        0 : Logout,
        // c64
    },
}")).
Eval vm_compute in ("<<<M210>>>" ++ check (runes_of_ascii "MetaData tag {
//
//
char[// a // b
3 ] // a // b
msg_type
    // c
    , char[7 ] options1
,
    // trailing space 
    float crc
,calculatedFrom pack ,int64 u  `a\`,}
packet leftPad{char[
    1
]
    /// triple
    zchar
,
    //
    } packet crc { // c
@lengthOf( packetx	) @lengthOf( asx)
@lengthOf( packetx ) calculatedFrom {	f32 packetx	``
// packet A { u8 x, }
//x
, },
} options { Z9_
= ""\" ++ [233]%N ++ runes_of_ascii """
    // a // b
    float = ' ' ; packetx = ""x y""
    calculatedFrom  = int16
    ;
}")).
Eval vm_compute in ("<<<M161>>>" ++ check (runes_of_ascii "packet rootA{ options1 _x , u64
    Header , } packet lengthOf {
    @rightPad ( ' '	)
@lengthOf( u128 // trailing space 
)	@calculatedFrom(	""a\""b"" )  A {string i64_	`it's`,
//	t
// trailing space 
uint8
body
, match pack as u {
// @lengthOf(
// trailing space 
00 : charz , 00: int ,3
: falsey 255 :body
    ,
[0123456789 ] :x_y_z ,
// a // b
//
}
,
} ,
} MetaData chars{ u128
    zchar , char[ 42  ]
// a // b
// a // b
metadata
    , }
")).
Eval vm_compute in ("<<<M1443>>>" ++ check (runes_of_ascii "  packet metadata{//	t
		float64
body 
@lengthOf(

    calculatedFrom)
	,  // a // b
@tag(
42
) rootA , x_y_z
	u8x 
`// not a comment` ,
    @lengthOf( 
Pad
    ) match	// " ++ [27880; 37322]%N ++ runes_of_ascii "
  packetx
as	leftPad{ 

    //
  65535
:
tag
	,
""" ++ [128512]%N ++ runes_of_ascii """
:	_x
	},
x_y_z

metadata  ,

@tag( 7
    ) int64
zchar

    @lengthOf(
    repeatCount
	) `" ++ [233]%N ++ runes_of_ascii "`
	,
	@tag(0123456789

) repeat
	float 
chars

, 
f32
	MetaDataX,} ")).
Eval vm_compute in ("<<<M118>>>" ++ check (runes_of_ascii "packet As{@leftPad ( )
    char[ 0	]
Logon, char[	0
]
Z9_@calculatedFrom(	""abc""
    // c
    ) ,  @tag( 4294967296 )
    i64 matchKey @calculatedFrom(
    ""// no comment""//
)`two words` ,i16 A
, }// " ++ [27880; 37322]%N ++ runes_of_ascii "
packet T { zchar[
3 ] tag// packet A { u8 x, }
@lengthOf(
    chars) , } packet// " ++ [128512]%N ++ runes_of_ascii " emoji
BodyLength  {calculatedFrom @lengthOf( body )
`
`	, } // a // b")).
Eval vm_compute in ("<<<M1387>>>" ++ check (runes_of_ascii "options

{ 
LittleEndian
	=
true 
;	}

packet

    Logon { u8
	x
,
    }
	packet
Logout

{ u16

    reason
	, }  root
packet

Frame
{u64
Kind , u64
	Kind2

,match
Kind  as 
Body 
{
1:	Logon,

    [  2 ,3

,
    4 ] 
:	Logout , 100
: Logon
    , 
},
match
Kind2 as

    Trailer{
0
:
	Logout
, } , } ")).
Eval vm_compute in ("<<<M1722>>>" ++ check (runes_of_ascii "MetaData T {
    uint8 float,
    repeatCount x,
    char[10] asx,
    char[00] metadata `" ++ [233]%N ++ runes_of_ascii "`,
    u8x asx,
}

MetaData trueish {
    charz string_ `crlf
        line`,
    zchar[42] _x,
}

packet o {
    char[] u8x @calculatedFrom(""abc""),
}

options {
    x = 255;
    u = '0'
}")).
Eval vm_compute in ("<<<M361>>>" ++ check (runes_of_ascii "MetaData BodyLength { uint16 leftPad `" ++ [233]%N ++ runes_of_ascii "` // a // b
, uint8x asx,
    len lengthOf `// not a comment` ,
string uint8x `doc`
, }options {i8i8 = 0
lengthOf =
    0123456789 ; } packet uint8x { @lengthOf(
pack ) float64
u8x@lengthOf(asx //x
)
, }
")).
Eval vm_compute in ("<<<M1328>>>" ++ check (runes_of_ascii "packet

    Logon
    {

string

    user
,} root	packet	Frame{ u8 K 
,
    match  K 
as Body
	{ 1
:
    Logon ,2
: Logout  ,

}  ,
	Tail, }

    packet
Logout
	{ u16	reason ,

}
	packet  Tail
{u32	crc
    ,  }
")).
Eval vm_compute in ("<<<M1604>>>" ++ check (runes_of_ascii "root packet Frame {
    u8 K,
    Logon first,
    match K as Body {
        1 : Logon,
        2 : Logout,
    },
}

packet Logon {
    string user,
}

packet Logout {
    u16 reason,
}")).
Eval vm_compute in ("<<<M1608>>>" ++ check (runes_of_ascii "packet A {
    match k as n {
        [
            1, ""bb"", 007, ""d"", 5,
            ""f"", 7, ""h"", 9, ""j"",
            11, ""l""
        ] : B,
        2 : C,
    },
}")).
Eval vm_compute in ("<<<M418>>>" ++ check (runes_of_ascii "packet uint8x
{ match pack
    @rightPad msg_type	{
    0123456789 :	float
}
,
} packet //	t
a1
    { } options {packetx
    = '\x00'	; u128= ""a	b""  ; }
")).
Eval vm_compute in ("<<<M513>>>" ++ check (runes_of_ascii "packet uint8x
{ match pack
    as msg_type	{
    0123456789 :	float
}
,
} packet //	t
a1
    { } options {packetx
    = '\x00'	; float32= ""a	b""  ; }
")).
Eval vm_compute in ("<<<M463>>>" ++ check (runes_of_ascii "packet uint8x
{ match pack
    as msg_type	{
    0123456789 :	float
}
,
} float32 //	t
a1
    { } options {packetx
    = '\x00'	; u128= ""a	b""  ; }
")).
Eval vm_compute in ("<<<M472>>>" ++ check (runes_of_ascii "packet uint8x
{ match pack
    as msg_type	{
    0123456789 :	float
}
,
} packet //	t
a1
    } { options {packetx
    = '\x00'	; u128= ""a	b""  ; }
")).
Eval vm_compute in ("<<<M515>>>" ++ check (runes_of_ascii "packet uint8x
{ match pack
    as msg_type	{
    0123456789 :	float
}
,
} packet //	t
a1
    { } options {packetx
    = '\x00'	; u128 ""a	b""  ; }
")).
Eval vm_compute in ("<<<M440>>>" ++ check (runes_of_ascii "packet uint8x
{ match pack
    as msg_type	{
    0123456789 :	
}
,
} packet //	t
a1
    { } options {packetx
    = '\x00'	; u128= ""a	b""  ; }
")).
Eval vm_compute in ("<<<M529>>>" ++ check (runes_of_ascii "packet uint8x
{ match pack
    as msg_type	{
    0123456789 :	float
}
,
} packet //	t
a1
    { } options {packetx
    = '\x00'	; u128= ""a	b""")).
Eval vm_compute in ("<<<M430>>>" ++ check (runes_of_ascii "packet uint8x
{ match pack
    as msg_type	{
     :	float
}
,
} packet //	t
a1
    { } options {packetx
    = '\x00'	; u128= ""a	b""  ; }
")).
Eval vm_compute in ("<<<M1828>>>" ++ check (runes_of_ascii "packet

    A  { match
    k
as
    n 
{

    [

    ""a"", ""bb""  ,
007
,

    ""d""
,""e"", 66 , ""g""

,
	""h""]
	: 
B
2 : C} ,
	} ")).
Eval vm_compute in ("<<<M1658>>>" ++ check (runes_of_ascii "packet A {
    match k as n {
        [
            1, ""bb"", 007, ""d"", 5,
            ""f""
        ] : B,
        2 : C,
    },
}")).
Eval vm_compute in ("<<<M680>>>" ++ check (runes_of_ascii "// @lengthOf(
packet i8i8 { u128 o , }
options { MetaDataX = true;
    BodyLength =""packet"" x_y_z= 007
crc //x
= ""abc""")).
Eval vm_compute in ("<<<M1168>>>" ++ check (runes_of_ascii "MetaData leftPad { chars MetaDataX , } packet repeatCount { char[ 255 ]
// c
uint8x `" ++ [233]%N ++ runes_of_ascii "` , } MetaData pack { As Foo , }")).
Eval vm_compute in ("<<<M1485>>>" ++ check (runes_of_ascii "packet Foo {
    tag roots,
    // `tick` ""quote"" 'q'
    i64_,
    @calculatedFrom(""packet"")
    uint32 MetaDataX,
}")).
Eval vm_compute in ("<<<M973>>>" ++ check (runes_of_ascii "packet A {
    match k as n {
        ""\
"" : B,
        [""\
"", 1] : C,
        [1,2,3,4,5,""\
""] : D,
    },
}")).
Eval vm_compute in ("<<<M1498>>>" ++ check (runes_of_ascii "options {
    LittleEndian = true;
}

root packet P {
    u16 a,
    u32 Sum @calculatedFrom(""CRC32""),
}")).
Eval vm_compute in ("<<<M373>>>" ++ check (runes_of_ascii "  MetaData leftPad { /// triple
char[] body,  As options1
//
/// triple
,
o
    //x
    i64_
, }
")).
Eval vm_compute in ("<<<M1254>>>" ++ check (runes_of_ascii "
packet
    Inner {
    u8 a

,
} root
	packet P

    {  repeat
    Inner items,	u8 
x	, } ")).
Eval vm_compute in ("<<<M560>>>" ++ check (runes_of_ascii "
packet
    false {match u128 as lengthOf
{
//	t
// `tick` ""quote"" 'q'
255 : x ,
    } ,	}")).
Eval vm_compute in ("<<<M69>>>" ++ check (runes_of_ascii "//
packet metadata
{ }	MetaData chars
//x
//	t
{
    char[ 42	] leftPad `crlf
line`  ,
}")).
Eval vm_compute in ("<<<M879>>>" ++ check (runes_of_ascii "packet A {
  match k as n {
    [1, 22, 007, 4, 5, 66, 7, 8, 9, 10] : B
    2 : C
  },
}")).
Eval vm_compute in ("<<<M556>>>" ++ check (runes_of_ascii "
,
    asx {match u128 as lengthOf
{
//	t
// `tick` ""quote"" 'q'
255 : x ,
    } ,	}")).
Eval vm_compute in ("<<<M1305>>>" ++ check (runes_of_ascii "packet orderItem {
    u8 a,
}
root packet newOrder {
    orderItem,
    u8 x,
}
")).
Eval vm_compute in ("<<<M817>>>" ++ check (runes_of_ascii "packet A {
  match k as n {
    [1, ""bb"", 007, ""d"", 5] : B,
    2 : C
  },
}")).
Eval vm_compute in ("<<<M807>>>" ++ check (runes_of_ascii "packet A {
  match k as n {
    [""a"", 22, ""c c"", 4] : B
    2 : C
  },
}")).
Eval vm_compute in ("<<<M1087>>>" ++ check (runes_of_ascii "packet A { match k as n { [ // a
 1 // b
 , // c
 2 ] // d
 : B }, }")).
Eval vm_compute in ("<<<M782>>>" ++ check (runes_of_ascii "packet A {
  match k as n {
    [1, ""bb""] : B,
    2 : C
  },
}")).
Eval vm_compute in ("<<<M1493>>>" ++ check (runes_of_ascii "MetaData M {
    u8 x `x
        `,
    T t `x
        `,
}")).
Eval vm_compute in ("<<<M1684>>>" ++ check (runes_of_ascii "packet body {
    i32 f32a `{ , }`,// c
}

options {
}")).
Eval vm_compute in ("<<<M1215>>>" ++ check (runes_of_ascii "packet body { i32 f32a `{ , }` , } options // c
{ }")).
Eval vm_compute in ("<<<M1580>>>" ++ check (runes_of_ascii "packet  MetaDataX	{i16 
u128 
`" ++ [233]%N ++ runes_of_ascii "`
, 	 //x
	}

")).
Eval vm_compute in ("<<<M1223>>>" ++ check (runes_of_ascii "// top
packet // c0
x { // c2
}
    // c3
")).
Eval vm_compute in ("<<<M935>>>" ++ check (runes_of_ascii "packet A {
    u8 x `a
    b
  c`,
}")).
Eval vm_compute in ("<<<M1043>>>" ++ check (runes_of_ascii "packet A {
 u8 x `d 	`, // c 	
}")).
Eval vm_compute in ("<<<M1008>>>" ++ check (runes_of_ascii "packet A {
 u8 x `d" ++ [8202]%N ++ runes_of_ascii "`, // c" ++ [8202]%N ++ runes_of_ascii "
}")).
Eval vm_compute in ("<<<M1065>>>" ++ check (runes_of_ascii "packet A {
}// a// b// c
")).
Eval vm_compute in ("<<<M1111>>>" ++ check (runes_of_ascii "MetaData tag { } // c
")).
Eval vm_compute in ("<<<M1129>>>" ++ check (runes_of_ascii "
// c
MetaData u { }")).
Eval vm_compute in ("<<<M977>>>" ++ check (runes_of_ascii "// c 
packet A {
}")).
Eval vm_compute in ("<<<M1059>>>" ++ check (runes_of_ascii "packet A {
}// c x")).
Eval vm_compute in ("<<<M1229>>>" ++ check (runes_of_ascii "packet x
// c
{ }")).
Eval vm_compute in ("<<<M376>>>" ++ check (runes_of_ascii "
// " ++ [128512]%N ++ runes_of_ascii " emoji
")).
Eval vm_compute in ("<<<M1020>>>" ++ check (runes_of_ascii "// c" ++ [8239]%N)).
