From FP Require Import Lexer Parser ShowPT Digest Formatter.
From Coq Require Import String List NArith.
Import ListNotations.
Open Scope string_scope.
Set Printing Width 100000000.
Set Printing Depth 100000000.
Definition show_fres (r : fres) : string :=
  match r with
  | FOk s => "OK:" ++ sh_escaped s ""
  | FErr s => "ERR:" ++ sh_escaped s ""
  | FPanic p => "PANIC:" ++ p
  end.
Definition check (rs : list rune) : string := digest (show_fres (format_res rs)).
Definition full (rs : list rune) : string := show_fres (format_res rs).
Eval vm_compute in ("<<<M1642>>>" ++ check (runes_of_ascii "
MetaData Logon

    {

char[]
u8x,
	matchKey
pack
,	u8
    int
``
, char[

007

]
    msg_type,

    BodyLength o
	,

    string_
crc	`a\`	,}

options {

//x
trueish
    = 
int16  Packet
= char
    MetaDataX  =	char[ 
    //

// trailing space 

255  ] // a // b

; }
    root 

    //
	packet
a1 	 // packet A { u8 x, }

{
} root

    packet // c
	MetaDataX
	{
	@lengthOf(  _x
	)  repeat
    Logon{ // " ++ [128512]%N ++ runes_of_ascii " emoji
	o
a1
    , uint64
	u128,
	} , zchar[
	007
    ]chars`line1
line2`, repeat	Header
u128
`doc`
,	// " ++ [128512]%N ++ runes_of_ascii " emoji
@calculatedFrom(  ""1""
)	int
	trueish
,
	char[ 
0123456789

]	uint8x
	,i8

    int
	@lengthOf(msg_type 
)
	`line1
line2`

    , 
        //x
  @rightPad
	( )

repeat f64
    Z9_ 
,	metadata {	falsey

@calculatedFrom(	""abc""
    )
	,
}
,
	options1
@calculatedFrom(	""\n"" 
), @calculatedFrom( 
""\n""

    )match metadata as	Header	{ 
[ """",""1""]
	:Foo	//

  ,
	[ ""\n"", 10 
,
// " ++ [27880; 37322]%N ++ runes_of_ascii "
// c

""{,}""
	]

    :	Logon

    ,
[ """"	] :
len

    ,
""\n"":// trailing space 
	msg_type  ,

[ 	 // c
  	00
	]

:trueish
	,

10
:u8x	,
	}
	, }  // " ++ [27880; 37322]%N ++ runes_of_ascii "
root	packet

BodyLength{char[ 42
    ]

body	@calculatedFrom( ""{,}""  )	`tab	here`	// trailing space 
	, i32
stringy @calculatedFrom(

    """ ++ [28040; 24687]%N ++ runes_of_ascii """	)
	, @tag(  0123456789

    )	@rightPad() @tag(00)
	i16
	a1
@lengthOf( pack// a // b
  )
	,
    @tag(
    10	)

    @leftPad 
(

    '\x00'	)  // `tick` ""quote"" 'q'
	  @calculatedFrom(""a\""b"" )
	repeat 
char[]  // c

stringy	`
`  ,  chars
    `say ""hi""`
    ,

    @lengthOf( a1	)@leftPad
(
'0' ) 
match
    Z9_	as Header {00 

//	t
:

As ,
}// " ++ [27880; 37322]%N ++ runes_of_ascii "
		,o

    @calculatedFrom(	""" ++ [128512]%N ++ runes_of_ascii """
	),
	@leftPad	//	t
( )As// trailing space 
  	@calculatedFrom(""// no comment"" )
	,	match 
x_y_z
as BodyLength  { 
""x y""// `tick` ""quote"" 'q'

: BodyLength
,

    """ ++ [28040; 24687]%N ++ runes_of_ascii """
:packetx
	,
	0 :
	Header 
,	""x y""	: matchKey
	    //	t
  , } ,
	}// trailing space ")).
Eval vm_compute in ("<<<M53>>>" ++ check (runes_of_ascii "root
packet u {
    char[007 ]x_y_z
`two words` , int16 u8x
    @calculatedFrom( ""packet""
    )
    // @lengthOf(
    ,
    float64
    falsey
@calculatedFrom( ""\" ++ [233]%N ++ runes_of_ascii """ ) `u8 x,`
    ,
    trueish @calculatedFrom(
    """ ++ [233]%N ++ runes_of_ascii "t" ++ [233]%N ++ runes_of_ascii """ )
`tab	here` , @tag( 1	) repeat char[
4294967296 ]
    // " ++ [128512]%N ++ runes_of_ascii " emoji
    u , match
    // " ++ [27880; 37322]%N ++ runes_of_ascii "
    i8i8
    //
    as // " ++ [128512]%N ++ runes_of_ascii " emoji
o
    { [""a\\""
    ]:
    matchKey,[ 0123456789
    //x
    , ""x y""  , 0 ,
/// triple
/// triple
00 , ""a	b"" ,""{,}"" , // a // b
""{,}"" ,
007 ] :
u8x,
255 : u128 , [
""" ++ [28040; 24687]%N ++ runes_of_ascii """
    , 0123456789	,65535 ,
    // a // b
    ""\n"" ] : _x, 7 :
falsey} , @leftPad ( )// " ++ [128512]%N ++ runes_of_ascii " emoji
charz @lengthOf(A ) , // `tick` ""quote"" 'q'
} root packet stringy
{
    repeat
    MetaDataX {float32
T , string
    x_y_z `a\`
, repeat	_x  zchar`u8 x,` , }
    , } packet Foo {
    @lengthOf(  roots
    ) calculatedFrom a1, zchar[ 0123456789]	_x,
// @lengthOf(
// trailing space 
match //
roots as MetaDataX // c
{ /// triple
42 :	_x ,
3// a // b
:msg_type  7 : a1, """"	:i8i8 , //x
[ """ ++ [233]%N ++ runes_of_ascii "t" ++ [233]%N ++ runes_of_ascii """ ]: i8i8 , 00 : leftPad ,
    } , @calculatedFrom( // @lengthOf(
"""" ) char[  00 // c
]
Foo
@lengthOf( uint8x) ,  f32 chars , }packet
    metadata
    //	t
    { } MetaData i64_ // packet A { u8 x, }
{ lengthOf options1 ,
// @lengthOf(
//x
a1 A,
    x Header ,
    }
")).
Eval vm_compute in ("<<<M1758>>>" ++ check (runes_of_ascii "
packet calculatedFrom {  // a // b
    string  charz
`two words` 
    //	t
      //x
    ,
	}
packet stringy
{
    @lengthOf(msg_type 
)

crc
        // " ++ [128512]%N ++ runes_of_ascii " emoji

  , @leftPad
    ( '0' 
)
crc	@lengthOf(
u128 //	t
  )
	,	@leftPad	(
    ' ' ) match x_y_z as	rootA { [// @lengthOf(

3
	,255 ]
:
	int ""1""

    : o ,  // a // b
10
:
tag
    , // c

10 	 // " ++ [128512]%N ++ runes_of_ascii " emoji
:
	Header ,
3: a1

    ,

""" ++ [128512]%N ++ runes_of_ascii """: packetx  ,
} 
	// packet A { u8 x, }
// packet A { u8 x, }
    	,	match 
        // " ++ [27880; 37322]%N ++ runes_of_ascii "
	// a // b
	o
    as  x	//x

	{

    ""a	b""	: u8x 
,  }  , @rightPad	( 
)repeat
u 
packetx,	T  // " ++ [27880; 37322]%N ++ runes_of_ascii "
		,
repeat

Logon ,
	T

{repeat x_y_z , // a // b
  i8

    crc
`two words` ,

char[]  calculatedFrom	@calculatedFrom( ""x y""
)
    ,
    },
roots 
calculatedFrom

    , @lengthOf(asx

    )
repeat

    x_y_z	{	T 
matchKey  , }, }

    options
{float	=

char[

1 ] 
; msg_type  // c
  =
    i8	x
=
	    //
    // `tick` ""quote"" 'q'
  zchar[
    7
];
    f32a
=
""\n""
} ")).
Eval vm_compute in ("<<<M28>>>" ++ check (runes_of_ascii "options
    { string_
= false
    ; falsey  = char[// " ++ [128512]%N ++ runes_of_ascii " emoji
4294967296 ] ; } packet
    zchar{match float as len { [ """ ++ [233]%N ++ runes_of_ascii "t" ++ [233]%N ++ runes_of_ascii """ ]:
matchKey
    , 3 : // " ++ [27880; 37322]%N ++ runes_of_ascii "
u [ 4294967296
, ""1"" ] :
// `tick` ""quote"" 'q'
// c
zchar , } // c
,} MetaData
    // @lengthOf(
    T {
// c
// a // b
}	packet packetx  { uint16 uint8x @calculatedFrom( ""it's"" ) ,
stringy { i16 crc
`{ , }`	, }
, zchar[ 00
] x
,
    zchar{ uint64 tag , zchar
f32a	`say ""hi""` , uint32 A `{ , }` , match _x as
falsey
{ [ 007// " ++ [128512]%N ++ runes_of_ascii " emoji
,
    """ ++ [128512]%N ++ runes_of_ascii """] :
    matchKey// " ++ [128512]%N ++ runes_of_ascii " emoji
[ 0123456789,3 ] : T
// " ++ [128512]%N ++ runes_of_ascii " emoji
// `tick` ""quote"" 'q'
1: Foo ,
}
    ,// trailing space 
} ,A ,
    zchar[
    // packet A { u8 x, }
    4294967296 ] string_ @lengthOf( float ) ,match rootA as As
    { [ ""it's"",
255 , 0123456789 ,
// packet A { u8 x, }
//	t
""" ++ [233]%N ++ runes_of_ascii "t" ++ [233]%N ++ runes_of_ascii """	, ""{,}"" ,	""abc""
    , """ ++ [233]%N ++ runes_of_ascii "t" ++ [233]%N ++ runes_of_ascii """]:int, 4294967296 : tag , } , }
")).
Eval vm_compute in ("<<<M1412>>>" ++ check (runes_of_ascii "packet leftPad {
    //
    i8 stringy @calculatedFrom(""" ++ [128512]%N ++ runes_of_ascii """),
    int @calculatedFrom(""a	b"") `it's`,
    @leftPad()
    @tag(0123456789)
    int32 u8x,
    @lengthOf(A)
    float64 u128 @calculatedFrom(""a\\""),//x
}

options {
    //x
    Pad = 0
    u = ' '
}

MetaData a1 {
    char[] metadata `// not a comment`,
}

packet Foo {
    @tag(42)
    repeat BodyLength,
    int8 metadata `{ , }`,
    @leftPad()
    // " ++ [27880; 37322]%N ++ runes_of_ascii "
    @calculatedFrom(""`tick`"")
    @calculatedFrom(""a	b"")
    u32 stringy,
    @lengthOf(roots)
    zchar[0] msg_type @lengthOf(i64_) `tab	here`,
    i8 Header `{ , }`,
    char[7] trueish @lengthOf(packetx),
    u64 charz `
    `,
    zchar[65535] repeatCount `it's`,
    match calculatedFrom as calculatedFrom {
        ""a	b"" : roots,
        42 : MetaDataX,
    },
}")).
Eval vm_compute in ("<<<M1429>>>" ++ check (runes_of_ascii "  // top
	MetaData// c0
  Packet // c1
  	{  // c2
	}  // c3
	packet	// c4
    	charz  // c5
	{  // c6
    Foo  // c7
	asx  // c8
`it's`	// c9
	  ,  // c10
  @lengthOf( // c11
T  // c12
  )	// c13
	@calculatedFrom( // c14
  """" // c15
)  // c16
  	@calculatedFrom(	// c17
  	""x y"" // c18
	  ) // c19
  zchar[// c20

	007 // c21
	]  // c22
    repeatCount	// c23
  @lengthOf( 	 // c24
		int	// c25
  )	// c26
    	`a\`	// c27
	, 	 // c28
  i8	// c29
	  string_ 	 // c30
      , 	 // c31
  repeat	// c32
    options1	// c33
      Pad // c34
,// c35

}  // c36
  root	// c37

packet	// c38
  Packet // c39
    {  // c40
int8	// c41

float	// c42
      `doc`  // c43
	, // c44

  } // c45
")).
Eval vm_compute in ("<<<M154>>>" ++ check (runes_of_ascii "packet BodyLength
    // a // b
    {@rightPad (
'\x00' )
u8x/// triple
,  @tag(  007
) @calculatedFrom( ""packet""	) repeat  uint8x x_y_z, }
    MetaData A {
    // packet A { u8 x, }
    Z9_ // a // b
f32a ,
    zchar[ 255// a // b
]
    msg_type`say ""hi""` ,char[ 1	]Logon  `tab	here` ,//
}
packet uint8x {  @calculatedFrom(
""" ++ [28040; 24687]%N ++ runes_of_ascii """ )@tag(// `tick` ""quote"" 'q'
65535)	u32 int
@lengthOf( u8x )
`say ""hi""`
,	@leftPad ( ' ') stringy //
{
    string_ A ,
    char[ 4294967296
] i8i8 `" ++ [233]%N ++ runes_of_ascii "`	, char[]  Logon
,
string
x_y_z@lengthOf(	Packet ),
} , zchar[	4294967296 ]
int	`{ , }` , }
// trailing space 
// " ++ [27880; 37322]%N ++ runes_of_ascii "
packet u8x
    { }
// a // b
")).
Eval vm_compute in ("<<<M1536>>>" ++ check (runes_of_ascii "options {
    Header = u32;
}

options {
    i8i8 = f64;
    body = zchar[00];
}

//
MetaData BodyLength {
    // trailing space 
}// " ++ [27880; 37322]%N ++ runes_of_ascii "

options {
    Logon = u64
    As = true
    i64_ = '\x00';
}

root packet asx {
    @tag(4294967296)
    roots @lengthOf(A),
    repeat uint8 u128,
    int32 i64_,
    u8 u ``,
    @lengthOf(len)
    uint64 matchKey,
    match rootA as stringy {
        1 : string_,
        7 : charz,
        255 : u128,
        [0, 0123456789, 1, 007] : len,
        10 : trueish,
    },
    @rightPad()
    char[7] int @lengthOf(x) `two words`,
}")).
Eval vm_compute in ("<<<M1394>>>" ++ check (runes_of_ascii "//x
root packet float {
    options1 A,
    @tag(42)
    u8x {
        tag @calculatedFrom(""\" ++ [233]%N ++ runes_of_ascii """) `tab	here`,
    },
    int16 asx,
    @lengthOf(o)
    @rightPad()
    repeat int Logon,
    @calculatedFrom(""// no comment"")
    @leftPad('\x00')
    @rightPad('0')
    zchar[65535] o `
    `,
    repeat As {
        //x
        repeat uint16 o,
        repeat char[1] o,
        u128 metadata,
        repeat char[7] Header,
    },
    @tag(0123456789)
    a1 tag,
    float32 asx,
    repeat len ``,
}")).
Eval vm_compute in ("<<<M138>>>" ++ check (runes_of_ascii "packet Header{ char[	10
] A`it's` , @calculatedFrom(	""" ++ [28040; 24687]%N ++ runes_of_ascii """)calculatedFrom // a // b
@lengthOf( zchar ) `tab	here` ,  u32	BodyLength,
@lengthOf(
    stringy  ) //
@rightPad (
    ' ') @tag(
0123456789 )
body{ match i8i8 as
Foo
{ [ 7 ,	""CRC32"" ] : options1 ,[""a\""b"" , """ ++ [128512]%N ++ runes_of_ascii """ ,
    ""it's""
    , ""a	b"" ,
""// no comment"" , ""it's"" , 7,""abc""  ] :
As  ,
1 :
_x
// " ++ [128512]%N ++ runes_of_ascii " emoji
//
} , repeat  uint8x{crc
@calculatedFrom( ""a\\""
), } ,
    repeat  i8 tag ,// " ++ [128512]%N ++ runes_of_ascii " emoji
}
, }

")).
Eval vm_compute in ("<<<M0>>>" ++ check (runes_of_ascii "packet leftPad// trailing space 
{@tag( 10 )
    @tag( 007 ) @lengthOf(	a1 )
// a // b
//
repeat metadata
    ,
} // " ++ [128512]%N ++ runes_of_ascii " emoji
options
    // @lengthOf(
    { lengthOf
= """ ++ [128512]%N ++ runes_of_ascii """	;
}  packet T
    // " ++ [27880; 37322]%N ++ runes_of_ascii "
    { A
{
//
// `tick` ""quote"" 'q'
tag@calculatedFrom(""abc"")
, }
    , @lengthOf( matchKey
    ) string	Header @lengthOf( metadata
) ,leftPad
    // trailing space 
    @calculatedFrom(
""a\""b"" )`crlf
line`,}
")).
Eval vm_compute in ("<<<M1804>>>" ++ check (runes_of_ascii "options
    {
	falsey 
= int64 
; 
u8x
	=
    uint32 uint8x=// " ++ [128512]%N ++ runes_of_ascii " emoji
zchar[ 1 
]
	// @lengthOf(
	/// triple
  ; leftPad 
= ""a	b""
; calculatedFrom
	=
	false
;

    } MetaData
    Packet

    { zchar[
7  ]

    As

, }
root  packet pack
	{
@leftPad	( ) @tag(  // trailing space 
		7	)
zchar[3] u @lengthOf(

    // @lengthOf(
  // trailing space 
    x
)	,	} ")).
Eval vm_compute in ("<<<M1733>>>" ++ check (runes_of_ascii "

  options 
{
a1 =	'\x00'
As	= ""{,}"" 
u8x

    =	//x

""a	b""

;	asx
	=
u64
;
o
// @lengthOf(
	// c
    	=
0123456789 } 
packet 
Header
{
//
    @lengthOf(
    x 	 // trailing space 
    ) 

// " ++ [27880; 37322]%N ++ runes_of_ascii "
	repeat  falsey
    {	repeatCount
trueish
    `u8 x,` , }

    ,
	// `tick` ""quote"" 'q'
  	// " ++ [128512]%N ++ runes_of_ascii " emoji
  zchar[65535  ]

    x 
, 
}
")).
Eval vm_compute in ("<<<M12>>>" ++ check (runes_of_ascii "options {falsey =int64; u8x = uint32	uint8x =// " ++ [128512]%N ++ runes_of_ascii " emoji
zchar[ 1
]
// @lengthOf(
/// triple
; leftPad =
    ""a	b"";
    calculatedFrom
=
    false ;	}
MetaData Packet
{  zchar[
7]  As ,} root packet	pack {
@leftPad ( )	@tag(// trailing space 
7 ) zchar[ 3 ] u	@lengthOf(
// @lengthOf(
// trailing space 
x ),
}
")).
Eval vm_compute in ("<<<M1460>>>" ++ check (runes_of_ascii "options {
}

MetaData string_ {
    u32 matchKey `u8 x,`,
    string MetaDataX,
    uint8 Logon,
    uint64 options1,
    char[00] len `tab	here`,
    u8 options1,
}// a // b

packet a1 {
    chars,
    char[] i64_ @lengthOf(stringy),
    char T,
    repeat i8 charz `a\`,
}")).
Eval vm_compute in ("<<<M139>>>" ++ check (runes_of_ascii "packet//x
x_y_z {rootA @lengthOf( o ) `two words` ,} MetaData f32a{
trueish
    // packet A { u8 x, }
    x , }
    MetaData body
    { u128 pack , f64
    // @lengthOf(
    float	, char[ 65535
//	t
/// triple
] tag `" ++ [233]%N ++ runes_of_ascii "`// c
,  } // " ++ [128512]%N ++ runes_of_ascii " emoji")).
Eval vm_compute in ("<<<M350>>>" ++ check (runes_of_ascii "MetaData Pad
{ i64 Packet `{ , }`
    , // `tick` ""quote"" 'q'
repeatCount  trueish // packet A { u8 x, }
`say ""hi""`	, f32 pack`// not a comment` ,// `tick` ""quote"" 'q'
u32
calculatedFrom ,char //	t
zchar
,}
")).
Eval vm_compute in ("<<<M121>>>" ++ check (runes_of_ascii "packet u128 { @calculatedFrom(  ""a	b"" ) // packet A { u8 x, }
@leftPad( ' '
) //	t
@lengthOf(
Header // packet A { u8 x, }
) char[10
    ] crc@lengthOf(
len ) , } MetaData i8i8 { }
")).
Eval vm_compute in ("<<<M1195>>>" ++ check (runes_of_ascii "// top
packet
    // c0
body
    // c1
{
    // c2
i32
    // c3
f32a
    // c4
`{ , }`
    // c5
,
    // c6
}
    // c7
options
    // c8
{
    // c9
}
    // c10
")).
Eval vm_compute in ("<<<M461>>>" ++ check (runes_of_ascii "packet uint8x
{ match pack
    as msg_type	{
    0123456789 :	float
}
,
} packet packet //	t
a1
    { } options {packetx
    = '\x00'	; u128= ""a	b""  ; }
")).
Eval vm_compute in ("<<<M150>>>" ++ check (runes_of_ascii "packet
    //	t
    Logon {
metadata
@calculatedFrom( ""a\\"" ) , @tag( 42 ) // " ++ [128512]%N ++ runes_of_ascii " emoji
@tag(	65535 )
repeat u16 o `line1
line2` ,
} packet float { }

")).
Eval vm_compute in ("<<<M547>>>" ++ check (runes_of_ascii "%packet uint8x
{ match pack
    as msg_type	{
    0123456789 :	float
}
,
} packet //	t
a1
    { } options {packetx
    = '\x00'	; u128= ""a	b""  ; }
")).
Eval vm_compute in ("<<<M502>>>" ++ check (runes_of_ascii "packet uint8x
{ match pack
    as msg_type	{
    0123456789 :	float
}
,
} packet //	t
a1
    { } options {packetx
    = ;	'\x00' u128= ""a	b""  ; }
")).
Eval vm_compute in ("<<<M433>>>" ++ check (runes_of_ascii "packet uint8x
{ match pack
    as msg_type	{
    ""`tick`"" :	float
}
,
} packet //	t
a1
    { } options {packetx
    = '\x00'	; u128= ""a	b""  ; }
")).
Eval vm_compute in ("<<<M684>>>" ++ check (runes_of_ascii "// @lengthOf(
packet i8i8 { u128 o , }
options { MetaDataX = true;
    BodyLength =""packet"" x_y_z= 007
crc //x
= ""abc"" ;
    msg_type =
i16 } }")).
Eval vm_compute in ("<<<M694>>>" ++ check (runes_of_ascii "// @lengthOf(
packet i8i8 { u128 o , }
options { MetaDataX = true;
    = BodyLength""packet"" x_y_z= 007
crc //x
= ""abc"" ;
    msg_type =
i16 }")).
Eval vm_compute in ("<<<M1627>>>" ++ check (runes_of_ascii "
MetaData
leftPad
{	chars
MetaDataX	,	} packet repeatCount
	{

    char[ 
255 ] uint8x
	`" ++ [233]%N ++ runes_of_ascii "`
,
	} MetaData 
// c

  pack
{  As 
Foo, }
")).
Eval vm_compute in ("<<<M719>>>" ++ check (runes_of_ascii "// @lengthOf(
packet i8i8 { u128 o , }
options { MetaDataX = true;
     =""packet"" x_y_z= 007
crc //x
= ""abc"" ;
    msg_type =
i16 }")).
Eval vm_compute in ("<<<M1854>>>" ++ check (runes_of_ascii "  packet
A { 
match
k as
n

{
    [
	""a""  ,""bb""
    ,
	007 
,	""d"" ,

""e"" 
,66,

""g"",	""h""  ,

9
	, ""j""	]
	:	B,	2

: 
C }

,
}")).
Eval vm_compute in ("<<<M1398>>>" ++ check (runes_of_ascii "packet msg_type {
    zchar[65535] stringy @calculatedFrom(""" ++ [233]%N ++ runes_of_ascii "t" ++ [233]%N ++ runes_of_ascii """),
    @tag(0)
    repeat i64_,
}
// packet A { u8 x, }")).
Eval vm_compute in ("<<<M1169>>>" ++ check (runes_of_ascii "MetaData leftPad { chars MetaDataX , } packet repeatCount { char[ 255 ] uint8x // c
`" ++ [233]%N ++ runes_of_ascii "` , } MetaData pack { As Foo , }")).
Eval vm_compute in ("<<<M1319>>>" ++ check (runes_of_ascii "
packet FooBar  {  u8
	a , }
    packet  foo_bar

    {  u16 
b

    , } root
	packet R{FooBar , foo_bar
,	}
")).
Eval vm_compute in ("<<<M1816>>>" ++ check (runes_of_ascii "// a // b
	  packet Pad
{
    char[]	// packet A { u8 x, }
	Z9_
    @lengthOf(
Pad	)

    `{ , }`
,}
")).
Eval vm_compute in ("<<<M1415>>>" ++ check (runes_of_ascii "

  packet 
A { u16 // a
      len// b
    @lengthOf( 	 // c
  body// d
) 	 // e
    	`d`  // f
,	}

")).
Eval vm_compute in ("<<<M899>>>" ++ check (runes_of_ascii "packet A {
  match k as n {
    [1, 22, ""c c"", 4, 5, ""f"", 7, 8, ""i"", 10, 11] : B,
    2 : C
  },
}")).
Eval vm_compute in ("<<<M610>>>" ++ check (runes_of_ascii "
packet
    asx {match u128 as lengthOf
{
//	t
// `tick` ""quote"" 'q'
255 : x repeat
    } ,	}")).
Eval vm_compute in ("<<<M585>>>" ++ check (runes_of_ascii "
packet
    asx {match u128 as @lengthOf(
{
//	t
// `tick` ""quote"" 'q'
255 : x ,
    } ,	}")).
Eval vm_compute in ("<<<M69>>>" ++ check (runes_of_ascii "//
packet metadata
{ }	MetaData chars
//x
//	t
{
    char[ 42	] leftPad `crlf
line`  ,
}")).
Eval vm_compute in ("<<<M622>>>" ++ check (runes_of_ascii "
packet
    asx {match u128 as lengthOf
{
//	t
// `tick` ""quote"" 'q'
255 : x ,
    } ,	")).
Eval vm_compute in ("<<<M1469>>>" ++ check (runes_of_ascii "options {
    LittleEndian = true;
}

root packet P {
    repeat char cs,
    u8 x,
}")).
Eval vm_compute in ("<<<M833>>>" ++ check (runes_of_ascii "packet A {
  match k as n {
    [""a"", 22, ""c c"", 4, ""e"", 66] : B
    2 : C
  },
}")).
Eval vm_compute in ("<<<M1650>>>" ++ check (runes_of_ascii "packet A {
    // a
    @tag(1)
    u8 x,// b
    // c
    @tag(2)
    u8 y,
}")).
Eval vm_compute in ("<<<M804>>>" ++ check (runes_of_ascii "packet A {
  match k as n {
    [1, ""bb"", 007, ""d""] : B,
    2 : C
  },
}")).
Eval vm_compute in ("<<<M1540>>>" ++ check (runes_of_ascii "
packet
	body
{ 	 // c
    i32 
f32a `{ , }`

    , } 
options	{ }")).
Eval vm_compute in ("<<<M1889>>>" ++ check (runes_of_ascii "
packet A
	{B
	b
    `x
`	,

B	`x
`  , 
repeat B	bs `x
`	, 
}

")).
Eval vm_compute in ("<<<M1102>>>" ++ check (runes_of_ascii "// top
MetaData
    // c0
tag
    // c1
{ // c2
}
    // c3
")).
Eval vm_compute in ("<<<M1679>>>" ++ check (runes_of_ascii "MetaData M {
    u8 x `a
    b`,
    T t `a
    b`,
}")).
Eval vm_compute in ("<<<M1209>>>" ++ check (runes_of_ascii "packet body { i32 f32a `{ , }` // c
, } options { }")).
Eval vm_compute in ("<<<M693>>>" ++ check (runes_of_ascii "// @lengthOf(
packet i8i8 { u128 o , }
options")).
Eval vm_compute in ("<<<M31>>>" ++ check (runes_of_ascii "options {
x=
""{,}""
matchKey=  true	; }
")).
Eval vm_compute in ("<<<M964>>>" ++ check (runes_of_ascii "root packet A {
    u8 x `tab
	x`,
}")).
Eval vm_compute in ("<<<M1697>>>" ++ check (runes_of_ascii "packet A {
    u8 x `a
    b`,
}")).
Eval vm_compute in ("<<<M978>>>" ++ check (runes_of_ascii "packet A {
 u8 x `d `, // c 
}")).
Eval vm_compute in ("<<<M917>>>" ++ check (runes_of_ascii "packet A {
    u8 x `a
b`,
}")).
Eval vm_compute in ("<<<M1834>>>" ++ check (runes_of_ascii "packet A {
}// a// b// c")).
Eval vm_compute in ("<<<M1107>>>" ++ check (runes_of_ascii "MetaData tag // c
{ }")).
Eval vm_compute in ("<<<M103>>>" ++ check (runes_of_ascii "packet packetx	{ }")).
Eval vm_compute in ("<<<M1047>>>" ++ check (runes_of_ascii "// c" ++ [8203]%N ++ runes_of_ascii "
packet A {
}")).
Eval vm_compute in ("<<<M1054>>>" ++ check (runes_of_ascii "packet A {
}// c" ++ [6158]%N)).
Eval vm_compute in ("<<<M404>>>" ++ check (runes_of_ascii "packet uint8x")).
Eval vm_compute in ("<<<M995>>>" ++ check (runes_of_ascii "// c" ++ [5760]%N)).
Eval vm_compute in ("<<<M727>>>" ++ check (runes_of_ascii "")).
