From FP Require Import Lexer Parser ShowPT Digest Formatter.
From Coq Require Import String List NArith.
Import ListNotations.
Open Scope string_scope.
Set Printing Width 100000000.
Set Printing Depth 100000000.
Definition show_fres (r : fres) : string :=
  match r with
  | FOk s => "OK:" ++ sh_escaped s ""
  | FErr s => "ERR:" ++ sh_escaped s ""
  | FPanic p => "PANIC:" ++ p
  end.
Definition check (rs : list rune) : string := digest (show_fres (format_res rs)).
Definition full (rs : list rune) : string := show_fres (format_res rs).
Eval vm_compute in ("<<<M1352>>>" ++ check (runes_of_ascii "// top
options
    // c0
{ // c1
StringPrefixLenType // c2a
  // c2b
=
    // c3
u8 // c4a
  // c4b
; ArrayPrefixLenType // c6
= // c7
u32 // c8
;
    // c9
FixedStringPadFromLeft
    // c10
= true // c12a
  // c12b
; // c13
FixedStringPadChar // c14
=
    // c15
' ' ; } packet // c19
Leg
    // c20
{ // c21a
  // c21b
} packet
    // c23
Heartbeat
    // c24
{ // c25
zchar[ // c26a
  // c26b
6 ] msgKind // c29a
  // c29b
, // c30a
  // c30b
@rightPad
    // c31
( '0' ) // c34
char[ // c35a
  // c35b
3 // c36a
  // c36b
]
    // c37
Qty , zchar[
    // c40
9 // c41a
  // c41b
] // c42
Side2 , i8
    // c45
Acct // c46
, // c47a
  // c47b
} // c48
packet // c49a
  // c49b
Logout // c50
{ // c51a
  // c51b
int8 // c52
x
    // c53
, // c54a
  // c54b
} // c55
packet
    // c56
Order // c57a
  // c57b
{ char[]
    // c59
Acct ,
    // c61
zchar[ // c62a
  // c62b
8 // c63
] count // c65a
  // c65b
,
    // c66
u32 // c67
OrderId
    // c68
, uint8 lastPx // c71a
  // c71b
,
    // c72
u16
    // c73
clOrdID // c74
,
    // c75
zchar[
    // c76
7
    // c77
] // c78a
  // c78b
Note // c79
, } // c81a
  // c81b
root
    // c82
packet // c83
Reject // c84a
  // c84b
{ // c85
@leftPad ( ' ' ) // c89a
  // c89b
char[
    // c90
8 ]
    // c92
Side2 // c93
, // c94a
  // c94b
i8 // c95a
  // c95b
clOrdID // c96
, // c97a
  // c97b
repeat
    // c98
f32
    // c99
x , // c101
u32 // c102a
  // c102b
lastPx , // c104
match lastPx as
    // c107
Body
    // c108
{ // c109a
  // c109b
[
    // c110
30 ,
    // c112
147 ] : // c115a
  // c115b
Heartbeat , 134 // c118a
  // c118b
: // c119a
  // c119b
Leg // c120
, // c121
183 // c122
:
    // c123
Logout
    // c124
, // c125a
  // c125b
40 // c126
: // c127a
  // c127b
Order
    // c128
, // c129a
  // c129b
}
    // c130
, u16 // c132a
  // c132b
Ref // c133
@calculatedFrom( // c134a
  // c134b
""CRC32"" ) // c136a
  // c136b
, // c137
} // c138
")).
Eval vm_compute in ("<<<M53>>>" ++ check (runes_of_ascii "root
packet u {
    char[007 ]x_y_z
`two words` , int16 u8x
    @calculatedFrom( ""packet""
    )
    // @lengthOf(
    ,
    float64
    falsey
@calculatedFrom( ""\" ++ [233]%N ++ runes_of_ascii """ ) `u8 x,`
    ,
    trueish @calculatedFrom(
    """ ++ [233]%N ++ runes_of_ascii "t" ++ [233]%N ++ runes_of_ascii """ )
`tab	here` , @tag( 1	) repeat char[
4294967296 ]
    // " ++ [128512]%N ++ runes_of_ascii " emoji
    u , match
    // " ++ [27880; 37322]%N ++ runes_of_ascii "
    i8i8
    //
    as // " ++ [128512]%N ++ runes_of_ascii " emoji
o
    { [""a\\""
    ]:
    matchKey,[ 0123456789
    //x
    , ""x y""  , 0 ,
/// triple
/// triple
00 , ""a	b"" ,""{,}"" , // a // b
""{,}"" ,
007 ] :
u8x,
255 : u128 , [
""" ++ [28040; 24687]%N ++ runes_of_ascii """
    , 0123456789	,65535 ,
    // a // b
    ""\n"" ] : _x, 7 :
falsey} , @leftPad ( )// " ++ [128512]%N ++ runes_of_ascii " emoji
charz @lengthOf(A ) , // `tick` ""quote"" 'q'
} root packet stringy
{
    repeat
    MetaDataX {float32
T , string
    x_y_z `a\`
, repeat	_x  zchar`u8 x,` , }
    , } packet Foo {
    @lengthOf(  roots
    ) calculatedFrom a1, zchar[ 0123456789]	_x,
// @lengthOf(
// trailing space 
match //
roots as MetaDataX // c
{ /// triple
42 :	_x ,
3// a // b
:msg_type  7 : a1, """"	:i8i8 , //x
[ """ ++ [233]%N ++ runes_of_ascii "t" ++ [233]%N ++ runes_of_ascii """ ]: i8i8 , 00 : leftPad ,
    } , @calculatedFrom( // @lengthOf(
"""" ) char[  00 // c
]
Foo
@lengthOf( uint8x) ,  f32 chars , }packet
    metadata
    //	t
    { } MetaData i64_ // packet A { u8 x, }
{ lengthOf options1 ,
// @lengthOf(
//x
a1 A,
    x Header ,
    }
")).
Eval vm_compute in ("<<<M1816>>>" ++ check (runes_of_ascii "// a // b
packet stringy {
    string zchar,
    repeat T,
    match u as charz {
        007 : float,
        ""\" ++ [233]%N ++ runes_of_ascii """ : Logon,
        ""a	b"" : pack,
    },
    match uint8x as roots {
        1 : len,
    },
}

packet zchar {
    roots options1 `// not a comment`,
    int64 As,
    i16 float @lengthOf(falsey) `a\`,
    int64 msg_type `tab	here`,
    @tag(0)
    repeat uint8x,
    @lengthOf(x)
    repeat metadata,
    zchar[0] int,
    uint64 zchar,
    zchar[7] msg_type,
    @calculatedFrom(""" ++ [28040; 24687]%N ++ runes_of_ascii """)
    crc,
}

root packet zchar {
    repeat leftPad,
}

packet A {
    @lengthOf(string_)
    x @lengthOf(options1) `two words`,
    string len,
}

packet falsey {
    i64_ @calculatedFrom(""{,}""),
    repeat string chars,
    zchar[7] calculatedFrom,
    Header {
        char u `two words`,
        repeat char[] tag `say ""hi""`,
        Z9_ @lengthOf(T) `line1
                line2`,
    },
    msg_type @calculatedFrom(""// no comment""),
    @rightPad('\x00')
    @lengthOf(asx)
    falsey,
}// packet A { u8 x, }")).
Eval vm_compute in ("<<<M1309>>>" ++ check (runes_of_ascii "// top
packet // c0a
  // c0b
A { // c2
u8 // c3a
  // c3b
a , // c5
} // c6a
  // c6b
packet // c7a
  // c7b
B {
    // c9
u16 b // c11
, } // c13a
  // c13b
packet // c14
C
    // c15
{
    // c16
u32
    // c17
c // c18
, // c19a
  // c19b
}
    // c20
root packet // c22a
  // c22b
M // c23
{ u16 Kc
    // c26
,
    // c27
u16 // c28a
  // c28b
Kb , // c30
u16 Ka
    // c32
, match // c34a
  // c34b
Kc // c35
as X
    // c37
{
    // c38
9 // c39
:
    // c40
A
    // c41
, 10 :
    // c44
B
    // c45
,
    // c46
} , match
    // c49
Kb // c50
as // c51a
  // c51b
Y // c52
{ 2 // c54a
  // c54b
:
    // c55
C , // c57
1 // c58
: A , // c61a
  // c61b
} // c62
, // c63a
  // c63b
match
    // c64
Ka as // c66
Z // c67
{
    // c68
1 // c69a
  // c69b
: B // c71a
  // c71b
, // c72
} // c73a
  // c73b
, // c74
A // c75a
  // c75b
, // c76
B
    // c77
,
    // c78
C , // c80
} ")).
Eval vm_compute in ("<<<M168>>>" ++ check (runes_of_ascii "options
//x
// @lengthOf(
{
    Foo =""// no comment""
/// triple
//	t
; }
packet float {
} packet
    len { @lengthOf(
    _x ) stringy{
    metadata	@calculatedFrom( ""a\\"" )
, } ,
//x
//
}	packet asx {
@tag( 0 ) repeat float64
A`say ""hi""` ,
//
// trailing space 
i16 int
    `say ""hi""` , @calculatedFrom( """ ++ [128512]%N ++ runes_of_ascii """) lengthOf Header `two words` ,
f32a
    zchar , @rightPad
    ( '0'
)repeat string_
    // packet A { u8 x, }
    chars ``  , @tag( 4294967296)
    @calculatedFrom( ""a	b"" )repeat
    msg_type,  @leftPad( ) repeat f64 _x ,	repeat As { Logon @lengthOf(
calculatedFrom) `two words` ,
    repeat u64 o `u8 x,`	, } , @calculatedFrom(
""packet"" ) repeat // @lengthOf(
uint8 u ,} packet
uint8x{@leftPad ( '0'
    )
//	t
//x
zchar[
// packet A { u8 x, }
// " ++ [27880; 37322]%N ++ runes_of_ascii "
255
    ]	metadata `a\`
    ,//
} // `tick` ""quote"" 'q'")).
Eval vm_compute in ("<<<M1504>>>" ++ check (runes_of_ascii "
// top
options 
    // c0
  {  
      // c1
zchar 

    // c2
  	= 
        // c3

	true
    // c4
      ; 
  // c5
	  Pad 
	    // c6
=
    // c7
char[  
  // c8
	00 

// c9
  ]
// c10
a1
	// c11
	= 
  // c12
	uint32 
      // c13

BodyLength 
    // c14
	=
    // c15

true 
	// c16

  ; 

    // c17
	} 

    // c18
  root
    // c19
    packet 
        // c20
  T
        // c21
      { 
        // c22
    @lengthOf(
// c23
	repeatCount 
// c24
)
    // c25
@tag(

// c26

1  
  // c27

)

    // c28
	@calculatedFrom(
// c29
	""a	b"" 
// c30
  ) 
// c31
      string
    // c32
stringy

// c33
@calculatedFrom(
    // c34
    ""\n"" 
  // c35
	  )
// c36

`u8 x,`

    // c37
    , 
	    // c38
} 
    // c39")).
Eval vm_compute in ("<<<M1411>>>" ++ check (runes_of_ascii "packet tag {
    @calculatedFrom(""x y"")
    lengthOf {
        options1 `
                `,
    },
    @tag(7)
    int {
        //x
        // " ++ [27880; 37322]%N ++ runes_of_ascii "
        char[007] calculatedFrom @lengthOf(metadata),
        tag @lengthOf(falsey),
        f32 calculatedFrom `{ , }`,
        i8i8 {
            string i64_ @lengthOf(asx) `it's`,
            u @calculatedFrom(""\n""),
        },
    },
    @calculatedFrom(""abc"")
    @leftPad(' ')
    uint64 calculatedFrom,// " ++ [27880; 37322]%N ++ runes_of_ascii "
}

packet o {
    Header,
    @lengthOf(i8i8)
    float32 Pad,
    char[42] leftPad @calculatedFrom(""""),
    @tag(255)
    body u,
}

packet lengthOf {
    @tag(255)
    char[0123456789] o `
        `,
}")).
Eval vm_compute in ("<<<M206>>>" ++ check (runes_of_ascii "//x
root
    // " ++ [128512]%N ++ runes_of_ascii " emoji
    packet
// `tick` ""quote"" 'q'
/// triple
float{options1 A
,@tag(
42 )
    u8x{ tag //x
@calculatedFrom(	""\" ++ [233]%N ++ runes_of_ascii """) // packet A { u8 x, }
`tab	here` ,
    }
    , int16 asx ,
    @lengthOf( o
    )
@rightPad( ) repeat int
/// triple
/// triple
Logon,@calculatedFrom(""// no comment"" )  @leftPad('\x00')
    @rightPad('0'	)	zchar[ 65535 //x
] o `
`
    ,
    repeat As{ //x
repeat uint16 o ,repeat
char[ // trailing space 
1
    ]o ,
u128
metadata	, repeat char[7	] Header ,
    } , @tag( 0123456789
    ) a1 tag
    , float32 asx ,
    repeat // packet A { u8 x, }
len
``
    ,}
")).
Eval vm_compute in ("<<<M1888>>>" ++ check (runes_of_ascii "
packet
	charz{ 
        // " ++ [27880; 37322]%N ++ runes_of_ascii "
/// triple
      repeat	// c

	string
	int	`" ++ [28040; 24687; 31867; 22411]%N ++ runes_of_ascii "` 
,
@calculatedFrom(""it's"")@tag(
	255) f64  // a // b
	  asx

    ,	string T
    `doc`

    ,
zchar[

007
    ]
    tag	@lengthOf(  //
  	Z9_ ) 
`// not a comment` 
,
} options  {	u  = u16  ;

} 
MetaData

chars
    {i16 falsey, 
f64 pack
,char[
    1	] asx `it's`
	,	char[]
	body
,  
      // `tick` ""quote"" 'q'

  //x
	}packet 
leftPad
	{
@rightPad 
( 
    // @lengthOf(
    //x
	)
repeat Pad
float

`{ , }`, }

    options
    { roots =
true

; }")).
Eval vm_compute in ("<<<M1237>>>" ++ check (runes_of_ascii "// top
options // c0
{ // c1
zchar // c2
= // c3
true // c4
; // c5
Pad // c6
= // c7
char[ // c8
00 // c9
] // c10
a1 // c11
= // c12
uint32 // c13
BodyLength // c14
= // c15
true // c16
; // c17
} // c18
root // c19
packet // c20
T // c21
{ // c22
@lengthOf( // c23
repeatCount // c24
) // c25
@tag( // c26
1 // c27
) // c28
@calculatedFrom( // c29
""a	b"" // c30
) // c31
string // c32
stringy // c33
@calculatedFrom( // c34
""\n"" // c35
) // c36
`u8 x,` // c37
, // c38
} // c39
")).
Eval vm_compute in ("<<<M1363>>>" ++ check (runes_of_ascii "options {
    LittleEndian = true;
    StringPrefixLenType = u64;
    ArrayPrefixLenType = u16;
    FixedStringPadFromLeft = false;
    FixedStringPadChar = ' ';
}
packet Logon {
    zchar[5] Side2,
}
root packet Logout {
    repeat i64 Tail,
    Logon,
    repeat i16 OrderId,
    char[] venue,
    uint64 x,
    repeat i16 count,
    u8 Flags,
    match Flags as Body {
        25 : Logon,
    },
    u16 Qty @calculatedFrom(""CRC32""),
}
")).
Eval vm_compute in ("<<<M292>>>" ++ check (runes_of_ascii "packet/// triple
matchKey { float32 float,@calculatedFrom(""a\\""// " ++ [27880; 37322]%N ++ runes_of_ascii "
) @rightPad
( '\x00' )i16 tag  @calculatedFrom(""abc"" ) ,
repeat zchar[255
] pack
    , @lengthOf( Z9_ ) tag , } // trailing space 
root
packet rootA { repeat metadata { Logon , }, @tag( 10)
@lengthOf( A )
@tag( 007)
u32
    options1, match float as u {0123456789 : u8x ,} ,	}// " ++ [27880; 37322]%N ++ runes_of_ascii "
root packet lengthOf { }
")).
Eval vm_compute in ("<<<M1928>>>" ++ check (runes_of_ascii "// top
MetaData Packet {
}

// c3
packet charz {
    // c6
    Foo asx `it's`,// c10
    @lengthOf(T)
    @calculatedFrom("""")
    @calculatedFrom(""x y"")
    // c19
    zchar[007] repeatCount @lengthOf(int) `a\`,// c28
    i8 string_,// c31
    repeat options1 Pad,// c35
}// c36

root packet Packet {
    // c40
    int8 float `doc`,// c44
}// c45")).
Eval vm_compute in ("<<<M1555>>>" ++ check (runes_of_ascii "
options { LittleEndian 
= false
	; StringPrefixLenType=
    u16  ;
    }
    packet
Heartbeat { @rightPad(  '0'
    )	char[ 7	]seqNo

    ,  uint64

    Tail
    , i16  Flags ,
	u16

msgKind ,}root

    packet
	Reject
    {
	zchar[3
	]tag7
,repeat
Heartbeat ,

    repeat  string clOrdID
,
}

")).
Eval vm_compute in ("<<<M1491>>>" ++ check (runes_of_ascii "packet tag {
}

packet falsey {
    string charz @lengthOf(zchar),
    string u @calculatedFrom(""" ++ [233]%N ++ runes_of_ascii "t" ++ [233]%N ++ runes_of_ascii """) `// not a comment`,
    @leftPad('0')
    char[] leftPad @calculatedFrom(""a	b"") `// not a comment`,
    @calculatedFrom(""`tick`"")
    @lengthOf(roots)
    repeat MetaDataX,
}")).
Eval vm_compute in ("<<<M1375>>>" ++ check (runes_of_ascii "packet
    Sub 
{u8 a	, 
@calculatedFrom(  ""CRC16""

)
	i32 SubSum 
,
}
    root

packet
    Frame {
u16 
MsgType	,
u16	BodyLen	@lengthOf(
    Body) 
, 
Sub
	Body	,
string
	note
	,

@calculatedFrom(""CRC16"" )

i32	Checksum  ,
	u8 tail 
,

}")).
Eval vm_compute in ("<<<M18>>>" ++ check (runes_of_ascii "packet roots
// a // b
// " ++ [128512]%N ++ runes_of_ascii " emoji
{ // " ++ [27880; 37322]%N ++ runes_of_ascii "
@tag(0
)
    repeat // `tick` ""quote"" 'q'
zchar[
/// triple
//x
0
]x , } options { As =""\" ++ [233]%N ++ runes_of_ascii """ ;pack = ' ' ; int = // `tick` ""quote"" 'q'
'\x00' ; options1 =
""`tick`"" ; }")).
Eval vm_compute in ("<<<M1868>>>" ++ check (runes_of_ascii "  root packet
    As	{ //
	char  charz@lengthOf(	packetx)	`{ , }`

,	//

char[ 0123456789 ]	MetaDataX
	// " ++ [27880; 37322]%N ++ runes_of_ascii "
      // `tick` ""quote"" 'q'
`it's`,
	zchar[

7]

o

    `u8 x,` ,
	} ")).
Eval vm_compute in ("<<<M336>>>" ++ check (runes_of_ascii "
packet msg_type
{
    zchar[ 65535
    /// triple
    ]stringy // `tick` ""quote"" 'q'
@calculatedFrom( """ ++ [233]%N ++ runes_of_ascii "t" ++ [233]%N ++ runes_of_ascii """ )
,@tag( 0
) repeat i64_,
}
// packet A { u8 x, }
")).
Eval vm_compute in ("<<<M537>>>" ++ check (runes_of_ascii "packet uint8x
{ match pack
    as msg_type	{
    0123456789 :	float
}
,
} packet //	t
a1
    { } o'\x01'ptions {packetx
    = '\x00'	; u128= ""a	b""  ; }
")).
Eval vm_compute in ("<<<M436>>>" ++ check (runes_of_ascii "packet uint8x
{ match pack
    as msg_type	{
    0123456789 : :	float
}
,
} packet //	t
a1
    { } options {packetx
    = '\x00'	; u128= ""a	b""  ; }
")).
Eval vm_compute in ("<<<M1441>>>" ++ check (runes_of_ascii "packet A {
    Inner {
        match k as n {
            [
                1, 22, 007, 4, 5,
                66
            ] : B,
        },
    },
}")).
Eval vm_compute in ("<<<M517>>>" ++ check (runes_of_ascii "packet uint8x
{ match pack
    as msg_type	{
    0123456789 :	float
}
,
} packet //	t
a1
    { } options {packetx
    = '\x00'	; u128""a	b"" =  ; }
")).
Eval vm_compute in ("<<<M503>>>" ++ check (runes_of_ascii "packet uint8x
{ match pack
    as msg_type	{
    0123456789 :	float
}
,
} packet //	t
a1
    { } options {packetx
    = char	; u128= ""a	b""  ; }
")).
Eval vm_compute in ("<<<M691>>>" ++ check (runes_of_ascii "// @lengthOf(
packet i8i8 { u128 o , }
options f64 MetaDataX = true;
    BodyLength =""packet"" x_y_z= 007
crc //x
= ""abc"" ;
    msg_type =
i16 }")).
Eval vm_compute in ("<<<M694>>>" ++ check (runes_of_ascii "// @lengthOf(
packet i8i8 { u128 o , }
options { MetaDataX = true;
    = BodyLength""packet"" x_y_z= 007
crc //x
= ""abc"" ;
    msg_type =
i16 }")).
Eval vm_compute in ("<<<M1263>>>" ++ check (runes_of_ascii "
packet B {u8 
a ,
}  root	packet P
{

    u8
K, 
u64	L
@lengthOf(

Body
)	, match
    K
as

    Body
{ 1

    : 
B

,
}	, }

")).
Eval vm_compute in ("<<<M1270>>>" ++ check (runes_of_ascii "options {
    LittleEndian = true;
}
packet B {
    u8 a,
    string s,
}
root packet P {
    u16 L @lengthOf(B),
    B,
    u8 t,
}
")).
Eval vm_compute in ("<<<M504>>>" ++ check (runes_of_ascii "packet uint8x
{ match pack
    as msg_type	{
    0123456789 :	float
}
,
} packet //	t
a1
    { } options {packetx
    =")).
Eval vm_compute in ("<<<M1154>>>" ++ check (runes_of_ascii "MetaData leftPad { chars MetaDataX ,
// c
} packet repeatCount { char[ 255 ] uint8x `" ++ [233]%N ++ runes_of_ascii "` , } MetaData pack { As Foo , }")).
Eval vm_compute in ("<<<M1186>>>" ++ check (runes_of_ascii "MetaData leftPad { chars MetaDataX , } packet repeatCount { char[ 255 ] uint8x `" ++ [233]%N ++ runes_of_ascii "` , } MetaData pack { As Foo
// c
, }")).
Eval vm_compute in ("<<<M239>>>" ++ check (runes_of_ascii "options { lengthOf =3
trueish
// packet A { u8 x, }
// trailing space 
=
    true
; calculatedFrom =
007;} 	 ")).
Eval vm_compute in ("<<<M1797>>>" ++ check (runes_of_ascii "  packet	A { match  k as
	n{  [
    ""a""
    ,
22 
,

    ""c c"",
    4	, ""e""
    ] :B 2
    :
C}
,  }
")).
Eval vm_compute in ("<<<M920>>>" ++ check (runes_of_ascii "packet A {
    Inner {
        u8 x `a
b`,
        Deep {
            u8 y `a
b`,
        },
    },
}")).
Eval vm_compute in ("<<<M904>>>" ++ check (runes_of_ascii "packet A {
  match k as n {
    [1, 22, 007, 4, 5, 66, 7, 8, 9, 10, 11, 12] : B,
    2 : C
  },
}")).
Eval vm_compute in ("<<<M887>>>" ++ check (runes_of_ascii "packet A {
  match k as n {
    [1, 22, ""c c"", 4, 5, ""f"", 7, 8, ""i"", 10] : B
    2 : C
  },
}")).
Eval vm_compute in ("<<<M870>>>" ++ check (runes_of_ascii "packet A {
  match k as n {
    [1, ""bb"", 007, ""d"", 5, ""f"", 7, ""h"", 9] : B
    2 : C
  },
}")).
Eval vm_compute in ("<<<M859>>>" ++ check (runes_of_ascii "packet A {
  match k as n {
    [""a"", 22, ""c c"", 4, ""e"", 66, ""g"", 8] : B
    2 : C
  },
}")).
Eval vm_compute in ("<<<M592>>>" ++ check (runes_of_ascii "
packet
    asx {match u128 as lengthOf
{
//	t
// `tick` ""quote"" 'q'
 : x ,
    } ,	}")).
Eval vm_compute in ("<<<M647>>>" ++ check (runes_of_ascii "// @lengthOf(
packet i8i8 { u128 o , }
options { MetaDataX = true;
    BodyLength =")).
Eval vm_compute in ("<<<M834>>>" ++ check (runes_of_ascii "packet A {
  match k as n {
    [1, 22, ""c c"", 4, 5, ""f""] : B,
    2 : C
  },
}")).
Eval vm_compute in ("<<<M606>>>" ++ check (runes_of_ascii "
packet
    asx {match u128 as lengthOf
{
//	t
// `tick` ""quote"" 'q'
255 :")).
Eval vm_compute in ("<<<M1099>>>" ++ check (runes_of_ascii "packet A {
    match k as n {
        1 : B // c
        , // d
    },
}")).
Eval vm_compute in ("<<<M739>>>" ++ check (runes_of_ascii "zchar[ i64 @calculatedFrom( match false ) Header char[ @lengthOf( :")).
Eval vm_compute in ("<<<M918>>>" ++ check (runes_of_ascii "packet A {
    B b `a
b`,
    B `a
b`,
    repeat B bs `a
b`,
}")).
Eval vm_compute in ("<<<M812>>>" ++ check (runes_of_ascii "packet A { Inner { match k as n { [1,22,007,4] : B, }, }, }")).
Eval vm_compute in ("<<<M1485>>>" ++ check (runes_of_ascii "packet A {
    match k as n {
        1 : B,
    },
}")).
Eval vm_compute in ("<<<M332>>>" ++ check (runes_of_ascii "MetaData o
    { } MetaData T  {
    } options { }")).
Eval vm_compute in ("<<<M763>>>" ++ check (runes_of_ascii "@calculatedFrom( true ; MetaData """ ++ [233]%N ++ runes_of_ascii "t" ++ [233]%N ++ runes_of_ascii """ match")).
Eval vm_compute in ("<<<M1240>>>" ++ check (runes_of_ascii "root packet P {
    char c,
    u8 x,
}
")).
Eval vm_compute in ("<<<M1646>>>" ++ check (runes_of_ascii "packet A {
    u8 x `
        x`,
}")).
Eval vm_compute in ("<<<M934>>>" ++ check (runes_of_ascii "root packet A {
    u8 x `
`,
}")).
Eval vm_compute in ("<<<M1725>>>" ++ check (runes_of_ascii "  // c" ++ [8233]%N ++ runes_of_ascii "
packet
    A 
{ 
}

")).
Eval vm_compute in ("<<<M1775>>>" ++ check (runes_of_ascii "  packet
A

{} // c" ++ [6158]%N ++ runes_of_ascii "
 
")).
Eval vm_compute in ("<<<M1103>>>" ++ check (runes_of_ascii "// c
MetaData tag { }")).
Eval vm_compute in ("<<<M1134>>>" ++ check (runes_of_ascii "MetaData u { // c
}")).
Eval vm_compute in ("<<<M1032>>>" ++ check (runes_of_ascii "// c" ++ [11]%N ++ runes_of_ascii "
packet A {
}")).
Eval vm_compute in ("<<<M1019>>>" ++ check (runes_of_ascii "packet A {
}// c" ++ [8239]%N)).
Eval vm_compute in ("<<<M712>>>" ++ check (runes_of_ascii "// @lengthOf(
")).
Eval vm_compute in ("<<<M1579>>>" ++ check (runes_of_ascii "
//
")).
Eval vm_compute in ("<<<M769>>>" ++ check ([12]%N ++ runes_of_ascii "7" ++ [30]%N)).
