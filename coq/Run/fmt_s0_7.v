From FP Require Import Lexer Parser ShowPT Digest Formatter.
From Coq Require Import String List NArith.
Import ListNotations.
Open Scope string_scope.
Set Printing Width 100000000.
Set Printing Depth 100000000.
Definition show_fres (r : fres) : string :=
  match r with
  | FOk s => "OK:" ++ sh_escaped s ""
  | FErr s => "ERR:" ++ sh_escaped s ""
  | FPanic p => "PANIC:" ++ p
  end.
Definition check (rs : list rune) : string := digest (show_fres (format_res rs)).
Definition full (rs : list rune) : string := show_fres (format_res rs).
Eval vm_compute in ("<<<M1361>>>" ++ check (runes_of_ascii "options { // c1a
  // c1b
StringPrefixLenType =
    // c3
u8 // c4
; ArrayPrefixLenType // c6a
  // c6b
= u32 // c8a
  // c8b
; // c9
FixedStringPadFromLeft // c10
=
    // c11
true // c12
; FixedStringPadChar // c14
= // c15a
  // c15b
' ' // c16a
  // c16b
; // c17a
  // c17b
} // c18a
  // c18b
packet // c19a
  // c19b
Leg
    // c20
{
    // c21
} // c22a
  // c22b
packet
    // c23
Heartbeat
    // c24
{ // c25a
  // c25b
zchar[ // c26
6 // c27a
  // c27b
] msgKind ,
    // c30
@rightPad // c31
(
    // c32
'0' // c33a
  // c33b
)
    // c34
char[ // c35a
  // c35b
3
    // c36
] Qty
    // c38
, // c39a
  // c39b
zchar[ // c40
9 // c41a
  // c41b
] // c42a
  // c42b
Side2 // c43a
  // c43b
, // c44
i8 // c45a
  // c45b
Acct
    // c46
, } // c48
packet Logout // c50a
  // c50b
{ // c51
int8 // c52
x
    // c53
, // c54
} packet
    // c56
Order { // c58a
  // c58b
char[] // c59a
  // c59b
Acct
    // c60
, // c61
zchar[ // c62
8 ] // c64
count // c65a
  // c65b
,
    // c66
u32 // c67
OrderId // c68a
  // c68b
, // c69
uint8 // c70a
  // c70b
lastPx // c71
, u16 clOrdID // c74
, // c75a
  // c75b
zchar[ // c76
7 ] Note
    // c79
, // c80a
  // c80b
} root // c82
packet
    // c83
Reject
    // c84
{ // c85a
  // c85b
@leftPad (
    // c87
' '
    // c88
)
    // c89
char[ // c90a
  // c90b
8 // c91
] // c92
Side2 ,
    // c94
i8
    // c95
clOrdID // c96a
  // c96b
, // c97
repeat // c98a
  // c98b
f32 // c99a
  // c99b
x // c100a
  // c100b
, // c101
u32 lastPx // c103a
  // c103b
,
    // c104
match // c105a
  // c105b
lastPx // c106
as Body // c108a
  // c108b
{
    // c109
[
    // c110
30 , // c112a
  // c112b
147 // c113a
  // c113b
]
    // c114
: // c115a
  // c115b
Heartbeat
    // c116
, 134 : Leg // c120
,
    // c121
183
    // c122
:
    // c123
Logout , // c125
40 // c126a
  // c126b
: Order // c128
, } // c130
, // c131
u16 Ref // c133a
  // c133b
@calculatedFrom( // c134
""CRC32""
    // c135
) , } // c138
")).
Eval vm_compute in ("<<<M1861>>>" ++ check (runes_of_ascii "packet  asx
{leftPad 
@calculatedFrom(
    """ ++ [233]%N ++ runes_of_ascii "t" ++ [233]%N ++ runes_of_ascii """ )

,@leftPad
	( '0'

)
// trailing space 
    u8x	As	`crlf
line` ,

    char[
	3
]
asx

@calculatedFrom( ""{,}""
)

, 
// @lengthOf(

// trailing space 
	  repeat
u128 { int	{packetx
    @calculatedFrom(""packet""

)
    ,
	match  T  as  T {	""a	b""
	:
o
	, }

,
zchar[
    00
]
lengthOf 
`{ , }`
, 
  /// triple
    // trailing space 
  	char[] crc  @calculatedFrom( ""abc""	)

,
    }
,

    Header	@calculatedFrom( """ ++ [233]%N ++ runes_of_ascii "t" ++ [233]%N ++ runes_of_ascii """) `two words`

    , repeat
uint8 uint8x , repeat 
//
	char[	0123456789
    ]float	`u8 x,`

, }  ,
    packetx	x`say ""hi""`

    ,
	@rightPad

( ) 
i8i8
	@calculatedFrom(""x y"" )	,  @leftPad ()
	BodyLength{ 
repeat int32
_x  ``
	,

    i8 msg_type`doc`  //
,  }
,

    }
    // `tick` ""quote"" 'q'

	// packet A { u8 x, }
	packet	body{
	}
	packet
    repeatCount {
    zchar[
3	]	Packet

, 
@lengthOf(// @lengthOf(
	Header
)
    i64 
    // c
  // c
Packet

`two words`, zchar[
65535
]

    calculatedFrom`tab	here` //	t
  , match

x  as

leftPad{
""// no comment""  : 
rootA  ,""`tick`""
: o
,} ,// " ++ [128512]%N ++ runes_of_ascii " emoji
	  zchar[ 	 //	t
	3  ]  
  // packet A { u8 x, }

	// " ++ [27880; 37322]%N ++ runes_of_ascii "
		u128
@calculatedFrom( ""{,}""
	)
`{ , }` , 
}

//	t
    	options
    { u
=char[

42

] 	 // " ++ [27880; 37322]%N ++ runes_of_ascii "
	  metadata 
=

""a\\""  ;Logon =
	string	;Z9_	=u16
    ; }

")).
Eval vm_compute in ("<<<M387>>>" ++ check (runes_of_ascii "options {
	StringPrefixLenType = u16;
	ArrayPrefixLenType = u16;
}

packet SampleBinary {
	uint16 MsgType `" ++ [28040; 24687; 31867; 22411]%N ++ runes_of_ascii "`,
	u16 BodyLenght @lengthOf(Body) `" ++ [28040; 24687; 20307; 38271; 24230]%N ++ runes_of_ascii "`,
	match MsgType as Body {
		1 : Logon,
		2 : Logout,
		3 : Heartbeat,
		4 : RiskControlRequest,
		5 : RiskControlResponse,
	},
	@calculatedFrom(""CRC32"")
	u32 Ckecksum `" ++ [26657; 39564; 21644]%N ++ runes_of_ascii "`,
}

packet Logon {
	@leftPad('0')
	char[10] UserName `" ++ [29992; 25143; 21517]%N ++ runes_of_ascii "`,
	string Password `" ++ [23494; 30721]%N ++ runes_of_ascii "`,
	uint64 ClientId `" ++ [23458; 25143; 31471]%N ++ runes_of_ascii "ID`,
	u16 HeartbeatInterval `" ++ [24515; 36339; 38388; 38548]%N ++ runes_of_ascii "`,
}

packet Logout {
	@rightPad('0')
	char[10] UserName `" ++ [29992; 25143; 21517]%N ++ runes_of_ascii "`,
	uint64 ClientId `" ++ [23458; 25143; 31471]%N ++ runes_of_ascii "ID`,
}

packet Heartbeat {
}

packet RiskControlRequest {
	string UniqueOrderId `" ++ [21807; 19968; 35746; 21333; 21495]%N ++ runes_of_ascii "`,
	char[16] ClOrdID `" ++ [23458; 25143; 35746; 21333; 21495]%N ++ runes_of_ascii "`,
	char[3] MarketID `" ++ [24066; 22330]%N ++ runes_of_ascii "id`,
	char[12] SecurityID `" ++ [35777; 21048; 20195; 30721]%N ++ runes_of_ascii "`,
	char Side `" ++ [20080; 21334; 26041; 21521]%N ++ runes_of_ascii "`,
	char OrderType `" ++ [35746; 21333; 31867; 22411]%N ++ runes_of_ascii "`,
	u64 Price `" ++ [20215; 26684]%N ++ runes_of_ascii "`,
	u32 Qty `" ++ [25968; 37327]%N ++ runes_of_ascii "`,
	repeat string ExtraInfo `" ++ [38468; 21152; 20449; 24687]%N ++ runes_of_ascii "`,
	repeat SubOrder {
		char[16] ClOrdID `" ++ [23376; 35746; 21333; 21495]%N ++ runes_of_ascii "`,
		u64 Price `" ++ [23376; 35746; 21333; 20215; 26684]%N ++ runes_of_ascii "`,
		u32 Qty `" ++ [23376; 35746; 21333; 25968; 37327]%N ++ runes_of_ascii "`,
	},
}

packet RiskControlResponse {
	string UniqueOrderId `" ++ [21807; 19968; 35746; 21333; 21495]%N ++ runes_of_ascii "`,
	i32 Status `" ++ [29366; 24577]%N ++ runes_of_ascii "`,
	string Msg `" ++ [32467; 26524; 20449; 24687]%N ++ runes_of_ascii "`,
	repeat Detail,
}

packet Detail {
	string RuleName `" ++ [35268; 21017; 21517; 31216]%N ++ runes_of_ascii "`,
	u16 Code `" ++ [21407; 22240; 20195; 30721]%N ++ runes_of_ascii "`,
}")).
Eval vm_compute in ("<<<M1341>>>" ++ check (runes_of_ascii "options {
    FixedStringPadFromLeft = true;
    FixedStringPadChar = '0';
}
packet Leg {
    InPrice0 {
        repeat string clOrdID,
        int16 msgKind,
        zchar[5] Px,
    },
    i16 f1,
    repeat f64 Side2,
    string Acct,
}
packet Cancel {
    zchar[4] clOrdID,
    string seqNo,
    Leg,
    @leftPad('0') char[11] OrderId,
}
packet Quote {
    repeat char[4] sym,
    f64 OrderId,
    repeat Leg,
    repeat i64 f1,
    int16 Note,
    zchar[3] count,
}
root packet Ack {
    @leftPad(' ') char[10] sym,
    InPx60 {
        Cancel,
        repeat char[1] f1,
        string Tail,
        repeat InNote55 {
            int8 count,
            f64 f1,
            repeat Cancel,
        },
        char[] tag7,
        repeat string msgKind,
    },
    u8 lastPx,
    match lastPx as Body {
        152 : Quote,
        173 : Cancel,
        4 : Leg,
    },
    u16 Ref @calculatedFrom(""CR\
C32""),
}
")).
Eval vm_compute in ("<<<M104>>>" ++ check (runes_of_ascii "options{  matchKey = ""x y""
    ;	MetaDataX
= '0'
;
} packet // c
msg_type { @rightPad ( ' '  )repeat u128 body	, match body	as /// triple
pack{ [ ""\" ++ [233]%N ++ runes_of_ascii """ , ""1"" ]: BodyLength
, [ 255
, ""a	b"" , ""a\\"" , ""{,}""
,  007 , 007 ,
    0123456789
] : options1	,	} ,@leftPad
()@lengthOf(charz	)
@tag(	42
) o{	i32 msg_type @lengthOf( A )// " ++ [27880; 37322]%N ++ runes_of_ascii "
`doc` ,zchar[ 1] charz  , // c
i8 packetx`{ , }`,
msg_type `crlf
line`
    , }	,
@calculatedFrom( ""\" ++ [233]%N ++ runes_of_ascii """ ) Z9_ @calculatedFrom(
""" ++ [128512]%N ++ runes_of_ascii """ )`tab	here` ,
repeat char[] Foo ,
repeat zchar[ 0123456789]	u128
, }	packet f32a{
    f32a @lengthOf( matchKey )//x
, @rightPad (
    ' ' // " ++ [27880; 37322]%N ++ runes_of_ascii "
)@lengthOf( chars ) _x Foo  `` ,  match
    body // c
as
    body
    {	[4294967296
    , ""packet"", 3 , """ ++ [128512]%N ++ runes_of_ascii """
,
0123456789  ]
: T [ ""a\\"" ]// `tick` ""quote"" 'q'
: T
, ""\n""
:
u8x , }
//	t
//x
,} //x
root packet lengthOf
{ }
")).
Eval vm_compute in ("<<<M1117>>>" ++ check (runes_of_ascii "// top
MetaData
    // c0
Packet
    // c1
{
    // c2
}
    // c3
packet
    // c4
charz
    // c5
{
    // c6
Foo
    // c7
asx
    // c8
`it's`
    // c9
,
    // c10
@lengthOf(
    // c11
T
    // c12
)
    // c13
@calculatedFrom(
    // c14
""""
    // c15
)
    // c16
@calculatedFrom(
    // c17
""x y""
    // c18
)
    // c19
zchar[
    // c20
007
    // c21
]
    // c22
repeatCount
    // c23
@lengthOf(
    // c24
int
    // c25
)
    // c26
`a\`
    // c27
,
    // c28
i8
    // c29
string_
    // c30
,
    // c31
repeat
    // c32
options1
    // c33
Pad
    // c34
,
    // c35
}
    // c36
root
    // c37
packet
    // c38
Packet
    // c39
{
    // c40
int8
    // c41
float
    // c42
`doc`
    // c43
,
    // c44
}
    // c45
")).
Eval vm_compute in ("<<<M243>>>" ++ check (runes_of_ascii "// a // b
packet stringy { @tag( 3 ) // trailing space 
i64
    len
,@calculatedFrom( ""1""  ) char[
0 ]
x @lengthOf(Foo )
,@calculatedFrom( """" )
body
// c
// " ++ [128512]%N ++ runes_of_ascii " emoji
@lengthOf(
calculatedFrom )`line1
line2`
    , @calculatedFrom( ""it's"" // " ++ [128512]%N ++ runes_of_ascii " emoji
)// packet A { u8 x, }
match falsey
    // packet A { u8 x, }
    as u8x {[
""" ++ [128512]%N ++ runes_of_ascii """
    , // a // b
42 , 1 ,10 ]
: Header , } ,
// trailing space 
// `tick` ""quote"" 'q'
} MetaData// " ++ [128512]%N ++ runes_of_ascii " emoji
stringy{ f32a
    u128 `{ , }` , char[ // a // b
10 ]u128	, chars _x , zchar[ 65535 // trailing space 
]/// triple
falsey
    `{ , }`
    , _x i64_
, int32
Packet
`crlf
line` , } MetaData lengthOf
{
    }
// trailing space 
")).
Eval vm_compute in ("<<<M1917>>>" ++ check (runes_of_ascii "packet Header {
    char[10] A `it's`,
    @calculatedFrom(""" ++ [28040; 24687]%N ++ runes_of_ascii """)
    calculatedFrom @lengthOf(zchar) `tab	here`,
    u32 BodyLength,
    @lengthOf(stringy)
    //
    @rightPad(' ')
    @tag(0123456789)
    body {
        match i8i8 as Foo {
            [7, ""CRC32""] : options1,
            [
                ""a\""b"", """ ++ [128512]%N ++ runes_of_ascii """, ""it's"", ""a	b"", ""// no comment"",
                ""it's"", 7, ""abc""
            ] : As,
            1 : _x,
            // " ++ [128512]%N ++ runes_of_ascii " emoji
            //
        },
        repeat uint8x {
            crc @calculatedFrom(""a\\""),
        },
        repeat i8 tag,// " ++ [128512]%N ++ runes_of_ascii " emoji
    },
}")).
Eval vm_compute in ("<<<M1571>>>" ++ check (runes_of_ascii "
root 
packet
Logon
    {

@calculatedFrom(

"""" ) @lengthOf(	int

    ) @tag(  3 )
match
_x 
as	// a // b
    i64_

    {
10 :
    asx

    // `tick` ""quote"" 'q'
	  /// triple
  """ ++ [128512]%N ++ runes_of_ascii """
:

crc	,
	[0
	,
007

]  :float
	,  // trailing space 
		} 
,

repeat 	 //	t
  	uint16

    leftPad

,
    } 

    // " ++ [27880; 37322]%N ++ runes_of_ascii "
  packet

charz{  }  MetaData
	int

{  
  //
// trailing space 
      zchar[
    4294967296

]matchKey
	, asx rootA
    `doc`

,Foo
	string_
	`// not a comment` , 
char[] u8x
,  // `tick` ""quote"" 'q'
    roots
    float, }")).
Eval vm_compute in ("<<<M1883>>>" ++ check (runes_of_ascii "

  // top

  MetaData
	// c0

uint8x // c1
	  {char[] 

// c3

  f32a// c4a
	// c4b
  `// not a comment`  
      // c5
,// c6a
  // c6b
  float32 // c7

  roots 
	// c8
	, 	 // c9
  	char[ // c10a

// c10b
  	7// c11
  ]// c12

u8x  // c13
	, 	 // c14a
  // c14b
  zchar[
	    // c15
    10 
	// c16
  ]  // c17

f32a 	 // c18

	,	// c19a
		// c19b
      u64
	// c20
	pack 	 // c21a
  // c21b
	,

u16  
  // c23

	pack  // c24a
	// c24b
  ,
    // c25

	}
    // c26")).
Eval vm_compute in ("<<<M1375>>>" ++ check (runes_of_ascii "options {
    LittleEndian = true;
    StringPrefixLenType = u64;
    ArrayPrefixLenType = u16;
    FixedStringPadFromLeft = false;
    FixedStringPadChar = ' ';
}
packet Logon {
    zchar[5] Side2,
}
root packet Logout {
    repeat i64 Tail,
    Logon,
    repeat i16 OrderId,
    char[] venue,
    uint64 x,
    repeat i16 count,
    u8 Flags,
    match Flags as Body {
        25 : Logon,
    },
    u16 Qty @calculatedFrom(""CR\
C32""),
}
")).
Eval vm_compute in ("<<<M1271>>>" ++ check (runes_of_ascii "options { // c1a
  // c1b
LittleEndian
    // c2
= // c3
true // c4
; } // c6a
  // c6b
packet B { u8 // c10a
  // c10b
a
    // c11
, // c12a
  // c12b
string // c13
s // c14
, } // c16
root // c17a
  // c17b
packet
    // c18
P // c19
{ u16 // c21
L @lengthOf( B ) // c25a
  // c25b
, // c26a
  // c26b
B // c27a
  // c27b
,
    // c28
u8
    // c29
t // c30
, // c31
} // c32a
  // c32b
")).
Eval vm_compute in ("<<<M1877>>>" ++ check (runes_of_ascii "// top
packet A {
    // c2
    u8 a,
}// c6a

// c6b
packet B {
    u16 b,
    // c12
}

// c13
root packet P {
    // c17a
    // c17b
    u8 K1,// c20
    u8 K2,// c23a
    // c23b
    match K1 as M1 {
        // c28a
        // c28b
        1 : A,
        // c32a
        // c32b
    },
    match K2 as M2 {
        1 : B,
    },
    // c45
}// c46")).
Eval vm_compute in ("<<<M1402>>>" ++ check (runes_of_ascii "options {
    LittleEndian = true;
}

packet Logon {
    u8 x,
}

packet Logout {
    u16 reason,
}

root packet Frame {
    u64 Kind,
    u64 Kind2,
    match Kind as Body {
        1 : Logon,
        [2, 3, 4] : Logout,
        100 : Logon,
    },
    match Kind2 as Trailer {
        0 : Logout,
    },
}")).
Eval vm_compute in ("<<<M1384>>>" ++ check (runes_of_ascii "
packet

    Sub { u8	a ,	@calculatedFrom(
""CRC16"" )

    i32
	SubSum

    ,} root 
packet Frame
	{
    u16	MsgType 
,

    u16
BodyLen
@lengthOf(
    Body

) 
,
Sub  Body 
,  string

    note  , @calculatedFrom(

""CRC16""

) 
i32	Checksum

    ,
u8 tail,
	}
")).
Eval vm_compute in ("<<<M267>>>" ++ check (runes_of_ascii "packet trueish{
@leftPad (// @lengthOf(
'0'  ) @tag(  3/// triple
) @tag(
7 ) repeat
//x
// @lengthOf(
matchKey
{ u32 u,
}  , @lengthOf( chars
) @calculatedFrom(
""a	b"") @tag( 0123456789
    )zchar[255 ]Pad ,  } root
    packet u { }
")).
Eval vm_compute in ("<<<M273>>>" ++ check (runes_of_ascii "root packet string_ { @leftPad (
    ' ' )  chars { repeat
zchar[ 0
]  tag ,string falsey,// " ++ [128512]%N ++ runes_of_ascii " emoji
repeat  char[ 007] body  `two words`
    , } , @calculatedFrom(
""// no comment"" ) Foo T
    , // " ++ [128512]%N ++ runes_of_ascii " emoji
}
")).
Eval vm_compute in ("<<<M1603>>>" ++ check (runes_of_ascii "packet A {
    Inner {
        match k as n {
            [
                1, 22, 007, 4, 5,
                66, 7, 8, 9, 10,
                11
            ] : B,
        },
    },
}")).
Eval vm_compute in ("<<<M336>>>" ++ check (runes_of_ascii "
packet msg_type
{
    zchar[ 65535
    /// triple
    ]stringy // `tick` ""quote"" 'q'
@calculatedFrom( """ ++ [233]%N ++ runes_of_ascii "t" ++ [233]%N ++ runes_of_ascii """ )
,@tag( 0
) repeat i64_,
}
// packet A { u8 x, }
")).
Eval vm_compute in ("<<<M537>>>" ++ check (runes_of_ascii "packet uint8x
{ match pack
    as msg_type	{
    0123456789 :	float
}
,
} packet //	t
a1
    { } o'\x01'ptions {packetx
    = '\x00'	; u128= ""a	b""  ; }
")).
Eval vm_compute in ("<<<M436>>>" ++ check (runes_of_ascii "packet uint8x
{ match pack
    as msg_type	{
    0123456789 : :	float
}
,
} packet //	t
a1
    { } options {packetx
    = '\x00'	; u128= ""a	b""  ; }
")).
Eval vm_compute in ("<<<M1553>>>" ++ check (runes_of_ascii "packet Logon {
    metadata @calculatedFrom(""a\\""),
    @tag(42)
    // " ++ [128512]%N ++ runes_of_ascii " emoji
    @tag(65535)
    repeat u16 o `line1
    line2`,
}

packet float {
}")).
Eval vm_compute in ("<<<M522>>>" ++ check (runes_of_ascii "packet uint8x
{ match pack
    as msg_type	{
    0123456789 :	float
}
,
} packet //	t
a1
    { } options {packetx
    = '\x00'	; u128= ;  ""a	b"" }
")).
Eval vm_compute in ("<<<M700>>>" ++ check (runes_of_ascii "// @lengthOf(
packet i8i8 { u128 o , }
options { MetaDataX = true true;
    BodyLength =""packet"" x_y_z= 007
crc //x
= ""abc"" ;
    msg_type =
i16 }")).
Eval vm_compute in ("<<<M695>>>" ++ check (runes_of_ascii "// @lengthOf(
packet i8i8 { u128 o , }
options { MetaDataX = true;
    BodyLe@xngth =""packet"" x_y_z= 007
crc //x
= ""abc"" ;
    msg_type =
i16 }")).
Eval vm_compute in ("<<<M715>>>" ++ check (runes_of_ascii "// @lengthOf(
packet i8i8 { u128 o , options
} { MetaDataX = true;
    BodyLength =""packet"" x_y_z= 007
crc //x
= ""abc"" ;
    msg_type =
i16 }")).
Eval vm_compute in ("<<<M1907>>>" ++ check (runes_of_ascii "packet A {
    match k as n {
        [
            ""a"", ""bb"", ""c c"", ""d"", ""e"",
            ""f"", ""g""
        ] : B,
        2 : C,
    },
}")).
Eval vm_compute in ("<<<M1506>>>" ++ check (runes_of_ascii "
packet
	A

{

    match k
    as n {  [
    1 , 22
	, ""c c"" ,

4
    , 5 
,
	""f""
,
7

    ,  8
	,
    ""i"" ] :
	B 2 :
	C

} 
,

}")).
Eval vm_compute in ("<<<M937>>>" ++ check (runes_of_ascii "packet A {
    u16 len @lengthOf(body) `a
    b
  c`,
    u32 crc @calculatedFrom(""CRC32"") `a
    b
  c`,
    string body,
}")).
Eval vm_compute in ("<<<M1141>>>" ++ check (runes_of_ascii "// c
MetaData leftPad { chars MetaDataX , } packet repeatCount { char[ 255 ] uint8x `" ++ [233]%N ++ runes_of_ascii "` , } MetaData pack { As Foo , }")).
Eval vm_compute in ("<<<M1174>>>" ++ check (runes_of_ascii "MetaData leftPad { chars MetaDataX , } packet repeatCount { char[ 255 ] uint8x `" ++ [233]%N ++ runes_of_ascii "` ,
// c
} MetaData pack { As Foo , }")).
Eval vm_compute in ("<<<M1457>>>" ++ check (runes_of_ascii "packet A 
{ 
match
k
    as	n
    {

[

1	,

""bb""

    ,
	007

,
""d""

    , 
5 ]
    :
    B , 2 : C
	}  ,	}

")).
Eval vm_compute in ("<<<M880>>>" ++ check (runes_of_ascii "packet A {
  match k as n {
    [""a"", ""bb"", ""c c"", ""d"", ""e"", ""f"", ""g"", ""h"", ""i"", ""j""] : B,
    2 : C
  },
}")).
Eval vm_compute in ("<<<M867>>>" ++ check (runes_of_ascii "packet A {
  match k as n {
    [""a"", ""bb"", ""c c"", ""d"", ""e"", ""f"", ""g"", ""h"", ""i""] : B,
    2 : C
  },
}")).
Eval vm_compute in ("<<<M656>>>" ++ check (runes_of_ascii "// @lengthOf(
packet i8i8 { u128 o , }
options { MetaDataX = true;
    BodyLength =""packet"" x_y_z")).
Eval vm_compute in ("<<<M886>>>" ++ check (runes_of_ascii "packet A {
  match k as n {
    [1, 22, ""c c"", 4, 5, ""f"", 7, 8, ""i"", 10] : B,
    2 : C
  },
}")).
Eval vm_compute in ("<<<M618>>>" ++ check (runes_of_ascii "
packet
    asx {match u128 as lengthOf
{
//	t
// `tick` ""quote"" 'q'
255 : x ,
    } , ,	}")).
Eval vm_compute in ("<<<M589>>>" ++ check (runes_of_ascii "
packet
    asx {match u128 as lengthOf
255
//	t
// `tick` ""quote"" 'q'
{ : x ,
    } ,	}")).
Eval vm_compute in ("<<<M936>>>" ++ check (runes_of_ascii "packet A {
    B b `a
    b
  c`,
    B `a
    b
  c`,
    repeat B bs `a
    b
  c`,
}")).
Eval vm_compute in ("<<<M1597>>>" ++ check (runes_of_ascii "packet A {
    B b `x
        `,
    B `x
        `,
    repeat B bs `x
        `,
}")).
Eval vm_compute in ("<<<M1273>>>" ++ check (runes_of_ascii "options {
    FixedStringPadFromLeft = true;
}
root packet P {
    char[4] z,
}
")).
Eval vm_compute in ("<<<M166>>>" ++ check (runes_of_ascii "packet calculatedFrom {repeat // packet A { u8 x, }
string Foo`{ , }`	, }
")).
Eval vm_compute in ("<<<M1653>>>" ++ check (runes_of_ascii "  root packet	P{  u16 
a
,  u32
    Sum @calculatedFrom(
	""CRC32"") 
,} ")).
Eval vm_compute in ("<<<M792>>>" ++ check (runes_of_ascii "packet A {
  match k as n {
    [1, ""bb"", 007] : B
    2 : C
  },
}")).
Eval vm_compute in ("<<<M783>>>" ++ check (runes_of_ascii "packet A {
  match k as n {
    [1, ""bb""] : B
    2 : C
  },
}")).
Eval vm_compute in ("<<<M1089>>>" ++ check (runes_of_ascii "packet A { // a
 @tag(1) u8 x, // b
 // c
 @tag(2) u8 y, }")).
Eval vm_compute in ("<<<M1093>>>" ++ check (runes_of_ascii "packet A { repeat // a
 B // b
 b // c
 `d` // e
 , }")).
Eval vm_compute in ("<<<M1888>>>" ++ check (runes_of_ascii "MetaData M {
    u8 x `x
    `,
    T t `x
    `,
}")).
Eval vm_compute in ("<<<M756>>>" ++ check (runes_of_ascii "zchar ( : f64 ) , repeat f32 u16 float64 , ; :")).
Eval vm_compute in ("<<<M1411>>>" ++ check (runes_of_ascii "
root
	packet

A
	{
    u8
	x
`x
`
,	}
")).
Eval vm_compute in ("<<<M935>>>" ++ check (runes_of_ascii "packet A {
    u8 x `a
    b
  c`,
}")).
Eval vm_compute in ("<<<M1063>>>" ++ check (runes_of_ascii "packet A {
 u8 x `d x`, // c x
}")).
Eval vm_compute in ("<<<M1023>>>" ++ check (runes_of_ascii "packet A {
 u8 x `d" ++ [8239]%N ++ runes_of_ascii "`, // c" ++ [8239]%N ++ runes_of_ascii "
}")).
Eval vm_compute in ("<<<M953>>>" ++ check (runes_of_ascii "packet A {
    u8 x `
x`,
}")).
Eval vm_compute in ("<<<M1112>>>" ++ check (runes_of_ascii "MetaData tag { }
// c
")).
Eval vm_compute in ("<<<M1137>>>" ++ check (runes_of_ascii "MetaData u { }
// c
")).
Eval vm_compute in ("<<<M991>>>" ++ check (runes_of_ascii "packet A {
}
// c" ++ [133]%N)).
Eval vm_compute in ("<<<M1233>>>" ++ check (runes_of_ascii "packet x { }
// c
")).
Eval vm_compute in ("<<<M1435>>>" ++ check (runes_of_ascii "MetaData i64_ {
}")).
Eval vm_compute in ("<<<M3>>>" ++ check (runes_of_ascii "options {}

")).
Eval vm_compute in ("<<<M1015>>>" ++ check (runes_of_ascii "// c" ++ [8233]%N)).
Eval vm_compute in ("<<<M72>>>" ++ check (@nil rune)).
