From FP Require Import Lexer Parser ShowPT Digest Formatter.
From Coq Require Import String List NArith.
Import ListNotations.
Open Scope string_scope.
Set Printing Width 100000000.
Set Printing Depth 100000000.
Definition show_fres (r : fres) : string :=
  match r with
  | FOk s => "OK:" ++ sh_escaped s ""
  | FErr s => "ERR:" ++ sh_escaped s ""
  | FPanic p => "PANIC:" ++ p
  end.
Definition check (rs : list rune) : string := digest (show_fres (format_res rs)).
Definition full (rs : list rune) : string := show_fres (format_res rs).
Eval vm_compute in ("<<<M1427>>>" ++ check (runes_of_ascii "root packet u128 {
    @lengthOf(A)
    pack @calculatedFrom(""`tick`""),
    repeat char[] As `crlf
    line`,
    @tag(4294967296)
    @rightPad('\x00'	)
    @calculatedFrom(""a\\"")
    tag {
        repeat string o,
        char[] calculatedFrom `u8 x,`,
        u {
            u64 body `say ""hi""`,
            repeat f32 int,
            repeat rootA {
                repeat string i64_ `it's`,
                As @calculatedFrom("""") `" ++ [233]%N ++ runes_of_ascii "`,
                tag `" ++ [233]%N ++ runes_of_ascii "`,
            },
            zchar[65535] trueish,
        },
    },
    @lengthOf(Logon)
    i8 Packet,
    @tag(3)
    @lengthOf(chars)
    @tag(10)
    u8 Foo,
    // " ++ [128512]%N ++ runes_of_ascii " emoji
    i64_ _x `crlf
    line`,
    u32 A,
    match a1 as i8i8 {
        [""1"", 4294967296] : a1,
        """" : a1,
        007 : a1,
        [""CRC32""] : Header,
    },
    int64 As,
}

root packet chars {
    x_y_z {
        // a // b
        u32 u128,
        float64 metadata,
        trueish @calculatedFrom(""it's"") `u8 x,`,
    },
    @calculatedFrom(""\n"")
    repeat Foo pack,
    string asx @lengthOf(x_y_z) `a\`,
    uint8 trueish @calculatedFrom(""a\""b""),
    @leftPad( )
    char[007] a1 @lengthOf(a1) `crlf
    line`,
    rootA msg_type,
    zchar[1] u8x @calculatedFrom(""`tick`""),
}

options {
}

packet crc {
    // a // b
    @lengthOf(leftPad)
    @tag(7)
    //	t
    @lengthOf(options1)
    int32 asx,
    @rightPad( )
    pack roots,
    string a1 `say ""hi""`,
    match body as matchKey {
        [""`tick`""] : string_,
    },
    //	t
    repeat uint16 Packet,
    repeat uint8 i64_,
    @lengthOf(Pad)
    /// triple
    A `// not a comment`,
    char[] u8x,
    repeat char[007] pack,
    A {
        // " ++ [27880; 37322]%N ++ runes_of_ascii "
        x {
            string uint8x @lengthOf(leftPad) `say ""hi""`,
            Packet T,
            As @lengthOf(string_) `// not a comment`,
        },
        char[] _x @lengthOf(o),
        len x,
    },
    //
}")).
Eval vm_compute in ("<<<M1935>>>" ++ check (runes_of_ascii "packet packetx {
}

root packet repeatCount {
    int16 rootA @lengthOf(len) ``,
    i32 A @calculatedFrom(""a\\""),
    i16 asx @calculatedFrom(""x y""),
    repeat char[] x,
}

root packet lengthOf {
    @leftPad( '0')
    @calculatedFrom(""\" ++ [233]%N ++ runes_of_ascii """)
    @lengthOf(Z9_)
    repeat char[] As,
    @rightPad( ' ' // @lengthOf(
    )
    repeat zchar,
    match a1 as pack {
        [3] : lengthOf,
        [007, ""x y""] : A,
    },
    repeat chars {
        char[4294967296] body,
        body @lengthOf(pack),
        string Z9_,
    },
    @leftPad( ' ' )
    zchar[255] Header,
    @tag(0)
    repeat char[00] roots,
    match crc as body {
        ""`tick`"" : a1,
    },
    @tag(1)
    char[] rootA @calculatedFrom(""" ++ [233]%N ++ runes_of_ascii "t" ++ [233]%N ++ runes_of_ascii """),
}

packet pack {
    match Packet as repeatCount {
        //x
        ""a	b"" : pack,
    },
    packetx packetx,//	t
    match o as Packet {
        // a // b
        0123456789 : lengthOf,
        // `tick` ""quote"" 'q'
        ""CRC32"" : i64_,
        1 : asx,
        ""\" ++ [233]%N ++ runes_of_ascii """ : o,
        ""a	b"" : u128,
        ""// no comment"" : Packet,
        // `tick` ""quote"" 'q'
    },
    @leftPad( '0')
    @calculatedFrom(""" ++ [128512]%N ++ runes_of_ascii """)
    A @calculatedFrom(""{,}"") `u8 x,`,
    @tag(255)
    float32 MetaDataX,
    char[] u128 @lengthOf(zchar),
    match x as _x {
        00 : A,
    },
    //	t
}")).
Eval vm_compute in ("<<<M1385>>>" ++ check (runes_of_ascii "// top
options // c0
{ LittleEndian
    // c2
= false ; // c5
StringPrefixLenType
    // c6
= // c7a
  // c7b
u16 // c8
;
    // c9
FixedStringPadFromLeft // c10
= // c11a
  // c11b
true // c12a
  // c12b
; // c13
FixedStringPadChar
    // c14
= // c15
'0' ; }
    // c18
packet // c19
Fill
    // c20
{ // c21a
  // c21b
} // c22
root
    // c23
packet // c24a
  // c24b
Order
    // c25
{ repeat // c27
Fill // c28a
  // c28b
, char[]
    // c30
clOrdID // c31a
  // c31b
, // c32
@rightPad // c33
(
    // c34
'\x00' // c35a
  // c35b
) char[ 4 // c38a
  // c38b
] lastPx
    // c40
, // c41a
  // c41b
char[] // c42
OrderId
    // c43
, // c44a
  // c44b
int8 tag7
    // c46
, // c47
u8 f1 ,
    // c50
u16 count // c52
@lengthOf( // c53a
  // c53b
Body ) // c55
, // c56a
  // c56b
match f1 as Body // c60
{ // c61a
  // c61b
[ 159 , 49
    // c65
] : // c67a
  // c67b
Fill
    // c68
,
    // c69
} , // c71
u16
    // c72
Tail
    // c73
@calculatedFrom( // c74a
  // c74b
""CRC32""
    // c75
) ,
    // c77
} // c78a
  // c78b
")).
Eval vm_compute in ("<<<M104>>>" ++ check (runes_of_ascii "MetaData Z9_{ string roots
, repeatCount packetx`say ""hi""`, }
//
// packet A { u8 x, }
packet float
{  repeat
char[]	metadata ,
zchar[ 00 ] leftPad @calculatedFrom(""" ++ [233]%N ++ runes_of_ascii "t" ++ [233]%N ++ runes_of_ascii """ )
`" ++ [233]%N ++ runes_of_ascii "`,string T
    @lengthOf( Pad)
`doc`
, match f32a as
    crc { ""x y"" :Foo
, // @lengthOf(
0: _x [ ""1"" ]
    :
// a // b
// packet A { u8 x, }
As [ 255 , 1 ,"""" ,	""1"", ""abc"" , """ ++ [233]%N ++ runes_of_ascii "t" ++ [233]%N ++ runes_of_ascii """	,
    10 ] :  leftPad	,// @lengthOf(
""{,}"" :
    a1  4294967296  :	body ,
    //
    } , lengthOf
@calculatedFrom(
    ""\" ++ [233]%N ++ runes_of_ascii """)
    , // packet A { u8 x, }
@calculatedFrom( ""`tick`""
    ) @lengthOf(
u
)  @leftPad (
    '0'
) match o as BodyLength  { [
    3
,
    1 ,""a\\"" ,""`tick`"" ,// @lengthOf(
1, 1 ]: asx , [ ""a	b""
, 255 ,
3
    , ""abc""
    ,65535 ] :
    asx ,
10
:Z9_
, [
10, //
""CRC32"", 7
] : roots
, } ,
    // 50% %s
    u16 a1 ,  @tag( 00) uint32	MetaDataX
`u8 x,` , @leftPad( '\x00')
    @rightPad //x
(
    )
    i64
calculatedFrom
,	}
")).
Eval vm_compute in ("<<<M1909>>>" ++ check (runes_of_ascii "root packet rootA {
}

packet Z9_ {
    repeat char[007] f32a,
    @rightPad( )
    u32 Header `a\`,
    repeat Z9_,
    repeat i8i8 int `u8 x,`,// `tick` ""quote"" 'q'
    uint8x,
    f64 i8i8 `" ++ [28040; 24687; 31867; 22411]%N ++ runes_of_ascii "`,
    @tag(3)
    // `tick` ""quote"" 'q'
    @tag(3)
    @tag(10)
    repeat int {
        MetaDataX,
    },
    @tag(10)
    int8 pack @lengthOf(x),
}

packet metadata {
    @calculatedFrom(""" ++ [233]%N ++ runes_of_ascii "t" ++ [233]%N ++ runes_of_ascii """)
    repeat rootA uint8x,
    @calculatedFrom(""\n"")
    @lengthOf(len)
    BodyLength {
        matchKey f32a `a\`,
    },
    char[] leftPad `tab	here`,
    // " ++ [27880; 37322]%N ++ runes_of_ascii "
    u32 a1,
}

packet trueish {
    @tag(007)
    f64 f32a @calculatedFrom("""") `say ""hi""`,
    @calculatedFrom(""packet"")
    @calculatedFrom(""" ++ [28040; 24687]%N ++ runes_of_ascii """)
    repeat char[3] zchar `
        `,
}

MetaData tag {
}")).
Eval vm_compute in ("<<<M47>>>" ++ check (runes_of_ascii "packet
matchKey// a // b
{@lengthOf(  chars ) options1@lengthOf( len	), match //x
Packet as Z9_{ [ """ ++ [28040; 24687]%N ++ runes_of_ascii """ , ""1"" , 42
    ] : u128 // @lengthOf(
, ""1"" :  roots // c
,
00
: packetx 007 :  repeatCount , 0 :u8x
    ,
    //	t
    } , match leftPad // packet A { u8 x, }
as msg_type { """"
// @lengthOf(
//x
: x,
    ""`tick`"" : u128
    ,42
: u128
,
[7 ,	0123456789 , ""\" ++ [233]%N ++ runes_of_ascii """ , 7  ]:
lengthOf ,""{,}"" :
T ,  ""packet""
: Logon} /// triple
,
    //
    char
    Packet
, repeat trueish uint8x ,
repeat zchar[  0 ] pack
    ,  string Pad,uint16	i8i8
`say ""hi""` , }
    packet
pack{ string
tag
    @calculatedFrom(
""// no comment"" // c
) , } MetaData rootA
{string BodyLength, }
")).
Eval vm_compute in ("<<<M1338>>>" ++ check (runes_of_ascii "// top
packet
    // c0
Logon {
    // c2
string // c3
user
    // c4
,
    // c5
} root packet // c8a
  // c8b
Frame // c9a
  // c9b
{
    // c10
u8
    // c11
K // c12a
  // c12b
,
    // c13
match K // c15a
  // c15b
as
    // c16
Body {
    // c18
1 // c19
: // c20a
  // c20b
Logon // c21
, // c22
2
    // c23
:
    // c24
Logout // c25
, // c26a
  // c26b
} , // c28a
  // c28b
Tail , } packet // c32
Logout // c33a
  // c33b
{ // c34
u16 // c35
reason // c36a
  // c36b
,
    // c37
} // c38a
  // c38b
packet Tail
    // c40
{ // c41a
  // c41b
u32 crc // c43
, } // c45
")).
Eval vm_compute in ("<<<M1527>>>" ++ check (runes_of_ascii "MetaData pack {
    float32 Header `two words`,
    rootA charz `" ++ [233]%N ++ runes_of_ascii "`,//
    int32 falsey `doc`,
}

packet matchKey {
    i64_ {
        float64 tag @lengthOf(msg_type),
        u8x f32a,
        Pad {
            char[10] f32a `// not a comment`,
        },
        int {
            repeat packetx {
                char[] T @calculatedFrom(""it's""),
            },
        },
    },
    char[255] trueish @lengthOf(calculatedFrom),
    repeat rootA string_,
}

packet x_y_z {
    @lengthOf(i64_)
    BodyLength `" ++ [233]%N ++ runes_of_ascii "`,
}")).
Eval vm_compute in ("<<<M1378>>>" ++ check (runes_of_ascii "options{ArrayPrefixLenType= 
u64  ;  FixedStringPadFromLeft
    = 
true

;

FixedStringPadChar
=
'0'

    ;}

    packet 
Order {	}root
    packet Leg  {

char[]
Ref ,repeat  Order  ,
f32 Acct  ,
@leftPad (  '0'
    )
    char[ 10

]  venue
    ,	@rightPad (
	'0' )	char[3
    ]

seqNo
, repeat
u64 Px ,u8

Flags
    ,	u32

    lastPx	@lengthOf(Body
	) 
,
	match 
Flags  as
    Body	{ 185
    :
    Order

, }

,
u16
	sym

@calculatedFrom(  ""CRC32""	)  ,
} ")).
Eval vm_compute in ("<<<M1135>>>" ++ check (runes_of_ascii "// top
packet // c0
_x // c1
{ // c2
match // c3
Foo // c4
as // c5
Z9_ // c6
{ // c7
""a	b"" // c8
: // c9
Pad // c10
, // c11
} // c12
, // c13
repeat // c14
x // c15
`// not a comment` // c16
, // c17
@rightPad // c18
( // c19
' ' // c20
) // c21
@calculatedFrom( // c22
""a\\"" // c23
) // c24
metadata // c25
MetaDataX // c26
, // c27
@tag( // c28
0 // c29
) // c30
Logon // c31
int // c32
`two words` // c33
, // c34
} // c35
")).
Eval vm_compute in ("<<<M16>>>" ++ check (runes_of_ascii "packet pack {@rightPad (
    '\x00' )	options1  ,repeat
f32
    Packet`u8 x,`
, repeat  Logon { repeat
    a1 {char[  0 ]
    tag
,
u64 leftPad,
    } // 50% %s
, repeatCount ,repeat // packet A { u8 x, }
BodyLength /// triple
, }
    , repeat char[] packetx,
char[
00]tag@lengthOf(o
) , }packet matchKey { repeat As	u8x `it's` , }options{}MetaData
string_
{ msg_type
    Z9_ `line1
line2` ,} //x")).
Eval vm_compute in ("<<<M1836>>>" ++ check (runes_of_ascii "packet tag {
    @tag(00)
    match x_y_z as Packet {
        [3] : packetx,
        [""{,}""] : BodyLength,
        //x
        //
        00 : i8i8,
        255 : asx,
    },
}

packet Packet {
    @calculatedFrom(""" ++ [233]%N ++ runes_of_ascii "t" ++ [233]%N ++ runes_of_ascii """)
    match i8i8 as charz {
        3 : f32a,
        ""a\\"" : len,
    },
    @tag(10)
    @lengthOf(charz)
    int,
    repeat string Foo,
}")).
Eval vm_compute in ("<<<M1578>>>" ++ check (runes_of_ascii "// top
packet float {
    // c2
    @rightPad(
            // c4
        )
    // c5
    rootA @lengthOf(trueish),
    // c10
    stringy @lengthOf(matchKey),
    // c15
    char[4294967296] pack @lengthOf(uint8x),
    // c23
}

// c24
root packet trueish {
    // c28
    repeat uint64 u128 `say ""hi""`,
    // c33
}
// c34")).
Eval vm_compute in ("<<<M298>>>" ++ check (runes_of_ascii "// trailing space 
options { MetaDataX =	zchar[	3
    ] ; packetx = true u128= ""\" ++ [233]%N ++ runes_of_ascii """
    // packet A { u8 x, }
    ; x = 1 x
= true;  } MetaData u8x  { float64 leftPad  , a1
As `it's` , int16 // a // b
metadata
, As Packet
    `100% of %d`, leftPad uint8x
`it's` , As
Foo, // 50% %s
}
")).
Eval vm_compute in ("<<<M1750>>>" ++ check (runes_of_ascii "packet P1 {
    u8 a,
}

packet P2 {
    P1,
}

packet P3 {
    P2,
    P1,
}

packet P4 {
    repeat P3,
    P2,
}

root packet P5 {
    P4,
    P3,
    P1,
    u8 K,
    match K as Body {
        4 : P4,
        3 : P3,
        2 : P2,
        1 : P1,
    },
}")).
Eval vm_compute in ("<<<M417>>>" ++ check (runes_of_ascii "packet
    asx { @calculatedFrom(
""""  ) @tag( @tag( 255 )repeat
// packet A { u8 x, }
// trailing space 
int16 u8x
,
@tag(
    //
    007 )
    @tag( 0
    /// triple
    ) @tag( 1) u
    @lengthOf( T ),
// `tick` ""quote"" 'q'
//x
} // " ++ [128512]%N ++ runes_of_ascii " emoji")).
Eval vm_compute in ("<<<M472>>>" ++ check (runes_of_ascii "packet
    asx { @calculatedFrom(
""""  ) @tag( 255 )repeat
// packet A { u8 x, }
// trailing space 
int16 u8x
,
@tag(
    //
    007 )
    @tag( 0 0
    /// triple
    ) @tag( 1) u
    @lengthOf( T ),
// `tick` ""quote"" 'q'
//x
} // " ++ [128512]%N ++ runes_of_ascii " emoji")).
Eval vm_compute in ("<<<M413>>>" ++ check (runes_of_ascii "packet
    asx { @calculatedFrom(
""""  @tag( ) 255 )repeat
// packet A { u8 x, }
// trailing space 
int16 u8x
,
@tag(
    //
    007 )
    @tag( 0
    /// triple
    ) @tag( 1) u
    @lengthOf( T ),
// `tick` ""quote"" 'q'
//x
} // " ++ [128512]%N ++ runes_of_ascii " emoji")).
Eval vm_compute in ("<<<M396>>>" ++ check (runes_of_ascii "packet
    asx  @calculatedFrom(
""""  ) @tag( 255 )repeat
// packet A { u8 x, }
// trailing space 
int16 u8x
,
@tag(
    //
    007 )
    @tag( 0
    /// triple
    ) @tag( 1) u
    @lengthOf( T ),
// `tick` ""quote"" 'q'
//x
} // " ++ [128512]%N ++ runes_of_ascii " emoji")).
Eval vm_compute in ("<<<M387>>>" ++ check (runes_of_ascii "
    asx { @calculatedFrom(
""""  ) @tag( 255 )repeat
// packet A { u8 x, }
// trailing space 
int16 u8x
,
@tag(
    //
    007 )
    @tag( 0
    /// triple
    ) @tag( 1) u
    @lengthOf( T ),
// `tick` ""quote"" 'q'
//x
} // " ++ [128512]%N ++ runes_of_ascii " emoji")).
Eval vm_compute in ("<<<M1324>>>" ++ check (runes_of_ascii "options	{	FixedStringPadChar =	'0'
;
	}

    packet 
Q{ zchar[ 4]z,  @rightPad

('\x00')

    char[

    3]
n  ,
	char[ 5 ] 
d  , }
	root	packet R
	{
    Q

,
zchar[  8	]

top 
, repeat  zchar[
    2  ] zs
,}
")).
Eval vm_compute in ("<<<M1954>>>" ++ check (runes_of_ascii "

  // top

root  // c0

  packet// c1
	P	{ // c3
      u16

a , 
u32 

// c7
Sum	// c8a

// c8b
	@calculatedFrom( ""CRC32"" 
      // c10
	) 
	// c11

,	// c12a
  // c12b
	  } 
	    // c13
 
")).
Eval vm_compute in ("<<<M151>>>" ++ check (runes_of_ascii "
MetaData u128 {zchar[
// " ++ [128512]%N ++ runes_of_ascii " emoji
// 50% %s
4294967296 ]
lengthOf`a\`, } packet
    leftPad {
@rightPad('0') calculatedFrom float // 50% %s
`" ++ [28040; 24687; 31867; 22411]%N ++ runes_of_ascii "` , char[255	]
    metadata , }")).
Eval vm_compute in ("<<<M485>>>" ++ check (runes_of_ascii "packet
    asx { @calculatedFrom(
""""  ) @tag( 255 )repeat
// packet A { u8 x, }
// trailing space 
int16 u8x
,
@tag(
    //
    007 )
    @tag( 0
    /// triple
    )")).
Eval vm_compute in ("<<<M627>>>" ++ check (runes_of_ascii "MetaData u
    { } MetaData o
{ float uint8x
`100% of %d` ,repeatCount u8x, string_ leftPad
, , i32
    Foo , int64 x `two words` , calculatedFrom
stringy `a\` ,
}
")).
Eval vm_compute in ("<<<M563>>>" ++ check (runes_of_ascii "MetaData u
    { MetaData } o
{ float uint8x
`100% of %d` ,repeatCount u8x, string_ leftPad
, i32
    Foo , int64 x `two words` , calculatedFrom
stringy `a\` ,
}
")).
Eval vm_compute in ("<<<M556>>>" ++ check (runes_of_ascii "MetaData u
     } MetaData o
{ float uint8x
`100% of %d` ,repeatCount u8x, string_ leftPad
, i32
    Foo , int64 x `two words` , calculatedFrom
stringy `a\` ,
}
")).
Eval vm_compute in ("<<<M1816>>>" ++ check (runes_of_ascii "options{ 
}	options
    {

    MetaDataX  =
    char
	;

    }

MetaData
    Pad	{
	i8

    metadata  ,
	string stringy

, 

// c

int8
	As`{ , }`
    ,} ")).
Eval vm_compute in ("<<<M1924>>>" ++ check (runes_of_ascii "

  packet A
    {match k 
as
	n  {
[""a""
, 22
,	""c c""	,
    4
,
    ""e"",

    66 ,
""g""	,

8
,
""i""
,
10
,

    ""k""  ,
12
	]:
	B
	, 2
	:
	C } ,}")).
Eval vm_compute in ("<<<M1466>>>" ++ check (runes_of_ascii "
packet
A
{match k as

n  { [
	""a"" ,

    ""bb"" ,

    ""c c""
    , ""d""
    , 
""e"" ,
    ""f""

    , ""g""  ,	""h""
    ,""i""
] : B	,
	2  :
C } ,}")).
Eval vm_compute in ("<<<M1277>>>" ++ check (runes_of_ascii "

  packet

    B { u8
    a ,
}root
packet
P { u8 
K,
	match
    K
    as
	Body{

1 :

B , } ,u16 L
    @lengthOf( 
Body  ) ,
}
")).
Eval vm_compute in ("<<<M1640>>>" ++ check (runes_of_ascii "packet A {
    Inner {
        u8 x `tab
        	x`,
        Deep {
            u8 y `tab
            	x`,
        },
    },
}")).
Eval vm_compute in ("<<<M1732>>>" ++ check (runes_of_ascii "packet	u

{

    Foo
	@lengthOf(
	crc )	`{ , }` 
        //	t
    //x
  ,

    @tag( /// triple
	  007
	) o
	,
	}
")).
Eval vm_compute in ("<<<M1205>>>" ++ check (runes_of_ascii "options { // c
} options { MetaDataX = char ; } MetaData Pad { i8 metadata , string stringy , int8 As `{ , }` , }")).
Eval vm_compute in ("<<<M1237>>>" ++ check (runes_of_ascii "options { } options { MetaDataX = char ; } MetaData Pad { i8 metadata , string stringy // c
, int8 As `{ , }` , }")).
Eval vm_compute in ("<<<M176>>>" ++ check (runes_of_ascii "packet
    _x { @lengthOf( packetx
) _x @lengthOf(// c
f32a), float64 Header @calculatedFrom( ""it's"" ) , }")).
Eval vm_compute in ("<<<M896>>>" ++ check (runes_of_ascii "packet A {
  match k as n {
    [""a"", 22, ""c c"", 4, ""e"", 66, ""g"", 8, ""i"", 10, ""k""] : B
    2 : C
  },
}")).
Eval vm_compute in ("<<<M1959>>>" ++ check (runes_of_ascii "
packet A

    { match

    k as
    n{
[
1 ,
	22 ,
    007 
,	4 
, 5 ]
	:
B
,

2	:
C
}
,	}

")).
Eval vm_compute in ("<<<M1406>>>" ++ check (runes_of_ascii "
options
{  Packet	//x

  =""a\\"" Logon

= true f32a

= true  // 50% %s
;	falsey=  false ;

}

")).
Eval vm_compute in ("<<<M384>>>" ++ check (runes_of_ascii "root packet SimpleMessage {
    uint16 MsgType `" ++ [28040; 24687; 31867; 22411]%N ++ runes_of_ascii "`,
    string JsonBody `Json" ++ [23383; 31526; 20018; 28040; 24687; 20307]%N ++ runes_of_ascii "`,
}")).
Eval vm_compute in ("<<<M844>>>" ++ check (runes_of_ascii "packet A {
  match k as n {
    [""a"", 22, ""c c"", 4, ""e"", 66, ""g""] : B
    2 : C
  },
}")).
Eval vm_compute in ("<<<M1929>>>" ++ check (runes_of_ascii "packet A {
    match k as n {
        [""a"", 22, ""c c""] : B,
        2 : C,
    },
}")).
Eval vm_compute in ("<<<M1881>>>" ++ check (runes_of_ascii "packet Inner {
    u8 a,
}

root packet P {
    repeat Inner items,
    u8 x,
}")).
Eval vm_compute in ("<<<M1140>>>" ++ check (runes_of_ascii "// top
root
    // c0
packet // c1
a1 // c2a
  // c2b
{ } // c4a
  // c4b
")).
Eval vm_compute in ("<<<M967>>>" ++ check (runes_of_ascii "MetaData M {
    u8 x `100% of %s %d %v`,
    T t `100% of %s %d %v`,
}")).
Eval vm_compute in ("<<<M377>>>" ++ check (runes_of_ascii "packet
    int // 50% %s
{Logon @calculatedFrom( ""1"") ,} // 50% %s")).
Eval vm_compute in ("<<<M375>>>" ++ check (runes_of_ascii "// a // b
MetaData//x
repeatCount {
string uint8x ,
    } 	 ")).
Eval vm_compute in ("<<<M771>>>" ++ check (runes_of_ascii "packet A {
  match k as n {
    [1] : B,
    2 : C
  },
}")).
Eval vm_compute in ("<<<M1932>>>" ++ check (runes_of_ascii "

  packet 

// 50% %s
  //

  len{ uint8x
A

, }

")).
Eval vm_compute in ("<<<M968>>>" ++ check (runes_of_ascii "root packet A {
    u8 x `100% of %s %d %v`,
}")).
Eval vm_compute in ("<<<M1462>>>" ++ check (runes_of_ascii "root packet A {
    u8 x `a
        b`,
}")).
Eval vm_compute in ("<<<M1936>>>" ++ check (runes_of_ascii "root packet A {
    u8 x `a
    b`,
}")).
Eval vm_compute in ("<<<M5>>>" ++ check (runes_of_ascii "MetaData float  { uint16 float , }")).
Eval vm_compute in ("<<<M957>>>" ++ check (runes_of_ascii "packet A {
    u8 x `tab
	x`,
}")).
Eval vm_compute in ("<<<M183>>>" ++ check (runes_of_ascii "  packet len { repeat A , }
")).
Eval vm_compute in ("<<<M96>>>" ++ check (runes_of_ascii "// c
MetaData o
    { }
")).
Eval vm_compute in ("<<<M1131>>>" ++ check (runes_of_ascii "MetaData tag { }
// c
")).
Eval vm_compute in ("<<<M996>>>" ++ check (runes_of_ascii "// c 
packet A {
}")).
Eval vm_compute in ("<<<M1078>>>" ++ check (runes_of_ascii "packet A {
}// c x")).
Eval vm_compute in ("<<<M1172>>>" ++ check (runes_of_ascii "packet x {
// c
}")).
Eval vm_compute in ("<<<M712>>>" ++ check (runes_of_ascii "packet
crc")).
Eval vm_compute in ("<<<M170>>>" ++ check (runes_of_ascii " 	 ")).
