From FP Require Import Lexer Parser ShowPT Digest Formatter.
From Coq Require Import String List NArith.
Import ListNotations.
Open Scope string_scope.
Set Printing Width 100000000.
Set Printing Depth 100000000.
Definition show_fres (r : fres) : string :=
  match r with
  | FOk s => "OK:" ++ sh_escaped s ""
  | FErr s => "ERR:" ++ sh_escaped s ""
  | FPanic p => "PANIC:" ++ p
  end.
Definition check (rs : list rune) : string := digest (show_fres (format_res rs)).
Definition full (rs : list rune) : string := show_fres (format_res rs).
Eval vm_compute in ("<<<M1889>>>" ++ check (runes_of_ascii "// c
  	packet uint8x{

    @tag( 65535	)

x_y_z,char[]

a1  @calculatedFrom(

""`tick`""
) , @tag( 1) @tag(  1 )@tag( 4294967296
	)  repeat string rootA  `tab	here` ,repeat i32

tag, }packet
pack 
{
    @calculatedFrom(
    ""// no comment"")

@lengthOf( uint8x
    )	string
zchar @calculatedFrom(
""`tick`""
    ) 
,
	}root  packet

tag
	{ 	 // trailing space 
@tag(
    42/// triple
		)

    @lengthOf(As )  @leftPad  ( '0'
    ) match u128

    as

float { [

    00] :  charz  ,

}
    ,
} packet	chars

    {  @leftPad (  '\x00'

)char[ 10

    ]

    len
	@calculatedFrom( ""a	b"") 
,@tag(00)@tag( 
10

)uint64  matchKey
    , x_y_z {	repeat 	 // packet A { u8 x, }
  string

rootA`doc`  ,

    tag// packet A { u8 x, }
  ,
repeat char  
      //x
	//	t
	MetaDataX

,
int64
    asx
	// 50% %s
  	,} , 	 // trailing space 
    	i16
	stringy,
	match 
x_y_z  as
BodyLength//x
		{ [  ""\" ++ [233]%N ++ runes_of_ascii """ ,
""" ++ [28040; 24687]%N ++ runes_of_ascii """,
	7

,
    0	,
	7 ,  4294967296
	]
    :

    A

, // " ++ [128512]%N ++ runes_of_ascii " emoji
},

    @calculatedFrom(
    ""\n"" )
    @leftPad 
	    //

  ( 
)
	f64 
msg_type

    ,repeat

    Logon
	`say ""hi""`
    , @tag(
007)
match
crc
as

    msg_type  {
	[ ""a\\"" 
,

0123456789 ,
""`tick`"" ,
	""" ++ [233]%N ++ runes_of_ascii "t" ++ [233]%N ++ runes_of_ascii """

,
    //
// trailing space 
  	""{,}"" , 	 // a // b
	255  ,
	0123456789 
      //
  ]: // packet A { u8 x, }
	  Header
	0123456789
	:
len // c

,
65535 : BodyLength	, ""CRC32""
    :

    string_	// " ++ [128512]%N ++ runes_of_ascii " emoji
,
    4294967296

    :  len
,
""" ++ [28040; 24687]%N ++ runes_of_ascii """:
trueish
}

    ,repeat

string u
	,
	lengthOf Z9_  `{ , }`
,
	} // 50% %s
  	packet 
trueish

    {

f32
Logon	@calculatedFrom(

""1"" )
    ,  i64

matchKey@calculatedFrom( ""x y""// a // b
  )	//x
    `" ++ [28040; 24687; 31867; 22411]%N ++ runes_of_ascii "` 
,i8i8`it's` , msg_type,	uint8
	lengthOf,
	int

trueish , char[ 0123456789 ] uint8x ,
	i8

    int@lengthOf( msg_type	)

`say ""hi""` , @rightPad 
(
) repeat f64 Z9_,
metadata{  falsey@calculatedFrom(
	""abc""
	)
    ,

} 	 //
		,	}")).
Eval vm_compute in ("<<<M7>>>" ++ check (runes_of_ascii "options// @lengthOf(
{
    rootA=	""x y"";
trueish// a // b
=
    0 Header =""1"" }
    root packet packetx{ u32 uint8x ,
u A ,// " ++ [128512]%N ++ runes_of_ascii " emoji
i16 body @lengthOf(A )
,
@lengthOf(
    u8x
    // 50% %s
    )
    u8x @calculatedFrom( /// triple
""abc"" ) ,  @tag(
    42
)match	float as a1	{ [ """" ] : pack ,""""
: leftPad ,7
:f32a , 3
:
    i8i8
, 255
: string_	, } // c
, metadata``	, /// triple
uint8 rootA// packet A { u8 x, }
, }// trailing space 
packet zchar { // c
@calculatedFrom( ""it's"") uint64
//	t
// packet A { u8 x, }
int
, char
int ,i16 float // @lengthOf(
, asx	, // c
char[	7] Packet
    @lengthOf( body)
    `" ++ [28040; 24687; 31867; 22411]%N ++ runes_of_ascii "`
, } packet stringy
// " ++ [128512]%N ++ runes_of_ascii " emoji
//	t
{
//x
//	t
@calculatedFrom(""abc"" ) zchar[
65535 /// triple
] Packet ,// @lengthOf(
@tag(42 // " ++ [27880; 37322]%N ++ runes_of_ascii "
)
    // `tick` ""quote"" 'q'
    @leftPad()
    char[]
falsey ,i8i8
x `" ++ [28040; 24687; 31867; 22411]%N ++ runes_of_ascii "`,@tag(
255 ) u128
    {
    f32 //
uint8x
`u8 x,`, o @calculatedFrom( ""a\""b"")
// 50% %s
//x
, char[] charz `
` , }, @calculatedFrom(
""1"" )
    repeat i8i8 { zchar[0 ] int , } , @tag( 007 )repeat i64
Logon
`
` , repeat
    char[ 0 ] matchKey `crlf
line` ,@calculatedFrom(  ""a\\"") @tag(
    42
)	@leftPad // 50% %s
(
'0'  ) match o as
x_y_z
    // " ++ [27880; 37322]%N ++ runes_of_ascii "
    { [ // `tick` ""quote"" 'q'
""" ++ [128512]%N ++ runes_of_ascii """ , ""x y"" , 0123456789 , ""CRC32""// c
,""it's"",
    //
    007
,
3 ,
007 // " ++ [27880; 37322]%N ++ runes_of_ascii "
]
:Packet [
    255 ,  ""x y""	]: x_y_z ,} ,}
//	t
")).
Eval vm_compute in ("<<<M380>>>" ++ check (runes_of_ascii "options {
	StringPrefixLenType = u16;
	ArrayPrefixLenType = u16;
}

packet SampleBinary {
	uint16 MsgType `" ++ [28040; 24687; 31867; 22411]%N ++ runes_of_ascii "`,
	u16 BodyLenght @lengthOf(Body) `" ++ [28040; 24687; 20307; 38271; 24230]%N ++ runes_of_ascii "`,
	match MsgType as Body {
		1 : Logon,
		2 : Logout,
		3 : Heartbeat,
		4 : RiskControlRequest,
		5 : RiskControlResponse,
	},
		@calculatedFrom(""CRC32"")
	u32 Ckecksum `" ++ [26657; 39564; 21644]%N ++ runes_of_ascii "`,
}

packet Logon {
	 @leftPad('0')
	char[10] UserName `" ++ [29992; 25143; 21517]%N ++ runes_of_ascii "`,
	string Password `" ++ [23494; 30721]%N ++ runes_of_ascii "`,
	uint64 ClientId `" ++ [23458; 25143; 31471]%N ++ runes_of_ascii "ID`,
	u16 HeartbeatInterval `" ++ [24515; 36339; 38388; 38548]%N ++ runes_of_ascii "`,
}

packet Logout {
	  @rightPad('0')
	char[10] UserName `" ++ [29992; 25143; 21517]%N ++ runes_of_ascii "`,
	uint64 ClientId `" ++ [23458; 25143; 31471]%N ++ runes_of_ascii "ID`,
}

packet Heartbeat {
}

packet RiskControlRequest {
	string UniqueOrderId `" ++ [21807; 19968; 35746; 21333; 21495]%N ++ runes_of_ascii "`,
	char[16] ClOrdID `" ++ [23458; 25143; 35746; 21333; 21495]%N ++ runes_of_ascii "`,
	char[3] MarketID `" ++ [24066; 22330]%N ++ runes_of_ascii "id`,
	char[12] SecurityID `" ++ [35777; 21048; 20195; 30721]%N ++ runes_of_ascii "`,
	char Side `" ++ [20080; 21334; 26041; 21521]%N ++ runes_of_ascii "`,
	char OrderType `" ++ [35746; 21333; 31867; 22411]%N ++ runes_of_ascii "`,
	u64 Price `" ++ [20215; 26684]%N ++ runes_of_ascii "`,
	u32 Qty `" ++ [25968; 37327]%N ++ runes_of_ascii "`,
	repeat string ExtraInfo `" ++ [38468; 21152; 20449; 24687]%N ++ runes_of_ascii "`,
	repeat SubOrder {
			char[16] ClOrdID `" ++ [23376; 35746; 21333; 21495]%N ++ runes_of_ascii "`,
			u64 Price `" ++ [23376; 35746; 21333; 20215; 26684]%N ++ runes_of_ascii "`,
			u32 Qty `" ++ [23376; 35746; 21333; 25968; 37327]%N ++ runes_of_ascii "`,
		},
}

packet RiskControlResponse {
	string UniqueOrderId `" ++ [21807; 19968; 35746; 21333; 21495]%N ++ runes_of_ascii "`,
	i32 Status `" ++ [29366; 24577]%N ++ runes_of_ascii "`,
	string Msg `" ++ [32467; 26524; 20449; 24687]%N ++ runes_of_ascii "`,
	repeat Detail,
}

packet Detail {
	string RuleName `" ++ [35268; 21017; 21517; 31216]%N ++ runes_of_ascii "`,
	u16 Code `" ++ [21407; 22240; 20195; 30721]%N ++ runes_of_ascii "`,
}")).
Eval vm_compute in ("<<<M1358>>>" ++ check (runes_of_ascii "  options{
LittleEndian

    =
false 
;
StringPrefixLenType
=
u16

    ;
	ArrayPrefixLenType=u8

    ;
FixedStringPadChar
=	'0'

    ;
} packet
    Leg 
{
zchar[1
] Ref
	,

repeat
string
    count, repeat InMsgkind21

{

repeat

char[ 2
	]
price
    , uint64 
sym
    ,
    zchar[  9
    ]
msgKind 
, 
}

,

zchar[ 5 ] Note,  }
	packet
	Ack {	u16 seqNo
    ,  repeat

    char[1
    ]
	Acct 
,

    @leftPad	( ' '
    ) 
char[

    4] msgKind ,repeat InTag747{Leg	, }
, 
repeat	string Tail
    , Leg	,}
	packet Trade

{  u64 
clOrdID

, repeat

InLastpx24
{
char[

    10 ]	Note
	,
char[
3
]
    Qty , repeat  char[
    2 ]  Side2
	,
	Ack

,
repeat InX47  {
    Ack,
	}
    ,

    }
	,
} root

    packet Heartbeat  {

repeat
    u64 
Acct  ,	string	lastPx ,
u8
Side2

,match
Side2
    as  Body {2
    : 
Trade

    , 
157 : Ack
    ,46

    : 
Leg,
}  ,

    u32

sym 
@calculatedFrom(	""CRC32""

    ) 
,

}
")).
Eval vm_compute in ("<<<M1836>>>" ++ check (runes_of_ascii "root packet len {
    match x as metadata {
        [1, 0, """", ""a	b"", 00] : pack,
        [""// no comment"", ""x y"", """ ++ [233]%N ++ runes_of_ascii "t" ++ [233]%N ++ runes_of_ascii """] : Packet,
    },
    repeat lengthOf u128,
    @calculatedFrom(""it's"")
    @lengthOf(calculatedFrom)
    @lengthOf(u)
    metadata {
        int8 lengthOf `crlf
                line`,
    },
    @tag(4294967296)
    calculatedFrom {
        f32 i64_ `" ++ [233]%N ++ runes_of_ascii "`,
    },
    @lengthOf(BodyLength)
    repeat char[65535] float,
    @calculatedFrom(""\" ++ [233]%N ++ runes_of_ascii """)
    i64_ {
        match stringy as _x {
            //	t
            [4294967296, 3] : i8i8,
            [""a\""b""] : x_y_z,
            3 : len,
        },
    },
    @tag(0)
    zchar[7] x_y_z,
    @lengthOf(Header)
    repeat u64 As `
        `,// " ++ [27880; 37322]%N ++ runes_of_ascii "
    @rightPad()
    /// triple
    @rightPad('\x00')
    u16 Header `{ , }`,
}")).
Eval vm_compute in ("<<<M271>>>" ++ check (runes_of_ascii "root packet // packet A { u8 x, }
i8i8 {
@rightPad (// 50% %s
)char[]	i64_ ,
string f32a @calculatedFrom( ""a\""b"" )
// @lengthOf(
// packet A { u8 x, }
, @tag(
    255 ) @calculatedFrom( ""a	b"" )
    @lengthOf( u128	)match
float as metadata{
""\" ++ [233]%N ++ runes_of_ascii """
    : x_y_z	,
    10:
// `tick` ""quote"" 'q'
// `tick` ""quote"" 'q'
Packet ,""""
:asx , } ,
    @lengthOf( asx  )/// triple
match
    matchKey
// trailing space 
// c
as
Foo{ ""// no comment""
    : trueish 42 :len ,	42: options1 ""x y"" :
x_y_z ""CRC32""
// a // b
// packet A { u8 x, }
:  zchar 0123456789 :
pack ,}
, } MetaData crc { string  repeatCount , //	t
char[] a1  ,
// 50% %s
// `tick` ""quote"" 'q'
char msg_type , pack rootA ,  u64  Pad,}")).
Eval vm_compute in ("<<<M1153>>>" ++ check (runes_of_ascii "// top
options // c0
{ // c1
uint8x // c2
= // c3
007 // c4
; // c5
lengthOf // c6
= // c7
i8 // c8
; // c9
} // c10
packet // c11
i64_ // c12
{ // c13
@calculatedFrom( // c14
""1"" // c15
) // c16
@tag( // c17
3 // c18
) // c19
@lengthOf( // c20
rootA // c21
) // c22
repeat // c23
int8 // c24
Packet // c25
`tab	here` // c26
, // c27
} // c28
packet // c29
_x // c30
{ // c31
matchKey // c32
x // c33
`" ++ [28040; 24687; 31867; 22411]%N ++ runes_of_ascii "` // c34
, // c35
int32 // c36
calculatedFrom // c37
`100% of %d` // c38
, // c39
@lengthOf( // c40
trueish // c41
) // c42
Packet // c43
, // c44
repeat // c45
f32 // c46
o // c47
, // c48
} // c49
")).
Eval vm_compute in ("<<<M296>>>" ++ check (runes_of_ascii "options{
u128 = ""// no comment""
    }  root
packet Z9_ { repeat
char[] i8i8,
float64 MetaDataX , repeat rootA { msg_type@calculatedFrom(
    ""\" ++ [233]%N ++ runes_of_ascii """ )
    , match
float
    as	_x // " ++ [128512]%N ++ runes_of_ascii " emoji
{ ""a\""b""
:u ,[ ""a	b"" // " ++ [27880; 37322]%N ++ runes_of_ascii "
,
    ""CRC32"" // a // b
,10 /// triple
,
    007 , 255 , ""x y"", 42 //	t
, 3 ]: msg_type
,[
    ""1"" //	t
, ""\n"" ,  4294967296
, ""abc"" ,	""// no comment"" , //x
""\n"" ,1] //	t
: int
    ,[
    10 ] :As , [ 0
]	: zchar , 7// " ++ [27880; 37322]%N ++ runes_of_ascii "
: A , } , } ,	char[]zchar @lengthOf( tag ) , } options { body
    = ""1"" trueish	= ' '//x
; }")).
Eval vm_compute in ("<<<M1443>>>" ++ check (runes_of_ascii "root packet options1 {
    // " ++ [27880; 37322]%N ++ runes_of_ascii "
    @tag(0)
    len leftPad,
    @calculatedFrom(""" ++ [233]%N ++ runes_of_ascii "t" ++ [233]%N ++ runes_of_ascii """)
    stringy a1 ``,
    @rightPad()
    a1 `" ++ [28040; 24687; 31867; 22411]%N ++ runes_of_ascii "`,
    char Header @lengthOf(x) `a\`,
    uint8x Z9_ `it's`,
    match roots as o {
        [""{,}"", ""CRC32""] : o,
        ""CRC32"" : Pad,
    },// 50% %s
    @tag(00)
    zchar[4294967296] x,
    @lengthOf(repeatCount)
    uint16 T,
    @lengthOf(u128)
    repeat i64_ {
        repeat u8 MetaDataX `" ++ [233]%N ++ runes_of_ascii "`,
        repeat u8x `two words`,
    },
}// packet A { u8 x, }")).
Eval vm_compute in ("<<<M1372>>>" ++ check (runes_of_ascii "options {
    LittleEndian = true;
    ArrayPrefixLenType = u32;
    FixedStringPadChar = ' ';
}
packet Order {
    char[5] seqNo,
    uint8 Px,
}
packet Logon {
    @rightPad('\x00') char[8] Flags,
    zchar[3] count,
    repeat Order,
}
root packet Party {
    repeat Logon,
    repeat char[1] x,
    u32 price,
    u32 Side2 @lengthOf(Body),
    match price as Body {
        49 : Order,
        196 : Logon,
    },
    u32 f1 @calculatedFrom(""CR\
C32""),
}
")).
Eval vm_compute in ("<<<M1819>>>" ++ check (runes_of_ascii "// c
packet A {
    i64_ `100% of %d`,
    @calculatedFrom(""packet"")
    string Z9_ `{ , }`,
    match BodyLength as matchKey {
        7 : MetaDataX,
    },
    repeat a1 {
        repeat Pad,
    },
    pack T,
    u64 MetaDataX,
    @calculatedFrom(""a	b"")
    tag {
        u32 body,
        pack @lengthOf(_x) `it's`,
        repeatCount,// c
        repeat int32 BodyLength,
    },
    uint64 tag,
}

options {
    //x
}")).
Eval vm_compute in ("<<<M1177>>>" ++ check (runes_of_ascii "// top
options // c0a
  // c0b
{ f32a
    // c2
= // c3
0 } // c5
packet trueish // c7a
  // c7b
{ // c8
}
    // c9
MetaData _x // c11
{ char[ // c13a
  // c13b
0123456789 // c14
] // c15a
  // c15b
zchar
    // c16
, // c17a
  // c17b
string // c18
crc ,
    // c20
char[
    // c21
1 ] // c23a
  // c23b
options1
    // c24
, uint8 // c26a
  // c26b
repeatCount
    // c27
, // c28
} // c29
")).
Eval vm_compute in ("<<<M1733>>>" ++ check (runes_of_ascii "packet tag {
    @tag(00)
    match x_y_z as Packet {
        [3] : packetx,
        [""{,}""] : BodyLength,
        //x
        //
        00 : i8i8,
        255 : asx,
    },
}

packet Packet {
    @calculatedFrom(""" ++ [233]%N ++ runes_of_ascii "t" ++ [233]%N ++ runes_of_ascii """)
    match i8i8 as charz {
        3 : f32a,
        ""a\\"" : len,
    },
    @tag(10)
    @lengthOf(charz)
    int,
    repeat string Foo,
}")).
Eval vm_compute in ("<<<M196>>>" ++ check (runes_of_ascii "MetaData // 50% %s
body
    {
    Foo Packet `a\` ,T float , int64
Logon
`// not a comment`,
zchar[ 0	]
i64_/// triple
`" ++ [28040; 24687; 31867; 22411]%N ++ runes_of_ascii "` , // `tick` ""quote"" 'q'
char[7 // @lengthOf(
] calculatedFrom , int16
Logon
    ,
} MetaData i64_{ int//
leftPad
`// not a comment`
,
trueish	Logon
    , string Header `doc`, // packet A { u8 x, }
}
")).
Eval vm_compute in ("<<<M1319>>>" ++ check (runes_of_ascii "packet A {
    u8 a,
}
packet B {
    u16 b,
}
packet C {
    u32 c,
}
root packet M {
    u16 Kc, u16 Kb, u16 Ka,
    match Kc as X {
        9 : A,
        10 : B,
    },
    match Kb as Y {
        2 : C,
        1 : A,
    },
    match Ka as Z {
        1 : B,
    },
    A, B, C,
}
")).
Eval vm_compute in ("<<<M1397>>>" ++ check (runes_of_ascii "options {
    LittleEndian = true;
}
packet Sub {
    u8 a,
    u16 SubSum @calculatedFrom(""CRC16""),
}
root packet Frame {
    u16 MsgType,
    u16 BodyLen @lengthOf(Body),
    Sub Body,
    string note,
    u16 Checksum @calculatedFrom(""CRC16""),
    u8 tail,
}
")).
Eval vm_compute in ("<<<M467>>>" ++ check (runes_of_ascii "packet
    asx { @calculatedFrom(
""""  ) @tag( 255 )repeat
// packet A { u8 x, }
// trailing space 
int16 u8x
,
@tag(
    //
    007 )
    @tag( @tag( 0
    /// triple
    ) @tag( 1) u
    @lengthOf( T ),
// `tick` ""quote"" 'q'
//x
} // " ++ [128512]%N ++ runes_of_ascii " emoji")).
Eval vm_compute in ("<<<M507>>>" ++ check (runes_of_ascii "packet
    asx { @calculatedFrom(
""""  ) @tag( 255 )repeat
// packet A { u8 x, }
// trailing space 
int16 u8x
,
@tag(
    //
    007 )
    @tag( 0
    /// triple
    ) @tag( 1) u
    @lengthOf( T T ),
// `tick` ""quote"" 'q'
//x
} // " ++ [128512]%N ++ runes_of_ascii " emoji")).
Eval vm_compute in ("<<<M444>>>" ++ check (runes_of_ascii "packet
    asx { @calculatedFrom(
""""  ) @tag( 255 )repeat
// packet A { u8 x, }
// trailing space 
int16 f32
,
@tag(
    //
    007 )
    @tag( 0
    /// triple
    ) @tag( 1) u
    @lengthOf( T ),
// `tick` ""quote"" 'q'
//x
} // " ++ [128512]%N ++ runes_of_ascii " emoji")).
Eval vm_compute in ("<<<M471>>>" ++ check (runes_of_ascii "packet
    asx { @calculatedFrom(
""""  ) @tag( 255 )repeat
// packet A { u8 x, }
// trailing space 
int16 u8x
,
@tag(
    //
    007 )
    @tag( 
    /// triple
    ) @tag( 1) u
    @lengthOf( T ),
// `tick` ""quote"" 'q'
//x
} // " ++ [128512]%N ++ runes_of_ascii " emoji")).
Eval vm_compute in ("<<<M501>>>" ++ check (runes_of_ascii "packet
    asx { @calculatedFrom(
""""  ) @tag( 255 )repeat
// packet A { u8 x, }
// trailing space 
int16 u8x
,
@tag(
    //
    007 )
    @tag( 0
    /// triple
    ) @tag( 1) u
     T ),
// `tick` ""quote"" 'q'
//x
} // " ++ [128512]%N ++ runes_of_ascii " emoji")).
Eval vm_compute in ("<<<M1337>>>" ++ check (runes_of_ascii "packet Logon {
    string user,
}
root packet Frame {
    u8 K,
    match K as Body {
        1 : Logon,
        2 : Logout,
    },
    Tail,
}
packet Logout {
    u16 reason,
}
packet Tail {
    u32 crc,
}
")).
Eval vm_compute in ("<<<M31>>>" ++ check (runes_of_ascii "MetaData u128
    {// @lengthOf(
len x
    `it's` ,BodyLength
    Foo
`doc`, string_ a1 `{ , }`  ,	calculatedFrom u8x `u8 x,`
, MetaDataX// trailing space 
matchKey ,
}
packet u128	{ }")).
Eval vm_compute in ("<<<M720>>>" ++ check (runes_of_ascii "packet
crc
{repeat  Foo A  `u8 x,` ,	@lengthOf( uint8x ) string string
matchKey @lengthOf( stringy ) `a\`
,
    // c
    }
MetaData chars{
leftPad
    //	t
    crc
`" ++ [233]%N ++ runes_of_ascii "`
,}")).
Eval vm_compute in ("<<<M716>>>" ++ check (runes_of_ascii "packet
crc
{repeat  F" ++ [127]%N ++ runes_of_ascii "oo A  `u8 x,` ,	@lengthOf( uint8x ) string
matchKey @lengthOf( stringy ) `a\`
,
    // c
    }
MetaData chars{
leftPad
    //	t
    crc
`" ++ [233]%N ++ runes_of_ascii "`
,}")).
Eval vm_compute in ("<<<M715>>>" ++ check (runes_of_ascii "packet
crc
{repeat  Foo A  `u8 x,` ,	@lengthOf( uint8x ) string
matchKey @lengthOf( stringy ) `a\`
,
    // c
    }
MetaData chars{
leftPad
    //	t
    crc
`" ++ [233]%N ++ runes_of_ascii "`
,")).
Eval vm_compute in ("<<<M623>>>" ++ check (runes_of_ascii "MetaData u
    { } MetaData o
{ float uint8x
`100% of %d` ,repeatCount u8x, string_ ,
leftPad i32
    Foo , int64 x `two words` , calculatedFrom
stringy `a\` ,
}
")).
Eval vm_compute in ("<<<M686>>>" ++ check (runes_of_ascii "MetaData u
    { } MetaData o
{ float uint8x
`100% of %d` ,repeatCount u8x, string_ leftPad
, i32
    Foo , int64 x `two words` , calculatedFrom
stringy `a\` ,

")).
Eval vm_compute in ("<<<M671>>>" ++ check (runes_of_ascii "MetaData u
    { } MetaData o
{ float uint8x
`100% of %d` ,repeatCount u8x, string_ leftPad
, i32
    Foo , int64 x `two words` , calculatedFrom
 `a\` ,
}
")).
Eval vm_compute in ("<<<M1488>>>" ++ check (runes_of_ascii "// top
options {
    // c1a
    // c1b
    LittleEndian = true;
}

root packet P {
    // c10
    u16 a,// c13
    u32 Sum @calculatedFrom(""CRC32""),
}")).
Eval vm_compute in ("<<<M1643>>>" ++ check (runes_of_ascii "
options  {} options {
MetaDataX	=
char  ;

} MetaData Pad
    {i8 
// c
	metadata 
, string	stringy

    ,
    int8 As

`{ , }`,	}
")).
Eval vm_compute in ("<<<M1816>>>" ++ check (runes_of_ascii "

  options  {	}  options
{ MetaDataX =	char;	} 	 // c
  	MetaData
Pad
	{
	i8	metadata ,
string

stringy	, int8
    As `{ , }`,
	} ")).
Eval vm_compute in ("<<<M1275>>>" ++ check (runes_of_ascii "packet B {
    u8 a,
}
root packet P {
    u8 K,
    match K as Body {
        1 : B,
    },
    u16 L @lengthOf(Body),
}
")).
Eval vm_compute in ("<<<M1249>>>" ++ check (runes_of_ascii "options { } options { MetaDataX = char ; } MetaData Pad { i8 metadata , string stringy , int8 As `{ , }` , } // c
")).
Eval vm_compute in ("<<<M1228>>>" ++ check (runes_of_ascii "options { } options { MetaDataX = char ; } MetaData Pad {
// c
i8 metadata , string stringy , int8 As `{ , }` , }")).
Eval vm_compute in ("<<<M913>>>" ++ check (runes_of_ascii "packet A {
  match k as n {
    [""a"", ""bb"", 007, ""d"", ""e"", 66, ""g"", ""h"", 9, ""j"", ""k"", 12] : B
    2 : C
  },
}")).
Eval vm_compute in ("<<<M971>>>" ++ check (runes_of_ascii "packet A {
    u16 len @lengthOf(body) `%`,
    u32 crc @calculatedFrom(""CRC32"") `%`,
    string body,
}")).
Eval vm_compute in ("<<<M882>>>" ++ check (runes_of_ascii "packet A {
  match k as n {
    [""a"", 22, ""c c"", 4, ""e"", 66, ""g"", 8, ""i"", 10] : B,
    2 : C
  },
}")).
Eval vm_compute in ("<<<M1567>>>" ++ check (runes_of_ascii "MetaData
    f32a// @lengthOf(
{ // `tick` ""quote"" 'q'

	charz
    msg_type ,

    } 	 // " ++ [27880; 37322]%N ++ runes_of_ascii "
")).
Eval vm_compute in ("<<<M1259>>>" ++ check (runes_of_ascii "
options	{LittleEndian  =	true
;

    }root packet
	P {repeat 
char  cs

, u8
x 
,

}
")).
Eval vm_compute in ("<<<M1664>>>" ++ check (runes_of_ascii "packet A {
    match k as n {
        [1, 22, ""c c"", 4, 5] : B,
        2 : C,
    },
}")).
Eval vm_compute in ("<<<M991>>>" ++ check (runes_of_ascii "packet A {
    u32 crc @calculatedFrom(""%d%s""),
    @calculatedFrom(""%d%s"") u8 y,
}")).
Eval vm_compute in ("<<<M832>>>" ++ check (runes_of_ascii "packet A {
  match k as n {
    [1, 22, ""c c"", 4, 5, ""f""] : B,
    2 : C
  },
}")).
Eval vm_compute in ("<<<M57>>>" ++ check (runes_of_ascii "options {
asx =""{,}"" } MetaData
    len
    { char[] Packet`say ""hi""` , }
")).
Eval vm_compute in ("<<<M788>>>" ++ check (runes_of_ascii "packet A {
  match k as n {
    [""a"", ""bb"", ""c c""] : B
    2 : C
  },
}")).
Eval vm_compute in ("<<<M377>>>" ++ check (runes_of_ascii "packet
    int // 50% %s
{Logon @calculatedFrom( ""1"") ,} // 50% %s")).
Eval vm_compute in ("<<<M275>>>" ++ check (runes_of_ascii "  root packet lengthOf { repeatCount { uint64 u8x , }
    , }")).
Eval vm_compute in ("<<<M771>>>" ++ check (runes_of_ascii "packet A {
  match k as n {
    [1] : B,
    2 : C
  },
}")).
Eval vm_compute in ("<<<M961>>>" ++ check (runes_of_ascii "MetaData M {
    u8 x `tab
	x`,
    T t `tab
	x`,
}")).
Eval vm_compute in ("<<<M1681>>>" ++ check (runes_of_ascii "options
	{ 	 // c
  A
=
""// no comment""

}

")).
Eval vm_compute in ("<<<M1855>>>" ++ check (runes_of_ascii "
packet

    A {u8	x
    `x
` ,
    }")).
Eval vm_compute in ("<<<M962>>>" ++ check (runes_of_ascii "root packet A {
    u8 x `tab
	x`,
}")).
Eval vm_compute in ("<<<M525>>>" ++ check (runes_of_ascii "packet
    asx { @calculatedFrom(")).
Eval vm_compute in ("<<<M1788>>>" ++ check (runes_of_ascii "packet A {
    u8 x `d" ++ [133]%N ++ runes_of_ascii "`,// c" ++ [133]%N ++ runes_of_ascii "
}")).
Eval vm_compute in ("<<<M580>>>" ++ check (runes_of_ascii "MetaData u
    { } MetaData o")).
Eval vm_compute in ("<<<M1099>>>" ++ check (runes_of_ascii "options { a = 1 // a
 ; }")).
Eval vm_compute in ("<<<M137>>>" ++ check (runes_of_ascii "MetaData f32a {
    }
")).
Eval vm_compute in ("<<<M995>>>" ++ check (runes_of_ascii "packet A {
}
// c ")).
Eval vm_compute in ("<<<M1076>>>" ++ check (runes_of_ascii "// c" ++ [6158]%N ++ runes_of_ascii "
packet A {
}")).
Eval vm_compute in ("<<<M1170>>>" ++ check (runes_of_ascii "packet x
// c
{ }")).
Eval vm_compute in ("<<<M560>>>" ++ check (runes_of_ascii "MetaData u")).
Eval vm_compute in ("<<<M310>>>" ++ check (runes_of_ascii "
//
")).
