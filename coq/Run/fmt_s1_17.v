From FP Require Import Lexer Parser ShowPT Digest Formatter.
From Coq Require Import String List NArith.
Import ListNotations.
Open Scope string_scope.
Set Printing Width 100000000.
Set Printing Depth 100000000.
Definition show_fres (r : fres) : string :=
  match r with
  | FOk s => "OK:" ++ sh_escaped s ""
  | FErr s => "ERR:" ++ sh_escaped s ""
  | FPanic p => "PANIC:" ++ p
  end.
Definition check (rs : list rune) : string := digest (show_fres (format_res rs)).
Definition full (rs : list rune) : string := show_fres (format_res rs).
Eval vm_compute in ("<<<M974>>>" ++ check (runes_of_ascii "options
    { As
= false}packet
stringy { @calculatedFrom( """ ++ [128512]%N ++ runes_of_ascii """ ) @calculatedFrom( ""\n"" ) MetaDataX metadata
, @tag(
7 ) u64
    packetx
, u
    // trailing space 
    charz `// not a comment` , @rightPad
(
    ) repeat
    i16	As`{ , }`
// c
//	t
,@rightPad
    (  ' '
) /// triple
@lengthOf(
uint8x )
msg_type { repeat options1 // " ++ [27880; 37322]%N ++ runes_of_ascii "
{ //	t
string
body , } , repeat int8 T//
,float32 len ,  pack
/// triple
// trailing space 
{repeat u16 lengthOf `line1
line2` ,  i32 len@lengthOf(	MetaDataX)
    `" ++ [233]%N ++ runes_of_ascii "`
,uint8x	{ BodyLength
    @lengthOf(
x
) , zchar[255]falsey	@lengthOf(Logon ) `crlf
line` , /// triple
},u8x
, } , /// triple
}
    // " ++ [27880; 37322]%N ++ runes_of_ascii "
    , @lengthOf( matchKey
) int ,} root packet Packet { uint16 u `a\`
,
    @leftPad ( '0'  )repeat
//x
// c
msg_type
{ falsey { repeatCount { uint32 As /// triple
, char[] repeatCount ,} ,}
, }
    ,@leftPad (
'0' )
@tag(
3) match
    calculatedFrom as asx { ""{,}""  : float, 1 : MetaDataX
""\" ++ [233]%N ++ runes_of_ascii """ // " ++ [27880; 37322]%N ++ runes_of_ascii "
:	_x
, 10
    :
string_ 0 : lengthOf
} /// triple
, u body
    , f32 Pad
    @lengthOf( MetaDataX )
    // c
    `" ++ [28040; 24687; 31867; 22411]%N ++ runes_of_ascii "` ,
    zchar[ 42 ]
u `{ , }`	, @calculatedFrom( ""\n"" )
    // c
    string
T
@lengthOf( tag //x
)
`say ""hi""` , // c
@rightPad // c
('0'
    )
match body as uint8x { [4294967296
, 1 , 00,
""x y""]
    : a1 ,} , } packet
a1 {@tag(
    42
)
    u16 tag @lengthOf(MetaDataX
    )
,
    uint64 int `tab	here` , string float
    @lengthOf( packetx )// " ++ [128512]%N ++ runes_of_ascii " emoji
`crlf
line`
    , float32 options1`it's` , @calculatedFrom( ""CRC32""	) uint8 crc , @tag( 1
) metadata f32a
    `" ++ [233]%N ++ runes_of_ascii "`
, @rightPad( // packet A { u8 x, }
'\x00'
)
@lengthOf(pack)	@tag( 0123456789 )float32 uint8x
    @lengthOf(
    u ) // packet A { u8 x, }
,
    //
    } root packet i8i8
{
    match
MetaDataX
as
o { ""// no comment""
: options1
,
7
: i8i8 [""{,}"", ""// no comment"",
""" ++ [128512]%N ++ runes_of_ascii """ , 10 , ""\n""	,  ""// no comment"" ,
""abc""
    ] : As ,
[ ""packet""
    /// triple
    ,  ""a\""b"", 10,""x y"",	""{,}"" ,
007
, 1,
""// no comment""
    ] :
BodyLength ,
} , // `tick` ""quote"" 'q'
@tag( 42 )
repeat string x_y_z	, f32a @calculatedFrom(
""""	) ,match u128 // a // b
as // a // b
Z9_ { """ ++ [28040; 24687]%N ++ runes_of_ascii """ : lengthOf ""\" ++ [233]%N ++ runes_of_ascii """
//
// `tick` ""quote"" 'q'
: string_ ,}, @tag( 4294967296	)  u64 f32a , string	roots@calculatedFrom(	""\" ++ [233]%N ++ runes_of_ascii """ ) // `tick` ""quote"" 'q'
`// not a comment`
, //	t
}
")).
Eval vm_compute in ("<<<M928>>>" ++ check (runes_of_ascii "
MetaData A
{
//
// @lengthOf(
zchar[ 7 ] packetx `
`
, i64  matchKey , metadata // @lengthOf(
f32a// a // b
`` ,
char[] tag`it's` ,
    }
    root
packet
stringy
{
@calculatedFrom(
    ""a	b""
) repeat crc `{ , }`	, @calculatedFrom( ""`tick`"" )
@rightPad ( '0') @tag(	42)match
    u128 as u8x{[ // @lengthOf(
65535	, 255
,255,
""abc""	, ""\" ++ [233]%N ++ runes_of_ascii """ , ""packet"", // " ++ [27880; 37322]%N ++ runes_of_ascii "
1 ] :Pad
    //
    ,// packet A { u8 x, }
}, @rightPad(	'\x00'  ) match Foo
as
u128{ 65535 : T, } , packetx ,zchar[0123456789
]	A,int16
uint8x , float `crlf
line`, @tag(7
) @calculatedFrom(
""""
) As { repeat
    uint8x len , char[ 65535
] options1
    @lengthOf(
lengthOf ) `doc`
, repeat uint8x	{ // " ++ [128512]%N ++ runes_of_ascii " emoji
f32a `{ , }` , zchar[	255	]
int
@calculatedFrom( ""// no comment"" ) , x_y_z @lengthOf( x_y_z )
    //x
    `say ""hi""` ,repeat float // " ++ [27880; 37322]%N ++ runes_of_ascii "
{ zchar[ 4294967296]T `// not a comment`
, } , } ,
i8i8
{ // trailing space 
msg_type `line1
line2` , } ,} , @rightPad
    /// triple
    ( ' '
)  i8i8`say ""hi""` ,} root packet i8i8 // @lengthOf(
{
    //
    @tag( 0123456789
) @rightPad // a // b
( ' '
// c
// a // b
)
    // @lengthOf(
    @tag( 1 ) calculatedFrom MetaDataX , uint8 tag , repeat
string_ { u32 BodyLength
    , //x
repeat	Packet _x , Header{ falsey
len
,
}
// " ++ [27880; 37322]%N ++ runes_of_ascii "
//	t
, } ,
@rightPad  (
    '0'// packet A { u8 x, }
)  repeat //	t
char packetx `{ , }` ,
    @leftPad
    ( ' ' )
    // @lengthOf(
    @lengthOf( x ) // a // b
char[]
len
@calculatedFrom(
""{,}"" )
    `tab	here` , @lengthOf(
Z9_
    ) match
// " ++ [128512]%N ++ runes_of_ascii " emoji
// packet A { u8 x, }
a1
as a1
    {42 : x,
""a\""b""
:tag
[ 42	, 42 ,
    0 , 4294967296 ]: u8x ,// c
65535 // " ++ [128512]%N ++ runes_of_ascii " emoji
:As
    , // " ++ [128512]%N ++ runes_of_ascii " emoji
""a\\"" :x } , @tag( 65535	) @leftPad ( ' '
) @calculatedFrom(
    ""a	b"" )Z9_ //	t
{ repeat i8i8 lengthOf , }  , repeat
    char[
    3/// triple
]
    options1 `" ++ [28040; 24687; 31867; 22411]%N ++ runes_of_ascii "`
    ,}// c
packet
    calculatedFrom { }
")).
Eval vm_compute in ("<<<M1124>>>" ++ check (runes_of_ascii "
MetaData msg_type{ trueish i8i8,
float32 msg_type ,
options1 BodyLength `two words`, u128 body `u8 x,` , }// trailing space 
packet
    // c
    Logon {
    repeat
i32 metadata `
`
, @calculatedFrom(""x y"")
    // c
    i64_ , i64 int@lengthOf( pack  )
    ,
    char[] charz ,
    // @lengthOf(
    match
_x as
// a // b
/// triple
pack { 3
: body,[ ""// no comment"" ,""a\""b""
] : uint8x , 3: lengthOf	,
    } ,
matchKey , roots
{ _x @lengthOf(	Pad	)
,
repeat
    a1	_x , } ,
    string T, @lengthOf(
//
// a // b
Pad )
match f32a as u // c
{// a // b
[10
    // a // b
    ,
    //	t
    """ ++ [233]%N ++ runes_of_ascii "t" ++ [233]%N ++ runes_of_ascii """, // a // b
""`tick`"" , 255 ,
0123456789 , ""1"" ,//
""a	b""  ,
3
    ]
    :options1 } ,	} MetaData u128{char[ 10 ] tag ,
pack
stringy , char
pack, } root packet Header //
{match Foo as Logon{  [ """ ++ [233]%N ++ runes_of_ascii "t" ++ [233]%N ++ runes_of_ascii """ ,
""CRC32"" ]: falsey [ //x
""" ++ [233]%N ++ runes_of_ascii "t" ++ [233]%N ++ runes_of_ascii """,
/// triple
// a // b
""""
    ]
:
u128, [ 00
    , ""a\""b"" , 7 , ""it's"",""" ++ [28040; 24687]%N ++ runes_of_ascii """, 00 ,
// " ++ [128512]%N ++ runes_of_ascii " emoji
/// triple
255 , 00 ] :
asx , ""// no comment"" :charz ,
""1"" : Packet ,
[ ""// no comment"" , 1	] :  zchar,
} , @lengthOf(u8x// a // b
)@tag(
    007 // @lengthOf(
) @lengthOf( pack) u8 _x`doc` ,
zchar[ 0123456789
    // a // b
    ] Packet@lengthOf( o)
    ,	match chars	as
msg_type
    {
    ""\n""
    : lengthOf , 0123456789
// packet A { u8 x, }
// trailing space 
:
a1 , [ 4294967296  ] : stringy ,[ ""`tick`"" ,""`tick`""
    // `tick` ""quote"" 'q'
    , 0  ] // @lengthOf(
:
    /// triple
    falsey , [ // `tick` ""quote"" 'q'
007 ,
    // a // b
    65535
, 65535
    , 10
    , ""abc"" ,
3
    ] :
body ,
} ,zchar[  10 ]
    // " ++ [27880; 37322]%N ++ runes_of_ascii "
    Logon, }	packet Packet { } // " ++ [27880; 37322]%N)).
Eval vm_compute in ("<<<M3842>>>" ++ check (runes_of_ascii "packet u {
    @calculatedFrom(""1"")
    match o as float {
        ""x y"" : u,
    },
    match packetx as f32a {
        // a // b
        // c
        [4294967296, 3] : x,
        10 : i8i8,
        """ ++ [233]%N ++ runes_of_ascii "t" ++ [233]%N ++ runes_of_ascii """ : _x,
        [
            42, 4294967296, ""a	b"", """ ++ [28040; 24687]%N ++ runes_of_ascii """, ""1"",
            ""a\\"", ""a	b""
        ] : Header,
        //
        65535 : i8i8,
        0123456789 : repeatCount,
    },
    repeat stringy {
        //	t
        char[0] Logon `{ , }`,
        Pad `a\`,
        asx BodyLength `line1
        line2`,
        repeat string Z9_,
    },
    f32a metadata `" ++ [28040; 24687; 31867; 22411]%N ++ runes_of_ascii "`,
    @calculatedFrom(""a\""b"")
    metadata {
        Z9_ @calculatedFrom(""" ++ [233]%N ++ runes_of_ascii "t" ++ [233]%N ++ runes_of_ascii """),
        repeat zchar[1] options1 `say ""hi""`,
        i8 options1,
        roots {
            string packetx,
            repeat char[65535] x,
        },
    },
    int8 matchKey,
    metadata @lengthOf(roots),
    string u @lengthOf(As),
}

packet x_y_z {
    // " ++ [128512]%N ++ runes_of_ascii " emoji
    len o,
    match string_ as Foo {
        [
            255, 255, 007, """ ++ [233]%N ++ runes_of_ascii "t" ++ [233]%N ++ runes_of_ascii """, ""a\""b"",
            ""abc""
        ] : a1,
        ""CRC32"" : matchKey,
    },
    @lengthOf(int)
    @calculatedFrom(""1"")
    @calculatedFrom(""it's"")
    char[0] matchKey @calculatedFrom(""`tick`""),
    match a1 as Z9_ {
        [65535, ""CRC32""] : x,
        [0123456789, """ ++ [233]%N ++ runes_of_ascii "t" ++ [233]%N ++ runes_of_ascii """] : packetx,
        ""packet"" : msg_type,
        10 : o,
    },
    @lengthOf(repeatCount)
    f32 As,
    @tag(3)
    string_,
}")).
Eval vm_compute in ("<<<M266>>>" ++ check (runes_of_ascii "packet asx { Logon{ body
@calculatedFrom( // trailing space 
""it's"" ) , // @lengthOf(
char[ 3] MetaDataX , string
    leftPad `crlf
line` , u128@calculatedFrom( ""packet""
    ),} , } //x
packet
x_y_z
    // packet A { u8 x, }
    { len {
    match leftPad// c
as
rootA {[007 // trailing space 
, ""a\\"" , 0123456789,
    ""\" ++ [233]%N ++ runes_of_ascii """ , ""`tick`"" , ""{,}""
    ] : falsey , 4294967296:	matchKey
, // packet A { u8 x, }
}
    , int32 //	t
Z9_ // " ++ [27880; 37322]%N ++ runes_of_ascii "
,a1
{
    x_y_z ,
    repeat	_x `doc` , char[]falsey
    @lengthOf(u128) `doc` ,
    }/// triple
,match Foo as
stringy {7 : asx // " ++ [128512]%N ++ runes_of_ascii " emoji
, ""x y""	:
    calculatedFrom
, }
    , }, @lengthOf(i64_ ) @rightPad ( /// triple
'\x00'// @lengthOf(
)@tag( 42 )  char[]
repeatCount ,
match	Z9_ //x
as  int {[//x
""a	b"" ,	""abc""
    , 255 , 7 // " ++ [128512]%N ++ runes_of_ascii " emoji
] :asx
""1"" : chars , [ ""a	b"", 00 ,4294967296 ] :
leftPad , [
65535
, //x
0 , //	t
""abc"" // a // b
, ""it's"", 007 ,
    ""x y"" ,
    255,3 ]  :
leftPad
    , [
    //x
    4294967296]: u
,
// " ++ [128512]%N ++ runes_of_ascii " emoji
// " ++ [128512]%N ++ runes_of_ascii " emoji
0123456789 :a1  } ,
x_y_z  u8x ,  asx{ repeat
Header float `crlf
line`
    , rootA
charz// " ++ [128512]%N ++ runes_of_ascii " emoji
`a\` , } , @calculatedFrom(""CRC32"" ) string string_
,  @tag(
65535 )  @rightPad ( '\x00' ) u8x	a1 `{ , }` , } options { // c
float = // " ++ [27880; 37322]%N ++ runes_of_ascii "
007 }
root // c
packet
metadata {
}
")).
Eval vm_compute in ("<<<M134>>>" ++ check (runes_of_ascii "packet As { options1
    { i16 o , } , i64 roots ,repeat char[] o
    `a\` , @calculatedFrom( ""1""//x
)  repeatCount	@lengthOf(/// triple
falsey /// triple
)
// packet A { u8 x, }
// " ++ [128512]%N ++ runes_of_ascii " emoji
`a\` ,
@lengthOf( stringy ) char[]	As
`" ++ [233]%N ++ runes_of_ascii "` ,
asx {match msg_type as
chars { //	t
00: metadata
    // `tick` ""quote"" 'q'
    , }
    , i8 pack// c
@calculatedFrom(
    /// triple
    ""x y"" )
// trailing space 
// a // b
,//	t
match u8x as	rootA{
""1"": a1
, [
    // packet A { u8 x, }
    4294967296 ]
:msg_type
//
//x
,
}
, } // a // b
, @calculatedFrom(
""" ++ [233]%N ++ runes_of_ascii "t" ++ [233]%N ++ runes_of_ascii """ ) int16 roots ,
    @tag(1 )	@leftPad ( '0' ) @rightPad // " ++ [27880; 37322]%N ++ runes_of_ascii "
( '\x00'
)i32 asx `tab	here`	,char Logon `u8 x,` // trailing space 
,  }
root	packet string_ {// @lengthOf(
}packet Z9_ { int8 _x
, repeat u8 uint8x `" ++ [233]%N ++ runes_of_ascii "`
,
float64 x_y_z @calculatedFrom(	""x y"" )
    , @calculatedFrom(	""a\""b"" ) @calculatedFrom( ""a\""b"" )
    int
{zchar[255
] //
msg_type,  i64_
    // trailing space 
    {
    stringy @lengthOf(x_y_z )
    , u
    options1
    //
    `tab	here` ,
char[0123456789 ] msg_type ,float32
    Foo `{ , }`
    , } , } ,  @tag(	0
)
    @calculatedFrom( ""CRC32"" ) charz , @tag(
    // @lengthOf(
    4294967296 )
i64 packetx ,  } //	t")).
Eval vm_compute in ("<<<M3820>>>" ++ check (runes_of_ascii "options {
}

MetaData x_y_z {
    string_ packetx,
    metadata o,
    char[3] charz,
    zchar charz,
}

MetaData T {
    zchar[3] len,
    u x_y_z,
    u64 A,
}

packet zchar {
    @tag(4294967296)
    @calculatedFrom(""" ++ [233]%N ++ runes_of_ascii "t" ++ [233]%N ++ runes_of_ascii """)
    @calculatedFrom(""abc"")
    match tag as tag {
        """" : stringy,
        """ ++ [28040; 24687]%N ++ runes_of_ascii """ : f32a,
        4294967296 : matchKey,
        0 : msg_type,
        7 : Logon,
        7 : trueish,
    },
    roots @calculatedFrom(""" ++ [233]%N ++ runes_of_ascii "t" ++ [233]%N ++ runes_of_ascii """),
    BodyLength `" ++ [233]%N ++ runes_of_ascii "`,
    repeat int zchar `
    `,
    @leftPad()
    body @calculatedFrom(""" ++ [233]%N ++ runes_of_ascii "t" ++ [233]%N ++ runes_of_ascii """),
}

packet Packet {
    @lengthOf(uint8x)
    // @lengthOf(
    i64_ {
        u128 {
            stringy,
        },
    },
    T MetaDataX `u8 x,`,
    @calculatedFrom("""")
    @lengthOf(x_y_z)
    @calculatedFrom(""1"")
    uint32 charz @calculatedFrom(""`tick`"") `" ++ [233]%N ++ runes_of_ascii "`,
    // @lengthOf(
    string u8x @calculatedFrom(""\" ++ [233]%N ++ runes_of_ascii """) `line1
    line2`,
    @leftPad()
    string tag @lengthOf(f32a) `" ++ [233]%N ++ runes_of_ascii "`,
    @rightPad()
    @tag(7)
    @lengthOf(rootA)
    // " ++ [128512]%N ++ runes_of_ascii " emoji
    repeat T matchKey,
    @lengthOf(metadata)
    zchar[10] _x @lengthOf(a1),
    @leftPad()
    f32a o `{ , }`,
}")).
Eval vm_compute in ("<<<M4282>>>" ++ check (runes_of_ascii "root packet As {
    @calculatedFrom(""{,}"")
    zchar[4294967296] As,
    @tag(7)
    repeat pack {
        body {
            // trailing space 
            zchar[65535] MetaDataX `doc`,
            string_ @lengthOf(Logon),
            i64 MetaDataX @calculatedFrom("""") `a\`,//x
            repeat char[] Foo,
        },
    },
    @lengthOf(MetaDataX)
    @calculatedFrom(""\n"")
    @lengthOf(float)
    char[0123456789] a1 @calculatedFrom(""a\""b""),
    repeat msg_type {
        // `tick` ""quote"" 'q'
        repeat f64 Packet `a\`,
        int64 asx @calculatedFrom(""{,}"") `" ++ [233]%N ++ runes_of_ascii "`,
        zchar[3] metadata,
        zchar[00] x_y_z @calculatedFrom(""CRC32""),
    },
}

packet calculatedFrom {
    match calculatedFrom as BodyLength {
        65535 : Foo,
    },
    match int as falsey {
        42 : body,
        [""abc"", ""\n"", ""abc"", """ ++ [28040; 24687]%N ++ runes_of_ascii """] : stringy,
        [0123456789, 42, 1, ""{,}""] : trueish,
        ""`tick`"" : metadata,
        [42, ""1"", ""a	b""] : zchar,
    },
    repeat zchar[4294967296] stringy `line1
    line2`,
}

options {
    stringy = ' ';
}")).
Eval vm_compute in ("<<<M1236>>>" ++ check (runes_of_ascii "
packet
roots
    {f32 zchar @calculatedFrom( ""a	b""	) `crlf
line`
,
// @lengthOf(
/// triple
uint8x
`tab	here`// `tick` ""quote"" 'q'
, @rightPad ( // a // b
)
@rightPad ( '\x00' ) string int
@lengthOf( body
// " ++ [128512]%N ++ runes_of_ascii " emoji
//	t
)
,charz { repeat zchar{BodyLength
// " ++ [27880; 37322]%N ++ runes_of_ascii "
// c
@lengthOf( int // a // b
) , } , }	, @rightPad (
' ' ) repeat
    asx metadata  `it's`
    ,
float64 trueish ,repeat//	t
char[ 42] // " ++ [128512]%N ++ runes_of_ascii " emoji
body`a\` ,	@rightPad
    (
'0' )u32  body
    `tab	here` , } // `tick` ""quote"" 'q'
packet chars { @calculatedFrom(
    ""packet"" ) zchar[ 65535
]_x , float
    As`line1
line2`// c
, u64 asx @calculatedFrom(
""1"")
`u8 x,`
,crc	@lengthOf(  msg_type ) ,
    @tag(
    00 ) //x
@rightPad
    (// @lengthOf(
' ' // c
) /// triple
@calculatedFrom( """ ++ [233]%N ++ runes_of_ascii "t" ++ [233]%N ++ runes_of_ascii """ // " ++ [128512]%N ++ runes_of_ascii " emoji
) uint8
    calculatedFrom , }options {  Packet =' '
; Logon
/// triple
// trailing space 
=255
BodyLength =""// no comment""
} options { float =
""a	b"" ; f32a= """ ++ [28040; 24687]%N ++ runes_of_ascii """
    //	t
    len =
    uint64 ;
    calculatedFrom='0' // " ++ [27880; 37322]%N ++ runes_of_ascii "
; }")).
Eval vm_compute in ("<<<M3932>>>" ++ check (runes_of_ascii "packet leftPad {
}

packet u {
    @leftPad(' ')
    char[65535] leftPad,
    int8 packetx,
    string stringy `crlf
        line`,
    @leftPad(' ')
    // " ++ [128512]%N ++ runes_of_ascii " emoji
    i64 x @lengthOf(u) `" ++ [28040; 24687; 31867; 22411]%N ++ runes_of_ascii "`,
    @lengthOf(pack)
    // a // b
    //
    u64 asx @lengthOf(repeatCount) `u8 x,`,
    o A,
}

root packet charz {
    char[] repeatCount @lengthOf(tag) ``,
    repeat pack `a\`,
    @calculatedFrom(""// no comment"")
    T {
        string rootA @calculatedFrom(""{,}""),
    },
    repeat As Foo,
    char[3] trueish,
    @calculatedFrom("""")
    @lengthOf(metadata)
    @leftPad('0')
    repeat u64 float `{ , }`,
    stringy {
        // packet A { u8 x, }
        // c
        metadata {
            u8 f32a `two words`,
            repeat char[007] f32a `
                        `,
        },
        u32 asx @calculatedFrom(""" ++ [233]%N ++ runes_of_ascii "t" ++ [233]%N ++ runes_of_ascii """),
        float64 i8i8,//x
    },
    // c
    // " ++ [27880; 37322]%N ++ runes_of_ascii "
    match lengthOf as zchar {
        00 : o,
    },
}")).
Eval vm_compute in ("<<<M431>>>" ++ check (runes_of_ascii "// a // b
packet
body{ @lengthOf( tag
    // trailing space 
    ) char[
255 ] Packet
    , @leftPad
() @rightPad ('0'
) repeat Pad
    { repeat char[007 ]	As ,
    } ,
match Header	as crc
{007
: Logon[""a\""b"" , 0
] :_x,255
:
    _x// trailing space 
, 3 :
    pack
,""a\\""	:
    _x  , ""CRC32"" : repeatCount// trailing space 
,
}
// `tick` ""quote"" 'q'
// " ++ [128512]%N ++ runes_of_ascii " emoji
,
    @lengthOf( MetaDataX
    )	charz
    chars // @lengthOf(
`it's` ,@tag(
    10//
) match a1 as x_y_z {
    ""// no comment"":Foo
    , [ ""// no comment"" ,10 ]
: roots , } , }	packet options1 {
}  packet asx { @rightPad (' '
) match string_ as MetaDataX//x
{[ 42 , // trailing space 
3 ,  ""abc"" ,	7  ]: rootA
, 0123456789 :BodyLength
""abc"" :BodyLength , ""x y"" :
    metadata ,}
,}MetaData
u128
    { string  rootA	,	}
MetaData _x {i8i8 matchKey `it's`
//	t
// a // b
, uint32 len ,	tag options1 ,char[ 1
    ] x,}")).
Eval vm_compute in ("<<<M19>>>" ++ check (runes_of_ascii "packet
int // " ++ [27880; 37322]%N ++ runes_of_ascii "
{ repeat // @lengthOf(
MetaDataX // a // b
{ //	t
pack
    { repeat Pad	{ i8 MetaDataX
, repeat pack	trueish ,
u
    // trailing space 
    charz	`" ++ [233]%N ++ runes_of_ascii "` ,string
int
, }	, f64 Z9_
    ,
} ,
} // c
,	} packet trueish {
@lengthOf(
    u)uint8 metadata
    `" ++ [28040; 24687; 31867; 22411]%N ++ runes_of_ascii "` , match	uint8x
as roots
{ """ ++ [233]%N ++ runes_of_ascii "t" ++ [233]%N ++ runes_of_ascii """:
    Pad 0123456789
: msg_type// " ++ [27880; 37322]%N ++ runes_of_ascii "
[ ""1"" ,	0 ,10] //	t
:
pack,
[ ""it's"" ,  ""\" ++ [233]%N ++ runes_of_ascii """ ] :u8x
, [// " ++ [128512]%N ++ runes_of_ascii " emoji
0123456789 ] :
MetaDataX
    // packet A { u8 x, }
    , },zchar[	00 ] pack @lengthOf( string_ ),// packet A { u8 x, }
@tag( 4294967296 )
x_y_z string_ ,
    } options {A
    =true float  =	""" ++ [28040; 24687]%N ++ runes_of_ascii """ ; }
MetaData Header { zchar[//
7 // `tick` ""quote"" 'q'
]u128
, char[]
/// triple
// trailing space 
u , string_ metadata	,
uint32 f32a `u8 x,` , } options{// trailing space 
roots
    =
    true;
int =false ; string_=
"""" }")).
Eval vm_compute in ("<<<M1071>>>" ++ check (runes_of_ascii "packet Logon {string rootA	, rootA
    {	match
    repeatCount as int {
    ""{,}"" :	zchar , 65535  : repeatCount // packet A { u8 x, }
,
// " ++ [128512]%N ++ runes_of_ascii " emoji
/// triple
007 //	t
://
i8i8 007 : x,007: matchKey
, }  ,zchar[ 0123456789] float ,} ,uint64 // @lengthOf(
string_	`// not a comment` ,	repeat MetaDataX ,	} options { Z9_= '0' ;
    A // " ++ [128512]%N ++ runes_of_ascii " emoji
= 1 ;x_y_z = true ;// a // b
T = false  ;
    }  packet crc{
//x
// `tick` ""quote"" 'q'
@lengthOf(
    repeatCount )
    char[] calculatedFrom @lengthOf( lengthOf
// @lengthOf(
// " ++ [128512]%N ++ runes_of_ascii " emoji
) `a\`
, } packet Foo {
    //
    match uint8x as tag { [ 3 ,""`tick`"" ,	""packet""
    , ""// no comment""
// trailing space 
// " ++ [27880; 37322]%N ++ runes_of_ascii "
,	""a	b"" ,
    007
    ] :
    Header	,
7 :	_x , // a // b
10 :
    falsey ,
""\n"" :
    falsey	,255	: rootA , } ,
    }

")).
Eval vm_compute in ("<<<M4232>>>" ++ check (runes_of_ascii "/// triple
packet matchKey {
    // `tick` ""quote"" 'q'
    repeatCount `line1
    line2`,
    @calculatedFrom(""1"")
    u128 @calculatedFrom(""\" ++ [233]%N ++ runes_of_ascii """),// @lengthOf(
    @calculatedFrom(""abc"")
    repeat int uint8x,
    Packet @lengthOf(trueish),
    @tag(3)
    rootA @lengthOf(asx) `it's`,
    repeat tag body,
    @lengthOf(_x)
    @calculatedFrom(""1"")
    @leftPad('0')
    i8 i64_ @calculatedFrom(""a\""b""),
}

packet x_y_z {
    @tag(7)
    match Z9_ as i64_ {
        """" : roots,
        ""`tick`"" : T,
        007 : zchar,
        [
            4294967296, 7, 4294967296, 4294967296, 10,
            255, ""\" ++ [233]%N ++ runes_of_ascii """
        ] : pack,
        1 : asx,
        ""CRC32"" : x_y_z,
    },// a // b
}

options {
}

root packet packetx {
    i8i8 @lengthOf(u128),
}")).
Eval vm_compute in ("<<<M4036>>>" ++ check (runes_of_ascii "packet _x {
    metadata @lengthOf(i64_),
    match trueish as int {
        [255, """"] : T,
        65535 : zchar,
    },
    @calculatedFrom(""a\""b"")
    match leftPad as len {
        ""x y"" : Z9_,
        [0, 007, ""x y""] : falsey,
    },
}

root packet As {
    string int,
    @tag(255)
    @lengthOf(roots)
    @calculatedFrom(""" ++ [128512]%N ++ runes_of_ascii """)
    repeat crc {
        repeat char trueish,// " ++ [128512]%N ++ runes_of_ascii " emoji
    },
    zchar[4294967296] options1 @calculatedFrom(""CRC32""),
    match packetx as lengthOf {
        ""a\""b"" : options1,
        0123456789 : Foo,
        ""a\\"" : trueish,
        3 : string_,
        ""\n"" : zchar,
        [65535] : u128,
    },
    @tag(42)
    @leftPad('\x00')
    i16 crc,
}

packet lengthOf {
}")).
Eval vm_compute in ("<<<M4520>>>" ++ check (runes_of_ascii "
root
    packet
Foo
	{  u64
calculatedFrom
    @lengthOf(

    u )
    ,
	u16 len  , match metadata	as  a1
    {
// `tick` ""quote"" 'q'
  // " ++ [27880; 37322]%N ++ runes_of_ascii "
	255 :

    roots,10: i8i8
[ // a // b

00  ]:i8i8
    , [
""abc""
]
:
Header,	[ 
    // packet A { u8 x, }
	00
] 	 // packet A { u8 x, }
    	: x
, 
""abc"" :Logon
}  ,

    @leftPad

('0' 
) 	 // " ++ [27880; 37322]%N ++ runes_of_ascii "
	Pad  {  zchar[10 ]asx	`{ , }`

    ,
Header@calculatedFrom(""a\\""	),
repeat T ,int16  roots`// not a comment`
	, }

    ,}packet

o

    { 
@tag(00
    ) 
@leftPad
(	'\x00' 
  // `tick` ""quote"" 'q'
  //x
    	)
	Z9_
    //	t
	//
  @calculatedFrom( ""CRC32""	) ,
@lengthOf( crc
        //x
  	//
      )zchar

,
}

")).
Eval vm_compute in ("<<<M675>>>" ++ check (runes_of_ascii "packet uint8x {@lengthOf( Z9_) match A as As { 3
    : float,""x y"" :
    pack
, 255  :
    roots
    ,
    [  ""\n""]	: int
    , // " ++ [27880; 37322]%N ++ runes_of_ascii "
[ // @lengthOf(
""CRC32"" , ""1""] :
    len , } ,char[] options1`{ , }` ,	@tag(
    255  )	f32a @calculatedFrom( """ ++ [28040; 24687]%N ++ runes_of_ascii """)`// not a comment` ,match
    x as pack{ ""// no comment"" : roots //
,
    """ ++ [233]%N ++ runes_of_ascii "t" ++ [233]%N ++ runes_of_ascii """ :	asx, [ ""1"",
""abc"" , 4294967296
    , """ ++ [128512]%N ++ runes_of_ascii """  ]
    // `tick` ""quote"" 'q'
    :crc , ""{,}"" :
    // a // b
    As
00 //
: string_
    ,
}
, Logon ,
    } packet tag { // " ++ [27880; 37322]%N ++ runes_of_ascii "
@tag(00
)a1 { u8
zchar
`` , }, @rightPad ( ' '
    )o i8i8 , f64 Logon @lengthOf(options1)
    , }
    packet pack{ }
// a // b
")).
Eval vm_compute in ("<<<M312>>>" ++ check (runes_of_ascii "packet BodyLength // " ++ [27880; 37322]%N ++ runes_of_ascii "
{ char[ 255 // " ++ [27880; 37322]%N ++ runes_of_ascii "
]	_x, match body as repeatCount
    { ""{,}"" :
len }
    , char[
    0] Logon @calculatedFrom(	""{,}"" ) ,
    // a // b
    @rightPad() i64_//x
@calculatedFrom( ""it's"" )
    `crlf
line` , } packet
Header {
match As as
    chars
{
7: packetx , [ ""it's""  ]: u128
,
    [
    4294967296 , ""{,}"" ] : f32a ,} ,
    }packet asx { @calculatedFrom( ""1""
)
    a1
// @lengthOf(
//
,
//
//x
match x_y_z as  crc /// triple
{
// `tick` ""quote"" 'q'
// `tick` ""quote"" 'q'
""CRC32"" : As
, 7
:o , //x
} ,match msg_type as Packet {""" ++ [233]%N ++ runes_of_ascii "t" ++ [233]%N ++ runes_of_ascii """ : metadata }, repeat u8
i64_ ,// a // b
}")).
Eval vm_compute in ("<<<M4045>>>" ++ check (runes_of_ascii "
root packet
	pack{
@calculatedFrom(	""`tick`""
	)@calculatedFrom(  
  // " ++ [128512]%N ++ runes_of_ascii " emoji
		""\n""	)@tag( 0123456789 )
	match
zchar 
as
string_
{[
""packet""

]//

	:
    i8i8
, [
	0123456789 , 7 ]  :  string_

    ,
//x

	// `tick` ""quote"" 'q'
0

    : options1

    , ""\" ++ [233]%N ++ runes_of_ascii """
:	// `tick` ""quote"" 'q'
Foo ,
    }

,	@lengthOf(  calculatedFrom	)  Foo
@lengthOf( x
)	`crlf
line`, lengthOf  @lengthOf(int
	)  , T	,

    @lengthOf( rootA
	)
zchar[ 
007  ]

    // " ++ [128512]%N ++ runes_of_ascii " emoji
		// packet A { u8 x, }

x`crlf
line`
,
@calculatedFrom(

""\n"" ) 
repeat
    f64 chars
,matchKey
    _x	,
	}
")).
Eval vm_compute in ("<<<M4353>>>" ++ check (runes_of_ascii "packet metadata {
    @tag(7)
    body {
        u8x As `line1
                line2`,
        match MetaDataX as float {
            10 : msg_type,
            7 : o,
        },// " ++ [27880; 37322]%N ++ runes_of_ascii "
    },
    _x {
        repeat falsey `
                `,
        match x_y_z as Packet {
            """ ++ [28040; 24687]%N ++ runes_of_ascii """ : u8x,
        },
        zchar @calculatedFrom(""" ++ [233]%N ++ runes_of_ascii "t" ++ [233]%N ++ runes_of_ascii """),
    },// trailing space 
    @lengthOf(stringy)
    i64_ @lengthOf(_x) ``,/// triple
}

//x
//x
packet asx {
    @leftPad('\x00')
    i64 repeatCount,
    @lengthOf(lengthOf)
    repeat float32 Logon,
}")).
Eval vm_compute in ("<<<M432>>>" ++ check (runes_of_ascii "packet A {Logon// @lengthOf(
o
,	u8x{ // @lengthOf(
asx // " ++ [27880; 37322]%N ++ runes_of_ascii "
chars, }
    , x o
,@leftPad
    ( )// trailing space 
As
// c
//x
@lengthOf(
u)	,}MetaData f32a{crc
    Logon ,}	root packet
    u128 {stringy Logon// " ++ [128512]%N ++ runes_of_ascii " emoji
`a\`, @calculatedFrom( // c
""1""
)	@leftPad
    // a // b
    ( '\x00' ) @tag(255 )int64 stringy @lengthOf(lengthOf //	t
) `line1
line2`, rootA `
`,@calculatedFrom( ""a	b""
    )// packet A { u8 x, }
o
@calculatedFrom(  ""`tick`"" ) // @lengthOf(
`a\`
, repeatCount @lengthOf(
    T ) // @lengthOf(
, }
")).
Eval vm_compute in ("<<<M793>>>" ++ check (runes_of_ascii "options{ Header = ' ' } root
packet lengthOf{ uint8 chars , @leftPad (  '\x00' ) repeat
    u128 {match	Header as	msg_type{ 007	:roots  , }
// c
//	t
, A
o ,
match Header as
options1 { 00 : float,""1"": int , """ ++ [128512]%N ++ runes_of_ascii """
: T , [
    ""a\\""
// " ++ [128512]%N ++ runes_of_ascii " emoji
// packet A { u8 x, }
,""// no comment""
// a // b
// packet A { u8 x, }
] //	t
: Foo	0123456789	:
    matchKey , } ,repeat
    o ,
}, } packet x_y_z { repeat stringy A  , @tag(  42 ) char[
    007 ]  Logon ,@leftPad ('\x00'
    )  zchar[
007 ]MetaDataX
, }")).
Eval vm_compute in ("<<<M293>>>" ++ check (runes_of_ascii "root
    packet
//	t
// c
charz{
f32 stringy // @lengthOf(
, @rightPad ( '\x00'
    ) metadata
    { MetaDataX
A
    // `tick` ""quote"" 'q'
    , }
,
repeat zchar[ 0/// triple
] u8x , @calculatedFrom( // @lengthOf(
""it's"")
    match trueish as
u128 { ""{,}"" :
    stringy
} ,}
    packet Packet
{char[ 3]  int @calculatedFrom( ""x y""
) ,
}
MetaData Packet { u128 trueish `" ++ [28040; 24687; 31867; 22411]%N ++ runes_of_ascii "` , int8 pack,
    // packet A { u8 x, }
    zchar[ 00 //x
] repeatCount `a\` ,
    // c
    }
")).
Eval vm_compute in ("<<<M1222>>>" ++ check (runes_of_ascii "root packet metadata {
@calculatedFrom( ""abc""
    ) // a // b
repeat charz	metadata `two words` , zchar[0 ]
    packetx`u8 x,`, i16
    Pad @lengthOf(
BodyLength
    )
`a\`,string int @lengthOf(  leftPad )`a\` , char[] leftPad @calculatedFrom(	""1"" ) //	t
, @lengthOf(u128)repeat char[ 10] A `{ , }`
    , leftPad i64_ , @tag(007
    )
x u128 ,
// packet A { u8 x, }
// @lengthOf(
uint32	options1	`it's`// packet A { u8 x, }
,
// packet A { u8 x, }
//x
}")).
Eval vm_compute in ("<<<M1035>>>" ++ check (runes_of_ascii "// @lengthOf(
MetaData	msg_type
{} MetaData Logon { i64 uint8x ,
o u128  ,}packet
    body {
@calculatedFrom( ""a	b"" ) uint8x`` ,} root
packet  roots{ repeat len f32a `crlf
line` , @rightPad( '\x00'
) repeat i8i8
    { zchar @lengthOf(
    packetx ) `a\`,
repeat
msg_type , char[]
    o `" ++ [233]%N ++ runes_of_ascii "`	, char[
// " ++ [27880; 37322]%N ++ runes_of_ascii "
//
42
]
roots // @lengthOf(
,
//x
// `tick` ""quote"" 'q'
}  , } MetaData
    pack
//	t
// trailing space 
{
repeatCount
charz , }")).
Eval vm_compute in ("<<<M284>>>" ++ check (runes_of_ascii "MetaData
Header { int64
zchar
`u8 x,` , Header u8x ,  zchar[ 65535]u ,	A options1
`it's` , zchar[  007 ] MetaDataX , zchar[// `tick` ""quote"" 'q'
0] As , }
    MetaData Logon	{char[] rootA,
} packet int
{
f32 falsey, } MetaData float { len
leftPad ,
    A
    Foo
`tab	here`
    , char[ 65535
] T
`line1
line2` ,	} options // " ++ [128512]%N ++ runes_of_ascii " emoji
{
// " ++ [128512]%N ++ runes_of_ascii " emoji
// " ++ [27880; 37322]%N ++ runes_of_ascii "
float
    ='0'
//x
// a // b
;float
= true
    ;	Foo = ""\n""}")).
Eval vm_compute in ("<<<M4587>>>" ++ check (runes_of_ascii "MetaData roots {
}

MetaData x_y_z {
    zchar[42] i8i8,
    options1 _x `doc`,
    i8 zchar,
    uint16 Pad `u8 x,`,
}

packet MetaDataX {
    zchar[4294967296] rootA,
}

packet T {
    @lengthOf(len)
    @tag(42)
    int64 float `{ , }`,
    @lengthOf(i64_)
    As @lengthOf(falsey),
    int64 Pad @lengthOf(_x) `it's`,
    @lengthOf(len)
    char[255] Pad `" ++ [28040; 24687; 31867; 22411]%N ++ runes_of_ascii "`,
}

MetaData Foo {
    char[1] As,
}")).
Eval vm_compute in ("<<<M3205>>>" ++ check (runes_of_ascii "// top
options // c0
{ // c1
charz // c2
= // c3
f64 // c4
; // c5
metadata // c6
= // c7
7 // c8
; // c9
} // c10
options // c11
{ // c12
u128 // c13
= // c14
10 // c15
options1 // c16
= // c17
true // c18
; // c19
zchar // c20
= // c21
uint16 // c22
; // c23
lengthOf // c24
= // c25
true // c26
; // c27
} // c28
options // c29
{ // c30
len // c31
= // c32
1 // c33
} // c34
")).
Eval vm_compute in ("<<<M3729>>>" ++ check (runes_of_ascii "//	t
packet Header {
    @tag(0)
    float64 u128,
    @tag(65535)
    pack `line1
        line2`,
    @tag(1)
    trueish {
        // " ++ [128512]%N ++ runes_of_ascii " emoji
        // c
        repeat u `it's`,
    },
    @lengthOf(repeatCount)
    @calculatedFrom(""it's"")
    @lengthOf(a1)
    string_ @lengthOf(string_),
}

MetaData leftPad {
    u8 pack,
}

packet msg_type {
    Z9_,
}")).
Eval vm_compute in ("<<<M1182>>>" ++ check (runes_of_ascii "packet Packet{@tag(
4294967296
    )  charz	{ repeat
char[
    0123456789] BodyLength ,repeat trueish stringy , }, }options { body = char ; leftPad =uint16
    //	t
    ; stringy
    = true ; packetx
= true
// `tick` ""quote"" 'q'
//
float=char[ 255 ]}
// `tick` ""quote"" 'q'
/// triple
root packet	len {  @leftPad  ( '0') uint64
    a1
    ,} 	 ")).
Eval vm_compute in ("<<<M1324>>>" ++ check (runes_of_ascii "
root packet As {	u
{ tag
    a1
, repeat charz `a\` , } ,match float
    as
u128 {""a\\"" : msg_type
    ,""`tick`"": packetx, } , repeat
char[
    255 ] falsey `two words` ,
f32
    packetx  , zchar[0 //	t
] options1 `{ , }`, repeat rootA
    `
` , }
MetaData Header {
u32 Header `` , }
//x
//x
MetaData matchKey{ msg_type Z9_ ,
}")).
Eval vm_compute in ("<<<M1883>>>" ++ check (runes_of_ascii "MetaData
    u { }  options @lengthOf(
// c
// @lengthOf(
float = int8 ;rootA =false ; As =	int16 // `tick` ""quote"" 'q'
repeatCount
    // trailing space 
    =
    int16
; u8x =
    //	t
    '\x00' ; } options	{
    repeatCount
= 0
u128
    //
    = false ; i64_
// trailing space 
// `tick` ""quote"" 'q'
= '0' ; //	t
}
")).
Eval vm_compute in ("<<<M338>>>" ++ check (runes_of_ascii "root packet // `tick` ""quote"" 'q'
roots{@rightPad (// trailing space 
'0'
)char[255 ] T`line1
line2`
,}packet msg_type {	Logon { f64 x_y_z`` ,
    },	i8 pack @lengthOf( stringy )
, @tag(
    4294967296)char[] msg_type ,
stringy // a // b
{ match x as
    roots { 1 :
options1 ,
    ""it's"" : BodyLength , }, } , }
")).
Eval vm_compute in ("<<<M1991>>>" ++ check (runes_of_ascii "MetaData
    u { }  options {
// c
// @lengthOf(
float = int8 ;rootA =false ; As =	int16 // `tick` ""quote"" 'q'
repeatCount
    // trailing space 
    =
    int16
; u8x =
    //	t
    '\x00' ; } options	{ {
    repeatCount
= 0
u128
    //
    = false ; i64_
// trailing space 
// `tick` ""quote"" 'q'
= '0' ; //	t
}
")).
Eval vm_compute in ("<<<M957>>>" ++ check (runes_of_ascii "packet body {
@rightPad
    ( ' ' )
    msg_type{match u as zchar
{
""""// c
:metadata
, } ,As @calculatedFrom( ""CRC32""
// " ++ [128512]%N ++ runes_of_ascii " emoji
// " ++ [27880; 37322]%N ++ runes_of_ascii "
) ,
//x
// @lengthOf(
}
, repeat u16 tag
,
    repeat MetaDataX ,
} packet Foo {
@rightPad() @leftPad( ' '  ) @calculatedFrom( ""\" ++ [233]%N ++ runes_of_ascii """
    ) i8 i64_ ,
    repeat uint16 float ,  }")).
Eval vm_compute in ("<<<M1992>>>" ++ check (runes_of_ascii "MetaData
    u { }  options {
// c
// @lengthOf(
float = int8 ;rootA =false ; As =	int16 // `tick` ""quote"" 'q'
repeatCount
    // trailing space 
    =
    int16
; u8x =
    //	t
    '\x00' ; } options	repeatCount
    {
= 0
u128
    //
    = false ; i64_
// trailing space 
// `tick` ""quote"" 'q'
= '0' ; //	t
}
")).
Eval vm_compute in ("<<<M2000>>>" ++ check (runes_of_ascii "MetaData
    u { }  options {
// c
// @lengthOf(
float = int8 ;rootA =false ; As =	int16 // `tick` ""quote"" 'q'
repeatCount
    // trailing space 
    =
    int16
; u8x =
    //	t
    '\x00' ; } options	{
    repeatCount
 0
u128
    //
    = false ; i64_
// trailing space 
// `tick` ""quote"" 'q'
= '0' ; //	t
}
")).
Eval vm_compute in ("<<<M1943>>>" ++ check (runes_of_ascii "MetaData
    u { }  options {
// c
// @lengthOf(
float = int8 ;rootA =false ; As =	int16 // `tick` ""quote"" 'q'
match
    // trailing space 
    =
    int16
; u8x =
    //	t
    '\x00' ; } options	{
    repeatCount
= 0
u128
    //
    = false ; i64_
// trailing space 
// `tick` ""quote"" 'q'
= '0' ; //	t
}
")).
Eval vm_compute in ("<<<M501>>>" ++ check (runes_of_ascii "packet Foo{
    char[ 10
]f32a
@lengthOf(
calculatedFrom )
    `crlf
line`
    , match pack as A// `tick` ""quote"" 'q'
{ """ ++ [233]%N ++ runes_of_ascii "t" ++ [233]%N ++ runes_of_ascii """ :	f32a /// triple
,[ ""x y"" , ""`tick`"" ] : falsey , ""x y""
    //x
    : Foo ,
    7 : chars// c
,""{,}""  :u128 , 255:
A , } ,string
//x
// trailing space 
T `
` ,} /// triple")).
Eval vm_compute in ("<<<M3917>>>" ++ check (runes_of_ascii "
packet	As{	@calculatedFrom(""" ++ [28040; 24687]%N ++ runes_of_ascii """
    )
@rightPad
( 
' ' 
)@leftPad (  )rootA

    `crlf
line` , }options 
{
len

    =

0
; 
Z9_ =
    ""\n""  ;	repeatCount
    = 
//x

  ""// no comment""
; 	 /// triple
    calculatedFrom	=
	int64  chars =
    ""\n""
}
    options{// trailing space 

  }")).
Eval vm_compute in ("<<<M219>>>" ++ check (runes_of_ascii "MetaData _x
{As	f32a `doc` // " ++ [128512]%N ++ runes_of_ascii " emoji
, }
packet// @lengthOf(
x {	zchar[  255
    ]	calculatedFrom  ,string_@calculatedFrom( ""a	b"" ) , @calculatedFrom(""" ++ [128512]%N ++ runes_of_ascii """)@tag(
4294967296 )@calculatedFrom(""a	b""
) char[ 0 ]i64_
`" ++ [28040; 24687; 31867; 22411]%N ++ runes_of_ascii "` ,
    @leftPad(' '  ) repeat
// c
// c
MetaDataX
    ,}")).
Eval vm_compute in ("<<<M932>>>" ++ check (runes_of_ascii "packet Packet { f32a// @lengthOf(
pack ,  @tag(00
)@tag( //	t
7  ) // @lengthOf(
A @calculatedFrom( ""\" ++ [233]%N ++ runes_of_ascii """
// " ++ [27880; 37322]%N ++ runes_of_ascii "
// " ++ [128512]%N ++ runes_of_ascii " emoji
) ,crc	stringy
    ,	}	packet Packet
{ i64 u8x `u8 x,`
    , // " ++ [27880; 37322]%N ++ runes_of_ascii "
@leftPad ( '\x00' )
@lengthOf( MetaDataX ) @lengthOf(As ) chars o `" ++ [28040; 24687; 31867; 22411]%N ++ runes_of_ascii "` , }")).
Eval vm_compute in ("<<<M1593>>>" ++ check (runes_of_ascii "packet
//	t
// trailing space 
_x {
// packet A { u8 x, }
// c
char[
3
    ] u8x @lengthOf(
u8x ) , @calculatedFrom(""" ++ [128512]%N ++ runes_of_ascii """ // @lengthOf(
)
i16	Foo
@lengthOf(	string_
    )`doc`	, repeat repeat	i64 metadata , @lengthOf( string_
) i8 // c
u  `line1
line2`	,
}
")).
Eval vm_compute in ("<<<M1513>>>" ++ check (runes_of_ascii "packet
//	t
// trailing space 
_x {
// packet A { u8 x, }
// c
char[
3
    ] ] u8x @lengthOf(
u8x ) , @calculatedFrom(""" ++ [128512]%N ++ runes_of_ascii """ // @lengthOf(
)
i16	Foo
@lengthOf(	string_
    )`doc`	, repeat	i64 metadata , @lengthOf( string_
) i8 // c
u  `line1
line2`	,
}
")).
Eval vm_compute in ("<<<M1668>>>" ++ check (runes_of_ascii "packet
//	t
// trailing space 
_x {
// packet A { u8 x, }
// c
char[
3
    ] u8x @lengthOf" ++ [127]%N ++ runes_of_ascii "(
u8x ) , @calculatedFrom(""" ++ [128512]%N ++ runes_of_ascii """ // @lengthOf(
)
i16	Foo
@lengthOf(	string_
    )`doc`	, repeat	i64 metadata , @lengthOf( string_
) i8 // c
u  `line1
line2`	,
}
")).
Eval vm_compute in ("<<<M1599>>>" ++ check (runes_of_ascii "packet
//	t
// trailing space 
_x {
// packet A { u8 x, }
// c
char[
3
    ] u8x @lengthOf(
u8x ) , @calculatedFrom(""" ++ [128512]%N ++ runes_of_ascii """ // @lengthOf(
)
i16	Foo
@lengthOf(	string_
    )`doc`	, repeat	metadata i64 , @lengthOf( string_
) i8 // c
u  `line1
line2`	,
}
")).
Eval vm_compute in ("<<<M3793>>>" ++ check (runes_of_ascii "  packet
_x	{

    repeat  
      // packet A { u8 x, }
	  A  {

int64
    uint8x `tab	here`
,  },}
	packet Pad{ 
@tag(65535

    )
    string	_x//x
	@lengthOf(

    asx

),@rightPad (
    '0') 
u8 MetaDataX
    ,
    u64 
chars  , 
// c
}
")).
Eval vm_compute in ("<<<M1646>>>" ++ check (runes_of_ascii "packet
//	t
// trailing space 
_x {
// packet A { u8 x, }
// c
char[
3
    ] u8x @lengthOf(
u8x ) , @calculatedFrom(""" ++ [128512]%N ++ runes_of_ascii """ // @lengthOf(
)
i16	Foo
@lengthOf(	string_
    )`doc`	, repeat	i64 metadata , @lengthOf( string_
) i8 // c
u  `line1
line2`")).
Eval vm_compute in ("<<<M3910>>>" ++ check (runes_of_ascii "// top
packet A {
    // c2a
    // c2b
    u8 a,
}

packet B {
    // c9
    u16 b,// c12a
}// c13

root packet P {
    u8 K,// c20a
    // c20b
    match K as M {
        // c25
        1 : A,
        1 : B,
        // c33
    },
}// c36")).
Eval vm_compute in ("<<<M716>>>" ++ check (runes_of_ascii "MetaData  u8x{ msg_type T
    `it's` ,
// `tick` ""quote"" 'q'
// trailing space 
zchar[
    4294967296
]	len/// triple
, u32 chars `a\` , metadata calculatedFrom
`{ , }`
,
    } packet Z9_ {	}  root packet
Logon {}
/// triple
")).
Eval vm_compute in ("<<<M3617>>>" ++ check (runes_of_ascii "options {
    StringPrefixLenType = u16;
    FixedStringPadChar = ' ';
}
packet Party {
}
packet Quote {
    repeat Party,
    repeat char[2] f1,
}
packet Logon {
}
root packet Cancel {
    uint16 x,
    zchar[6] f1,
}
")).
Eval vm_compute in ("<<<M1673>>>" ++ check (runes_of_ascii "options options { trueish = ""`tick`"" ; string_= """ ++ [233]%N ++ runes_of_ascii "t" ++ [233]%N ++ runes_of_ascii """
    // c
    } root
    packet body { stringy @calculatedFrom(
""a	b"" ) `line1
line2` , }
packet Logon {
    @leftPad(
    ' ' ) //	t
u16 string_ `u8 x,` ,
}
")).
Eval vm_compute in ("<<<M3990>>>" ++ check (runes_of_ascii "options {
    As = ""1"";
    matchKey = 0123456789
    options1 = 0123456789;// a // b
    asx = ""CRC32"";
    tag = 00;
}// trailing space 

packet matchKey {
    @calculatedFrom(""abc"")
    int32 repeatCount,
}")).
Eval vm_compute in ("<<<M1832>>>" ++ check (runes_of_ascii "options { trueish = ""`tick`"" ; string_= """ ++ [233]%N ++ runes_of_ascii "t" ++ [233]%N ++ runes_of_ascii """
    // c
    } root
    packet body { stringy @calculatedFrom(
""a	b"" ) `line1
line2` , }
packet Logon {
    @leftPad(
    ' ' ) //	t
u16 string_ `u8 x,` ,
} }
")).
Eval vm_compute in ("<<<M1698>>>" ++ check (runes_of_ascii "options { trueish = ""`tick`"" string_ ;= """ ++ [233]%N ++ runes_of_ascii "t" ++ [233]%N ++ runes_of_ascii """
    // c
    } root
    packet body { stringy @calculatedFrom(
""a	b"" ) `line1
line2` , }
packet Logon {
    @leftPad(
    ' ' ) //	t
u16 string_ `u8 x,` ,
}
")).
Eval vm_compute in ("<<<M865>>>" ++ check (runes_of_ascii "packet calculatedFrom
    { @calculatedFrom(
""{,}"" )
    // c
    @tag(
    65535 ) f32 Packet @lengthOf(o )
    , @calculatedFrom(  ""`tick`"" ) uint32 MetaDataX  @calculatedFrom(""it's""  ) ``,
} // a // b")).
Eval vm_compute in ("<<<M1731>>>" ++ check (runes_of_ascii "options { trueish = ""`tick`"" ; string_= """ ++ [233]%N ++ runes_of_ascii "t" ++ [233]%N ++ runes_of_ascii """
    // c
    } root
    packet  { stringy @calculatedFrom(
""a	b"" ) `line1
line2` , }
packet Logon {
    @leftPad(
    ' ' ) //	t
u16 string_ `u8 x,` ,
}
")).
Eval vm_compute in ("<<<M657>>>" ++ check (runes_of_ascii "packet u8x{@calculatedFrom( """ ++ [128512]%N ++ runes_of_ascii """ )
rootA @lengthOf(stringy ), lengthOf ,@lengthOf(  u8x )
    i64_ @calculatedFrom( ""a\""b""//x
) ,
@lengthOf( matchKey )
@lengthOf( rootA	) float32 trueish
,  } // " ++ [27880; 37322]%N)).
Eval vm_compute in ("<<<M1761>>>" ++ check (runes_of_ascii "options { trueish = ""`tick`"" ; string_= """ ++ [233]%N ++ runes_of_ascii "t" ++ [233]%N ++ runes_of_ascii """
    // c
    } root
    packet body { stringy @calculatedFrom(
""a	b"" )  , }
packet Logon {
    @leftPad(
    ' ' ) //	t
u16 string_ `u8 x,` ,
}
")).
Eval vm_compute in ("<<<M1820>>>" ++ check (runes_of_ascii "options { trueish = ""`tick`"" ; string_= """ ++ [233]%N ++ runes_of_ascii "t" ++ [233]%N ++ runes_of_ascii """
    // c
    } root
    packet body { stringy @calculatedFrom(
""a	b"" ) `line1
line2` , }
packet Logon {
    @leftPad(
    ' ' ) //	t
u16")).
Eval vm_compute in ("<<<M4216>>>" ++ check (runes_of_ascii "// `tick` ""quote"" 'q'
MetaData body {
    zchar[0] asx `a\`,
    float crc,
    f32 trueish `crlf
        line`,
    uint64 float,
    body u `
        `,
    int16 stringy,
}")).
Eval vm_compute in ("<<<M1836>>>" ++ check (runes_of_ascii "options { trueish = ""`tick`"" ; string_= """ ++ [233]%N ++ runes_of_ascii "t" ++ [233]%N ++ runes_of_ascii """
    // c
    } root
    packet body { stringy @calculatedFrom(
""a	b"" ) `line1
line2` , }
packet Logon {
    @leftPad(
    ' ")).
Eval vm_compute in ("<<<M2393>>>" ++ check (runes_of_ascii "// c
packet x { @lengthOf( metadata ) repeat lengthOf
,a1{
trueish	,// c
repeat//	t
MetaDataX , } , zchar[
    4@lengthOf2	] rootA // `tick` ""quote"" 'q'
,
    }
")).
Eval vm_compute in ("<<<M2408>>>" ++ check (runes_of_ascii "// c
packet x { @lengthOf( metadata ) repeat lengthOf
,a1{
trueish	,// c
repeat//	t
MetaDataX , } , zchar[
    42	] rootA // `tick` ""quote"" 'q'
,'\x01'
    }
")).
Eval vm_compute in ("<<<M2172>>>" ++ check (runes_of_ascii "options{
_x
= true
} options
{ o	= /// triple
false
    ; chars
= ""\n"" } root packet	Pad
/// triple
// packet A { u8 x, }
uint64	chars
    // a // b
    ,}")).
Eval vm_compute in ("<<<M2142>>>" ++ check (runes_of_ascii "options{
_x
= true
} options
{ o	= /// triple
false
    ; chars
root ""\n"" } root packet	Pad
/// triple
// packet A { u8 x, }
{	chars
    // a // b
    ,}")).
Eval vm_compute in ("<<<M2324>>>" ++ check (runes_of_ascii "// c
packet x { @lengthOf( metadata ) repeat lengthOf
,a1{
trueish	repeat// c
,//	t
MetaDataX , } , zchar[
    42	] rootA // `tick` ""quote"" 'q'
,
    }
")).
Eval vm_compute in ("<<<M2200>>>" ++ check (runes_of_ascii "options{
_x
= true
} options
{ o	= /// triple
false
    ; chars
= ""\n"" } root packet	Pad
/// triple
// packet A { u?8 x, }
{	chars
    // a // b
    ,}")).
Eval vm_compute in ("<<<M2156>>>" ++ check (runes_of_ascii "options{
_x
= true
} options
{ o	= /// triple
false
    ; chars
= ""\n"" } packet root	Pad
/// triple
// packet A { u8 x, }
{	chars
    // a // b
    ,}")).
Eval vm_compute in ("<<<M4222>>>" ++ check (runes_of_ascii "options {
    matchKey = 10
}

MetaData options1 {
    matchKey o `doc`,
    rootA tag,
    uint32 _x `line1
    line2`,
    char[] chars `say ""hi""`,
}")).
Eval vm_compute in ("<<<M3544>>>" ++ check (runes_of_ascii "packet B

{
	u8
a
, }
    root
	packet
    P {u8
K

    ,u8
L
    @lengthOf( Body
) ,	match
K
as
Body {	1

    :
	B

    ,	}

    ,
}
")).
Eval vm_compute in ("<<<M2104>>>" ++ check (runes_of_ascii "options{
_x
= true
} 
{ o	= /// triple
false
    ; chars
= ""\n"" } root packet	Pad
/// triple
// packet A { u8 x, }
{	chars
    // a // b
    ,}")).
Eval vm_compute in ("<<<M3550>>>" ++ check (runes_of_ascii "packet
	B {

    u8

a ,}  root  packet  P
	{
    u8
    K, 
match
    K

    as	Body

{

1
: B	,
	},

u16
    L

@lengthOf(

Body)
	,}
")).
Eval vm_compute in ("<<<M4557>>>" ++ check (runes_of_ascii "

  root packet

matchKey {
    zchar[ 3]pack
@calculatedFrom( 
// c
  ""a	b""
) `doc`
	,  }  options
{} MetaData A  { int8 msg_type,}

")).
Eval vm_compute in ("<<<M4236>>>" ++ check (runes_of_ascii "packet	A{ match	k
as  n

    { [
    1

,
	22

,  007 ,
4 , 5	,  66 ,

    7

, 8,
9

    ,	10]:B
    2
	:C} 
,

    }
")).
Eval vm_compute in ("<<<M1453>>>" ++ check (runes_of_ascii "
packet
    falsey { Header@calculatedFrom(""packet""  ) , char[
    0123456789 ] packetx packetx
    , } // `tick` ""quote"" 'q'")).
Eval vm_compute in ("<<<M607>>>" ++ check (runes_of_ascii "options
{ stringy=
    '0' ; body// `tick` ""quote"" 'q'
=  ""// no comment"" ; pack
    =
char[] } options
{
x =65535 } //x")).
Eval vm_compute in ("<<<M3322>>>" ++ check (runes_of_ascii "root packet matchKey { zchar[ 3 // c
] pack @calculatedFrom( ""a	b"" ) `doc` , } options { } MetaData A { int8 msg_type , }")).
Eval vm_compute in ("<<<M3354>>>" ++ check (runes_of_ascii "root packet matchKey { zchar[ 3 ] pack @calculatedFrom( ""a	b"" ) `doc` , } options { } MetaData A { int8 msg_type // c
, }")).
Eval vm_compute in ("<<<M1476>>>" ++ check (runes_of_ascii "
packet
    falsey { Header@calculatedFrom(""packet""  ) , char[
    0123456789 ] packetx
    , } // `tick` ""quote"" 'q'#")).
Eval vm_compute in ("<<<M3734>>>" ++ check (runes_of_ascii "// top
root packet P {
    // c3a
    // c3b
    hdr {
        // c5a
        // c5b
        u8 a,
    },
    u8 x,
}")).
Eval vm_compute in ("<<<M4168>>>" ++ check (runes_of_ascii "packet A {
    B b `a
        
        b`,
    B `a
        
        b`,
    repeat B bs `a
        
        b`,
}")).
Eval vm_compute in ("<<<M2998>>>" ++ check (runes_of_ascii "packet A {
  match k as n {
    [""a"", ""bb"", 007, ""d"", ""e"", 66, ""g"", ""h"", 9, ""j"", ""k"", 12] : B,
    2 : C
  },
}")).
Eval vm_compute in ("<<<M1755>>>" ++ check (runes_of_ascii "options { trueish = ""`tick`"" ; string_= """ ++ [233]%N ++ runes_of_ascii "t" ++ [233]%N ++ runes_of_ascii """
    // c
    } root
    packet body { stringy @calculatedFrom(")).
Eval vm_compute in ("<<<M440>>>" ++ check (runes_of_ascii "// `tick` ""quote"" 'q'
packet
    trueish {
    @lengthOf(
MetaDataX ) uint8x	@calculatedFrom(""a\""b""  ) ,}")).
Eval vm_compute in ("<<<M1318>>>" ++ check (runes_of_ascii "options	{ string_ // " ++ [128512]%N ++ runes_of_ascii " emoji
= false ; } options { options1
= '\x00' falsey=
10 tag/// triple
=65535}
")).
Eval vm_compute in ("<<<M2968>>>" ++ check (runes_of_ascii "packet A {
  match k as n {
    [""a"", 22, ""c c"", 4, ""e"", 66, ""g"", 8, ""i"", 10] : B,
    2 : C
  },
}")).
Eval vm_compute in ("<<<M962>>>" ++ check (runes_of_ascii "packet
int
    { @calculatedFrom( ""a\\""
    ) repeat
    // packet A { u8 x, }
    string int, }")).
Eval vm_compute in ("<<<M2956>>>" ++ check (runes_of_ascii "packet A {
  match k as n {
    [""a"", 22, ""c c"", 4, ""e"", 66, ""g"", 8, ""i""] : B
    2 : C
  },
}")).
Eval vm_compute in ("<<<M1750>>>" ++ check (runes_of_ascii "options { trueish = ""`tick`"" ; string_= """ ++ [233]%N ++ runes_of_ascii "t" ++ [233]%N ++ runes_of_ascii """
    // c
    } root
    packet body { stringy")).
Eval vm_compute in ("<<<M181>>>" ++ check (runes_of_ascii "MetaData a1 { Foo body
`{ , }`
    , int32
int`` ,i32 a1 `" ++ [28040; 24687; 31867; 22411]%N ++ runes_of_ascii "`
, int8 msg_type `` , }

")).
Eval vm_compute in ("<<<M3290>>>" ++ check (runes_of_ascii "MetaData float { float64 charz `
` , } root packet chars
// c
{ @rightPad ( '0' ) Foo , }")).
Eval vm_compute in ("<<<M3501>>>" ++ check (runes_of_ascii "packet chars { } packet MetaDataX { @tag( 42 // c
) i16 string_ , repeat x `say ""hi""` , }")).
Eval vm_compute in ("<<<M2284>>>" ++ check (runes_of_ascii "options
{ } options { BodyLength= u16 Header= f64 ; u128 =
    true
    i16 } // a // b")).
Eval vm_compute in ("<<<M3020>>>" ++ check (runes_of_ascii "packet A {
    B b `a
    b
  c`,
    B `a
    b
  c`,
    repeat B bs `a
    b
  c`,
}")).
Eval vm_compute in ("<<<M2278>>>" ++ check (runes_of_ascii "options
{ } options { BodyLength= u16 Header= f64 ; u128 =
    ;
    true } // a // b")).
Eval vm_compute in ("<<<M3240>>>" ++ check (runes_of_ascii "packet metadata { Logon { A `" ++ [28040; 24687; 31867; 22411]%N ++ runes_of_ascii "` , tag o , } , zchar
// c
len `// not a comment` , }")).
Eval vm_compute in ("<<<M3427>>>" ++ check (runes_of_ascii "// c
packet o { repeat Logon uint8x , } options { asx = zchar[ 3 ] stringy = '\x00' }")).
Eval vm_compute in ("<<<M3460>>>" ++ check (runes_of_ascii "packet o { repeat Logon uint8x , } options { asx = zchar[ 3 ] stringy
// c
= '\x00' }")).
Eval vm_compute in ("<<<M2269>>>" ++ check (runes_of_ascii "options
{ } options { BodyLength= u16 Header= f64 ; = =
    true
    ; } // a // b")).
Eval vm_compute in ("<<<M3405>>>" ++ check (runes_of_ascii "MetaData body { i64 pack `it's`
// c
, } packet stringy { int16 calculatedFrom , }")).
Eval vm_compute in ("<<<M282>>>" ++ check (runes_of_ascii "
packet charz{ repeat u16 Foo`{ , }`// c
,
//
//
} options
    { crc = """ ++ [28040; 24687]%N ++ runes_of_ascii """ ;	}")).
Eval vm_compute in ("<<<M415>>>" ++ check (runes_of_ascii "MetaData T { char[] packetx //	t
,//
Packet
    u ,i32 _x , uint16
    asx, }
")).
Eval vm_compute in ("<<<M83>>>" ++ check (runes_of_ascii "MetaData
Packet
{
    }options { Z9_ =
char[] ; _x=
'0';
body
=
false }
")).
Eval vm_compute in ("<<<M3044>>>" ++ check (runes_of_ascii "packet A {
    B b `tab
	x`,
    B `tab
	x`,
    repeat B bs `tab
	x`,
}")).
Eval vm_compute in ("<<<M2882>>>" ++ check (runes_of_ascii "packet A {
  match k as n {
    [""a"", ""bb"", 007] : B
    2 : C
  },
}")).
Eval vm_compute in ("<<<M608>>>" ++ check (runes_of_ascii "root packet
    f32a
    { @tag( 42
    ) char
Header `
`	,
    }
")).
Eval vm_compute in ("<<<M4076>>>" ++ check (runes_of_ascii "options {
    zchar = 10
    As = u32;
    A = ""a\\""// " ++ [128512]%N ++ runes_of_ascii " emoji
}")).
Eval vm_compute in ("<<<M2869>>>" ++ check (runes_of_ascii "packet A {
  match k as n {
    [""a"", 22] : B
    2 : C
  },
}")).
Eval vm_compute in ("<<<M3388>>>" ++ check (runes_of_ascii "packet x { @rightPad ( ) repeat roots Logon `doc` , }
// c
")).
Eval vm_compute in ("<<<M3380>>>" ++ check (runes_of_ascii "packet x { @rightPad ( ) repeat roots
// c
Logon `doc` , }")).
Eval vm_compute in ("<<<M2858>>>" ++ check (runes_of_ascii "packet A {
  match k as n {
    [1] : B
    2 : C
  },
}")).
Eval vm_compute in ("<<<M2133>>>" ++ check (runes_of_ascii "options{
_x
= true
} options
{ o	= /// triple
false")).
Eval vm_compute in ("<<<M3570>>>" ++ check (runes_of_ascii "

  root

    packet
P

{ string
s

    ,	}
")).
Eval vm_compute in ("<<<M1034>>>" ++ check (runes_of_ascii "MetaData charz {calculatedFrom leftPad
    ,}
")).
Eval vm_compute in ("<<<M272>>>" ++ check (runes_of_ascii "
root  packet zchar
    {zchar[007] Foo , }")).
Eval vm_compute in ("<<<M2730>>>" ++ check (runes_of_ascii "@tag( } ""\n"" MetaData { @calculatedFrom( ]")).
Eval vm_compute in ("<<<M3189>>>" ++ check (runes_of_ascii "root // c
packet u128 { chars `it's` , }")).
Eval vm_compute in ("<<<M1158>>>" ++ check (runes_of_ascii "options {
zchar =  int32 ; T = false}
")).
Eval vm_compute in ("<<<M2617>>>" ++ check (runes_of_ascii "packet A { match k as n { 1 : 2 }, }")).
Eval vm_compute in ("<<<M3827>>>" ++ check (runes_of_ascii "
packet  repeatCount 
{ } 	 // c
 
")).
Eval vm_compute in ("<<<M931>>>" ++ check (runes_of_ascii "root packet stringy {
_x Pad , }
")).
Eval vm_compute in ("<<<M3127>>>" ++ check (runes_of_ascii "packet A {
 u8 x `d 	`, // c 	
}")).
Eval vm_compute in ("<<<M2761>>>" ++ check (runes_of_ascii "@rightPad ( ) float64 root u64")).
Eval vm_compute in ("<<<M3161>>>" ++ check (runes_of_ascii "MetaData M {
}// c
options {}")).
Eval vm_compute in ("<<<M2806>>>" ++ check (runes_of_ascii "P" ++ [65533; 65533; 23; 65533; 65533]%N ++ runes_of_ascii "0f" ++ [65533; 3; 521]%N ++ runes_of_ascii "'" ++ [65533]%N ++ runes_of_ascii "bW" ++ [18; 65533; 14; 21]%N ++ runes_of_ascii "~" ++ [65533; 65533; 12; 1709; 65533; 65533; 127]%N)).
Eval vm_compute in ("<<<M1342>>>" ++ check (runes_of_ascii "// packet A { u8 x, }
 	 ")).
Eval vm_compute in ("<<<M3168>>>" ++ check (runes_of_ascii "packet A { // a
 u8 x, }")).
Eval vm_compute in ("<<<M703>>>" ++ check (runes_of_ascii "  root  packet As { }")).
Eval vm_compute in ("<<<M3478>>>" ++ check (runes_of_ascii "MetaData o { } // c
")).
Eval vm_compute in ("<<<M3146>>>" ++ check (runes_of_ascii "// c x
packet A {
}")).
Eval vm_compute in ("<<<M3075>>>" ++ check (runes_of_ascii "packet A {
}
// c" ++ [133]%N)).
Eval vm_compute in ("<<<M151>>>" ++ check (runes_of_ascii "packet  float{ }
")).
Eval vm_compute in ("<<<M3166>>>" ++ check (runes_of_ascii "options { // a
 }")).
Eval vm_compute in ("<<<M233>>>" ++ check (runes_of_ascii "
options { }
")).
Eval vm_compute in ("<<<M2559>>>" ++ check (runes_of_ascii """" ++ [233]%N ++ runes_of_ascii """ `" ++ [21517]%N ++ runes_of_ascii "` // " ++ [252]%N)).
Eval vm_compute in ("<<<M3908>>>" ++ check (runes_of_ascii "/// triple")).
Eval vm_compute in ("<<<M1680>>>" ++ check (runes_of_ascii "options")).
Eval vm_compute in ("<<<M2558>>>" ++ check (runes_of_ascii "// " ++ [233]%N ++ runes_of_ascii "
" ++ [21517]%N)).
Eval vm_compute in ("<<<M3059>>>" ++ check (runes_of_ascii "// c ")).
Eval vm_compute in ("<<<M2516>>>" ++ check (runes_of_ascii """\\""")).
Eval vm_compute in ("<<<M2525>>>" ++ check (runes_of_ascii "`""`")).
Eval vm_compute in ("<<<M2520>>>" ++ check (runes_of_ascii "``")).
Eval vm_compute in ("<<<M2799>>>" ++ check (runes_of_ascii "J")).
