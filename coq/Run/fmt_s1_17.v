From FP Require Import Lexer Parser ShowPT Digest Formatter.
From Coq Require Import String List NArith.
Import ListNotations.
Open Scope string_scope.
Set Printing Width 100000000.
Set Printing Depth 100000000.
Definition show_fres (r : fres) : string :=
  match r with
  | FOk s => "OK:" ++ sh_escaped s ""
  | FErr s => "ERR:" ++ sh_escaped s ""
  | FPanic p => "PANIC:" ++ p
  end.
Definition check (rs : list rune) : string := digest (show_fres (format_res rs)).
Definition full (rs : list rune) : string := show_fres (format_res rs).
Eval vm_compute in ("<<<M4168>>>" ++ check (runes_of_ascii "options {
    ArrayPrefixLenType = u16;
    FixedStringPadFromLeft = true;
    JavaPackage = ""co\
        m.example.msg"";
    GoPackage = ""ms\
        g"";
    GoModule = ""example.com/msg"";
}

MetaData Meta {
    u32 SeqNum `sequence number`,
    char[8] Symbol `symbol`,
    zchar[5] ZSym `z symbol`,
    string Note,
    Symbol AltSymbol `alias of symbol`,
    f64 Price,
}

packet Inner {
    u8 a,
    i16 b,
    string c,
}

packet Inner2 {
    u8 a2,
    char[3] c2,
}

packet Logon {
    u8 x,
    string user,
    repeat u16 codes,
}

packet Logout {
    u16 reason,
}

packet Empty {
}

root packet Msg {
    u8 su8,
    uint8 luint8,
    u16 su16,
    uint16 luint16,
    u32 su32,
    uint32 luint32,
    u64 su64,
    uint64 luint64,
    i8 si8,
    int8 lint8,
    i16 si16,
    int16 lint16,
    i32 si32,
    int32 lint32,
    i64 si64,
    int64 lint64,
    f32 sf32,
    float32 lfloat32,
    f64 sf64,
    float64 lfloat64,
    char[6] fsplain,
    @leftPad('0')
    char[4] fs0,
    @rightPad('0')
    char[5] fs1,
    @leftPad(' ')
    char[6] fs2,
    @rightPad(' ')
    char[7] fs3,
    @leftPad('\x00')
    char[8] fs4,
    @rightPad('\x00')
    char[9] fs5,
    @leftPad()
    char[10] fs6,
    @rightPad()
    char[11] fs7,
    zchar[7] fz,
    @leftPad('0')
    zchar[3] fzl0,
    string s1 `doc`,
    char[] s2,
    Inner,
    Sub {
        u8 q,
        string w,
        Deep {
            u16 z,
            repeat i32 zs,
        },
    },
    repeat u8 ru8,
    repeat u16 ru16,
    repeat u32 ru32,
    repeat u64 ru64,
    repeat i8 ri8,
    repeat i16 ri16,
    repeat i32 ri32,
    repeat i64 ri64,
    repeat f32 rf32,
    repeat f64 rf64,
    repeat string rstr,
    repeat char[] rstr2,
    repeat char[3] rfs,
    repeat zchar[3] rfz,
    repeat Inner2,
    repeat Grp {
        u8 k,
        char[2] v,
    },
    SeqNum,
    SeqNum seq2,
    repeat SeqNum seqs,
    Symbol,
    AltSymbol alt,
    ZSym,
    Note,
    repeat Symbol syms,
    Price px,
    u16 MsgType,
    u32 BodyLen @lengthOf(Body),
    match MsgType as Body {
        1 : Logon,
        [2, 3] : Logout,
        7 : Logon,
        9 : Empty,
    },
    u32 Checksum @calculatedFrom(""CRC32""),
}")).
Eval vm_compute in ("<<<M928>>>" ++ check (runes_of_ascii "
MetaData A
{
//
// @lengthOf(
zchar[ 7 ] packetx `
`
, i64  matchKey , metadata // @lengthOf(
f32a// a // b
`` ,
char[] tag`it's` ,
    }
    root
packet
stringy
{
@calculatedFrom(
    ""a	b""
) repeat crc `{ , }`	, @calculatedFrom( ""`tick`"" )
@rightPad ( '0') @tag(	42)match
    u128 as u8x{[ // @lengthOf(
65535	, 255
,255,
""abc""	, ""\" ++ [233]%N ++ runes_of_ascii """ , ""packet"", // " ++ [27880; 37322]%N ++ runes_of_ascii "
1 ] :Pad
    //
    ,// packet A { u8 x, }
}, @rightPad(	'\x00'  ) match Foo
as
u128{ 65535 : T, } , packetx ,zchar[0123456789
]	A,int16
uint8x , float `crlf
line`, @tag(7
) @calculatedFrom(
""""
) As { repeat
    uint8x len , char[ 65535
] options1
    @lengthOf(
lengthOf ) `doc`
, repeat uint8x	{ // " ++ [128512]%N ++ runes_of_ascii " emoji
f32a `{ , }` , zchar[	255	]
int
@calculatedFrom( ""// no comment"" ) , x_y_z @lengthOf( x_y_z )
    //x
    `say ""hi""` ,repeat float // " ++ [27880; 37322]%N ++ runes_of_ascii "
{ zchar[ 4294967296]T `// not a comment`
, } , } ,
i8i8
{ // trailing space 
msg_type `line1
line2` , } ,} , @rightPad
    /// triple
    ( ' '
)  i8i8`say ""hi""` ,} root packet i8i8 // @lengthOf(
{
    //
    @tag( 0123456789
) @rightPad // a // b
( ' '
// c
// a // b
)
    // @lengthOf(
    @tag( 1 ) calculatedFrom MetaDataX , uint8 tag , repeat
string_ { u32 BodyLength
    , //x
repeat	Packet _x , Header{ falsey
len
,
}
// " ++ [27880; 37322]%N ++ runes_of_ascii "
//	t
, } ,
@rightPad  (
    '0'// packet A { u8 x, }
)  repeat //	t
char packetx `{ , }` ,
    @leftPad
    ( ' ' )
    // @lengthOf(
    @lengthOf( x ) // a // b
char[]
len
@calculatedFrom(
""{,}"" )
    `tab	here` , @lengthOf(
Z9_
    ) match
// " ++ [128512]%N ++ runes_of_ascii " emoji
// packet A { u8 x, }
a1
as a1
    {42 : x,
""a\""b""
:tag
[ 42	, 42 ,
    0 , 4294967296 ]: u8x ,// c
65535 // " ++ [128512]%N ++ runes_of_ascii " emoji
:As
    , // " ++ [128512]%N ++ runes_of_ascii " emoji
""a\\"" :x } , @tag( 65535	) @leftPad ( ' '
) @calculatedFrom(
    ""a	b"" )Z9_ //	t
{ repeat i8i8 lengthOf , }  , repeat
    char[
    3/// triple
]
    options1 `" ++ [28040; 24687; 31867; 22411]%N ++ runes_of_ascii "`
    ,}// c
packet
    calculatedFrom { }
")).
Eval vm_compute in ("<<<M1124>>>" ++ check (runes_of_ascii "
MetaData msg_type{ trueish i8i8,
float32 msg_type ,
options1 BodyLength `two words`, u128 body `u8 x,` , }// trailing space 
packet
    // c
    Logon {
    repeat
i32 metadata `
`
, @calculatedFrom(""x y"")
    // c
    i64_ , i64 int@lengthOf( pack  )
    ,
    char[] charz ,
    // @lengthOf(
    match
_x as
// a // b
/// triple
pack { 3
: body,[ ""// no comment"" ,""a\""b""
] : uint8x , 3: lengthOf	,
    } ,
matchKey , roots
{ _x @lengthOf(	Pad	)
,
repeat
    a1	_x , } ,
    string T, @lengthOf(
//
// a // b
Pad )
match f32a as u // c
{// a // b
[10
    // a // b
    ,
    //	t
    """ ++ [233]%N ++ runes_of_ascii "t" ++ [233]%N ++ runes_of_ascii """, // a // b
""`tick`"" , 255 ,
0123456789 , ""1"" ,//
""a	b""  ,
3
    ]
    :options1 } ,	} MetaData u128{char[ 10 ] tag ,
pack
stringy , char
pack, } root packet Header //
{match Foo as Logon{  [ """ ++ [233]%N ++ runes_of_ascii "t" ++ [233]%N ++ runes_of_ascii """ ,
""CRC32"" ]: falsey [ //x
""" ++ [233]%N ++ runes_of_ascii "t" ++ [233]%N ++ runes_of_ascii """,
/// triple
// a // b
""""
    ]
:
u128, [ 00
    , ""a\""b"" , 7 , ""it's"",""" ++ [28040; 24687]%N ++ runes_of_ascii """, 00 ,
// " ++ [128512]%N ++ runes_of_ascii " emoji
/// triple
255 , 00 ] :
asx , ""// no comment"" :charz ,
""1"" : Packet ,
[ ""// no comment"" , 1	] :  zchar,
} , @lengthOf(u8x// a // b
)@tag(
    007 // @lengthOf(
) @lengthOf( pack) u8 _x`doc` ,
zchar[ 0123456789
    // a // b
    ] Packet@lengthOf( o)
    ,	match chars	as
msg_type
    {
    ""\n""
    : lengthOf , 0123456789
// packet A { u8 x, }
// trailing space 
:
a1 , [ 4294967296  ] : stringy ,[ ""`tick`"" ,""`tick`""
    // `tick` ""quote"" 'q'
    , 0  ] // @lengthOf(
:
    /// triple
    falsey , [ // `tick` ""quote"" 'q'
007 ,
    // a // b
    65535
, 65535
    , 10
    , ""abc"" ,
3
    ] :
body ,
} ,zchar[  10 ]
    // " ++ [27880; 37322]%N ++ runes_of_ascii "
    Logon, }	packet Packet { } // " ++ [27880; 37322]%N)).
Eval vm_compute in ("<<<M972>>>" ++ check (runes_of_ascii "packet u/// triple
{
@calculatedFrom( ""1"" ) match o as float{
""x y""	:
    u
    , }
    ,match packetx as
    f32a {
// a // b
// c
[ 4294967296 ,3] :
x , 10
: i8i8, """ ++ [233]%N ++ runes_of_ascii "t" ++ [233]%N ++ runes_of_ascii """ : _x [
    // `tick` ""quote"" 'q'
    ""a	b""
, """ ++ [28040; 24687]%N ++ runes_of_ascii """
    //	t
    ,
    ""1"",""a\\"" ,42 , 4294967296
    , ""a	b""] :
    Header ,//
65535 : i8i8 , 0123456789 :repeatCount ,
    }
    ,
repeat
stringy { //	t
char[	0
]
Logon	`{ , }`, Pad `a\`
, asx
    BodyLength`line1
line2` ,
    repeat string
    Z9_, } ,
    f32a metadata `" ++ [28040; 24687; 31867; 22411]%N ++ runes_of_ascii "`
, @calculatedFrom(
""a\""b"" )
    metadata { Z9_ @calculatedFrom( """ ++ [233]%N ++ runes_of_ascii "t" ++ [233]%N ++ runes_of_ascii """ ) ,  repeat zchar[  1 ] //
options1 `say ""hi""` , i8 options1,
    roots
{string packetx ,
repeat char[//x
65535 ] x // trailing space 
,
    // c
    }
, } , int8 matchKey
    ,
metadata @lengthOf( roots )
// packet A { u8 x, }
//	t
,  string u// " ++ [27880; 37322]%N ++ runes_of_ascii "
@lengthOf(
    As
)
    , } packet //x
x_y_z {
    // " ++ [128512]%N ++ runes_of_ascii " emoji
    len o, match
string_ as
Foo {
[
    255
    ,
""" ++ [233]%N ++ runes_of_ascii "t" ++ [233]%N ++ runes_of_ascii """
    //
    , 255 , 007 , ""a\""b""
    // " ++ [27880; 37322]%N ++ runes_of_ascii "
    , ""abc""  ]
: a1
    // @lengthOf(
    ,""CRC32""
:matchKey } ,@lengthOf(
int )	@calculatedFrom(//	t
""1""// " ++ [27880; 37322]%N ++ runes_of_ascii "
)
@calculatedFrom(//
""it's"") char[ 0 ]
matchKey @calculatedFrom(
""`tick`"" )
    , match a1
as Z9_
{ [ ""CRC32"" , 65535 ] :
    x [ 0123456789 ,  """ ++ [233]%N ++ runes_of_ascii "t" ++ [233]%N ++ runes_of_ascii """]	: packetx ,
    ""packet"" :
//	t
// a // b
msg_type , 10 : // " ++ [27880; 37322]%N ++ runes_of_ascii "
o// " ++ [128512]%N ++ runes_of_ascii " emoji
, }, @lengthOf( repeatCount )
    f32 As , @tag( 3
    )
    string_, } 	 ")).
Eval vm_compute in ("<<<M4422>>>" ++ check (runes_of_ascii "MetaData falsey {
    char[] f32a `" ++ [28040; 24687; 31867; 22411]%N ++ runes_of_ascii "`,
    u8x len `" ++ [233]%N ++ runes_of_ascii "`,
    char[] uint8x,
    f32 trueish,
    char[10] len `two words`,
    rootA int,
}

root packet A {
    Z9_,
    repeat MetaDataX `it's`,
    @tag(007)
    repeat options1 A,
    repeat x `line1
    line2`,
    MetaDataX @lengthOf(options1) `say ""hi""`,
}

// trailing space 
// " ++ [27880; 37322]%N ++ runes_of_ascii "
root packet rootA {
    @tag(255)
    char[10] Foo @lengthOf(metadata) ``,
    @leftPad('\x00')
    msg_type {
        //x
        // a // b
        float32 Pad,
        repeat uint32 Logon,
    },
    @leftPad()
    stringy @calculatedFrom(""" ++ [128512]%N ++ runes_of_ascii """) `" ++ [28040; 24687; 31867; 22411]%N ++ runes_of_ascii "`,
    @tag(4294967296)
    @tag(4294967296)
    @lengthOf(i8i8)
    BodyLength {
        zchar[42] u128,
        crc {
            char[255] Z9_ @lengthOf(int),
        },
    },
    @tag(10)
    zchar[3] stringy @calculatedFrom(""\n""),
    a1 calculatedFrom,
}

packet u8x {
    x_y_z @lengthOf(lengthOf) `crlf
    line`,
    match uint8x as repeatCount {
        [""a\""b"", ""// no comment""] : Header,
        [""a\\"", 4294967296] : roots,
        // " ++ [128512]%N ++ runes_of_ascii " emoji
        // @lengthOf(
        42 : rootA,
        [1, """", ""`tick`"", ""a	b""] : tag,
        ""1"" : u8x,
    },
    f32a `a\`,
    @lengthOf(u8x)
    pack asx,
    uint64 leftPad,
    repeat char[0] Pad,
}")).
Eval vm_compute in ("<<<M3622>>>" ++ check (runes_of_ascii "options {
    StringPrefixLenType = u16;
    ArrayPrefixLenType = u8;
    FixedStringPadFromLeft = true;
    FixedStringPadChar = ' ';
}
packet Quote {
    int64 OrderId,
    char[] Ref,
    @leftPad('0') char[5] price,
}
packet Heartbeat {
    zchar[3] venue,
    string Flags,
}
packet Trade {
    repeat InTag787 {
        i32 venue,
        char[5] sym,
        repeat InPx98 {
            char[11] Qty,
            Heartbeat,
            char[] price,
            u32 x,
            float64 count,
            repeat Quote,
        },
        zchar[7] Note,
        repeat char[1] Tail,
    },
    repeat char[2] seqNo,
    InTail55 {
        repeat Quote,
        string msgKind,
        InPx18 {
            char[] count,
            repeat Quote,
            uint16 Qty,
        },
        char[4] seqNo,
        repeat Heartbeat,
        repeat string sym,
    },
    repeat Quote,
    Heartbeat,
    @leftPad(' ') char[10] OrderId,
}
root packet Fill {
    Heartbeat,
    uint32 count,
    u8 OrderId,
    match OrderId as Body {
        96 : Quote,
        195 : Trade,
        187 : Heartbeat,
    },
    u32 venue @calculatedFrom(""CR\
C32""),
}
")).
Eval vm_compute in ("<<<M3621>>>" ++ check (runes_of_ascii "

  options{

    StringPrefixLenType

=
u16	;	ArrayPrefixLenType  =u8

    ;

FixedStringPadFromLeft=
    true ;
    FixedStringPadChar
=' '	; }
packet Quote
    {int64 
OrderId
    ,
char[] Ref,@leftPad
(
'0'
)char[
    5 
]	price
	, 
}packet
    Heartbeat

    {	zchar[  3 
] 
venue,

    string Flags	, 
}packet Trade

{

    repeat  InTag787

{
	i32 venue
    , char[

    5 ] 
sym

,
repeat
    InPx98

{char[ 11  ]  Qty
    , Heartbeat 
, char[] price
    ,  u32

    x ,

float64	count
,repeat 
Quote

,
}
    , zchar[  7 ]  Note
, repeat char[
1

    ]
Tail ,  }
, repeat
	char[

    2 ]	seqNo,	InTail55 
{repeat	Quote ,string
msgKind ,
InPx18{

    char[]count ,  repeat	Quote

    , uint16 Qty

,
	},
char[
4 ]

    seqNo	, 
repeat 
Heartbeat

,repeat	string

    sym
,
} ,repeat
Quote,
Heartbeat , @leftPad(' '

)
    char[

    10 
] OrderId,
} 
root
packet
    Fill
    {	Heartbeat,  uint32 count

,
	u8

OrderId

,
match  OrderId
as 
Body
	{

96 
: Quote
, 195	: 
Trade , 187 :Heartbeat,
} 
,  u32
	venue 
@calculatedFrom(
""CRC32""
	)
	,	}
")).
Eval vm_compute in ("<<<M4037>>>" ++ check (runes_of_ascii "options {
    LittleEndian = true;
    StringPrefixLenType = u16;
    ArrayPrefixLenType = u8;
    FixedStringPadChar = '0';
}

packet Logout {
    repeat i16 f1,
    string Ref,
    @rightPad('\x00')
    char[9] Tail,
    repeat char[6] Flags,
    repeat char[3] Acct,
}

packet Party {
    char[2] f1,
    u8 Side2,
    @leftPad(' ')
    char[1] venue,
}

packet Order {
    repeat i64 Ref,
    InPx62 {
        i32 OrderId,
    },
    InNote53 {
        InClordid80 {
            char[] Acct,
            u32 Px,
            repeat Party,
        },
        InPrice12 {
            u8 pad0,
        },
        repeat Logout,
        InFlags23 {
            repeat string seqNo,
            string sym,
            int8 Flags,
            zchar[5] lastPx,
            zchar[6] Px,
        },
        char[10] Acct,
        InPx18 {
            zchar[2] count,
            Party,
        },
    },
    char[5] Side2,
    char[1] Acct,
}

root packet Ack {
    u32 Tail,
    repeat char[4] msgKind,
    repeat Logout,
}")).
Eval vm_compute in ("<<<M1317>>>" ++ check (runes_of_ascii "MetaData  u{ metadata x_y_z	, i8i8
    len`it's`
    , zchar[ // " ++ [27880; 37322]%N ++ runes_of_ascii "
42	]
options1 `{ , }` ,
} packet u {
@calculatedFrom(""abc""// a // b
)
// c
// " ++ [27880; 37322]%N ++ runes_of_ascii "
char[ 0123456789 ] string_ @lengthOf(
Logon) `a\`	, string string_
@lengthOf( // packet A { u8 x, }
float )	, char[]// c
crc
`line1
line2` , @lengthOf(
/// triple
// `tick` ""quote"" 'q'
metadata
    )  u128 {
    char[]  T ,}, f64  As
@calculatedFrom(// a // b
""// no comment""
)// " ++ [27880; 37322]%N ++ runes_of_ascii "
,  repeat Z9_
    chars`u8 x,` ,  @calculatedFrom(
""packet"" )repeat
    // @lengthOf(
    a1  tag , } packet A
    {	@tag(7
    )@rightPad
(
) @tag( 0123456789 ) repeat
    crc { repeatCount As
// @lengthOf(
//	t
,}
, match pack
    as u {
""packet"" :Pad  , ""1"":u8x 007
    : Packet [ ""packet"", """ ++ [28040; 24687]%N ++ runes_of_ascii """ ] // " ++ [27880; 37322]%N ++ runes_of_ascii "
: BodyLength
""1"" :asx ,
} , match i64_
as Header{ 4294967296: _x	007 :packetx
, [007 ]
:
A
    , //	t
} ,uint8 BodyLength ,@lengthOf(
// `tick` ""quote"" 'q'
// packet A { u8 x, }
i64_ //	t
)
    u8
falsey //	t
, }
")).
Eval vm_compute in ("<<<M208>>>" ++ check (runes_of_ascii "packet zchar{
    uint8x { MetaDataX , match stringy as calculatedFrom { """" : options1,""// no comment""
: //x
u
""\" ++ [233]%N ++ runes_of_ascii """
:  body
, [
""abc""
    , ""it's"" , // c
007 ] : packetx
//	t
// @lengthOf(
,65535:
roots
, } ,  zchar[	10 ]
lengthOf`two words`  ,	} // trailing space 
,
//
// packet A { u8 x, }
} root
packet Header{repeat f32a o `two words`,
    @lengthOf(
    f32a ) char[	42
]
    uint8x ,	@tag( 42
)
    float@lengthOf(
MetaDataX  ) , string T	, match _x as leftPad
    { 0123456789 :
    stringy, } ,  @leftPad // @lengthOf(
( )repeat uint8x// c
{
string_ { char[ 255] a1 @calculatedFrom( ""abc""
), metadata @lengthOf(	asx ),
    } , repeat falsey /// triple
,
    Logon { As ,
repeat char[]// trailing space 
u
    , } , },
    @leftPad
    (	' '
    )
char[ 10
] charz
@lengthOf(  float ), @calculatedFrom(
    """ ++ [233]%N ++ runes_of_ascii "t" ++ [233]%N ++ runes_of_ascii """
) i64 trueish
    `two words`
, } options{ options1	=7
; u
    // " ++ [27880; 37322]%N ++ runes_of_ascii "
    = """" ; } 	 ")).
Eval vm_compute in ("<<<M3908>>>" ++ check (runes_of_ascii "

  options  { metadata
    = ""a\""b""
	;int
	= true; 
chars
    = '\x00';
	string_ = '\x00'

; } packet

    x {	match As	as
	tag  {	1 :zchar

,	""a	b""  // packet A { u8 x, }
  :

    len,
}
,  Pad
i64_,  // " ++ [27880; 37322]%N ++ runes_of_ascii "
@tag(
3
) 
leftPad
{ 	 // trailing space 
  body ,}
    ,char[]
	i8i8  `{ , }`  ,
charz	{  repeat

u16
	zchar

    `two words`
,

    }
	//
  //	t
    , int64
	Z9_  // " ++ [27880; 37322]%N ++ runes_of_ascii "
	@calculatedFrom(
""a\\""
),@rightPad (

'\x00'  )
	metadata  @lengthOf(	i64_ 	 // `tick` ""quote"" 'q'
    ) , @lengthOf(// @lengthOf(
      int
)
u32  u128 
,	// packet A { u8 x, }
	  @tag(10

    )

    // " ++ [27880; 37322]%N ++ runes_of_ascii "
	// " ++ [128512]%N ++ runes_of_ascii " emoji
		@rightPad( 
'\x00')	//
  @tag(	007
	)float
    {	int32 Pad	`" ++ [233]%N ++ runes_of_ascii "`
	, i16 options1``
    ,
	repeatCount  // @lengthOf(
	,
    chars	@lengthOf(

pack
	),
	}
	,repeat
    int
    {  zchar[ 10 ]	u
`two words`
    , i64
Logon
    ,
    }  ,}
")).
Eval vm_compute in ("<<<M3859>>>" ++ check (runes_of_ascii "// c
packet i8i8 {
}

packet string_ {
    @rightPad('\x00')
    int Packet,// a // b
    @tag(255)
    matchKey,
    chars @calculatedFrom(""packet"") `
        `,
    _x @lengthOf(u),
    @tag(255)
    asx Foo,
    string roots,
    repeat falsey {
        matchKey {
            match Pad as i8i8 {
                [00, 7] : u,
                1 : BodyLength,
                // a // b
                ""// no comment"" : metadata,
                """" : BodyLength,
            },
        },
        A,
        repeat char falsey,
    },// packet A { u8 x, }
    _x u `it's`,
    @leftPad('\x00')
    @calculatedFrom(""\n"")
    match x_y_z as metadata {
        ""CRC32"" : packetx,
        ""packet"" : metadata,
        1 : string_,
        [0, 10] : falsey,
    },
    char[] chars @lengthOf(zchar) `say ""hi""`,
}")).
Eval vm_compute in ("<<<M587>>>" ++ check (runes_of_ascii "
packet _x{ metadata
    @lengthOf( i64_ ) , match trueish as
int {
    ["""" ,  255
    ] :
//
// packet A { u8 x, }
T , 65535:zchar ,// c
} , @calculatedFrom(
    ""a\""b"")	match leftPad as// a // b
len{ ""x y""
: Z9_ ,[ 0 ,
007 , ""x y"" ] :
    falsey
    //	t
    , } , }
    root packet
As{
string int , @tag(
    255 )@lengthOf( roots )
@calculatedFrom( """ ++ [128512]%N ++ runes_of_ascii """
    // @lengthOf(
    ) repeat crc
{ repeat char trueish , // " ++ [128512]%N ++ runes_of_ascii " emoji
}
,
    zchar[4294967296 ] options1@calculatedFrom( ""CRC32"" )
,match packetx as
lengthOf
{ ""a\""b"" :
options1 ,
0123456789  : Foo, ""a\\"" : trueish
,3  : string_,""\n"" : zchar
, [	65535 ] : u128
    } ,  @tag( 42) @leftPad
    //x
    (
// `tick` ""quote"" 'q'
// `tick` ""quote"" 'q'
'\x00' ) i16
crc , }packet lengthOf // trailing space 
{ }")).
Eval vm_compute in ("<<<M264>>>" ++ check (runes_of_ascii "
root packet u128 { @calculatedFrom( ""// no comment"" ) @tag(	10//	t
) @calculatedFrom( ""packet"" ) BodyLength ``
    , char BodyLength `two words`	, repeat uint32 f32a // trailing space 
, crc {	repeat
repeatCount Packet , MetaDataX@lengthOf(
    chars
),
options1 _x ,
repeat float64 T//x
,} ,@tag( 3 )
    @leftPad
( '\x00') @rightPad
(
// @lengthOf(
/// triple
)
    match string_ as MetaDataX { ""packet"" : float ,[
    ""abc"" // @lengthOf(
, """"
    // packet A { u8 x, }
    ,	3
,
    //x
    65535 ,
    ""a	b""
,//	t
42
    ,
    1 ,
    ""packet"" ]:
i64_
// `tick` ""quote"" 'q'
/// triple
,
// " ++ [27880; 37322]%N ++ runes_of_ascii "
// trailing space 
7 :lengthOf 0:
len
// trailing space 
// packet A { u8 x, }
,
10 :  len , [ //	t
0
] : A
    //	t
    , }, }")).
Eval vm_compute in ("<<<M933>>>" ++ check (runes_of_ascii "packet //x
Foo
    {char _x ,
@calculatedFrom(
    // c
    ""`tick`"")uint8x , @calculatedFrom(""it's"" ) repeat metadata {int64 Pad  , // " ++ [128512]%N ++ runes_of_ascii " emoji
float , pack
    // c
    matchKey`" ++ [28040; 24687; 31867; 22411]%N ++ runes_of_ascii "`
, }, string lengthOf
//
/// triple
,
zchar[ 7 ]	chars ,i16 asx @calculatedFrom(
""{,}"" )`u8 x,` , @calculatedFrom(""a\\"" ) u32 o `tab	here`
//
// a // b
,match u8x as
    chars {[ ""// no comment"",""`tick`"", ""x y""
    ,0
,""\" ++ [233]%N ++ runes_of_ascii """, //	t
00 ,""" ++ [233]%N ++ runes_of_ascii "t" ++ [233]%N ++ runes_of_ascii """ ]	:
lengthOf ,
},  } options
{ crc// `tick` ""quote"" 'q'
=u64 }packet metadata { @rightPad () float len ,} options {  f32a =false
//	t
//
;
    calculatedFrom =  10;//	t
pack =
    char[  42
    ] trueish = ' '
}
    root  packet leftPad	{ i32
x
    `{ , }` ,
}
")).
Eval vm_compute in ("<<<M4180>>>" ++ check (runes_of_ascii "packet  metadata {  //	t
	leftPad{u64 
stringy , 
},} packet
matchKey
	{
	repeat

u64
	x_y_z,

}  MetaData

    f32a

    {	}
	root packet 
As	{  @lengthOf( Logon
)	float64 A

, @leftPad ( 	 // " ++ [27880; 37322]%N ++ runes_of_ascii "
'0'
)  u32

i64_ /// triple
`// not a comment`  /// triple
    ,repeat	i8

    chars	,
	@lengthOf( x_y_z	)Foo
x
    ,	stringy,
chars @calculatedFrom( ""CRC32"" 
), @tag(
    0	) 
int64 pack `
`	, @rightPad
() @calculatedFrom(
	""abc""
	)@tag(	// packet A { u8 x, }
0  )
char[ 0

] msg_type 	 // a // b
      , 	 // " ++ [27880; 37322]%N ++ runes_of_ascii "
    tag {
	char[ 
007 ]zchar
	@lengthOf(  chars ) ,
As @lengthOf(charz  )
`doc`

,  body

`u8 x,`  ,
	}
,Foo  `two words`
    ,	} ")).
Eval vm_compute in ("<<<M106>>>" ++ check (runes_of_ascii "packet  matchKey
{
    } options{ int = ""a\\""
; lengthOf //	t
= ""it's"" } MetaData lengthOf { Pad  tag
    , } root packet
    x {int @lengthOf(	pack )
`a\` //
, string matchKey
@lengthOf( chars
    )  `" ++ [233]%N ++ runes_of_ascii "` , repeat repeatCount
//x
//
{
    // packet A { u8 x, }
    match x_y_z as A
    {""1"": o	,
// packet A { u8 x, }
// `tick` ""quote"" 'q'
7 :uint8x
// `tick` ""quote"" 'q'
//	t
, [
// `tick` ""quote"" 'q'
// " ++ [128512]%N ++ runes_of_ascii " emoji
65535 , """"
] ://
Header """ ++ [233]%N ++ runes_of_ascii "t" ++ [233]%N ++ runes_of_ascii """ :  u8x
    """ ++ [28040; 24687]%N ++ runes_of_ascii """ : charz 65535 :
stringy }// " ++ [128512]%N ++ runes_of_ascii " emoji
,	zchar[007]	uint8x ,f32 repeatCount @lengthOf( // c
float) `two words` , f64 A  `u8 x,`	,
}, }
    packet Header{ }
")).
Eval vm_compute in ("<<<M1341>>>" ++ check (runes_of_ascii "// packet A { u8 x, }
packet zchar { uint32 // packet A { u8 x, }
matchKey , i32 leftPad @calculatedFrom(
    //	t
    ""1"" ) `crlf
line` ,
_x{  f32a @calculatedFrom(""`tick`""// " ++ [128512]%N ++ runes_of_ascii " emoji
) ,// packet A { u8 x, }
char metadata `u8 x,` ,
    // c
    char[]
a1 @lengthOf(float )  `a\`
, } ,
@lengthOf(
A	)/// triple
zchar[ //
0123456789
]Header @lengthOf( o) `" ++ [28040; 24687; 31867; 22411]%N ++ runes_of_ascii "`// c
,	@tag(00) x `it's` ,
i8 msg_type @lengthOf(
len) `
` , @tag(
    00
    ) repeat matchKey// a // b
{
    string// " ++ [128512]%N ++ runes_of_ascii " emoji
u `" ++ [28040; 24687; 31867; 22411]%N ++ runes_of_ascii "` ,u8 u @calculatedFrom( ""a\""b"" ) ,
i8 len, packetx, }	,
    } options
    { Foo = 0
;
    }
")).
Eval vm_compute in ("<<<M3705>>>" ++ check (runes_of_ascii "packet MetaDataX {
    matchKey,
}

packet x {
    i32 msg_type,
    leftPad {
        string Logon @lengthOf(body),
    },/// triple
    repeat options1 {
        i8i8 msg_type `a\`,
    },
    @tag(0)
    @leftPad()
    // `tick` ""quote"" 'q'
    int64 f32a @lengthOf(asx) `tab	here`,
    char[] pack `" ++ [28040; 24687; 31867; 22411]%N ++ runes_of_ascii "`,//x
    @lengthOf(stringy)
    repeat leftPad,
    @leftPad(' ')
    @leftPad()
    match Logon as roots {
        //x
        ""`tick`"" : string_,
    },
    @tag(0123456789)
    @calculatedFrom(""1"")
    @leftPad()
    u32 x_y_z @calculatedFrom(""\" ++ [233]%N ++ runes_of_ascii """),
}")).
Eval vm_compute in ("<<<M313>>>" ++ check (runes_of_ascii "root
packet i8i8
{ BodyLength `" ++ [28040; 24687; 31867; 22411]%N ++ runes_of_ascii "`, Header , int16 len @lengthOf( msg_type ) `
` ,@leftPad/// triple
(' '/// triple
) @rightPad// " ++ [27880; 37322]%N ++ runes_of_ascii "
( // a // b
) // trailing space 
@calculatedFrom(
""x y"" ) repeatCount // @lengthOf(
@calculatedFrom( /// triple
""packet"")
    `crlf
line` , @lengthOf(falsey
)  roots @lengthOf( metadata
    )`line1
line2` ,
    i8 i64_
, @tag( 4294967296)@tag( 3 ) repeat	zchar[
1 ] lengthOf, @lengthOf(	Logon
// `tick` ""quote"" 'q'
// `tick` ""quote"" 'q'
)repeat
asx{stringy float`line1
line2` , Pad ,
}
    , }
")).
Eval vm_compute in ("<<<M3666>>>" ++ check (runes_of_ascii "// top
packet // c0
Sub // c1a
  // c1b
{ u8 // c3a
  // c3b
a
    // c4
, // c5a
  // c5b
@calculatedFrom( // c6
""CRC16"" // c7a
  // c7b
)
    // c8
u16 SubSum // c10
, } // c12
root packet Frame { // c16
u16 // c17
MsgType // c18
, u16 // c20a
  // c20b
BodyLen // c21
@lengthOf( Body ) ,
    // c25
Sub // c26
Body , string // c29a
  // c29b
note
    // c30
,
    // c31
@calculatedFrom( // c32a
  // c32b
""CRC16"" // c33
) // c34
u16 Checksum // c36a
  // c36b
, u8
    // c38
tail // c39
, // c40
}
    // c41
")).
Eval vm_compute in ("<<<M722>>>" ++ check (runes_of_ascii "
options{
} MetaData
    trueish{  }
MetaData
options1
    {
    // @lengthOf(
    Z9_ Logon `doc` ,
    }
packet i64_ /// triple
{
    falsey
// " ++ [27880; 37322]%N ++ runes_of_ascii "
/// triple
rootA
    ,	@calculatedFrom( ""// no comment"")
string x_y_z
,	rootA`{ , }` ,	u `tab	here` // " ++ [128512]%N ++ runes_of_ascii " emoji
, i64_ Packet, _x
asx	,@tag( 255 )uint64 trueish , @tag(
    4294967296 ) @rightPad ( ' '  ) @calculatedFrom( """ ++ [28040; 24687]%N ++ runes_of_ascii """) i64 //
MetaDataX, @leftPad (' ' // packet A { u8 x, }
) Pad `a\` , } packet
asx
    {// packet A { u8 x, }
}")).
Eval vm_compute in ("<<<M337>>>" ++ check (runes_of_ascii "options { }packet BodyLength {i8i8 @lengthOf(trueish ) , repeat body ,// " ++ [27880; 37322]%N ++ runes_of_ascii "
@calculatedFrom( ""1"" )repeat int64 i64_ ,@tag(0 )
    MetaDataX msg_type `" ++ [28040; 24687; 31867; 22411]%N ++ runes_of_ascii "`  , Pad { Header @calculatedFrom( """"), }, @tag(  42
    ) u8 asx `u8 x,` , @tag( 3
) repeat string_ {
metadata
{// @lengthOf(
char[ 0123456789  ] crc, Packet
    `" ++ [28040; 24687; 31867; 22411]%N ++ runes_of_ascii "` , //x
options1
    // " ++ [128512]%N ++ runes_of_ascii " emoji
    `tab	here` // packet A { u8 x, }
,
}, repeat Packet , } , }
    //x
    options { x
    =  char[ 10	] ; }")).
Eval vm_compute in ("<<<M520>>>" ++ check (runes_of_ascii "
packet o {repeat	MetaDataX ,uint64 f32a /// triple
`" ++ [233]%N ++ runes_of_ascii "`
,f32 packetx `doc`	, leftPad { repeat len x ,
    zchar[ 0123456789
    // packet A { u8 x, }
    ] tag @lengthOf(MetaDataX )
    , chars{ zchar[
// " ++ [27880; 37322]%N ++ runes_of_ascii "
// `tick` ""quote"" 'q'
65535]
u8x `" ++ [28040; 24687; 31867; 22411]%N ++ runes_of_ascii "`, u16 BodyLength
@calculatedFrom( ""`tick`""
) `line1
line2`
, char[]
stringy , repeat i64_ charz `crlf
line` , // trailing space 
}
    // packet A { u8 x, }
    ,	f32
msg_type , } ,x`` ,
    }
")).
Eval vm_compute in ("<<<M1253>>>" ++ check (runes_of_ascii "root packet metadata{ @calculatedFrom( ""it's"")match
    Foo as a1{ ""{,}"" :
    len,
0123456789 :
pack ,
    4294967296
:len ,
0123456789 :matchKey
, [ ""it's"" ]	:o//	t
}, //
@calculatedFrom(""""
//	t
// " ++ [128512]%N ++ runes_of_ascii " emoji
) body {	repeat// trailing space 
float64  zchar `it's` , repeat float zchar// " ++ [27880; 37322]%N ++ runes_of_ascii "
`// not a comment` , } , } MetaData _x {
    crc A // a // b
, char[]repeatCount `two words`,
uint8x u128 , o rootA `two words`
    , }")).
Eval vm_compute in ("<<<M353>>>" ++ check (runes_of_ascii "options { len=
    // c
    ""abc""
; lengthOf = // trailing space 
true ;} packet
float {
    @tag( 65535
// `tick` ""quote"" 'q'
// trailing space 
) @rightPad
(' ' )int32
zchar ,repeat int64 trueish
,
@tag(10// packet A { u8 x, }
)
T repeatCount ,@leftPad (' ' )float32 MetaDataX
    `it's`
    ,
@rightPad (	' ' ) repeat zchar[ 0123456789 ] A
    , repeat
i8 f32a , u8 body
@calculatedFrom( ""it's""
)
,
    }
")).
Eval vm_compute in ("<<<M452>>>" ++ check (runes_of_ascii "root packet
    MetaDataX {} options {  int// " ++ [128512]%N ++ runes_of_ascii " emoji
=	false
    //	t
    } packet
    falsey {
    string tag  `say ""hi""` , leftPad // trailing space 
stringy
, @calculatedFrom( ""a	b"" ) As
@calculatedFrom(""packet""	)
// `tick` ""quote"" 'q'
// c
`line1
line2`
,
A@lengthOf(
// " ++ [27880; 37322]%N ++ runes_of_ascii "
//
body) , @calculatedFrom( """ ++ [28040; 24687]%N ++ runes_of_ascii """ ) calculatedFrom ,
calculatedFrom @lengthOf( calculatedFrom
)
`tab	here`,
}
")).
Eval vm_compute in ("<<<M484>>>" ++ check (runes_of_ascii "packet packetx { // packet A { u8 x, }
@rightPad
(' ') match x_y_z as options1 {[42
    ] : f32a , ""`tick`"" :
    trueish , [ 65535 ,""" ++ [233]%N ++ runes_of_ascii "t" ++ [233]%N ++ runes_of_ascii """
] :crc, """ ++ [128512]%N ++ runes_of_ascii """ :
lengthOf ""a	b""  :  Header , 255 : x_y_z
// @lengthOf(
// @lengthOf(
,
    }
    ,	} packet zchar
    // trailing space 
    { Header
    // " ++ [128512]%N ++ runes_of_ascii " emoji
    @calculatedFrom(
    ""CRC32"") , @leftPad( )repeatCount charz	, }
//
")).
Eval vm_compute in ("<<<M4619>>>" ++ check (runes_of_ascii "  packet
	metadata// `tick` ""quote"" 'q'
  {

    Z9_

@lengthOf(

    // `tick` ""quote"" 'q'
  	// @lengthOf(

	i64_

    ),
}  packet pack
// " ++ [27880; 37322]%N ++ runes_of_ascii "
  // " ++ [128512]%N ++ runes_of_ascii " emoji

{
	options1 @lengthOf(  asx ) , @leftPad

( ' '
)	@calculatedFrom( ""abc""
)
	    // `tick` ""quote"" 'q'
	  // trailing space 
      falsey  ,  // trailing space 
  char[
3
]rootA
,

    } ")).
Eval vm_compute in ("<<<M121>>>" ++ check (runes_of_ascii "root
    packet stringy{ // trailing space 
@calculatedFrom(
""" ++ [28040; 24687]%N ++ runes_of_ascii """ ) repeat
Foo {float64	i64_
    @lengthOf(Z9_ ),	}
    ,	repeat // `tick` ""quote"" 'q'
lengthOf {
falsey
    { uint16 len//x
,	} , Packet uint8x `a\`,} , @calculatedFrom(""" ++ [128512]%N ++ runes_of_ascii """)  string MetaDataX	`" ++ [233]%N ++ runes_of_ascii "`  ,} packet
chars { @leftPad ( '0'
    )i64 trueish
@lengthOf( Z9_  )
    ,
}
")).
Eval vm_compute in ("<<<M3790>>>" ++ check (runes_of_ascii "packet crc {
    match string_ as matchKey {
        7 : matchKey,
        007 : x,
        65535 : BodyLength,
        [00, 3] : u128,
        [255, 0] : leftPad,
        ""it's"" : u128,
    },
    @calculatedFrom("""")
    match MetaDataX as int {
        [3] : As,
    },
}

packet falsey {
}//

options {
    metadata = 255;
}")).
Eval vm_compute in ("<<<M1896>>>" ++ check (runes_of_ascii "MetaData
    u { }  options {
// c
// @lengthOf(
float = int8 int8 ;rootA =false ; As =	int16 // `tick` ""quote"" 'q'
repeatCount
    // trailing space 
    =
    int16
; u8x =
    //	t
    '\x00' ; } options	{
    repeatCount
= 0
u128
    //
    = false ; i64_
// trailing space 
// `tick` ""quote"" 'q'
= '0' ; //	t
}
")).
Eval vm_compute in ("<<<M1891>>>" ++ check (runes_of_ascii "MetaData
    u { }  options {
// c
// @lengthOf(
float = = int8 ;rootA =false ; As =	int16 // `tick` ""quote"" 'q'
repeatCount
    // trailing space 
    =
    int16
; u8x =
    //	t
    '\x00' ; } options	{
    repeatCount
= 0
u128
    //
    = false ; i64_
// trailing space 
// `tick` ""quote"" 'q'
= '0' ; //	t
}
")).
Eval vm_compute in ("<<<M1897>>>" ++ check (runes_of_ascii "MetaData
    u { }  options {
// c
// @lengthOf(
float = ; int8 rootA =false ; As =	int16 // `tick` ""quote"" 'q'
repeatCount
    // trailing space 
    =
    int16
; u8x =
    //	t
    '\x00' ; } options	{
    repeatCount
= 0
u128
    //
    = false ; i64_
// trailing space 
// `tick` ""quote"" 'q'
= '0' ; //	t
}
")).
Eval vm_compute in ("<<<M1947>>>" ++ check (runes_of_ascii "MetaData
    u { }  options {
// c
// @lengthOf(
float = int8 ;rootA =false ; As =	int16 // `tick` ""quote"" 'q'
repeatCount
    // trailing space 
    int16
    =
; u8x =
    //	t
    '\x00' ; } options	{
    repeatCount
= 0
u128
    //
    = false ; i64_
// trailing space 
// `tick` ""quote"" 'q'
= '0' ; //	t
}
")).
Eval vm_compute in ("<<<M1880>>>" ++ check (runes_of_ascii "MetaData
    u { }  options 
// c
// @lengthOf(
float = int8 ;rootA =false ; As =	int16 // `tick` ""quote"" 'q'
repeatCount
    // trailing space 
    =
    int16
; u8x =
    //	t
    '\x00' ; } options	{
    repeatCount
= 0
u128
    //
    = false ; i64_
// trailing space 
// `tick` ""quote"" 'q'
= '0' ; //	t
}
")).
Eval vm_compute in ("<<<M555>>>" ++ check (runes_of_ascii "MetaData repeatCount { char[ 4294967296 ]
BodyLength `it's` , } packet Header { zchar[255] chars `line1
line2` ,BodyLength
    // " ++ [128512]%N ++ runes_of_ascii " emoji
    tag// a // b
,	} options { body // packet A { u8 x, }
=""" ++ [28040; 24687]%N ++ runes_of_ascii """// @lengthOf(
}
    // `tick` ""quote"" 'q'
    packet f32a { char metadata `// not a comment` , } /// triple")).
Eval vm_compute in ("<<<M3913>>>" ++ check (runes_of_ascii "packet i64_ {
    Z9_ @lengthOf(charz) `doc`,
    Pad {
        body @lengthOf(string_) `say ""hi""`,
        uint64 metadata @lengthOf(Logon) `say ""hi""`,
        zchar[3] f32a `{ , }`,
        repeat uint8 leftPad,
    },
    char[] _x @lengthOf(As) `
    `,
    char[65535] matchKey `// not a comment`,
}")).
Eval vm_compute in ("<<<M679>>>" ++ check (runes_of_ascii "MetaData BodyLength { falsey
    // packet A { u8 x, }
    Logon  `{ , }` ,u8 int`" ++ [28040; 24687; 31867; 22411]%N ++ runes_of_ascii "`, zchar[7 ]// packet A { u8 x, }
len/// triple
,  }  MetaData// @lengthOf(
u
    {
Logon matchKey
`{ , }`	,	char[42 ]
// packet A { u8 x, }
/// triple
int
`line1
line2`,
    char[ 7
    ] x_y_z
    `doc` , }")).
Eval vm_compute in ("<<<M3307>>>" ++ check (runes_of_ascii "// top
root // c0
packet // c1
matchKey // c2
{ // c3
zchar[ // c4
3 // c5
] // c6
pack // c7
@calculatedFrom( // c8
""a	b"" // c9
) // c10
`doc` // c11
, // c12
} // c13
options // c14
{ // c15
} // c16
MetaData // c17
A // c18
{ // c19
int8 // c20
msg_type // c21
, // c22
} // c23
")).
Eval vm_compute in ("<<<M82>>>" ++ check (runes_of_ascii "packet
zchar {@rightPad (// a // b
) uint8 a1 `line1
line2` , @calculatedFrom( ""x y"" ) match pack as	matchKey
{
    /// triple
    """ ++ [28040; 24687]%N ++ runes_of_ascii """  : //x
u128 ,
    3 : i64_
    ""a\""b""
    : As , } ,
// " ++ [27880; 37322]%N ++ runes_of_ascii "
// @lengthOf(
u8 Packet	@calculatedFrom( ""// no comment"" ) //x
,
    }
//
")).
Eval vm_compute in ("<<<M665>>>" ++ check (runes_of_ascii "
packet
    // " ++ [27880; 37322]%N ++ runes_of_ascii "
    Logon
    { match
repeatCount as
    // a // b
    trueish { 1 //	t
:
    int[""" ++ [28040; 24687]%N ++ runes_of_ascii """ , 65535 ,
// " ++ [27880; 37322]%N ++ runes_of_ascii "
// a // b
""{,}"" ,10 ,	42
,007]: body,[ ""CRC32"" , ""x y"" ]:
T ,// packet A { u8 x, }
[ 42 ]: a1 , 7 :chars
    , } // packet A { u8 x, }
,}")).
Eval vm_compute in ("<<<M1515>>>" ++ check (runes_of_ascii "packet
//	t
// trailing space 
_x {
// packet A { u8 x, }
// c
char[
3
    uint8 u8x @lengthOf(
u8x ) , @calculatedFrom(""" ++ [128512]%N ++ runes_of_ascii """ // @lengthOf(
)
i16	Foo
@lengthOf(	string_
    )`doc`	, repeat	i64 metadata , @lengthOf( string_
) i8 // c
u  `line1
line2`	,
}
")).
Eval vm_compute in ("<<<M1623>>>" ++ check (runes_of_ascii "packet
//	t
// trailing space 
_x {
// packet A { u8 x, }
// c
char[
3
    ] u8x @lengthOf(
u8x ) , @calculatedFrom(""" ++ [128512]%N ++ runes_of_ascii """ // @lengthOf(
)
i16	Foo
@lengthOf(	string_
    )`doc`	, repeat	i64 metadata , @lengthOf( string_
) ) i8 // c
u  `line1
line2`	,
}
")).
Eval vm_compute in ("<<<M1504>>>" ++ check (runes_of_ascii "packet
//	t
// trailing space 
_x {
// packet A { u8 x, }
// c
3
char[
    ] u8x @lengthOf(
u8x ) , @calculatedFrom(""" ++ [128512]%N ++ runes_of_ascii """ // @lengthOf(
)
i16	Foo
@lengthOf(	string_
    )`doc`	, repeat	i64 metadata , @lengthOf( string_
) i8 // c
u  `line1
line2`	,
}
")).
Eval vm_compute in ("<<<M1645>>>" ++ check (runes_of_ascii "packet
//	t
// trailing space 
_x {
// packet A { u8 x, }
// c
char[
3
    ] u8x @lengthOf(
u8x ) , @calculatedFrom(""" ++ [128512]%N ++ runes_of_ascii """ // @lengthOf(
)
i16	Foo
@lengthOf(	string_
    )`doc`	, repeat	i64 metadata , @lengthOf( string_
) i8 // c
u  `line1
line2`	}
}
")).
Eval vm_compute in ("<<<M1557>>>" ++ check (runes_of_ascii "packet
//	t
// trailing space 
_x {
// packet A { u8 x, }
// c
char[
3
    ] u8x @lengthOf(
u8x ) , @calculatedFrom(""" ++ [128512]%N ++ runes_of_ascii """ // @lengthOf(
)
	Foo
@lengthOf(	string_
    )`doc`	, repeat	i64 metadata , @lengthOf( string_
) i8 // c
u  `line1
line2`	,
}
")).
Eval vm_compute in ("<<<M4418>>>" ++ check (runes_of_ascii "packet tag {
    int8 packetx,
}

packet Foo {
    //x
    repeatCount @calculatedFrom(""x y""),
    char[00] As @lengthOf(a1) `crlf
    line`,
    @tag(10)
    len {
        char[10] matchKey `" ++ [233]%N ++ runes_of_ascii "`,
        f32a @lengthOf(u128) `it's`,
    },
}")).
Eval vm_compute in ("<<<M854>>>" ++ check (runes_of_ascii "
packet// packet A { u8 x, }
Z9_
    {} MetaData	falsey { string
    len
    // " ++ [128512]%N ++ runes_of_ascii " emoji
    `tab	here` ,
/// triple
// `tick` ""quote"" 'q'
i32 asx ,
    uint8 pack
    , } options // " ++ [27880; 37322]%N ++ runes_of_ascii "
{_x = // trailing space 
true
// " ++ [27880; 37322]%N ++ runes_of_ascii "
// " ++ [27880; 37322]%N ++ runes_of_ascii "
}

")).
Eval vm_compute in ("<<<M4377>>>" ++ check (runes_of_ascii "packet Foo {
    match i64_ as x_y_z {
        65535 : BodyLength,
        [3, ""CRC32""] : u,
        255 : T,
        [""x y""] : leftPad,
        0123456789 : As,
    },
    zchar[1] int,
}

packet float {
    uint16 Packet,
}")).
Eval vm_compute in ("<<<M4412>>>" ++ check (runes_of_ascii "
packet	i64_  {
match	tag
as
x

    {	""" ++ [128512]%N ++ runes_of_ascii """: string_
, ""a\\""	: rootA
	,	""abc""  :pack

,
	} ,

    @tag(  3 ) // @lengthOf(
	string 
metadata
, string

    stringy

`u8 x,` 
    // @lengthOf(

  // a // b
  , }")).
Eval vm_compute in ("<<<M1220>>>" ++ check (runes_of_ascii "MetaData a1 {char[]  repeatCount
    `it's`, char[  4294967296 // @lengthOf(
]
    i8i8// c
`// not a comment`
    // packet A { u8 x, }
    ,
// @lengthOf(
/// triple
float32 zchar , } packet calculatedFrom{ }
")).
Eval vm_compute in ("<<<M1722>>>" ++ check (runes_of_ascii "options { trueish = ""`tick`"" ; string_= """ ++ [233]%N ++ runes_of_ascii "t" ++ [233]%N ++ runes_of_ascii """
    // c
    } root root
    packet body { stringy @calculatedFrom(
""a	b"" ) `line1
line2` , }
packet Logon {
    @leftPad(
    ' ' ) //	t
u16 string_ `u8 x,` ,
}
")).
Eval vm_compute in ("<<<M1832>>>" ++ check (runes_of_ascii "options { trueish = ""`tick`"" ; string_= """ ++ [233]%N ++ runes_of_ascii "t" ++ [233]%N ++ runes_of_ascii """
    // c
    } root
    packet body { stringy @calculatedFrom(
""a	b"" ) `line1
line2` , }
packet Logon {
    @leftPad(
    ' ' ) //	t
u16 string_ `u8 x,` ,
} }
")).
Eval vm_compute in ("<<<M1698>>>" ++ check (runes_of_ascii "options { trueish = ""`tick`"" string_ ;= """ ++ [233]%N ++ runes_of_ascii "t" ++ [233]%N ++ runes_of_ascii """
    // c
    } root
    packet body { stringy @calculatedFrom(
""a	b"" ) `line1
line2` , }
packet Logon {
    @leftPad(
    ' ' ) //	t
u16 string_ `u8 x,` ,
}
")).
Eval vm_compute in ("<<<M4109>>>" ++ check (runes_of_ascii "packet A {
    match k as n {
        ""\
                "" : B,
        [""\
                "", 1] : C,
        [
            1, 2, 3, 4, 5,
            ""\
                        ""
        ] : D,
    },
}")).
Eval vm_compute in ("<<<M1855>>>" ++ check (runes_of_ascii "options { trueish = ""`tick`"" ; a" ++ [769]%N ++ runes_of_ascii "b= """ ++ [233]%N ++ runes_of_ascii "t" ++ [233]%N ++ runes_of_ascii """
    // c
    } root
    packet body { stringy @calculatedFrom(
""a	b"" ) `line1
line2` , }
packet Logon {
    @leftPad(
    ' ' ) //	t
u16 string_ `u8 x,` ,
}
")).
Eval vm_compute in ("<<<M1691>>>" ++ check (runes_of_ascii "options { trueish =  ; string_= """ ++ [233]%N ++ runes_of_ascii "t" ++ [233]%N ++ runes_of_ascii """
    // c
    } root
    packet body { stringy @calculatedFrom(
""a	b"" ) `line1
line2` , }
packet Logon {
    @leftPad(
    ' ' ) //	t
u16 string_ `u8 x,` ,
}
")).
Eval vm_compute in ("<<<M1979>>>" ++ check (runes_of_ascii "MetaData
    u { }  options {
// c
// @lengthOf(
float = int8 ;rootA =false ; As =	int16 // `tick` ""quote"" 'q'
repeatCount
    // trailing space 
    =
    int16
; u8x =
    //	t
    '\x00'")).
Eval vm_compute in ("<<<M1820>>>" ++ check (runes_of_ascii "options { trueish = ""`tick`"" ; string_= """ ++ [233]%N ++ runes_of_ascii "t" ++ [233]%N ++ runes_of_ascii """
    // c
    } root
    packet body { stringy @calculatedFrom(
""a	b"" ) `line1
line2` , }
packet Logon {
    @leftPad(
    ' ' ) //	t
u16")).
Eval vm_compute in ("<<<M3866>>>" ++ check (runes_of_ascii "packet Logon {
    repeat u64 a1 `u8 x,`,
    uint16 string_ @lengthOf(BodyLength),
    @tag(7)
    @tag(7)
    @rightPad(' ')
    metadata,
    repeat char[007] Foo `u8 x,`,
}")).
Eval vm_compute in ("<<<M1238>>>" ++ check (runes_of_ascii "packet	body {
    // @lengthOf(
    body
    trueish , repeat MetaDataX
string_,  char[] asx `say ""hi""`
, char
// a // b
// " ++ [128512]%N ++ runes_of_ascii " emoji
int@calculatedFrom(""packet""
    )
,}
")).
Eval vm_compute in ("<<<M3949>>>" ++ check (runes_of_ascii "
options	{
    Pad  =zchar[
0 ] ;  tag=char[ 
4294967296	] ;

    u128  =

    false;	}  MetaData repeatCount 
{u16
	u128
	,} 
options 
{  leftPad = '0' ;
	}

")).
Eval vm_compute in ("<<<M473>>>" ++ check (runes_of_ascii "packet
    o {  asx @calculatedFrom( ""CRC32""	)// " ++ [27880; 37322]%N ++ runes_of_ascii "
`it's`
    ,// @lengthOf(
@tag( 255 )
int16 T	, string
msg_type `
`
, } // trailing space 
packet Z9_ {	}
")).
Eval vm_compute in ("<<<M2117>>>" ++ check (runes_of_ascii "options{
_x
= true
} options
{ string	= /// triple
false
    ; chars
= ""\n"" } root packet	Pad
/// triple
// packet A { u8 x, }
{	chars
    // a // b
    ,}")).
Eval vm_compute in ("<<<M2422>>>" ++ check (runes_of_ascii "// c
packet x { @lengthOf( metadata ) repeat lengthOf
,a1{
trueish	,// c
repeat//	t
MetaDataX , , } , zchar[
    42	] rootA // `tick` ""quote"" 'q'
,
    }
")).
Eval vm_compute in ("<<<M2180>>>" ++ check (runes_of_ascii "options{
_x
= true
} options
{ o	= /// triple
false
    ; chars
= ""\n"" } root packet	Pad
/// triple
// packet A { u8 x, }
{	chars
    // a // b
    , ,}")).
Eval vm_compute in ("<<<M2194>>>" ++ check (runes_of_ascii "options{
_x
= true
} options
{ o	= /// triple
false
    ; chars
= ""\n"" } root packet	Pad
/// triple
// packet A { u8 x, }
{	chars
  " ++ [127]%N ++ runes_of_ascii "  // a // b
    ,}")).
Eval vm_compute in ("<<<M2131>>>" ++ check (runes_of_ascii "options{
_x
= true
} options
{ o	= /// triple
false
    chars ;
= ""\n"" } root packet	Pad
/// triple
// packet A { u8 x, }
{	chars
    // a // b
    ,}")).
Eval vm_compute in ("<<<M2139>>>" ++ check (runes_of_ascii "options{
_x
= true
} options
{ o	= /// triple
false
    ; chars
 ""\n"" } root packet	Pad
/// triple
// packet A { u8 x, }
{	chars
    // a // b
    ,}")).
Eval vm_compute in ("<<<M4456>>>" ++ check (runes_of_ascii "
/// triple
  	options{

Header 
=
    65535 ;	calculatedFrom  =  ""x y""trueish=  true  i8i8=false

    metadata 	 // trailing space 
=  """ ++ [28040; 24687]%N ++ runes_of_ascii """ 
;	} ")).
Eval vm_compute in ("<<<M3763>>>" ++ check (runes_of_ascii "packet A {
    match k as n {
        [
            ""a"", 22, ""c c"", 4, ""e"",
            66, ""g"", 8, ""i"", 10
        ] : B,
        2 : C,
    },
}")).
Eval vm_compute in ("<<<M518>>>" ++ check (runes_of_ascii "
MetaData packetx
    {	len Packet ,x
// `tick` ""quote"" 'q'
// a // b
A ,
matchKey lengthOf `{ , }`
    , char[
7 ]
    Z9_ , A
    rootA,
}
")).
Eval vm_compute in ("<<<M4429>>>" ++ check (runes_of_ascii "packet  rootA  { } 
	    // `tick` ""quote"" 'q'
  /// triple
	options
{ 
stringy
	=0123456789 ; T= 
42
; 
string_ 
=
    ""a\""b""; } 
//
 
")).
Eval vm_compute in ("<<<M3823>>>" ++ check (runes_of_ascii "packet A {
    u8 a,
}

packet B {
    u16 b,
}

root packet P {
    u8 K,
    match K as M {
        1 : A,
        1 : B,
    },
}")).
Eval vm_compute in ("<<<M4615>>>" ++ check (runes_of_ascii "
options {
a1  /// triple
  	= ""1"" 
;

    trueish

= i64
    ; stringy
=

""" ++ [128512]%N ++ runes_of_ascii """ ;
u8x 
=
255

    ;
	u128
=""`tick`""
; }

")).
Eval vm_compute in ("<<<M1009>>>" ++ check (runes_of_ascii "root packet // @lengthOf(
options1
{ repeat f32a, @calculatedFrom( ""\n"" )
    i8 Packet ,
    }  options { a1 = uint64  ;
}")).
Eval vm_compute in ("<<<M3316>>>" ++ check (runes_of_ascii "root packet matchKey // c
{ zchar[ 3 ] pack @calculatedFrom( ""a	b"" ) `doc` , } options { } MetaData A { int8 msg_type , }")).
Eval vm_compute in ("<<<M3348>>>" ++ check (runes_of_ascii "root packet matchKey { zchar[ 3 ] pack @calculatedFrom( ""a	b"" ) `doc` , } options { } MetaData A // c
{ int8 msg_type , }")).
Eval vm_compute in ("<<<M4183>>>" ++ check (runes_of_ascii "MetaData msg_type {
    Packet int,
    char[3] Foo `// not a comment`,
    zchar[7] uint8x,
    leftPad crc `
    `,
}")).
Eval vm_compute in ("<<<M1424>>>" ++ check (runes_of_ascii "
packet
    falsey { Header@calculatedFrom()  ""packet"" , char[
    0123456789 ] packetx
    , } // `tick` ""quote"" 'q'")).
Eval vm_compute in ("<<<M3970>>>" ++ check (runes_of_ascii "
packet chars

{
}
	packet
	MetaDataX // c
  {  @tag(
42 ) i16
string_
	,
    repeat x

    `say ""hi""` ,

    }")).
Eval vm_compute in ("<<<M814>>>" ++ check (runes_of_ascii "packet MetaDataX // c
{
i8i8  @calculatedFrom( ""a\""b"") `
`
    ,@calculatedFrom(""a\\"" )leftPad , }
// " ++ [128512]%N ++ runes_of_ascii " emoji
")).
Eval vm_compute in ("<<<M47>>>" ++ check (runes_of_ascii "options
{ options1= uint64 ;	}
root packet /// triple
T {MetaDataX//x
`// not a comment` , } packet crc {}
")).
Eval vm_compute in ("<<<M3833>>>" ++ check (runes_of_ascii "
packet A {	match k
	as

n {

    [""a"",

    ""bb""

,

    007 ,
""d""

] :
	B

    ,  2 
:
	C
}, }

")).
Eval vm_compute in ("<<<M4329>>>" ++ check (runes_of_ascii "

  options

{
	LittleEndian 
=
    true

    ; } root packet P{  repeat char
    cs
,

u8 x
    , 
}")).
Eval vm_compute in ("<<<M758>>>" ++ check (runes_of_ascii "
options {
    rootA
    =	i64 i64_ = true matchKey
='\x00'  charz // packet A { u8 x, }
=false ; }")).
Eval vm_compute in ("<<<M2983>>>" ++ check (runes_of_ascii "packet A {
  match k as n {
    [1, 22, ""c c"", 4, 5, ""f"", 7, 8, ""i"", 10, 11] : B,
    2 : C
  },
}")).
Eval vm_compute in ("<<<M4016>>>" ++ check (runes_of_ascii "options {
    options1 = char[00];
    len = """ ++ [128512]%N ++ runes_of_ascii """;
    a1 = 42
    Header = ' '
}

packet Foo {
}")).
Eval vm_compute in ("<<<M2975>>>" ++ check (runes_of_ascii "packet A {
  match k as n {
    [1, 22, 007, 4, 5, 66, 7, 8, 9, 10, 11] : B,
    2 : C
  },
}")).
Eval vm_compute in ("<<<M3566>>>" ++ check (runes_of_ascii "

  root
packet

    P {

u16 a
,u32	Sum
	@calculatedFrom(

    ""CRC32""

    ) , 
} ")).
Eval vm_compute in ("<<<M2940>>>" ++ check (runes_of_ascii "packet A {
  match k as n {
    [1, ""bb"", 007, ""d"", 5, ""f"", 7, ""h""] : B,
    2 : C
  },
}")).
Eval vm_compute in ("<<<M3296>>>" ++ check (runes_of_ascii "MetaData float { float64 charz `
` , } root packet chars { @rightPad (
// c
'0' ) Foo , }")).
Eval vm_compute in ("<<<M3507>>>" ++ check (runes_of_ascii "packet chars { } packet MetaDataX { @tag( 42 ) i16 string_ // c
, repeat x `say ""hi""` , }")).
Eval vm_compute in ("<<<M2746>>>" ++ check (runes_of_ascii "`// not a comment` true ' ' ; packet i8 int8 @calculatedFrom( string u32 = string char[]")).
Eval vm_compute in ("<<<M4013>>>" ++ check (runes_of_ascii "packet A {
    match k as n {
        [1, 22, ""c c"", 4, 5] : B,
        2 : C,
    },
}")).
Eval vm_compute in ("<<<M3215>>>" ++ check (runes_of_ascii "packet metadata // c
{ Logon { A `" ++ [28040; 24687; 31867; 22411]%N ++ runes_of_ascii "` , tag o , } , zchar len `// not a comment` , }")).
Eval vm_compute in ("<<<M3428>>>" ++ check (runes_of_ascii "
// c
packet o { repeat Logon uint8x , } options { asx = zchar[ 3 ] stringy = '\x00' }")).
Eval vm_compute in ("<<<M3438>>>" ++ check (runes_of_ascii "packet o { repeat Logon
// c
uint8x , } options { asx = zchar[ 3 ] stringy = '\x00' }")).
Eval vm_compute in ("<<<M2259>>>" ++ check (runes_of_ascii "options
{ } options { BodyLength= u16 Header= ] ; u128 =
    true
    ; } // a // b")).
Eval vm_compute in ("<<<M4306>>>" ++ check (runes_of_ascii "packet Inner { u8
a ,} root

packet

    P

{ 
repeat
Inner
items ,
u8 x  ,}

")).
Eval vm_compute in ("<<<M3413>>>" ++ check (runes_of_ascii "MetaData body { i64 pack `it's` , } packet stringy
// c
{ int16 calculatedFrom , }")).
Eval vm_compute in ("<<<M282>>>" ++ check (runes_of_ascii "
packet charz{ repeat u16 Foo`{ , }`// c
,
//
//
} options
    { crc = """ ++ [28040; 24687]%N ++ runes_of_ascii """ ;	}")).
Eval vm_compute in ("<<<M3250>>>" ++ check (runes_of_ascii "// top
root
    // c0
packet
    // c1
pack
    // c2
{
    // c3
}
    // c4
")).
Eval vm_compute in ("<<<M4269>>>" ++ check (runes_of_ascii "MetaData
// a // b
	options1

{
	Pad
    options1 ,  // " ++ [27880; 37322]%N ++ runes_of_ascii "
} 
// " ++ [128512]%N ++ runes_of_ascii " emoji
 
")).
Eval vm_compute in ("<<<M2891>>>" ++ check (runes_of_ascii "packet A {
  match k as n {
    [""a"", 22, ""c c"", 4] : B
    2 : C
  },
}")).
Eval vm_compute in ("<<<M4609>>>" ++ check (runes_of_ascii "// trailing space 

packet /// triple
Foo{  zchar[	255

]  body	,  }

")).
Eval vm_compute in ("<<<M2880>>>" ++ check (runes_of_ascii "packet A {
  match k as n {
    [1, 22, ""c c""] : B
    2 : C
  },
}")).
Eval vm_compute in ("<<<M976>>>" ++ check (runes_of_ascii "// trailing space 
packet/// triple
Foo
{ zchar[ 255 ]body	,
}
")).
Eval vm_compute in ("<<<M1446>>>" ++ check (runes_of_ascii "
packet
    falsey { Header@calculatedFrom(""packet""  ) , char[")).
Eval vm_compute in ("<<<M2665>>>" ++ check (runes_of_ascii "options { a = true; b = false; c = '0'; d = ""s""; e = 007; }")).
Eval vm_compute in ("<<<M3372>>>" ++ check (runes_of_ascii "packet x { @rightPad
// c
( ) repeat roots Logon `doc` , }")).
Eval vm_compute in ("<<<M824>>>" ++ check (runes_of_ascii "options
    { float	=
// " ++ [128512]%N ++ runes_of_ascii " emoji
// @lengthOf(
string }
")).
Eval vm_compute in ("<<<M327>>>" ++ check (runes_of_ascii "options {
_x = 0
; As = zchar[ 4294967296 ] ; } //x")).
Eval vm_compute in ("<<<M3769>>>" ++ check (runes_of_ascii "root
	packet

    A{ u8  x
	`a
    b
  c`
, }
")).
Eval vm_compute in ("<<<M755>>>" ++ check (runes_of_ascii "MetaData
u8x{ a1
float// trailing space 
, }
")).
Eval vm_compute in ("<<<M687>>>" ++ check (runes_of_ascii "packet leftPad { u64 Foo
,
// c
// a // b
}
")).
Eval vm_compute in ("<<<M4166>>>" ++ check (runes_of_ascii "
packet
    A

{
	u8

x

`d" ++ [133]%N ++ runes_of_ascii "`,	// c" ++ [133]%N ++ runes_of_ascii "
	}
")).
Eval vm_compute in ("<<<M3194>>>" ++ check (runes_of_ascii "root packet u128
// c
{ chars `it's` , }")).
Eval vm_compute in ("<<<M2560>>>" ++ check (runes_of_ascii "packet A { repeat u8 x @lengthOf(y), }")).
Eval vm_compute in ("<<<M2803>>>" ++ check (runes_of_ascii "]$_nDRt.|X+""9273[j3IdN7 pv0zmf0e*8[2")).
Eval vm_compute in ("<<<M56>>>" ++ check (runes_of_ascii "// `tick` ""quote"" 'q'

/// triple
")).
Eval vm_compute in ("<<<M2733>>>" ++ check (runes_of_ascii "}6.&v:_D^b!EF*T3wXu*H*=10%2uRO\IT")).
Eval vm_compute in ("<<<M4469>>>" ++ check (runes_of_ascii "

  packet A{u8
x`d `,	// c 
	}")).
Eval vm_compute in ("<<<M3077>>>" ++ check (runes_of_ascii "packet A {
 u8 x `d" ++ [133]%N ++ runes_of_ascii "`, // c" ++ [133]%N ++ runes_of_ascii "
}")).
Eval vm_compute in ("<<<M463>>>" ++ check (runes_of_ascii "packet chars { i64 pack , }
")).
Eval vm_compute in ("<<<M3031>>>" ++ check (runes_of_ascii "packet A {
    u8 x `x
`,
}")).
Eval vm_compute in ("<<<M2579>>>" ++ check (runes_of_ascii "packet A { char[ x ] y, }")).
Eval vm_compute in ("<<<M2597>>>" ++ check (runes_of_ascii "packet A { B { u8 x, } }")).
Eval vm_compute in ("<<<M3719>>>" ++ check (runes_of_ascii "options {
    a = 1;
}")).
Eval vm_compute in ("<<<M2645>>>" ++ check (runes_of_ascii "MetaData M { u8 x, }")).
Eval vm_compute in ("<<<M2670>>>" ++ check (runes_of_ascii "options options { }")).
Eval vm_compute in ("<<<M3070>>>" ++ check (runes_of_ascii "packet A {
}
// c" ++ [160]%N)).
Eval vm_compute in ("<<<M4506>>>" ++ check (runes_of_ascii "MetaData zchar {
}")).
Eval vm_compute in ("<<<M3138>>>" ++ check (runes_of_ascii "packet A {
}// c" ++ [6158]%N)).
Eval vm_compute in ("<<<M233>>>" ++ check (runes_of_ascii "
options { }
")).
Eval vm_compute in ("<<<M2225>>>" ++ check (runes_of_ascii "options
{ }")).
Eval vm_compute in ("<<<M1685>>>" ++ check (runes_of_ascii "options {")).
Eval vm_compute in ("<<<M2449>>>" ++ check (runes_of_ascii "trueish")).
Eval vm_compute in ("<<<M4140>>>" ++ check (runes_of_ascii "// c" ++ [133]%N ++ runes_of_ascii "
")).
Eval vm_compute in ("<<<M3099>>>" ++ check (runes_of_ascii "// c" ++ [8233]%N)).
Eval vm_compute in ("<<<M2546>>>" ++ check (runes_of_ascii "a
b")).
Eval vm_compute in ("<<<M2550>>>" ++ check (runes_of_ascii "a" ++ [12]%N ++ runes_of_ascii "b")).
Eval vm_compute in ("<<<M2684>>>" ++ check (runes_of_ascii "		")).
