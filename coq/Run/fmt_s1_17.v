From FP Require Import Lexer Parser ShowPT Digest Formatter.
From Coq Require Import String List NArith.
Import ListNotations.
Open Scope string_scope.
Set Printing Width 100000000.
Set Printing Depth 100000000.
Definition show_fres (r : fres) : string :=
  match r with
  | FOk s => "OK:" ++ sh_escaped s ""
  | FErr s => "ERR:" ++ sh_escaped s ""
  | FPanic p => "PANIC:" ++ p
  end.
Definition check (rs : list rune) : string := digest (show_fres (format_res rs)).
Definition full (rs : list rune) : string := show_fres (format_res rs).
Eval vm_compute in ("<<<M3497>>>" ++ check (runes_of_ascii "options {
    StringPrefixLenType = u8;
    ArrayPrefixLenType = u64;
    FixedStringPadFromLeft = true;
    JavaPackage = ""com.example.msg"";
    GoPackage = ""msg"";
    GoModule = ""example.com/msg"";
}
MetaData Meta {
    u32 SeqNum `sequence number`,
    char[8] Symbol `symbol`,
    zchar[5] ZSym `z symbol`,
    string Note,
    Symbol AltSymbol `alias of symbol`,
    f64 Price,
}
packet Inner {
    u8 a,
    i16 b,
    string c,
}
packet Inner2 {
    u8 a2,
    char[3] c2,
}
packet Logon {
    u8 x,
    string user,
    repeat u16 codes,
}
packet Logout {
    u16 reason,
}
packet Empty {
}
root packet Msg {
    u8 su8,
    uint8 luint8,
    u16 su16,
    uint16 luint16,
    u32 su32,
    uint32 luint32,
    u64 su64,
    uint64 luint64,
    i8 si8,
    int8 lint8,
    i16 si16,
    int16 lint16,
    i32 si32,
    int32 lint32,
    i64 si64,
    int64 lint64,
    f32 sf32,
    float32 lfloat32,
    f64 sf64,
    float64 lfloat64,
    char[6] fsplain,
    @leftPad('0') char[4] fs0,
    @rightPad('0') char[5] fs1,
    @leftPad(' ') char[6] fs2,
    @rightPad(' ') char[7] fs3,
    @leftPad('\x00') char[8] fs4,
    @rightPad('\x00') char[9] fs5,
    @leftPad() char[10] fs6,
    @rightPad() char[11] fs7,
    zchar[7] fz,
    @leftPad('0') zchar[3] fzl0,
    string s1 `doc`,
    char[] s2,
    Inner,
    Sub {
        u8 q,
        string w,
        Deep {
            u16 z,
            repeat i32 zs,
        },
    },
    repeat u8 ru8,
    repeat u16 ru16,
    repeat u32 ru32,
    repeat u64 ru64,
    repeat i8 ri8,
    repeat i16 ri16,
    repeat i32 ri32,
    repeat i64 ri64,
    repeat f32 rf32,
    repeat f64 rf64,
    repeat string rstr,
    repeat char[] rstr2,
    repeat char[3] rfs,
    repeat zchar[3] rfz,
    repeat Inner2,
    repeat Grp {
        u8 k,
        char[2] v,
    },
    SeqNum,
    SeqNum seq2,
    repeat SeqNum seqs,
    Symbol,
    AltSymbol alt,
    ZSym,
    Note,
    repeat Symbol syms,
    Price px,
    u16 MsgType,
    u32 BodyLen @lengthOf(Body),
    match MsgType as Body {
        1 : Logon,
        [2, 3] : Logout,
        7 : Logon,
        9 : Empty,
    },
    u32 Checksum @calculatedFrom(""CRC32""),
}
")).
Eval vm_compute in ("<<<M725>>>" ++ check (runes_of_ascii "packet
i8i8{
u32
T @lengthOf( MetaDataX
    )`u8 x,`
// c
// packet A { u8 x, }
, // c
As @calculatedFrom( ""abc"" )
    // trailing space 
    , @leftPad (' '
    ) @calculatedFrom(
    //
    """ ++ [128512]%N ++ runes_of_ascii """
    ) chars, // `tick` ""quote"" 'q'
zchar[255 ]zchar , Packet asx ,
// " ++ [128512]%N ++ runes_of_ascii " emoji
// packet A { u8 x, }
Z9_ charz , uint64 packetx
,
    @tag(
3
)@calculatedFrom( ""abc"")@tag( 007
) repeat BodyLength	lengthOf , }	packet	pack {
@lengthOf(rootA  )
@tag( /// triple
7
    )
@rightPad (// trailing space 
' ' )
body
// `tick` ""quote"" 'q'
// trailing space 
x_y_z
    ,
a1
{ f32 crc// `tick` ""quote"" 'q'
@lengthOf(repeatCount  ) //
, lengthOf
    int
`" ++ [28040; 24687; 31867; 22411]%N ++ runes_of_ascii "`
,
match pack as repeatCount {""1"":calculatedFrom
,
4294967296 // @lengthOf(
: charz }
, } , @tag( 255)
@lengthOf( float ) repeat i32 options1	, @lengthOf(
    msg_type) @leftPad
(
) @lengthOf(	body)
uint8x body , }root packet
    // c
    x
    { @tag(
    7) repeat f32a rootA `line1
line2`, @leftPad
    (
'\x00' )@calculatedFrom(
""it's"" )
    @lengthOf( i64_)
// packet A { u8 x, }
// " ++ [27880; 37322]%N ++ runes_of_ascii "
repeat roots { metadata // " ++ [128512]%N ++ runes_of_ascii " emoji
{ repeat calculatedFrom {f32
x , uint64 A,
    match
// " ++ [128512]%N ++ runes_of_ascii " emoji
// c
leftPad
as Pad { ""a	b""
    : leftPad , 255 //	t
:u8x , }  , } ,}  ,// c
repeat char[ 0123456789]
    //	t
    falsey,	char[ 0 ] trueish
@calculatedFrom(
    ""packet""
) ,	int16 repeatCount
, } ,
Packet @lengthOf(
int )`line1
line2`
    ,	uint16 i64_ , Header { // 50% %s
string metadata,
    // `tick` ""quote"" 'q'
    repeat Pad
    pack, crc@lengthOf( Z9_	) `" ++ [233]%N ++ runes_of_ascii "`
,
}//x
, @lengthOf( x_y_z ) @lengthOf( A ) @tag( 65535 )
int8 Logon
@calculatedFrom( ""`tick`""
) `line1
line2` , @calculatedFrom( ""packet"" ) u8x
Foo`100% of %d`,roots
@calculatedFrom(
// `tick` ""quote"" 'q'
//	t
""\n""
    ),x_y_z{ zchar[ 42// trailing space 
]
charz @lengthOf( u128
) , leftPad
`say ""hi""` ,}	,
    }
")).
Eval vm_compute in ("<<<M3660>>>" ++ check (runes_of_ascii "packet

    x_y_z
{ @calculatedFrom(// `tick` ""quote"" 'q'
  	""" ++ [128512]%N ++ runes_of_ascii """  ) uint16
a1 
,string
crc  //
, char[
0123456789
] charz`doc` 
        //x
  	,  //x

	match
	As as  packetx{ ""a\""b""
:
	MetaDataX	,""{,}"" 
:

    f32a	,42 :
metadata 	 // " ++ [27880; 37322]%N ++ runes_of_ascii "
  [	""1""
	,
    7
]
: chars ,}	,} 
MetaData 
T{ 	 //x
	  uint8

    f32a
	`
`	, 
string MetaDataX 
, char[	// 50% %s
	0123456789// @lengthOf(
    ]

MetaDataX`tab	here`
,
	}
packet//

uint8x
	{ }
    packet 
matchKey  {@tag( 00	// c

  )
	@tag(

255 

    // `tick` ""quote"" 'q'
		)	@calculatedFrom(
	//	t
    ""a	b""

)
	body

    @calculatedFrom( 
""`tick`""

)

    ,// trailing space 

@lengthOf(

    matchKey 
)
    match i8i8
as msg_type {
00  :  float ,
""{,}""

:T

}
    ,@rightPad

    (

    '\x00'  )

f64 trueish ,@lengthOf(chars
)
repeat string A	,  match Z9_ 	 // trailing space 
	as 	 /// triple
	metadata{
[

    42,  ""packet""
]	: charz
7
	: body // 50% %s

  7	: Z9_  ,

} ,

    zchar[ 00  ]
float
	`
`,

    @lengthOf(	leftPad 
// c

	)repeat x_y_z

    metadata

    , 	 // 50% %s
  	@calculatedFrom(
""a\\""

)	@calculatedFrom( 
""" ++ [28040; 24687]%N ++ runes_of_ascii """ )

    match MetaDataX
as
	Pad
	{
""// no comment"" :pack
,  }

,

    @tag(007	)
	    /// triple

	crc
{ // @lengthOf(

Z9_  { 
u128 
{repeat	repeatCount
trueish , 
As `crlf
line`

    ,
repeat char[0123456789 
    // " ++ [128512]%N ++ runes_of_ascii " emoji
]uint8x

,

string
repeatCount

    , } , repeat int16
    i64_  ,
repeat f32a Packet
	``
	,  },
}	, }

")).
Eval vm_compute in ("<<<M4354>>>" ++ check (runes_of_ascii "options {
    BodyLength = """ ++ [28040; 24687]%N ++ runes_of_ascii """
    Header = '0';
}

root packet crc {
    asx @lengthOf(crc) `" ++ [28040; 24687; 31867; 22411]%N ++ runes_of_ascii "`,
    @calculatedFrom(""x y"")
    @lengthOf(Logon)
    repeat f32a {
        i32 calculatedFrom @lengthOf(Packet) `// not a comment`,
        charz @lengthOf(u),
        match asx as As {
            ""it's"" : _x,
            ""x y"" : calculatedFrom,
            ""packet"" : Pad,
        },
        charz chars,
    },
    @leftPad(' ')
    // `tick` ""quote"" 'q'
    i8 A `line1
    line2`,
    repeat zchar[42] x,
    As `" ++ [233]%N ++ runes_of_ascii "`,
    char[] crc,
    @calculatedFrom(""`tick`"")
    Header {
        match chars as float {
            ""abc"" : matchKey,
            007 : calculatedFrom,
            // 50% %s
            ""\n"" : i64_,
            ""packet"" : i8i8,
            [10, 0123456789] : roots,
        },
        metadata repeatCount,// " ++ [128512]%N ++ runes_of_ascii " emoji
    },
}

packet o {
    u16 chars @calculatedFrom(""abc""),
    repeat int {
        uint8 len,
        // `tick` ""quote"" 'q'
        u128 asx,
        match u128 as lengthOf {
            ""it's"" : packetx,
            0123456789 : a1,
            ["""", 0123456789] : asx,
        },
    },
    char _x @lengthOf(repeatCount),
    repeat uint64 u128,
}

root packet _x {
    repeat int {
        repeat Z9_ body,
        // 50% %s
        //x
    },
}
// trailing space ")).
Eval vm_compute in ("<<<M3522>>>" ++ check (runes_of_ascii "packet lengthOf {
    @tag(3)
    asx `{ , }`,
}

root packet chars {
    @tag(0123456789)
    match int as i8i8 {
        [""" ++ [128512]%N ++ runes_of_ascii """, 65535] : Pad,
        [
            65535, 0123456789, ""a\""b"", ""a\""b"", 7,
            ""abc"", 65535, 3
        ] : repeatCount,
    },
}

options {
    chars = '\x00';
}

packet body {
    i64 o,
    @calculatedFrom("""")
    @lengthOf(int)
    match metadata as charz {
        ""`tick`"" : lengthOf,
        1 : repeatCount,
        //	t
        [""abc""] : uint8x,
        ""\n"" : Pad,
    },
    @rightPad('0')
    int64 msg_type @calculatedFrom(""\" ++ [233]%N ++ runes_of_ascii """),
    @lengthOf(MetaDataX)
    /// triple
    zchar @calculatedFrom(""a\\""),
}

packet int {
    @lengthOf(T)
    MetaDataX {
        options1 {
            /// triple
            match As as roots {
                0 : asx,
                [
                    10, """", 1, 0123456789, ""CRC32"",
                    3, ""a\\""
                ] : int,
                """" : leftPad,
                [1, 1] : int,
            },
            uint8x float,
        },
        int16 Logon `" ++ [28040; 24687; 31867; 22411]%N ++ runes_of_ascii "`,
        repeat pack {
            repeat i16 packetx ``,
            rootA string_,
        },
        zchar[0] Header `say ""hi""`,
    },
}")).
Eval vm_compute in ("<<<M4437>>>" ++ check (runes_of_ascii "packet x {
    A Foo `doc`,
    zchar[0123456789] Header `line1
        line2`,
}

packet int {
    trueish @calculatedFrom(""x y""),
}

packet metadata {
    asx @lengthOf(Packet),
    match a1 as x_y_z {
        255 : crc,
        00 : x,
        [0123456789] : MetaDataX,
        255 : x,
    },
    f64 crc `two words`,
    @tag(4294967296)
    Z9_,
    Header `crlf
        line`,
    charz Foo `" ++ [28040; 24687; 31867; 22411]%N ++ runes_of_ascii "`,
    match trueish as trueish {
        1 : chars,
        7 : calculatedFrom,
        ""a	b"" : u8x,
        65535 : msg_type,
        007 : Logon,
    },// " ++ [27880; 37322]%N ++ runes_of_ascii "
    o int,
    @calculatedFrom(""CRC32"")
    string Logon @lengthOf(trueish),
}

MetaData asx {
}

packet As {
    zchar {
        match len as zchar {
            00 : repeatCount,
            [""\n""] : rootA,
            [""a\""b"", 10] : x_y_z,
        },
    },
    @tag(0123456789)
    @tag(0)
    // " ++ [27880; 37322]%N ++ runes_of_ascii "
    @leftPad()
    repeat string MetaDataX,
    repeat zchar[10] tag,
    @calculatedFrom(""" ++ [233]%N ++ runes_of_ascii "t" ++ [233]%N ++ runes_of_ascii """)
    int @lengthOf(x),
    packetx As `100% of %d`,
    @lengthOf(packetx)
    string matchKey,
    u8x i64_ `say ""hi""`,
    i8 repeatCount,
    x_y_z @lengthOf(u),
}")).
Eval vm_compute in ("<<<M421>>>" ++ check (runes_of_ascii "root packet asx {
@tag(3 )int8 metadata `" ++ [233]%N ++ runes_of_ascii "` ,
    //x
    repeat char[] Z9_ ,	@rightPad// trailing space 
('\x00')
@lengthOf( Header )
@lengthOf(crc ) MetaDataX { u64 u128 , } , //
int16
    leftPad	, @tag( 10)
@tag( 4294967296
    ) @leftPad (' ')	repeat u16 repeatCount `100% of %d`
, @rightPad  () @tag( 0 )
match crc as chars
{
0123456789 :  BodyLength , """ ++ [128512]%N ++ runes_of_ascii """
    :	Logon, [ 10 , 255] // c
: MetaDataX
    ,	0123456789 ://	t
Packet ,""// no comment"": T , 65535
: charz,	} , match falsey
as
    //x
    u128
{
[
    """ ++ [28040; 24687]%N ++ runes_of_ascii """
,""// no comment"" ] : leftPad,[ 65535
]
:
    //
    asx
10 :u // " ++ [27880; 37322]%N ++ runes_of_ascii "
, ""{,}"" // 50% %s
: _x , }
    ,
// @lengthOf(
// trailing space 
match  As as
    MetaDataX { 0123456789
    : a1,
[ 65535,
    ""abc""
    ]://	t
tag //	t
,
    // `tick` ""quote"" 'q'
    [
""" ++ [233]%N ++ runes_of_ascii "t" ++ [233]%N ++ runes_of_ascii """,
    ""`tick`"" ,	""\" ++ [233]%N ++ runes_of_ascii """	,
    ""abc"" , ""\" ++ [233]%N ++ runes_of_ascii """ , ""packet""
    , // " ++ [27880; 37322]%N ++ runes_of_ascii "
""packet""
] : o	00 : crc
    } , } packet chars
{ @calculatedFrom( ""x y"") char[ 255 ]  crc
    // c
    `100% of %d` , @tag( // a // b
65535 ) f64
    BodyLength@calculatedFrom(
    ""CRC32"" ) ,
    }")).
Eval vm_compute in ("<<<M4063>>>" ++ check (runes_of_ascii "

  root
    packet
leftPad{
    repeat zchar[
    1 ]Foo  `crlf
line`

    ,  i8
	lengthOf , @tag(  3 )	repeat
    repeatCount
`say ""hi""` // @lengthOf(
    , 
match
    repeatCount
    as
BodyLength{	// 50% %s
  ""1"" :	metadata
    , ""1"" 
:i64_

, [
    7 
,

""\n""

    ,
	""{,}""
    ,1
	, ""a\""b"" ] :

    i64_
    ,
    7  : i8i8
    , 
}
,@calculatedFrom( 
""""

    )u8  string_  
  // trailing space 
	// " ++ [128512]%N ++ runes_of_ascii " emoji
      @calculatedFrom(
""" ++ [28040; 24687]%N ++ runes_of_ascii """ ),
float64  
  // @lengthOf(
    //	t
  Z9_
	,

    x{
repeat

packetx
//	t
    ,
    int8
As  // a // b

`line1
line2` ,u128
    {  //	t

	char[]

BodyLength @calculatedFrom(
	""a\""b"" )
,

repeat
	x_y_z
{
	match

    options1

    as charz{	/// triple

42 :

    int,

    007: float 
,	""x y""
:
leftPad

    ,
	[ ""\" ++ [233]%N ++ runes_of_ascii """  ,
1
] 
	    // packet A { u8 x, }

// `tick` ""quote"" 'q'
	: 
lengthOf ,  //	t
  }	, }
	, },

uint8x 
`{ , }`

    , } ,lengthOf 
@lengthOf(
    zchar )
,

char[]
crc

    `// not a comment`	,
}  // @lengthOf(
")).
Eval vm_compute in ("<<<M970>>>" ++ check (runes_of_ascii "packet x {
    @tag(	1 )// " ++ [27880; 37322]%N ++ runes_of_ascii "
match crc as options1 {
    ""x y"" : // trailing space 
Packet ,
// 50% %s
// `tick` ""quote"" 'q'
[ """"] : a1,
// 50% %s
// a // b
7
    : Packet
    ,
} ,
@leftPad ( ' ' )zchar[ 7
] asx ,
@rightPad
// " ++ [128512]%N ++ runes_of_ascii " emoji
// trailing space 
('\x00')
    @rightPad ( ' ' )
//	t
//x
repeat// `tick` ""quote"" 'q'
leftPad
{ tag { repeat uint64 charz	,} , }, @tag( 4294967296) len body `it's`
    // " ++ [27880; 37322]%N ++ runes_of_ascii "
    , char[
    3
] trueish
@calculatedFrom( ""CRC32""
)
    ,}  packet A { match Pad as Z9_ { ""packet"" : f32a , ""{,}""
: f32a // a // b
7 :
    _x
,00 :  repeatCount ,
    // c
    4294967296
: asx
, ""CRC32"" : u128
},
// trailing space 
// " ++ [27880; 37322]%N ++ runes_of_ascii "
u16 float  ``
, @tag( 1 )
    // c
    @tag(65535
) @rightPad ( )repeat
uint64
// c
/// triple
Header ,
    u64 repeatCount
    , match //	t
asx as float
{ // a // b
[
    3	]
    :
MetaDataX ,
}
, match repeatCount
as
calculatedFrom
{	""" ++ [233]%N ++ runes_of_ascii "t" ++ [233]%N ++ runes_of_ascii """	: calculatedFrom [""" ++ [28040; 24687]%N ++ runes_of_ascii """] : falsey ,
}
    ,
}")).
Eval vm_compute in ("<<<M821>>>" ++ check (runes_of_ascii "options{
    // a // b
    }  packet // c
crc{ } packet // 50% %s
x {
@lengthOf(// " ++ [27880; 37322]%N ++ runes_of_ascii "
calculatedFrom
// packet A { u8 x, }
// @lengthOf(
)match Packet as charz{[ """" ] :f32a
    , [ // 50% %s
""a\""b"" ] : MetaDataX//	t
, 7 : crc, 10: metadata	, 7: BodyLength ,
    ""packet"" :
    string_}
, @lengthOf(options1  ) repeat Header `// not a comment`
    // " ++ [27880; 37322]%N ++ runes_of_ascii "
    , // `tick` ""quote"" 'q'
@calculatedFrom(""" ++ [128512]%N ++ runes_of_ascii """	)
    int64 trueish // `tick` ""quote"" 'q'
@lengthOf(a1 ) `tab	here` ,
    int
    @lengthOf( _x
)
    ,
    match
trueish as body {0123456789 :
    metadata , 00
    : asx
    , 0123456789
: falsey // 50% %s
, 4294967296:MetaDataX
10 :charz , [ 4294967296
//	t
// `tick` ""quote"" 'q'
]: calculatedFrom,} ,  char[] Foo
, } options { }	packet u8x
    {
repeat  crc
    //x
    , u8x
@lengthOf(packetx
    )
`" ++ [28040; 24687; 31867; 22411]%N ++ runes_of_ascii "`	, zchar[4294967296
// 50% %s
//x
] Header  @lengthOf(  T  ) `tab	here`
,
    }
")).
Eval vm_compute in ("<<<M4263>>>" ++ check (runes_of_ascii "
root	//

packet // " ++ [27880; 37322]%N ++ runes_of_ascii "
  u  { leftPad{
    lengthOf T

`say ""hi""` 
, rootA	u128`say ""hi""`//x
  ,
}
, }
root

packet  // packet A { u8 x, }
f32a	{ 
        //
	@tag( 7) match
	uint8x 
// c
	  as
i64_{
	[ 7

, ""it's""	, ""a\\""	, 65535	]: int ,
255
    :
    _x

,
""x y""
    :
BodyLength	,
}

,repeat  u32
    i64_ ,  uint8x{
i8

leftPad  `a\` , } ,	@leftPad(
)

@lengthOf(
    matchKey
	)
	@rightPad 
(
	' '  )zchar[ 42 ]Header // trailing space 

	@lengthOf(
_x ) , i64
	repeatCount, 
}	//x
      packet 
roots 
{

    a1
`tab	here`
    , }  options {	Z9_
=
    // @lengthOf(
	// " ++ [27880; 37322]%N ++ runes_of_ascii "
    char[] 
    //x
    roots =

    int32

    matchKey  =
""// no comment"";
uint8x=

""packet""
	;} 
    // 50% %s
      MetaData
	_x
{ o

    lengthOf
,  i8
    metadata

,
char[
    0123456789

    ]
o,

i32
	// @lengthOf(
  _x ,
zchar[ 10]
	MetaDataX
,} ")).
Eval vm_compute in ("<<<M4280>>>" ++ check (runes_of_ascii "

  packet

    //	t
	tag	{
	@tag( 	 // trailing space 
	  1 )
@calculatedFrom(	""abc""
)
    char[]Logon ,  char[] 
Logon  @calculatedFrom(
""a\\""  ) ,
uint8x
    { 
    // a // b
	//
	char[] float ,

    repeat
char[] zchar  ,match

f32a
    as

f32a
	{ ""abc"" : options1	,
	007
    :  _x 
10 
        // c
// packet A { u8 x, }
	:

BodyLength , 
}
    , }	, @lengthOf(f32a )

@lengthOf( 
Header )

    @lengthOf(
	msg_type )
	repeat Logon

    i64_
	,

@calculatedFrom(
    """ ++ [28040; 24687]%N ++ runes_of_ascii """	)  repeat
	int
roots
    ,	/// triple

  @lengthOf(	zchar
    )

i16

    stringy@calculatedFrom(
""it's""
    )
`u8 x,`
,  @calculatedFrom(  // @lengthOf(
  ""{,}""

) match string_ as	MetaDataX	{
[""// no comment"" //x
      ,

    007  ] : i8i8
	, [
	1// c
  ,""packet"" ]
    : trueish ,}
	,
    //

/// triple
	}

")).
Eval vm_compute in ("<<<M575>>>" ++ check (runes_of_ascii "packet
// @lengthOf(
// @lengthOf(
BodyLength { @tag(255)
o @calculatedFrom( """" ) ,  zchar[ 1
] crc@lengthOf( // `tick` ""quote"" 'q'
BodyLength
    ) ,
    repeat zchar `100% of %d` ,
    u64 Foo
// 50% %s
// trailing space 
,
@rightPad
(
    '\x00' ) @lengthOf(falsey ) int64 trueish
    @lengthOf( chars ) `say ""hi""` ,
int@calculatedFrom(	""a	b"" ) `u8 x,` , match repeatCount as repeatCount {
    42: // c
msg_type [  ""a	b"" ,
42 ]: Logon , ""packet"": uint8x
// packet A { u8 x, }
// " ++ [128512]%N ++ runes_of_ascii " emoji
, 7
: // packet A { u8 x, }
u8x
    ,
    // a // b
    ""\" ++ [233]%N ++ runes_of_ascii """ : metadata , },	@leftPad
( ' '
    //	t
    )
match charz as _x
    { [ """ ++ [233]%N ++ runes_of_ascii "t" ++ [233]%N ++ runes_of_ascii """ , ""abc"" /// triple
]//x
: Packet
,
    ""a\""b"":	MetaDataX [ ""CRC32"",
// trailing space 
// " ++ [128512]%N ++ runes_of_ascii " emoji
""// no comment""	] : uint8x, }  , }
")).
Eval vm_compute in ("<<<M4387>>>" ++ check (runes_of_ascii "  MetaData
    crc
{	} // c
    	packet
	// `tick` ""quote"" 'q'
	  // " ++ [128512]%N ++ runes_of_ascii " emoji
  Header

    { 
calculatedFrom
	matchKey `" ++ [233]%N ++ runes_of_ascii "`,
    @leftPad	(
'\x00')
i64 	 // a // b

  Logon,@tag(
0

)

    char[
4294967296 
] i8i8
, 
@tag(
    255
	)

char zchar  //	t

	@calculatedFrom(

    ""// no comment""
    )	, 
@lengthOf(

asx //

	) 
float ,@calculatedFrom(
    """ ++ [28040; 24687]%N ++ runes_of_ascii """) repeat int32 As	//	t

  , 
zchar
    `" ++ [28040; 24687; 31867; 22411]%N ++ runes_of_ascii "` 	 // c
    ,  // @lengthOf(
  u32

_x@calculatedFrom(
	""a\\""

)`u8 x,`	,

    @calculatedFrom( 
""\n""
	)
	char[] BodyLength	// 50% %s

	`" ++ [233]%N ++ runes_of_ascii "`

    ,

    } root
packet chars

    {

zchar[
00  ]
	Z9_,

}
options { i8i8=
	10  A  = 

//
  	// " ++ [27880; 37322]%N ++ runes_of_ascii "
' ' 
	    //	t
	//	t
  ;float
=

'0'
	msg_type
= ""x y""; 
leftPad

    =
' '; }
")).
Eval vm_compute in ("<<<M4400>>>" ++ check (runes_of_ascii "  packet 
    //x

  Foo	{
	BodyLength body `" ++ [28040; 24687; 31867; 22411]%N ++ runes_of_ascii "`  ,	match calculatedFrom

    as	// @lengthOf(
_x

{42
	:  //
    zchar	,

    },
leftPad  
      // @lengthOf(
      @calculatedFrom(""a	b"" ) `two words`

    ,zchar[ 3]lengthOf , repeat float64
	Pad

,
repeat
    tag {

char[] lengthOf

    `// not a comment`
, Foo {uint8x

roots 
,
u8x  @calculatedFrom(

    ""`tick`""
)// `tick` ""quote"" 'q'
	`100% of %d`

,
repeat
	Packet  // " ++ [27880; 37322]%N ++ runes_of_ascii "

{
	zchar[  0
	]  As
@calculatedFrom( 
    // c
	""" ++ [128512]%N ++ runes_of_ascii """
        // " ++ [128512]%N ++ runes_of_ascii " emoji
    )
	,
	} , roots
    @calculatedFrom(

""x y""	// 50% %s
	) 
, }	, } , _x

    @calculatedFrom(""`tick`"")
    `{ , }` ,  // packet A { u8 x, }
      @rightPad  ( ' ') uint64
	x_y_z
	,
}

")).
Eval vm_compute in ("<<<M1010>>>" ++ check (runes_of_ascii "// `tick` ""quote"" 'q'
MetaData  x{ zchar[
    3	] // c
matchKey , } MetaData
As {
    char[]x_y_z `two words` , } root packet x
{ i8 Pad @calculatedFrom( ""1"" // packet A { u8 x, }
) `" ++ [233]%N ++ runes_of_ascii "`,
    @lengthOf(chars // " ++ [27880; 37322]%N ++ runes_of_ascii "
)len Z9_ , @lengthOf( Foo )	char x_y_z @lengthOf( x_y_z)// trailing space 
, // " ++ [27880; 37322]%N ++ runes_of_ascii "
@leftPad
    ( '0' )
    x  @calculatedFrom(""a\\"" ) ,
string
Pad , char[ 10]
//x
// " ++ [27880; 37322]%N ++ runes_of_ascii "
Packet
, @leftPad( '\x00' // c
) stringy@lengthOf( matchKey )	`// not a comment` , @calculatedFrom(// trailing space 
""// no comment""
    ) f32
    stringy@calculatedFrom( ""1"" )	, u64
u
    // 50% %s
    ,  match
uint8x	as Header
    {	[ 0123456789
    , 00 ]
    // 50% %s
    : MetaDataX, } , }")).
Eval vm_compute in ("<<<M3476>>>" ++ check (runes_of_ascii "// top
options // c0
{
    // c1
LittleEndian = true // c4a
  // c4b
; // c5
StringPrefixLenType // c6a
  // c6b
= u32 ; // c9
FixedStringPadFromLeft // c10a
  // c10b
= // c11
false ; FixedStringPadChar
    // c14
= // c15a
  // c15b
'0' ;
    // c17
} // c18a
  // c18b
packet // c19
Party
    // c20
{ // c21
int16 Acct // c23a
  // c23b
, }
    // c25
packet Quote
    // c27
{
    // c28
} // c29
root // c30a
  // c30b
packet
    // c31
Order // c32
{ // c33
string
    // c34
Side2 // c35a
  // c35b
, repeat // c37
string // c38a
  // c38b
OrderId // c39a
  // c39b
, repeat // c41
string venue , // c44
Quote , // c46a
  // c46b
} // c47a
  // c47b
")).
Eval vm_compute in ("<<<M221>>>" ++ check (runes_of_ascii "packet
uint8x
    // a // b
    {body
,
i64 uint8x
@calculatedFrom(""`tick`""
// @lengthOf(
//
)
`u8 x,`
, match
    _x
as Z9_{ [  10	, 00 ,42
//
// " ++ [128512]%N ++ runes_of_ascii " emoji
,	""\n"" ,42
, ""`tick`"" ]:x  } ,@lengthOf( metadata
)  zchar[  00 ]	charz @calculatedFrom( ""packet"" )	`` , A
{repeat pack {a1 @lengthOf( i64_) `" ++ [28040; 24687; 31867; 22411]%N ++ runes_of_ascii "`, packetx @lengthOf(
body) `100% of %d`
, repeat char[
255// c
] a1
    , // trailing space 
o rootA`line1
line2` , }
    , }	, uint8x{
crc @calculatedFrom(
    ""x y""  ) , } ,  u16 MetaDataX // " ++ [128512]%N ++ runes_of_ascii " emoji
@lengthOf( f32a ) ,@lengthOf(
// @lengthOf(
// 50% %s
i64_ ) int8// 50% %s
f32a , @calculatedFrom(""CRC32"") string f32a
    , } //x")).
Eval vm_compute in ("<<<M649>>>" ++ check (runes_of_ascii "MetaData Packet // @lengthOf(
{
calculatedFrom
    msg_type ,
    char[ 42
]
    u8x , //x
} packet body{
    } packet i64_	{ @calculatedFrom(
    ""// no comment"" ) a1
`" ++ [233]%N ++ runes_of_ascii "`,
}packet BodyLength{charz @lengthOf( chars ) , @calculatedFrom(
""abc"" ) repeat  u32 falsey ,
    @calculatedFrom( ""a	b"" )	@lengthOf( T
    // " ++ [27880; 37322]%N ++ runes_of_ascii "
    )
f32 A@lengthOf( /// triple
packetx)
`// not a comment`
// " ++ [128512]%N ++ runes_of_ascii " emoji
//x
, @rightPad
    // packet A { u8 x, }
    ( )metadata `// not a comment` , repeat repeatCount f32a	,@tag(007
)
@calculatedFrom(
    ""{,}"" )
    //
    string
    // `tick` ""quote"" 'q'
    options1, int16 zchar	, }
")).
Eval vm_compute in ("<<<M3445>>>" ++ check (runes_of_ascii "packet u128 // c1a
  // c1b
{ u8 // c3a
  // c3b
a // c4a
  // c4b
, } // c6a
  // c6b
root packet
    // c8
Msg // c9a
  // c9b
{ // c10a
  // c10b
u8 k
    // c12
, // c13a
  // c13b
u24 // c14a
  // c14b
{ // c15
u8 // c16
Hi // c17a
  // c17b
, // c18a
  // c18b
u16
    // c19
Lo // c20a
  // c20b
, // c21a
  // c21b
} // c22
, // c23
repeat // c24a
  // c24b
i24 // c25a
  // c25b
{
    // c26
u32
    // c27
q // c28a
  // c28b
,
    // c29
} // c30a
  // c30b
, // c31a
  // c31b
u128 // c32a
  // c32b
, u16 float32x , // c36a
  // c36b
string
    // c37
s // c38
, }
    // c40
")).
Eval vm_compute in ("<<<M3513>>>" ++ check (runes_of_ascii "
packet
pack// " ++ [27880; 37322]%N ++ runes_of_ascii "

	{
	zchar[ 007 ]chars
, int {

char[]  asx
    `two words`,zchar[ 42

    ]

a1`crlf
line` 
,
    tag Packet,

tag

    @lengthOf(i8i8)
`crlf
line`

, }  ,	uint16
Packet `two words` ,
    @calculatedFrom(  ""abc"" 
)@calculatedFrom(

    // c
// " ++ [128512]%N ++ runes_of_ascii " emoji
    	""" ++ [28040; 24687]%N ++ runes_of_ascii """  )// `tick` ""quote"" 'q'
  @lengthOf( MetaDataX)

    char[
7
	]roots@lengthOf( 
matchKey)

    ,  } options{
tag=
	'0' packetx

    =
""packet""
;  matchKey = char[	3

    ] ;MetaDataX =true
	}
root	packet repeatCount  {
	T @lengthOf( int	) // @lengthOf(
      ,
} ")).
Eval vm_compute in ("<<<M195>>>" ++ check (runes_of_ascii "options // a // b
{
}
    root
    packet	A{
    @tag( 00 )
int64 u8x
,// @lengthOf(
@calculatedFrom( ""a\""b"" )// packet A { u8 x, }
repeat
    crc
    , @tag(
    10
) x_y_z , char[] u`line1
line2`	, }
    root packet leftPad { float
@lengthOf(
packetx )	, match msg_type
as
    // `tick` ""quote"" 'q'
    matchKey{ [ ""it's"" , ""x y"",
1 ] // " ++ [128512]%N ++ runes_of_ascii " emoji
:i8i8 , [ ""a	b""
, 42
// `tick` ""quote"" 'q'
// @lengthOf(
,
    // packet A { u8 x, }
    00 ] :
    string_// c
,  """ ++ [28040; 24687]%N ++ runes_of_ascii """ :asx,} ,char[ // a // b
0123456789
    ] roots  `say ""hi""` , }
// " ++ [27880; 37322]%N ++ runes_of_ascii "
")).
Eval vm_compute in ("<<<M1143>>>" ++ check (runes_of_ascii "MetaData stringy
{ i32 leftPad `" ++ [233]%N ++ runes_of_ascii "`
, u32 crc ,	x_y_z Z9_  `crlf
line`,
Header int ,uint16// a // b
charz,
    } // @lengthOf(
root packet len{ _x lengthOf, uint8x
@calculatedFrom( """ ++ [128512]%N ++ runes_of_ascii """
    // a // b
    ) ,@rightPad ('\x00'
    )	@calculatedFrom(""" ++ [128512]%N ++ runes_of_ascii """	)
@leftPad
    (
    '0'
    ) repeat crc {
// packet A { u8 x, }
// trailing space 
char[
007 ] BodyLength ,  charz @calculatedFrom( ""a	b"" )`{ , }` , uint16 matchKey
    // `tick` ""quote"" 'q'
    @calculatedFrom( ""it's""  ) // @lengthOf(
,
    /// triple
    } , }
")).
Eval vm_compute in ("<<<M359>>>" ++ check (runes_of_ascii "root packet leftPad { @calculatedFrom( ""1""
    // " ++ [128512]%N ++ runes_of_ascii " emoji
    )
@lengthOf(	stringy) @calculatedFrom(
""it's"" )x @lengthOf(u)
    `doc` , @leftPad() repeat i64_ {packetx `{ , }`  ,
    }	,
repeat u128
    { repeat matchKey
, zchar[ 7 // trailing space 
]matchKey
, // " ++ [27880; 37322]%N ++ runes_of_ascii "
i8
Packet@calculatedFrom( ""1""  ),
} , // c
char[]
int
    @lengthOf(
x_y_z  ) , // a // b
}MetaData
Logon { u64 falsey
,char[ 3 ] T , stringy float , char[ 7] Pad
    , zchar[0
]
    // @lengthOf(
    BodyLength ,}

")).
Eval vm_compute in ("<<<M768>>>" ++ check (runes_of_ascii "packet zchar{
    char[
7] i64_ `tab	here`,
    @lengthOf(	u128
    )
    // " ++ [27880; 37322]%N ++ runes_of_ascii "
    @calculatedFrom(
// packet A { u8 x, }
//x
""" ++ [233]%N ++ runes_of_ascii "t" ++ [233]%N ++ runes_of_ascii """
    )
    @calculatedFrom( """ ++ [233]%N ++ runes_of_ascii "t" ++ [233]%N ++ runes_of_ascii """  )
    calculatedFrom
lengthOf `doc`	,char len ,match  int as
Pad{ ""a\\"" : falsey ,	255 :lengthOf ,},	match
rootA
as Foo  { 42 :
zchar [""`tick`""  ,
""{,}""
/// triple
// @lengthOf(
] : stringy,}
    , char[ 00 ] int	@lengthOf( u128 )	,	}
packet T
{ @leftPad (
// " ++ [27880; 37322]%N ++ runes_of_ascii "
// @lengthOf(
'0'
)repeat
pack , }")).
Eval vm_compute in ("<<<M791>>>" ++ check (runes_of_ascii "options //x
{ msg_type
= ""it's"" roots=10 ;leftPad
/// triple
// " ++ [27880; 37322]%N ++ runes_of_ascii "
= string	;  } packet tag { repeat
    leftPad { i16 i64_ , char[]T @calculatedFrom( ""a\""b"" ) ,
} ,}options {
// 50% %s
// " ++ [128512]%N ++ runes_of_ascii " emoji
asx  = string;
body /// triple
='0' ;  } packet
// " ++ [128512]%N ++ runes_of_ascii " emoji
// " ++ [128512]%N ++ runes_of_ascii " emoji
i8i8 { // c
match msg_type
    as
    asx {""it's"" : falsey // `tick` ""quote"" 'q'
,[ 4294967296 ,3
// trailing space 
// c
] :
    tag
    , """ ++ [233]%N ++ runes_of_ascii "t" ++ [233]%N ++ runes_of_ascii """
: MetaDataX, 0 :
packetx , } ,
}")).
Eval vm_compute in ("<<<M3860>>>" ++ check (runes_of_ascii "packet MDSnapshotZZ {
    // c2
    u8 a,// c5a
    // c5b
}// c6

packet OrderACK {
    // c9
    u16 b,// c12
}

packet HTTPServerInfo {
    string s,// c19
}// c20a

// c20b
root packet FIXMsg {
    // c24a
    // c24b
    u8 KType,// c27
    MDSnapshotZZ,
    repeat OrderACK,// c32a
    // c32b
    match KType as Body {
        1 : HTTPServerInfo,
        // c41
        2 : OrderACK,
        // c45
    },
}// c48a
// c48b")).
Eval vm_compute in ("<<<M380>>>" ++ check (runes_of_ascii "
options
    {
    Foo= 00;zchar= 65535
    }
    root packet  tag { } // " ++ [27880; 37322]%N ++ runes_of_ascii "
MetaData
    MetaDataX { zchar[10
/// triple
//	t
] metadata  ,
uint16
    // packet A { u8 x, }
    Z9_
    //	t
    `line1
line2` , x_y_z lengthOf // " ++ [128512]%N ++ runes_of_ascii " emoji
`
`,uint16 BodyLength, char[] BodyLength	`// not a comment` ,}
packet uint8x{
    stringy , }
    // `tick` ""quote"" 'q'
    root
    packet u128 {repeat
    f32	Packet,
}
")).
Eval vm_compute in ("<<<M1376>>>" ++ check (runes_of_ascii "packet leftPad {repeat  matchKey // @lengthOf(
Pad , char[]	x_y_z @calculatedFrom(
    ""CRC32""
)
`100% of %d`
, repeat char[]
    // " ++ [128512]%N ++ runes_of_ascii " emoji
    Logon ,
@calculatedFrom(""`tick`""
) uint32 x
    // @lengthOf(
    , i8 u `// not a comment` ,
// c
// a // b
uint64 a1
,As
@lengthOf(
a1) `{ , }`, char[ 7 ]	o , repeat
// " ++ [27880; 37322]%N ++ runes_of_ascii "
// packet A { u8 x, }
len , body
    Logon , }  root	packet uint8x {
}
")).
Eval vm_compute in ("<<<M3791>>>" ++ check (runes_of_ascii "packet

falsey
    {  repeat u8
    Logon, char[]

f32a  , 
tag	rootA
,
//
@rightPad
    ( 
' ' // `tick` ""quote"" 'q'
  ) @tag(
007) match o

    as

_x{ [  1
, 
""a	b""  ,
""1"",
    00
,
7 ,
    // `tick` ""quote"" 'q'

  """ ++ [233]%N ++ runes_of_ascii "t" ++ [233]%N ++ runes_of_ascii """,

7  ,
00 ] :	Foo  ,
""\" ++ [233]%N ++ runes_of_ascii """ :

    matchKey
,  },

    @rightPad (

'\x00'

)
string msg_type

,
repeat
    u8x

    ,repeat BodyLength

    ,}

")).
Eval vm_compute in ("<<<M406>>>" ++ check (runes_of_ascii "// c
packet string_{x @lengthOf( charz ) `u8 x,` , } options { T // packet A { u8 x, }
= char[ 3
] ;
a1 =65535
    //x
    ;msg_type  = string ;
MetaDataX //	t
= uint8
; } MetaData // trailing space 
u /// triple
{ char[ 1
] repeatCount `line1
line2`,f32 i8i8, // " ++ [128512]%N ++ runes_of_ascii " emoji
char[]
matchKey``// " ++ [27880; 37322]%N ++ runes_of_ascii "
,// c
stringy Foo,zchar[ 007] i8i8`doc`	, u8x
i64_ `" ++ [233]%N ++ runes_of_ascii "`
,  }
")).
Eval vm_compute in ("<<<M4115>>>" ++ check (runes_of_ascii "
MetaData 
options1

    { u16

    stringy 
,
    }
	packet

stringy {	// packet A { u8 x, }
	  zchar 
	    // " ++ [128512]%N ++ runes_of_ascii " emoji
  @calculatedFrom(
""`tick`""
)
    ,@rightPad (
    '\x00'
	) 
@leftPad(
	'\x00' )@leftPad 
( '\x00'
	)rootA @calculatedFrom( 
""" ++ [28040; 24687]%N ++ runes_of_ascii """  )	, @leftPad  ( 
'\x00')char[
    0

] u@calculatedFrom(	""`tick`"" ) ,	// a // b

  }
")).
Eval vm_compute in ("<<<M346>>>" ++ check (runes_of_ascii "options{  float=
00 stringy
    =char[] // c
lengthOf = 0123456789
    ; rootA
// " ++ [128512]%N ++ runes_of_ascii " emoji
// 50% %s
= ""\" ++ [233]%N ++ runes_of_ascii """ ; //
MetaDataX =
    int8 }
root	packet tag
{@rightPad (
)
    @tag( 10)
@calculatedFrom(	""it's"" )zchar[ 00
] tag
    , }
// `tick` ""quote"" 'q'
// trailing space 
MetaData roots
{} options{
falsey =zchar[ 42]
;
}
// " ++ [27880; 37322]%N ++ runes_of_ascii "
")).
Eval vm_compute in ("<<<M3805>>>" ++ check (runes_of_ascii "
packet	T
{ } MetaData MetaDataX{
matchKey
	trueish ,

}

options

{
tag

=

    false ;

    zchar =
    i64; //
	lengthOf = 007 ;
T	=f32
Pad
	=  
      //x

	// `tick` ""quote"" 'q'
  	i32 ;
}
	packet

uint8x  {
match
o
    as
u128
{ ""a\""b"" 
: 
Pad ,	},

} 
options  {
	Logon  // " ++ [128512]%N ++ runes_of_ascii " emoji

  = string ; 
} ")).
Eval vm_compute in ("<<<M479>>>" ++ check (runes_of_ascii "root packet packetx {	} root packet u8x// " ++ [27880; 37322]%N ++ runes_of_ascii "
{
u
repeatCount `u8 x,` ,repeat
    uint16
crc,@tag( 7 ) char[] i8i8
@lengthOf( packetx )
`{ , }`, @lengthOf( Logon// @lengthOf(
)
// `tick` ""quote"" 'q'
//x
char[] pack @calculatedFrom( ""a\""b"" )
    , repeat metadata Foo ,
u8x // " ++ [27880; 37322]%N ++ runes_of_ascii "
lengthOf	,  A Header , }
")).
Eval vm_compute in ("<<<M3622>>>" ++ check (runes_of_ascii "options {
    LittleEndian = true;
    StringPrefixLenType = u32;
    FixedStringPadFromLeft = false;
    FixedStringPadChar = '0';
}

packet Party {
    int16 Acct,
}

packet Quote {
}

root packet Order {
    string Side2,
    repeat string OrderId,
    repeat string venue,
    Quote,
}")).
Eval vm_compute in ("<<<M396>>>" ++ check (runes_of_ascii "// @lengthOf(
options
{ // " ++ [128512]%N ++ runes_of_ascii " emoji
Logon
=int8
    ;
Pad= 10  ; _x
=string } root packet  u128 { // c
uint8
    tag
    `100% of %d`
// trailing space 
// @lengthOf(
,f32a x_y_z `100% of %d` ,@rightPad ( )int64 stringy ,
    /// triple
    u128 @calculatedFrom( ""1"" ), }
//
")).
Eval vm_compute in ("<<<M1572>>>" ++ check (runes_of_ascii "// 50% %s
packet	a1
    { zchar[
// a // b
// 50% %s
007]
T `it's`
    ,@rightPad
    // a // b
    (
'\x00' '\x00')
    o repeatCount , }  packet Logon {  }packet	Logon //x
{ repeat // " ++ [128512]%N ++ runes_of_ascii " emoji
uint16 u128
    //
    `a\`,
falsey
@calculatedFrom(""packet"" ) ,
    } 	 ")).
Eval vm_compute in ("<<<M1522>>>" ++ check (runes_of_ascii "// 50% %s
packet	a1 a1
    { zchar[
// a // b
// 50% %s
007]
T `it's`
    ,@rightPad
    // a // b
    (
'\x00')
    o repeatCount , }  packet Logon {  }packet	Logon //x
{ repeat // " ++ [128512]%N ++ runes_of_ascii " emoji
uint16 u128
    //
    `a\`,
falsey
@calculatedFrom(""packet"" ) ,
    } 	 ")).
Eval vm_compute in ("<<<M3428>>>" ++ check (runes_of_ascii "
packet
    MDSnapshotZZ
{
u8

    a,
    }	packet

OrderACK{
u16  b	,}
packet
HTTPServerInfo {

string
	s 
, }root
packet

FIXMsg{u8  KType
,MDSnapshotZZ  ,
repeat 
OrderACK  ,

    match KType
as	Body
	{
1

: HTTPServerInfo ,

2 :
OrderACK ,},
    }
")).
Eval vm_compute in ("<<<M1593>>>" ++ check (runes_of_ascii "// 50% %s
packet	a1
    { zchar[
// a // b
// 50% %s
007]
T `it's`
    ,@rightPad
    // a // b
    (
'\x00')
    o repeatCount } ,  packet Logon {  }packet	Logon //x
{ repeat // " ++ [128512]%N ++ runes_of_ascii " emoji
uint16 u128
    //
    `a\`,
falsey
@calculatedFrom(""packet"" ) ,
    } 	 ")).
Eval vm_compute in ("<<<M1596>>>" ++ check (runes_of_ascii "// 50% %s
packet	a1
    { zchar[
// a // b
// 50% %s
007]
T `it's`
    ,@rightPad
    // a // b
    (
'\x00')
    o repeatCount ,   packet Logon {  }packet	Logon //x
{ repeat // " ++ [128512]%N ++ runes_of_ascii " emoji
uint16 u128
    //
    `a\`,
falsey
@calculatedFrom(""packet"" ) ,
    } 	 ")).
Eval vm_compute in ("<<<M128>>>" ++ check (runes_of_ascii "options
//x
/// triple
{ a1
=
    ' ';
stringy=
'\x00'string_
    = ' ' ; lengthOf
    = 7
;
}packet Pad {
    uint32 As`a\`  , }
//	t
/// triple
packet a1 /// triple
{ @calculatedFrom( ""`tick`"") i16 body `tab	here` ,	}	options { As
    = true // a // b
}")).
Eval vm_compute in ("<<<M3389>>>" ++ check (runes_of_ascii "// top
options // c0a
  // c0b
{ // c1
LittleEndian = // c3
true // c4
;
    // c5
}
    // c6
root // c7
packet P // c9
{
    // c10
u16 a // c12
,
    // c13
u32
    // c14
Sum // c15
@calculatedFrom( ""CRC32"" // c17
)
    // c18
, // c19
}
    // c20
")).
Eval vm_compute in ("<<<M1258>>>" ++ check (runes_of_ascii "/// triple
packet MetaDataX {@lengthOf(	u8x	) @lengthOf(	BodyLength
    // " ++ [128512]%N ++ runes_of_ascii " emoji
    ) @leftPad
( ' ') repeat
    uint64 metadata
`" ++ [28040; 24687; 31867; 22411]%N ++ runes_of_ascii "` ,  u32 rootA
`100% of %d`,
} MetaData A {uint8 Packet `doc` , } options
    // `tick` ""quote"" 'q'
    { }
")).
Eval vm_compute in ("<<<M3830>>>" ++ check (runes_of_ascii "root packet zchar {
    @calculatedFrom(""\" ++ [233]%N ++ runes_of_ascii """)
    @rightPad()
    @rightPad('\x00')
    int8 Foo,
}

packet calculatedFrom {
    u8x `doc`,
}

MetaData x {
}

options {
    repeatCount = ""x y"";
    leftPad = """ ++ [128512]%N ++ runes_of_ascii """
    tag = uint8
}
//	t")).
Eval vm_compute in ("<<<M623>>>" ++ check (runes_of_ascii "options
{
    o=
i16 ; crc  =true ; zchar
= ""\" ++ [233]%N ++ runes_of_ascii """ ; u128= """ ++ [128512]%N ++ runes_of_ascii """ ;}
    // a // b
    MetaData
Logon
{ string options1`doc`	, char[//
007] int`" ++ [233]%N ++ runes_of_ascii "`, } MetaData pack
{
x rootA
,	roots u8x `crlf
line` ,
a1 Z9_ `line1
line2` , }
")).
Eval vm_compute in ("<<<M1158>>>" ++ check (runes_of_ascii "// " ++ [128512]%N ++ runes_of_ascii " emoji
MetaData
    T {	i64_ crc `" ++ [233]%N ++ runes_of_ascii "`
    , // " ++ [27880; 37322]%N ++ runes_of_ascii "
rootA metadata , }
    MetaData falsey {
}
options{ _x	=""a\\"" zchar=
    // " ++ [128512]%N ++ runes_of_ascii " emoji
    int16 ; Logon=""a\""b""; options1 = char[ 10 ]; pack = // @lengthOf(
1 ;  }
")).
Eval vm_compute in ("<<<M3438>>>" ++ check (runes_of_ascii "packet Logon {
    string user,
}
root packet Frame {
    u8 K,
    match K as Body {
        1 : Logon,
        2 : Logout,
    },
    Tail,
}
packet Logout {
    u16 reason,
}
packet Tail {
    u32 crc,
}
")).
Eval vm_compute in ("<<<M1363>>>" ++ check (runes_of_ascii "
MetaData
Foo
{
    }MetaData leftPad {// c
uint8 repeatCount `{ , }`	,
    }
// " ++ [27880; 37322]%N ++ runes_of_ascii "
// trailing space 
options { asx= ""CRC32"";
MetaDataX =	char[ 4294967296 ]	; _x = '0' ;
    trueish =	""a	b""; }
")).
Eval vm_compute in ("<<<M839>>>" ++ check (runes_of_ascii "//
options { MetaDataX =
    /// triple
    """ ++ [28040; 24687]%N ++ runes_of_ascii """ ;
chars  =
// 50% %s
//
f64 options1 =42} root
    packet
    roots{ u8
    metadata`tab	here`, BodyLength @lengthOf( body
    ) //
, }")).
Eval vm_compute in ("<<<M252>>>" ++ check (runes_of_ascii "MetaData
    u128
{ u32 packetx, falsey tag ,
    char[255 // a // b
]
leftPad ,	asx
    metadata
    `a\` , Foo Z9_,char[ 00
] _x
    `line1
line2` ,} MetaData
metadata { }")).
Eval vm_compute in ("<<<M4029>>>" ++ check (runes_of_ascii "options {
    string_ = ' '
    Header = i8;
    msg_type = zchar[00];
    float = true
    string_ = '\x00';
}

MetaData zchar {
    zchar chars,
}// `tick` ""quote"" 'q'")).
Eval vm_compute in ("<<<M3917>>>" ++ check (runes_of_ascii "packet a1 {
}

MetaData u {
}

options {
}

MetaData msg_type {
    Logon BodyLength,
    i8i8 BodyLength `100% of %d`,
    string Packet,
}

options {
    //	t
}")).
Eval vm_compute in ("<<<M3634>>>" ++ check (runes_of_ascii "
packet
chars { @tag(//	t
    007 )
    roots zchar,
} 
packet
MetaDataX 
{ 
}
    // 50% %s
  	// packet A { u8 x, }
  MetaData

    int

    { }

")).
Eval vm_compute in ("<<<M2076>>>" ++ check (runes_of_ascii "MetaData BodyLength
{ int8 Foo
, string string
    MetaDataX , float zchar ,pack options1
,asx string_, }
packet u8x {Foo@lengthOf(charz )
`" ++ [28040; 24687; 31867; 22411]%N ++ runes_of_ascii "`,  }
")).
Eval vm_compute in ("<<<M3807>>>" ++ check (runes_of_ascii "packet A {
    match k as n {
        [
            ""a"", 22, ""c c"", 4, ""e"",
            66, ""g"", 8, ""i"", 10
        ] : B,
        2 : C,
    },
}")).
Eval vm_compute in ("<<<M2007>>>" ++ check (runes_of_ascii "
packet leftPad {
@leftPad( '0')
u32
i64_ `100% of %d` ,repeat// 50% %s
i8 chars
    ,
} MetaData MetaData
    f32a
{ // packet A { u8 x, }
}")).
Eval vm_compute in ("<<<M2073>>>" ++ check (runes_of_ascii "MetaData BodyLength
{ int8 Foo
) string
    MetaDataX , float zchar ,pack options1
,asx string_, }
packet u8x {Foo@lengthOf(charz )
`" ++ [28040; 24687; 31867; 22411]%N ++ runes_of_ascii "`,  }
")).
Eval vm_compute in ("<<<M1982>>>" ++ check (runes_of_ascii "
packet leftPad {
@leftPad( '0')
u32
i64_ `100% of %d` ,repeat repeat// 50% %s
i8 chars
    ,
} MetaData
    f32a
{ // packet A { u8 x, }
}")).
Eval vm_compute in ("<<<M3561>>>" ++ check (runes_of_ascii "  // top
	root 	 // c0a
	  // c0b
  	packet// c1a
    // c1b
	P

    // c2
	{ 
    // c3

	string // c4
s// c5
,  // c6a
  // c6b
    }
")).
Eval vm_compute in ("<<<M2037>>>" ++ check (runes_of_ascii "
packet leftPad {
@leftPad( '0''1' )
u32
i64_ `100% of %d` ,repeat// 50% %s
i8 chars
    ,
} MetaData
    f32a
{ // packet A { u8 x, }
}")).
Eval vm_compute in ("<<<M2251>>>" ++ check (runes_of_ascii "options
    {
x_y_z// " ++ [27880; 37322]%N ++ runes_of_ascii "
= 10 ; }
packet float32 {
    @calculatedFrom(
// trailing space 
// " ++ [27880; 37322]%N ++ runes_of_ascii "
""1""
)	match T as Foo
    {
255 :T , }
,}")).
Eval vm_compute in ("<<<M2296>>>" ++ check (runes_of_ascii "options
    {
x_y_z// " ++ [27880; 37322]%N ++ runes_of_ascii "
= 10 ; }
packet body {
    @calculatedFrom(
// trailing space 
// " ++ [27880; 37322]%N ++ runes_of_ascii "
""1""
)	match T as Foo
    i32
255 :T , }
,}")).
Eval vm_compute in ("<<<M2346>>>" ++ check (runes_of_ascii "options
    {
x_y_z// " ++ [27880; 37322]%N ++ runes_of_ascii "
= 10 ; }
packet body {
    @calculatedFrom(
// trailing spa" ++ [65279]%N ++ runes_of_ascii "ce 
// " ++ [27880; 37322]%N ++ runes_of_ascii "
""1""
)	match T as Foo
    {
255 :T , }
,}")).
Eval vm_compute in ("<<<M2110>>>" ++ check (runes_of_ascii "MetaData BodyLength
{ int8 Foo
, string
    MetaDataX , float zchar ,pack 
,asx string_, }
packet u8x {Foo@lengthOf(charz )
`" ++ [28040; 24687; 31867; 22411]%N ++ runes_of_ascii "`,  }
")).
Eval vm_compute in ("<<<M561>>>" ++ check (runes_of_ascii "
MetaData As { char
i64_
`tab	here`
    , char[ // packet A { u8 x, }
0
    ]
    charz `crlf
line` ,zchar[ 0123456789] metadata	, }")).
Eval vm_compute in ("<<<M2411>>>" ++ check (runes_of_ascii "MetaData
    calculatedFrom
{ zchar[  10 ]
    As`tab	here`,
    }// trailing space 
options  { roots roots ='\x00' ; } packet A
{ }
")).
Eval vm_compute in ("<<<M2248>>>" ++ check (runes_of_ascii "options
    {
x_y_z// " ++ [27880; 37322]%N ++ runes_of_ascii "
= 10 ; }
packet  {
    @calculatedFrom(
// trailing space 
// " ++ [27880; 37322]%N ++ runes_of_ascii "
""1""
)	match T as Foo
    {
255 :T , }
,}")).
Eval vm_compute in ("<<<M3674>>>" ++ check (runes_of_ascii "// top
    root 
      // c0
	  packet// c1a
	// c1b

	u128 
    // c2

{

// c3
    chars`doc`
,  
  // c6
	} 
	    // c7
 
")).
Eval vm_compute in ("<<<M3815>>>" ++ check (runes_of_ascii "packet A {
    match k as n {
        [
            1, 22, ""c c"", 4, 5,
            ""f""
        ] : B,
        2 : C,
    },
}")).
Eval vm_compute in ("<<<M3812>>>" ++ check (runes_of_ascii "
root
packet  falsey
	{
    int

    falsey

    , u8 Packet @lengthOf(f32a	) 
`u8 x,`,  } 	 // `tick` ""quote"" 'q'
 
")).
Eval vm_compute in ("<<<M245>>>" ++ check (runes_of_ascii "packet i64_ {
Logon{ u8
// a // b
// " ++ [27880; 37322]%N ++ runes_of_ascii "
i8i8//	t
@calculatedFrom(""" ++ [233]%N ++ runes_of_ascii "t" ++ [233]%N ++ runes_of_ascii """)
    ,} //x
, } packet lengthOf
// c
// c
{ }
")).
Eval vm_compute in ("<<<M1868>>>" ++ check (runes_of_ascii "packet o {
    roots `it's`
// trailing space 
//x
, char[ 42
    ] ]  A, // " ++ [27880; 37322]%N ++ runes_of_ascii "
f64
repeatCount
    `crlf
line`
,}")).
Eval vm_compute in ("<<<M3962>>>" ++ check (runes_of_ascii "options {
    MetaDataX = 0
    matchKey = '0';
    BodyLength = '\x00';
    packetx = char[];
    charz = '\x00'
}")).
Eval vm_compute in ("<<<M1833>>>" ++ check (runes_of_ascii "packet  {
    roots `it's`
// trailing space 
//x
, char[ 42
    ]  A, // " ++ [27880; 37322]%N ++ runes_of_ascii "
f64
repeatCount
    `crlf
line`
,}")).
Eval vm_compute in ("<<<M275>>>" ++ check (runes_of_ascii "
packet _x { }
packet msg_type
    {	@lengthOf( f32a ) u8x Z9_
, } MetaData /// triple
chars { string T
, } //x")).
Eval vm_compute in ("<<<M3086>>>" ++ check (runes_of_ascii "packet A {
    match k as n {
        ""\
"" : B,
        [""\
"", 1] : C,
        [1,2,3,4,5,""\
""] : D,
    },
}")).
Eval vm_compute in ("<<<M3667>>>" ++ check (runes_of_ascii "packet

A {

    Inner{
match

    k
    as n{	[1 
,	22

,

    007  , 4

    ]

:
	B , }	, }, } ")).
Eval vm_compute in ("<<<M3039>>>" ++ check (runes_of_ascii "packet A {
    Inner {
        u8 x `a

b`,
        Deep {
            u8 y `a

b`,
        },
    },
}")).
Eval vm_compute in ("<<<M4128>>>" ++ check (runes_of_ascii "// " ++ [128512]%N ++ runes_of_ascii " emoji
options {
    repeatCount = '\x00'
}

// 50% %s
// packet A { u8 x, }
MetaData uint8x {
}")).
Eval vm_compute in ("<<<M3069>>>" ++ check (runes_of_ascii "packet A {
    Inner {
        u8 x `%`,
        Deep {
            u8 y `%`,
        },
    },
}")).
Eval vm_compute in ("<<<M4232>>>" ++ check (runes_of_ascii "MetaData
asx
{ float32
charz
    `u8 x,`,
}
MetaData /// triple
tag
{

char[ 0 
]
falsey ,}
")).
Eval vm_compute in ("<<<M3366>>>" ++ check (runes_of_ascii "packet  Inner{

u8 a
,
} root
    packet
	P
    { repeat
Inner
items

    ,u8
x
    , }

")).
Eval vm_compute in ("<<<M3576>>>" ++ check (runes_of_ascii "MetaData Pad {
    uint64 options1,
    int32 roots,
    int16 A ``,
    msg_type trueish,
}")).
Eval vm_compute in ("<<<M1424>>>" ++ check (runes_of_ascii "packet
T
match { repeatCount as	calculatedFrom
{ [65535 ]	: As	,
} ,}
// trailing space 
")).
Eval vm_compute in ("<<<M1417>>>" ++ check (runes_of_ascii "packet

{ match repeatCount as	calculatedFrom
{ [65535 ]	: As	,
} ,}
// trailing space 
")).
Eval vm_compute in ("<<<M3572>>>" ++ check (runes_of_ascii "packet	A
    { match 
k
    as n{  [""a""

,
""bb""	,  ""c c"" 
] :
    B 2

: C } ,

    }
")).
Eval vm_compute in ("<<<M1766>>>" ++ check (runes_of_ascii "options{  lengthOf =//x
i16;
    BodyLength = 0 ; pack
= = false;
    A = char[ 3 ] }")).
Eval vm_compute in ("<<<M1825>>>" ++ check (runes_of_ascii "options{  lengthOf =//x
i16;
    BodyLength = 0 ; pack
= false<;
    A = char[ 3 ] }")).
Eval vm_compute in ("<<<M2124>>>" ++ check (runes_of_ascii "MetaData BodyLength
{ int8 Foo
, string
    MetaDataX , float zchar ,pack options1
,")).
Eval vm_compute in ("<<<M4175>>>" ++ check (runes_of_ascii "packet
    u8x {
}

    MetaData crc 
{

// c

char[
    4294967296
	] Foo  , }
")).
Eval vm_compute in ("<<<M1200>>>" ++ check (runes_of_ascii "//
options { } packet leftPad{ }packet trueish{
    i8 pack	,
} packet body {
}
")).
Eval vm_compute in ("<<<M3246>>>" ++ check (runes_of_ascii "MetaData
// c
Foo { zchar[ 0 ] matchKey , } options { lengthOf = i32 u = 00 ; }")).
Eval vm_compute in ("<<<M3278>>>" ++ check (runes_of_ascii "MetaData Foo { zchar[ 0 ] matchKey , } options { lengthOf = i32 u = 00
// c
; }")).
Eval vm_compute in ("<<<M1995>>>" ++ check (runes_of_ascii "
packet leftPad {
@leftPad( '0')
u32
i64_ `100% of %d` ,repeat// 50% %s
i8")).
Eval vm_compute in ("<<<M1098>>>" ++ check (runes_of_ascii "options {}
packet
Pad  { }
root	packet i64_ { repeat char[ 1	] Z9_
, }
")).
Eval vm_compute in ("<<<M1114>>>" ++ check (runes_of_ascii "packet	tag{ zchar[ 7 ] _x , repeat zchar[ 007] As
`crlf
line` ,
    }
")).
Eval vm_compute in ("<<<M2893>>>" ++ check (runes_of_ascii "packet A {
  match k as n {
    [""a"", ""bb"", 007] : B
    2 : C
  },
}")).
Eval vm_compute in ("<<<M3392>>>" ++ check (runes_of_ascii "root packet P {
    u16 a,
    u32 Sum @calculatedFrom(""CRC32""),
}
")).
Eval vm_compute in ("<<<M4440>>>" ++ check (runes_of_ascii "root packet P {
    u8 s_u8,
    repeat u8 r_u8,
    u16 b_len,
}")).
Eval vm_compute in ("<<<M3315>>>" ++ check (runes_of_ascii "packet u8x { } MetaData crc { char[ 4294967296 ] Foo , } // c
")).
Eval vm_compute in ("<<<M3302>>>" ++ check (runes_of_ascii "packet u8x { } MetaData crc
// c
{ char[ 4294967296 ] Foo , }")).
Eval vm_compute in ("<<<M628>>>" ++ check (runes_of_ascii "
MetaData float  {int16 options1 , int8 u128
    `{ , }`, }")).
Eval vm_compute in ("<<<M3775>>>" ++ check (runes_of_ascii "packet A {
    match k as n {
        [1, 2] : B,
    },
}")).
Eval vm_compute in ("<<<M45>>>" ++ check (runes_of_ascii "root packet // " ++ [27880; 37322]%N ++ runes_of_ascii "
tag { // trailing space 
leftPad , }")).
Eval vm_compute in ("<<<M3912>>>" ++ check (runes_of_ascii "options
{
    pack	= zchar[	255 
] // 50% %s
		}
")).
Eval vm_compute in ("<<<M3802>>>" ++ check (runes_of_ascii "MetaData As {
    f32a options1,
    crc Logon,
}")).
Eval vm_compute in ("<<<M3065>>>" ++ check (runes_of_ascii "root packet A {
    u8 x `100% of %s %d %v`,
}")).
Eval vm_compute in ("<<<M2732>>>" ++ check (runes_of_ascii "false ""a\""b"" @lengthOf( @calculatedFrom( ) ;")).
Eval vm_compute in ("<<<M3078>>>" ++ check (runes_of_ascii "options {
    a = ""x\
y"";
    b = ""x\
y""
}")).
Eval vm_compute in ("<<<M2617>>>" ++ check (runes_of_ascii "packet A { match k as n { [1 2] : B }, }")).
Eval vm_compute in ("<<<M3232>>>" ++ check (runes_of_ascii "root packet u128 { chars `doc`
// c
, }")).
Eval vm_compute in ("<<<M2381>>>" ++ check (runes_of_ascii "MetaData
Foo {Header //
pack ,	} } 	 ")).
Eval vm_compute in ("<<<M2612>>>" ++ check (runes_of_ascii "packet A { match k as n { 1 : B }, }")).
Eval vm_compute in ("<<<M2756>>>" ++ check (runes_of_ascii ") packet @calculatedFrom( u16 i32 :")).
Eval vm_compute in ("<<<M752>>>" ++ check (runes_of_ascii "packet As {}root packet f32a { }
")).
Eval vm_compute in ("<<<M3047>>>" ++ check (runes_of_ascii "root packet A {
    u8 x `x
`,
}")).
Eval vm_compute in ("<<<M4161>>>" ++ check (runes_of_ascii "root packet P {
    string s,
}")).
Eval vm_compute in ("<<<M908>>>" ++ check (runes_of_ascii "MetaData MetaDataX
    {//
}
")).
Eval vm_compute in ("<<<M3340>>>" ++ check (runes_of_ascii "options // c
{ u8x = false }")).
Eval vm_compute in ("<<<M3916>>>" ++ check (runes_of_ascii "packet A {
    char[3] x,
}")).
Eval vm_compute in ("<<<M2586>>>" ++ check (runes_of_ascii "packet A { char[ x ] y, }")).
Eval vm_compute in ("<<<M625>>>" ++ check (runes_of_ascii "options { Z9_= ""1"" ; }
")).
Eval vm_compute in ("<<<M174>>>" ++ check (runes_of_ascii "
root packet i8i8
{}
")).
Eval vm_compute in ("<<<M2374>>>" ++ check (runes_of_ascii "MetaData
Foo {Header")).
Eval vm_compute in ("<<<M3157>>>" ++ check (runes_of_ascii "packet A {
}
// c 	")).
Eval vm_compute in ("<<<M3122>>>" ++ check (runes_of_ascii "packet A {
}
// c" ++ [8202]%N)).
Eval vm_compute in ("<<<M1436>>>" ++ check (runes_of_ascii "packet
T
{ match")).
Eval vm_compute in ("<<<M4434>>>" ++ check (runes_of_ascii "packet Header {
}")).
Eval vm_compute in ("<<<M3188>>>" ++ check (runes_of_ascii "

  packet A {}")).
Eval vm_compute in ("<<<M697>>>" ++ check (runes_of_ascii "options {
}
")).
Eval vm_compute in ("<<<M2643>>>" ++ check (runes_of_ascii "packet A {")).
Eval vm_compute in ("<<<M2512>>>" ++ check (runes_of_ascii "// ab
c")).
Eval vm_compute in ("<<<M2470>>>" ++ check (runes_of_ascii "repeat")).
Eval vm_compute in ("<<<M2521>>>" ++ check (runes_of_ascii """ab""")).
Eval vm_compute in ("<<<M2477>>>" ++ check (runes_of_ascii "ROOT")).
Eval vm_compute in ("<<<M2506>>>" ++ check (runes_of_ascii "/ /")).
Eval vm_compute in ("<<<M2503>>>" ++ check (runes_of_ascii "@@")).
Eval vm_compute in ("<<<M2691>>>" ++ check (runes_of_ascii "")).
