From FP Require Import Lexer Parser ShowPT Digest Formatter.
From Coq Require Import String List NArith.
Import ListNotations.
Open Scope string_scope.
Set Printing Width 100000000.
Set Printing Depth 100000000.
Definition show_fres (r : fres) : string :=
  match r with
  | FOk s => "OK:" ++ sh_escaped s ""
  | FErr s => "ERR:" ++ sh_escaped s ""
  | FPanic p => "PANIC:" ++ p
  end.
Definition check (rs : list rune) : string := digest (show_fres (format_res rs)).
Definition full (rs : list rune) : string := show_fres (format_res rs).
Eval vm_compute in ("<<<M1768>>>" ++ check (runes_of_ascii "packet Logon {
    repeat string a1 `crlf
        line`,
    @lengthOf(Pad)
    match Pad as u8x {
        4294967296 : i8i8,
    },
    asx a1,
    // a // b
    // @lengthOf(
    @lengthOf(body)
    //x
    msg_type int,
    tag `line1
        line2`,
    repeat Z9_ {
        u16 packetx @calculatedFrom(""it's""),
    },
    @lengthOf(Logon)
    // " ++ [128512]%N ++ runes_of_ascii " emoji
    @rightPad()
    @calculatedFrom(""" ++ [233]%N ++ runes_of_ascii "t" ++ [233]%N ++ runes_of_ascii """)
    repeat roots u128,
    @calculatedFrom(""{,}"")
    chars {
        match roots as Foo {
            10 : trueish,
        },
    },
    i8i8,
    @calculatedFrom(""x y"")
    @calculatedFrom(""a\""b"")
    repeat Z9_ {
        f32a msg_type,
        repeat o {
            // " ++ [128512]%N ++ runes_of_ascii " emoji
            // @lengthOf(
            zchar[0] charz @calculatedFrom(""CRC32""),
        },
    },
}

root packet BodyLength {
    calculatedFrom {
        char[] x @calculatedFrom(""\n""),// @lengthOf(
        _x @calculatedFrom(""`tick`""),
        repeat u128,
        float Packet `" ++ [28040; 24687; 31867; 22411]%N ++ runes_of_ascii "`,
    },
    repeat Foo {
        uint64 a1,
    },/// triple
    repeat char[42] matchKey `it's`,
    lengthOf {
        // " ++ [27880; 37322]%N ++ runes_of_ascii "
        u128 trueish `// not a comment`,
        match chars as MetaDataX {
            00 : x_y_z,
            1 : trueish,
            [0123456789] : calculatedFrom,
            [
                ""CRC32"", ""\" ++ [233]%N ++ runes_of_ascii """, ""// no comment"", ""it's"", ""packet"",
                007
            ] : Pad,
        },
    },
    repeat char[] Logon,
    @leftPad('0')
    f32 Pad @calculatedFrom(""CRC32""),
    @lengthOf(BodyLength)
    options1 @calculatedFrom(""`tick`""),
    A {
        // " ++ [27880; 37322]%N ++ runes_of_ascii "
        //	t
        uint8 charz `u8 x,`,
        falsey x `line1
                line2`,
        repeat int8 Packet,
        zchar[1] float,
    },
    char[65535] matchKey @calculatedFrom(""x y""),
    @lengthOf(o)
    match chars as As {
        1 : f32a,
    },
}

packet int {
    @calculatedFrom(""// no comment"")
    @rightPad()
    @calculatedFrom(""" ++ [233]%N ++ runes_of_ascii "t" ++ [233]%N ++ runes_of_ascii """)
    roots _x `say ""hi""`,// `tick` ""quote"" 'q'
}

options {
    o = ""{,}""
    Pad = 255;
}// " ++ [27880; 37322]%N)).
Eval vm_compute in ("<<<M345>>>" ++ check (runes_of_ascii "// `tick` ""quote"" 'q'
root	packet /// triple
As { }packet x_y_z{@rightPad (
) @tag( 42 )
    @rightPad (' ' ) repeat f32a charz ,match Header as// a // b
stringy { [ 1	,	4294967296 ]// packet A { u8 x, }
: rootA ,
0123456789 : x_y_z
    , [
    65535
, 255]	:
/// triple
// a // b
metadata ,
[	7 , """ ++ [233]%N ++ runes_of_ascii "t" ++ [233]%N ++ runes_of_ascii """, ""{,}"" ,""{,}"" ] : T
// trailing space 
// " ++ [27880; 37322]%N ++ runes_of_ascii "
,""packet"" :
    chars , // trailing space 
[ 42
    , //
00] : Logon,} ,repeat i8i8 {
tag @calculatedFrom(// " ++ [27880; 37322]%N ++ runes_of_ascii "
""" ++ [128512]%N ++ runes_of_ascii """ )`{ , }` , }
,Z9_ @lengthOf(
    Packet
    // @lengthOf(
    ) ,
    // trailing space 
    lengthOf
    ,
trueish {
zchar[ 007/// triple
]
    packetx, zchar[ 0123456789
] MetaDataX `// not a comment`
, rootA @lengthOf(Z9_)
    `" ++ [233]%N ++ runes_of_ascii "`, }
,	} root// a // b
packet u8x { float64 len@calculatedFrom( ""packet"" )
//
// " ++ [27880; 37322]%N ++ runes_of_ascii "
, u8 calculatedFrom , @calculatedFrom( ""a\""b""
) @calculatedFrom( ""\n"") // trailing space 
@lengthOf(
    Foo ) Logon @lengthOf(	i8i8) , // trailing space 
@calculatedFrom(
""a\\"") falsey@calculatedFrom(
""" ++ [233]%N ++ runes_of_ascii "t" ++ [233]%N ++ runes_of_ascii """)`line1
line2` ,@leftPad('\x00' )
    // c
    match
i64_	as
    // c
    i64_{ [
    0123456789 ] :  a1
,[ ""1"" ,
3 , //
3 , 7 , 0
] :string_ ,
    """"// `tick` ""quote"" 'q'
:
    i64_ , }, @lengthOf( As )
    // packet A { u8 x, }
    T{zchar[ 0] roots
@lengthOf(
options1 )
    , /// triple
u16 pack
    ,//
} ,/// triple
string// `tick` ""quote"" 'q'
x	`crlf
line`
, }")).
Eval vm_compute in ("<<<M127>>>" ++ check (runes_of_ascii "root packet As// `tick` ""quote"" 'q'
{
    @calculatedFrom( ""{,}""	)zchar[ 4294967296
    // packet A { u8 x, }
    ]As ,@tag( 7 ) repeat
    pack
    {body
    {// trailing space 
zchar[
65535 //x
] MetaDataX `doc`
, string_ @lengthOf( // " ++ [27880; 37322]%N ++ runes_of_ascii "
Logon  ) , i64 MetaDataX@calculatedFrom( """" )// " ++ [27880; 37322]%N ++ runes_of_ascii "
`a\`, //x
repeat char[] Foo,	} ,
/// triple
// packet A { u8 x, }
},@lengthOf( MetaDataX
    ) @calculatedFrom(
""\n""	) @lengthOf( float )
char[ 0123456789 ] a1 @calculatedFrom( ""a\""b"") ,
repeat msg_type  { // `tick` ""quote"" 'q'
repeat f64 Packet`a\` , int64 asx@calculatedFrom( ""{,}"" )`" ++ [233]%N ++ runes_of_ascii "`  ,zchar[3  ]
    metadata	,	zchar[
00 ] x_y_z
    @calculatedFrom( ""CRC32""
) , }, } packet calculatedFrom // a // b
{ match calculatedFrom as BodyLength{ 65535
: Foo ,
    }, match
    int as falsey {  42 : body, [ ""abc""
// " ++ [128512]%N ++ runes_of_ascii " emoji
// " ++ [27880; 37322]%N ++ runes_of_ascii "
,
    ""\n"" , ""abc""
,""" ++ [28040; 24687]%N ++ runes_of_ascii """	]:stringy
    // `tick` ""quote"" 'q'
    , [0123456789
, ""{,}""
,
42
    , 1
]// " ++ [27880; 37322]%N ++ runes_of_ascii "
: trueish , ""`tick`"" :metadata ,  [ ""1"" , ""a	b"" , 42
]
: zchar}
    ,repeat zchar[  4294967296 ]stringy `line1
line2`
, } options // @lengthOf(
{stringy= // packet A { u8 x, }
' '/// triple
; }")).
Eval vm_compute in ("<<<M1556>>>" ++ check (runes_of_ascii "options {
    StringPrefixLenType = u64;
    ArrayPrefixLenType = u16;
    FixedStringPadChar = ' ';
}
packet Logon {
    i32 msgKind,
    repeat InOrderid65 {
        u8 pad0,
    },
    i8 tag7,
    @leftPad(' ') char[12] x,
}
packet Leg {
    char[] f1,
    repeat char[5] Px,
    InQty34 {
        repeat char[6] Qty,
        char[7] seqNo,
        string count,
    },
    Logon,
}
packet Party {
    @leftPad('0') char[10] OrderId,
    string Tail,
}
packet Fill {
    zchar[5] venue,
    zchar[3] clOrdID,
    InRef95 {
        InLastpx25 {
            u8 pad0,
        },
        float64 OrderId,
        i32 f1,
        float32 x,
        char[] seqNo,
    },
    repeat string seqNo,
}
root packet Heartbeat {
    repeat Leg,
    u32 seqNo,
    u16 tag7,
    u32 Flags @lengthOf(Body),
    match tag7 as Body {
        [195, 75] : Party,
        171 : Fill,
        78 : Logon,
        142 : Leg,
    },
    u32 Note @calculatedFrom(""CR\
C32""),
}
")).
Eval vm_compute in ("<<<M2102>>>" ++ check (runes_of_ascii "  // top
  	packet 
    // c0
  	MDSnapshotZZ	// c1a
  // c1b
	{// c2

u8 // c3a
  // c3b
a 
        // c4
  ,// c5
}
	packet 	 // c7

	OrderACK
        // c8
{
// c9
    u16	// c10
  b  // c11
    ,}

    // c13
  packet	// c14
  HTTPServerInfo// c15a
	// c15b
{	// c16a
  // c16b
    string	// c17a
	// c17b
      s// c18
    , 
} 	 // c20
	root packet 
    // c22

FIXMsg
	// c23
    {// c24a
	// c24b

u8  // c25a
		// c25b
  	KType 
	// c26
,// c27

MDSnapshotZZ  // c28
		,

repeat 
      // c30
	  OrderACK	// c31a
// c31b
    ,  // c32a
// c32b
  match	KType as
	Body
// c36
	  {// c37a
	// c37b
	1 // c38
    : // c39
  HTTPServerInfo
    , 2
: 	 // c43a
  // c43b
  OrderACK 
	    // c44
  ,  // c45
}  // c46
    , 

    // c47
    } // c48")).
Eval vm_compute in ("<<<M1577>>>" ++ check (runes_of_ascii "// top
options
    // c0
{ // c1
LittleEndian // c2a
  // c2b
= // c3a
  // c3b
true // c4
; // c5a
  // c5b
}
    // c6
packet // c7a
  // c7b
Logon
    // c8
{ // c9a
  // c9b
u8
    // c10
x
    // c11
, string
    // c13
user
    // c14
, // c15a
  // c15b
}
    // c16
packet // c17a
  // c17b
Logout
    // c18
{ // c19
u16 // c20
reason // c21a
  // c21b
, } // c23a
  // c23b
packet
    // c24
Empty // c25a
  // c25b
{ // c26
} // c27a
  // c27b
root
    // c28
packet Frame // c30
{ u16 // c32
MsgType , u16 BodyLen // c36
@lengthOf( // c37
Body // c38
) , // c40a
  // c40b
u8 // c41
flags , Logon Body
    // c45
, // c46
u32 trailer , // c49a
  // c49b
}
    // c50
")).
Eval vm_compute in ("<<<M1495>>>" ++ check (runes_of_ascii "// top
packet // c0a
  // c0b
A { // c2
u8 // c3a
  // c3b
a , } // c6a
  // c6b
packet // c7a
  // c7b
B // c8
{ // c9a
  // c9b
u16
    // c10
b // c11a
  // c11b
, // c12a
  // c12b
}
    // c13
root // c14a
  // c14b
packet // c15
P
    // c16
{
    // c17
u8 // c18
K // c19
, // c20a
  // c20b
match
    // c21
K
    // c22
as // c23a
  // c23b
M // c24
{ // c25
[
    // c26
1 // c27a
  // c27b
, // c28
2
    // c29
]
    // c30
: A // c32a
  // c32b
, // c33a
  // c33b
3 :
    // c35
B , // c37a
  // c37b
7 // c38a
  // c38b
: // c39a
  // c39b
A
    // c40
, } , } // c44a
  // c44b
")).
Eval vm_compute in ("<<<M126>>>" ++ check (runes_of_ascii "root packet pack { @calculatedFrom(	""`tick`"")
    @calculatedFrom(
    // " ++ [128512]%N ++ runes_of_ascii " emoji
    ""\n"" ) @tag( 0123456789 )match zchar as string_ {	[ ""packet"" ] //
:  i8i8 , [
0123456789 , 7	] :string_ ,
//x
// `tick` ""quote"" 'q'
0 : options1 ,
""\" ++ [233]%N ++ runes_of_ascii """
:// `tick` ""quote"" 'q'
Foo	,}
, @lengthOf(	calculatedFrom )
Foo	@lengthOf(
    x)
`crlf
line`
, lengthOf @lengthOf(int )  ,T , @lengthOf(  rootA) zchar[
007 ]
// " ++ [128512]%N ++ runes_of_ascii " emoji
// packet A { u8 x, }
x`crlf
line` , @calculatedFrom(
    ""\n""	) repeat f64	chars
, matchKey _x, }")).
Eval vm_compute in ("<<<M1492>>>" ++ check (runes_of_ascii "// top
packet // c0
A
    // c1
{ // c2a
  // c2b
u8 // c3a
  // c3b
a // c4a
  // c4b
, } packet // c7
B
    // c8
{ // c9
u16 // c10
b , // c12a
  // c12b
} // c13
root // c14a
  // c14b
packet P // c16
{ u8 // c18
K // c19
, // c20a
  // c20b
match // c21a
  // c21b
K
    // c22
as // c23a
  // c23b
M
    // c24
{
    // c25
1 // c26a
  // c26b
: // c27
A // c28
, 1 : // c31a
  // c31b
B // c32
, // c33
} // c34
,
    // c35
} // c36
")).
Eval vm_compute in ("<<<M365>>>" ++ check (runes_of_ascii "root
packet //x
pack
{ match matchKey //	t
as
int // @lengthOf(
{ 00 : metadata
    ,
    ""a\\""
    : o ,
""// no comment"" :// `tick` ""quote"" 'q'
x ,
[
""packet""] : A
, [ ""\n"",0123456789 , 00 , ""// no comment"" ,007 ,
255,
1 ,// c
0 ]
    // a // b
    : metadata ,[ 00] : Pad ,} , } // @lengthOf(
MetaData tag
{uint64 i64_`doc` ,
    } packet BodyLength { repeat
u32
u128 , }
")).
Eval vm_compute in ("<<<M1570>>>" ++ check (runes_of_ascii "options {
    FixedStringPadFromLeft = true;
    FixedStringPadChar = ' ';
}
packet Reject {
}
packet Fill {
    repeat i16 Tail,
}
root packet Trade {
    float64 Ref,
    Fill,
    u8 Note,
    u16 count @lengthOf(Body),
    match Note as Body {
        [98, 101] : Fill,
        34 : Reject,
    },
    u32 x @calculatedFrom(""CR\
C32""),
}
")).
Eval vm_compute in ("<<<M2115>>>" ++ check (runes_of_ascii "

  // `tick` ""quote"" 'q'
MetaData  pack
    { string 
MetaDataX 
,//
  zchar[	65535
	]
	i8i8 , pack
rootA

`say ""hi""` ,string_  Header`crlf
line` 
,

int64
string_
    , 

/// triple
	//	t
char[] packetx  ,
}options 
{trueish=
' ';
i64_= i16 pack  =  u16

;
	len=
    false	}	MetaData
i64_{ }
")).
Eval vm_compute in ("<<<M667>>>" ++ check (runes_of_ascii "root packet tag { }  packet MetaDataX{char[@lengthOf 007	]
// c
/// triple
asx  @calculatedFrom( ""a\""b""
) `say ""hi""`// " ++ [27880; 37322]%N ++ runes_of_ascii "
,  @tag(4294967296 )
    char[1//x
] packetx @calculatedFrom(""a\""b""
    ) ,
// " ++ [128512]%N ++ runes_of_ascii " emoji
// a // b
@calculatedFrom(""" ++ [233]%N ++ runes_of_ascii "t" ++ [233]%N ++ runes_of_ascii """  ) repeat pack // " ++ [27880; 37322]%N ++ runes_of_ascii "
,
    } // c")).
Eval vm_compute in ("<<<M1460>>>" ++ check (runes_of_ascii "packet B { // c2
u8 a ,
    // c5
}
    // c6
root // c7
packet P { u8
    // c11
K // c12
, // c13
match K as Body
    // c17
{ // c18a
  // c18b
1 : B // c21
,
    // c22
} ,
    // c24
u16 // c25
L // c26
@lengthOf(
    // c27
Body // c28
)
    // c29
, }
    // c31
")).
Eval vm_compute in ("<<<M520>>>" ++ check (runes_of_ascii "root packet tag { }  packet MetaDataX{007 char[	]
// c
/// triple
asx  @calculatedFrom( ""a\""b""
) `say ""hi""`// " ++ [27880; 37322]%N ++ runes_of_ascii "
,  @tag(4294967296 )
    char[1//x
] packetx @calculatedFrom(""a\""b""
    ) ,
// " ++ [128512]%N ++ runes_of_ascii " emoji
// a // b
@calculatedFrom(""" ++ [233]%N ++ runes_of_ascii "t" ++ [233]%N ++ runes_of_ascii """  ) repeat pack // " ++ [27880; 37322]%N ++ runes_of_ascii "
,
    } // c")).
Eval vm_compute in ("<<<M560>>>" ++ check (runes_of_ascii "root packet tag { }  packet MetaDataX{char[007	]
// c
/// triple
asx  @calculatedFrom( ""a\""b""
) `say ""hi""`// " ++ [27880; 37322]%N ++ runes_of_ascii "
@tag(  ,4294967296 )
    char[1//x
] packetx @calculatedFrom(""a\""b""
    ) ,
// " ++ [128512]%N ++ runes_of_ascii " emoji
// a // b
@calculatedFrom(""" ++ [233]%N ++ runes_of_ascii "t" ++ [233]%N ++ runes_of_ascii """  ) repeat pack // " ++ [27880; 37322]%N ++ runes_of_ascii "
,
    } // c")).
Eval vm_compute in ("<<<M648>>>" ++ check (runes_of_ascii "root packet tag { }  packet MetaDataX{char[007	]
// c
/// triple
asx  @calculatedFrom( ""a\""b""
) `say ""hi""`// " ++ [27880; 37322]%N ++ runes_of_ascii "
,  @tag(4294967296 )
    char[1//x
] packetx @calculatedFrom(""a\""b""
    ) ,
// " ++ [128512]%N ++ runes_of_ascii " emoji
// a // b
@calculatedFrom(""" ++ [233]%N ++ runes_of_ascii "t" ++ [233]%N ++ runes_of_ascii """  ) repeat pack // " ++ [27880; 37322]%N ++ runes_of_ascii "
,
     // c")).
Eval vm_compute in ("<<<M543>>>" ++ check (runes_of_ascii "root packet tag { }  packet MetaDataX{char[007	]
// c
/// triple
asx  @calculatedFrom( 
) `say ""hi""`// " ++ [27880; 37322]%N ++ runes_of_ascii "
,  @tag(4294967296 )
    char[1//x
] packetx @calculatedFrom(""a\""b""
    ) ,
// " ++ [128512]%N ++ runes_of_ascii " emoji
// a // b
@calculatedFrom(""" ++ [233]%N ++ runes_of_ascii "t" ++ [233]%N ++ runes_of_ascii """  ) repeat pack // " ++ [27880; 37322]%N ++ runes_of_ascii "
,
    } // c")).
Eval vm_compute in ("<<<M1177>>>" ++ check (runes_of_ascii "// top
MetaData // c0a
  // c0b
float // c1
{
    // c2
float64 // c3
charz // c4a
  // c4b
`
`
    // c5
,
    // c6
} root // c8
packet // c9a
  // c9b
chars
    // c10
{ @rightPad ( '0' // c14
)
    // c15
Foo
    // c16
,
    // c17
} ")).
Eval vm_compute in ("<<<M1175>>>" ++ check (runes_of_ascii "// top
MetaData // c0
float // c1
{ // c2
float64 // c3
charz // c4
`
` // c5
, // c6
} // c7
root // c8
packet // c9
chars // c10
{ // c11
@rightPad // c12
( // c13
'0' // c14
) // c15
Foo // c16
, // c17
} // c18
")).
Eval vm_compute in ("<<<M162>>>" ++ check (runes_of_ascii "MetaData
    lengthOf
{
char[0123456789] calculatedFrom ,
char[ 0
]
options1
    ,
    } MetaData  repeatCount
{ // packet A { u8 x, }
u64 len ,
    stringy x_y_z `it's` // a // b
, f32 As ,	}
")).
Eval vm_compute in ("<<<M295>>>" ++ check (runes_of_ascii "  MetaData x_y_z { string msg_type`" ++ [233]%N ++ runes_of_ascii "`, } packet chars{ repeat i32 metadata`say ""hi""` ,@leftPad ( ) @tag( 0123456789
)repeat zchar[
    // a // b
    007]
    //x
    lengthOf , }
")).
Eval vm_compute in ("<<<M407>>>" ++ check (runes_of_ascii "packet
    // `tick` ""quote"" 'q'
    crc
// packet A { u8 x, }
//	t
{
u32 65535 ,
    // trailing space 
    roots
charz //
`two words`,	}
    MetaData int {
} /// triple")).
Eval vm_compute in ("<<<M684>>>" ++ check (runes_of_ascii "root packet len // trailing space 
{
// " ++ [27880; 37322]%N ++ runes_of_ascii "
//	t
char[10
] metadata	@lengthOf( o ) `crlf
line`,
    '@rightPad
( ' '
) string
    Header @calculatedFrom( ""a\\""
    ), }
")).
Eval vm_compute in ("<<<M709>>>" ++ check (runes_of_ascii "root packet len // trailing space 
{
// " ++ [27880; 37322]%N ++ runes_of_ascii "
//	t
char[10
] metadata	@lengthOf( o ) `crlf
line`@rightPad
    ,
( ' '
) string
    Header @calculatedFrom( ""a\\""
    ), }
")).
Eval vm_compute in ("<<<M477>>>" ++ check (runes_of_ascii "packet
    // `tick` ""quote"" 'q'
    crc
// packet A { u8 x, }
//	t
{
u32 a1 ,
    // trailing space 
    " ++ [21517; 23383]%N ++ runes_of_ascii "
charz //
`two words`,	}
    MetaData int {
} /// triple")).
Eval vm_compute in ("<<<M234>>>" ++ check (runes_of_ascii "options
{ f32a= zchar[3
//
// c
]
// " ++ [128512]%N ++ runes_of_ascii " emoji
//	t
}	packet falsey
{
Z9_ ,body
    @calculatedFrom( //
""\n""
// packet A { u8 x, }
// c
)
    ,} options { }
")).
Eval vm_compute in ("<<<M1455>>>" ++ check (runes_of_ascii "packet B

{
	u8
a
, }
    root
	packet
    P {u8
K

    ,u8
L
    @lengthOf( Body
) ,	match
K
as
Body {	1

    :
	B

    ,	}

    ,
}
")).
Eval vm_compute in ("<<<M1977>>>" ++ check (runes_of_ascii "packet
	A

    { match

    k as

n {	[	""a""	,""bb""
,
007 ,

""d""
	, ""e"" ,

66, ""g""
    ,
""h"" ,	9,
    ""j"" ,
""k"" ] : B	, 
2
:C

}
	,  } ")).
Eval vm_compute in ("<<<M1608>>>" ++ check (runes_of_ascii "
MetaData

    float
    {
	float64

    charz

    `
` ,
    }root packet chars

    {
@rightPad (// c
    	'0')	Foo, }
")).
Eval vm_compute in ("<<<M1459>>>" ++ check (runes_of_ascii "packet B {
    u8 a,
}
root packet P {
    u8 K,
    match K as Body {
        1 : B,
    },
    u16 L @lengthOf(Body),
}
")).
Eval vm_compute in ("<<<M1251>>>" ++ check (runes_of_ascii "root packet matchKey { zchar[ 3 ] pack @calculatedFrom( ""a	b"" ) `doc` , } options // c
{ } MetaData A { int8 msg_type , }")).
Eval vm_compute in ("<<<M1878>>>" ++ check (runes_of_ascii "packet metadata {
    Logon {
        // c
        A `" ++ [28040; 24687; 31867; 22411]%N ++ runes_of_ascii "`,
        tag o,
    },
    zchar len `// not a comment`,
}")).
Eval vm_compute in ("<<<M1935>>>" ++ check (runes_of_ascii "MetaData body {
    BodyLength stringy,
    //	t
    zchar[42] o,
    i64_ lengthOf `{ , }`,
    u8 MetaDataX,
}")).
Eval vm_compute in ("<<<M2066>>>" ++ check (runes_of_ascii "MetaData
float
{  float64 charz `
`,
	}
    root	packet
	chars{ @rightPad ( 
	    // c
	'0'	)

Foo
, }
")).
Eval vm_compute in ("<<<M1480>>>" ++ check (runes_of_ascii "// top
root // c0a
  // c0b
packet P // c2a
  // c2b
{ // c3
string
    // c4
s
    // c5
,
    // c6
} ")).
Eval vm_compute in ("<<<M460>>>" ++ check (runes_of_ascii "packet
    // `tick` ""quote"" 'q'
    crc
// packet A { u8 x, }
//	t
{
u32 a1 ,
    // trailing space")).
Eval vm_compute in ("<<<M850>>>" ++ check (runes_of_ascii "packet A {
  match k as n {
    [""a"", ""bb"", ""c c"", ""d"", ""e"", ""f"", ""g"", ""h""] : B
    2 : C
  },
}")).
Eval vm_compute in ("<<<M1838>>>" ++ check (runes_of_ascii "packet
	A

    {
match
k as
	n  {
[ // a
  1 // b

  , // c
2	]	// d
	:B  } ,

    }
")).
Eval vm_compute in ("<<<M873>>>" ++ check (runes_of_ascii "packet A {
  match k as n {
    [1, 22, 007, 4, 5, 66, 7, 8, 9, 10] : B,
    2 : C
  },
}")).
Eval vm_compute in ("<<<M1210>>>" ++ check (runes_of_ascii "MetaData float { float64 charz `
` , } root packet chars { @rightPad ( '0' ) // c
Foo , }")).
Eval vm_compute in ("<<<M1421>>>" ++ check (runes_of_ascii "packet chars { } packet MetaDataX { @tag( 42 ) i16 string_ ,
// c
repeat x `say ""hi""` , }")).
Eval vm_compute in ("<<<M129>>>" ++ check (runes_of_ascii "MetaData
    charz { } packet
    // " ++ [27880; 37322]%N ++ runes_of_ascii "
    matchKey {
    a1
    repeatCount
    , }
")).
Eval vm_compute in ("<<<M1151>>>" ++ check (runes_of_ascii "packet metadata { Logon { A `" ++ [28040; 24687; 31867; 22411]%N ++ runes_of_ascii "` , tag o , } , zchar
// c
len `// not a comment` , }")).
Eval vm_compute in ("<<<M1356>>>" ++ check (runes_of_ascii "packet o { repeat Logon uint8x , } options // c
{ asx = zchar[ 3 ] stringy = '\x00' }")).
Eval vm_compute in ("<<<M1734>>>" ++ check (runes_of_ascii "MetaData falsey {
    //x
    //	t
    char[65535] Packet `{ , }`,// @lengthOf(
}//x")).
Eval vm_compute in ("<<<M1317>>>" ++ check (runes_of_ascii "MetaData body { i64 pack `it's` , // c
} packet stringy { int16 calculatedFrom , }")).
Eval vm_compute in ("<<<M282>>>" ++ check (runes_of_ascii "
packet charz{ repeat u16 Foo`{ , }`// c
,
//
//
} options
    { crc = """ ++ [28040; 24687]%N ++ runes_of_ascii """ ;	}")).
Eval vm_compute in ("<<<M805>>>" ++ check (runes_of_ascii "packet A {
  match k as n {
    [""a"", ""bb"", 007, ""d""] : B,
    2 : C
  },
}")).
Eval vm_compute in ("<<<M1773>>>" ++ check (runes_of_ascii "
packet x
{
@rightPad
// c
  ( ) repeat roots
Logon
    `doc` ,
}")).
Eval vm_compute in ("<<<M782>>>" ++ check (runes_of_ascii "packet A {
  match k as n {
    [1, 22, 007] : B,
    2 : C
  },
}")).
Eval vm_compute in ("<<<M1379>>>" ++ check (runes_of_ascii "// top
MetaData
    // c0
o
    // c1
{
    // c2
}
    // c3
")).
Eval vm_compute in ("<<<M1277>>>" ++ check (runes_of_ascii "packet
// c
x { @rightPad ( ) repeat roots Logon `doc` , }")).
Eval vm_compute in ("<<<M769>>>" ++ check (runes_of_ascii "packet A {
  match k as n {
    [1] : B
    2 : C
  },
}")).
Eval vm_compute in ("<<<M739>>>" ++ check (runes_of_ascii "u8 : uint16 f32 zchar @calculatedFrom( ] ' ' ' '")).
Eval vm_compute in ("<<<M2113>>>" ++ check (runes_of_ascii "packet
    A
    {

    } 
        // c" ++ [6158]%N ++ runes_of_ascii "
")).
Eval vm_compute in ("<<<M1105>>>" ++ check (runes_of_ascii "root packet u128
// c
{ chars `it's` , }")).
Eval vm_compute in ("<<<M243>>>" ++ check (runes_of_ascii "// c
root packet
calculatedFrom { }
")).
Eval vm_compute in ("<<<M1598>>>" ++ check (runes_of_ascii "packet A {
    u8 x `d" ++ [8192]%N ++ runes_of_ascii "`,// c" ++ [8192]%N ++ runes_of_ascii "
}")).
Eval vm_compute in ("<<<M1870>>>" ++ check (runes_of_ascii "

  packet BodyLength{
    }

")).
Eval vm_compute in ("<<<M2087>>>" ++ check (runes_of_ascii "
packet
A{
	}
    // c" ++ [133]%N ++ runes_of_ascii "
")).
Eval vm_compute in ("<<<M2132>>>" ++ check (runes_of_ascii "// c" ++ [8239]%N ++ runes_of_ascii "
packet A

{
}
")).
Eval vm_compute in ("<<<M987>>>" ++ check (runes_of_ascii "// c" ++ [133]%N ++ runes_of_ascii "
packet A {
}")).
Eval vm_compute in ("<<<M725>>>" ++ check (runes_of_ascii "// only a comment")).
Eval vm_compute in ("<<<M1991>>>" ++ check (runes_of_ascii "MetaData o {
}")).
Eval vm_compute in ("<<<M970>>>" ++ check (runes_of_ascii "// c ")).
Eval vm_compute in ("<<<M723>>>" ++ check (runes_of_ascii "")).
