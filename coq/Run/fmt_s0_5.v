From FP Require Import Lexer Parser ShowPT Digest Formatter.
From Coq Require Import String List NArith.
Import ListNotations.
Open Scope string_scope.
Set Printing Width 100000000.
Set Printing Depth 100000000.
Definition show_fres (r : fres) : string :=
  match r with
  | FOk s => "OK:" ++ sh_escaped s ""
  | FErr s => "ERR:" ++ sh_escaped s ""
  | FPanic p => "PANIC:" ++ p
  end.
Definition check (rs : list rune) : string := digest (show_fres (format_res rs)).
Definition full (rs : list rune) : string := show_fres (format_res rs).
Eval vm_compute in ("<<<M80>>>" ++ check (runes_of_ascii "packet
A {
    roots
{ repeat	char[
00 ] // `tick` ""quote"" 'q'
matchKey `crlf
line`
,
}, // @lengthOf(
@tag( 3
)
char[
    //x
    255]
    x
    // " ++ [128512]%N ++ runes_of_ascii " emoji
    , @leftPad( '\x00')  repeat	uint16
// a // b
//	t
crc ,
match u
    as// @lengthOf(
pack {[""x y"" , 4294967296 ] : roots [1 ,
    0 ] : _x ""packet"":
T  ,  255:
BodyLength	, ""a	b"" : uint8x ,	}, @rightPad	( '\x00' )
    u64
    tag  ,
} packet trueish { match
i64_
as Packet { ""packet"" :// @lengthOf(
body,65535
// a // b
// " ++ [27880; 37322]%N ++ runes_of_ascii "
: Pad ,
    10: packetx 3 : pack , 00 : Header
,
    3 :// c
As ,
    // packet A { u8 x, }
    }
,  @lengthOf(MetaDataX  ) i8 stringy//
`` , @calculatedFrom(
    ""`tick`"" )
    @leftPad (
// a // b
// trailing space 
' ') // `tick` ""quote"" 'q'
char[] calculatedFrom @calculatedFrom( ""// no comment""
    )
, } MetaData calculatedFrom
{pack As	, f32a
    // `tick` ""quote"" 'q'
    calculatedFrom, int16 chars
`say ""hi""` // " ++ [27880; 37322]%N ++ runes_of_ascii "
, uint16 msg_type`{ , }`
    /// triple
    , i32
o // " ++ [128512]%N ++ runes_of_ascii " emoji
,
}packet
    chars { lengthOf MetaDataX , string len @lengthOf(uint8x ) , @tag( 0123456789 )
    match
    stringy
    as x
{ 10
    : lengthOf
, } , @tag( 7 )  @rightPad ( )
@tag( 00  ) uint16 crc
,	int8 trueish @lengthOf(stringy )  ,  repeat i64_ , zchar[ 7 ] T @calculatedFrom(
""a\""b""
) // " ++ [27880; 37322]%N ++ runes_of_ascii "
`two words` ,
    // a // b
    @tag( 007	)zchar[ 65535 ]MetaDataX  @lengthOf( len // packet A { u8 x, }
)
    `" ++ [233]%N ++ runes_of_ascii "` , char metadata @lengthOf(lengthOf )
,	} root packet  matchKey { @calculatedFrom(""" ++ [28040; 24687]%N ++ runes_of_ascii """
// packet A { u8 x, }
// c
)
    repeat char[
// " ++ [27880; 37322]%N ++ runes_of_ascii "
// trailing space 
007] stringy, string a1`doc` , zchar[
7
] A,
@lengthOf(	options1
// @lengthOf(
// a // b
) //
zchar[	00	] // packet A { u8 x, }
Foo  `two words` , @calculatedFrom(
""1"" )  @leftPad( ' ' ) @leftPad( ' ' ) repeat u8 options1, uint8 i64_`" ++ [233]%N ++ runes_of_ascii "` ,
@tag( 10 )
    @lengthOf( i8i8	)@lengthOf(
// " ++ [27880; 37322]%N ++ runes_of_ascii "
// `tick` ""quote"" 'q'
i64_
)
    //x
    match A as	packetx {
    10	:
asx
, [ ""\n""
    ,65535 , ""{,}"", 007, ""CRC32"" ] : metadata 00	: o ,
} // c
,}
")).
Eval vm_compute in ("<<<M264>>>" ++ check (runes_of_ascii "root packet u8x
    {
    // trailing space 
    repeat u64 Pad
    , i64_ @calculatedFrom(
""x y"" /// triple
) `100% of %d`
// @lengthOf(
// a // b
, @calculatedFrom(
""a	b"" ) @lengthOf( Header ) @lengthOf( zchar ) i32
    A @lengthOf( falsey)//x
,	repeat zchar[// a // b
10 ]
f32a  `
` ,  repeat
    f64
rootA
    `line1
line2`
, // packet A { u8 x, }
match string_
    as
    o { 65535 : // a // b
options1 ,
// a // b
// " ++ [128512]%N ++ runes_of_ascii " emoji
""// no comment"": packetx ""\" ++ [233]%N ++ runes_of_ascii """
// c
//x
: lengthOf, 65535 :
BodyLength ,
""packet"":
a1
, }
    , @tag(
4294967296) @tag( 7
    )@rightPad (	'\x00'
    )
    repeat uint64 i8i8 , char[
    42 ]string_
`// not a comment` , } MetaData pack
    {x o
    `two words` , x As,uint64 BodyLength
    `// not a comment`,x a1`` , T
int
`it's` ,
} MetaData falsey
// a // b
// 50% %s
{ Header BodyLength `` , }root packet trueish {i16 // @lengthOf(
trueish	@calculatedFrom( ""`tick`"")`line1
line2`
, f64 As ,string T	@lengthOf(
    pack )	`100% of %d` , @lengthOf(
    matchKey )repeat // " ++ [128512]%N ++ runes_of_ascii " emoji
char[ 00 ]
    lengthOf
// packet A { u8 x, }
// c
`line1
line2` , zchar[ 3 ]_x @calculatedFrom(
""`tick`"" )
    // " ++ [128512]%N ++ runes_of_ascii " emoji
    ,
// " ++ [27880; 37322]%N ++ runes_of_ascii "
// trailing space 
@tag( 00) //	t
zchar[4294967296
]  msg_type , repeat body,
Logon , @tag( 1
    ) @calculatedFrom( ""packet"")
zchar[ 3 ] Z9_ , }
")).
Eval vm_compute in ("<<<M1879>>>" ++ check (runes_of_ascii "packet A {
    @rightPad(
        ' '
        )
    // trailing space 
    zchar[42] MetaDataX,
    repeat int32 Logon,
    leftPad string_,
    @calculatedFrom(""packet"")
    char[3] Logon `{ , }`,
    match crc as _x {
        65535 : float,
        00 : BodyLength,
        [
            """ ++ [128512]%N ++ runes_of_ascii """, ""a\\"", ""a\""b"", ""// no comment"", ""\n"",
            255
        ] : MetaDataX,
        0 : u8x,
    },
}

options {
    zchar = false;
    i64_ = zchar[7];
    BodyLength = ""1""
    i8i8 = true;
    _x = ""// no comment"";
}

packet crc {
    match As as zchar {
        0 : leftPad,
        [
            0, 255, """ ++ [233]%N ++ runes_of_ascii "t" ++ [233]%N ++ runes_of_ascii """, ""x y"", ""`tick`"",
            4294967296, """ ++ [233]%N ++ runes_of_ascii "t" ++ [233]%N ++ runes_of_ascii """, """"
        ] : stringy,
        [
            0, ""{,}"", ""packet"", 3, 65535,
            42, ""packet"", 0
        ] : A,
        00 : x,
    },
    @tag(42)
    match chars as x {
        [""packet"", 65535] : T,
        """ ++ [28040; 24687]%N ++ runes_of_ascii """ : float,
        """ ++ [28040; 24687]%N ++ runes_of_ascii """ : packetx,
        0 : trueish,
        """ ++ [128512]%N ++ runes_of_ascii """ : pack,
    },// packet A { u8 x, }
    @calculatedFrom(""abc"")
    stringy pack,
}

packet msg_type {
}")).
Eval vm_compute in ("<<<M1422>>>" ++ check (runes_of_ascii "options { LittleEndian
    =

true
; StringPrefixLenType =u8
	;  ArrayPrefixLenType = u8
    ; FixedStringPadFromLeft=

    true; FixedStringPadChar =  '0' ; }packet
	Logon { repeat
	i8
Ref	, @rightPad 
( '0'
) 
char[

8

    ] msgKind,
repeat 
InOrderid72
{

u8
Side2 ,	uint32	Qty  ,repeat	InPrice27 {
    repeat
    char[ 4

    ] 
Acct
,

u64 sym

,  }  ,zchar[ 4 
]  clOrdID,int16	lastPx ,InAcct22{ repeat
char[
	3

    ] OrderId , } ,

} 
,int64

Px,

}

    packet 
Fill {
    uint16 Qty
,
repeat
	char[	1
    ]  Flags

    ,
    i8
Ref 
,}  packet
	Logout

    {@leftPad
(
'0'	)	char[ 3
	]
	x
,
	int8

    f1	,
	Logon
,
uint16 venue 
,
zchar[2

]Px	,

}
packet  Reject
{	}
	root
    packet  Leg 
{

Fill , u16 msgKind,
    match
msgKind as	Body  {
	[
	182

    ,

    83]
    :
Fill  , 199 :	Reject,

    137  :Logout,35:Logon
,} , u32
lastPx
    @calculatedFrom(	""CRC32""  ) 
,
}

")).
Eval vm_compute in ("<<<M163>>>" ++ check (runes_of_ascii "packet i8i8 {
// trailing space 
// " ++ [27880; 37322]%N ++ runes_of_ascii "
MetaDataX @lengthOf( chars) `" ++ [233]%N ++ runes_of_ascii "` , // 50% %s
char[]	u128@lengthOf( u8x ) , @lengthOf(
T )
float64 repeatCount ,
    @tag( 00 )
    MetaDataX ,
// a // b
// trailing space 
uint64 chars
    `tab	here` , string_/// triple
@lengthOf( As
    )	`` //
, zchar[
00 ] asx@lengthOf( /// triple
metadata
)
    `line1
line2` ,
@lengthOf(	charz )
charz
f32a
`" ++ [28040; 24687; 31867; 22411]%N ++ runes_of_ascii "` , @rightPad(	'\x00'
)repeat BodyLength tag , } packet
repeatCount {
crc stringy ,}options
{ zchar = char[]/// triple
;
    options1 = false repeatCount
=""a	b"" body = ""`tick`""}
// a // b
//x
MetaData MetaDataX
{ Pad repeatCount `u8 x,`
,
char[ 42 ] f32a ``
    , _x	Z9_  ,
} packet
Logon { @tag( 007 ) o {
char
Packet
    @lengthOf( repeatCount )
    //
    ,} , } // a // b")).
Eval vm_compute in ("<<<M1641>>>" ++ check (runes_of_ascii "packet crc {
    // a // b
    @tag(4294967296)
    @leftPad('\x00'  )
    repeat zchar[4294967296] Packet,
    @leftPad( '0')
    @tag(3)
    @tag(7)
    repeat matchKey {
        u32 u,
    },
    @lengthOf(chars)
    /// triple
    @calculatedFrom(""a	b"")
    @tag(0123456789)
    zchar[255] Pad,
    repeat uint64 u128 `two words`,
    @calculatedFrom(""abc"")
    i8 packetx,
    string lengthOf,// " ++ [27880; 37322]%N ++ runes_of_ascii "
}

root packet stringy {
    @leftPad(
        '0' )
    matchKey roots,
    // @lengthOf(
    // trailing space 
    @tag(7)
    int8 A @lengthOf(repeatCount) `{ , }`,
    repeat u {
        // " ++ [27880; 37322]%N ++ runes_of_ascii "
        int16 Foo `it's`,
        string u,
    },
}// @lengthOf(")).
Eval vm_compute in ("<<<M107>>>" ++ check (runes_of_ascii "  MetaData As { }
packet// 50% %s
rootA {
    zchar[ 4294967296	]  uint8x, @calculatedFrom( ""`tick`"") f64 asx	@calculatedFrom(""a\""b""
), @leftPad('\x00'
    // trailing space 
    )// @lengthOf(
@calculatedFrom(""1""	)
    @lengthOf( stringy // " ++ [128512]%N ++ runes_of_ascii " emoji
)repeat float falsey `say ""hi""` , repeat // @lengthOf(
i64 A  ,
    // a // b
    @leftPad // trailing space 
( ' ') @calculatedFrom( ""it's"" )
chars	{  repeat char[] rootA ,  } , } packet roots{ @calculatedFrom( ""x y"")
@lengthOf( crc ) u8 tag ,} MetaData
    body // trailing space 
{
T	msg_type , _x
Logon `two words`
,
    }
")).
Eval vm_compute in ("<<<M1888>>>" ++ check (runes_of_ascii "root packet matchKey {
}

MetaData u {
}

packet zchar {
    uint32 Z9_ @lengthOf(A) `" ++ [233]%N ++ runes_of_ascii "`,
    @calculatedFrom(""packet"")
    @tag(0123456789)
    Header @calculatedFrom(""1"") `say ""hi""`,
    @lengthOf(repeatCount)
    u8 stringy @lengthOf(x),
    string string_ @calculatedFrom(""{,}""),
    zchar[4294967296] tag,
    char[] trueish @calculatedFrom(""`tick`"") `doc`,
    float32 repeatCount @lengthOf(charz) `" ++ [233]%N ++ runes_of_ascii "`,
    @rightPad( )
    repeat f64 lengthOf `tab	here`,
    @rightPad( '0' )
    @calculatedFrom(""a\""b"")
    roots,
}")).
Eval vm_compute in ("<<<M315>>>" ++ check (runes_of_ascii "root packet float  {  repeat
calculatedFrom
metadata`say ""hi""` , Pad
{ // " ++ [27880; 37322]%N ++ runes_of_ascii "
repeat string o `" ++ [233]%N ++ runes_of_ascii "`
    ,
match string_ //	t
as	u8x{// trailing space 
[ ""abc""] :
pack ,  [
    ""a	b"" ]
: // `tick` ""quote"" 'q'
len 00
: x  [ ""packet""  ] : uint8x
    , [
    ""abc"" , """"
    //	t
    ,""{,}"", 0123456789,
""`tick`"", """ ++ [28040; 24687]%N ++ runes_of_ascii """
    ]://
Foo ,	}, f64
a1
    // c
    `doc`
, }
, char[]	Pad `{ , }`  , } root packet a1 { repeat i64_ stringy	, // 50% %s
}
MetaData Packet {int32 tag , }")).
Eval vm_compute in ("<<<M1789>>>" ++ check (runes_of_ascii "packet 
Frame
    {

    u8
HK , u8
    BK	,

u8 TK ,
	match
HK  as Hdr
    { 
1 
:

HdrA

    ,
    2

:
	HdrB

, 
} 
,
match
    BK

    as 
Body

{ 1	: 
BodyA,
    2 : BodyB
	,
}  ,

    match  TK 
as Trl {1:	TrlA ,
}
, 
}

    packet	HdrA
{
	u8
a ,
}
packet
	HdrB

{
u16
b
, }

packet BodyA{

    u32 c  ,

    }
packet
BodyB
	{

u64	d
, }
	packet TrlA{
u8 
e
, } 
root packet Msg  {
Frame
	,
u8	x ,  } ")).
Eval vm_compute in ("<<<M1346>>>" ++ check (runes_of_ascii "packet NewOrder {
    u32 qty,
}
packet Cancel {
    u64 id,
}
packet Business {
    u8 Kind,
    match Kind as Detail {
        1 : NewOrder,
        2 : Cancel,
    },
}
packet TcpFrame {
    u8 T,
    match T as Body {
        1 : Business,
    },
}
packet UdpFrame {
    u8 U,
    match U as Body {
        1 : Business,
    },
    Business extra,
}
root packet Wire {
    TcpFrame,
    UdpFrame,
}
")).
Eval vm_compute in ("<<<M304>>>" ++ check (runes_of_ascii "  options { }
root packet chars { @rightPad ('0'	)chars f32a
`say ""hi""`, int16 u8x , @tag(4294967296)
@rightPad// packet A { u8 x, }
() u64 packetx
    @calculatedFrom(  ""it's"" ), @calculatedFrom(
    // `tick` ""quote"" 'q'
    ""\n"" ) o @calculatedFrom( ""a\""b"" )
, Logon
@lengthOf(BodyLength), }
options
{ } MetaData zchar{u64 MetaDataX`// not a comment` ,	} 	 ")).
Eval vm_compute in ("<<<M196>>>" ++ check (runes_of_ascii "MetaData // 50% %s
body
    {
    Foo Packet `a\` ,T float , int64
Logon
`// not a comment`,
zchar[ 0	]
i64_/// triple
`" ++ [28040; 24687; 31867; 22411]%N ++ runes_of_ascii "` , // `tick` ""quote"" 'q'
char[7 // @lengthOf(
] calculatedFrom , int16
Logon
    ,
} MetaData i64_{ int//
leftPad
`// not a comment`
,
trueish	Logon
    , string Header `doc`, // packet A { u8 x, }
}
")).
Eval vm_compute in ("<<<M69>>>" ++ check (runes_of_ascii "// " ++ [27880; 37322]%N ++ runes_of_ascii "
options
    { calculatedFrom
    = '\x00'
packetx= """ ++ [28040; 24687]%N ++ runes_of_ascii """
    ;i8i8 = """ ++ [28040; 24687]%N ++ runes_of_ascii """; body =
    '0' falsey= 10
} packet o {
    calculatedFrom
    {
    repeat
// c
// `tick` ""quote"" 'q'
zchar[0
    ] a1 , char[] f32a // trailing space 
`" ++ [28040; 24687; 31867; 22411]%N ++ runes_of_ascii "`
//x
// " ++ [128512]%N ++ runes_of_ascii " emoji
,
} ,	} // packet A { u8 x, }")).
Eval vm_compute in ("<<<M1391>>>" ++ check (runes_of_ascii "options {
    LittleEndian = true;
}
packet Sub {
    u8 a,
    @calculatedFrom(""CRC16"") u64 SubSum,
}
root packet Frame {
    u16 MsgType,
    u16 BodyLen @lengthOf(Body),
    Sub Body,
    string note,
    @calculatedFrom(""CRC16"") u64 Checksum,
    u8 tail,
}
")).
Eval vm_compute in ("<<<M1333>>>" ++ check (runes_of_ascii "packet
P1 
{
    u8
a
    , } packet P2
	{P1, }
packet

P3 { P2
	, P1 , } packet
P4 {	repeat
P3	,  P2 ,

    } root packet
P5{  P4
,
    P3
, P1

    ,

u8 K	,	match	K as

Body { 4 :
    P4
	,

3

: P3 ,
    2 : 
P2
	,  1
:

    P1 
,
},}
")).
Eval vm_compute in ("<<<M462>>>" ++ check (runes_of_ascii "packet
    asx { @calculatedFrom(
""""  ) @tag( 255 )repeat
// packet A { u8 x, }
// trailing space 
int16 u8x
,
@tag(
    //
    007 ) )
    @tag( 0
    /// triple
    ) @tag( 1) u
    @lengthOf( T ),
// `tick` ""quote"" 'q'
//x
} // " ++ [128512]%N ++ runes_of_ascii " emoji")).
Eval vm_compute in ("<<<M403>>>" ++ check (runes_of_ascii "packet
    asx { """"
@calculatedFrom(  ) @tag( 255 )repeat
// packet A { u8 x, }
// trailing space 
int16 u8x
,
@tag(
    //
    007 )
    @tag( 0
    /// triple
    ) @tag( 1) u
    @lengthOf( T ),
// `tick` ""quote"" 'q'
//x
} // " ++ [128512]%N ++ runes_of_ascii " emoji")).
Eval vm_compute in ("<<<M1285>>>" ++ check (runes_of_ascii "// top
options // c0a
  // c0b
{
    // c1
FixedStringPadFromLeft // c2a
  // c2b
= // c3a
  // c3b
true ; // c5
}
    // c6
root // c7
packet
    // c8
P // c9a
  // c9b
{ char[ // c11
4 // c12
]
    // c13
z , // c15
} // c16a
  // c16b
")).
Eval vm_compute in ("<<<M1796>>>" ++ check (runes_of_ascii "
packet
	uint8x {

    u64 f32a
@calculatedFrom(

""`tick`"" 
)

,
	match  tag
	as
leftPad 
{ """ ++ [233]%N ++ runes_of_ascii "t" ++ [233]%N ++ runes_of_ascii """
	:
charz  // 50% %s
	, 
} ,	@leftPad(	' '	)	int32 x_y_z// a // b
,
}
	options
	{matchKey

=uint16
;
}  // `tick` ""quote"" 'q'
")).
Eval vm_compute in ("<<<M1679>>>" ++ check (runes_of_ascii "options {
    i8i8 = 00
    matchKey = 4294967296
    msg_type = ' '
    metadata = 4294967296
}//

packet u8x {
    @tag(4294967296)
    @leftPad( /// triple
        '0'  )
    @tag(1)
    asx A `// not a comment`,
}")).
Eval vm_compute in ("<<<M1336>>>" ++ check (runes_of_ascii "  root

packet

Frame

{

    u8  K
	,

    Logon

first , match

K as Body

{
1
	:
	Logon,
	2
: Logout
    ,
}  , } packet

Logon {string user	,
    }

packet

    Logout
{u16 reason	,	} ")).
Eval vm_compute in ("<<<M667>>>" ++ check (runes_of_ascii "MetaData u
    { } MetaData o
{ float uint8x
`100% of %d` ,repeatCount u8x, string_ leftPad
, i32
    Foo , int64 x `two words` , calculatedFrom calculatedFrom
stringy `a\` ,
}
")).
Eval vm_compute in ("<<<M1616>>>" ++ check (runes_of_ascii "
MetaData
len { }packet	int
{
	repeat 
char[
	1

] 
stringy, } // a // b
    packet  MetaDataX
    {

zchar[ 
10	]leftPad@calculatedFrom(

    ""// no comment"" ) , }
")).
Eval vm_compute in ("<<<M597>>>" ++ check (runes_of_ascii "MetaData u
    { } MetaData o
{ float uint8x
`100% of %d` , ,repeatCount u8x, string_ leftPad
, i32
    Foo , int64 x `two words` , calculatedFrom
stringy `a\` ,
}
")).
Eval vm_compute in ("<<<M554>>>" ++ check (runes_of_ascii "MetaData [
    { } MetaData o
{ float uint8x
`100% of %d` ,repeatCount u8x, string_ leftPad
, i32
    Foo , int64 x `two words` , calculatedFrom
stringy `a\` ,
}
")).
Eval vm_compute in ("<<<M250>>>" ++ check (runes_of_ascii "packet _x { @calculatedFrom( ""packet"" ) char[]
    T
    `" ++ [28040; 24687; 31867; 22411]%N ++ runes_of_ascii "`
,@calculatedFrom(
""" ++ [28040; 24687]%N ++ runes_of_ascii """	) f64
pack `" ++ [233]%N ++ runes_of_ascii "` , @calculatedFrom(
""a	b"" ) repeat crc`100% of %d` //
,
}
")).
Eval vm_compute in ("<<<M706>>>" ++ check (runes_of_ascii "MetaData u
    { } MetaData o
{ float x" ++ [178]%N ++ runes_of_ascii "
`100% of %d` ,repeatCount u8x, string_ leftPad
, i32
    Foo , int64 x `two words` , calculatedFrom
stringy `a\` ,
}
")).
Eval vm_compute in ("<<<M680>>>" ++ check (runes_of_ascii "MetaData u
    { } MetaData o
{ float uint8x
`100% of %d` ,repeatCount u8x, string_ leftPad
, i32
    Foo , int64 x `two words` , calculatedFrom
stringy")).
Eval vm_compute in ("<<<M675>>>" ++ check (runes_of_ascii "MetaData u
    { } MetaData o
{ float uint8x
`100% of %d` ,repeatCount u8x, string_ leftPad
, i32
    Foo , int64 x `two words` , calculatedFrom")).
Eval vm_compute in ("<<<M119>>>" ++ check (runes_of_ascii "packet len { // " ++ [128512]%N ++ runes_of_ascii " emoji
Pad,  @tag( //	t
4294967296 ) @calculatedFrom( ""{,}""
    ) char[
0123456789 ] o @calculatedFrom(
""it's"" ) ,}
")).
Eval vm_compute in ("<<<M966>>>" ++ check (runes_of_ascii "packet A {
    Inner {
        u8 x `100% of %s %d %v`,
        Deep {
            u8 y `100% of %s %d %v`,
        },
    },
}")).
Eval vm_compute in ("<<<M1549>>>" ++ check (runes_of_ascii "  MetaData float
    { repeatCount	zchar ,
    charz

a1 
,

    i64_
    /// triple
	string_  , float64	trueish

,}
")).
Eval vm_compute in ("<<<M1203>>>" ++ check (runes_of_ascii "options // c
{ } options { MetaDataX = char ; } MetaData Pad { i8 metadata , string stringy , int8 As `{ , }` , }")).
Eval vm_compute in ("<<<M1235>>>" ++ check (runes_of_ascii "options { } options { MetaDataX = char ; } MetaData Pad { i8 metadata , string // c
stringy , int8 As `{ , }` , }")).
Eval vm_compute in ("<<<M908>>>" ++ check (runes_of_ascii "packet A {
  match k as n {
    [""a"", 22, ""c c"", 4, ""e"", 66, ""g"", 8, ""i"", 10, ""k"", 12] : B,
    2 : C
  },
}")).
Eval vm_compute in ("<<<M273>>>" ++ check (runes_of_ascii "MetaData
float {
repeatCount zchar,
charz
a1 , i64_
    /// triple
    string_	, float64 trueish,	}
")).
Eval vm_compute in ("<<<M1280>>>" ++ check (runes_of_ascii "  packet 
B  {
u8 a  , string  s ,
} root packet P
	{	u16
L@lengthOf(

    B
),B 
,	u8

t

,

}")).
Eval vm_compute in ("<<<M635>>>" ++ check (runes_of_ascii "MetaData u
    { } MetaData o
{ float uint8x
`100% of %d` ,repeatCount u8x, string_ leftPad
,")).
Eval vm_compute in ("<<<M1664>>>" ++ check (runes_of_ascii "packet A {
    match k as n {
        [""a"", 22, ""c c"", 4, ""e""] : B,
        2 : C,
    },
}")).
Eval vm_compute in ("<<<M246>>>" ++ check (runes_of_ascii "
MetaData calculatedFrom {
x
    float
,
//x
//	t
T lengthOf
, }root packet Pad
{ }
")).
Eval vm_compute in ("<<<M1286>>>" ++ check (runes_of_ascii "
options{
	FixedStringPadFromLeft =	true  ; }root 
packet
P
{  char[	4 ]
z
	,
}
")).
Eval vm_compute in ("<<<M988>>>" ++ check (runes_of_ascii "packet A {
    u32 crc @calculatedFrom(""\
""),
    @calculatedFrom(""\
"") u8 y,
}")).
Eval vm_compute in ("<<<M809>>>" ++ check (runes_of_ascii "packet A {
  match k as n {
    [""a"", ""bb"", 007, ""d""] : B
    2 : C
  },
}")).
Eval vm_compute in ("<<<M806>>>" ++ check (runes_of_ascii "packet A {
  match k as n {
    [1, 22, ""c c"", 4] : B,
    2 : C
  },
}")).
Eval vm_compute in ("<<<M1291>>>" ++ check (runes_of_ascii "root packet P {
    u16 a,
    u32 Sum @calculatedFrom(""CRC32""),
}
")).
Eval vm_compute in ("<<<M783>>>" ++ check (runes_of_ascii "packet A {
  match k as n {
    [""a"", 22] : B
    2 : C
  },
}")).
Eval vm_compute in ("<<<M1450>>>" ++ check (runes_of_ascii "options {
    a = ""x\
        y"";
    b = ""x\
        y""
}")).
Eval vm_compute in ("<<<M1533>>>" ++ check (runes_of_ascii "  MetaData M {
    u8 x
	`a

b`
,  T
	t

`a

b` ,} ")).
Eval vm_compute in ("<<<M20>>>" ++ check (runes_of_ascii "options	{ Logon = """ ++ [28040; 24687]%N ++ runes_of_ascii """
; BodyLength= false ; }")).
Eval vm_compute in ("<<<M973>>>" ++ check (runes_of_ascii "MetaData M {
    u8 x `%`,
    T t `%`,
}")).
Eval vm_compute in ("<<<M1194>>>" ++ check (runes_of_ascii "options { A = ""// no comment"" }
// c
")).
Eval vm_compute in ("<<<M1415>>>" ++ check (runes_of_ascii "packet
A {u8
x `a
    b
  c` ,  }")).
Eval vm_compute in ("<<<M745>>>" ++ check (runes_of_ascii "as u8 char float64 u16 : uint64")).
Eval vm_compute in ("<<<M1951>>>" ++ check (runes_of_ascii "
packet A

    {
	}
// c" ++ [8239]%N)).
Eval vm_compute in ("<<<M1860>>>" ++ check (runes_of_ascii "  packet	A{ } 
// c x
 
")).
Eval vm_compute in ("<<<M1123>>>" ++ check (runes_of_ascii "
// c
MetaData tag { }")).
Eval vm_compute in ("<<<M570>>>" ++ check (runes_of_ascii "MetaData u
    { }")).
Eval vm_compute in ("<<<M1075>>>" ++ check (runes_of_ascii "packet A {
}
// c" ++ [6158]%N)).
Eval vm_compute in ("<<<M1170>>>" ++ check (runes_of_ascii "packet x
// c
{ }")).
Eval vm_compute in ("<<<M755>>>" ++ check (runes_of_ascii "
'" ++ [17]%N ++ runes_of_ascii "=" ++ [65533; 65533; 65533]%N ++ runes_of_ascii "M" ++ [65533; 65533; 1631]%N)).
Eval vm_compute in ("<<<M757>>>" ++ check (runes_of_ascii "char")).
