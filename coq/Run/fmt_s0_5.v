From FP Require Import Lexer Parser ShowPT Digest Formatter.
From Coq Require Import String List NArith.
Import ListNotations.
Open Scope string_scope.
Set Printing Width 100000000.
Set Printing Depth 100000000.
Definition show_fres (r : fres) : string :=
  match r with
  | FOk s => "OK:" ++ sh_escaped s ""
  | FErr s => "ERR:" ++ sh_escaped s ""
  | FPanic p => "PANIC:" ++ p
  end.
Definition check (rs : list rune) : string := digest (show_fres (format_res rs)).
Definition full (rs : list rune) : string := show_fres (format_res rs).
Eval vm_compute in ("<<<M1469>>>" ++ check (runes_of_ascii "packet Z9_ {
    @calculatedFrom(""1"")
    match body as u8x {
        [7] : u,
        [
            7, 00, 00, ""a\""b"", """",
            ""\n""
        ] : charz,
        1 : Packet,
        """ ++ [28040; 24687]%N ++ runes_of_ascii """ : f32a,
        00 : len,
    },
    @lengthOf(calculatedFrom)
    MetaDataX,
    Packet @lengthOf(int),
    repeat char[7] calculatedFrom,
    @calculatedFrom(""a\\"")
    zchar[255] f32a @calculatedFrom(""" ++ [233]%N ++ runes_of_ascii "t" ++ [233]%N ++ runes_of_ascii """),
    @calculatedFrom(""a\""b"")
    char[7] i8i8 @calculatedFrom(""a\\"") `crlf
        line`,
    zchar[0123456789] x `line1
        line2`,
    @leftPad()
    repeat u64 stringy,
    @lengthOf(x)
    repeat body {
        //	t
        Z9_ {
            repeat asx,
            repeat crc i64_,
            repeat rootA {
                repeat rootA MetaDataX `line1
                                line2`,
                match i64_ as calculatedFrom {
                    7 : x,
                    [7] : stringy,
                    ""1"" : i8i8,
                    [
                        42, 10, 255, 0, 10,
                        ""1"", """ ++ [233]%N ++ runes_of_ascii "t" ++ [233]%N ++ runes_of_ascii """
                    ] : u,
                    ""x y"" : i8i8,
                },
                uint64 _x `
                                `,
                char[0] i64_ @calculatedFrom(""CRC32""),
            },
            x_y_z {
                char[] T,
            },
        },
        repeat u64 Foo `a\`,
        uint8 uint8x,
        match roots as chars {
            1 : _x,
            ""a\""b"" : uint8x,
            42 : metadata,
            // `tick` ""quote"" 'q'
            [255, ""\n""] : zchar,
            [3, 4294967296, 0123456789, """ ++ [233]%N ++ runes_of_ascii "t" ++ [233]%N ++ runes_of_ascii """, ""x y""] : metadata,
            [""it's"", ""// no comment""] : Z9_,
        },
    },
}// a // b

MetaData rootA {
    char[4294967296] msg_type,
    char[] u128,
    uint64 a1,
    int8 crc,
    Pad msg_type `doc`,
}

//	t
/// triple
packet x_y_z {
    @lengthOf(crc)
    match packetx as f32a {
        0123456789 : A,
        00 : u,
    },
}")).
Eval vm_compute in ("<<<M156>>>" ++ check (runes_of_ascii "packet
A { @rightPad ( '0' ) repeat	i8i8
    { zchar[ 007 ]
    packetx,
    metadata `" ++ [28040; 24687; 31867; 22411]%N ++ runes_of_ascii "` ,	repeat float64  T ,}, @tag(0)Z9_ { int
@lengthOf( tag
)`line1
line2`
, repeat i8i8 // packet A { u8 x, }
{  zchar[  00 ]stringy
,
repeat f32a{ match i64_ //
as
    string_ {[ 255 , ""{,}"" , 0123456789 ]
: x_y_z
, """ ++ [233]%N ++ runes_of_ascii "t" ++ [233]%N ++ runes_of_ascii """ : A
, ""`tick`"" : len ,} , } ,
    //
    repeat u8x {u16 Z9_
@calculatedFrom(""" ++ [128512]%N ++ runes_of_ascii """ ) `line1
line2` ,f32 matchKey
    ,} ,// " ++ [27880; 37322]%N ++ runes_of_ascii "
float64 u8x `
`,
    },//
} , // `tick` ""quote"" 'q'
a1	{ repeat
    // trailing space 
    zchar[ 007
] Foo `two words`
,f32a	@calculatedFrom( """ ++ [28040; 24687]%N ++ runes_of_ascii """// trailing space 
) ,int64 i64_  @calculatedFrom( // trailing space 
""`tick`"" ) , } ,
    @lengthOf(
    // c
    Header )	f32
stringy @calculatedFrom(
""x y"" )`say ""hi""` , Foo , float64
BodyLength@calculatedFrom( // " ++ [27880; 37322]%N ++ runes_of_ascii "
""packet"") ,
    uint32
// packet A { u8 x, }
//
int
//
//x
, } packet string_{ @tag( 4294967296
) repeat u
`two words` , repeat zchar[ 0 ]
BodyLength
, @tag( 255 )/// triple
int `line1
line2` ,	uint8x`it's`,@tag(
65535 )
int8
    metadata
`" ++ [233]%N ++ runes_of_ascii "` ,/// triple
match
options1
//x
// " ++ [128512]%N ++ runes_of_ascii " emoji
as
    float// packet A { u8 x, }
{ 3: f32a , """ ++ [28040; 24687]%N ++ runes_of_ascii """
    : charz
,}
,match uint8x	as
string_ { ""CRC32"" //x
:
x
, } , uint8	packetx`crlf
line` ,
@leftPad (
)
    zchar[
0
] Foo `say ""hi""`, }
")).
Eval vm_compute in ("<<<M359>>>" ++ check (runes_of_ascii "root	packet // @lengthOf(
repeatCount {
    @lengthOf(u8x
) @calculatedFrom(""1"" ) @tag( 007 ) repeat zchar[
42 ] Header
    `" ++ [28040; 24687; 31867; 22411]%N ++ runes_of_ascii "` , match options1 as asx
{ 255
    // `tick` ""quote"" 'q'
    :
    roots , }, // a // b
Header
    @lengthOf(
    // a // b
    options1	) `` , Header //	t
@lengthOf(
    len )`{ , }`
, o matchKey `u8 x,` ,} packet packetx {zchar[
255
]
crc
    , }
    packet
    Logon {
    body { float { repeat Logon  trueish ,  } , } ,	@calculatedFrom(
    // `tick` ""quote"" 'q'
    ""`tick`"" ) repeat char[
    0] f32a
,match body
    as
    float {[65535
, """ ++ [28040; 24687]%N ++ runes_of_ascii """
    ] :
calculatedFrom ,}
, u32 float@calculatedFrom(
    """ ++ [233]%N ++ runes_of_ascii "t" ++ [233]%N ++ runes_of_ascii """ // @lengthOf(
)
, string body @lengthOf( len
    )`
` //
, u8x
@calculatedFrom( ""a\""b"")
    //	t
    , //	t
float64 options1@calculatedFrom(""" ++ [128512]%N ++ runes_of_ascii """ )`it's`
    ,
//x
// trailing space 
match crc as chars
    {
3
: options1 // @lengthOf(
, [ 10 ] :_x  [ ""{,}""
] :options1
,[ ""CRC32"", ""a\\""  ,
""a\\"" , ""packet"", 7
    // `tick` ""quote"" 'q'
    ]
:
As
    } , i16 msg_type , }")).
Eval vm_compute in ("<<<M13>>>" ++ check (runes_of_ascii "root
    packet	roots{ // `tick` ""quote"" 'q'
} options	{	asx =
    ""\n"" ; x_y_z =
3 ;rootA = ""CRC32""
    ;float=char  T = false
; }
packet falsey {
body { match u8x as /// triple
string_{ [
42,7 ,65535
    ,
    3 ,
    42 ,7 , ""1""
    , ""packet"" ]:
    // `tick` ""quote"" 'q'
    i64_ , [ ""abc""]
    :  Foo ,	""a\\""
    :
roots ,
    4294967296 :	stringy	}
    , //x
asx
`{ , }` // " ++ [128512]%N ++ runes_of_ascii " emoji
, i8
charz@lengthOf( // trailing space 
x_y_z)// trailing space 
`a\` ,}
    // @lengthOf(
    , @tag( 65535 ) i64_ @lengthOf( tag )`u8 x,`
// a // b
//	t
,Z9_@lengthOf( int )
, @calculatedFrom( ""a\""b""
)uint16  stringy @lengthOf( trueish ) , Logon	{string  Logon `say ""hi""` , packetx
i64_ , match msg_type as	float
{ ""\n"" : i64_,	[
""" ++ [128512]%N ++ runes_of_ascii """
    ]
:
metadata , // `tick` ""quote"" 'q'
[
// trailing space 
// " ++ [128512]%N ++ runes_of_ascii " emoji
10, ""1""  ]
:zchar ,
}
    , //x
}
    //x
    , Packet
    @calculatedFrom(""CRC32"" ), }
")).
Eval vm_compute in ("<<<M135>>>" ++ check (runes_of_ascii "
packet crc
    {@tag(	0)  @calculatedFrom(
    ""{,}""	) @rightPad ( ' ')	repeat uint8 lengthOf // a // b
,
    char[	42 ] float ,
    repeat a1 // packet A { u8 x, }
{ match
x_y_z as charz
    { [
00
, 4294967296,
//x
// a // b
""it's"",""" ++ [28040; 24687]%N ++ runes_of_ascii """ ] ://x
zchar,	[
    ""packet"" ,// c
""x y"",
""it's"" ,""abc"" ,
""it's""
    ] :string_ , 0 : Z9_
}
    // `tick` ""quote"" 'q'
    , // `tick` ""quote"" 'q'
} ,match u8x
as//x
pack {[ 0123456789
, ""x y""
] : // c
trueish /// triple
, }	,
    @calculatedFrom( ""a\""b""
    // c
    ) repeat string_ `a\`,
packetx@calculatedFrom(
""`tick`"" ) , int64 chars `say ""hi""` , @calculatedFrom(
""a	b"" )@leftPad (  '\x00'
) @lengthOf(
    repeatCount)u64
    falsey@calculatedFrom( ""\" ++ [233]%N ++ runes_of_ascii """
    )
,
repeat Header { repeat
    metadata , char[] chars`" ++ [28040; 24687; 31867; 22411]%N ++ runes_of_ascii "` , zchar[ 10] x_y_z `a\` ,	},
// trailing space 
// c
}
")).
Eval vm_compute in ("<<<M1349>>>" ++ check (runes_of_ascii "// top
options
    // c0
{ // c1a
  // c1b
LittleEndian // c2a
  // c2b
= // c3a
  // c3b
false // c4a
  // c4b
; // c5a
  // c5b
StringPrefixLenType // c6
= // c7a
  // c7b
u16 ; } // c10
packet Heartbeat // c12a
  // c12b
{ // c13a
  // c13b
@rightPad ( '0'
    // c16
) char[ 7 // c19
] // c20
seqNo , // c22a
  // c22b
uint64 // c23a
  // c23b
Tail , // c25a
  // c25b
i16 // c26
Flags // c27a
  // c27b
, // c28a
  // c28b
u16 // c29a
  // c29b
msgKind
    // c30
,
    // c31
} // c32a
  // c32b
root // c33
packet // c34a
  // c34b
Reject // c35a
  // c35b
{ zchar[ 3 // c38a
  // c38b
] // c39
tag7 // c40a
  // c40b
, // c41
repeat // c42a
  // c42b
Heartbeat , repeat string
    // c46
clOrdID
    // c47
,
    // c48
}
    // c49
")).
Eval vm_compute in ("<<<M1470>>>" ++ check (runes_of_ascii "options {
}

packet i8i8 {
    @tag(3)
    x @calculatedFrom(""it's""),
    @lengthOf(f32a)
    match rootA as uint8x {
        0 : string_,
        42 : Packet,
    },
    @leftPad('\x00')
    i64_ packetx `u8 x,`,
    @calculatedFrom(""x y"")
    matchKey {
        len,
    },
    @lengthOf(matchKey)
    @calculatedFrom(""abc"")
    @lengthOf(x_y_z)
    /// triple
    repeat metadata `line1
        line2`,
    lengthOf repeatCount,/// triple
    int32 roots @calculatedFrom(""`tick`"") `" ++ [233]%N ++ runes_of_ascii "`,
    zchar[1] Packet @calculatedFrom(""// no comment""),
}

packet options1 {
    @lengthOf(uint8x)
    A @calculatedFrom(""it's"") `doc`,
}

root packet crc {
    char[65535] chars,
}")).
Eval vm_compute in ("<<<M247>>>" ++ check (runes_of_ascii "
options { leftPad // packet A { u8 x, }
= 0
;
    //
    Logon
    =
char // `tick` ""quote"" 'q'
i64_ = '\x00'
; }
options { crc =
i32	; matchKey =
255
    leftPad = ' ' ; metadata= 42// trailing space 
; packetx =10
    }
root packet//
A { @calculatedFrom( ""x y"" // c
)/// triple
zchar[ 00]
f32a, @tag(
255 )
    zchar[
0123456789 ]	a1
@lengthOf(As )`" ++ [28040; 24687; 31867; 22411]%N ++ runes_of_ascii "`
    /// triple
    , int16 body, // `tick` ""quote"" 'q'
uint64
x
@calculatedFrom(""1""
//	t
// " ++ [128512]%N ++ runes_of_ascii " emoji
) // packet A { u8 x, }
`line1
line2` ,@lengthOf( Logon )char[
    0// packet A { u8 x, }
]float@calculatedFrom(
""abc"" ) ,
} MetaData u128 { }
")).
Eval vm_compute in ("<<<M1509>>>" ++ check (runes_of_ascii "packet u128 {
    // trailing space 
    string Header `say ""hi""`,
    repeat crc f32a,
    char[10] _x,
    @calculatedFrom(""x y"")
    repeat charz {
        Logon @lengthOf(T) `crlf
                line`,
        repeat char[0123456789] Z9_ `crlf
                line`,
    },
    match Packet as float {
        1 : lengthOf,
    },
    MetaDataX,
    match x as u8x {
        10 : crc,
    },
}

root packet Header {
    @calculatedFrom(""{,}"")
    a1 {
        char[007] pack,
        stringy zchar,
        repeat char[] o `it's`,
    },
}")).
Eval vm_compute in ("<<<M1795>>>" ++ check (runes_of_ascii "//	t
packet
    u8x  { u8x	{ body
	@calculatedFrom( ""`tick`""
) 
`say ""hi""` , match  a1
as
	asx // c
  {
//	t

0	:
    // " ++ [27880; 37322]%N ++ runes_of_ascii "

  // @lengthOf(

	asx}  ,}, 
@rightPad (
) match

    Logon as  x

{
    [00  ,
""// no comment""

    ,

""a\\"" , 0123456789
// trailing space 

, 4294967296] :crc	, 
00
: options1, 	 // " ++ [27880; 37322]%N ++ runes_of_ascii "
    42 : i8i8 ,
    0

:  o
	0123456789 :
body
, }	, @tag(
    7 
)
    float@lengthOf(

stringy	)`" ++ [233]%N ++ runes_of_ascii "` 
,
    u
        // c
    @lengthOf(msg_type
    )
    ,
    }")).
Eval vm_compute in ("<<<M335>>>" ++ check (runes_of_ascii "//	t
packet u8x  {
u8x { body
@calculatedFrom(	""`tick`"") `say ""hi""`
,match a1	as
    asx // c
{
    //	t
    0
    :
// " ++ [27880; 37322]%N ++ runes_of_ascii "
// @lengthOf(
asx }
    ,}
, @rightPad ( )
    match Logon as	x { [
    00 , ""// no comment"" , ""a\\"",0123456789
    // trailing space 
    ,
    4294967296 ] : crc , 00:options1 , // " ++ [27880; 37322]%N ++ runes_of_ascii "
42
    :i8i8,0 : o 0123456789
: body , } ,@tag(
7 )float
    @lengthOf(
stringy) `" ++ [233]%N ++ runes_of_ascii "`,
u
    // c
    @lengthOf( msg_type )
,
    }")).
Eval vm_compute in ("<<<M76>>>" ++ check (runes_of_ascii "packet rootA { repeat uint16 stringy `" ++ [233]%N ++ runes_of_ascii "`
,body
@lengthOf( stringy ) , int32 matchKey // " ++ [27880; 37322]%N ++ runes_of_ascii "
,
    @lengthOf(roots)@calculatedFrom( ""a\""b""
) @leftPad(' ') i64
    leftPad
@lengthOf( repeatCount )
`u8 x,` , //	t
f64 len
    @lengthOf( BodyLength// trailing space 
) `// not a comment` , @rightPad
(
)
    @leftPad ( '0')repeat
string len
, // c
char[] chars `two words`	, } //	t")).
Eval vm_compute in ("<<<M245>>>" ++ check (runes_of_ascii "MetaData float{ int16
// c
// " ++ [128512]%N ++ runes_of_ascii " emoji
chars , int8 _x
, char	charz ,
Header  u8x
    , u16 _x
,
    // @lengthOf(
    x_y_z repeatCount ,}	packet Foo
{ @tag(//	t
1  )
string Logon	`
`
, }//x
options{ zchar =  ' ' trueish = //x
""""
    leftPad =255 ;
}	root packet options1 {u64 packetx// `tick` ""quote"" 'q'
@calculatedFrom(""// no comment""  ) ``,}
")).
Eval vm_compute in ("<<<M377>>>" ++ check (runes_of_ascii "packet crc {match  trueish
    as
len {
42 : uint8x,// " ++ [128512]%N ++ runes_of_ascii " emoji
""1"" :asx ,	3
: body [ ""1"" , 0123456789]: u ""packet"" : o , } , } MetaData tag
{
    string
o `line1
line2`
,
char[] //
Header `{ , }`// c
,  uint8x Z9_, } MetaData
tag
{ i8 len , }
    options //x
{
// `tick` ""quote"" 'q'
/// triple
x= 10;
}
")).
Eval vm_compute in ("<<<M1138>>>" ++ check (runes_of_ascii "// top
MetaData // c0
leftPad // c1
{ // c2
chars // c3
MetaDataX // c4
, // c5
} // c6
packet // c7
repeatCount // c8
{ // c9
char[ // c10
255 // c11
] // c12
uint8x // c13
`" ++ [233]%N ++ runes_of_ascii "` // c14
, // c15
} // c16
MetaData // c17
pack // c18
{ // c19
As // c20
Foo // c21
, // c22
} // c23
")).
Eval vm_compute in ("<<<M1704>>>" ++ check (runes_of_ascii "packet A {
    // c2a
    // c2b
    u8 a,
}// c6a

// c6b
packet B {
    // c9
    u16 b,// c12
}// c13a

// c13b
root packet P {
    u8 K,
    match K as M {
        // c25a
        // c25b
        1 : A,
        // c29
        1 : B,
    },
}")).
Eval vm_compute in ("<<<M1668>>>" ++ check (runes_of_ascii "
packet
lengthOf { }  root
packet
leftPad {zchar[
    00  // a // b
]Foo  `` 	 // c
  ,
@calculatedFrom(	""1""
) @leftPad
(
' '
    // trailing space 
      // " ++ [27880; 37322]%N ++ runes_of_ascii "

	)

@leftPad (
	' '
)

repeat u8
	options1

,	}")).
Eval vm_compute in ("<<<M1425>>>" ++ check (runes_of_ascii "packet A 
{ 
u8

    a,
    }

    packet
    B

    {
	u16 b,

    }
    root packet P
    {u8  K,match
	K
as
M
	{ [
    1
    ,  2

] :
A,  3	:

    B
	,7 :

A  ,  }

,}")).
Eval vm_compute in ("<<<M1827>>>" ++ check (runes_of_ascii "root packet _x {
    uint32 trueish @calculatedFrom(""1"") `crlf
    line`,
}

//
packet Header {
    repeat u64 stringy `// not a comment`,
    float32 msg_type,
}")).
Eval vm_compute in ("<<<M441>>>" ++ check (runes_of_ascii "packet uint8x
{ match pack
    as msg_type	{
    0123456789 :	float float
}
,
} packet //	t
a1
    { } options {packetx
    = '\x00'	; u128= ""a	b""  ; }
")).
Eval vm_compute in ("<<<M403>>>" ++ check (runes_of_ascii "packet uint8x
007 match pack
    as msg_type	{
    0123456789 :	float
}
,
} packet //	t
a1
    { } options {packetx
    = '\x00'	; u128= ""a	b""  ; }
")).
Eval vm_compute in ("<<<M550>>>" ++ check (runes_of_ascii "packet uint8x
{ match pack
    as msg_type	{
    0123456789 :	caf" ++ [233]%N ++ runes_of_ascii "_1
}
,
} packet //	t
a1
    { } options {packetx
    = '\x00'	; u128= ""a	b""  ; }
")).
Eval vm_compute in ("<<<M507>>>" ++ check (runes_of_ascii "packet uint8x
{ match pack
    as msg_type	{
    0123456789 :	float
}
,
} packet //	t
a1
    { } options {packetx
    = '\x00'	u128 ;= ""a	b""  ; }
")).
Eval vm_compute in ("<<<M433>>>" ++ check (runes_of_ascii "packet uint8x
{ match pack
    as msg_type	{
    ""`tick`"" :	float
}
,
} packet //	t
a1
    { } options {packetx
    = '\x00'	; u128= ""a	b""  ; }
")).
Eval vm_compute in ("<<<M684>>>" ++ check (runes_of_ascii "// @lengthOf(
packet i8i8 { u128 o , }
options { MetaDataX = true;
    BodyLength =""packet"" x_y_z= 007
crc //x
= ""abc"" ;
    msg_type =
i16 } }")).
Eval vm_compute in ("<<<M681>>>" ++ check (runes_of_ascii "// @lengthOf(
packet i8i8 { u128 o , }
options { MetaDataX = true;
    BodyLength =""packet"" x_y_z= 007
crc //x
= ""abc"" ;
    msg_type i16
= }")).
Eval vm_compute in ("<<<M1544>>>" ++ check (runes_of_ascii "// top
options {
    // c1a
    // c1b
    FixedStringPadFromLeft = true;// c5a
}

// c6
root packet P {
    // c10
    char[4] z,
}// c16a")).
Eval vm_compute in ("<<<M37>>>" ++ check (runes_of_ascii "//
root /// triple
packet // trailing space 
pack {
@leftPad(
    ' ' )
    repeat trueish zchar ,	} root
    packet // " ++ [27880; 37322]%N ++ runes_of_ascii "
Header { }")).
Eval vm_compute in ("<<<M1922>>>" ++ check (runes_of_ascii "
options
{ 
Logon
    =
0} options  { 
msg_type = 3
    MetaDataX= 
    // " ++ [128512]%N ++ runes_of_ascii " emoji
      int8	uint8x
= """"	;	As
=
'0'
	}
")).
Eval vm_compute in ("<<<M1152>>>" ++ check (runes_of_ascii "MetaData leftPad { chars MetaDataX
// c
, } packet repeatCount { char[ 255 ] uint8x `" ++ [233]%N ++ runes_of_ascii "` , } MetaData pack { As Foo , }")).
Eval vm_compute in ("<<<M1184>>>" ++ check (runes_of_ascii "MetaData leftPad { chars MetaDataX , } packet repeatCount { char[ 255 ] uint8x `" ++ [233]%N ++ runes_of_ascii "` , } MetaData pack { As
// c
Foo , }")).
Eval vm_compute in ("<<<M1828>>>" ++ check (runes_of_ascii "packet A  {match 
k	as	n

    {

[""a""  , 22, 
""c c"" 
,4
,""e""
, 66  ,
	""g""	,
	8  ,
""i"" 
]
:	B	2
	:
	C 
}
	,}

")).
Eval vm_compute in ("<<<M1279>>>" ++ check (runes_of_ascii "options {
    LittleEndian = true;
}
root packet P {
    u16 a,
    u32 Sum @calculatedFrom(""CR\
C32""),
}
")).
Eval vm_compute in ("<<<M889>>>" ++ check (runes_of_ascii "packet A {
  match k as n {
    [""a"", ""bb"", 007, ""d"", ""e"", 66, ""g"", ""h"", 9, ""j""] : B
    2 : C
  },
}")).
Eval vm_compute in ("<<<M882>>>" ++ check (runes_of_ascii "packet A {
  match k as n {
    [1, ""bb"", 007, ""d"", 5, ""f"", 7, ""h"", 9, ""j""] : B,
    2 : C
  },
}")).
Eval vm_compute in ("<<<M630>>>" ++ check (runes_of_ascii "
packet
    a@tagsx {match u128 as lengthOf
{
//	t
// `tick` ""quote"" 'q'
255 : x ,
    } ,	}")).
Eval vm_compute in ("<<<M682>>>" ++ check (runes_of_ascii "// @lengthOf(
packet i8i8 { u128 o , }
options { MetaDataX = true;
    BodyLength =""packet""")).
Eval vm_compute in ("<<<M849>>>" ++ check (runes_of_ascii "packet A {
  match k as n {
    [""a"", ""bb"", 007, ""d"", ""e"", 66, ""g""] : B,
    2 : C
  },
}")).
Eval vm_compute in ("<<<M1811>>>" ++ check (runes_of_ascii "packet A {
    match k as n {
        [1, 22, 4, 5, ""c c""] : B,
        2 : C,
    },
}")).
Eval vm_compute in ("<<<M116>>>" ++ check (runes_of_ascii "root packet Z9_ { repeat lengthOf
pack , repeat
    A {	repeatCount`doc` ,
    },	}")).
Eval vm_compute in ("<<<M616>>>" ++ check (runes_of_ascii "
packet
    asx {match u128 as lengthOf
{
//	t
// `tick` ""quote"" 'q'
255 : x ,")).
Eval vm_compute in ("<<<M166>>>" ++ check (runes_of_ascii "packet calculatedFrom {repeat // packet A { u8 x, }
string Foo`{ , }`	, }
")).
Eval vm_compute in ("<<<M813>>>" ++ check (runes_of_ascii "packet A {
  match k as n {
    [1, 22, 007, 4, 5] : B,
    2 : C
  },
}")).
Eval vm_compute in ("<<<M1825>>>" ++ check (runes_of_ascii "packet u {
    @tag(10)
    tag @lengthOf(A),
    repeat options1,
}")).
Eval vm_compute in ("<<<M782>>>" ++ check (runes_of_ascii "packet A {
  match k as n {
    [1, ""bb""] : B,
    2 : C
  },
}")).
Eval vm_compute in ("<<<M751>>>" ++ check (runes_of_ascii "options @calculatedFrom( repeat } [ @tag( uint32 char[] ] :")).
Eval vm_compute in ("<<<M1093>>>" ++ check (runes_of_ascii "packet A { repeat // a
 B // b
 b // c
 `d` // e
 , }")).
Eval vm_compute in ("<<<M1218>>>" ++ check (runes_of_ascii "packet body { i32 f32a `{ , }` , } options {
// c
}")).
Eval vm_compute in ("<<<M233>>>" ++ check (runes_of_ascii "MetaData _x { i64 u128	, Packet Header, } 	 ")).
Eval vm_compute in ("<<<M1519>>>" ++ check (runes_of_ascii "
options{options1  =
	7

    ;

    }")).
Eval vm_compute in ("<<<M1092>>>" ++ check (runes_of_ascii "root // a
 packet // b
 A // c
 { }")).
Eval vm_compute in ("<<<M753>>>" ++ check (runes_of_ascii ":l" ++ [65533; 23]%N ++ runes_of_ascii "9" ++ [65533; 1549]%N ++ runes_of_ascii "F" ++ [65533; 65533; 65533; 65533]%N ++ runes_of_ascii "j)" ++ [65533; 65533; 27; 25; 65533; 65533; 261; 14; 65533]%N ++ runes_of_ascii "V" ++ [65533; 65533]%N ++ runes_of_ascii "4b-" ++ [65533; 65533]%N)).
Eval vm_compute in ("<<<M1077>>>" ++ check (runes_of_ascii "MetaData M {
}// c
options {}")).
Eval vm_compute in ("<<<M1685>>>" ++ check (runes_of_ascii "

  packet	A {
}  // c" ++ [160]%N)).
Eval vm_compute in ("<<<M1064>>>" ++ check (runes_of_ascii "packet A {
}// a// b")).
Eval vm_compute in ("<<<M1132>>>" ++ check (runes_of_ascii "MetaData u // c
{ }")).
Eval vm_compute in ("<<<M1027>>>" ++ check (runes_of_ascii "// c" ++ [8287]%N ++ runes_of_ascii "
packet A {
}")).
Eval vm_compute in ("<<<M1009>>>" ++ check (runes_of_ascii "packet A {
}// c" ++ [8232]%N)).
Eval vm_compute in ("<<<M1910>>>" ++ check (runes_of_ascii "packet pack {
}")).
Eval vm_compute in ("<<<M1040>>>" ++ check (runes_of_ascii "// c 	")).
Eval vm_compute in ("<<<M736>>>" ++ check (runes_of_ascii " " ++ [12]%N ++ runes_of_ascii " ")).
