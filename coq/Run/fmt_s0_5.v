From FP Require Import Lexer Parser ShowPT Digest Formatter.
From Coq Require Import String List NArith.
Import ListNotations.
Open Scope string_scope.
Set Printing Width 100000000.
Set Printing Depth 100000000.
Definition show_fres (r : fres) : string :=
  match r with
  | FOk s => "OK:" ++ sh_escaped s ""
  | FErr s => "ERR:" ++ sh_escaped s ""
  | FPanic p => "PANIC:" ++ p
  end.
Definition check (rs : list rune) : string := digest (show_fres (format_res rs)).
Definition full (rs : list rune) : string := show_fres (format_res rs).
Eval vm_compute in ("<<<M1601>>>" ++ check (runes_of_ascii "  packet

    metadata
{

    repeat

    f64  // " ++ [128512]%N ++ runes_of_ascii " emoji

Foo 
, repeat 
Logon	f32a
`
`	, 
@calculatedFrom(""1"")
repeat

    uint8  // trailing space 
  	calculatedFrom`u8 x,`
	, char[]packetx, 	 // packet A { u8 x, }
	@calculatedFrom(
	""abc""
)

    Pad@lengthOf( msg_type
	)

`line1
line2`, @rightPad ( ' '	)tag  `" ++ [233]%N ++ runes_of_ascii "` ,

@tag(10 
/// triple

) u8x	@calculatedFrom(
	""CRC32"" 
) 
,
match 
// trailing space 
	  // trailing space 

metadata as  msg_type 
    //
	// " ++ [27880; 37322]%N ++ runes_of_ascii "
{
    [
""\n""//x

,

0123456789  // c
    ]	:
options1

,""\n"":
	float  ,
}	, 
}
    packet 
    // " ++ [128512]%N ++ runes_of_ascii " emoji
	// " ++ [128512]%N ++ runes_of_ascii " emoji
    MetaDataX
{
string

string_  `doc` ,  @rightPad( '0'
)zchar[ 
        // " ++ [128512]%N ++ runes_of_ascii " emoji

// `tick` ""quote"" 'q'
	00

]
    zchar
`a\`
,
	}

    options	{ leftPad
= 0 float=4294967296;
    } // `tick` ""quote"" 'q'
root
packet  body { @calculatedFrom(

    ""1"")  @lengthOf(
	int

    )match

float
    as Z9_

{
    // packet A { u8 x, }
      // trailing space 
	42

    :

    x""packet"" 
: // `tick` ""quote"" 'q'
	  matchKey

, """ ++ [28040; 24687]%N ++ runes_of_ascii """ 

    /// triple
  	// packet A { u8 x, }
		:

o
,	255
:
    float},
@tag( 0123456789 
)match
	calculatedFrom as// @lengthOf(
	trueish  {  [""packet""
,
	""`tick`""//x

, 
""" ++ [233]%N ++ runes_of_ascii "t" ++ [233]%N ++ runes_of_ascii """
]:
MetaDataX
4294967296	: trueish
    , 3  :

    // trailing space 
  // packet A { u8 x, }
	i64_ ,

    0123456789
	:f32a

,[7
	,  //	t
  10 ,""CRC32"" 
,	""x y""	, ""\n"" 
    // `tick` ""quote"" 'q'
,""CRC32"" ,
	""`tick`""
    ]  // `tick` ""quote"" 'q'

:

    body
,  },

char[ 1  //
  ]

    Foo  // " ++ [128512]%N ++ runes_of_ascii " emoji

  ,@rightPad

    (

    ' ' 
)
    @calculatedFrom(// " ++ [27880; 37322]%N ++ runes_of_ascii "
	""a	b"")

    repeat 
string_{ repeat	Logon	// @lengthOf(
	,	Z9_
i8i8

,match

Z9_
as

    A
{

    [ 42 ]
	: Logon,
[
""CRC32""

    ,
	1,
    ""a\""b"" ,
4294967296
, 
0
, 
""\" ++ [233]%N ++ runes_of_ascii """
	] :	roots ""a\""b""	:MetaDataX 
, 255	: _x

, 
65535
    :rootA
	,}

    ,	match 
_x as Foo  {

    [  255
, """ ++ [28040; 24687]%N ++ runes_of_ascii """
, 	 // packet A { u8 x, }
    ""CRC32""
	, 
	    // c
  """ ++ [233]%N ++ runes_of_ascii "t" ++ [233]%N ++ runes_of_ascii """
,
    ""abc""
]

:	len  ""a\\""
    :	Pad
    0
    :

falsey
    ,

3
    : u128,  }	, // a // b

} , repeat 	 // packet A { u8 x, }
    	options1 int `{ , }`
    // packet A { u8 x, }
    //
    , }")).
Eval vm_compute in ("<<<M1683>>>" ++ check (runes_of_ascii "
options
{  StringPrefixLenType  =
u16;

    ArrayPrefixLenType  = u16 ;
}
packet 
SampleBinary {

    uint16 MsgType 
`" ++ [28040; 24687; 31867; 22411]%N ++ runes_of_ascii "` , u16
	BodyLenght @lengthOf(

Body

    ) 
`" ++ [28040; 24687; 20307; 38271; 24230]%N ++ runes_of_ascii "`
, match	MsgType

    as	Body
{

    1 : Logon  , 2 
:	Logout 
, 3 
:  Heartbeat
	,4 :
RiskControlRequest  , 5

    : RiskControlResponse ,
}	,	@calculatedFrom(
	""CRC32""

    )

u32  Ckecksum `" ++ [26657; 39564; 21644]%N ++ runes_of_ascii "`, }

packet
	Logon{
    @leftPad(

    '0'	)
char[10  ] UserName	`" ++ [29992; 25143; 21517]%N ++ runes_of_ascii "`
,
string

    Password 
`" ++ [23494; 30721]%N ++ runes_of_ascii "`
	,

    uint64
	ClientId

`" ++ [23458; 25143; 31471]%N ++ runes_of_ascii "ID`
,u16

HeartbeatInterval

`" ++ [24515; 36339; 38388; 38548]%N ++ runes_of_ascii "`

,

    }

packet 
Logout
    {

@rightPad(	'0'  )char[10
    ]
UserName `" ++ [29992; 25143; 21517]%N ++ runes_of_ascii "`, 
uint64 ClientId`" ++ [23458; 25143; 31471]%N ++ runes_of_ascii "ID` 
, }

packet
    Heartbeat
	{}
packet

RiskControlRequest
{string
    UniqueOrderId `" ++ [21807; 19968; 35746; 21333; 21495]%N ++ runes_of_ascii "` ,char[16
]
	ClOrdID
	`" ++ [23458; 25143; 35746; 21333; 21495]%N ++ runes_of_ascii "` 
, char[

3 
]MarketID `" ++ [24066; 22330]%N ++ runes_of_ascii "id`

    , char[ 12
]  SecurityID 
`" ++ [35777; 21048; 20195; 30721]%N ++ runes_of_ascii "`

,  char Side
    `" ++ [20080; 21334; 26041; 21521]%N ++ runes_of_ascii "` ,

    char  OrderType
	`" ++ [35746; 21333; 31867; 22411]%N ++ runes_of_ascii "` 
, u64  Price `" ++ [20215; 26684]%N ++ runes_of_ascii "`,	u32

    Qty	`" ++ [25968; 37327]%N ++ runes_of_ascii "`
,
repeat	string
ExtraInfo`" ++ [38468; 21152; 20449; 24687]%N ++ runes_of_ascii "` 
,  repeat

SubOrder { char[

    16 ]  ClOrdID`" ++ [23376; 35746; 21333; 21495]%N ++ runes_of_ascii "`
,

u64

    Price`" ++ [23376; 35746; 21333; 20215; 26684]%N ++ runes_of_ascii "`

    ,

    u32	Qty `" ++ [23376; 35746; 21333; 25968; 37327]%N ++ runes_of_ascii "` , } 
,}packet 
RiskControlResponse
	{
    string UniqueOrderId `" ++ [21807; 19968; 35746; 21333; 21495]%N ++ runes_of_ascii "`
,i32

    Status`" ++ [29366; 24577]%N ++ runes_of_ascii "`,
	string	Msg
	`" ++ [32467; 26524; 20449; 24687]%N ++ runes_of_ascii "`

    ,	repeat

Detail, } packet 
Detail{

string
	RuleName 
`" ++ [35268; 21017; 21517; 31216]%N ++ runes_of_ascii "` ,
u16
Code 
`" ++ [21407; 22240; 20195; 30721]%N ++ runes_of_ascii "`
    ,

}")).
Eval vm_compute in ("<<<M143>>>" ++ check (runes_of_ascii "
packet  lengthOf
{  @tag( 65535
/// triple
//	t
)@tag( //	t
3 ) @tag( 0123456789) options1 @calculatedFrom(""abc""
    ) , @rightPad
( '0')falsey @lengthOf( a1  )
    ,
    @lengthOf(Pad
)body @calculatedFrom( // " ++ [128512]%N ++ runes_of_ascii " emoji
""packet"" ) // trailing space 
,
} packet int
{ string Foo @calculatedFrom(""CRC32"" ) ,}
root
// trailing space 
//	t
packet uint8x
    {}
root packet len { x_y_z
_x ,
    BodyLength rootA
/// triple
//
,
match f32a as Logon
    {[ ""a\""b"" ,
""" ++ [28040; 24687]%N ++ runes_of_ascii """
    ,
    """ ++ [128512]%N ++ runes_of_ascii """
,65535, 00 ,4294967296
    ,
"""" ,""abc"" ]
    : roots,[
    00 ] :
A ,  [
    65535
// a // b
// trailing space 
,
// trailing space 
// " ++ [128512]%N ++ runes_of_ascii " emoji
65535
, """" ]
// c
// packet A { u8 x, }
:
// " ++ [128512]%N ++ runes_of_ascii " emoji
// trailing space 
pack ,
    }
    // trailing space 
    ,repeat Pad `say ""hi""` ,
    /// triple
    a1 calculatedFrom
    ,
@lengthOf( stringy )char[] As @calculatedFrom( ""\" ++ [233]%N ++ runes_of_ascii """ )
, zchar[ 0123456789 ] Z9_
    @lengthOf( repeatCount ) // packet A { u8 x, }
`a\`
, repeat // `tick` ""quote"" 'q'
string lengthOf , //x
u8 falsey @calculatedFrom(
""a\\"" )  ,@calculatedFrom( ""it's"") string calculatedFrom @lengthOf( MetaDataX ) ,}")).
Eval vm_compute in ("<<<M1539>>>" ++ check (runes_of_ascii "options {
    FixedStringPadFromLeft = true;
    FixedStringPadChar = '0';
}

packet Leg {
    InPrice0 {
        repeat string clOrdID,
        int16 msgKind,
        zchar[5] Px,
    },
    i16 f1,
    repeat f64 Side2,
    string Acct,
}

packet Cancel {
    zchar[4] clOrdID,
    string seqNo,
    Leg,
    @leftPad('0')
    char[11] OrderId,
}

packet Quote {
    repeat char[4] sym,
    f64 OrderId,
    repeat Leg,
    repeat i64 f1,
    int16 Note,
    zchar[3] count,
}

root packet Ack {
    @leftPad(' ')
    char[10] sym,
    InPx60 {
        Cancel,
        repeat char[1] f1,
        string Tail,
        repeat InNote55 {
            int8 count,
            f64 f1,
            repeat Cancel,
        },
        char[] tag7,
        repeat string msgKind,
    },
    u8 lastPx,
    match lastPx as Body {
        152 : Quote,
        173 : Cancel,
        4 : Leg,
    },
    u16 Ref @calculatedFrom(""CRC32""),
}")).
Eval vm_compute in ("<<<M1912>>>" ++ check (runes_of_ascii "options {
    // " ++ [27880; 37322]%N ++ runes_of_ascii "
    //x
    float = char[];
    Header = false
    //
    /// triple
}

// `tick` ""quote"" 'q'
options {
    x = char[];
}

MetaData i64_ {
    f64 As `
        `,
    repeatCount MetaDataX,
    repeatCount u128,
    metadata msg_type `tab	here`,
}

packet options1 {
    repeat char[0123456789] T,
    @tag(65535)
    //x
    @calculatedFrom(""CRC32"")
    @calculatedFrom(""" ++ [28040; 24687]%N ++ runes_of_ascii """)
    repeat string Logon,
    @lengthOf(u128)
    stringy {
        string_ x,
    },
    @tag(10)
    u64 tag @lengthOf(roots),
    Foo @lengthOf(Foo) `// not a comment`,
    string pack `a\`,
    match A as charz {
        [3] : x,
    },
    @tag(42)
    f64 msg_type @lengthOf(trueish),
    match pack as options1 {
        """ ++ [28040; 24687]%N ++ runes_of_ascii """ : string_,
        [65535, 7, ""a\""b"", 7] : f32a,
        4294967296 : o,
    },
    char[] falsey,
}// " ++ [128512]%N ++ runes_of_ascii " emoji")).
Eval vm_compute in ("<<<M1776>>>" ++ check (runes_of_ascii "  //x
packet

    x
    {	@lengthOf(
string_

)

// `tick` ""quote"" 'q'
    // trailing space 
msg_type{ int// a // b

@lengthOf(

    chars  )

    //x
		// " ++ [27880; 37322]%N ++ runes_of_ascii "
	`" ++ [28040; 24687; 31867; 22411]%N ++ runes_of_ascii "` ,
int
    `a\`

    ,}
    , 
uint32 
chars 
@calculatedFrom( ""`tick`""	) 
`
` ,@lengthOf( 
packetx 	 // trailing space 
	)
	match 
metadata 
as
    x_y_z {
65535:
x ,007
	    // `tick` ""quote"" 'q'

  // " ++ [128512]%N ++ runes_of_ascii " emoji

: 
u
    [7	, ""// no comment""

    , """ ++ [28040; 24687]%N ++ runes_of_ascii """
	]

: x""a\\""
	:MetaDataX 
,

0123456789 : lengthOf 10
: 
//

  // `tick` ""quote"" 'q'
      float

} ,  u16 Logon
    @calculatedFrom(
    ""x y""	)
    `tab	here` 
	    //	t

//

,	@lengthOf(

    Foo)zchar	/// triple

	, }
	packet
	tag
{ }	root packet
    x_y_z
{
}	MetaData
int

    {
	string

A
	`" ++ [233]%N ++ runes_of_ascii "` ,}
")).
Eval vm_compute in ("<<<M1327>>>" ++ check (runes_of_ascii "// top
packet
    // c0
Logon { // c2a
  // c2b
string // c3a
  // c3b
user
    // c4
, // c5a
  // c5b
} // c6a
  // c6b
root
    // c7
packet Frame // c9a
  // c9b
{ // c10
u8
    // c11
K // c12
,
    // c13
match // c14
K // c15
as // c16
Body
    // c17
{
    // c18
1 :
    // c20
Logon // c21
, // c22a
  // c22b
2 // c23
: // c24a
  // c24b
Logout // c25a
  // c25b
,
    // c26
} // c27
, // c28a
  // c28b
Tail , // c30a
  // c30b
} // c31a
  // c31b
packet
    // c32
Logout // c33a
  // c33b
{ // c34a
  // c34b
u16 // c35a
  // c35b
reason
    // c36
, }
    // c38
packet
    // c39
Tail
    // c40
{
    // c41
u32 crc
    // c43
, // c44
} // c45a
  // c45b
")).
Eval vm_compute in ("<<<M1118>>>" ++ check (runes_of_ascii "MetaData Packet
    // c1
{ // c2
} packet // c4a
  // c4b
charz // c5a
  // c5b
{ // c6a
  // c6b
Foo // c7
asx `it's` ,
    // c10
@lengthOf( // c11
T )
    // c13
@calculatedFrom(
    // c14
"""" // c15
)
    // c16
@calculatedFrom(
    // c17
""x y"" // c18
) // c19a
  // c19b
zchar[ 007 // c21
] repeatCount @lengthOf(
    // c24
int // c25
)
    // c26
`a\`
    // c27
, // c28a
  // c28b
i8
    // c29
string_ // c30a
  // c30b
, // c31
repeat // c32
options1 // c33
Pad
    // c34
, } // c36a
  // c36b
root packet
    // c38
Packet { int8 // c41
float `doc` // c43
, // c44
}
    // c45
")).
Eval vm_compute in ("<<<M327>>>" ++ check (runes_of_ascii "root packet asx
    { tag body `u8 x,` , }
packet string_ {
    @lengthOf(
len // a // b
)repeat	zchar[ 42 ] u8x,zchar[ 0 ] asx
    , } packet
// " ++ [128512]%N ++ runes_of_ascii " emoji
// " ++ [27880; 37322]%N ++ runes_of_ascii "
int {repeat crc
    { zchar float , match
    i8i8 as rootA//x
{ 255 : lengthOf , 1 :lengthOf
,3
    :
roots , 3 : uint8x ,0
    :As , ""`tick`"" :	repeatCount , }  , repeat
/// triple
//
char[]
falsey ,
    u64 lengthOf ,} , @lengthOf( crc ) lengthOf i64_ , leftPad
`crlf
line`, }
    root	packet zchar{ f32 _x @calculatedFrom( ""a\\"" ), }	MetaData chars // trailing space 
{//
}")).
Eval vm_compute in ("<<<M210>>>" ++ check (runes_of_ascii "MetaData tag {
//
//
char[// a // b
3 ] // a // b
msg_type
    // c
    , char[7 ] options1
,
    // trailing space 
    float crc
,calculatedFrom pack ,int64 u  `a\`,}
packet leftPad{char[
    1
]
    /// triple
    zchar
,
    //
    } packet crc { // c
@lengthOf( packetx	) @lengthOf( asx)
@lengthOf( packetx ) calculatedFrom {	f32 packetx	``
// packet A { u8 x, }
//x
, },
} options { Z9_
= ""\" ++ [233]%N ++ runes_of_ascii """
    // a // b
    float = ' ' ; packetx = ""x y""
    calculatedFrom  = int16
    ;
}")).
Eval vm_compute in ("<<<M161>>>" ++ check (runes_of_ascii "packet rootA{ options1 _x , u64
    Header , } packet lengthOf {
    @rightPad ( ' '	)
@lengthOf( u128 // trailing space 
)	@calculatedFrom(	""a\""b"" )  A {string i64_	`it's`,
//	t
// trailing space 
uint8
body
, match pack as u {
// @lengthOf(
// trailing space 
00 : charz , 00: int ,3
: falsey 255 :body
    ,
[0123456789 ] :x_y_z ,
// a // b
//
}
,
} ,
} MetaData chars{ u128
    zchar , char[ 42  ]
// a // b
// a // b
metadata
    , }
")).
Eval vm_compute in ("<<<M1236>>>" ++ check (runes_of_ascii "// top
options // c0a
  // c0b
{ f32a
    // c2
= // c3
0 } // c5
packet trueish // c7a
  // c7b
{ // c8
}
    // c9
MetaData _x // c11
{ char[ // c13a
  // c13b
0123456789 // c14
] // c15a
  // c15b
zchar
    // c16
, // c17a
  // c17b
string // c18
crc ,
    // c20
char[
    // c21
1 ] // c23a
  // c23b
options1
    // c24
, uint8 // c26a
  // c26b
repeatCount
    // c27
, // c28
} // c29
")).
Eval vm_compute in ("<<<M236>>>" ++ check (runes_of_ascii "packet metadata{ //	t
float64	body
    @lengthOf( calculatedFrom ) , // a // b
@tag(42
    ) rootA ,
    x_y_z u8x`// not a comment`
    ,  @lengthOf(Pad)  match // " ++ [27880; 37322]%N ++ runes_of_ascii "
packetx  as leftPad
    {
    //
    65535 : tag ,
""" ++ [128512]%N ++ runes_of_ascii """ :_x} , x_y_z  metadata , @tag(7 )int64 zchar @lengthOf(
repeatCount ) `" ++ [233]%N ++ runes_of_ascii "`,@tag( 0123456789 ) repeat float chars ,	f32  MetaDataX
,}")).
Eval vm_compute in ("<<<M377>>>" ++ check (runes_of_ascii "packet crc {match  trueish
    as
len {
42 : uint8x,// " ++ [128512]%N ++ runes_of_ascii " emoji
""1"" :asx ,	3
: body [ ""1"" , 0123456789]: u ""packet"" : o , } , } MetaData tag
{
    string
o `line1
line2`
,
char[] //
Header `{ , }`// c
,  uint8x Z9_, } MetaData
tag
{ i8 len , }
    options //x
{
// `tick` ""quote"" 'q'
/// triple
x= 10;
}
")).
Eval vm_compute in ("<<<M1316>>>" ++ check (runes_of_ascii "  packet

    MDSnapshotZZ	{	u8

a 
, }  packet
    OrderACK  { u16
b, }packet
	HTTPServerInfo	{
string
s

    ,
}	root
    packet  FIXMsg
    { u8
KType
,MDSnapshotZZ  , repeat

    OrderACK,  match 
KType as Body{1 :

HTTPServerInfo  ,	2

:OrderACK	,

}

    ,}")).
Eval vm_compute in ("<<<M139>>>" ++ check (runes_of_ascii "packet//x
x_y_z {rootA @lengthOf( o ) `two words` ,} MetaData f32a{
trueish
    // packet A { u8 x, }
    x , }
    MetaData body
    { u128 pack , f64
    // @lengthOf(
    float	, char[ 65535
//	t
/// triple
] tag `" ++ [233]%N ++ runes_of_ascii "`// c
,  } // " ++ [128512]%N ++ runes_of_ascii " emoji")).
Eval vm_compute in ("<<<M1593>>>" ++ check (runes_of_ascii "// top
    root 	 // c0a
    // c0b

  packet P {
    // c3

u16 
      // c4
  a  
      // c5
	,  
      // c6

	u32 // c7a
// c7b

  Sum // c8
    @calculatedFrom(  // c9a

	// c9b
    	""CRC32"") ,}  // c13")).
Eval vm_compute in ("<<<M1889>>>" ++ check (runes_of_ascii "

  root

packet
Frame{	u8 K	, 
Logon
first ,	match
	K
as 
Body	{
1 :
Logon
    ,

    2
: 
Logout

    , }  ,

} packet 
Logon
{
	string
user,}packet Logout {u16 reason ,
    }

")).
Eval vm_compute in ("<<<M1606>>>" ++ check (runes_of_ascii "packet A {
    match k as n {
        [
            ""a"", 22, ""c c"", 4, ""e"",
            66, ""g"", 8, ""i"", 10,
            ""k""
        ] : B,
        2 : C,
    },
}")).
Eval vm_compute in ("<<<M441>>>" ++ check (runes_of_ascii "packet uint8x
{ match pack
    as msg_type	{
    0123456789 :	float float
}
,
} packet //	t
a1
    { } options {packetx
    = '\x00'	; u128= ""a	b""  ; }
")).
Eval vm_compute in ("<<<M403>>>" ++ check (runes_of_ascii "packet uint8x
007 match pack
    as msg_type	{
    0123456789 :	float
}
,
} packet //	t
a1
    { } options {packetx
    = '\x00'	; u128= ""a	b""  ; }
")).
Eval vm_compute in ("<<<M550>>>" ++ check (runes_of_ascii "packet uint8x
{ match pack
    as msg_type	{
    0123456789 :	caf" ++ [233]%N ++ runes_of_ascii "_1
}
,
} packet //	t
a1
    { } options {packetx
    = '\x00'	; u128= ""a	b""  ; }
")).
Eval vm_compute in ("<<<M512>>>" ++ check (runes_of_ascii "packet uint8x
{ match pack
    as msg_type	{
    0123456789 :	float
}
,
} packet //	t
a1
    { } options {packetx
    = '\x00'	; =u128 ""a	b""  ; }
")).
Eval vm_compute in ("<<<M503>>>" ++ check (runes_of_ascii "packet uint8x
{ match pack
    as msg_type	{
    0123456789 :	float
}
,
} packet //	t
a1
    { } options {packetx
    = char	; u128= ""a	b""  ; }
")).
Eval vm_compute in ("<<<M687>>>" ++ check (runes_of_ascii "// @lengthOf(
packet i8i8 { u128 o , , }
options { MetaDataX = true;
    BodyLength =""packet"" x_y_z= 007
crc //x
= ""abc"" ;
    msg_type =
i16 }")).
Eval vm_compute in ("<<<M694>>>" ++ check (runes_of_ascii "// @lengthOf(
packet i8i8 { u128 o , }
options { MetaDataX = true;
    = BodyLength""packet"" x_y_z= 007
crc //x
= ""abc"" ;
    msg_type =
i16 }")).
Eval vm_compute in ("<<<M1555>>>" ++ check (runes_of_ascii "

  packet A { u8
    a
,
    } packet	B{ u16
b , }  root packet
    P
	{ 
u8
K,

match
K as
    M 
{  1
:
	A
, 1

:  B

    ,
}

,}
")).
Eval vm_compute in ("<<<M1270>>>" ++ check (runes_of_ascii "options {
    LittleEndian = true;
}
packet B {
    u8 a,
    string s,
}
root packet P {
    u16 L @lengthOf(B),
    B,
    u8 t,
}
")).
Eval vm_compute in ("<<<M1905>>>" ++ check (runes_of_ascii "
packet	A	{ match
    k 
as n

    {
    [
""a"" 
,
    22

    ,

    ""c c"",
4
	]

:
	B

    2
:C

    } ,
    }
")).
Eval vm_compute in ("<<<M1950>>>" ++ check (runes_of_ascii "packet
A{match k
as n
{
    [ 1 ,	22
,007, 4,	5
, 66, 
7

    ,
	8,
9 , 10,
	11
    ]
	: B
,
	2:

C}

    ,

}
")).
Eval vm_compute in ("<<<M1172>>>" ++ check (runes_of_ascii "MetaData leftPad { chars MetaDataX , } packet repeatCount { char[ 255 ] uint8x `" ++ [233]%N ++ runes_of_ascii "`
// c
, } MetaData pack { As Foo , }")).
Eval vm_compute in ("<<<M967>>>" ++ check (runes_of_ascii "packet A {
    match k as n {
        ""x\
y"" : B,
        [""x\
y"", 1] : C,
        [1,2,3,4,5,""x\
y""] : D,
    },
}")).
Eval vm_compute in ("<<<M1908>>>" ++ check (runes_of_ascii "packet A  {
match
    k	as

    n {
[
""a""
,

    22 , ""c c""
, 4
,
""e"" ] : B
,

    2
	: C
	} , }
")).
Eval vm_compute in ("<<<M353>>>" ++ check (runes_of_ascii "options { _x
    =
    ""`tick`""	;matchKey=
""it's""
;	options1
    = u16 ; stringy= true
    // c
    }
")).
Eval vm_compute in ("<<<M1957>>>" ++ check (runes_of_ascii "  packet

    A

{Inner	{
    u8 x
    `x
`

    ,
Deep
{
	u8 
y`x
`
    , } 
,	}

    , } ")).
Eval vm_compute in ("<<<M862>>>" ++ check (runes_of_ascii "packet A {
  match k as n {
    [""a"", ""bb"", 007, ""d"", ""e"", 66, ""g"", ""h""] : B,
    2 : C
  },
}")).
Eval vm_compute in ("<<<M608>>>" ++ check (runes_of_ascii "
packet
    asx {match u128 as lengthOf
{
//	t
// `tick` ""quote"" 'q'
255 : x , ,
    } ,	}")).
Eval vm_compute in ("<<<M579>>>" ++ check (runes_of_ascii "
packet
    asx {match u128 lengthOf as
{
//	t
// `tick` ""quote"" 'q'
255 : x ,
    } ,	}")).
Eval vm_compute in ("<<<M828>>>" ++ check (runes_of_ascii "packet A {
  match k as n {
    [""a"", ""bb"", ""c c"", ""d"", ""e"", ""f""] : B,
    2 : C
  },
}")).
Eval vm_compute in ("<<<M1302>>>" ++ check (runes_of_ascii "packet order_item {
    u8 a,
}
root packet new_order {
    order_item,
    u8 x,
}
")).
Eval vm_compute in ("<<<M831>>>" ++ check (runes_of_ascii "packet A {
  match k as n {
    [1, ""bb"", 007, ""d"", 5, ""f""] : B
    2 : C
  },
}")).
Eval vm_compute in ("<<<M1546>>>" ++ check (runes_of_ascii "packet A {
    match k as n {
        [1, ""bb""] : B,
        2 : C,
    },
}")).
Eval vm_compute in ("<<<M1590>>>" ++ check (runes_of_ascii "root packet P {
    u16 a,
    u32 Sum @calculatedFrom(""CR\
    C32""),
}")).
Eval vm_compute in ("<<<M739>>>" ++ check (runes_of_ascii "zchar[ i64 @calculatedFrom( match false ) Header char[ @lengthOf( :")).
Eval vm_compute in ("<<<M365>>>" ++ check (runes_of_ascii "MetaData x_y_z { i8i8 u8x , string	uint8x
    `crlf
line` , }")).
Eval vm_compute in ("<<<M1850>>>" ++ check (runes_of_ascii "MetaData M {
    u8 x `x
        `,
    T t `x
        `,
}")).
Eval vm_compute in ("<<<M627>>>" ++ check (runes_of_ascii "
packet
    asx {match u128 as lengthOf
{
//	t
// `t")).
Eval vm_compute in ("<<<M1217>>>" ++ check (runes_of_ascii "packet body { i32 f32a `{ , }` , } options { // c
}")).
Eval vm_compute in ("<<<M1753>>>" ++ check (runes_of_ascii "packet stringy {
}

MetaData crc {
    u16 o,
}")).
Eval vm_compute in ("<<<M965>>>" ++ check (runes_of_ascii "options {
    a = ""x\
y"";
    b = ""x\
y""
}")).
Eval vm_compute in ("<<<M274>>>" ++ check (runes_of_ascii "packet Z9_
{ }
    packet Pad { } 	 ")).
Eval vm_compute in ("<<<M958>>>" ++ check (runes_of_ascii "root packet A {
    u8 x `
x`,
}")).
Eval vm_compute in ("<<<M1013>>>" ++ check (runes_of_ascii "packet A {
 u8 x `d" ++ [8232]%N ++ runes_of_ascii "`, // c" ++ [8232]%N ++ runes_of_ascii "
}")).
Eval vm_compute in ("<<<M655>>>" ++ check (runes_of_ascii "// @lengthOf(
packet i8i8 {")).
Eval vm_compute in ("<<<M1104>>>" ++ check (runes_of_ascii "
// c
MetaData tag { }")).
Eval vm_compute in ("<<<M1129>>>" ++ check (runes_of_ascii "
// c
MetaData u { }")).
Eval vm_compute in ("<<<M986>>>" ++ check (runes_of_ascii "packet A {
}
// c" ++ [160]%N)).
Eval vm_compute in ("<<<M1225>>>" ++ check (runes_of_ascii "
// c
packet x { }")).
Eval vm_compute in ("<<<M1231>>>" ++ check (runes_of_ascii "packet x {
// c
}")).
Eval vm_compute in ("<<<M742>>>" ++ check (runes_of_ascii "'j=KG=k_)FDOq")).
Eval vm_compute in ("<<<M1005>>>" ++ check (runes_of_ascii "// c" ++ [8202]%N)).
Eval vm_compute in ("<<<M734>>>" ++ check ([65279]%N)).
