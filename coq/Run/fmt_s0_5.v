From FP Require Import Lexer Parser ShowPT Digest Formatter.
From Coq Require Import String List NArith.
Import ListNotations.
Open Scope string_scope.
Set Printing Width 100000000.
Set Printing Depth 100000000.
Definition show_fres (r : fres) : string :=
  match r with
  | FOk s => "OK:" ++ sh_escaped s ""
  | FErr s => "ERR:" ++ sh_escaped s ""
  | FPanic p => "PANIC:" ++ p
  end.
Definition check (rs : list rune) : string := digest (show_fres (format_res rs)).
Definition full (rs : list rune) : string := show_fres (format_res rs).
Eval vm_compute in ("<<<M1939>>>" ++ check (runes_of_ascii "
packet

    metadata
{	repeat
f64 	 // " ++ [128512]%N ++ runes_of_ascii " emoji

Foo, repeat	Logon  f32a
`
`	, 
@calculatedFrom(
    ""1""

)  repeat
uint8 	 // trailing space 
	calculatedFrom `u8 x,` ,

    char[] packetx ,	// packet A { u8 x, }
      @calculatedFrom(
""abc"") Pad@lengthOf(
    msg_type	) `line1
line2` ,
@rightPad
(
	' '

    )	tag `" ++ [233]%N ++ runes_of_ascii "`
, @tag(10
/// triple
	)u8x
    @calculatedFrom( ""CRC32"" )
,  match
        // trailing space 
// trailing space 
		metadata
as  msg_type 

//
      // " ++ [27880; 37322]%N ++ runes_of_ascii "

  {
    [ ""\n""	//x
	, 0123456789  // c
      ]

    :options1 
, ""\n""

: float

,	} 
,

}

packet
    // " ++ [128512]%N ++ runes_of_ascii " emoji
	// " ++ [128512]%N ++ runes_of_ascii " emoji
	  MetaDataX  {string string_
`doc` , 
@rightPad('0')zchar[ 
    // " ++ [128512]%N ++ runes_of_ascii " emoji
    // `tick` ""quote"" 'q'
	00
]
	zchar
`a\` ,

    } options{
leftPad
=	0 float
    = 4294967296  ; }// `tick` ""quote"" 'q'
  root

    packet
	body 
{ @calculatedFrom(""1""

)@lengthOf(int
	)
match float as 
Z9_	{ 
// packet A { u8 x, }
    	// trailing space 
    	42 : 
x ""packet"" :// `tick` ""quote"" 'q'
  matchKey

,
    """ ++ [28040; 24687]%N ++ runes_of_ascii """
	    /// triple
    	// packet A { u8 x, }

: 
o
	, 255: float
    } ,  @tag(
	0123456789
	)
match

calculatedFrom as	// @lengthOf(
    trueish {[ ""packet""	,
    ""`tick`"" 	 //x
  ,
""" ++ [233]%N ++ runes_of_ascii "t" ++ [233]%N ++ runes_of_ascii """ ]

:MetaDataX

4294967296
:

    trueish
,

    3 :
// trailing space 
    // packet A { u8 x, }
	i64_
,
0123456789

    :
	f32a,
    [ 7
,//	t
	10
    ,
    ""CRC32""	,""x y"" , 
""\n"" 
      // `tick` ""quote"" 'q'

, 
""CRC32"",
""`tick`""	] // `tick` ""quote"" 'q'
  : 
body
    ,}
	,char[

    1	//
    ]

Foo 	 // " ++ [128512]%N ++ runes_of_ascii " emoji

	,

    @rightPad (
' ')

    @calculatedFrom(// " ++ [27880; 37322]%N ++ runes_of_ascii "
	""a	b""
) repeat
string_
{
    repeat
Logon 	 // @lengthOf(
	  ,Z9_

i8i8
    ,
match
    Z9_

as
    A

{
    [ 42]  :	Logon,
    [  ""CRC32""

    , 1 ,""a\""b""
,
4294967296

, 0 ,
""\" ++ [233]%N ++ runes_of_ascii """

    ]

: roots
    ""a\""b""
:

MetaDataX
,255 :
	_x
    , 
65535
:rootA

    ,

    },match 
_x as Foo { 
[ 255

    ,	""" ++ [28040; 24687]%N ++ runes_of_ascii """ ,  // packet A { u8 x, }
      ""CRC32""
	, 

// c
	  """ ++ [233]%N ++ runes_of_ascii "t" ++ [233]%N ++ runes_of_ascii """

    ,
""abc""] :
len
	""a\\"" 
: Pad

    0
:
	falsey
    , 
3:

    u128
,}

, 	 // a // b
  }

    ,repeat  // packet A { u8 x, }

  options1 int
`{ , }` 
    // packet A { u8 x, }

  //
    	,
    }

")).
Eval vm_compute in ("<<<M1908>>>" ++ check (runes_of_ascii "

  options{
    StringPrefixLenType =
u16
;
	ArrayPrefixLenType=
u16;
    }
packet
    SampleBinary{ uint16 MsgType  `" ++ [28040; 24687; 31867; 22411]%N ++ runes_of_ascii "` 
, u16 BodyLenght @lengthOf(
Body  )

`" ++ [28040; 24687; 20307; 38271; 24230]%N ++ runes_of_ascii "`
,
match

    MsgType
	as	Body{ 1: 
Logon	, 2  :	Logout
,
3

:Heartbeat
,

4
    :  RiskControlRequest ,
5
:

    RiskControlResponse  , 
}
	,

@calculatedFrom( ""CRC32"" )
u32 Ckecksum
	`" ++ [26657; 39564; 21644]%N ++ runes_of_ascii "`

, }
	packet  Logon  { @leftPad(

    '0' )
char[
10] 
UserName 
`" ++ [29992; 25143; 21517]%N ++ runes_of_ascii "`,	string  Password

    `" ++ [23494; 30721]%N ++ runes_of_ascii "`
, uint64 ClientId
	`" ++ [23458; 25143; 31471]%N ++ runes_of_ascii "ID` , u16
	HeartbeatInterval`" ++ [24515; 36339; 38388; 38548]%N ++ runes_of_ascii "` 
,  } 
packet 
Logout

{@rightPad('0' )char[10 ]UserName
	`" ++ [29992; 25143; 21517]%N ++ runes_of_ascii "`
,
uint64	ClientId`" ++ [23458; 25143; 31471]%N ++ runes_of_ascii "ID` ,
} packet
	Heartbeat
{ } 
packet
RiskControlRequest

{  string 
UniqueOrderId
    `" ++ [21807; 19968; 35746; 21333; 21495]%N ++ runes_of_ascii "`  ,
char[16  ]
ClOrdID
`" ++ [23458; 25143; 35746; 21333; 21495]%N ++ runes_of_ascii "`,	char[

    3 
]
	MarketID
	`" ++ [24066; 22330]%N ++ runes_of_ascii "id` , char[  12 ]
SecurityID  `" ++ [35777; 21048; 20195; 30721]%N ++ runes_of_ascii "` , char	Side

    `" ++ [20080; 21334; 26041; 21521]%N ++ runes_of_ascii "`
,

    char OrderType `" ++ [35746; 21333; 31867; 22411]%N ++ runes_of_ascii "`,u64  Price
	`" ++ [20215; 26684]%N ++ runes_of_ascii "` 
,
	u32
    Qty
`" ++ [25968; 37327]%N ++ runes_of_ascii "`

    , repeat string  ExtraInfo

    `" ++ [38468; 21152; 20449; 24687]%N ++ runes_of_ascii "`
, repeat	SubOrder{char[
	16 ] ClOrdID `" ++ [23376; 35746; 21333; 21495]%N ++ runes_of_ascii "`
,

u64  Price
`" ++ [23376; 35746; 21333; 20215; 26684]%N ++ runes_of_ascii "`, u32 Qty	`" ++ [23376; 35746; 21333; 25968; 37327]%N ++ runes_of_ascii "`, }
, } packet RiskControlResponse {string
UniqueOrderId

`" ++ [21807; 19968; 35746; 21333; 21495]%N ++ runes_of_ascii "` ,i32
    Status

    `" ++ [29366; 24577]%N ++ runes_of_ascii "`
	,
string Msg
`" ++ [32467; 26524; 20449; 24687]%N ++ runes_of_ascii "`
,repeat
Detail

    ,

    }packet	Detail

    {
    string	RuleName `" ++ [35268; 21017; 21517; 31216]%N ++ runes_of_ascii "`
    ,	u16 
Code
`" ++ [21407; 22240; 20195; 30721]%N ++ runes_of_ascii "`  ,

}
")).
Eval vm_compute in ("<<<M128>>>" ++ check (runes_of_ascii "root
packet // " ++ [27880; 37322]%N ++ runes_of_ascii "
crc
    {	@lengthOf(	As
)@calculatedFrom(""\" ++ [233]%N ++ runes_of_ascii """
    ) zchar[ 4294967296 ]MetaDataX `doc` ,/// triple
rootA @calculatedFrom( ""it's"" )	,@tag( 65535
    ) @tag( // c
7 )@tag( 00
//
// c
) len @lengthOf( A ) `two words` ,
// trailing space 
// " ++ [128512]%N ++ runes_of_ascii " emoji
string	rootA@lengthOf( pack
// trailing space 
//	t
) ,
// " ++ [128512]%N ++ runes_of_ascii " emoji
// trailing space 
repeat zchar ,
@calculatedFrom( ""abc"" )@leftPad ('\x00' ) @rightPad
( )match x_y_z
    as Z9_{
""it's""
    :
Logon//x
, ""x y"" : Packet,""abc""
: trueish 4294967296 // @lengthOf(
:
    repeatCount """ ++ [128512]%N ++ runes_of_ascii """:  x_y_z
} , char[ 10 // @lengthOf(
]
    stringy	`it's`
, @leftPad (
'\x00' )
rootA @lengthOf(  i64_  )
    , } MetaData falsey {
Packet repeatCount `tab	here` ,
}MetaData string_ {
    float64 roots `line1
line2` , char
As //
`
` , zchar[ 65535 ]falsey`a\` ,A
    T , _x metadata, } packet
_x // packet A { u8 x, }
{zchar[255 ] string_@lengthOf(
//	t
// @lengthOf(
u128 ) `{ , }`	,
}root packet Packet
    {repeat // " ++ [128512]%N ++ runes_of_ascii " emoji
lengthOf , }")).
Eval vm_compute in ("<<<M1123>>>" ++ check (runes_of_ascii "// top
options
    // c0
{
    // c1
uint8x
    // c2
=
    // c3
007
    // c4
;
    // c5
lengthOf
    // c6
=
    // c7
i8
    // c8
;
    // c9
}
    // c10
packet
    // c11
i64_
    // c12
{
    // c13
@calculatedFrom(
    // c14
""1""
    // c15
)
    // c16
@tag(
    // c17
3
    // c18
)
    // c19
@lengthOf(
    // c20
rootA
    // c21
)
    // c22
repeat
    // c23
int8
    // c24
Packet
    // c25
`u8 x,`
    // c26
,
    // c27
}
    // c28
root
    // c29
packet
    // c30
stringy
    // c31
{
    // c32
@rightPad
    // c33
(
    // c34
' '
    // c35
)
    // c36
repeat
    // c37
char[
    // c38
10
    // c39
]
    // c40
repeatCount
    // c41
,
    // c42
@tag(
    // c43
255
    // c44
)
    // c45
float64
    // c46
msg_type
    // c47
@calculatedFrom(
    // c48
""packet""
    // c49
)
    // c50
,
    // c51
}
    // c52
")).
Eval vm_compute in ("<<<M228>>>" ++ check (runes_of_ascii "packet
//
// " ++ [27880; 37322]%N ++ runes_of_ascii "
BodyLength  {
repeat
    // @lengthOf(
    zchar[	255]tag `crlf
line` , } MetaData BodyLength	{
char[ 65535] //	t
packetx `" ++ [28040; 24687; 31867; 22411]%N ++ runes_of_ascii "` , } options
    {
    metadata =3; // trailing space 
} packet Packet
{ o { uint16	Logon
    , } , @leftPad (  )char[ 0123456789 ]
a1 `" ++ [28040; 24687; 31867; 22411]%N ++ runes_of_ascii "` // a // b
,
    repeat string
lengthOf
    `{ , }`	,stringy crc
,@rightPad (
' ' ) u32	MetaDataX
    ,
@rightPad('0' ) tag	{repeat f64 tag `u8 x,`
, }
    //	t
    , char[
    00 ] uint8x `` , match leftPad  as Header {""" ++ [233]%N ++ runes_of_ascii "t" ++ [233]%N ++ runes_of_ascii """  : Foo
, [	""\" ++ [233]%N ++ runes_of_ascii """
, 007
,00 , 10, ""\" ++ [233]%N ++ runes_of_ascii """ ]: crc
, [ 1 ,007 , ""a\\""
    ,
""packet""
    ]: //	t
len // packet A { u8 x, }
, 10 : MetaDataX
//x
// " ++ [128512]%N ++ runes_of_ascii " emoji
,  }
//	t
/// triple
, } packet
    i64_{
@rightPad	('\x00'
)
@leftPad(
) i8 body@calculatedFrom(""" ++ [233]%N ++ runes_of_ascii "t" ++ [233]%N ++ runes_of_ascii """) `it's` , }
// @lengthOf(
")).
Eval vm_compute in ("<<<M4>>>" ++ check (runes_of_ascii "packet
    // " ++ [128512]%N ++ runes_of_ascii " emoji
    u128
{ repeat char[
// trailing space 
// packet A { u8 x, }
65535 ] float ,
}
options  { f32a
= char[] ; } packet// trailing space 
_x { @rightPad ('0' ) // packet A { u8 x, }
@lengthOf(i8i8) @lengthOf(lengthOf
)  repeat	Z9_//x
`crlf
line`, string_ {
// `tick` ""quote"" 'q'
// c
zchar[7
]x_y_z , Header x
`line1
line2` ,
    }, //	t
@leftPad ( )
    match float
as	x_y_z
{ """ ++ [28040; 24687]%N ++ runes_of_ascii """ : metadata, 007 :
    A,00 : falsey
    , 0123456789  : Foo // trailing space 
,0123456789
:
    zchar
, } ,@calculatedFrom( ""1"" )
@tag(
/// triple
/// triple
0	) char[
00 ] options1	, } packet Pad{
u16
body
@lengthOf( stringy // c
), } options { BodyLength ='0'msg_type =""a\""b"" ; }

")).
Eval vm_compute in ("<<<M58>>>" ++ check (runes_of_ascii "packet pack
// c
// packet A { u8 x, }
{u8 a1
// trailing space 
/// triple
`say ""hi""` // packet A { u8 x, }
, @leftPad (
'\x00' )  uint8 Logon	`
` // `tick` ""quote"" 'q'
,
char[]lengthOf // " ++ [27880; 37322]%N ++ runes_of_ascii "
`" ++ [233]%N ++ runes_of_ascii "` ,
//
//x
repeat char[] As,
    //	t
    @lengthOf(string_ )  @calculatedFrom(
""a\\"" )
    repeat
    u8x	o	, char string_ @calculatedFrom(
""a\""b"" )
`tab	here`
    , repeat As { char[
    // packet A { u8 x, }
    0 ] i64_//	t
@lengthOf( T)
`" ++ [233]%N ++ runes_of_ascii "` , char[4294967296	]
T @calculatedFrom( ""\" ++ [233]%N ++ runes_of_ascii """ )
, trueish
, repeat int
{string Logon @calculatedFrom(	""1"" ) , metadata  ,
uint32
Z9_  , // " ++ [27880; 37322]%N ++ runes_of_ascii "
} , },@tag( 00 ) //	t
i16  a1 `a\`
    ,
    }
")).
Eval vm_compute in ("<<<M348>>>" ++ check (runes_of_ascii "root // c
packet asx { @rightPad
    (
' ' ) @lengthOf(  int)@tag( 0 ) u64 uint8x @calculatedFrom( ""packet"")
    ,  uint32 i64_ ,
    // c
    repeat options1 o,match f32a as /// triple
falsey// " ++ [27880; 37322]%N ++ runes_of_ascii "
{ 42 : stringy 10 :
As, """" :
    Packet ,
} ,@calculatedFrom(""it's""
) // " ++ [128512]%N ++ runes_of_ascii " emoji
f64	a1 ,
    @lengthOf(
    tag )
    match roots as MetaDataX
{
""" ++ [128512]%N ++ runes_of_ascii """:  f32a
    , ""\n"" :
    As [ 255 ]: A ,  }, a1 @calculatedFrom(	""abc"" )
`` , @rightPad(
)
    @rightPad (
    '\x00'
)@calculatedFrom(
""CRC32"" )body As , }  root packet packetx
{
//x
//
repeat lengthOf Logon `" ++ [28040; 24687; 31867; 22411]%N ++ runes_of_ascii "` , //	t
}")).
Eval vm_compute in ("<<<M45>>>" ++ check (runes_of_ascii "
packet
tag{ string matchKey `line1
line2` , @tag( 0 )// c
@calculatedFrom( ""1"" )@calculatedFrom( // " ++ [128512]%N ++ runes_of_ascii " emoji
""a\""b"" ) float64 matchKey
,}options
{ crc
    = true
    msg_type
    //	t
    =
true;
} packet o { match  roots
as calculatedFrom { ""// no comment""
    // packet A { u8 x, }
    :
    msg_type	, ""{,}""
    :u128, [
    65535 , 0123456789
]/// triple
: body ,// " ++ [128512]%N ++ runes_of_ascii " emoji
} ,@rightPad ( ' '	) repeat
string_ i64_ ,
@lengthOf(
lengthOf )@tag( 255// packet A { u8 x, }
)	@tag( 00 )
char[]
stringy
, }
")).
Eval vm_compute in ("<<<M291>>>" ++ check (runes_of_ascii "root
// " ++ [27880; 37322]%N ++ runes_of_ascii "
// @lengthOf(
packet
    Packet
{ string o @calculatedFrom( ""\" ++ [233]%N ++ runes_of_ascii """)
, @lengthOf( Packet
    // packet A { u8 x, }
    ) body @calculatedFrom( // @lengthOf(
""x y"" )
`it's` ,
float64 As @calculatedFrom( ""`tick`""	), char[]	stringy  @calculatedFrom(""" ++ [28040; 24687]%N ++ runes_of_ascii """	) `doc` , @calculatedFrom(""a	b"") match
float as o{ [ """ ++ [128512]%N ++ runes_of_ascii """
    ,007]
    :metadata
,
} ,f32a a1 `a\` , }
MetaData
repeatCount
    { packetx i64_ `" ++ [28040; 24687; 31867; 22411]%N ++ runes_of_ascii "` , // " ++ [128512]%N ++ runes_of_ascii " emoji
zchar[
3
] tag ,
i8i8 int , }
")).
Eval vm_compute in ("<<<M1444>>>" ++ check (runes_of_ascii "packet matchKey {
    float32 float,
    @calculatedFrom(""a\\"")
    @rightPad('\x00')
    i16 tag @calculatedFrom(""abc""),
    repeat zchar[255] pack,
    @lengthOf(Z9_)
    tag,
}// trailing space 

root packet rootA {
    repeat metadata {
        Logon,
    },
    @tag(10)
    @lengthOf(A)
    @tag(007)
    u32 options1,
    match float as u {
        0123456789 : u8x,
    },
}// " ++ [27880; 37322]%N ++ runes_of_ascii "

root packet lengthOf {
}")).
Eval vm_compute in ("<<<M1543>>>" ++ check (runes_of_ascii "packet a1 {
    char[] charz @calculatedFrom(""" ++ [28040; 24687]%N ++ runes_of_ascii """),
    uint8x `crlf
        line`,
    uint64 T `line1
        line2`,
    @leftPad('0')
    // a // b
    /// triple
    @calculatedFrom(""abc"")
    @tag(3)
    match int as len {
        0 : chars,
        [
            10, ""a\\"", 1, 0, 10,
            0
        ] : body,
        007 : rootA,
    },
    falsey options1,
}")).
Eval vm_compute in ("<<<M1963>>>" ++ check (runes_of_ascii "
options  {
    LittleEndian= true
    ;StringPrefixLenType=
    u16

;
FixedStringPadChar = ' ';
	}  packet Logon {
    @leftPad ('0'

    )char[ 10 ]  tag7 , }root
	packet Ack {
	int32
Px	, uint16 
count ,
string 
Qty

,

    string OrderId,
string 
Flags
,

u8
x ,	match	x  as Body	{ [
    58
    , 169

    ] 
:
Logon

,}

,  }

")).
Eval vm_compute in ("<<<M1790>>>" ++ check (runes_of_ascii "options {
    u = 7
    // " ++ [27880; 37322]%N ++ runes_of_ascii "
    roots = zchar[65535]
    msg_type = """ ++ [233]%N ++ runes_of_ascii "t" ++ [233]%N ++ runes_of_ascii """;
    x = false
}

MetaData string_ {
    char[42] i8i8 `" ++ [28040; 24687; 31867; 22411]%N ++ runes_of_ascii "`,
    u8 x_y_z,
    packetx lengthOf ``,
    T Header `line1
    line2`,
    char[] u8x `two words`,
}

packet float {
    calculatedFrom,
    @rightPad('0')
    char[3] u128,
}")).
Eval vm_compute in ("<<<M130>>>" ++ check (runes_of_ascii "packet zchar { @lengthOf( a1
// " ++ [128512]%N ++ runes_of_ascii " emoji
//	t
) i64_ @lengthOf( Header )
`" ++ [28040; 24687; 31867; 22411]%N ++ runes_of_ascii "`, charz`" ++ [233]%N ++ runes_of_ascii "` , char[007] i64_ , tag  { u16  matchKey // " ++ [27880; 37322]%N ++ runes_of_ascii "
,match Pad as lengthOf { [""CRC32"" ,	""abc""
] : Packet
,	}
, }
    , } MetaData body {char[
    10 ]u128
    `doc`
    ,
/// triple
//x
} //x")).
Eval vm_compute in ("<<<M242>>>" ++ check (runes_of_ascii "packet len{} options	{ Z9_ =  4294967296;
_x =// a // b
0
    f32a = zchar[42	] ; } root packet
    // @lengthOf(
    BodyLength // trailing space 
{ }options {
string_ =u32	;	charz =
/// triple
// packet A { u8 x, }
string
; } packet len { }")).
Eval vm_compute in ("<<<M18>>>" ++ check (runes_of_ascii "packet roots
// a // b
// " ++ [128512]%N ++ runes_of_ascii " emoji
{ // " ++ [27880; 37322]%N ++ runes_of_ascii "
@tag(0
)
    repeat // `tick` ""quote"" 'q'
zchar[
/// triple
//x
0
]x , } options { As =""\" ++ [233]%N ++ runes_of_ascii """ ;pack = ' ' ; int = // `tick` ""quote"" 'q'
'\x00' ; options1 =
""`tick`"" ; }")).
Eval vm_compute in ("<<<M1524>>>" ++ check (runes_of_ascii "root packet
_x{ uint32 trueish@calculatedFrom(
    ""1""
)	`crlf
line`  ,
	} 

//
      packet Header
{
    repeat
    u64
	stringy
	`// not a comment`
, 
float32

    msg_type, }
")).
Eval vm_compute in ("<<<M1780>>>" ++ check (runes_of_ascii "MetaData x {
}

packet rootA {
    i64 As @lengthOf(A) `// not a comment`,
}

options {
    asx = string;
    i8i8 = zchar[0123456789];
    Foo = 10;
    As = true;
}")).
Eval vm_compute in ("<<<M396>>>" ++ check (runes_of_ascii "packet uint8x uint8x
{ match pack
    as msg_type	{
    0123456789 :	float
}
,
} packet //	t
a1
    { } options {packetx
    = '\x00'	; u128= ""a	b""  ; }
")).
Eval vm_compute in ("<<<M651>>>" ++ check (runes_of_ascii "// @lengthOf(
packet i8i8 { u128 o , }
options { MetaDataX MetaDataX = true;
    BodyLength =""packet"" x_y_z= 007
crc //x
= ""abc"" ;
    msg_type =
i16 }")).
Eval vm_compute in ("<<<M541>>>" ++ check (runes_of_ascii "packet uint8x
{ match pack
    as msg_type	{
    0123456789 :	float
}
,
} packet //	t
a1
    { } options {packetx
    = '\x0" ++ [233]%N ++ runes_of_ascii "0'	; u128= ""a	b""  ; }
")).
Eval vm_compute in ("<<<M497>>>" ++ check (runes_of_ascii "packet uint8x
{ match pack
    as msg_type	{
    0123456789 :	float
}
,
} packet //	t
a1
    { } options {packetx
    '\x00' =	; u128= ""a	b""  ; }
")).
Eval vm_compute in ("<<<M272>>>" ++ check (runes_of_ascii "packet _x	{ } packet BodyLength { int64
Packet
@lengthOf( float ),
options1 /// triple
{rootA x	, u8
Packet @calculatedFrom( """ ++ [28040; 24687]%N ++ runes_of_ascii """) `it's`  ,
} , }")).
Eval vm_compute in ("<<<M674>>>" ++ check (runes_of_ascii "// @lengthOf(
packet i8i8 { { u128 o , }
options { MetaDataX = true;
    BodyLength =""packet"" x_y_z= 007
crc //x
= ""abc"" ;
    msg_type =
i16 }")).
Eval vm_compute in ("<<<M681>>>" ++ check (runes_of_ascii "// @lengthOf(
packet i8i8 { u128 o , }
options { MetaDataX = true;
    BodyLength =""packet"" x_y_z= 007
crc //x
= ""abc"" ;
    msg_type i16
= }")).
Eval vm_compute in ("<<<M706>>>" ++ check (runes_of_ascii "// @lengthOf(
packet i8i8 { u128 o , }
options { MetaDataX = ;
    BodyLength =""packet"" x_y_z= 007
crc //x
= ""abc"" ;
    msg_type =
i16 }")).
Eval vm_compute in ("<<<M16>>>" ++ check (runes_of_ascii "options { }MetaData u8x { uint8x	body`crlf
line`
    //	t
    , calculatedFrom body ,
}
    options  {
} root packet options1
{  }")).
Eval vm_compute in ("<<<M1538>>>" ++ check (runes_of_ascii "packet
A

{
match  k
as

n{
    [ 1  ,22, 
007
,
	4  ,
5

, 66 ,

7 , 
8

    ,	9 ,10 , 11
,
	12
    ]
:
B
2	: C
} ,  }")).
Eval vm_compute in ("<<<M1189>>>" ++ check (runes_of_ascii "MetaData leftPad { chars MetaDataX , } packet repeatCount { char[ 255 ] uint8x `" ++ [233]%N ++ runes_of_ascii "` , } MetaData pack { As Foo , } // c
")).
Eval vm_compute in ("<<<M1167>>>" ++ check (runes_of_ascii "MetaData leftPad { chars MetaDataX , } packet repeatCount { char[ 255 ] // c
uint8x `" ++ [233]%N ++ runes_of_ascii "` , } MetaData pack { As Foo , }")).
Eval vm_compute in ("<<<M302>>>" ++ check (runes_of_ascii "packet string_{@lengthOf(	float ) // @lengthOf(
BodyLength { match uint8x as i64_ { 0123456789
: As
    , } , } , }")).
Eval vm_compute in ("<<<M919>>>" ++ check (runes_of_ascii "packet A {
    u16 len @lengthOf(body) `a
b`,
    u32 crc @calculatedFrom(""CRC32"") `a
b`,
    string body,
}")).
Eval vm_compute in ("<<<M926>>>" ++ check (runes_of_ascii "packet A {
    Inner {
        u8 x `a
b`,
        Deep {
            u8 y `a
b`,
        },
    },
}")).
Eval vm_compute in ("<<<M634>>>" ++ check (runes_of_ascii "
packet
    asx {matc@lengthOfh u128 as lengthOf
{
//	t
// `tick` ""quote"" 'q'
255 : x ,
    } ,	}")).
Eval vm_compute in ("<<<M600>>>" ++ check (runes_of_ascii "
packet
    asx {match u128 as lengthOf
{
//	t
// `tick` ""quote"" 'q'
255 packet x ,
    } ,	}")).
Eval vm_compute in ("<<<M560>>>" ++ check (runes_of_ascii "
packet
    false {match u128 as lengthOf
{
//	t
// `tick` ""quote"" 'q'
255 : x ,
    } ,	}")).
Eval vm_compute in ("<<<M873>>>" ++ check (runes_of_ascii "packet A {
  match k as n {
    [1, 22, ""c c"", 4, 5, ""f"", 7, 8, ""i""] : B,
    2 : C
  },
}")).
Eval vm_compute in ("<<<M612>>>" ++ check (runes_of_ascii "
packet
    asx {match u128 as lengthOf
{
//	t
// `tick` ""quote"" 'q'
255 : x ,
     ,	}")).
Eval vm_compute in ("<<<M1246>>>" ++ check (runes_of_ascii "options {
    LittleEndian = true;
}
root packet P {
    repeat char cs,
    u8 x,
}
")).
Eval vm_compute in ("<<<M816>>>" ++ check (runes_of_ascii "packet A {
  match k as n {
    [""a"", ""bb"", ""c c"", ""d"", ""e""] : B
    2 : C
  },
}")).
Eval vm_compute in ("<<<M840>>>" ++ check (runes_of_ascii "packet A {
  match k as n {
    [1, 22, 007, 4, 5, 66, 7] : B
    2 : C
  },
}")).
Eval vm_compute in ("<<<M459>>>" ++ check (runes_of_ascii "packet uint8x
{ match pack
    as msg_type	{
    0123456789 :	float
}
,")).
Eval vm_compute in ("<<<M1283>>>" ++ check (runes_of_ascii "root packet P {
    u16 a,
    u32 Sum @calculatedFrom(""CR\
C32""),
}
")).
Eval vm_compute in ("<<<M1101>>>" ++ check (runes_of_ascii "// top
MetaData
    // c0
tag
    // c1
{
    // c2
}
    // c3
")).
Eval vm_compute in ("<<<M948>>>" ++ check (runes_of_ascii "packet A {
    B b `x
`,
    B `x
`,
    repeat B bs `x
`,
}")).
Eval vm_compute in ("<<<M764>>>" ++ check (runes_of_ascii "float32 true uint8 f32 i64 i32 @leftPad ) char[ } uint8")).
Eval vm_compute in ("<<<M1207>>>" ++ check (runes_of_ascii "packet body { i32 f32a // c
`{ , }` , } options { }")).
Eval vm_compute in ("<<<M927>>>" ++ check (runes_of_ascii "MetaData M {
    u8 x `a
b`,
    T t `a
b`,
}")).
Eval vm_compute in ("<<<M1223>>>" ++ check (runes_of_ascii "// top
packet // c0
x { // c2
}
    // c3
")).
Eval vm_compute in ("<<<M708>>>" ++ check (runes_of_ascii "// @lengthOf(
packet i8i8 { u128 o ,")).
Eval vm_compute in ("<<<M1883>>>" ++ check (runes_of_ascii "

  packet A{u8 x`d" ++ [8287]%N ++ runes_of_ascii "`

,	// c" ++ [8287]%N ++ runes_of_ascii "
}
")).
Eval vm_compute in ("<<<M276>>>" ++ check (runes_of_ascii "MetaData repeatCount { }
//	t
")).
Eval vm_compute in ("<<<M381>>>" ++ check (runes_of_ascii "options{
int
=char[] ; }
//
")).
Eval vm_compute in ("<<<M1566>>>" ++ check (runes_of_ascii "packet
A

{ }  // c 
 
")).
Eval vm_compute in ("<<<M1105>>>" ++ check (runes_of_ascii "MetaData // c
tag { }")).
Eval vm_compute in ("<<<M1865>>>" ++ check (runes_of_ascii "packet int {
}
//	t")).
Eval vm_compute in ("<<<M1039>>>" ++ check (runes_of_ascii "packet A {
}// c 	")).
Eval vm_compute in ("<<<M1044>>>" ++ check (runes_of_ascii "packet A {
}// c" ++ [8203]%N)).
Eval vm_compute in ("<<<M297>>>" ++ check (runes_of_ascii "// " ++ [128512]%N ++ runes_of_ascii " emoji


")).
Eval vm_compute in ("<<<M985>>>" ++ check (runes_of_ascii "// c" ++ [160]%N)).
Eval vm_compute in ("<<<M19>>>" ++ check (runes_of_ascii "
")).
