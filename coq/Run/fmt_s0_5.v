From FP Require Import Lexer Parser ShowPT Digest Formatter.
From Coq Require Import String List NArith.
Import ListNotations.
Open Scope string_scope.
Set Printing Width 100000000.
Set Printing Depth 100000000.
Definition show_fres (r : fres) : string :=
  match r with
  | FOk s => "OK:" ++ sh_escaped s ""
  | FErr s => "ERR:" ++ sh_escaped s ""
  | FPanic p => "PANIC:" ++ p
  end.
Definition check (rs : list rune) : string := digest (show_fres (format_res rs)).
Definition full (rs : list rune) : string := show_fres (format_res rs).
Eval vm_compute in ("<<<M80>>>" ++ check (runes_of_ascii "packet
A {
    roots
{ repeat	char[
00 ] // `tick` ""quote"" 'q'
matchKey `crlf
line`
,
}, // @lengthOf(
@tag( 3
)
char[
    //x
    255]
    x
    // " ++ [128512]%N ++ runes_of_ascii " emoji
    , @leftPad( '\x00')  repeat	uint16
// a // b
//	t
crc ,
match u
    as// @lengthOf(
pack {[""x y"" , 4294967296 ] : roots [1 ,
    0 ] : _x ""packet"":
T  ,  255:
BodyLength	, ""a	b"" : uint8x ,	}, @rightPad	( '\x00' )
    u64
    tag  ,
} packet trueish { match
i64_
as Packet { ""packet"" :// @lengthOf(
body,65535
// a // b
// " ++ [27880; 37322]%N ++ runes_of_ascii "
: Pad ,
    10: packetx 3 : pack , 00 : Header
,
    3 :// c
As ,
    // packet A { u8 x, }
    }
,  @lengthOf(MetaDataX  ) i8 stringy//
`` , @calculatedFrom(
    ""`tick`"" )
    @leftPad (
// a // b
// trailing space 
' ') // `tick` ""quote"" 'q'
char[] calculatedFrom @calculatedFrom( ""// no comment""
    )
, } MetaData calculatedFrom
{pack As	, f32a
    // `tick` ""quote"" 'q'
    calculatedFrom, int16 chars
`say ""hi""` // " ++ [27880; 37322]%N ++ runes_of_ascii "
, uint16 msg_type`{ , }`
    /// triple
    , i32
o // " ++ [128512]%N ++ runes_of_ascii " emoji
,
}packet
    chars { lengthOf MetaDataX , string len @lengthOf(uint8x ) , @tag( 0123456789 )
    match
    stringy
    as x
{ 10
    : lengthOf
, } , @tag( 7 )  @rightPad ( )
@tag( 00  ) uint16 crc
,	int8 trueish @lengthOf(stringy )  ,  repeat i64_ , zchar[ 7 ] T @calculatedFrom(
""a\""b""
) // " ++ [27880; 37322]%N ++ runes_of_ascii "
`two words` ,
    // a // b
    @tag( 007	)zchar[ 65535 ]MetaDataX  @lengthOf( len // packet A { u8 x, }
)
    `" ++ [233]%N ++ runes_of_ascii "` , char metadata @lengthOf(lengthOf )
,	} root packet  matchKey { @calculatedFrom(""" ++ [28040; 24687]%N ++ runes_of_ascii """
// packet A { u8 x, }
// c
)
    repeat char[
// " ++ [27880; 37322]%N ++ runes_of_ascii "
// trailing space 
007] stringy, string a1`doc` , zchar[
7
] A,
@lengthOf(	options1
// @lengthOf(
// a // b
) //
zchar[	00	] // packet A { u8 x, }
Foo  `two words` , @calculatedFrom(
""1"" )  @leftPad( ' ' ) @leftPad( ' ' ) repeat u8 options1, uint8 i64_`" ++ [233]%N ++ runes_of_ascii "` ,
@tag( 10 )
    @lengthOf( i8i8	)@lengthOf(
// " ++ [27880; 37322]%N ++ runes_of_ascii "
// `tick` ""quote"" 'q'
i64_
)
    //x
    match A as	packetx {
    10	:
asx
, [ ""\n""
    ,65535 , ""{,}"", 007, ""CRC32"" ] : metadata 00	: o ,
} // c
,}
")).
Eval vm_compute in ("<<<M88>>>" ++ check (runes_of_ascii "  packet falsey {
    @leftPad	( )  int8 uint8x
, zchar[ 10 ] matchKey
,
    // c
    repeat matchKey{ repeat
i8
matchKey
,
a1 @calculatedFrom( //
""\n"" ) `two words` ,  } ,a1 { char[]a1, char x_y_z
    // @lengthOf(
    ,	zchar[
65535
] // a // b
len`u8 x,`
,},repeat	MetaDataX
{	repeat
leftPad pack,	string i8i8 `say ""hi""` , }// 50% %s
,
// " ++ [27880; 37322]%N ++ runes_of_ascii "
// @lengthOf(
@leftPad //x
( '0' ) @lengthOf( BodyLength ) @rightPad
    ( ' ' // 50% %s
)
    char[] // " ++ [128512]%N ++ runes_of_ascii " emoji
charz , @lengthOf( i8i8
    ) @calculatedFrom( ""CRC32"" )
    @lengthOf(	T )metadata ,// 50% %s
} packet x	{
@tag( 0123456789	) match tag
    as Pad { [//x
""\" ++ [233]%N ++ runes_of_ascii """ , ""a	b""
    , // " ++ [27880; 37322]%N ++ runes_of_ascii "
""a\\"", ""{,}"" , 007,  007 ,  0123456789
    ] // c
:
    options1
    ,	},
    @leftPad () @lengthOf( charz )
@tag(
42  )
o { i32 msg_type @lengthOf(// `tick` ""quote"" 'q'
A )
`` ,
zchar[
1 ] charz
//	t
//x
,i8 //x
packetx `tab	here` ,
repeat crc rootA , }
, //	t
repeat uint8x
asx
,
repeat char[] Foo
, repeat zchar[ 0123456789
] u128,
    match uint8x as _x{ ""packet"" :f32a ,
    255 :roots ,	[  """ ++ [28040; 24687]%N ++ runes_of_ascii """
    ,0123456789 ,""CRC32""
    , 0 , 1 , 255 ]
:
    // @lengthOf(
    Packet,
""`tick`"" // packet A { u8 x, }
:
    metadata ,""x y""
:rootA}, _x @lengthOf(	crc
    ), @lengthOf( Logon ) repeat Packet options1, match trueish as
    lengthOf { 65535: float , } , @tag(
65535 ) lengthOf @lengthOf(// `tick` ""quote"" 'q'
a1
) `tab	here` , }
")).
Eval vm_compute in ("<<<M37>>>" ++ check (runes_of_ascii "options {
packetx/// triple
= 42; }
    root packet falsey {@tag( 1 )
crc { repeat	char[ 007 ] charz // 50% %s
`it's` , repeat	u8
    len `
`
    , crc trueish	, }	, match
float as string_ {""x y"" :
// " ++ [27880; 37322]%N ++ runes_of_ascii "
//
zchar , """ ++ [128512]%N ++ runes_of_ascii """
    // " ++ [128512]%N ++ runes_of_ascii " emoji
    : string_
// trailing space 
// @lengthOf(
,""CRC32""  : options1
, [""1"" // c
] :
crc
    , ""packet"" // " ++ [27880; 37322]%N ++ runes_of_ascii "
: options1 ,  [ 42
, ""a	b""
,
    // trailing space 
    """ ++ [233]%N ++ runes_of_ascii "t" ++ [233]%N ++ runes_of_ascii """ /// triple
, ""abc""
,0123456789, ""{,}""
, // trailing space 
00	,""" ++ [233]%N ++ runes_of_ascii "t" ++ [233]%N ++ runes_of_ascii """ // packet A { u8 x, }
]:	asx },repeat  f64	charz
, @tag( 10 ) repeat charz
Logon , @lengthOf( u8x
) @calculatedFrom( ""a\""b"" )
    @rightPad // @lengthOf(
(
' '
    ) u8 a1
`u8 x,` ,	}
packet	falsey  {
    repeat
char[] zchar, @tag( 255 )@calculatedFrom( ""`tick`""
    )
char[] asx `say ""hi""`
    ,
    u8  As `u8 x,` , // 50% %s
zchar[00 ]	uint8x @lengthOf( // packet A { u8 x, }
zchar ) , char[ 255  ]
uint8x , Pad @lengthOf(
    // packet A { u8 x, }
    _x
    )	`" ++ [233]%N ++ runes_of_ascii "` ,
    _x,@rightPad (
    ' ' ) uint16
BodyLength/// triple
, @lengthOf( int// " ++ [128512]%N ++ runes_of_ascii " emoji
) metadata tag , int64	string_ `
`
, } root
packet
o {} options// packet A { u8 x, }
{	}
")).
Eval vm_compute in ("<<<M1364>>>" ++ check (runes_of_ascii "// top
options
    // c0
{ // c1a
  // c1b
LittleEndian
    // c2
= // c3
true // c4a
  // c4b
;
    // c5
StringPrefixLenType
    // c6
= // c7a
  // c7b
u32 // c8
;
    // c9
ArrayPrefixLenType // c10a
  // c10b
= // c11a
  // c11b
u64 // c12a
  // c12b
; } // c14
packet
    // c15
Logon // c16a
  // c16b
{ // c17a
  // c17b
string
    // c18
OrderId // c19a
  // c19b
, // c20a
  // c20b
uint32 lastPx
    // c22
,
    // c23
repeat // c24
char[ // c25
6 ] Side2 // c28
, // c29a
  // c29b
i64 // c30a
  // c30b
Tail // c31
, // c32
repeat
    // c33
i8 // c34
f1
    // c35
, }
    // c37
packet // c38a
  // c38b
Party // c39
{ } packet Quote // c43a
  // c43b
{ // c44
repeat // c45
char[ 6 ] // c48
clOrdID // c49
, repeat Logon // c52
, // c53
}
    // c54
root // c55
packet
    // c56
Order // c57a
  // c57b
{
    // c58
zchar[ // c59a
  // c59b
5 // c60
]
    // c61
Acct ,
    // c63
repeat // c64a
  // c64b
f64 price ,
    // c67
} // c68
")).
Eval vm_compute in ("<<<M282>>>" ++ check (runes_of_ascii "// a // b
root packet	uint8x
{ repeat x
    { tag
@calculatedFrom( ""// no comment""
)
`it's`  , }
,
    //x
    A
//	t
// @lengthOf(
@calculatedFrom(// trailing space 
""abc"") , uint64 zchar,
//	t
//	t
zchar[7 ] msg_type , @calculatedFrom( """ ++ [28040; 24687]%N ++ runes_of_ascii """
    // " ++ [27880; 37322]%N ++ runes_of_ascii "
    )
crc
,
    // `tick` ""quote"" 'q'
    f32a Pad
,	Header
// 50% %s
//x
, // trailing space 
zchar[42] x
@calculatedFrom( ""\n"")`" ++ [28040; 24687; 31867; 22411]%N ++ runes_of_ascii "` , string len
,
    } packet
    falsey {
    // " ++ [27880; 37322]%N ++ runes_of_ascii "
    i64_ @calculatedFrom(
    ""{,}"" ) , repeat
string chars,
    // `tick` ""quote"" 'q'
    zchar[ 7 ] calculatedFrom
    ,Header
    { char u
    `crlf
line` , repeat char[]	tag `a\` ,
    Z9_ @lengthOf(T) // " ++ [27880; 37322]%N ++ runes_of_ascii "
`say ""hi""`
,
}
,
/// triple
// " ++ [27880; 37322]%N ++ runes_of_ascii "
msg_type @calculatedFrom( ""// no comment""
) ,
@rightPad( '\x00' ) @lengthOf(
asx)
falsey ,
} // a // b")).
Eval vm_compute in ("<<<M1197>>>" ++ check (runes_of_ascii "// top
options
    // c0
{ } // c2a
  // c2b
MetaData // c3a
  // c3b
packetx { int // c6a
  // c6b
falsey
    // c7
`two words` , // c9
int32 // c10
trueish // c11a
  // c11b
,
    // c12
char[] // c13a
  // c13b
u8x , A // c16a
  // c16b
x
    // c17
`// not a comment` // c18a
  // c18b
, // c19
} // c20a
  // c20b
root // c21a
  // c21b
packet // c22
i8i8 { @lengthOf( repeatCount // c26
) // c27a
  // c27b
@tag( // c28
1 // c29
) @calculatedFrom(
    // c31
""a	b""
    // c32
) // c33
string // c34a
  // c34b
stringy // c35
@calculatedFrom(
    // c36
""\n"" // c37a
  // c37b
) // c38a
  // c38b
`line1
line2`
    // c39
, // c40
pack // c41
`100% of %d` // c42
,
    // c43
} // c44
")).
Eval vm_compute in ("<<<M1428>>>" ++ check (runes_of_ascii "options{  lengthOf// " ++ [128512]%N ++ runes_of_ascii " emoji
=// `tick` ""quote"" 'q'
true
; string_=""a\\""

    ; }root

    packet	zchar 
{ string_  // " ++ [27880; 37322]%N ++ runes_of_ascii "
  	{
match 
      //
    //x
      x as 
string_

    { 

    //	t

	0
:zchar ,

}

    ,
	}	,@calculatedFrom(
""CRC32"" )
	@tag(
42

    ) 
repeat char[4294967296
	] u `say ""hi""`
, 
// 50% %s

@tag(3
)	@leftPad
	( 
' ' 
)
	@tag(	// `tick` ""quote"" 'q'
	42

    )match Header
    as A
    { 
42 : Logon
,
    } ,
	@tag(	4294967296

    ) i64_ 
`doc`

, }	root packet	x_y_z { @calculatedFrom(
""// no comment"" )
@leftPad( ) @lengthOf(int
    )  //	t
	  u8x  `" ++ [28040; 24687; 31867; 22411]%N ++ runes_of_ascii "`, }
")).
Eval vm_compute in ("<<<M1305>>>" ++ check (runes_of_ascii "// top
packet // c0a
  // c0b
A
    // c1
{ // c2
u8 // c3a
  // c3b
a // c4
, // c5
} // c6
packet
    // c7
B
    // c8
{
    // c9
u16 // c10a
  // c10b
b , } root // c14a
  // c14b
packet // c15
P // c16a
  // c16b
{ u8 K1
    // c19
, // c20
u8
    // c21
K2
    // c22
,
    // c23
match
    // c24
K1 as M1 { // c28a
  // c28b
1
    // c29
:
    // c30
A // c31a
  // c31b
, } // c33a
  // c33b
,
    // c34
match
    // c35
K2 // c36
as // c37
M2 // c38
{ 1 : B // c42a
  // c42b
,
    // c43
} // c44a
  // c44b
, // c45
}
    // c46
")).
Eval vm_compute in ("<<<M1157>>>" ++ check (runes_of_ascii "// top
MetaData
    // c0
msg_type
    // c1
{
    // c2
int32
    // c3
As
    // c4
`crlf
line`
    // c5
,
    // c6
MetaDataX
    // c7
x
    // c8
`a\`
    // c9
,
    // c10
int8
    // c11
_x
    // c12
,
    // c13
char[]
    // c14
As
    // c15
`u8 x,`
    // c16
,
    // c17
zchar[
    // c18
3
    // c19
]
    // c20
uint8x
    // c21
,
    // c22
As
    // c23
Foo
    // c24
,
    // c25
}
    // c26
root
    // c27
packet
    // c28
repeatCount
    // c29
{
    // c30
}
    // c31
")).
Eval vm_compute in ("<<<M1667>>>" ++ check (runes_of_ascii "
MetaData
	body
    {//x
    asx As

,  Foo
	calculatedFrom ``
,
packetx pack	`{ , }` ,	// packet A { u8 x, }
  	u8x

falsey
    `say ""hi""` ,  float32	float`line1
line2` 
,
    char[] u
`it's`,
    }
    packet  
  // a // b
  asx{ uint32
pack 
@calculatedFrom(
    ""CRC32"" ) `line1
line2`  ,
char[ 
65535/// triple
]

roots// @lengthOf(
	,
    Z9_
	zchar// trailing space 
    ,repeat
    uint64// 50% %s
	float `line1
line2` ,} root
	packet

options1 {}

")).
Eval vm_compute in ("<<<M186>>>" ++ check (runes_of_ascii "// @lengthOf(
packet  Pad{
    string_ @calculatedFrom( """ ++ [128512]%N ++ runes_of_ascii """ ),
//	t
// c
char[ 255
] metadata@calculatedFrom( ""1"" )
// trailing space 
// 50% %s
`line1
line2` ,	@rightPad (
'0'
)
    @lengthOf(metadata ) @tag(
007 ) repeat char[0
]MetaDataX, uint8x, @tag(
0 ) f32 uint8x
@lengthOf( roots
    ), repeat Packet
//x
// " ++ [27880; 37322]%N ++ runes_of_ascii "
,MetaDataX `line1
line2`,
@lengthOf(int )string len`// not a comment`  , char[ 3 // c
]
    Pad, // " ++ [27880; 37322]%N ++ runes_of_ascii "
}
")).
Eval vm_compute in ("<<<M319>>>" ++ check (runes_of_ascii "
MetaData chars {
char[]f32a	`" ++ [28040; 24687; 31867; 22411]%N ++ runes_of_ascii "` ,
zchar[ 255 ] calculatedFrom , // @lengthOf(
a1
metadata
    ,
    // a // b
    u i64_ `
` , A asx `100% of %d` , }
    // `tick` ""quote"" 'q'
    MetaData int //x
{ char[] As
// 50% %s
// @lengthOf(
`// not a comment` , }
MetaData
    Header { int16
charz
    , uint64 u8x
    // c
    ,	string zchar , float64 options1 `// not a comment`,uint64 stringy , }
")).
Eval vm_compute in ("<<<M304>>>" ++ check (runes_of_ascii "  options { }
root packet chars { @rightPad ('0'	)chars f32a
`say ""hi""`, int16 u8x , @tag(4294967296)
@rightPad// packet A { u8 x, }
() u64 packetx
    @calculatedFrom(  ""it's"" ), @calculatedFrom(
    // `tick` ""quote"" 'q'
    ""\n"" ) o @calculatedFrom( ""a\""b"" )
, Logon
@lengthOf(BodyLength), }
options
{ } MetaData zchar{u64 MetaDataX`// not a comment` ,	} 	 ")).
Eval vm_compute in ("<<<M138>>>" ++ check (runes_of_ascii "packet falsey
    { repeat f32 msg_type,
    // `tick` ""quote"" 'q'
    } options  {	x = false // trailing space 
;//	t
A = 0123456789	;
}packet stringy { u128 int
// @lengthOf(
// @lengthOf(
, } MetaData A { u16 o ,	A u8x
    ,
string roots , options1 u128 `line1
line2` ,char[] msg_type
``
, roots rootA `{ , }` ,// @lengthOf(
}")).
Eval vm_compute in ("<<<M1424>>>" ++ check (runes_of_ascii "
packet leftPad

{ @leftPad
	(' '
)@calculatedFrom( """ ++ [28040; 24687]%N ++ runes_of_ascii """ ) 
zchar[ 4294967296	]string_
	,
	metadata

{  tag

@lengthOf(
body 
)

`two words`
    ,}
    ,
	@tag( 255

    ) int16 
asx  @calculatedFrom(  ""a	b"" ) 
      // `tick` ""quote"" 'q'
	// `tick` ""quote"" 'q'
`{ , }` 	 // c
,

} ")).
Eval vm_compute in ("<<<M1325>>>" ++ check (runes_of_ascii "packet MDSnapshotZZ {
    u8 a,
}
packet OrderACK {
    u16 b,
}
packet HTTPServerInfo {
    string s,
}
root packet FIXMsg {
    u8 KType,
    MDSnapshotZZ,
    repeat OrderACK,
    match KType as Body {
        1 : HTTPServerInfo,
        2 : OrderACK,
    },
}
")).
Eval vm_compute in ("<<<M437>>>" ++ check (runes_of_ascii "packet
    asx { @calculatedFrom(
""""  ) @tag( 255 )repeat
// packet A { u8 x, }
// trailing space 
int16 int16 u8x
,
@tag(
    //
    007 )
    @tag( 0
    /// triple
    ) @tag( 1) u
    @lengthOf( T ),
// `tick` ""quote"" 'q'
//x
} // " ++ [128512]%N ++ runes_of_ascii " emoji")).
Eval vm_compute in ("<<<M492>>>" ++ check (runes_of_ascii "packet
    asx { @calculatedFrom(
""""  ) @tag( 255 )repeat
// packet A { u8 x, }
// trailing space 
int16 u8x
,
@tag(
    //
    007 )
    @tag( 0
    /// triple
    ) @tag( 1) ) u
    @lengthOf( T ),
// `tick` ""quote"" 'q'
//x
} // " ++ [128512]%N ++ runes_of_ascii " emoji")).
Eval vm_compute in ("<<<M438>>>" ++ check (runes_of_ascii "packet
    asx { @calculatedFrom(
""""  ) @tag( 255 )repeat
// packet A { u8 x, }
// trailing space 
u8x int16
,
@tag(
    //
    007 )
    @tag( 0
    /// triple
    ) @tag( 1) u
    @lengthOf( T ),
// `tick` ""quote"" 'q'
//x
} // " ++ [128512]%N ++ runes_of_ascii " emoji")).
Eval vm_compute in ("<<<M446>>>" ++ check (runes_of_ascii "packet
    asx { @calculatedFrom(
""""  ) @tag( 255 )repeat
// packet A { u8 x, }
// trailing space 
int16 u8x

@tag(
    //
    007 )
    @tag( 0
    /// triple
    ) @tag( 1) u
    @lengthOf( T ),
// `tick` ""quote"" 'q'
//x
} // " ++ [128512]%N ++ runes_of_ascii " emoji")).
Eval vm_compute in ("<<<M1773>>>" ++ check (runes_of_ascii "options {
    i8i8 = ""\n""
    Header = ""x y"";/// triple
}

root packet A {
    match charz as T {
        //
        0 : options1,
        // `tick` ""quote"" 'q'
    },
}

packet float {
    @rightPad()
    repeat metadata `u8 x,`,
}")).
Eval vm_compute in ("<<<M117>>>" ++ check (runes_of_ascii "packet a1 { repeat o o
, i8
falsey ,
repeat u64 MetaDataX
, // trailing space 
}
    packet
    // " ++ [27880; 37322]%N ++ runes_of_ascii "
    int {	tag @calculatedFrom( ""a\\"" ) ,
    matchKey , trueish// trailing space 
options1,
u64 Logon  , }")).
Eval vm_compute in ("<<<M294>>>" ++ check (runes_of_ascii "
options  { Packet =u16 ;
f32a
    //
    =
""a\""b"" lengthOf= '0'
; uint8x =
    i8 uint8x ='\x00'; } packet
    rootA {
} options
{
uint8x =
    // a // b
    ""\" ++ [233]%N ++ runes_of_ascii """ } MetaData Packet {}
")).
Eval vm_compute in ("<<<M1408>>>" ++ check (runes_of_ascii "packet T {
}

MetaData lengthOf {
    char[4294967296] a1,
    float64 body `100% of %d`,
    asx Foo,
    u8x pack,
    zchar[0123456789] Z9_,
    char As `crlf
    line`,
}")).
Eval vm_compute in ("<<<M637>>>" ++ check (runes_of_ascii "MetaData u
    { } MetaData o
{ float uint8x
`100% of %d` ,repeatCount u8x, string_ leftPad
, i32
    Foo Foo , int64 x `two words` , calculatedFrom
stringy `a\` ,
}
")).
Eval vm_compute in ("<<<M700>>>" ++ check (runes_of_ascii "MetaData u
    { } MetaData o
{ float uint8x
`100% of %d` ,# repeatCount u8x, string_ leftPad
, i32
    Foo , int64 x `two words` , calculatedFrom
stringy `a\` ,
}
")).
Eval vm_compute in ("<<<M614>>>" ++ check (runes_of_ascii "MetaData u
    { } MetaData o
{ float uint8x
`100% of %d` ,repeatCount u8x[ string_ leftPad
, i32
    Foo , int64 x `two words` , calculatedFrom
stringy `a\` ,
}
")).
Eval vm_compute in ("<<<M679>>>" ++ check (runes_of_ascii "MetaData u
    { } MetaData o
{ float uint8x
`100% of %d` ,repeatCount u8x, string_ leftPad
, i32
    Foo , int64 x `two words` , calculatedFrom
stringy i32 ,
}
")).
Eval vm_compute in ("<<<M616>>>" ++ check (runes_of_ascii "MetaData u
    { } MetaData o
{ float uint8x
`100% of %d` ,repeatCount u8x,  leftPad
, i32
    Foo , int64 x `two words` , calculatedFrom
stringy `a\` ,
}
")).
Eval vm_compute in ("<<<M666>>>" ++ check (runes_of_ascii "MetaData u
    { } MetaData o
{ float uint8x
`100% of %d` ,repeatCount u8x, string_ leftPad
, i32
    Foo , int64 x `two words` , 
stringy `a\` ,
}
")).
Eval vm_compute in ("<<<M1510>>>" ++ check (runes_of_ascii "packet A {
    match k as n {
        [
            1, ""bb"", 007, ""d"", 5,
            ""f"", 7, ""h"", 9
        ] : B,
        2 : C,
    },
}")).
Eval vm_compute in ("<<<M1296>>>" ++ check (runes_of_ascii "// top
root // c0
packet P // c2a
  // c2b
{ // c3a
  // c3b
string
    // c4
s // c5a
  // c5b
, // c6a
  // c6b
} // c7a
  // c7b
")).
Eval vm_compute in ("<<<M252>>>" ++ check (runes_of_ascii "options
{ zchar = ' ' ;trueish =
    false ;packetx = 007 // packet A { u8 x, }
; Logon=	true	Z9_ =
    zchar[ 7
    ]	}")).
Eval vm_compute in ("<<<M959>>>" ++ check (runes_of_ascii "packet A {
    u16 len @lengthOf(body) `tab
	x`,
    u32 crc @calculatedFrom(""CRC32"") `tab
	x`,
    string body,
}")).
Eval vm_compute in ("<<<M1226>>>" ++ check (runes_of_ascii "options { } options { MetaDataX = char ; } MetaData Pad
// c
{ i8 metadata , string stringy , int8 As `{ , }` , }")).
Eval vm_compute in ("<<<M912>>>" ++ check (runes_of_ascii "packet A {
  match k as n {
    [""a"", ""bb"", 007, ""d"", ""e"", 66, ""g"", ""h"", 9, ""j"", ""k"", 12] : B,
    2 : C
  },
}")).
Eval vm_compute in ("<<<M895>>>" ++ check (runes_of_ascii "packet A {
  match k as n {
    [""a"", 22, ""c c"", 4, ""e"", 66, ""g"", 8, ""i"", 10, ""k""] : B,
    2 : C
  },
}")).
Eval vm_compute in ("<<<M177>>>" ++ check (runes_of_ascii "MetaData
    matchKey
    //x
    {	i64 float `crlf
line` ,//	t
leftPad
asx ,
uint8x leftPad  ,}
")).
Eval vm_compute in ("<<<M903>>>" ++ check (runes_of_ascii "packet A {
  match k as n {
    [1, 22, 007, 4, 5, 66, 7, 8, 9, 10, 11, 12] : B
    2 : C
  },
}")).
Eval vm_compute in ("<<<M840>>>" ++ check (runes_of_ascii "packet A {
  match k as n {
    [""a"", ""bb"", ""c c"", ""d"", ""e"", ""f"", ""g""] : B
    2 : C
  },
}")).
Eval vm_compute in ("<<<M1105>>>" ++ check (runes_of_ascii "packet A { match k as n // a
 { // b
 1 // c
 : // d
 B // e
 , // f
 } // g
 , // h
 }")).
Eval vm_compute in ("<<<M842>>>" ++ check (runes_of_ascii "packet A {
  match k as n {
    [1, ""bb"", 007, ""d"", 5, ""f"", 7] : B
    2 : C
  },
}")).
Eval vm_compute in ("<<<M359>>>" ++ check (runes_of_ascii "options
    //
    { MetaDataX // " ++ [128512]%N ++ runes_of_ascii " emoji
= false crc = char[]
// a // b
//x
}")).
Eval vm_compute in ("<<<M1178>>>" ++ check (runes_of_ascii "// top
options // c0
{ // c1
A // c2
= // c3
""// no comment"" // c4
} // c5
")).
Eval vm_compute in ("<<<M610>>>" ++ check (runes_of_ascii "MetaData u
    { } MetaData o
{ float uint8x
`100% of %d` ,repeatCount")).
Eval vm_compute in ("<<<M1291>>>" ++ check (runes_of_ascii "root packet P {
    u16 a,
    u32 Sum @calculatedFrom(""CRC32""),
}
")).
Eval vm_compute in ("<<<M1645>>>" ++ check (runes_of_ascii "root packet uint8x {
    string stringy @lengthOf(matchKey),
}")).
Eval vm_compute in ("<<<M1775>>>" ++ check (runes_of_ascii "root packet P {
    hdr {
        u8 a,
    },
    u8 x,
}")).
Eval vm_compute in ("<<<M1859>>>" ++ check (runes_of_ascii "packet A {
    u8 x `a
            b
          c`,
}")).
Eval vm_compute in ("<<<M919>>>" ++ check (runes_of_ascii "MetaData M {
    u8 x `a
b`,
    T t `a
b`,
}")).
Eval vm_compute in ("<<<M1759>>>" ++ check (runes_of_ascii "packet
A
{ u8  x
`d" ++ [12288]%N ++ runes_of_ascii "`
    ,	// c" ++ [12288]%N ++ runes_of_ascii "
  	}")).
Eval vm_compute in ("<<<M357>>>" ++ check (runes_of_ascii "MetaData rootA
{ options1 a1
, }

")).
Eval vm_compute in ("<<<M5>>>" ++ check (runes_of_ascii "MetaData float  { uint16 float , }")).
Eval vm_compute in ("<<<M1689>>>" ++ check (runes_of_ascii "packet A {
    u8 x `d" ++ [8232]%N ++ runes_of_ascii "`,// c" ++ [8232]%N ++ runes_of_ascii "
}")).
Eval vm_compute in ("<<<M1740>>>" ++ check (runes_of_ascii "packet A {
    u8 x `
    `,
}")).
Eval vm_compute in ("<<<M175>>>" ++ check (runes_of_ascii "MetaData Foo
    {
    }
")).
Eval vm_compute in ("<<<M32>>>" ++ check (runes_of_ascii "MetaData
packetx { }
")).
Eval vm_compute in ("<<<M1945>>>" ++ check (runes_of_ascii "
packet u8x 
{ }

")).
Eval vm_compute in ("<<<M1071>>>" ++ check (runes_of_ascii "// c" ++ [65279]%N ++ runes_of_ascii "
packet A {
}")).
Eval vm_compute in ("<<<M1168>>>" ++ check (runes_of_ascii "packet
// c
x { }")).
Eval vm_compute in ("<<<M741>>>" ++ check (runes_of_ascii "u16 zchar {")).
Eval vm_compute in ("<<<M1069>>>" ++ check (runes_of_ascii "// c" ++ [65279]%N)).
