From FP Require Import Lexer Parser ShowPT Digest Formatter.
From Coq Require Import String List NArith.
Import ListNotations.
Open Scope string_scope.
Set Printing Width 100000000.
Set Printing Depth 100000000.
Definition show_fres (r : fres) : string :=
  match r with
  | FOk s => "OK:" ++ sh_escaped s ""
  | FErr s => "ERR:" ++ sh_escaped s ""
  | FPanic p => "PANIC:" ++ p
  end.
Definition check (rs : list rune) : string := digest (show_fres (format_res rs)).
Definition full (rs : list rune) : string := show_fres (format_res rs).
Eval vm_compute in ("<<<M1330>>>" ++ check (runes_of_ascii "options {
    // c1
FixedStringPadFromLeft // c2
= // c3
true
    // c4
;
    // c5
FixedStringPadChar // c6
=
    // c7
'0' // c8
; // c9
} packet Leg { // c13a
  // c13b
InPrice0
    // c14
{ // c15
repeat
    // c16
string // c17a
  // c17b
clOrdID // c18
,
    // c19
int16 // c20a
  // c20b
msgKind ,
    // c22
zchar[
    // c23
5 // c24
] // c25
Px // c26a
  // c26b
, // c27a
  // c27b
} // c28a
  // c28b
,
    // c29
i16 // c30
f1
    // c31
,
    // c32
repeat // c33a
  // c33b
f64 // c34a
  // c34b
Side2
    // c35
,
    // c36
string // c37
Acct // c38
,
    // c39
} packet // c41a
  // c41b
Cancel // c42
{
    // c43
zchar[ // c44a
  // c44b
4 // c45
] // c46a
  // c46b
clOrdID , // c48a
  // c48b
string
    // c49
seqNo // c50
, // c51
Leg
    // c52
,
    // c53
@leftPad // c54
(
    // c55
'0'
    // c56
) // c57
char[
    // c58
11 // c59
] OrderId // c61
, // c62
} // c63a
  // c63b
packet
    // c64
Quote // c65a
  // c65b
{
    // c66
repeat // c67a
  // c67b
char[ // c68
4 ]
    // c70
sym , f64 // c73a
  // c73b
OrderId
    // c74
, repeat Leg // c77
,
    // c78
repeat // c79a
  // c79b
i64 f1
    // c81
, int16 // c83
Note // c84
, // c85
zchar[ // c86a
  // c86b
3 ] // c88
count // c89a
  // c89b
, // c90
}
    // c91
root packet // c93
Ack
    // c94
{ // c95
@leftPad // c96
(
    // c97
' '
    // c98
)
    // c99
char[ 10 // c101
] // c102a
  // c102b
sym
    // c103
,
    // c104
InPx60 // c105
{ Cancel // c107
, // c108a
  // c108b
repeat char[ 1
    // c111
] // c112a
  // c112b
f1 , // c114a
  // c114b
string // c115a
  // c115b
Tail , // c117
repeat
    // c118
InNote55 {
    // c120
int8 // c121
count
    // c122
, // c123a
  // c123b
f64 // c124
f1 // c125
, repeat // c127a
  // c127b
Cancel // c128
,
    // c129
} // c130
, char[] // c132
tag7 , // c134a
  // c134b
repeat // c135a
  // c135b
string msgKind , // c138a
  // c138b
} // c139a
  // c139b
, // c140
u8
    // c141
lastPx // c142
, // c143
match lastPx
    // c145
as // c146a
  // c146b
Body // c147
{ // c148a
  // c148b
152 // c149
: // c150a
  // c150b
Quote , 173 :
    // c154
Cancel // c155
,
    // c156
4
    // c157
: Leg , // c160a
  // c160b
} , // c162a
  // c162b
u16 Ref
    // c164
@calculatedFrom( // c165
""CRC32"" ) // c167a
  // c167b
, } // c169
")).
Eval vm_compute in ("<<<M386>>>" ++ check (runes_of_ascii "options {
    StringPrefixLenType = u16;
    ArrayPrefixLenType = u16;
}

packet SampleBinary {
    uint16 MsgType `" ++ [28040; 24687; 31867; 22411]%N ++ runes_of_ascii "`,
    u16 BodyLenght @lengthOf(Body) `" ++ [28040; 24687; 20307; 38271; 24230]%N ++ runes_of_ascii "`,
    match MsgType as Body {
        1 : Logon,
        2 : Logout,
        3 : Heartbeat,
        4 : RiskControlRequest,
        5 : RiskControlResponse,
    },
    @calculatedFrom(""CRC32"")
    u32 Ckecksum `" ++ [26657; 39564; 21644]%N ++ runes_of_ascii "`,
}

packet Logon {
    @leftPad('0')
    char[10] UserName `" ++ [29992; 25143; 21517]%N ++ runes_of_ascii "`,
    string Password `" ++ [23494; 30721]%N ++ runes_of_ascii "`,
    uint64 ClientId `" ++ [23458; 25143; 31471]%N ++ runes_of_ascii "ID`,
    u16 HeartbeatInterval `" ++ [24515; 36339; 38388; 38548]%N ++ runes_of_ascii "`,
}

packet Logout {
    @rightPad('0')
    char[10] UserName `" ++ [29992; 25143; 21517]%N ++ runes_of_ascii "`,
    uint64 ClientId `" ++ [23458; 25143; 31471]%N ++ runes_of_ascii "ID`,
}

packet Heartbeat {
}

packet RiskControlRequest {
    string UniqueOrderId `" ++ [21807; 19968; 35746; 21333; 21495]%N ++ runes_of_ascii "`,
    char[16] ClOrdID `" ++ [23458; 25143; 35746; 21333; 21495]%N ++ runes_of_ascii "`,
    char[3] MarketID `" ++ [24066; 22330]%N ++ runes_of_ascii "id`,
    char[12] SecurityID `" ++ [35777; 21048; 20195; 30721]%N ++ runes_of_ascii "`,
    char Side `" ++ [20080; 21334; 26041; 21521]%N ++ runes_of_ascii "`,
    char OrderType `" ++ [35746; 21333; 31867; 22411]%N ++ runes_of_ascii "`,
    u64 Price `" ++ [20215; 26684]%N ++ runes_of_ascii "`,
    u32 Qty `" ++ [25968; 37327]%N ++ runes_of_ascii "`,
    repeat string ExtraInfo `" ++ [38468; 21152; 20449; 24687]%N ++ runes_of_ascii "`,
    repeat SubOrder {
        char[16] ClOrdID `" ++ [23376; 35746; 21333; 21495]%N ++ runes_of_ascii "`,
        u64 Price `" ++ [23376; 35746; 21333; 20215; 26684]%N ++ runes_of_ascii "`,
        u32 Qty `" ++ [23376; 35746; 21333; 25968; 37327]%N ++ runes_of_ascii "`,
    },
}

packet RiskControlResponse {
    string UniqueOrderId `" ++ [21807; 19968; 35746; 21333; 21495]%N ++ runes_of_ascii "`,
    i32 Status `" ++ [29366; 24577]%N ++ runes_of_ascii "`,
    string Msg `" ++ [32467; 26524; 20449; 24687]%N ++ runes_of_ascii "`,
    repeat Detail,
}

packet Detail {
    string RuleName `" ++ [35268; 21017; 21517; 31216]%N ++ runes_of_ascii "`,
    u16 Code `" ++ [21407; 22240; 20195; 30721]%N ++ runes_of_ascii "`,
}")).
Eval vm_compute in ("<<<M1536>>>" ++ check (runes_of_ascii "
packet

pack

{@lengthOf(
Foo 
// c
    ) asx
@lengthOf(  _x )  /// triple

	,
u8
	x_y_z
`two words`
,
repeat
	zchar[ 0
]

roots `
` 
    // `tick` ""quote"" 'q'
  , lengthOf@calculatedFrom(""abc""

) 
,
	@tag(	3)	@rightPad ( ' ')	@calculatedFrom(
""1"" 
      //x
	// " ++ [27880; 37322]%N ++ runes_of_ascii "
		)
	repeat
uint64  i64_ 	 // trailing space 
    `say ""hi""`// @lengthOf(

, 
@tag( 007 
)match roots

    as 
float

{
	""a	b""
: lengthOf

,[ 1
,  // @lengthOf(
	""\n""	, ""a\""b"",
	""\" ++ [233]%N ++ runes_of_ascii """ ,  ""1"" , 42]
    :  msg_type  , 
""" ++ [128512]%N ++ runes_of_ascii """
: Foo }  ,
    T //x

  {	match  Header
	as	trueish

    { 
[ 
    // `tick` ""quote"" 'q'

// @lengthOf(
0 ,
	3 // @lengthOf(
  	,
""{,}"",""1""
,00 ,	0123456789
, ""// no comment""
]:As

,
    }

,
    }
	,
repeat char[
	10  ] o 
`
`

,@calculatedFrom( 
	//
  ""`tick`""	//x
	  )
	repeat
    crc
    {  repeatCount
    o

    ,  u8x	As
,
    }

    ,}

    packet
    pack
	{ 
@calculatedFrom(

    """ ++ [233]%N ++ runes_of_ascii "t" ++ [233]%N ++ runes_of_ascii """
)  u32 
f32a
    ,	}
    MetaData  float { u32	options1
,
	} 
packet
	f32a

{ 
}")).
Eval vm_compute in ("<<<M70>>>" ++ check (runes_of_ascii "packet pack { @lengthOf(
Foo
    // c
    )
    asx @lengthOf( _x ) /// triple
, u8	x_y_z `two words` ,repeat
    zchar[0
    ] roots `
`
    // `tick` ""quote"" 'q'
    , lengthOf @calculatedFrom( ""abc""
) ,
@tag( 3 ) @rightPad	( ' ')@calculatedFrom(
""1""
//x
// " ++ [27880; 37322]%N ++ runes_of_ascii "
)
repeat uint64 i64_ // trailing space 
`say ""hi""` // @lengthOf(
,	@tag( 007 ) match roots as float {	""a	b""
    : lengthOf,
    [1, // @lengthOf(
""\n""
,
""a\""b"" , ""\" ++ [233]%N ++ runes_of_ascii """ ,  ""1"",
    42 ]: msg_type, """ ++ [128512]%N ++ runes_of_ascii """: Foo} ,T//x
{
    match
Header
as trueish
{ [
// `tick` ""quote"" 'q'
// @lengthOf(
0 , 3// @lengthOf(
, ""{,}"" ,
""1"" ,
00  ,
0123456789
,
    ""// no comment"" ]
:As
    , }
    , } , repeat char[
    10
]
o `
`
, @calculatedFrom(
    //
    ""`tick`"" //x
) repeat crc {
    repeatCount o ,
    u8x
As, } ,
} packet pack{@calculatedFrom( """ ++ [233]%N ++ runes_of_ascii "t" ++ [233]%N ++ runes_of_ascii """ )  u32 f32a
,
}
    MetaData float
{u32 options1 , }
packet
f32a { }
")).
Eval vm_compute in ("<<<M298>>>" ++ check (runes_of_ascii "
options  { } options
    {  uint8x =
// @lengthOf(
// " ++ [27880; 37322]%N ++ runes_of_ascii "
42 uint8x = /// triple
""abc"" ; //x
_x='0'
    }
    packet u8x
    { zchar[ 1 ] As
`crlf
line`, match metadata as float  { ""packet"" ://
trueish , } , repeat
rootA
, repeat metadata repeatCount// trailing space 
, @rightPad( // `tick` ""quote"" 'q'
'0') i64 body `// not a comment`
, @tag( 1) string string_
    `line1
line2` ,
uint8 u8x`" ++ [28040; 24687; 31867; 22411]%N ++ runes_of_ascii "` ,
packetx u128,	u tag , repeat Logon zchar
`` ,  }packet zchar
{
    }	packet	MetaDataX { @lengthOf(
Packet ) repeatCount  int
`doc` , @tag(
7 ) packetx @calculatedFrom( ""a\""b""// c
) , match msg_type as x { ""\n"" : calculatedFrom }, //x
@leftPad (// packet A { u8 x, }
'\x00')@lengthOf( MetaDataX // c
)
    // a // b
    char[007
] a1`tab	here`, As
    @calculatedFrom( ""`tick`"") `// not a comment`,} 	 ")).
Eval vm_compute in ("<<<M1898>>>" ++ check (runes_of_ascii "root packet i64_ {
    trueish,
    @calculatedFrom(""abc"")
    @tag(7)
    // c
    int16 asx,
    @calculatedFrom(""a\\"")
    float32 crc @lengthOf(Foo),
    @tag(42)
    zchar[7] asx @lengthOf(calculatedFrom) `// not a comment`,//
    repeat zchar[1] As,
    chars `two words`,
    @calculatedFrom(""1"")
    @tag(0123456789)
    @leftPad('0')
    repeat char[] BodyLength `tab	here`,
}

MetaData u128 {
    u16 i64_,
    float32 asx `two words`,
    i64 leftPad,
    zchar[00] _x,
}

MetaData chars {
    Foo crc `say ""hi""`,
    uint8 u `two words`,
    f32 pack `crlf
        line`,
    string _x `" ++ [233]%N ++ runes_of_ascii "`,
}

packet x_y_z {
}

options {
    calculatedFrom = ""CRC32""
    crc = uint16;
    u = false
    Foo = char
}// " ++ [128512]%N ++ runes_of_ascii " emoji")).
Eval vm_compute in ("<<<M184>>>" ++ check (runes_of_ascii "packet options1{@leftPad	( '0' )	@rightPad ( // a // b
'\x00'
) @tag(
255
) /// triple
repeat string As `
`,
@calculatedFrom(
"""" )@calculatedFrom(//x
""x y"" )
a1
{ Foo {trueish { tag
@lengthOf(  i8i8 ) `doc`
, }
, zchar[
00 ] f32a @lengthOf( calculatedFrom) , repeat
zchar[ 1
    ] stringy`{ , }`
    , },uint64  repeatCount	@lengthOf(// `tick` ""quote"" 'q'
asx
    ) , char[ 42
] lengthOf @calculatedFrom(// c
""packet""), char[ 10 ] calculatedFrom @lengthOf( BodyLength ), } ,
asx`// not a comment`,  } options { matchKey =""" ++ [128512]%N ++ runes_of_ascii """ falsey = ""a\""b"" ; A // a // b
= ""CRC32"" msg_type
    =
    //x
    """ ++ [233]%N ++ runes_of_ascii "t" ++ [233]%N ++ runes_of_ascii """	; } MetaData o//	t
{
} packet
Pad{  }")).
Eval vm_compute in ("<<<M348>>>" ++ check (runes_of_ascii "root // c
packet asx { @rightPad
    (
' ' ) @lengthOf(  int)@tag( 0 ) u64 uint8x @calculatedFrom( ""packet"")
    ,  uint32 i64_ ,
    // c
    repeat options1 o,match f32a as /// triple
falsey// " ++ [27880; 37322]%N ++ runes_of_ascii "
{ 42 : stringy 10 :
As, """" :
    Packet ,
} ,@calculatedFrom(""it's""
) // " ++ [128512]%N ++ runes_of_ascii " emoji
f64	a1 ,
    @lengthOf(
    tag )
    match roots as MetaDataX
{
""" ++ [128512]%N ++ runes_of_ascii """:  f32a
    , ""\n"" :
    As [ 255 ]: A ,  }, a1 @calculatedFrom(	""abc"" )
`` , @rightPad(
)
    @rightPad (
    '\x00'
)@calculatedFrom(
""CRC32"" )body As , }  root packet packetx
{
//x
//
repeat lengthOf Logon `" ++ [28040; 24687; 31867; 22411]%N ++ runes_of_ascii "` , //	t
}")).
Eval vm_compute in ("<<<M1399>>>" ++ check (runes_of_ascii "// top
options {
    // c1a
    // c1b
    LittleEndian = true;
    // c5
    StringPrefixLenType = u16;// c9a
    // c9b
    FixedStringPadChar = ' ';
}// c14

packet Logon {
    @leftPad('0')
    // c21
    char[10] tag7,
}// c27a

// c27b
root packet Ack {
    int32 Px,// c34
    uint16 count,
    // c37
    string Qty,// c40a
    // c40b
    string OrderId,
    string Flags,
    // c46
    u8 x,// c49a
    // c49b
    match x as Body {
        // c54
        [58, 169] : Logon,
        // c62a
    },
}")).
Eval vm_compute in ("<<<M1404>>>" ++ check (runes_of_ascii "packet tag {
    string matchKey `line1
        line2`,
    @tag(0)
    @calculatedFrom(""1"")
    @calculatedFrom(""a\""b"")
    float64 matchKey,
}

options {
    crc = true
    msg_type = true;
}

packet o {
    match roots as calculatedFrom {
        ""// no comment"" : msg_type,
        ""{,}"" : u128,
        [65535, 0123456789] : body,
    },
    @rightPad(' ')
    repeat string_ i64_,
    @lengthOf(lengthOf)
    @tag(255)
    @tag(00)
    char[] stringy,
}")).
Eval vm_compute in ("<<<M1140>>>" ++ check (runes_of_ascii "// top
MetaData
    // c0
leftPad // c1
{
    // c2
chars // c3a
  // c3b
MetaDataX // c4
, // c5a
  // c5b
} packet // c7a
  // c7b
repeatCount // c8
{ char[
    // c10
255 // c11a
  // c11b
] // c12a
  // c12b
uint8x
    // c13
`" ++ [233]%N ++ runes_of_ascii "` // c14a
  // c14b
,
    // c15
} // c16a
  // c16b
MetaData // c17a
  // c17b
pack // c18
{ // c19a
  // c19b
As // c20a
  // c20b
Foo
    // c21
,
    // c22
} // c23a
  // c23b
")).
Eval vm_compute in ("<<<M1633>>>" ++ check (runes_of_ascii "packet	zchar

    {
	@calculatedFrom(

""packet""

    ) @lengthOf(
	body	)
    @lengthOf(
	A
    ) 
repeat /// triple
    u128{  f32a 
chars
`` , repeat
x_y_z
`tab	here`,	// c
      }
    ,	// " ++ [27880; 37322]%N ++ runes_of_ascii "

  repeat
	Logon
	{ 	 // " ++ [27880; 37322]%N ++ runes_of_ascii "
    u  @calculatedFrom( 	 // `tick` ""quote"" 'q'
    ""// no comment""

) 	 //
	`two words`
	,char 
u8x

,uint32 uint8x
	, 
},int8

    asx``
,
}
")).
Eval vm_compute in ("<<<M1234>>>" ++ check (runes_of_ascii "// top
options // c0
{ // c1
f32a // c2
= // c3
0 // c4
} // c5
packet // c6
trueish // c7
{ // c8
} // c9
MetaData // c10
_x // c11
{ // c12
char[ // c13
0123456789 // c14
] // c15
zchar // c16
, // c17
string // c18
crc // c19
, // c20
char[ // c21
1 // c22
] // c23
options1 // c24
, // c25
uint8 // c26
repeatCount // c27
, // c28
} // c29
")).
Eval vm_compute in ("<<<M377>>>" ++ check (runes_of_ascii "packet crc {match  trueish
    as
len {
42 : uint8x,// " ++ [128512]%N ++ runes_of_ascii " emoji
""1"" :asx ,	3
: body [ ""1"" , 0123456789]: u ""packet"" : o , } , } MetaData tag
{
    string
o `line1
line2`
,
char[] //
Header `{ , }`// c
,  uint8x Z9_, } MetaData
tag
{ i8 len , }
    options //x
{
// `tick` ""quote"" 'q'
/// triple
x= 10;
}
")).
Eval vm_compute in ("<<<M1801>>>" ++ check (runes_of_ascii "packet Z9_ {
    @calculatedFrom(""packet"")
    char BodyLength,
    match chars as falsey {
        [
            65535, 10, """ ++ [128512]%N ++ runes_of_ascii """, """ ++ [28040; 24687]%N ++ runes_of_ascii """, ""`tick`"",
            ""a\\"", ""a\""b""
        ] : repeatCount,
        ""x y"" : chars,
        // " ++ [128512]%N ++ runes_of_ascii " emoji
        65535 : calculatedFrom,
    },
}")).
Eval vm_compute in ("<<<M1253>>>" ++ check (runes_of_ascii "// top
packet // c0
Inner // c1
{ // c2
u8 // c3a
  // c3b
a // c4
,
    // c5
} // c6
root // c7
packet // c8a
  // c8b
P // c9
{ // c10a
  // c10b
repeat // c11a
  // c11b
Inner items // c13
, // c14
u8
    // c15
x , // c17a
  // c17b
} // c18
")).
Eval vm_compute in ("<<<M1318>>>" ++ check (runes_of_ascii "packet FooBar // c1
{ u8 a ,
    // c5
} // c6
packet foo_bar // c8a
  // c8b
{
    // c9
u16
    // c10
b , // c12a
  // c12b
} // c13
root // c14
packet R { // c17a
  // c17b
FooBar ,
    // c19
foo_bar // c20
, } ")).
Eval vm_compute in ("<<<M1295>>>" ++ check (runes_of_ascii "packet
    A{ 
u8 a,
}packet
B

{u16
	b

    , } root
packet 
P

    {  u8
    K1
, u8

K2 
,match K1
	as	M1
{
1
    :

A,

    } ,	match

K2
as M2  {
1:B ,
    }
    ,}
")).
Eval vm_compute in ("<<<M1256>>>" ++ check (runes_of_ascii "// top
root // c0
packet P // c2
{ // c3
hdr
    // c4
{
    // c5
u8 // c6
a // c7a
  // c7b
,
    // c8
} , // c10
u8 // c11
x // c12a
  // c12b
, }
    // c14
")).
Eval vm_compute in ("<<<M441>>>" ++ check (runes_of_ascii "packet uint8x
{ match pack
    as msg_type	{
    0123456789 :	float float
}
,
} packet //	t
a1
    { } options {packetx
    = '\x00'	; u128= ""a	b""  ; }
")).
Eval vm_compute in ("<<<M1920>>>" ++ check (runes_of_ascii "  packet 
A { match 
k
as
n	{  [
""a"" ,""bb"" ,  007

,	""d""
,	""e""

    , 66 
,

    ""g"" ,
""h""  ,

    9,
""j"" ,""k""
,
    12
]  :
	B , 2
: C}  , }

")).
Eval vm_compute in ("<<<M538>>>" ++ check (runes_of_ascii "packet uint8x
{ match pack
    as msg_type	{
    0123456789 :	float
}
,
} packet //	t
a1
    { } options {packetx
    = '\x00'	%; u128= ""a	b""  ; }
")).
Eval vm_compute in ("<<<M492>>>" ++ check (runes_of_ascii "packet uint8x
{ match pack
    as msg_type	{
    0123456789 :	float
}
,
} packet //	t
a1
    { } options {=
    packetx '\x00'	; u128= ""a	b""  ; }
")).
Eval vm_compute in ("<<<M1869>>>" ++ check (runes_of_ascii "packet A {
    match k as n {
        [
            ""a"", ""bb"", ""c c"", ""d"", ""e"",
            ""f"", ""g"", ""h"", ""i""
        ] : B,
        2 : C,
    },
}")).
Eval vm_compute in ("<<<M520>>>" ++ check (runes_of_ascii "packet uint8x
{ match pack
    as msg_type	{
    0123456789 :	float
}
,
} packet //	t
a1
    { } options {packetx
    = '\x00'	; u128=   ; }
")).
Eval vm_compute in ("<<<M490>>>" ++ check (runes_of_ascii "packet uint8x
{ match pack
    as msg_type	{
    0123456789 :	float
}
,
} packet //	t
a1
    { } options {
    = '\x00'	; u128= ""a	b""  ; }
")).
Eval vm_compute in ("<<<M1824>>>" ++ check (runes_of_ascii "  packet
A{

    match k
    as  n 
{ [	""a""	,	""bb""
	, 007

,
    ""d"" ,

""e"" ,  66,
""g"" ,""h"" 
, 
9  ,

    ""j""  ]  :

B , 
2 :
	C 
}
,	}

")).
Eval vm_compute in ("<<<M1532>>>" ++ check (runes_of_ascii "packet A {
    match k as n {
        [
            007, 66, ""a"", ""bb"", ""d"",
            ""e"", ""g""
        ] : B,
        2 : C,
    },
}")).
Eval vm_compute in ("<<<M1614>>>" ++ check (runes_of_ascii "
packet	A {
match

    k as

n { [ 1

,  22 ,
	""c c"" ,

    4 ,

    5
    , ""f""
    ] 
: B
    2

    : C  }	,
    } ")).
Eval vm_compute in ("<<<M1189>>>" ++ check (runes_of_ascii "MetaData leftPad { chars MetaDataX , } packet repeatCount { char[ 255 ] uint8x `" ++ [233]%N ++ runes_of_ascii "` , } MetaData pack { As Foo , } // c
")).
Eval vm_compute in ("<<<M1168>>>" ++ check (runes_of_ascii "MetaData leftPad { chars MetaDataX , } packet repeatCount { char[ 255 ]
// c
uint8x `" ++ [233]%N ++ runes_of_ascii "` , } MetaData pack { As Foo , }")).
Eval vm_compute in ("<<<M302>>>" ++ check (runes_of_ascii "packet string_{@lengthOf(	float ) // @lengthOf(
BodyLength { match uint8x as i64_ { 0123456789
: As
    , } , } , }")).
Eval vm_compute in ("<<<M911>>>" ++ check (runes_of_ascii "packet A {
  match k as n {
    [""a"", 22, ""c c"", 4, ""e"", 66, ""g"", 8, ""i"", 10, ""k"", 12] : B
    2 : C
  },
}")).
Eval vm_compute in ("<<<M158>>>" ++ check (runes_of_ascii "
MetaData charz { As u128 , Logon options1 `say ""hi""` ,
    zchar[ 0
// @lengthOf(
//
]Logon ,
    }
")).
Eval vm_compute in ("<<<M854>>>" ++ check (runes_of_ascii "packet A {
  match k as n {
    [""a"", ""bb"", ""c c"", ""d"", ""e"", ""f"", ""g"", ""h""] : B,
    2 : C
  },
}")).
Eval vm_compute in ("<<<M119>>>" ++ check (runes_of_ascii "packet u{ @tag(10 // a // b
) tag  @lengthOf( A
// " ++ [128512]%N ++ runes_of_ascii " emoji
// a // b
) , repeat options1 ,  }")).
Eval vm_compute in ("<<<M629>>>" ++ check (runes_of_ascii "
packet
    asx {match u128 as lengthOf
{
//	t
// `tick` ""quote"" 'q'
255 : x ,
    } ~ ,	}")).
Eval vm_compute in ("<<<M594>>>" ++ check (runes_of_ascii "
packet
    asx {match u128 as lengthOf
{
//	t
// `tick` ""quote"" 'q'
: 255 x ,
    } ,	}")).
Eval vm_compute in ("<<<M1086>>>" ++ check (runes_of_ascii "packet A { match k as n // a
 { // b
 1 // c
 : // d
 B // e
 , // f
 } // g
 , // h
 }")).
Eval vm_compute in ("<<<M866>>>" ++ check (runes_of_ascii "packet A {
  match k as n {
    [1, 22, 007, 4, 5, 66, 7, 8, 9] : B
    2 : C
  },
}")).
Eval vm_compute in ("<<<M1616>>>" ++ check (runes_of_ascii "

  // top
  MetaData 

    // c0
      tag 

// c1
    {  // c2
	} 
    // c3
")).
Eval vm_compute in ("<<<M1505>>>" ++ check (runes_of_ascii "// top
	MetaData
	// c0
tag 
// c1
		{ 
        // c2
    	} 
	    // c3
")).
Eval vm_compute in ("<<<M805>>>" ++ check (runes_of_ascii "packet A {
  match k as n {
    [1, ""bb"", 007, ""d""] : B
    2 : C
  },
}")).
Eval vm_compute in ("<<<M1413>>>" ++ check (runes_of_ascii "  packet
A	{ 
B  b `
x`
	,
    B
    `
x`
, 
repeat

B
bs `
x`
, }
")).
Eval vm_compute in ("<<<M246>>>" ++ check (runes_of_ascii "MetaData x {x Packet
,i32 lengthOf
, // `tick` ""quote"" 'q'
}
")).
Eval vm_compute in ("<<<M1222>>>" ++ check (runes_of_ascii "// top
packet
    // c0
x
    // c1
{
    // c2
}
    // c3
")).
Eval vm_compute in ("<<<M1867>>>" ++ check (runes_of_ascii "// c
packet body {
    i32 f32a `{ , }`,
}

options {
}")).
Eval vm_compute in ("<<<M1210>>>" ++ check (runes_of_ascii "packet body { i32 f32a `{ , }`
// c
, } options { }")).
Eval vm_compute in ("<<<M945>>>" ++ check (runes_of_ascii "MetaData M {
    u8 x `a

b`,
    T t `a

b`,
}")).
Eval vm_compute in ("<<<M965>>>" ++ check (runes_of_ascii "options {
    a = ""x\
y"";
    b = ""x\
y""
}")).
Eval vm_compute in ("<<<M964>>>" ++ check (runes_of_ascii "root packet A {
    u8 x `tab
	x`,
}")).
Eval vm_compute in ("<<<M1662>>>" ++ check (runes_of_ascii "packet A {
    u8 x `d" ++ [12288]%N ++ runes_of_ascii "`,// c" ++ [12288]%N ++ runes_of_ascii "
}")).
Eval vm_compute in ("<<<M1076>>>" ++ check (runes_of_ascii "MetaData M {
}// c
packet A {}")).
Eval vm_compute in ("<<<M1859>>>" ++ check (runes_of_ascii "  packet
A
	{
}  // c" ++ [8233]%N ++ runes_of_ascii "
 
")).
Eval vm_compute in ("<<<M1767>>>" ++ check (runes_of_ascii "
// c" ++ [133]%N ++ runes_of_ascii "
packet  A
	{
}")).
Eval vm_compute in ("<<<M170>>>" ++ check (runes_of_ascii "packet pack
{
} 	 ")).
Eval vm_compute in ("<<<M1011>>>" ++ check (runes_of_ascii "packet A {
}
// c" ++ [8232]%N)).
Eval vm_compute in ("<<<M974>>>" ++ check (runes_of_ascii "packet A {
}// c ")).
Eval vm_compute in ("<<<M46>>>" ++ check (runes_of_ascii "//x

// a // b
")).
Eval vm_compute in ("<<<M399>>>" ++ check (runes_of_ascii "packet")).
Eval vm_compute in ("<<<M86>>>" ++ check (runes_of_ascii "  ")).
