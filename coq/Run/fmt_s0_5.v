From FP Require Import Lexer Parser ShowPT Digest Formatter.
From Coq Require Import String List NArith.
Import ListNotations.
Open Scope string_scope.
Set Printing Width 100000000.
Set Printing Depth 100000000.
Definition show_fres (r : fres) : string :=
  match r with
  | FOk s => "OK:" ++ sh_escaped s ""
  | FErr s => "ERR:" ++ sh_escaped s ""
  | FPanic p => "PANIC:" ++ p
  end.
Definition check (rs : list rune) : string := digest (show_fres (format_res rs)).
Definition full (rs : list rune) : string := show_fres (format_res rs).
Eval vm_compute in ("<<<M1599>>>" ++ check (runes_of_ascii "  packet

    metadata
{

    repeat

    f64  // " ++ [128512]%N ++ runes_of_ascii " emoji

Foo 
, repeat 
Logon	f32a
`
`	, 
@calculatedFrom(""1"")
repeat

    uint8  // trailing space 
  	calculatedFrom`u8 x,`
	, char[]packetx, 	 // packet A { u8 x, }
	@calculatedFrom(
	""abc""
)

    Pad@lengthOf( msg_type
	)

`line1
line2`, @rightPad ( ' '	)tag  `" ++ [233]%N ++ runes_of_ascii "` ,

@tag(10 
/// triple

) u8x	@calculatedFrom(
	""CRC32"" 
) 
,
match 
// trailing space 
	  // trailing space 

metadata as  msg_type 
    //
	// " ++ [27880; 37322]%N ++ runes_of_ascii "
{
    [
""\n""//x

,

0123456789  // c
    ]	:
options1

,""\n"":
	float  ,
}	, 
}
    packet 
    // " ++ [128512]%N ++ runes_of_ascii " emoji
	// " ++ [128512]%N ++ runes_of_ascii " emoji
    MetaDataX
{
string

string_  `doc` ,  @rightPad( '0'
)zchar[ 
        // " ++ [128512]%N ++ runes_of_ascii " emoji

// `tick` ""quote"" 'q'
	00

]
    zchar
`a\`
,
	}

    options	{ leftPad
= 0 float=4294967296;
    } // `tick` ""quote"" 'q'
root
packet  body { @calculatedFrom(

    ""1"")  @lengthOf(
	int

    )match

float
    as Z9_

{
    // packet A { u8 x, }
      // trailing space 
	42

    :

    x""packet"" 
: // `tick` ""quote"" 'q'
	  matchKey

, """ ++ [28040; 24687]%N ++ runes_of_ascii """ 

    /// triple
  	// packet A { u8 x, }
		:

o
,	255
:
    float},
@tag( 0123456789 
)match
	calculatedFrom as// @lengthOf(
	trueish  {  [""packet""
,
	""`tick`""//x

, 
""" ++ [233]%N ++ runes_of_ascii "t" ++ [233]%N ++ runes_of_ascii """
]:
MetaDataX
4294967296	: trueish
    , 3  :

    // trailing space 
  // packet A { u8 x, }
	i64_ ,

    0123456789
	:f32a

,[7
	,  //	t
  10 ,""CRC32"" 
,	""x y""	, ""\n"" 
    // `tick` ""quote"" 'q'
,""CRC32"" ,
	""`tick`""
    ]  // `tick` ""quote"" 'q'

:

    body
,  },

char[ 1  //
  ]

    Foo  // " ++ [128512]%N ++ runes_of_ascii " emoji

  ,@rightPad

    (

    ' ' 
)
    @calculatedFrom(// " ++ [27880; 37322]%N ++ runes_of_ascii "
	""a	b"")

    repeat 
string_{ repeat	Logon	// @lengthOf(
	,	Z9_
i8i8

,match

Z9_
as

    A
{

    [ 42 ]
	: Logon,
[
""CRC32""

    ,
	1,
    ""a\""b"" ,
4294967296
, 
0
, 
""\" ++ [233]%N ++ runes_of_ascii """
	] :	roots ""a\""b""	:MetaDataX 
, 255	: _x

, 
65535
    :rootA
	,}

    ,	match 
_x as Foo  {

    [  255
, """ ++ [28040; 24687]%N ++ runes_of_ascii """
, 	 // packet A { u8 x, }
    ""CRC32""
	, 
	    // c
  """ ++ [233]%N ++ runes_of_ascii "t" ++ [233]%N ++ runes_of_ascii """
,
    ""abc""
]

:	len  ""a\\""
    :	Pad
    0
    :

falsey
    ,

3
    : u128,  }	, // a // b

} , repeat 	 // packet A { u8 x, }
    	options1 int `{ , }`
    // packet A { u8 x, }
    //
    , }")).
Eval vm_compute in ("<<<M279>>>" ++ check (runes_of_ascii "  root packet
    crc {	uint32
repeatCount //
@lengthOf( // a // b
MetaDataX	) `say ""hi""` ,
    @tag( 65535 ) A {
    u128 , u8x	{ repeatCount  @lengthOf( As )// c
,// packet A { u8 x, }
i32	_x@calculatedFrom(//	t
""" ++ [128512]%N ++ runes_of_ascii """	), } , } // c
,
@lengthOf(As ) @tag(  0 ) @tag(4294967296 ) string metadata ,
string lengthOf // `tick` ""quote"" 'q'
@lengthOf(f32a) , @tag( 3 )string packetx,	@lengthOf( Pad) @lengthOf( packetx ) BodyLength @calculatedFrom( ""a	b"" )
, repeat u8x
{ zchar[ 3 ]
    tag `doc` , match As as leftPad
    { [
    10 ,
3 , 7 ,
""abc"" , 42 // @lengthOf(
]
:
A
, } , match Header as falsey { 42
// `tick` ""quote"" 'q'
// trailing space 
:
    msg_type
    , 00
: A
1 :
charz ,""// no comment"" : int // @lengthOf(
,	0123456789 :chars , 4294967296
: x } ,
}
    /// triple
    , @tag(
10 ) @tag(//x
007 )
@calculatedFrom( ""`tick`""
    )i8i8 @lengthOf(
    //
    charz ),
    char[ 7] Header
, } packet
lengthOf // @lengthOf(
{match metadata
    // " ++ [128512]%N ++ runes_of_ascii " emoji
    as asx{ 7 // packet A { u8 x, }
: //
float  ,
    // " ++ [128512]%N ++ runes_of_ascii " emoji
    """ ++ [233]%N ++ runes_of_ascii "t" ++ [233]%N ++ runes_of_ascii """:
stringy
, """ ++ [28040; 24687]%N ++ runes_of_ascii """ :
BodyLength , 7 : leftPad , } , @lengthOf(MetaDataX
)repeat zchar[ 7 ]float , @tag( 0
    )matchKey @calculatedFrom(""packet""
    ) // packet A { u8 x, }
, }packet Pad{ options1 @lengthOf(rootA ),} root // c
packet BodyLength{
string uint8x
//
// " ++ [27880; 37322]%N ++ runes_of_ascii "
@lengthOf( Z9_) , } // c")).
Eval vm_compute in ("<<<M143>>>" ++ check (runes_of_ascii "
packet  lengthOf
{  @tag( 65535
/// triple
//	t
)@tag( //	t
3 ) @tag( 0123456789) options1 @calculatedFrom(""abc""
    ) , @rightPad
( '0')falsey @lengthOf( a1  )
    ,
    @lengthOf(Pad
)body @calculatedFrom( // " ++ [128512]%N ++ runes_of_ascii " emoji
""packet"" ) // trailing space 
,
} packet int
{ string Foo @calculatedFrom(""CRC32"" ) ,}
root
// trailing space 
//	t
packet uint8x
    {}
root packet len { x_y_z
_x ,
    BodyLength rootA
/// triple
//
,
match f32a as Logon
    {[ ""a\""b"" ,
""" ++ [28040; 24687]%N ++ runes_of_ascii """
    ,
    """ ++ [128512]%N ++ runes_of_ascii """
,65535, 00 ,4294967296
    ,
"""" ,""abc"" ]
    : roots,[
    00 ] :
A ,  [
    65535
// a // b
// trailing space 
,
// trailing space 
// " ++ [128512]%N ++ runes_of_ascii " emoji
65535
, """" ]
// c
// packet A { u8 x, }
:
// " ++ [128512]%N ++ runes_of_ascii " emoji
// trailing space 
pack ,
    }
    // trailing space 
    ,repeat Pad `say ""hi""` ,
    /// triple
    a1 calculatedFrom
    ,
@lengthOf( stringy )char[] As @calculatedFrom( ""\" ++ [233]%N ++ runes_of_ascii """ )
, zchar[ 0123456789 ] Z9_
    @lengthOf( repeatCount ) // packet A { u8 x, }
`a\`
, repeat // `tick` ""quote"" 'q'
string lengthOf , //x
u8 falsey @calculatedFrom(
""a\\"" )  ,@calculatedFrom( ""it's"") string calculatedFrom @lengthOf( MetaDataX ) ,}")).
Eval vm_compute in ("<<<M1795>>>" ++ check (runes_of_ascii "options {
    FixedStringPadFromLeft = true;
    FixedStringPadChar = '0';
}

packet Leg {
    InPrice0 {
        repeat string clOrdID,
        int16 msgKind,
        zchar[5] Px,
    },
    i16 f1,
    repeat f64 Side2,
    string Acct,
}

packet Cancel {
    zchar[4] clOrdID,
    string seqNo,
    Leg,
    @leftPad('0')
    char[11] OrderId,
}

packet Quote {
    repeat char[4] sym,
    f64 OrderId,
    repeat Leg,
    repeat i64 f1,
    int16 Note,
    zchar[3] count,
}

root packet Ack {
    @leftPad(' ')
    char[10] sym,
    InPx60 {
        Cancel,
        repeat char[1] f1,
        string Tail,
        repeat InNote55 {
            int8 count,
            f64 f1,
            repeat Cancel,
        },
        char[] tag7,
        repeat string msgKind,
    },
    u8 lastPx,
    match lastPx as Body {
        152 : Quote,
        173 : Cancel,
        4 : Leg,
    },
    u16 Ref @calculatedFrom(""CRC32""),
}")).
Eval vm_compute in ("<<<M188>>>" ++ check (runes_of_ascii "// packet A { u8 x, }
root
    packet
    leftPad { @calculatedFrom(
    //x
    ""`tick`"" )	@rightPad( )
    // " ++ [128512]%N ++ runes_of_ascii " emoji
    string_
// `tick` ""quote"" 'q'
// a // b
@lengthOf(	tag
    ) `a\` ,i64 T
    `" ++ [233]%N ++ runes_of_ascii "`,//	t
}
packet
Pad// @lengthOf(
{ @lengthOf(	float ) char[] x@calculatedFrom(
    ""a\""b"")
    , // trailing space 
@tag(
    0// " ++ [128512]%N ++ runes_of_ascii " emoji
) // " ++ [27880; 37322]%N ++ runes_of_ascii "
repeatCount// packet A { u8 x, }
,
repeat rootA{
_x
    ,zchar[3 ]roots
    /// triple
    `crlf
line` ,
}
,
/// triple
// a // b
match
    metadata as BodyLength
    { [
    // c
    10 , 10 , ""a\""b"", """"	, ""\n""
,  ""a\\"" , 4294967296]  :
    u
, }
, repeat	i64_ Packet `" ++ [28040; 24687; 31867; 22411]%N ++ runes_of_ascii "`
,@tag( // packet A { u8 x, }
65535)
    char[] float`it's`
, char[7 ]
    x @calculatedFrom( ""{,}"" ),
    }MetaData leftPad// a // b
{ body rootA
`crlf
line`
, int64
msg_type
`doc`
    , // @lengthOf(
}
")).
Eval vm_compute in ("<<<M1954>>>" ++ check (runes_of_ascii "options {
    zchar = char[]
    Z9_ = '0';
}

options {
    asx = char[]
}

root packet leftPad {
    T @lengthOf(f32a),
}//

root packet calculatedFrom {
    u {
        //	t
        char[] T `" ++ [233]%N ++ runes_of_ascii "`,
        match stringy as chars {
            [0123456789] : T,
            // `tick` ""quote"" 'q'
            // " ++ [27880; 37322]%N ++ runes_of_ascii "
        },
        uint16 a1 @lengthOf(x),
        string chars `two words`,
    },
    @calculatedFrom(""x y"")
    char[] body @lengthOf(lengthOf),
    @lengthOf(A)
    rootA,
    @lengthOf(i64_)
    // packet A { u8 x, }
    repeat f32a {
        lengthOf charz `" ++ [28040; 24687; 31867; 22411]%N ++ runes_of_ascii "`,
    },
    match tag as T {
        [3] : falsey,
    },
    zchar[00] charz @lengthOf(Pad),
    @tag(3)
    lengthOf {
        i16 As,
    },
}

root packet body {
}")).
Eval vm_compute in ("<<<M344>>>" ++ check (runes_of_ascii "options // a // b
{	}
    packet i8i8 { @tag(
3 ) x
@calculatedFrom(
""it's""	) , @lengthOf( f32a ) match
rootA
as uint8x // @lengthOf(
{ 0 : string_ 42 : Packet } , @leftPad
(
    '\x00'
) i64_ packetx `u8 x,` ,
    @calculatedFrom(""x y"" ) matchKey {len  ,
    }  ,
@lengthOf(  matchKey
)
    @calculatedFrom(// `tick` ""quote"" 'q'
""abc"" ) @lengthOf( x_y_z )
    /// triple
    repeat metadata `line1
line2` ,lengthOf repeatCount , /// triple
int32
// " ++ [27880; 37322]%N ++ runes_of_ascii "
//	t
roots @calculatedFrom( ""`tick`"")
`" ++ [233]%N ++ runes_of_ascii "` , zchar[
1	]	Packet	@calculatedFrom(	""// no comment"" ) ,} packet
    options1
{ @lengthOf(
    uint8x ) A @calculatedFrom( ""it's""
    )
`doc`, } root packet crc
{char[	65535	]chars
,}
")).
Eval vm_compute in ("<<<M1633>>>" ++ check (runes_of_ascii "root packet u8x {
    char i64_,
    repeat char[1] Z9_,
    @tag(42)
    repeat Logon MetaDataX,
    @leftPad()
    Foo @lengthOf(As),
    match u128 as calculatedFrom {
        // " ++ [128512]%N ++ runes_of_ascii " emoji
        4294967296 : BodyLength,
        3 : A,
        //
        [4294967296, ""packet""] : o,
        65535 : roots,
    },
    repeat Pad {
        uint64 x @calculatedFrom(""" ++ [128512]%N ++ runes_of_ascii """),
        a1 @lengthOf(As) `line1
                line2`,
        repeat string_ {
            repeat uint32 _x,
            f32 MetaDataX `it's`,
            u64 As @lengthOf(crc),
        },
        roots,
    },
    zchar[00] u128,
}
//	t")).
Eval vm_compute in ("<<<M1723>>>" ++ check (runes_of_ascii "
options	{

rootA

=
4294967296;
falsey =""a\""b""; As = 

    // @lengthOf(
  /// triple
	"""" ;
packetx  =
""packet""

    i8i8= true
;

    } 	 // `tick` ""quote"" 'q'
  packet
x {
    repeat zchar 
rootA	,
	char[]	pack
	`// not a comment`
, 
@tag(  00
)	@tag(
0123456789
)
u

@calculatedFrom( ""packet""	) 
`u8 x,` ,

    Header { 
zchar[ 00  ]
body ,
    a1
@calculatedFrom( 	 // " ++ [128512]%N ++ runes_of_ascii " emoji
	""it's"" ) `" ++ [233]%N ++ runes_of_ascii "`  ,

    }

    , }// " ++ [27880; 37322]%N ++ runes_of_ascii "
	MetaData
A// a // b
      {
zchar/// triple
    matchKey

    ``,
int64	metadata,
	char[] _x 	 //	t
    ,
    }")).
Eval vm_compute in ("<<<M1119>>>" ++ check (runes_of_ascii "// top
root // c0
packet // c1
_x // c2
{ // c3
match // c4
Foo // c5
as // c6
Z9_ // c7
{ // c8
""a	b"" // c9
: // c10
Pad // c11
, // c12
} // c13
, // c14
repeat // c15
x // c16
`line1
line2` // c17
, // c18
@rightPad // c19
( // c20
' ' // c21
) // c22
@calculatedFrom( // c23
""a\\"" // c24
) // c25
metadata // c26
MetaDataX // c27
, // c28
@tag( // c29
0 // c30
) // c31
Logon // c32
int // c33
`` // c34
, // c35
} // c36
options // c37
{ // c38
T // c39
= // c40
'\x00' // c41
} // c42
")).
Eval vm_compute in ("<<<M1825>>>" ++ check (runes_of_ascii "// packet A { u8 x, }
MetaData

roots  { char[ 00

    ] lengthOf
`` ,As 
stringy
	,x  calculatedFrom	,	}
packet i8i8 {
	crc
`crlf
line`
    ,

@rightPad	// a // b
	( )

zchar[
    42
    ]falsey // trailing space 
  , 
  /// triple
    @tag(
    42
)  u32

    leftPad
    , @tag( 42)a1@lengthOf( Z9_
    )
    ,
match leftPad

    as 
crc{  [

""a\""b""
,
1
,	255

]
	:
trueish
,
    3

    : 
float

    ,
0:

lengthOf 
, } , }
")).
Eval vm_compute in ("<<<M1950>>>" ++ check (runes_of_ascii "
options

    {falsey=
	int64

    ;u8x =
uint32
    uint8x
	=  // " ++ [128512]%N ++ runes_of_ascii " emoji
zchar[

    1]  
      // @lengthOf(

	/// triple
      ; leftPad
=  ""a	b"" ;calculatedFrom
    =
	false
;
}	MetaData
	Packet{ 
zchar[
	7

    ]
As ,
    } 
root packet pack	{

@leftPad() @tag(// trailing space 
  	7 )

    zchar[

3	]

    u@lengthOf( 
    // @lengthOf(
	  // trailing space 
  x

)	, 
}")).
Eval vm_compute in ("<<<M1378>>>" ++ check (runes_of_ascii "
options { LittleEndian

    =
	true

    ; }	packet
	Logon {u8 
x
    , }	packet	Logout

    {  u16

reason ,}
root
packet  Frame

    {
u8 Kind ,

    u8
	Kind2 ,

match
Kind
	as Body	{

    1	:  Logon 
, [ 2 ,

3 
,
	4

    ]
    :

Logout	,
100

:  Logon 
,}  ,
    match
    Kind2

    as	Trailer

    {0

    :

Logout
, } 
,	}")).
Eval vm_compute in ("<<<M1597>>>" ++ check (runes_of_ascii "packet float {
    // c2
    @rightPad()
    // c5a
    // c5b
    rootA @lengthOf(trueish),
    // c10
    stringy @lengthOf(matchKey),// c15a
    // c15b
    char[4294967296] pack @lengthOf(uint8x),
    // c23
}// c24

root packet trueish {
    // c28
    repeat uint64 u128 `line1
    line2`,
    // c33
}
// c34")).
Eval vm_compute in ("<<<M89>>>" ++ check (runes_of_ascii "packet Foo // " ++ [128512]%N ++ runes_of_ascii " emoji
{@lengthOf( f32a )
char[
0123456789 //	t
] float `u8 x,` ,}
    packet // a // b
i64_ {@lengthOf(stringy // packet A { u8 x, }
)
    char[] int @calculatedFrom(""{,}"" ) ,@tag(
007 ) //
int64
stringy`" ++ [233]%N ++ runes_of_ascii "` ,  char[]A @calculatedFrom(
""\" ++ [233]%N ++ runes_of_ascii """
    )	`doc` ,// " ++ [27880; 37322]%N ++ runes_of_ascii "
}
")).
Eval vm_compute in ("<<<M254>>>" ++ check (runes_of_ascii "packet  zchar
{ zchar[ 42
//
//
]uint8x ,
    match
    A as
As{
    0: int
    ,
}
, @tag(7 ) @calculatedFrom(
""packet"" ) match
i64_
as metadata //	t
{
    ""CRC32"" :
A , }
,
    // c
    }	root
packet
uint8x {
    char[ 00 ]	crc
,// " ++ [128512]%N ++ runes_of_ascii " emoji
} 	 ")).
Eval vm_compute in ("<<<M183>>>" ++ check (runes_of_ascii "root
packet tag {
@calculatedFrom(
""{,}""
    // `tick` ""quote"" 'q'
    )
@tag(
//x
// " ++ [27880; 37322]%N ++ runes_of_ascii "
42
    )
    i64_ @lengthOf( calculatedFrom ) , zchar[// " ++ [128512]%N ++ runes_of_ascii " emoji
3 // @lengthOf(
] int  , } root// c
packet Foo { }
// @lengthOf(
")).
Eval vm_compute in ("<<<M1874>>>" ++ check (runes_of_ascii "packet FooBar {
    u8 a,
    // c5
}// c6

packet foo_bar {
    // c9
    u16 b,// c12a
    // c12b
}// c13

root packet R {
    // c17a
    // c17b
    FooBar,
    // c19
    foo_bar,
}")).
Eval vm_compute in ("<<<M1195>>>" ++ check (runes_of_ascii "// top
packet
    // c0
body
    // c1
{
    // c2
i32
    // c3
f32a
    // c4
`{ , }`
    // c5
,
    // c6
}
    // c7
options
    // c8
{
    // c9
}
    // c10
")).
Eval vm_compute in ("<<<M392>>>" ++ check (runes_of_ascii "packet packet uint8x
{ match pack
    as msg_type	{
    0123456789 :	float
}
,
} packet //	t
a1
    { } options {packetx
    = '\x00'	; u128= ""a	b""  ; }
")).
Eval vm_compute in ("<<<M416>>>" ++ check (runes_of_ascii "packet uint8x
{ match pack
    as as msg_type	{
    0123456789 :	float
}
,
} packet //	t
a1
    { } options {packetx
    = '\x00'	; u128= ""a	b""  ; }
")).
Eval vm_compute in ("<<<M701>>>" ++ check (runes_of_ascii "// @lengthOf(
packet i8i8 { u128 o , }
options { MetaDataX = true;
    BodyLength =""packet"" ""packet"" x_y_z= 007
crc //x
= ""abc"" ;
    msg_type =
i16 }")).
Eval vm_compute in ("<<<M462>>>" ++ check (runes_of_ascii "packet uint8x
{ match pack
    as msg_type	{
    0123456789 :	float
}
,
} a1 //	t
packet
    { } options {packetx
    = '\x00'	; u128= ""a	b""  ; }
")).
Eval vm_compute in ("<<<M495>>>" ++ check (runes_of_ascii "packet uint8x
{ match pack
    as msg_type	{
    0123456789 :	float
}
,
} packet //	t
a1
    { } options {packetx
     '\x00'	; u128= ""a	b""  ; }
")).
Eval vm_compute in ("<<<M398>>>" ++ check (runes_of_ascii "packet [
{ match pack
    as msg_type	{
    0123456789 :	float
}
,
} packet //	t
a1
    { } options {packetx
    = '\x00'	; u128= ""a	b""  ; }
")).
Eval vm_compute in ("<<<M480>>>" ++ check (runes_of_ascii "packet uint8x
{ match pack
    as msg_type	{
    0123456789 :	float
}
,
} packet //	t
a1
    { }  {packetx
    = '\x00'	; u128= ""a	b""  ; }
")).
Eval vm_compute in ("<<<M1782>>>" ++ check (runes_of_ascii "// top
packet B {
    // c2
    u8 a,
    string s,
}

root packet P {
    // c13
    u16 L @lengthOf(B),
    // c19
    B,
    u8 t,// c24
}")).
Eval vm_compute in ("<<<M1390>>>" ++ check (runes_of_ascii "
packet	A
{

match 
k as n  {[
""a"" ,

""bb""
    ,""c c"" ,""d"" 
,
""e"" ,""f""

,
""g""
    ,

    ""h"" ,  ""i""

    ] :

B 
2:
C
} ,
}

")).
Eval vm_compute in ("<<<M1715>>>" ++ check (runes_of_ascii "packet A {
    match k as n {
        [
            1, 22, 007, 4, 5,
            66, 7, 8
        ] : B,
        2 : C,
    },
}")).
Eval vm_compute in ("<<<M34>>>" ++ check (runes_of_ascii "options {
Logon = 0 } options { msg_type = 3
    MetaDataX =
    // " ++ [128512]%N ++ runes_of_ascii " emoji
    int8
    uint8x=""""
    ;
    As = '0' }")).
Eval vm_compute in ("<<<M1166>>>" ++ check (runes_of_ascii "MetaData leftPad { chars MetaDataX , } packet repeatCount { char[ 255
// c
] uint8x `" ++ [233]%N ++ runes_of_ascii "` , } MetaData pack { As Foo , }")).
Eval vm_compute in ("<<<M1398>>>" ++ check (runes_of_ascii "
packet A	{  match k
	as  n  {[	1

    ,
22 ,
""c c"" 
,4	, 5,

    ""f""

, 
7
, 8
,

""i""
]
:  B  , 2  :C 
} 
, }")).
Eval vm_compute in ("<<<M315>>>" ++ check (runes_of_ascii "packet Foo{ tag roots ,
    // `tick` ""quote"" 'q'
    i64_, @calculatedFrom( ""packet"" ) uint32 MetaDataX
, }
")).
Eval vm_compute in ("<<<M1276>>>" ++ check (runes_of_ascii "options {
    LittleEndian = true;
}
root packet P {
    u16 a,
    u32 Sum @calculatedFrom(""CRC32""),
}
")).
Eval vm_compute in ("<<<M1248>>>" ++ check (runes_of_ascii "  options
{LittleEndian 
= true 
; }

    root  packet

P {

    repeat
char
cs

, u8
	x, }

")).
Eval vm_compute in ("<<<M568>>>" ++ check (runes_of_ascii "
packet
    asx {match match u128 as lengthOf
{
//	t
// `tick` ""quote"" 'q'
255 : x ,
    } ,	}")).
Eval vm_compute in ("<<<M226>>>" ++ check (runes_of_ascii "// a // b
packet Pad {
    char[] // packet A { u8 x, }
Z9_ @lengthOf( Pad
) `{ , }` , } 	 ")).
Eval vm_compute in ("<<<M1752>>>" ++ check (runes_of_ascii "options

    {}  // " ++ [128512]%N ++ runes_of_ascii " emoji
      options { float// `tick` ""quote"" 'q'
  = 65535
    }
")).
Eval vm_compute in ("<<<M850>>>" ++ check (runes_of_ascii "packet A {
  match k as n {
    [""a"", ""bb"", 007, ""d"", ""e"", 66, ""g""] : B
    2 : C
  },
}")).
Eval vm_compute in ("<<<M1783>>>" ++ check (runes_of_ascii "  packet

orderItem

{
    u8
    a

, 
} root
packet newOrder{orderItem ,	u8
x ,  } ")).
Eval vm_compute in ("<<<M853>>>" ++ check (runes_of_ascii "packet A {
  match k as n {
    [1, 22, 007, 4, 5, 66, 7, 8] : B
    2 : C
  },
}")).
Eval vm_compute in ("<<<M743>>>" ++ check (runes_of_ascii "int16 zchar[ } `doc` char u16 uint16 true false u8 msg_type """ ++ [233]%N ++ runes_of_ascii "t" ++ [233]%N ++ runes_of_ascii """ ""a\\"" pack")).
Eval vm_compute in ("<<<M789>>>" ++ check (runes_of_ascii "packet A {
  match k as n {
    [""a"", ""bb"", ""c c""] : B,
    2 : C
  },
}")).
Eval vm_compute in ("<<<M801>>>" ++ check (runes_of_ascii "packet A {
  match k as n {
    [1, 22, 007, 4] : B
    2 : C
  },
}")).
Eval vm_compute in ("<<<M246>>>" ++ check (runes_of_ascii "MetaData x {x Packet
,i32 lengthOf
, // `tick` ""quote"" 'q'
}
")).
Eval vm_compute in ("<<<M1255>>>" ++ check (runes_of_ascii "root packet P {
    hdr {
        u8 a,
    },
    u8 x,
}
")).
Eval vm_compute in ("<<<M1070>>>" ++ check (runes_of_ascii "packet A { match k as n { 1 : B // a // b 2 : C }, }")).
Eval vm_compute in ("<<<M1213>>>" ++ check (runes_of_ascii "packet body { i32 f32a `{ , }` , } // c
options { }")).
Eval vm_compute in ("<<<M945>>>" ++ check (runes_of_ascii "MetaData M {
    u8 x `a

b`,
    T t `a

b`,
}")).
Eval vm_compute in ("<<<M724>>>" ++ check (runes_of_ascii "// @lengthOf(
packet i8i8 { u128 o , }
opt")).
Eval vm_compute in ("<<<M274>>>" ++ check (runes_of_ascii "packet Z9_
{ }
    packet Pad { } 	 ")).
Eval vm_compute in ("<<<M952>>>" ++ check (runes_of_ascii "root packet A {
    u8 x `x
`,
}")).
Eval vm_compute in ("<<<M998>>>" ++ check (runes_of_ascii "packet A {
 u8 x `d" ++ [5760]%N ++ runes_of_ascii "`, // c" ++ [5760]%N ++ runes_of_ascii "
}")).
Eval vm_compute in ("<<<M947>>>" ++ check (runes_of_ascii "packet A {
    u8 x `x
`,
}")).
Eval vm_compute in ("<<<M770>>>" ++ check (runes_of_ascii "EJYa-@ZpfaJe_ojrLyZC9M")).
Eval vm_compute in ("<<<M115>>>" ++ check (runes_of_ascii "MetaData roots{ } 	 ")).
Eval vm_compute in ("<<<M744>>>" ++ check (runes_of_ascii "`" ++ [28040; 24687; 31867; 22411]%N ++ runes_of_ascii "` '0' options")).
Eval vm_compute in ("<<<M1056>>>" ++ check (runes_of_ascii "packet A {
}
// c" ++ [6158]%N)).
Eval vm_compute in ("<<<M1227>>>" ++ check (runes_of_ascii "packet
// c
x { }")).
Eval vm_compute in ("<<<M742>>>" ++ check (runes_of_ascii "'j=KG=k_)FDOq")).
Eval vm_compute in ("<<<M1010>>>" ++ check (runes_of_ascii "// c" ++ [8232]%N)).
Eval vm_compute in ("<<<M735>>>" ++ check ([0]%N)).
