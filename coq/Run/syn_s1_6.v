From FP Require Import Lexer Parser ShowPT Digest.
From Coq Require Import String List NArith.
Import ListNotations.
Open Scope string_scope.
Set Printing Width 100000000.
Set Printing Depth 100000000.
Definition nl : string := String (Ascii.ascii_of_nat 10) EmptyString.
Definition model_lex (rs : list rune) : string := show_toks (lex rs).
Definition model_parse (rs : list rune) : string :=
  show_pt (match lex rs with Some ts => parse ts | None => None end).
(* coqc is slow at printing long strings: digests first (Digest.v), full texts on demand *)
Definition check (rs : list rune) : string :=
  digest (model_lex rs) ++ " " ++ digest (model_parse rs).
Definition full (rs : list rune) : string := model_lex rs ++ nl ++ model_parse rs.
Definition terms (ts : list tok) (t : pt) : string :=
  digest (show_toks (Some ts)) ++ " " ++ digest (show_pt (Some t)) ++ " " ++ digest (show_pt (parse ts)).
Definition terms_full (ts : list tok) (t : pt) : string :=
  show_toks (Some ts) ++ nl ++ show_pt (Some t) ++ nl ++ show_pt (parse ts).
Eval vm_compute in ("<<<M6>>>" ++ check (runes_of_ascii "packet
    Logon
{
}
MetaData repeatCount{//	t
}
// trailing space 
")).
Eval vm_compute in ("<<<T6>>>" ++ terms [mkTok 35 "packet" 1 0 false; mkTok 42 "Logon" 2 4 false; mkTok 2 "{" 3 0 false; mkTok 3 "}" 4 0 false; mkTok 37 "MetaData" 5 0 false; mkTok 42 "repeatCount" 5 9 false; mkTok 2 "{" 5 20 false; mkTok 44 (string_of_bytes [47; 47; 9; 116]%N) 5 21 true; mkTok 3 "}" 6 0 false; mkTok 44 "// trailing space " 7 0 true; mkTok 0 "<EOF>" 8 0 false] (mkPacket (mkPtok 35 "packet" 1 0 0) (Some (mkPtok 3 "}" 6 0 8)) [(DPacket (mkPacketDef (mkSpan (mkPtok 35 "packet" 1 0 0) (mkPtok 3 "}" 4 0 3)) None (mkPtok 35 "packet" 1 0 0) (mkPtok 42 "Logon" 2 4 1) (mkPtok 2 "{" 3 0 2) [] (mkPtok 3 "}" 4 0 3))); (DMeta (mkMetaDef (mkSpan (mkPtok 37 "MetaData" 5 0 4) (mkPtok 3 "}" 6 0 8)) (mkPtok 37 "MetaData" 5 0 4) (mkPtok 42 "repeatCount" 5 9 5) (mkPtok 2 "{" 5 20 6) [] (mkPtok 3 "}" 6 0 8)))])).
Eval vm_compute in ("<<<M16>>>" ++ check (runes_of_ascii "
")).
Eval vm_compute in ("<<<M26>>>" ++ check (runes_of_ascii "packet len
{
} MetaData crc	{ }")).
Eval vm_compute in ("<<<M36>>>" ++ check (runes_of_ascii "options { MetaDataX= 0 matchKey = '0' ; BodyLength = '\x00' ;packetx
=char[]	;
    charz =  '\x00' }
")).
Eval vm_compute in ("<<<M46>>>" ++ check (runes_of_ascii "MetaData metadata {u8
tag
    ,
}")).
Eval vm_compute in ("<<<M56>>>" ++ check (runes_of_ascii "packet MetaDataX {i8
u128
    @lengthOf( Z9_
)  `line1
line2`  ,@calculatedFrom(
""1"") match Foo as body
    {
42 :
lengthOf ,
""`tick`"" : trueish, }, @tag(10 ) @leftPad ( ) char[] T
    @lengthOf(
body )	`" ++ [28040; 24687; 31867; 22411]%N ++ runes_of_ascii "`,
zchar[ 0123456789 ]matchKey `{ , }`
,
    }options {
    u8x
= true ; zchar=int32 ; o
    =
""a\\""
; body
=false; } root
    packet
//	t
// a // b
rootA
    { @tag(
    3) @tag(4294967296
)@lengthOf( // @lengthOf(
f32a) _x
    Foo `say ""hi""` , } packet Foo
    // trailing space 
    {@tag( 7 ) @lengthOf( u128
)u16 u128@calculatedFrom(	""a\""b""
) // " ++ [128512]%N ++ runes_of_ascii " emoji
`u8 x,`
,
    //x
    @lengthOf(
    Pad ) @lengthOf(
    f32a )
@calculatedFrom( """ ++ [28040; 24687]%N ++ runes_of_ascii """ )
uint16 a1	, @leftPad
(' ' )
A
    {	int64
Pad
`crlf
line` , uint64 Z9_ @calculatedFrom(""a	b"")
,
    // a // b
    repeat options1
,
char[// " ++ [128512]%N ++ runes_of_ascii " emoji
4294967296 ]falsey , } ,
zchar[
    65535 ]
chars	``,
    @calculatedFrom(
    """"
// " ++ [27880; 37322]%N ++ runes_of_ascii "
// " ++ [27880; 37322]%N ++ runes_of_ascii "
)
    @calculatedFrom( ""1""
) uint8 a1
,//x
}
")).
Eval vm_compute in ("<<<M66>>>" ++ check (runes_of_ascii "packet
// @lengthOf(
// c
calculatedFrom {match	_x as MetaDataX
{ ""// no comment""  : T
, }	, } packet options1 {
} packet Logon
    {
    f32 falsey @calculatedFrom(
""" ++ [128512]%N ++ runes_of_ascii """ ), }
// packet A { u8 x, }
")).
Eval vm_compute in ("<<<M76>>>" ++ check (runes_of_ascii "options {Packet
= true ; f32a = u8
    ; }packet
    // `tick` ""quote"" 'q'
    matchKey	{ @lengthOf( /// triple
A
)packetx ``
    ,
    string //
BodyLength ,@tag( 42 ) float32
Z9_
@calculatedFrom(	""\n"" )
`" ++ [28040; 24687; 31867; 22411]%N ++ runes_of_ascii "` , repeat zchar[	0123456789
    // c
    ]  chars ,int16 charz@lengthOf( body
)
`" ++ [233]%N ++ runes_of_ascii "` , repeat u8x msg_type
, }
")).
Eval vm_compute in ("<<<T76>>>" ++ terms [mkTok 1 "options" 1 0 false; mkTok 2 "{" 1 8 false; mkTok 42 "Packet" 1 9 false; mkTok 4 "=" 2 0 false; mkTok 10 "true" 2 2 false; mkTok 41 ";" 2 7 false; mkTok 42 "f32a" 2 9 false; mkTok 4 "=" 2 14 false; mkTok 20 "u8" 2 16 false; mkTok 41 ";" 3 4 false; mkTok 3 "}" 3 6 false; mkTok 35 "packet" 3 7 false; mkTok 44 "// `tick` ""quote"" 'q'" 4 4 true; mkTok 42 "matchKey" 5 4 false; mkTok 2 "{" 5 13 false; mkTok 7 "@lengthOf(" 5 15 false; mkTok 44 "/// triple" 5 26 true; mkTok 42 "A" 6 0 false; mkTok 6 ")" 7 0 false; mkTok 42 "packetx" 7 1 false; mkTok 43 "``" 7 9 false; mkTok 40 "," 8 4 false; mkTok 15 "string" 9 4 false; mkTok 44 "//" 9 11 true; mkTok 42 "BodyLength" 10 0 false; mkTok 40 "," 10 11 false; mkTok 9 "@tag(" 10 12 false; mkTok 30 "42" 10 18 false; mkTok 6 ")" 10 21 false; mkTok 28 "float32" 10 23 false; mkTok 42 "Z9_" 11 0 false; mkTok 5 "@calculatedFrom(" 12 0 false; mkTok 31 """\n""" 12 17 false; mkTok 6 ")" 12 22 false; mkTok 43 (string_of_bytes [96; 230; 182; 136; 230; 129; 175; 231; 177; 187; 229; 158; 139; 96]%N) 13 0 false; mkTok 40 "," 13 7 false; mkTok 36 "repeat" 13 9 false; mkTok 14 "zchar[" 13 16 false; mkTok 30 "0123456789" 13 23 false; mkTok 44 "// c" 14 4 true; mkTok 13 "]" 15 4 false; mkTok 42 "chars" 15 7 false; mkTok 40 "," 15 13 false; mkTok 25 "int16" 15 14 false; mkTok 42 "charz" 15 20 false; mkTok 7 "@lengthOf(" 15 25 false; mkTok 42 "body" 15 36 false; mkTok 6 ")" 16 0 false; mkTok 43 (string_of_bytes [96; 195; 169; 96]%N) 17 0 false; mkTok 40 "," 17 4 false; mkTok 36 "repeat" 17 6 false; mkTok 42 "u8x" 17 13 false; mkTok 42 "msg_type" 17 17 false; mkTok 40 "," 18 0 false; mkTok 3 "}" 18 2 false; mkTok 0 "<EOF>" 19 0 false] (mkPacket (mkPtok 1 "options" 1 0 0) (Some (mkPtok 3 "}" 18 2 54)) [(DOption (mkOptionDef (mkSpan (mkPtok 1 "options" 1 0 0) (mkPtok 3 "}" 3 6 10)) (mkPtok 1 "options" 1 0 0) (mkPtok 2 "{" 1 8 1) [(mkOptionDecl (mkSpan (mkPtok 42 "Packet" 1 9 2) (mkPtok 41 ";" 2 7 5)) (mkPtok 42 "Packet" 1 9 2) (mkPtok 4 "=" 2 0 3) (VTrue (mkSpan (mkPtok 10 "true" 2 2 4) (mkPtok 10 "true" 2 2 4)) (mkPtok 10 "true" 2 2 4)) (Some (mkPtok 41 ";" 2 7 5))); (mkOptionDecl (mkSpan (mkPtok 42 "f32a" 2 9 6) (mkPtok 41 ";" 3 4 9)) (mkPtok 42 "f32a" 2 9 6) (mkPtok 4 "=" 2 14 7) (VType (mkSpan (mkPtok 20 "u8" 2 16 8) (mkPtok 20 "u8" 2 16 8)) (TyBasic (mkSpan (mkPtok 20 "u8" 2 16 8) (mkPtok 20 "u8" 2 16 8)) (mkBasicType (mkSpan (mkPtok 20 "u8" 2 16 8) (mkPtok 20 "u8" 2 16 8)) (mkPtok 20 "u8" 2 16 8)))) (Some (mkPtok 41 ";" 3 4 9)))] (mkPtok 3 "}" 3 6 10))); (DPacket (mkPacketDef (mkSpan (mkPtok 35 "packet" 3 7 11) (mkPtok 3 "}" 18 2 54)) None (mkPtok 35 "packet" 3 7 11) (mkPtok 42 "matchKey" 5 4 13) (mkPtok 2 "{" 5 13 14) [(mkFieldWithAttr (mkSpan (mkPtok 7 "@lengthOf(" 5 15 15) (mkPtok 40 "," 8 4 21)) [(FALengthOf (mkSpan (mkPtok 7 "@lengthOf(" 5 15 15) (mkPtok 6 ")" 7 0 18)) (mkLengthOf (mkSpan (mkPtok 7 "@lengthOf(" 5 15 15) (mkPtok 6 ")" 7 0 18)) (mkPtok 7 "@lengthOf(" 5 15 15) (mkPtok 42 "A" 6 0 17) (mkPtok 6 ")" 7 0 18)))] (ObjectField (mkSpan (mkPtok 42 "packetx" 7 1 19) (mkPtok 40 "," 8 4 21)) None (mkPtok 42 "packetx" 7 1 19) None (Some (mkPtok 43 "``" 7 9 20)) (mkPtok 40 "," 8 4 21))); (mkFieldWithAttr (mkSpan (mkPtok 15 "string" 9 4 22) (mkPtok 40 "," 10 11 25)) [] (MetaField (mkSpan (mkPtok 15 "string" 9 4 22) (mkPtok 40 "," 10 11 25)) None (mkMetaDecl (mkSpan (mkPtok 15 "string" 9 4 22) (mkPtok 40 "," 10 11 25)) (TyDynamic (mkSpan (mkPtok 15 "string" 9 4 22) (mkPtok 15 "string" 9 4 22)) (mkDynamicString (mkSpan (mkPtok 15 "string" 9 4 22) (mkPtok 15 "string" 9 4 22)) (mkPtok 15 "string" 9 4 22))) (mkPtok 42 "BodyLength" 10 0 24) None (mkPtok 40 "," 10 11 25)))); (mkFieldWithAttr (mkSpan (mkPtok 9 "@tag(" 10 12 26) (mkPtok 40 "," 13 7 35)) [(FATag (mkSpan (mkPtok 9 "@tag(" 10 12 26) (mkPtok 6 ")" 10 21 28)) (mkTagAttr (mkSpan (mkPtok 9 "@tag(" 10 12 26) (mkPtok 6 ")" 10 21 28)) (mkPtok 9 "@tag(" 10 12 26) (mkPtok 30 "42" 10 18 27) (mkPtok 6 ")" 10 21 28)))] (CheckSumField (mkSpan (mkPtok 28 "float32" 10 23 29) (mkPtok 40 "," 13 7 35)) (mkChecksumFieldDecl (mkSpan (mkPtok 28 "float32" 10 23 29) (mkPtok 40 "," 13 7 35)) (Some (TyBasic (mkSpan (mkPtok 28 "float32" 10 23 29) (mkPtok 28 "float32" 10 23 29)) (mkBasicType (mkSpan (mkPtok 28 "float32" 10 23 29) (mkPtok 28 "float32" 10 23 29)) (mkPtok 28 "float32" 10 23 29)))) (mkPtok 42 "Z9_" 11 0 30) (mkCalculatedFrom (mkSpan (mkPtok 5 "@calculatedFrom(" 12 0 31) (mkPtok 6 ")" 12 22 33)) (mkPtok 5 "@calculatedFrom(" 12 0 31) (mkPtok 31 """\n""" 12 17 32) (mkPtok 6 ")" 12 22 33)) (Some (mkPtok 43 (string_of_bytes [96; 230; 182; 136; 230; 129; 175; 231; 177; 187; 229; 158; 139; 96]%N) 13 0 34)) (mkPtok 40 "," 13 7 35)))); (mkFieldWithAttr (mkSpan (mkPtok 36 "repeat" 13 9 36) (mkPtok 40 "," 15 13 42)) [] (MetaField (mkSpan (mkPtok 36 "repeat" 13 9 36) (mkPtok 40 "," 15 13 42)) (Some (mkPtok 36 "repeat" 13 9 36)) (mkMetaDecl (mkSpan (mkPtok 14 "zchar[" 13 16 37) (mkPtok 40 "," 15 13 42)) (TyFixed (mkSpan (mkPtok 14 "zchar[" 13 16 37) (mkPtok 13 "]" 15 4 40)) (mkFixedString (mkSpan (mkPtok 14 "zchar[" 13 16 37) (mkPtok 13 "]" 15 4 40)) (mkPtok 14 "zchar[" 13 16 37) (mkPtok 30 "0123456789" 13 23 38) (mkPtok 13 "]" 15 4 40))) (mkPtok 42 "chars" 15 7 41) None (mkPtok 40 "," 15 13 42)))); (mkFieldWithAttr (mkSpan (mkPtok 25 "int16" 15 14 43) (mkPtok 40 "," 17 4 49)) [] (LengthField (mkSpan (mkPtok 25 "int16" 15 14 43) (mkPtok 40 "," 17 4 49)) (mkLengthFieldDecl (mkSpan (mkPtok 25 "int16" 15 14 43) (mkPtok 40 "," 17 4 49)) (Some (TyBasic (mkSpan (mkPtok 25 "int16" 15 14 43) (mkPtok 25 "int16" 15 14 43)) (mkBasicType (mkSpan (mkPtok 25 "int16" 15 14 43) (mkPtok 25 "int16" 15 14 43)) (mkPtok 25 "int16" 15 14 43)))) (mkPtok 42 "charz" 15 20 44) (mkLengthOf (mkSpan (mkPtok 7 "@lengthOf(" 15 25 45) (mkPtok 6 ")" 16 0 47)) (mkPtok 7 "@lengthOf(" 15 25 45) (mkPtok 42 "body" 15 36 46) (mkPtok 6 ")" 16 0 47)) (Some (mkPtok 43 (string_of_bytes [96; 195; 169; 96]%N) 17 0 48)) (mkPtok 40 "," 17 4 49)))); (mkFieldWithAttr (mkSpan (mkPtok 36 "repeat" 17 6 50) (mkPtok 40 "," 18 0 53)) [] (ObjectField (mkSpan (mkPtok 36 "repeat" 17 6 50) (mkPtok 40 "," 18 0 53)) (Some (mkPtok 36 "repeat" 17 6 50)) (mkPtok 42 "u8x" 17 13 51) (Some (mkPtok 42 "msg_type" 17 17 52)) None (mkPtok 40 "," 18 0 53)))] (mkPtok 3 "}" 18 2 54)))])).
Eval vm_compute in ("<<<M86>>>" ++ check (runes_of_ascii "packet As {zchar[ 42
    ] float @calculatedFrom( ""a\""b"" )
    //	t
    `{ , }` , // 50% %s
@tag(
    42 ) @rightPad ('0' )	@calculatedFrom( ""a\""b"") repeat int32 Header ,float @lengthOf(falsey  ) , @leftPad
    ( ) uint32
    options1
@lengthOf(
Pad)`a\` , }")).
Eval vm_compute in ("<<<M96>>>" ++ check (runes_of_ascii "packet charz { lengthOf { roots
{
char[ 4294967296 ] rootA ``
,} ,repeat u64 A  ``
    , repeat  T
, }  , }
")).
Eval vm_compute in ("<<<M106>>>" ++ check (runes_of_ascii "//	t
root packet As
// c
// " ++ [128512]%N ++ runes_of_ascii " emoji
{
} options
{ }
")).
Eval vm_compute in ("<<<M116>>>" ++ check (runes_of_ascii " 	 ")).
Eval vm_compute in ("<<<M126>>>" ++ check (runes_of_ascii "packet int {
@leftPad(
    //x
    '\x00'
    ) @tag( 0
    //
    ) repeat char[ 1 ] Header ,@calculatedFrom( ""CRC32"" )
@tag( // a // b
65535 )
    lengthOf
    , match T as x// 50% %s
{ 3 : float
,[65535
, ""x y"" ]: Pad, }
, int32 f32a
`a\` ,}// a // b
packet zchar
{ options1 ,
@calculatedFrom( ""\" ++ [233]%N ++ runes_of_ascii """)	repeat
    i32 u8x ,}	packet
    f32a	{ // `tick` ""quote"" 'q'
@calculatedFrom( ""x y""
)
    u32 _x `u8 x,`//x
,	repeat char[] falsey, match msg_type as rootA {65535:  lengthOf,	}  ,}
")).
Eval vm_compute in ("<<<M136>>>" ++ check (runes_of_ascii "// a // b
packet
a1 { @calculatedFrom( ""packet"" )u16 x @lengthOf( u8x
    ),@tag( 255 ) u32 a1 @calculatedFrom( """ ++ [128512]%N ++ runes_of_ascii """ )/// triple
, repeat i8 T `it's`, asx , @rightPad('\x00' )	body { repeatCount
    {i8 As // `tick` ""quote"" 'q'
,	zchar[ 10 ]
    asx
`tab	here` , match
    leftPad
    as chars
    {
    [
    """ ++ [128512]%N ++ runes_of_ascii """ ] :
    repeatCount // c
, 1	: matchKey , [
    1
,3
// c
// a // b
] :
    float
[ 255 ] // c
:
// `tick` ""quote"" 'q'
//	t
msg_type [
    3]
    : repeatCount , // " ++ [128512]%N ++ runes_of_ascii " emoji
}	,} // " ++ [128512]%N ++ runes_of_ascii " emoji
,
char[] string_`100% of %d`, // " ++ [27880; 37322]%N ++ runes_of_ascii "
char[007] Pad
// packet A { u8 x, }
// @lengthOf(
`line1
line2` // `tick` ""quote"" 'q'
, char[007 ] Pad `two words` , }, } 	 ")).
Eval vm_compute in ("<<<M146>>>" ++ check (runes_of_ascii "  options{ }
")).
Eval vm_compute in ("<<<T146>>>" ++ terms [mkTok 1 "options" 1 2 false; mkTok 2 "{" 1 9 false; mkTok 3 "}" 1 11 false; mkTok 0 "<EOF>" 2 0 false] (mkPacket (mkPtok 1 "options" 1 2 0) (Some (mkPtok 3 "}" 1 11 2)) [(DOption (mkOptionDef (mkSpan (mkPtok 1 "options" 1 2 0) (mkPtok 3 "}" 1 11 2)) (mkPtok 1 "options" 1 2 0) (mkPtok 2 "{" 1 9 1) [] (mkPtok 3 "}" 1 11 2)))])).
Eval vm_compute in ("<<<M156>>>" ++ check (runes_of_ascii "// " ++ [128512]%N ++ runes_of_ascii " emoji
packet tag { @lengthOf( matchKey //	t
)	zchar[
    7
    ] i8i8 ,@rightPad
( //
'0'	)
    // " ++ [128512]%N ++ runes_of_ascii " emoji
    int64//x
i8i8
,
    zchar[	255 ] float ,
}
")).
Eval vm_compute in ("<<<M166>>>" ++ check (runes_of_ascii "options {
} root packet // packet A { u8 x, }
chars { @tag( 1 )zchar[3 ] falsey `" ++ [233]%N ++ runes_of_ascii "`
, } options{ o  =' '
tag
= char[]
    ;float = ' ' ; }// a // b
MetaData	zchar { BodyLength _x , }")).
Eval vm_compute in ("<<<M176>>>" ++ check (runes_of_ascii "packet
Z9_ { u32
pack `crlf
line` ,
    /// triple
    @lengthOf(len) u128 {match
    x_y_z as  Logon  { 7 : pack ,1
: int 4294967296// " ++ [27880; 37322]%N ++ runes_of_ascii "
: rootA, 1 :
f32a,
[
    """" , // 50% %s
42	, ""\n"" ,
// " ++ [128512]%N ++ runes_of_ascii " emoji
// packet A { u8 x, }
7
, // c
0 ,
""// no comment"", 4294967296 ,
""// no comment""
] :
    matchKey  ,
},
    // " ++ [27880; 37322]%N ++ runes_of_ascii "
    match float
as trueish // a // b
{007 : packetx, 65535	: repeatCount} , repeat
    // @lengthOf(
    roots lengthOf
, repeat
i8 string_, } ,  i64
    leftPad @lengthOf( msg_type ) , // a // b
@tag(
    // c
    7 )zchar[ 7] f32a //	t
@calculatedFrom(""\n"" ) , string falsey ,
    // packet A { u8 x, }
    repeat leftPad{ match matchKey // a // b
as	repeatCount { ""\n"" :metadata  ,""x y""
:Logon
// " ++ [128512]%N ++ runes_of_ascii " emoji
// " ++ [27880; 37322]%N ++ runes_of_ascii "
, }
    , }
    , /// triple
}
")).
Eval vm_compute in ("<<<M186>>>" ++ check (runes_of_ascii "root //x
packet
    charz //	t
{ repeat
zchar[ 65535
]
Packet ,} MetaData
u128
{string uint8x//
, rootA
_x , char[007
    ] uint8x ,
As A
,Header u`line1
line2` , rootA chars `100% of %d` ,}MetaData trueish{ uint8 Logon ,
    // c
    uint8 // `tick` ""quote"" 'q'
float
,//
u/// triple
As
,/// triple
falsey packetx
//	t
// " ++ [128512]%N ++ runes_of_ascii " emoji
, i8i8
    rootA,
    i16 roots `
` ,}")).
Eval vm_compute in ("<<<M196>>>" ++ check (runes_of_ascii "packet x {
    }packet repeatCount {
    charz charz , }
    // 50% %s
    packet trueish{ }
")).
Eval vm_compute in ("<<<M206>>>" ++ check (runes_of_ascii "MetaData
x {
_x Z9_
`u8 x,` ,
Z9_ matchKey,
    u128
    // packet A { u8 x, }
    roots, lengthOf matchKey
    , char[3 // @lengthOf(
] packetx `100% of %d`
, char[
    7 ]
    // c
    options1 `doc`  ,// 50% %s
}
options
{ leftPad=' '} packet roots {float32 T
    @lengthOf( int  )
    `" ++ [233]%N ++ runes_of_ascii "` ,
}packet
rootA { }")).
Eval vm_compute in ("<<<M216>>>" ++ check (runes_of_ascii "  packet
asx { float @calculatedFrom( ""a\""b"" ) // packet A { u8 x, }
,
Pad msg_type ,
@calculatedFrom(
    ""CRC32"" // " ++ [128512]%N ++ runes_of_ascii " emoji
) match chars	as //
Foo
    { ""1"" :	x_y_z , ""1""
:	o , 4294967296  : tag 7
:
trueish  ,
""" ++ [28040; 24687]%N ++ runes_of_ascii """ // " ++ [27880; 37322]%N ++ runes_of_ascii "
:
Header },}MetaData trueish { u msg_type
,	zchar[
// 50% %s
// 50% %s
00 ] crc , f32
    A `` ,
    //	t
    uint32 options1 , char[]
    zchar `
`	, // packet A { u8 x, }
}")).
Eval vm_compute in ("<<<T216>>>" ++ terms [mkTok 35 "packet" 1 2 false; mkTok 42 "asx" 2 0 false; mkTok 2 "{" 2 4 false; mkTok 42 "float" 2 6 false; mkTok 5 "@calculatedFrom(" 2 12 false; mkTok 31 """a\""b""" 2 29 false; mkTok 6 ")" 2 36 false; mkTok 44 "// packet A { u8 x, }" 2 38 true; mkTok 40 "," 3 0 false; mkTok 42 "Pad" 4 0 false; mkTok 42 "msg_type" 4 4 false; mkTok 40 "," 4 13 false; mkTok 5 "@calculatedFrom(" 5 0 false; mkTok 31 """CRC32""" 6 4 false; mkTok 44 (string_of_bytes [47; 47; 32; 240; 159; 152; 128; 32; 101; 109; 111; 106; 105]%N) 6 12 true; mkTok 6 ")" 7 0 false; mkTok 38 "match" 7 2 false; mkTok 42 "chars" 7 8 false; mkTok 17 "as" 7 14 false; mkTok 44 "//" 7 17 true; mkTok 42 "Foo" 8 0 false; mkTok 2 "{" 9 4 false; mkTok 31 """1""" 9 6 false; mkTok 39 ":" 9 10 false; mkTok 42 "x_y_z" 9 12 false; mkTok 40 "," 9 18 false; mkTok 31 """1""" 9 20 false; mkTok 39 ":" 10 0 false; mkTok 42 "o" 10 2 false; mkTok 40 "," 10 4 false; mkTok 30 "4294967296" 10 6 false; mkTok 39 ":" 10 18 false; mkTok 42 "tag" 10 20 false; mkTok 30 "7" 10 24 false; mkTok 39 ":" 11 0 false; mkTok 42 "trueish" 12 0 false; mkTok 40 "," 12 9 false; mkTok 31 (string_of_bytes [34; 230; 182; 136; 230; 129; 175; 34]%N) 13 0 false; mkTok 44 (string_of_bytes [47; 47; 32; 230; 179; 168; 233; 135; 138]%N) 13 5 true; mkTok 39 ":" 14 0 false; mkTok 42 "Header" 15 0 false; mkTok 3 "}" 15 7 false; mkTok 40 "," 15 8 false; mkTok 3 "}" 15 9 false; mkTok 37 "MetaData" 15 10 false; mkTok 42 "trueish" 15 19 false; mkTok 2 "{" 15 27 false; mkTok 42 "u" 15 29 false; mkTok 42 "msg_type" 15 31 false; mkTok 40 "," 16 0 false; mkTok 14 "zchar[" 16 2 false; mkTok 44 "// 50% %s" 17 0 true; mkTok 44 "// 50% %s" 18 0 true; mkTok 30 "00" 19 0 false; mkTok 13 "]" 19 3 false; mkTok 42 "crc" 19 5 false; mkTok 40 "," 19 9 false; mkTok 28 "f32" 19 11 false; mkTok 42 "A" 20 4 false; mkTok 43 "``" 20 6 false; mkTok 40 "," 20 9 false; mkTok 44 (string_of_bytes [47; 47; 9; 116]%N) 21 4 true; mkTok 22 "uint32" 22 4 false; mkTok 42 "options1" 22 11 false; mkTok 40 "," 22 20 false; mkTok 16 "char[]" 22 22 false; mkTok 42 "zchar" 23 4 false; mkTok 43 (string_of_bytes [96; 10; 96]%N) 23 10 false; mkTok 40 "," 24 2 false; mkTok 44 "// packet A { u8 x, }" 24 4 true; mkTok 3 "}" 25 0 false; mkTok 0 "<EOF>" 25 1 false] (mkPacket (mkPtok 35 "packet" 1 2 0) (Some (mkPtok 3 "}" 25 0 70)) [(DPacket (mkPacketDef (mkSpan (mkPtok 35 "packet" 1 2 0) (mkPtok 3 "}" 15 9 43)) None (mkPtok 35 "packet" 1 2 0) (mkPtok 42 "asx" 2 0 1) (mkPtok 2 "{" 2 4 2) [(mkFieldWithAttr (mkSpan (mkPtok 42 "float" 2 6 3) (mkPtok 40 "," 3 0 8)) [] (CheckSumField (mkSpan (mkPtok 42 "float" 2 6 3) (mkPtok 40 "," 3 0 8)) (mkChecksumFieldDecl (mkSpan (mkPtok 42 "float" 2 6 3) (mkPtok 40 "," 3 0 8)) None (mkPtok 42 "float" 2 6 3) (mkCalculatedFrom (mkSpan (mkPtok 5 "@calculatedFrom(" 2 12 4) (mkPtok 6 ")" 2 36 6)) (mkPtok 5 "@calculatedFrom(" 2 12 4) (mkPtok 31 """a\""b""" 2 29 5) (mkPtok 6 ")" 2 36 6)) None (mkPtok 40 "," 3 0 8)))); (mkFieldWithAttr (mkSpan (mkPtok 42 "Pad" 4 0 9) (mkPtok 40 "," 4 13 11)) [] (ObjectField (mkSpan (mkPtok 42 "Pad" 4 0 9) (mkPtok 40 "," 4 13 11)) None (mkPtok 42 "Pad" 4 0 9) (Some (mkPtok 42 "msg_type" 4 4 10)) None (mkPtok 40 "," 4 13 11))); (mkFieldWithAttr (mkSpan (mkPtok 5 "@calculatedFrom(" 5 0 12) (mkPtok 40 "," 15 8 42)) [(FACalculatedFrom (mkSpan (mkPtok 5 "@calculatedFrom(" 5 0 12) (mkPtok 6 ")" 7 0 15)) (mkCalculatedFrom (mkSpan (mkPtok 5 "@calculatedFrom(" 5 0 12) (mkPtok 6 ")" 7 0 15)) (mkPtok 5 "@calculatedFrom(" 5 0 12) (mkPtok 31 """CRC32""" 6 4 13) (mkPtok 6 ")" 7 0 15)))] (MatchField (mkSpan (mkPtok 38 "match" 7 2 16) (mkPtok 40 "," 15 8 42)) (mkMatchFieldDecl (mkSpan (mkPtok 38 "match" 7 2 16) (mkPtok 3 "}" 15 7 41)) (mkPtok 38 "match" 7 2 16) (mkPtok 42 "chars" 7 8 17) (mkPtok 17 "as" 7 14 18) (mkPtok 42 "Foo" 8 0 20) (mkPtok 2 "{" 9 4 21) [(mkMatchPair (mkSpan (mkPtok 31 """1""" 9 6 22) (mkPtok 40 "," 9 18 25)) (MKString (mkPtok 31 """1""" 9 6 22)) (mkPtok 39 ":" 9 10 23) (mkPtok 42 "x_y_z" 9 12 24) (Some (mkPtok 40 "," 9 18 25))); (mkMatchPair (mkSpan (mkPtok 31 """1""" 9 20 26) (mkPtok 40 "," 10 4 29)) (MKString (mkPtok 31 """1""" 9 20 26)) (mkPtok 39 ":" 10 0 27) (mkPtok 42 "o" 10 2 28) (Some (mkPtok 40 "," 10 4 29))); (mkMatchPair (mkSpan (mkPtok 30 "4294967296" 10 6 30) (mkPtok 42 "tag" 10 20 32)) (MKDigits (mkPtok 30 "4294967296" 10 6 30)) (mkPtok 39 ":" 10 18 31) (mkPtok 42 "tag" 10 20 32) None); (mkMatchPair (mkSpan (mkPtok 30 "7" 10 24 33) (mkPtok 40 "," 12 9 36)) (MKDigits (mkPtok 30 "7" 10 24 33)) (mkPtok 39 ":" 11 0 34) (mkPtok 42 "trueish" 12 0 35) (Some (mkPtok 40 "," 12 9 36))); (mkMatchPair (mkSpan (mkPtok 31 (string_of_bytes [34; 230; 182; 136; 230; 129; 175; 34]%N) 13 0 37) (mkPtok 42 "Header" 15 0 40)) (MKString (mkPtok 31 (string_of_bytes [34; 230; 182; 136; 230; 129; 175; 34]%N) 13 0 37)) (mkPtok 39 ":" 14 0 39) (mkPtok 42 "Header" 15 0 40) None)] (mkPtok 3 "}" 15 7 41)) (mkPtok 40 "," 15 8 42)))] (mkPtok 3 "}" 15 9 43))); (DMeta (mkMetaDef (mkSpan (mkPtok 37 "MetaData" 15 10 44) (mkPtok 3 "}" 25 0 70)) (mkPtok 37 "MetaData" 15 10 44) (mkPtok 42 "trueish" 15 19 45) (mkPtok 2 "{" 15 27 46) [(MIRef (mkRefMetaDecl (mkSpan (mkPtok 42 "u" 15 29 47) (mkPtok 40 "," 16 0 49)) (mkPtok 42 "u" 15 29 47) (mkPtok 42 "msg_type" 15 31 48) None (mkPtok 40 "," 16 0 49))); (MIDecl (mkMetaDecl (mkSpan (mkPtok 14 "zchar[" 16 2 50) (mkPtok 40 "," 19 9 56)) (TyFixed (mkSpan (mkPtok 14 "zchar[" 16 2 50) (mkPtok 13 "]" 19 3 54)) (mkFixedString (mkSpan (mkPtok 14 "zchar[" 16 2 50) (mkPtok 13 "]" 19 3 54)) (mkPtok 14 "zchar[" 16 2 50) (mkPtok 30 "00" 19 0 53) (mkPtok 13 "]" 19 3 54))) (mkPtok 42 "crc" 19 5 55) None (mkPtok 40 "," 19 9 56))); (MIDecl (mkMetaDecl (mkSpan (mkPtok 28 "f32" 19 11 57) (mkPtok 40 "," 20 9 60)) (TyBasic (mkSpan (mkPtok 28 "f32" 19 11 57) (mkPtok 28 "f32" 19 11 57)) (mkBasicType (mkSpan (mkPtok 28 "f32" 19 11 57) (mkPtok 28 "f32" 19 11 57)) (mkPtok 28 "f32" 19 11 57))) (mkPtok 42 "A" 20 4 58) (Some (mkPtok 43 "``" 20 6 59)) (mkPtok 40 "," 20 9 60))); (MIDecl (mkMetaDecl (mkSpan (mkPtok 22 "uint32" 22 4 62) (mkPtok 40 "," 22 20 64)) (TyBasic (mkSpan (mkPtok 22 "uint32" 22 4 62) (mkPtok 22 "uint32" 22 4 62)) (mkBasicType (mkSpan (mkPtok 22 "uint32" 22 4 62) (mkPtok 22 "uint32" 22 4 62)) (mkPtok 22 "uint32" 22 4 62))) (mkPtok 42 "options1" 22 11 63) None (mkPtok 40 "," 22 20 64))); (MIDecl (mkMetaDecl (mkSpan (mkPtok 16 "char[]" 22 22 65) (mkPtok 40 "," 24 2 68)) (TyDynamic (mkSpan (mkPtok 16 "char[]" 22 22 65) (mkPtok 16 "char[]" 22 22 65)) (mkDynamicString (mkSpan (mkPtok 16 "char[]" 22 22 65) (mkPtok 16 "char[]" 22 22 65)) (mkPtok 16 "char[]" 22 22 65))) (mkPtok 42 "zchar" 23 4 66) (Some (mkPtok 43 (string_of_bytes [96; 10; 96]%N) 23 10 67)) (mkPtok 40 "," 24 2 68)))] (mkPtok 3 "}" 25 0 70)))])).
Eval vm_compute in ("<<<M226>>>" ++ check (runes_of_ascii "packet Pad { repeat i32 Z9_ , } MetaData u8x{ // " ++ [128512]%N ++ runes_of_ascii " emoji
msg_type Logon `a\` // packet A { u8 x, }
,} MetaData
    Pad { //	t
} options{body =	4294967296;
    a1
    =
42  ;
asx= '\x00';
//
// @lengthOf(
}
")).
Eval vm_compute in ("<<<M236>>>" ++ check (runes_of_ascii "MetaData T { char[ 7 ] len
    `tab	here`, }")).
Eval vm_compute in ("<<<M246>>>" ++ check (runes_of_ascii "root packet calculatedFrom
{}	packet
u
    { u64  len
, }
")).
Eval vm_compute in ("<<<M256>>>" ++ check (runes_of_ascii "packet As
{
    MetaDataX  crc,repeat char[] BodyLength,
    repeat
i8 Pad
    //x
    `
`
    , u8// trailing space 
pack @lengthOf( Foo ) `say ""hi""` , @tag( 0123456789
) float {i32
    falsey , } ,  match // c
roots as // a // b
Packet{
""`tick`""
    :
float
,  10 :	body [ 7,00 , // " ++ [27880; 37322]%N ++ runes_of_ascii "
7 ,
// 50% %s
/// triple
3 ,  """ ++ [233]%N ++ runes_of_ascii "t" ++ [233]%N ++ runes_of_ascii """ , 65535
,
""\n"" ] : crc/// triple
, } ,uint16 metadata ,
    }
    MetaData
    // `tick` ""quote"" 'q'
    options1 {
// 50% %s
//
char[
// @lengthOf(
// packet A { u8 x, }
65535 ] roots `crlf
line`
,	i16  MetaDataX , }
    // @lengthOf(
    options
{ repeatCount = char;
charz=
    false rootA=
    255  ; packetx
//x
// packet A { u8 x, }
= '\x00' ; } options// " ++ [128512]%N ++ runes_of_ascii " emoji
{ Foo =  '\x00'; uint8x = true
; x_y_z =  7 //
; } packet Logon{ }")).
Eval vm_compute in ("<<<M266>>>" ++ check (runes_of_ascii "packet // 50% %s
o { @tag( 255 )rootA
chars , u { len @lengthOf( msg_type )`tab	here`,// " ++ [128512]%N ++ runes_of_ascii " emoji
char[] pack `a\`
,} ,@lengthOf(uint8x )match
// " ++ [27880; 37322]%N ++ runes_of_ascii "
// `tick` ""quote"" 'q'
MetaDataX as BodyLength
    {""CRC32"" :// trailing space 
A
} , @tag(
    65535)	int32 u8x @calculatedFrom( ""// no comment"" )
`two words` ,	@tag( 42 ) match zchar as stringy { [
4294967296
]
    :
    i64_ }, }root
    packet
options1
{ repeat As`// not a comment` ,
    repeat lengthOf {A chars , } , packetx  { f32 metadata ,
int64 u8x
    // " ++ [128512]%N ++ runes_of_ascii " emoji
    @calculatedFrom(""1""  ) , int16 rootA , repeat
    i16	_x
, }
// " ++ [27880; 37322]%N ++ runes_of_ascii "
// c
, repeat x_y_z {repeat
    u16 Header
    `100% of %d` ,
    // @lengthOf(
    }, match x // packet A { u8 x, }
as
charz
    { ""// no comment""	:
    // " ++ [128512]%N ++ runes_of_ascii " emoji
    As
, [ 65535
,4294967296] :i8i8 , [
""x y"" //x
,42	,4294967296 ] : i8i8 ,[007,3  ]: options1
,""a\\"" : f32a ,	} , repeat body , @calculatedFrom(// trailing space 
""" ++ [233]%N ++ runes_of_ascii "t" ++ [233]%N ++ runes_of_ascii """ ) char[ 007 ]
trueish @lengthOf( // c
_x) , }
    MetaData packetx { }options {
    lengthOf
= 7 lengthOf
    = ' ' ; string_=
0
;
}")).
Eval vm_compute in ("<<<M276>>>" ++ check (runes_of_ascii "  packet
u8x// 50% %s
{ @rightPad
    (
    ' ' ) repeat MetaDataX`it's`	, }
")).
Eval vm_compute in ("<<<M286>>>" ++ check (runes_of_ascii "packet falsey { @calculatedFrom( ""\n"" ) pack T `
`, @rightPad /// triple
(
)char[] string_
/// triple
// " ++ [128512]%N ++ runes_of_ascii " emoji
,
    //
    } MetaData	string_ { u16 trueish
,
    float x_y_z `u8 x,` ,
zchar[ 65535 ]	float ,
lengthOf repeatCount`tab	here` ,
    metadata // trailing space 
chars`say ""hi""` , }
")).
Eval vm_compute in ("<<<T286>>>" ++ terms [mkTok 35 "packet" 1 0 false; mkTok 42 "falsey" 1 7 false; mkTok 2 "{" 1 14 false; mkTok 5 "@calculatedFrom(" 1 16 false; mkTok 31 """\n""" 1 33 false; mkTok 6 ")" 1 38 false; mkTok 42 "pack" 1 40 false; mkTok 42 "T" 1 45 false; mkTok 43 (string_of_bytes [96; 10; 96]%N) 1 47 false; mkTok 40 "," 2 1 false; mkTok 32 "@rightPad" 2 3 false; mkTok 44 "/// triple" 2 13 true; mkTok 8 "(" 3 0 false; mkTok 6 ")" 4 0 false; mkTok 16 "char[]" 4 1 false; mkTok 42 "string_" 4 8 false; mkTok 44 "/// triple" 5 0 true; mkTok 44 (string_of_bytes [47; 47; 32; 240; 159; 152; 128; 32; 101; 109; 111; 106; 105]%N) 6 0 true; mkTok 40 "," 7 0 false; mkTok 44 "//" 8 4 true; mkTok 3 "}" 9 4 false; mkTok 37 "MetaData" 9 6 false; mkTok 42 "string_" 9 15 false; mkTok 2 "{" 9 23 false; mkTok 21 "u16" 9 25 false; mkTok 42 "trueish" 9 29 false; mkTok 40 "," 10 0 false; mkTok 42 "float" 11 4 false; mkTok 42 "x_y_z" 11 10 false; mkTok 43 "`u8 x,`" 11 16 false; mkTok 40 "," 11 24 false; mkTok 14 "zchar[" 12 0 false; mkTok 30 "65535" 12 7 false; mkTok 13 "]" 12 13 false; mkTok 42 "float" 12 15 false; mkTok 40 "," 12 21 false; mkTok 42 "lengthOf" 13 0 false; mkTok 42 "repeatCount" 13 9 false; mkTok 43 (string_of_bytes [96; 116; 97; 98; 9; 104; 101; 114; 101; 96]%N) 13 20 false; mkTok 40 "," 13 31 false; mkTok 42 "metadata" 14 4 false; mkTok 44 "// trailing space " 14 13 true; mkTok 42 "chars" 15 0 false; mkTok 43 "`say ""hi""`" 15 5 false; mkTok 40 "," 15 16 false; mkTok 3 "}" 15 18 false; mkTok 0 "<EOF>" 16 0 false] (mkPacket (mkPtok 35 "packet" 1 0 0) (Some (mkPtok 3 "}" 15 18 45)) [(DPacket (mkPacketDef (mkSpan (mkPtok 35 "packet" 1 0 0) (mkPtok 3 "}" 9 4 20)) None (mkPtok 35 "packet" 1 0 0) (mkPtok 42 "falsey" 1 7 1) (mkPtok 2 "{" 1 14 2) [(mkFieldWithAttr (mkSpan (mkPtok 5 "@calculatedFrom(" 1 16 3) (mkPtok 40 "," 2 1 9)) [(FACalculatedFrom (mkSpan (mkPtok 5 "@calculatedFrom(" 1 16 3) (mkPtok 6 ")" 1 38 5)) (mkCalculatedFrom (mkSpan (mkPtok 5 "@calculatedFrom(" 1 16 3) (mkPtok 6 ")" 1 38 5)) (mkPtok 5 "@calculatedFrom(" 1 16 3) (mkPtok 31 """\n""" 1 33 4) (mkPtok 6 ")" 1 38 5)))] (ObjectField (mkSpan (mkPtok 42 "pack" 1 40 6) (mkPtok 40 "," 2 1 9)) None (mkPtok 42 "pack" 1 40 6) (Some (mkPtok 42 "T" 1 45 7)) (Some (mkPtok 43 (string_of_bytes [96; 10; 96]%N) 1 47 8)) (mkPtok 40 "," 2 1 9))); (mkFieldWithAttr (mkSpan (mkPtok 32 "@rightPad" 2 3 10) (mkPtok 40 "," 7 0 18)) [(FAPadding (mkSpan (mkPtok 32 "@rightPad" 2 3 10) (mkPtok 6 ")" 4 0 13)) (mkPaddingAttr (mkSpan (mkPtok 32 "@rightPad" 2 3 10) (mkPtok 6 ")" 4 0 13)) (mkPtok 32 "@rightPad" 2 3 10) (mkPtok 8 "(" 3 0 12) None (mkPtok 6 ")" 4 0 13)))] (MetaField (mkSpan (mkPtok 16 "char[]" 4 1 14) (mkPtok 40 "," 7 0 18)) None (mkMetaDecl (mkSpan (mkPtok 16 "char[]" 4 1 14) (mkPtok 40 "," 7 0 18)) (TyDynamic (mkSpan (mkPtok 16 "char[]" 4 1 14) (mkPtok 16 "char[]" 4 1 14)) (mkDynamicString (mkSpan (mkPtok 16 "char[]" 4 1 14) (mkPtok 16 "char[]" 4 1 14)) (mkPtok 16 "char[]" 4 1 14))) (mkPtok 42 "string_" 4 8 15) None (mkPtok 40 "," 7 0 18))))] (mkPtok 3 "}" 9 4 20))); (DMeta (mkMetaDef (mkSpan (mkPtok 37 "MetaData" 9 6 21) (mkPtok 3 "}" 15 18 45)) (mkPtok 37 "MetaData" 9 6 21) (mkPtok 42 "string_" 9 15 22) (mkPtok 2 "{" 9 23 23) [(MIDecl (mkMetaDecl (mkSpan (mkPtok 21 "u16" 9 25 24) (mkPtok 40 "," 10 0 26)) (TyBasic (mkSpan (mkPtok 21 "u16" 9 25 24) (mkPtok 21 "u16" 9 25 24)) (mkBasicType (mkSpan (mkPtok 21 "u16" 9 25 24) (mkPtok 21 "u16" 9 25 24)) (mkPtok 21 "u16" 9 25 24))) (mkPtok 42 "trueish" 9 29 25) None (mkPtok 40 "," 10 0 26))); (MIRef (mkRefMetaDecl (mkSpan (mkPtok 42 "float" 11 4 27) (mkPtok 40 "," 11 24 30)) (mkPtok 42 "float" 11 4 27) (mkPtok 42 "x_y_z" 11 10 28) (Some (mkPtok 43 "`u8 x,`" 11 16 29)) (mkPtok 40 "," 11 24 30))); (MIDecl (mkMetaDecl (mkSpan (mkPtok 14 "zchar[" 12 0 31) (mkPtok 40 "," 12 21 35)) (TyFixed (mkSpan (mkPtok 14 "zchar[" 12 0 31) (mkPtok 13 "]" 12 13 33)) (mkFixedString (mkSpan (mkPtok 14 "zchar[" 12 0 31) (mkPtok 13 "]" 12 13 33)) (mkPtok 14 "zchar[" 12 0 31) (mkPtok 30 "65535" 12 7 32) (mkPtok 13 "]" 12 13 33))) (mkPtok 42 "float" 12 15 34) None (mkPtok 40 "," 12 21 35))); (MIRef (mkRefMetaDecl (mkSpan (mkPtok 42 "lengthOf" 13 0 36) (mkPtok 40 "," 13 31 39)) (mkPtok 42 "lengthOf" 13 0 36) (mkPtok 42 "repeatCount" 13 9 37) (Some (mkPtok 43 (string_of_bytes [96; 116; 97; 98; 9; 104; 101; 114; 101; 96]%N) 13 20 38)) (mkPtok 40 "," 13 31 39))); (MIRef (mkRefMetaDecl (mkSpan (mkPtok 42 "metadata" 14 4 40) (mkPtok 40 "," 15 16 44)) (mkPtok 42 "metadata" 14 4 40) (mkPtok 42 "chars" 15 0 42) (Some (mkPtok 43 "`say ""hi""`" 15 5 43)) (mkPtok 40 "," 15 16 44)))] (mkPtok 3 "}" 15 18 45)))])).
Eval vm_compute in ("<<<M296>>>" ++ check (runes_of_ascii "root packet falsey{string	stringy
    `tab	here`, repeat float As
, char[] Packet ,
i8 //
body
@lengthOf(// @lengthOf(
T
    ) ,repeat
A // packet A { u8 x, }
`a\` /// triple
, u8x @calculatedFrom( ""\" ++ [233]%N ++ runes_of_ascii """)`tab	here`
,float
    ,char[
    42 ]
    i8i8
    `u8 x,` , // a // b
}")).
Eval vm_compute in ("<<<M306>>>" ++ check (runes_of_ascii "root packet SimpleMessage {
    uint16 MsgType `" ++ [28040; 24687; 31867; 22411]%N ++ runes_of_ascii "`,
    string JsonBody `Json" ++ [23383; 31526; 20018; 28040; 24687; 20307]%N ++ runes_of_ascii "`,
}")).
Eval vm_compute in ("<<<M316>>>" ++ check (runes_of_ascii "MetaData
{	crc char[] Z9_`{ , }`,} options { tag =
    false } packet
// a // b
// @lengthOf(
Pad {Foo @calculatedFrom( // `tick` ""quote"" 'q'
""a\\"" ) ,
    trueish ,
    char[ 00]
    // " ++ [128512]%N ++ runes_of_ascii " emoji
    packetx , }
")).
Eval vm_compute in ("<<<M326>>>" ++ check (runes_of_ascii "MetaData
crc	{ Z9_ char[]`{ , }`,} options { tag =
    false } packet
// a // b
// @lengthOf(
Pad {Foo @calculatedFrom( // `tick` ""quote"" 'q'
""a\\"" ) ,
    trueish ,
    char[ 00]
    // " ++ [128512]%N ++ runes_of_ascii " emoji
    packetx , }
")).
Eval vm_compute in ("<<<M336>>>" ++ check (runes_of_ascii "MetaData
crc	{ char[] Z9_,`{ , }`} options { tag =
    false } packet
// a // b
// @lengthOf(
Pad {Foo @calculatedFrom( // `tick` ""quote"" 'q'
""a\\"" ) ,
    trueish ,
    char[ 00]
    // " ++ [128512]%N ++ runes_of_ascii " emoji
    packetx , }
")).
Eval vm_compute in ("<<<M346>>>" ++ check (runes_of_ascii "MetaData
crc	{ char[] Z9_`{ , }`,options } { tag =
    false } packet
// a // b
// @lengthOf(
Pad {Foo @calculatedFrom( // `tick` ""quote"" 'q'
""a\\"" ) ,
    trueish ,
    char[ 00]
    // " ++ [128512]%N ++ runes_of_ascii " emoji
    packetx , }
")).
Eval vm_compute in ("<<<M356>>>" ++ check (runes_of_ascii "MetaData
crc	{ char[] Z9_`{ , }`,} options tag { =
    false } packet
// a // b
// @lengthOf(
Pad {Foo @calculatedFrom( // `tick` ""quote"" 'q'
""a\\"" ) ,
    trueish ,
    char[ 00]
    // " ++ [128512]%N ++ runes_of_ascii " emoji
    packetx , }
")).
Eval vm_compute in ("<<<M366>>>" ++ check (runes_of_ascii "MetaData
crc	{ char[] Z9_`{ , }`,} options { tag false
    = } packet
// a // b
// @lengthOf(
Pad {Foo @calculatedFrom( // `tick` ""quote"" 'q'
""a\\"" ) ,
    trueish ,
    char[ 00]
    // " ++ [128512]%N ++ runes_of_ascii " emoji
    packetx , }
")).
Eval vm_compute in ("<<<M376>>>" ++ check (runes_of_ascii "MetaData
crc	{ char[] Z9_`{ , }`,} options { tag =
    false packet }
// a // b
// @lengthOf(
Pad {Foo @calculatedFrom( // `tick` ""quote"" 'q'
""a\\"" ) ,
    trueish ,
    char[ 00]
    // " ++ [128512]%N ++ runes_of_ascii " emoji
    packetx , }
")).
Eval vm_compute in ("<<<M386>>>" ++ check (runes_of_ascii "MetaData
crc	{ char[] Z9_`{ , }`,} options { tag =
    false } packet
// a // b
// @lengthOf(
{ Pad Foo @calculatedFrom( // `tick` ""quote"" 'q'
""a\\"" ) ,
    trueish ,
    char[ 00]
    // " ++ [128512]%N ++ runes_of_ascii " emoji
    packetx , }
")).
Eval vm_compute in ("<<<M396>>>" ++ check (runes_of_ascii "MetaData
crc	{ char[] Z9_`{ , }`,} options { tag =
    false } packet
// a // b
// @lengthOf(
Pad {@calculatedFrom( Foo // `tick` ""quote"" 'q'
""a\\"" ) ,
    trueish ,
    char[ 00]
    // " ++ [128512]%N ++ runes_of_ascii " emoji
    packetx , }
")).
Eval vm_compute in ("<<<M406>>>" ++ check (runes_of_ascii "MetaData
crc	{ char[] Z9_`{ , }`,} options { tag =
    false } packet
// a // b
// @lengthOf(
Pad {Foo @calculatedFrom( // `tick` ""quote"" 'q'
) ""a\\"" ,
    trueish ,
    char[ 00]
    // " ++ [128512]%N ++ runes_of_ascii " emoji
    packetx , }
")).
Eval vm_compute in ("<<<M416>>>" ++ check (runes_of_ascii "MetaData
crc	{ char[] Z9_`{ , }`,} options { tag =
    false } packet
// a // b
// @lengthOf(
Pad {Foo @calculatedFrom( // `tick` ""quote"" 'q'
""a\\"" ) trueish
    , ,
    char[ 00]
    // " ++ [128512]%N ++ runes_of_ascii " emoji
    packetx , }
")).
Eval vm_compute in ("<<<M426>>>" ++ check (runes_of_ascii "MetaData
crc	{ char[] Z9_`{ , }`,} options { tag =
    false } packet
// a // b
// @lengthOf(
Pad {Foo @calculatedFrom( // `tick` ""quote"" 'q'
""a\\"" ) ,
    trueish char[
    , 00]
    // " ++ [128512]%N ++ runes_of_ascii " emoji
    packetx , }
")).
Eval vm_compute in ("<<<M436>>>" ++ check (runes_of_ascii "MetaData
crc	{ char[] Z9_`{ , }`,} options { tag =
    false } packet
// a // b
// @lengthOf(
Pad {Foo @calculatedFrom( // `tick` ""quote"" 'q'
""a\\"" ) ,
    trueish ,
    char[ ]00
    // " ++ [128512]%N ++ runes_of_ascii " emoji
    packetx , }
")).
Eval vm_compute in ("<<<M446>>>" ++ check (runes_of_ascii "MetaData
crc	{ char[] Z9_`{ , }`,} options { tag =
    false } packet
// a // b
// @lengthOf(
Pad {Foo @calculatedFrom( // `tick` ""quote"" 'q'
""a\\"" ) ,
    trueish ,
    char[ 00]
    // " ++ [128512]%N ++ runes_of_ascii " emoji
    , packetx }
")).
Eval vm_compute in ("<<<M456>>>" ++ check (runes_of_ascii "MetaData
crc	{ char[] Z9_`{ , }`,} options { tag =
    false } packet
// a // b
// @lengthOf(
Pad {Foo @calculatedFrom( // `tick` ""quote"" 'q'
""a\\"" ) ,
    trueish ,
    char[ 00]
    // " ++ [128512]%N ++ runes_of_ascii " emoji
    packetx , root
")).
Eval vm_compute in ("<<<M466>>>" ++ check (runes_of_ascii "MetaData
crc	{ char[] Z9_`{ , }`,} options { tag =
    false } packet
// a // b
// @lengthOf(
Pad {Foo @calculatedFrom( // `tick` ""quote"" 'q'
""a\\"" ) ,
    trueish ,
    char[ 0#0]
    // " ++ [128512]%N ++ runes_of_ascii " emoji
    packetx , }
")).
Eval vm_compute in ("<<<M476>>>" ++ check (runes_of_ascii "MetaData
crc	{ char[] Z9_`{ , }`,} options { tag =
    false } packet
// a // b
// @lengthOf(
Pad {Foo @calculatedFrom( // `tick` ""quote" ++ [127]%N ++ runes_of_ascii """ 'q'
""a\\"" ) ,
    trueish ,
    char[ 00]
    // " ++ [128512]%N ++ runes_of_ascii " emoji
    packetx , }
")).
Eval vm_compute in ("<<<M486>>>" ++ check (runes_of_ascii "root packet _x	{ @rightPad (
' ' ) string u8x @lengthOf(
    _x
) , repeat repeat Pad  { // " ++ [128512]%N ++ runes_of_ascii " emoji
As
// `tick` ""quote"" 'q'
//x
{matchKey chars,
} , }, }")).
Eval vm_compute in ("<<<M496>>>" ++ check (runes_of_ascii "root packet _x	{ @rightPad (
' ' ) string true @lengthOf(
    _x
) , repeat Pad  { // " ++ [128512]%N ++ runes_of_ascii " emoji
As
// `tick` ""quote"" 'q'
//x
{matchKey chars,
} , }, }")).
Eval vm_compute in ("<<<M506>>>" ++ check (runes_of_ascii "root packet _x	{ @rightPad (
' ' ) string string u8x @lengthOf(
    _x
) , repeat Pad  { // " ++ [128512]%N ++ runes_of_ascii " emoji
As
// `tick` ""quote"" 'q'
//x
{matchKey chars,
} , }, }")).
Eval vm_compute in ("<<<M516>>>" ++ check (runes_of_ascii "root packet _x	{ @rightPad (
' ' ) string u8x @lengthOf(
    _x
) , repeat Pad  { // " ++ [128512]%N ++ runes_of_ascii " emoji
As
// `tick` ""quote"" 'q'
//x
{matchKey chars,
}  }, }")).
Eval vm_compute in ("<<<M526>>>" ++ check (runes_of_ascii "root packet _x	{ @rightPad (
' ' ) string u8x @lengthOf(
    _x
) , repeat Pad  { // " ++ [128512]%N ++ runes_of_ascii " emoji
As
// `tick` ""quote"" 'q'
//x
{matchKey chars,
} , },")).
Eval vm_compute in ("<<<M536>>>" ++ check (runes_of_ascii "root packet _x	{ @rightPad (
' ' ) string u8x @lengthOf(
    _x
) , repeat Pad  int8 // " ++ [128512]%N ++ runes_of_ascii " emoji
As
// `tick` ""quote"" 'q'
//x
{matchKey chars,
} , }, }")).
Eval vm_compute in ("<<<M546>>>" ++ check (runes_of_ascii "root packet _x	{ @rightPad (
' ' ) string u8x @lengthOf(
    _x
) , repeat Pad  { // " ++ [128512]%N ++ runes_of_ascii " emoji
As
// `tic@tagk` ""quote"" 'q'
//x
{matchKey chars,
} , }, }")).
Eval vm_compute in ("<<<M556>>>" ++ check (runes_of_ascii "root p'acket _x	{ @rightPad (
' ' ) string u8x @lengthOf(
    _x
) , repeat Pad  { // " ++ [128512]%N ++ runes_of_ascii " emoji
As
// `tick` ""quote"" 'q'
//x
{matchKey chars,
} , }, }")).
Eval vm_compute in ("<<<M566>>>" ++ check (runes_of_ascii "
	 ")).
Eval vm_compute in ("<<<M576>>>" ++ check (runes_of_ascii " " ++ [12]%N ++ runes_of_ascii " ")).
Eval vm_compute in ("<<<M586>>>" ++ check (runes_of_ascii "l8e")).
Eval vm_compute in ("<<<M596>>>" ++ check (runes_of_ascii """" ++ [233]%N ++ runes_of_ascii "t" ++ [233]%N ++ runes_of_ascii """ ""CRC32"" uint32 uint32 char @lengthOf( u64 MetaData @leftPad @rightPad int8")).
