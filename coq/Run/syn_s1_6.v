From FP Require Import Lexer Parser ShowPT Digest.
From Coq Require Import String List NArith.
Import ListNotations.
Open Scope string_scope.
Set Printing Width 100000000.
Set Printing Depth 100000000.
Definition nl : string := String (Ascii.ascii_of_nat 10) EmptyString.
Definition model_lex (rs : list rune) : string := show_toks (lex rs).
Definition model_parse (rs : list rune) : string :=
  show_pt (match lex rs with Some ts => parse ts | None => None end).
(* coqc is slow at printing long strings: digests first (Digest.v), full texts on demand *)
Definition check (rs : list rune) : string :=
  digest (model_lex rs) ++ " " ++ digest (model_parse rs).
Definition full (rs : list rune) : string := model_lex rs ++ nl ++ model_parse rs.
Definition terms (ts : list tok) (t : pt) : string :=
  digest (show_toks (Some ts)) ++ " " ++ digest (show_pt (Some t)) ++ " " ++ digest (show_pt (parse ts)).
Definition terms_full (ts : list tok) (t : pt) : string :=
  show_toks (Some ts) ++ nl ++ show_pt (Some t) ++ nl ++ show_pt (parse ts).
Eval vm_compute in ("<<<M6>>>" ++ check (runes_of_ascii "root	packet
    charz { // " ++ [128512]%N ++ runes_of_ascii " emoji
repeat char[65535
]
options1,} options  { As=
    //
    ""\n""
    } // a // b")).
Eval vm_compute in ("<<<T6>>>" ++ terms [mkTok 34 "root" 1 0 false; mkTok 35 "packet" 1 5 false; mkTok 42 "charz" 2 4 false; mkTok 2 "{" 2 10 false; mkTok 44 (string_of_bytes [47; 47; 32; 240; 159; 152; 128; 32; 101; 109; 111; 106; 105]%N) 2 12 true; mkTok 36 "repeat" 3 0 false; mkTok 12 "char[" 3 7 false; mkTok 30 "65535" 3 12 false; mkTok 13 "]" 4 0 false; mkTok 42 "options1" 5 0 false; mkTok 40 "," 5 8 false; mkTok 3 "}" 5 9 false; mkTok 1 "options" 5 11 false; mkTok 2 "{" 5 20 false; mkTok 42 "As" 5 22 false; mkTok 4 "=" 5 24 false; mkTok 44 "//" 6 4 true; mkTok 31 """\n""" 7 4 false; mkTok 3 "}" 8 4 false; mkTok 44 "// a // b" 8 6 true; mkTok 0 "<EOF>" 8 15 false] (mkPacket (mkPtok 34 "root" 1 0 0) (Some (mkPtok 3 "}" 8 4 18)) [(DPacket (mkPacketDef (mkSpan (mkPtok 34 "root" 1 0 0) (mkPtok 3 "}" 5 9 11)) (Some (mkPtok 34 "root" 1 0 0)) (mkPtok 35 "packet" 1 5 1) (mkPtok 42 "charz" 2 4 2) (mkPtok 2 "{" 2 10 3) [(mkFieldWithAttr (mkSpan (mkPtok 36 "repeat" 3 0 5) (mkPtok 40 "," 5 8 10)) [] (MetaField (mkSpan (mkPtok 36 "repeat" 3 0 5) (mkPtok 40 "," 5 8 10)) (Some (mkPtok 36 "repeat" 3 0 5)) (mkMetaDecl (mkSpan (mkPtok 12 "char[" 3 7 6) (mkPtok 40 "," 5 8 10)) (TyFixed (mkSpan (mkPtok 12 "char[" 3 7 6) (mkPtok 13 "]" 4 0 8)) (mkFixedString (mkSpan (mkPtok 12 "char[" 3 7 6) (mkPtok 13 "]" 4 0 8)) (mkPtok 12 "char[" 3 7 6) (mkPtok 30 "65535" 3 12 7) (mkPtok 13 "]" 4 0 8))) (mkPtok 42 "options1" 5 0 9) None (mkPtok 40 "," 5 8 10))))] (mkPtok 3 "}" 5 9 11))); (DOption (mkOptionDef (mkSpan (mkPtok 1 "options" 5 11 12) (mkPtok 3 "}" 8 4 18)) (mkPtok 1 "options" 5 11 12) (mkPtok 2 "{" 5 20 13) [(mkOptionDecl (mkSpan (mkPtok 42 "As" 5 22 14) (mkPtok 31 """\n""" 7 4 17)) (mkPtok 42 "As" 5 22 14) (mkPtok 4 "=" 5 24 15) (VString (mkSpan (mkPtok 31 """\n""" 7 4 17) (mkPtok 31 """\n""" 7 4 17)) (mkPtok 31 """\n""" 7 4 17)) None)] (mkPtok 3 "}" 8 4 18)))])).
Eval vm_compute in ("<<<M16>>>" ++ check (runes_of_ascii "
")).
Eval vm_compute in ("<<<M26>>>" ++ check (runes_of_ascii "
root packet  calculatedFrom { repeat Header
, } MetaData Header{ zchar[// packet A { u8 x, }
10
]	As
    ,// trailing space 
string
chars, crc Logon `u8 x,`  , Z9_ Logon ,	}packet trueish
    {}
    MetaData
A { }  options { options1
=
' '
    //
    ; //	t
}
")).
Eval vm_compute in ("<<<M36>>>" ++ check (runes_of_ascii "options { body = 42 ;Logon
// @lengthOf(
// " ++ [27880; 37322]%N ++ runes_of_ascii "
=
    '0'
    ; metadata=
""" ++ [128512]%N ++ runes_of_ascii """; Foo =true//
i64_
='\x00'  }
")).
Eval vm_compute in ("<<<M46>>>" ++ check (runes_of_ascii "
MetaData int	{ string f32a//	t
`two words`
, } //")).
Eval vm_compute in ("<<<M56>>>" ++ check (runes_of_ascii "root packet calculatedFrom
{ /// triple
@calculatedFrom( // packet A { u8 x, }
""{,}"" ) match asx
as i8i8 { ""CRC32"" :f32a	,
    ""// no comment""	:Packet
    ,// trailing space 
}
,
    repeat zchar[ 7 ] len , //
match	options1// c
as string_	{""" ++ [128512]%N ++ runes_of_ascii """ : metadata ,	[""\n""
// `tick` ""quote"" 'q'
//
,
    ""CRC32"" , ""a\""b""]
:
// " ++ [128512]%N ++ runes_of_ascii " emoji
// " ++ [128512]%N ++ runes_of_ascii " emoji
x_y_z // " ++ [27880; 37322]%N ++ runes_of_ascii "
, 42
: string_	},@lengthOf(
msg_type) string Pad
// trailing space 
// @lengthOf(
`tab	here` ,
f32a
, match  Logon as stringy { 007
    :
    metadata	, [ 255 , 10 ] : matchKey, [
10 ,""1"",	""`tick`"" , 0]:roots , 255
// @lengthOf(
// c
: o,	[ 1 ]
: msg_type  , 0123456789
: falsey	} , } root packet
crc { }
    options
    { falsey =
false ;len =
""\" ++ [233]%N ++ runes_of_ascii """// " ++ [27880; 37322]%N ++ runes_of_ascii "
;A
=
""a	b""	lengthOf	= ""1""}
")).
Eval vm_compute in ("<<<M66>>>" ++ check (runes_of_ascii "
MetaData x_y_z // c
{char As ,} packet packetx { asx @calculatedFrom( """ ++ [128512]%N ++ runes_of_ascii """
) `a\`, MetaDataX // packet A { u8 x, }
, @leftPad
(
    '0'
)
asx@lengthOf( f32a) `a\` , @lengthOf(	metadata )
match	Packet as lengthOf { [ // `tick` ""quote"" 'q'
""packet"", """ ++ [128512]%N ++ runes_of_ascii """] : // trailing space 
Foo , 0
    :
    crc [
10
, ""CRC32"" ]
:
trueish
//
// " ++ [27880; 37322]%N ++ runes_of_ascii "
,}	, } packet/// triple
lengthOf { @lengthOf( msg_type )
repeat zchar[7 ]  f32a `" ++ [233]%N ++ runes_of_ascii "`,
int64 tag ,  }
")).
Eval vm_compute in ("<<<M76>>>" ++ check (runes_of_ascii "root packet x	{ @calculatedFrom(""a\\"" ) zchar[42 ]float @calculatedFrom(""a\""b""  ) `
` ,
    } MetaData o
    {
int8
BodyLength,string len ,
    string len , float falsey ,T float
    , }	MetaData pack { /// triple
charz o
`// not a comment`	,	float64 f32a `tab	here`  , int32  u8x  `// not a comment` ,char[10 ]
a1
, float32 options1  ,
} // `tick` ""quote"" 'q'")).
Eval vm_compute in ("<<<T76>>>" ++ terms [mkTok 34 "root" 1 0 false; mkTok 35 "packet" 1 5 false; mkTok 42 "x" 1 12 false; mkTok 2 "{" 1 14 false; mkTok 5 "@calculatedFrom(" 1 16 false; mkTok 31 """a\\""" 1 32 false; mkTok 6 ")" 1 38 false; mkTok 14 "zchar[" 1 40 false; mkTok 30 "42" 1 46 false; mkTok 13 "]" 1 49 false; mkTok 42 "float" 1 50 false; mkTok 5 "@calculatedFrom(" 1 56 false; mkTok 31 """a\""b""" 1 72 false; mkTok 6 ")" 1 80 false; mkTok 43 (string_of_bytes [96; 10; 96]%N) 1 82 false; mkTok 40 "," 2 2 false; mkTok 3 "}" 3 4 false; mkTok 37 "MetaData" 3 6 false; mkTok 42 "o" 3 15 false; mkTok 2 "{" 4 4 false; mkTok 24 "int8" 5 0 false; mkTok 42 "BodyLength" 6 0 false; mkTok 40 "," 6 10 false; mkTok 15 "string" 6 11 false; mkTok 42 "len" 6 18 false; mkTok 40 "," 6 22 false; mkTok 15 "string" 7 4 false; mkTok 42 "len" 7 11 false; mkTok 40 "," 7 15 false; mkTok 42 "float" 7 17 false; mkTok 42 "falsey" 7 23 false; mkTok 40 "," 7 30 false; mkTok 42 "T" 7 31 false; mkTok 42 "float" 7 33 false; mkTok 40 "," 8 4 false; mkTok 3 "}" 8 6 false; mkTok 37 "MetaData" 8 8 false; mkTok 42 "pack" 8 17 false; mkTok 2 "{" 8 22 false; mkTok 44 "/// triple" 8 24 true; mkTok 42 "charz" 9 0 false; mkTok 42 "o" 9 6 false; mkTok 43 "`// not a comment`" 10 0 false; mkTok 40 "," 10 19 false; mkTok 29 "float64" 10 21 false; mkTok 42 "f32a" 10 29 false; mkTok 43 (string_of_bytes [96; 116; 97; 98; 9; 104; 101; 114; 101; 96]%N) 10 34 false; mkTok 40 "," 10 46 false; mkTok 26 "int32" 10 48 false; mkTok 42 "u8x" 10 55 false; mkTok 43 "`// not a comment`" 10 60 false; mkTok 40 "," 10 79 false; mkTok 12 "char[" 10 80 false; mkTok 30 "10" 10 85 false; mkTok 13 "]" 10 88 false; mkTok 42 "a1" 11 0 false; mkTok 40 "," 12 0 false; mkTok 28 "float32" 12 2 false; mkTok 42 "options1" 12 10 false; mkTok 40 "," 12 20 false; mkTok 3 "}" 13 0 false; mkTok 44 "// `tick` ""quote"" 'q'" 13 2 true; mkTok 0 "<EOF>" 13 23 false] (mkPacket (mkPtok 34 "root" 1 0 0) (Some (mkPtok 3 "}" 13 0 60)) [(DPacket (mkPacketDef (mkSpan (mkPtok 34 "root" 1 0 0) (mkPtok 3 "}" 3 4 16)) (Some (mkPtok 34 "root" 1 0 0)) (mkPtok 35 "packet" 1 5 1) (mkPtok 42 "x" 1 12 2) (mkPtok 2 "{" 1 14 3) [(mkFieldWithAttr (mkSpan (mkPtok 5 "@calculatedFrom(" 1 16 4) (mkPtok 40 "," 2 2 15)) [(FACalculatedFrom (mkSpan (mkPtok 5 "@calculatedFrom(" 1 16 4) (mkPtok 6 ")" 1 38 6)) (mkCalculatedFrom (mkSpan (mkPtok 5 "@calculatedFrom(" 1 16 4) (mkPtok 6 ")" 1 38 6)) (mkPtok 5 "@calculatedFrom(" 1 16 4) (mkPtok 31 """a\\""" 1 32 5) (mkPtok 6 ")" 1 38 6)))] (CheckSumField (mkSpan (mkPtok 14 "zchar[" 1 40 7) (mkPtok 40 "," 2 2 15)) (mkChecksumFieldDecl (mkSpan (mkPtok 14 "zchar[" 1 40 7) (mkPtok 40 "," 2 2 15)) (Some (TyFixed (mkSpan (mkPtok 14 "zchar[" 1 40 7) (mkPtok 13 "]" 1 49 9)) (mkFixedString (mkSpan (mkPtok 14 "zchar[" 1 40 7) (mkPtok 13 "]" 1 49 9)) (mkPtok 14 "zchar[" 1 40 7) (mkPtok 30 "42" 1 46 8) (mkPtok 13 "]" 1 49 9)))) (mkPtok 42 "float" 1 50 10) (mkCalculatedFrom (mkSpan (mkPtok 5 "@calculatedFrom(" 1 56 11) (mkPtok 6 ")" 1 80 13)) (mkPtok 5 "@calculatedFrom(" 1 56 11) (mkPtok 31 """a\""b""" 1 72 12) (mkPtok 6 ")" 1 80 13)) (Some (mkPtok 43 (string_of_bytes [96; 10; 96]%N) 1 82 14)) (mkPtok 40 "," 2 2 15))))] (mkPtok 3 "}" 3 4 16))); (DMeta (mkMetaDef (mkSpan (mkPtok 37 "MetaData" 3 6 17) (mkPtok 3 "}" 8 6 35)) (mkPtok 37 "MetaData" 3 6 17) (mkPtok 42 "o" 3 15 18) (mkPtok 2 "{" 4 4 19) [(MIDecl (mkMetaDecl (mkSpan (mkPtok 24 "int8" 5 0 20) (mkPtok 40 "," 6 10 22)) (TyBasic (mkSpan (mkPtok 24 "int8" 5 0 20) (mkPtok 24 "int8" 5 0 20)) (mkBasicType (mkSpan (mkPtok 24 "int8" 5 0 20) (mkPtok 24 "int8" 5 0 20)) (mkPtok 24 "int8" 5 0 20))) (mkPtok 42 "BodyLength" 6 0 21) None (mkPtok 40 "," 6 10 22))); (MIDecl (mkMetaDecl (mkSpan (mkPtok 15 "string" 6 11 23) (mkPtok 40 "," 6 22 25)) (TyDynamic (mkSpan (mkPtok 15 "string" 6 11 23) (mkPtok 15 "string" 6 11 23)) (mkDynamicString (mkSpan (mkPtok 15 "string" 6 11 23) (mkPtok 15 "string" 6 11 23)) (mkPtok 15 "string" 6 11 23))) (mkPtok 42 "len" 6 18 24) None (mkPtok 40 "," 6 22 25))); (MIDecl (mkMetaDecl (mkSpan (mkPtok 15 "string" 7 4 26) (mkPtok 40 "," 7 15 28)) (TyDynamic (mkSpan (mkPtok 15 "string" 7 4 26) (mkPtok 15 "string" 7 4 26)) (mkDynamicString (mkSpan (mkPtok 15 "string" 7 4 26) (mkPtok 15 "string" 7 4 26)) (mkPtok 15 "string" 7 4 26))) (mkPtok 42 "len" 7 11 27) None (mkPtok 40 "," 7 15 28))); (MIRef (mkRefMetaDecl (mkSpan (mkPtok 42 "float" 7 17 29) (mkPtok 40 "," 7 30 31)) (mkPtok 42 "float" 7 17 29) (mkPtok 42 "falsey" 7 23 30) None (mkPtok 40 "," 7 30 31))); (MIRef (mkRefMetaDecl (mkSpan (mkPtok 42 "T" 7 31 32) (mkPtok 40 "," 8 4 34)) (mkPtok 42 "T" 7 31 32) (mkPtok 42 "float" 7 33 33) None (mkPtok 40 "," 8 4 34)))] (mkPtok 3 "}" 8 6 35))); (DMeta (mkMetaDef (mkSpan (mkPtok 37 "MetaData" 8 8 36) (mkPtok 3 "}" 13 0 60)) (mkPtok 37 "MetaData" 8 8 36) (mkPtok 42 "pack" 8 17 37) (mkPtok 2 "{" 8 22 38) [(MIRef (mkRefMetaDecl (mkSpan (mkPtok 42 "charz" 9 0 40) (mkPtok 40 "," 10 19 43)) (mkPtok 42 "charz" 9 0 40) (mkPtok 42 "o" 9 6 41) (Some (mkPtok 43 "`// not a comment`" 10 0 42)) (mkPtok 40 "," 10 19 43))); (MIDecl (mkMetaDecl (mkSpan (mkPtok 29 "float64" 10 21 44) (mkPtok 40 "," 10 46 47)) (TyBasic (mkSpan (mkPtok 29 "float64" 10 21 44) (mkPtok 29 "float64" 10 21 44)) (mkBasicType (mkSpan (mkPtok 29 "float64" 10 21 44) (mkPtok 29 "float64" 10 21 44)) (mkPtok 29 "float64" 10 21 44))) (mkPtok 42 "f32a" 10 29 45) (Some (mkPtok 43 (string_of_bytes [96; 116; 97; 98; 9; 104; 101; 114; 101; 96]%N) 10 34 46)) (mkPtok 40 "," 10 46 47))); (MIDecl (mkMetaDecl (mkSpan (mkPtok 26 "int32" 10 48 48) (mkPtok 40 "," 10 79 51)) (TyBasic (mkSpan (mkPtok 26 "int32" 10 48 48) (mkPtok 26 "int32" 10 48 48)) (mkBasicType (mkSpan (mkPtok 26 "int32" 10 48 48) (mkPtok 26 "int32" 10 48 48)) (mkPtok 26 "int32" 10 48 48))) (mkPtok 42 "u8x" 10 55 49) (Some (mkPtok 43 "`// not a comment`" 10 60 50)) (mkPtok 40 "," 10 79 51))); (MIDecl (mkMetaDecl (mkSpan (mkPtok 12 "char[" 10 80 52) (mkPtok 40 "," 12 0 56)) (TyFixed (mkSpan (mkPtok 12 "char[" 10 80 52) (mkPtok 13 "]" 10 88 54)) (mkFixedString (mkSpan (mkPtok 12 "char[" 10 80 52) (mkPtok 13 "]" 10 88 54)) (mkPtok 12 "char[" 10 80 52) (mkPtok 30 "10" 10 85 53) (mkPtok 13 "]" 10 88 54))) (mkPtok 42 "a1" 11 0 55) None (mkPtok 40 "," 12 0 56))); (MIDecl (mkMetaDecl (mkSpan (mkPtok 28 "float32" 12 2 57) (mkPtok 40 "," 12 20 59)) (TyBasic (mkSpan (mkPtok 28 "float32" 12 2 57) (mkPtok 28 "float32" 12 2 57)) (mkBasicType (mkSpan (mkPtok 28 "float32" 12 2 57) (mkPtok 28 "float32" 12 2 57)) (mkPtok 28 "float32" 12 2 57))) (mkPtok 42 "options1" 12 10 58) None (mkPtok 40 "," 12 20 59)))] (mkPtok 3 "}" 13 0 60)))])).
Eval vm_compute in ("<<<M86>>>" ++ check (runes_of_ascii "
")).
Eval vm_compute in ("<<<M96>>>" ++ check (runes_of_ascii "options
    {
    u8x =zchar[ 42 ] ;
roots = """ ++ [233]%N ++ runes_of_ascii "t" ++ [233]%N ++ runes_of_ascii """	; calculatedFrom
= '0' As =
    ""packet"" ; } options	{falsey=  10
    ; A=
// c
// packet A { u8 x, }
'\x00' ; leftPad// c
=	""" ++ [233]%N ++ runes_of_ascii "t" ++ [233]%N ++ runes_of_ascii """
    ;
    crc
//	t
// c
= u16
// `tick` ""quote"" 'q'
// @lengthOf(
;As
= 255 } /// triple")).
Eval vm_compute in ("<<<M106>>>" ++ check (runes_of_ascii "
options {
a1/// triple
=""1""
;
trueish	=  i64 ; stringy=""" ++ [128512]%N ++ runes_of_ascii """
; u8x
= 255 ;
u128
=
""`tick`""; }

")).
Eval vm_compute in ("<<<M116>>>" ++ check (runes_of_ascii "MetaData crc { uint8x float
,}
// @lengthOf(
")).
Eval vm_compute in ("<<<M126>>>" ++ check (runes_of_ascii "root
    packet stringy{ // trailing space 
@calculatedFrom(
""" ++ [28040; 24687]%N ++ runes_of_ascii """ ) repeat
Foo {float64	i64_
    @lengthOf(Z9_ ),	}
    ,	repeat // `tick` ""quote"" 'q'
lengthOf {
falsey
    { uint16 len//x
,	} , Packet uint8x `a\`,} , @calculatedFrom(""" ++ [128512]%N ++ runes_of_ascii """)  string MetaDataX	`" ++ [233]%N ++ runes_of_ascii "`  ,} packet
chars { @leftPad ( '0'
    )i64 trueish
@lengthOf( Z9_  )
    ,
}
")).
Eval vm_compute in ("<<<M136>>>" ++ check (runes_of_ascii "  packet x_y_z	{ @tag( // c
00
//x
// packet A { u8 x, }
)
@tag(// " ++ [27880; 37322]%N ++ runes_of_ascii "
7 ) @leftPad ( ) int16 _x @lengthOf( u ) `it's` // `tick` ""quote"" 'q'
, }
")).
Eval vm_compute in ("<<<M146>>>" ++ check (runes_of_ascii "packet Logon {
    stringy
crc	`crlf
line`
, T
@calculatedFrom( ""a\""b""
    ) // packet A { u8 x, }
`u8 x,` // " ++ [27880; 37322]%N ++ runes_of_ascii "
, }  options {	leftPad =  '\x00'}
")).
Eval vm_compute in ("<<<T146>>>" ++ terms [mkTok 35 "packet" 1 0 false; mkTok 42 "Logon" 1 7 false; mkTok 2 "{" 1 13 false; mkTok 42 "stringy" 2 4 false; mkTok 42 "crc" 3 0 false; mkTok 43 (string_of_bytes [96; 99; 114; 108; 102; 13; 10; 108; 105; 110; 101; 96]%N) 3 4 false; mkTok 40 "," 5 0 false; mkTok 42 "T" 5 2 false; mkTok 5 "@calculatedFrom(" 6 0 false; mkTok 31 """a\""b""" 6 17 false; mkTok 6 ")" 7 4 false; mkTok 44 "// packet A { u8 x, }" 7 6 true; mkTok 43 "`u8 x,`" 8 0 false; mkTok 44 (string_of_bytes [47; 47; 32; 230; 179; 168; 233; 135; 138]%N) 8 8 true; mkTok 40 "," 9 0 false; mkTok 3 "}" 9 2 false; mkTok 1 "options" 9 5 false; mkTok 2 "{" 9 13 false; mkTok 42 "leftPad" 9 15 false; mkTok 4 "=" 9 23 false; mkTok 33 "'\x00'" 9 26 false; mkTok 3 "}" 9 32 false; mkTok 0 "<EOF>" 10 0 false] (mkPacket (mkPtok 35 "packet" 1 0 0) (Some (mkPtok 3 "}" 9 32 21)) [(DPacket (mkPacketDef (mkSpan (mkPtok 35 "packet" 1 0 0) (mkPtok 3 "}" 9 2 15)) None (mkPtok 35 "packet" 1 0 0) (mkPtok 42 "Logon" 1 7 1) (mkPtok 2 "{" 1 13 2) [(mkFieldWithAttr (mkSpan (mkPtok 42 "stringy" 2 4 3) (mkPtok 40 "," 5 0 6)) [] (ObjectField (mkSpan (mkPtok 42 "stringy" 2 4 3) (mkPtok 40 "," 5 0 6)) None (mkPtok 42 "stringy" 2 4 3) (Some (mkPtok 42 "crc" 3 0 4)) (Some (mkPtok 43 (string_of_bytes [96; 99; 114; 108; 102; 13; 10; 108; 105; 110; 101; 96]%N) 3 4 5)) (mkPtok 40 "," 5 0 6))); (mkFieldWithAttr (mkSpan (mkPtok 42 "T" 5 2 7) (mkPtok 40 "," 9 0 14)) [] (CheckSumField (mkSpan (mkPtok 42 "T" 5 2 7) (mkPtok 40 "," 9 0 14)) (mkChecksumFieldDecl (mkSpan (mkPtok 42 "T" 5 2 7) (mkPtok 40 "," 9 0 14)) None (mkPtok 42 "T" 5 2 7) (mkCalculatedFrom (mkSpan (mkPtok 5 "@calculatedFrom(" 6 0 8) (mkPtok 6 ")" 7 4 10)) (mkPtok 5 "@calculatedFrom(" 6 0 8) (mkPtok 31 """a\""b""" 6 17 9) (mkPtok 6 ")" 7 4 10)) (Some (mkPtok 43 "`u8 x,`" 8 0 12)) (mkPtok 40 "," 9 0 14))))] (mkPtok 3 "}" 9 2 15))); (DOption (mkOptionDef (mkSpan (mkPtok 1 "options" 9 5 16) (mkPtok 3 "}" 9 32 21)) (mkPtok 1 "options" 9 5 16) (mkPtok 2 "{" 9 13 17) [(mkOptionDecl (mkSpan (mkPtok 42 "leftPad" 9 15 18) (mkPtok 33 "'\x00'" 9 26 20)) (mkPtok 42 "leftPad" 9 15 18) (mkPtok 4 "=" 9 23 19) (VPaddingChar (mkSpan (mkPtok 33 "'\x00'" 9 26 20) (mkPtok 33 "'\x00'" 9 26 20)) (mkPtok 33 "'\x00'" 9 26 20)) None)] (mkPtok 3 "}" 9 32 21)))])).
Eval vm_compute in ("<<<M156>>>" ++ check (runes_of_ascii "packet	crc
    { }")).
Eval vm_compute in ("<<<M166>>>" ++ check (runes_of_ascii "MetaData MetaDataX
    { i8i8 roots
,	zchar[	65535
    ]rootA
`// not a comment`, // a // b
x_y_z  leftPad
    //x
    `u8 x,`, char[] stringy
// c
//x
`it's` ,
} // packet A { u8 x, }
packet
    Foo {
string	lengthOf , i32 packetx@lengthOf( asx ) `{ , }`
    ,
repeat falsey`two words`, char[] roots@calculatedFrom(""" ++ [28040; 24687]%N ++ runes_of_ascii """ // " ++ [128512]%N ++ runes_of_ascii " emoji
), //
leftPad// @lengthOf(
@calculatedFrom( """ ++ [28040; 24687]%N ++ runes_of_ascii """ )`" ++ [233]%N ++ runes_of_ascii "` ,
    @tag( 42
)
zchar[
65535 ]
    As @lengthOf( a1
)
`doc`
, } root packet charz{
    @tag(
    4294967296
) string options1
    `tab	here`
    // @lengthOf(
    , }packet leftPad	{ } packet metadata { //	t
i32	BodyLength
    @calculatedFrom(
    ""it's"" ) `say ""hi""`,
@rightPad //
(	)
    // " ++ [128512]%N ++ runes_of_ascii " emoji
    chars//x
{
repeat
    falsey	{ uint64 tag @lengthOf(
len )
, char[ 42]packetx @calculatedFrom(
//x
// a // b
""abc"" )
, } , Header { zchar[ 00 //x
] charz
@calculatedFrom( ""x y"" ) // trailing space 
, uint8 calculatedFrom @calculatedFrom( ""\n"" // c
) , trueish `" ++ [28040; 24687; 31867; 22411]%N ++ runes_of_ascii "` , string_ // @lengthOf(
@calculatedFrom( ""// no comment"" ) // c
`it's` ,} , string crc ,
}  , // " ++ [128512]%N ++ runes_of_ascii " emoji
@calculatedFrom( ""1"" )
    @calculatedFrom(	""" ++ [28040; 24687]%N ++ runes_of_ascii """
    // " ++ [27880; 37322]%N ++ runes_of_ascii "
    ) @tag(7
// trailing space 
//
) i8
Foo
// @lengthOf(
// a // b
, i8 a1
//
//x
@calculatedFrom( ""{,}"" ) ``
, repeat falsey	{
o // c
@calculatedFrom( ""abc"" ) `
`  , zchar[42 ] matchKey , }	, i64 As ,
//	t
// `tick` ""quote"" 'q'
repeat As  , repeat
    int64 string_
, }
//	t
")).
Eval vm_compute in ("<<<M176>>>" ++ check (runes_of_ascii "packet
body { // @lengthOf(
}")).
Eval vm_compute in ("<<<M186>>>" ++ check (runes_of_ascii "  
")).
Eval vm_compute in ("<<<M196>>>" ++ check (runes_of_ascii "MetaData  msg_type	{ Packet
// @lengthOf(
// trailing space 
int , char[3 ] Foo`// not a comment`
    // `tick` ""quote"" 'q'
    ,
zchar[ 7
    ]
uint8x,
leftPad crc `
`, }")).
Eval vm_compute in ("<<<M206>>>" ++ check (runes_of_ascii "
root packet
    tag { f64
len ,
char[
    4294967296 ] A@calculatedFrom( """"  )`it's`, @tag( 65535
    )
match charz// a // b
as tag	{
    [ ""// no comment"" , """ ++ [128512]%N ++ runes_of_ascii """ ]:
zchar	,
    ""\n"":falsey  , },} packet float {f32a { repeat  packetx{
    //x
    char[ 255 ] int `it's`  ,} , uint32 x_y_z @lengthOf( pack ) // " ++ [27880; 37322]%N ++ runes_of_ascii "
,}, } // `tick` ""quote"" 'q'")).
Eval vm_compute in ("<<<M216>>>" ++ check (runes_of_ascii "
")).
Eval vm_compute in ("<<<T216>>>" ++ terms [mkTok 0 "<EOF>" 2 0 false] (mkPacket (mkPtok 0 "<EOF>" 2 0 0) None [])).
Eval vm_compute in ("<<<M226>>>" ++ check (runes_of_ascii "options{ // " ++ [128512]%N ++ runes_of_ascii " emoji
x =i8 BodyLength	=	'\x00'	;
options1 // a // b
=// c
zchar[
    42] ; msg_type = ""a	b""  x_y_z =// a // b
int64
; } //x
options
{ pack =
""a\\""matchKey  =
    true Packet =""abc"" //	t
falsey =
'\x00'
; }  root packet charz { body
    `doc` , } // c")).
Eval vm_compute in ("<<<M236>>>" ++ check (runes_of_ascii "
root packet
rootA { } root packet
// a // b
// trailing space 
_x // " ++ [27880; 37322]%N ++ runes_of_ascii "
{
    i64_, // a // b
} MetaData options1{ // `tick` ""quote"" 'q'
a1 float `crlf
line`
,
    u8x
falsey // " ++ [128512]%N ++ runes_of_ascii " emoji
`" ++ [233]%N ++ runes_of_ascii "`,
f32a MetaDataX,int64 u8x, } packet f32a {}
")).
Eval vm_compute in ("<<<M246>>>" ++ check (runes_of_ascii "packet Foo //	t
{ match
    // a // b
    i64_ //x
as
x_y_z {65535:  BodyLength
,
[3, ""CRC32"" ]
:u
, 255:
T ,[ ""x y""]	:leftPad ,0123456789: As ,
    } ,
    zchar[	1
    ]int
, } packet
float
    { uint16
Packet	,}")).
Eval vm_compute in ("<<<M256>>>" ++ check (runes_of_ascii "packet // c
Z9_ {
As
    x
, @rightPad ( ' ') @lengthOf( Header) @rightPad(  ' '
)match u as  string_{ ""a	b""
    : Pad
    // trailing space 
    ,1: T , [ """" , 255, ""abc""
, 7
    //	t
    ] :
BodyLength ,  },match falsey
as  metadata{ 42: float ,
    // `tick` ""quote"" 'q'
    } , match lengthOf
as As {1
:
As, [	"""" ,	""a\\"" ,
""{,}"" , ""it's"" ,
    //
    42,""a\\"" , 0 // trailing space 
, 3  ]  : f32a, } , // packet A { u8 x, }
repeat float64 roots ,	}
")).
Eval vm_compute in ("<<<M266>>>" ++ check (runes_of_ascii "packet
Pad // " ++ [27880; 37322]%N ++ runes_of_ascii "
{ @tag(	65535 )repeat char[
    //	t
    4294967296 ] o
    `u8 x,`  ,
@calculatedFrom(""x y"" )
metadata // c
@lengthOf(repeatCount )`tab	here`	,} packet u128 {
// packet A { u8 x, }
// " ++ [128512]%N ++ runes_of_ascii " emoji
repeat // " ++ [128512]%N ++ runes_of_ascii " emoji
zchar[
10 ]_x// " ++ [27880; 37322]%N ++ runes_of_ascii "
, /// triple
}
options
{ /// triple
msg_type
= true ;}packet tag {// c
@tag(7 ) i32
f32a @lengthOf( u8x)
`two words`
,
string
Foo  @lengthOf( Foo ) ,
@rightPad(
'0' ) match As as
// @lengthOf(
// `tick` ""quote"" 'q'
crc // a // b
{"""": float , //	t
} , repeat i16 i8i8 , @rightPad/// triple
(
    '0' ) repeat u128
    { i64 tag
@calculatedFrom( """ ++ [28040; 24687]%N ++ runes_of_ascii """ ) ,i8i8
@calculatedFrom( // " ++ [27880; 37322]%N ++ runes_of_ascii "
""{,}""
)`it's` , repeat string
    rootA /// triple
, }, repeat string
chars,
    asx, match calculatedFrom as
calculatedFrom {
    ""a\""b"" :  Logon ""a	b"" : asx } , char zchar @calculatedFrom( ""1""
    )
    `say ""hi""`
    ,  }
")).
Eval vm_compute in ("<<<M276>>>" ++ check (runes_of_ascii "
")).
Eval vm_compute in ("<<<M286>>>" ++ check (runes_of_ascii "packet len
{  @calculatedFrom( ""`tick`"" )	repeat zchar[ 00
    ]chars //	t
`a\`
    ,
u8x
// trailing space 
// a // b
MetaDataX `line1
line2`
    // c
    ,@calculatedFrom( ""a\""b"" ) match
    matchKey as asx {
    [ ""CRC32"" , ""a\""b""
]// " ++ [27880; 37322]%N ++ runes_of_ascii "
:
msg_type
    ,
    }
, i8 string_ @calculatedFrom( ""{,}"" )
    ,@lengthOf(
lengthOf
    //
    ) zchar[42 ]
    _x
// packet A { u8 x, }
/// triple
`line1
line2` ,
    @lengthOf( asx) repeat// `tick` ""quote"" 'q'
int8 Header , repeat crc {
int8 i64_//x
@calculatedFrom( ""{,}"" ) , } ,repeat _x i8i8 `line1
line2` , float64// trailing space 
stringy , MetaDataX { charz
    { int16 matchKey, repeat
    i64_,
    char[ 00] Z9_ `
` ,
    match As
    //x
    as Packet { 3 : crc , [
//	t
// @lengthOf(
1 ,
00
]: Header // " ++ [27880; 37322]%N ++ runes_of_ascii "
,	255 :_x , 42 : body
,	[0	] : chars
    [ 4294967296
, 65535 ] :chars , }
/// triple
// @lengthOf(
,  }
// trailing space 
// @lengthOf(
, } , } MetaData falsey {
char[
255
] u128 , u8 Header`tab	here`
,
string float ,} root packet int { Logon i64_  ,
    @calculatedFrom(
""1""
) zchar { u {
    zchar[
255 ] Pad , } , stringy {
    Pad metadata `u8 x,` ,
}	, repeat	string i8i8, char[]
    As@calculatedFrom(
""\n"" ) ,}
    // " ++ [27880; 37322]%N ++ runes_of_ascii "
    , @lengthOf( packetx // a // b
) @lengthOf(
    i64_ ) body `line1
line2`,@lengthOf(roots)match
// `tick` ""quote"" 'q'
// trailing space 
MetaDataX as uint8x { // `tick` ""quote"" 'q'
[	007
/// triple
// " ++ [27880; 37322]%N ++ runes_of_ascii "
, //x
255
    ,
00]
    :	body// c
, [ 65535 , ""1"",// `tick` ""quote"" 'q'
1  ,
""\n""//	t
, 1	,
    ""CRC32""
    ,
    //	t
    0
    ] :trueish
,
} , uint64 Foo
, zchar {metadata
@lengthOf(Pad)//	t
`crlf
line` ,
    match u as charz { 65535 :
    //x
    int
[ ""1""]
:
// c
//
a1 , [4294967296 , 00,""" ++ [233]%N ++ runes_of_ascii "t" ++ [233]%N ++ runes_of_ascii """ , """ ++ [28040; 24687]%N ++ runes_of_ascii """ ,
    00 ]: matchKey , [ ""a\\"" ] : Logon ,
    },
repeat rootA { int16
Foo @lengthOf( rootA // " ++ [27880; 37322]%N ++ runes_of_ascii "
),options1 `u8 x,` // trailing space 
, }	,  },  match chars as u
// " ++ [128512]%N ++ runes_of_ascii " emoji
// " ++ [128512]%N ++ runes_of_ascii " emoji
{ [//
""it's"" , 007	, """ ++ [233]%N ++ runes_of_ascii "t" ++ [233]%N ++ runes_of_ascii """, ""abc"" ,""\n"" ,
// " ++ [128512]%N ++ runes_of_ascii " emoji
// " ++ [27880; 37322]%N ++ runes_of_ascii "
"""" // c
] :	repeatCount,
65535
    // " ++ [128512]%N ++ runes_of_ascii " emoji
    :Z9_
, [ 007  , ""abc"",""// no comment""
, """ ++ [28040; 24687]%N ++ runes_of_ascii """ ] :  falsey ,
00
:
    string_}
,  char repeatCount , } packet Foo {char[]
a1 @calculatedFrom( """")`line1
line2`
, uint16 // a // b
MetaDataX
    // packet A { u8 x, }
    `say ""hi""`,char[] A ,
// trailing space 
// " ++ [128512]%N ++ runes_of_ascii " emoji
f64 int @lengthOf(Pad  ) , u32
    BodyLength
, float64
trueish @lengthOf(lengthOf )
// `tick` ""quote"" 'q'
// trailing space 
`crlf
line` , @tag(255 ) match Z9_ as tag { [ ""a\""b"",4294967296  ,  ""{,}"" ,""{,}""/// triple
] :	Pad	, 1 : lengthOf ,	0123456789 : msg_type  , ""// no comment"":
    BodyLength, [ ""1"" ] : string_ [3 , 0,1 , 1
, ""\" ++ [233]%N ++ runes_of_ascii """ // " ++ [27880; 37322]%N ++ runes_of_ascii "
,
    """"
    , 00
    // c
    ] // c
: asx} , body `say ""hi""`// `tick` ""quote"" 'q'
,	}options { x	='0'
; u8x // " ++ [128512]%N ++ runes_of_ascii " emoji
= u64;
// c
//	t
string_ = ""a\""b"" }
")).
Eval vm_compute in ("<<<T286>>>" ++ terms [mkTok 35 "packet" 1 0 false; mkTok 42 "len" 1 7 false; mkTok 2 "{" 2 0 false; mkTok 5 "@calculatedFrom(" 2 3 false; mkTok 31 """`tick`""" 2 20 false; mkTok 6 ")" 2 29 false; mkTok 36 "repeat" 2 31 false; mkTok 14 "zchar[" 2 38 false; mkTok 30 "00" 2 45 false; mkTok 13 "]" 3 4 false; mkTok 42 "chars" 3 5 false; mkTok 44 (string_of_bytes [47; 47; 9; 116]%N) 3 11 true; mkTok 43 "`a\`" 4 0 false; mkTok 40 "," 5 4 false; mkTok 42 "u8x" 6 0 false; mkTok 44 "// trailing space " 7 0 true; mkTok 44 "// a // b" 8 0 true; mkTok 42 "MetaDataX" 9 0 false; mkTok 43 (string_of_bytes [96; 108; 105; 110; 101; 49; 10; 108; 105; 110; 101; 50; 96]%N) 9 10 false; mkTok 44 "// c" 11 4 true; mkTok 40 "," 12 4 false; mkTok 5 "@calculatedFrom(" 12 5 false; mkTok 31 """a\""b""" 12 22 false; mkTok 6 ")" 12 29 false; mkTok 38 "match" 12 31 false; mkTok 42 "matchKey" 13 4 false; mkTok 17 "as" 13 13 false; mkTok 42 "asx" 13 16 false; mkTok 2 "{" 13 20 false; mkTok 18 "[" 14 4 false; mkTok 31 """CRC32""" 14 6 false; mkTok 40 "," 14 14 false; mkTok 31 """a\""b""" 14 16 false; mkTok 13 "]" 15 0 false; mkTok 44 (string_of_bytes [47; 47; 32; 230; 179; 168; 233; 135; 138]%N) 15 1 true; mkTok 39 ":" 16 0 false; mkTok 42 "msg_type" 17 0 false; mkTok 40 "," 18 4 false; mkTok 3 "}" 19 4 false; mkTok 40 "," 20 0 false; mkTok 24 "i8" 20 2 false; mkTok 42 "string_" 20 5 false; mkTok 5 "@calculatedFrom(" 20 13 false; mkTok 31 """{,}""" 20 30 false; mkTok 6 ")" 20 36 false; mkTok 40 "," 21 4 false; mkTok 7 "@lengthOf(" 21 5 false; mkTok 42 "lengthOf" 22 0 false; mkTok 44 "//" 23 4 true; mkTok 6 ")" 24 4 false; mkTok 14 "zchar[" 24 6 false; mkTok 30 "42" 24 12 false; mkTok 13 "]" 24 15 false; mkTok 42 "_x" 25 4 false; mkTok 44 "// packet A { u8 x, }" 26 0 true; mkTok 44 "/// triple" 27 0 true; mkTok 43 (string_of_bytes [96; 108; 105; 110; 101; 49; 10; 108; 105; 110; 101; 50; 96]%N) 28 0 false; mkTok 40 "," 29 7 false; mkTok 7 "@lengthOf(" 30 4 false; mkTok 42 "asx" 30 15 false; mkTok 6 ")" 30 18 false; mkTok 36 "repeat" 30 20 false; mkTok 44 "// `tick` ""quote"" 'q'" 30 26 true; mkTok 24 "int8" 31 0 false; mkTok 42 "Header" 31 5 false; mkTok 40 "," 31 12 false; mkTok 36 "repeat" 31 14 false; mkTok 42 "crc" 31 21 false; mkTok 2 "{" 31 25 false; mkTok 24 "int8" 32 0 false; mkTok 42 "i64_" 32 5 false; mkTok 44 "//x" 32 9 true; mkTok 5 "@calculatedFrom(" 33 0 false; mkTok 31 """{,}""" 33 17 false; mkTok 6 ")" 33 23 false; mkTok 40 "," 33 25 false; mkTok 3 "}" 33 27 false; mkTok 40 "," 33 29 false; mkTok 36 "repeat" 33 30 false; mkTok 42 "_x" 33 37 false; mkTok 42 "i8i8" 33 40 false; mkTok 43 (string_of_bytes [96; 108; 105; 110; 101; 49; 10; 108; 105; 110; 101; 50; 96]%N) 33 45 false; mkTok 40 "," 34 7 false; mkTok 29 "float64" 34 9 false; mkTok 44 "// trailing space " 34 16 true; mkTok 42 "stringy" 35 0 false; mkTok 40 "," 35 8 false; mkTok 42 "MetaDataX" 35 10 false; mkTok 2 "{" 35 20 false; mkTok 42 "charz" 35 22 false; mkTok 2 "{" 36 4 false; mkTok 25 "int16" 36 6 false; mkTok 42 "matchKey" 36 12 false; mkTok 40 "," 36 20 false; mkTok 36 "repeat" 36 22 false; mkTok 42 "i64_" 37 4 false; mkTok 40 "," 37 8 false; mkTok 12 "char[" 38 4 false; mkTok 30 "00" 38 10 false; mkTok 13 "]" 38 12 false; mkTok 42 "Z9_" 38 14 false; mkTok 43 (string_of_bytes [96; 10; 96]%N) 38 18 false; mkTok 40 "," 39 2 false; mkTok 38 "match" 40 4 false; mkTok 42 "As" 40 10 false; mkTok 44 "//x" 41 4 true; mkTok 17 "as" 42 4 false; mkTok 42 "Packet" 42 7 false; mkTok 2 "{" 42 14 false; mkTok 30 "3" 42 16 false; mkTok 39 ":" 42 18 false; mkTok 42 "crc" 42 20 false; mkTok 40 "," 42 24 false; mkTok 18 "[" 42 26 false; mkTok 44 (string_of_bytes [47; 47; 9; 116]%N) 43 0 true; mkTok 44 "// @lengthOf(" 44 0 true; mkTok 30 "1" 45 0 false; mkTok 40 "," 45 2 false; mkTok 30 "00" 46 0 false; mkTok 13 "]" 47 0 false; mkTok 39 ":" 47 1 false; mkTok 42 "Header" 47 3 false; mkTok 44 (string_of_bytes [47; 47; 32; 230; 179; 168; 233; 135; 138]%N) 47 10 true; mkTok 40 "," 48 0 false; mkTok 30 "255" 48 2 false; mkTok 39 ":" 48 6 false; mkTok 42 "_x" 48 7 false; mkTok 40 "," 48 10 false; mkTok 30 "42" 48 12 false; mkTok 39 ":" 48 15 false; mkTok 42 "body" 48 17 false; mkTok 40 "," 49 0 false; mkTok 18 "[" 49 2 false; mkTok 30 "0" 49 3 false; mkTok 13 "]" 49 5 false; mkTok 39 ":" 49 7 false; mkTok 42 "chars" 49 9 false; mkTok 18 "[" 50 4 false; mkTok 30 "4294967296" 50 6 false; mkTok 40 "," 51 0 false; mkTok 30 "65535" 51 2 false; mkTok 13 "]" 51 8 false; mkTok 39 ":" 51 10 false; mkTok 42 "chars" 51 11 false; mkTok 40 "," 51 17 false; mkTok 3 "}" 51 19 false; mkTok 44 "/// triple" 52 0 true; mkTok 44 "// @lengthOf(" 53 0 true; mkTok 40 "," 54 0 false; mkTok 3 "}" 54 3 false; mkTok 44 "// trailing space " 55 0 true; mkTok 44 "// @lengthOf(" 56 0 true; mkTok 40 "," 57 0 false; mkTok 3 "}" 57 2 false; mkTok 40 "," 57 4 false; mkTok 3 "}" 57 6 false; mkTok 37 "MetaData" 57 8 false; mkTok 42 "falsey" 57 17 false; mkTok 2 "{" 57 24 false; mkTok 12 "char[" 58 0 false; mkTok 30 "255" 59 0 false; mkTok 13 "]" 60 0 false; mkTok 42 "u128" 60 2 false; mkTok 40 "," 60 7 false; mkTok 20 "u8" 60 9 false; mkTok 42 "Header" 60 12 false; mkTok 43 (string_of_bytes [96; 116; 97; 98; 9; 104; 101; 114; 101; 96]%N) 60 18 false; mkTok 40 "," 61 0 false; mkTok 15 "string" 62 0 false; mkTok 42 "float" 62 7 false; mkTok 40 "," 62 13 false; mkTok 3 "}" 62 14 false; mkTok 34 "root" 62 16 false; mkTok 35 "packet" 62 21 false; mkTok 42 "int" 62 28 false; mkTok 2 "{" 62 32 false; mkTok 42 "Logon" 62 34 false; mkTok 42 "i64_" 62 40 false; mkTok 40 "," 62 46 false; mkTok 5 "@calculatedFrom(" 63 4 false; mkTok 31 """1""" 64 0 false; mkTok 6 ")" 65 0 false; mkTok 42 "zchar" 65 2 false; mkTok 2 "{" 65 8 false; mkTok 42 "u" 65 10 false; mkTok 2 "{" 65 12 false; mkTok 14 "zchar[" 66 4 false; mkTok 30 "255" 67 0 false; mkTok 13 "]" 67 4 false; mkTok 42 "Pad" 67 6 false; mkTok 40 "," 67 10 false; mkTok 3 "}" 67 12 false; mkTok 40 "," 67 14 false; mkTok 42 "stringy" 67 16 false; mkTok 2 "{" 67 24 false; mkTok 42 "Pad" 68 4 false; mkTok 42 "metadata" 68 8 false; mkTok 43 "`u8 x,`" 68 17 false; mkTok 40 "," 68 25 false; mkTok 3 "}" 69 0 false; mkTok 40 "," 69 2 false; mkTok 36 "repeat" 69 4 false; mkTok 15 "string" 69 11 false; mkTok 42 "i8i8" 69 18 false; mkTok 40 "," 69 22 false; mkTok 16 "char[]" 69 24 false; mkTok 42 "As" 70 4 false; mkTok 5 "@calculatedFrom(" 70 6 false; mkTok 31 """\n""" 71 0 false; mkTok 6 ")" 71 5 false; mkTok 40 "," 71 7 false; mkTok 3 "}" 71 8 false; mkTok 44 (string_of_bytes [47; 47; 32; 230; 179; 168; 233; 135; 138]%N) 72 4 true; mkTok 40 "," 73 4 false; mkTok 7 "@lengthOf(" 73 6 false; mkTok 42 "packetx" 73 17 false; mkTok 44 "// a // b" 73 25 true; mkTok 6 ")" 74 0 false; mkTok 7 "@lengthOf(" 74 2 false; mkTok 42 "i64_" 75 4 false; mkTok 6 ")" 75 9 false; mkTok 42 "body" 75 11 false; mkTok 43 (string_of_bytes [96; 108; 105; 110; 101; 49; 10; 108; 105; 110; 101; 50; 96]%N) 75 16 false; mkTok 40 "," 76 6 false; mkTok 7 "@lengthOf(" 76 7 false; mkTok 42 "roots" 76 17 false; mkTok 6 ")" 76 22 false; mkTok 38 "match" 76 23 false; mkTok 44 "// `tick` ""quote"" 'q'" 77 0 true; mkTok 44 "// trailing space " 78 0 true; mkTok 42 "MetaDataX" 79 0 false; mkTok 17 "as" 79 10 false; mkTok 42 "uint8x" 79 13 false; mkTok 2 "{" 79 20 false; mkTok 44 "// `tick` ""quote"" 'q'" 79 22 true; mkTok 18 "[" 80 0 false; mkTok 30 "007" 80 2 false; mkTok 44 "/// triple" 81 0 true; mkTok 44 (string_of_bytes [47; 47; 32; 230; 179; 168; 233; 135; 138]%N) 82 0 true; mkTok 40 "," 83 0 false; mkTok 44 "//x" 83 2 true; mkTok 30 "255" 84 0 false; mkTok 40 "," 85 4 false; mkTok 30 "00" 86 0 false; mkTok 13 "]" 86 2 false; mkTok 39 ":" 87 4 false; mkTok 42 "body" 87 6 false; mkTok 44 "// c" 87 10 true; mkTok 40 "," 88 0 false; mkTok 18 "[" 88 2 false; mkTok 30 "65535" 88 4 false; mkTok 40 "," 88 10 false; mkTok 31 """1""" 88 12 false; mkTok 40 "," 88 15 false; mkTok 44 "// `tick` ""quote"" 'q'" 88 16 true; mkTok 30 "1" 89 0 false; mkTok 40 "," 89 3 false; mkTok 31 """\n""" 90 0 false; mkTok 44 (string_of_bytes [47; 47; 9; 116]%N) 90 4 true; mkTok 40 "," 91 0 false; mkTok 30 "1" 91 2 false; mkTok 40 "," 91 4 false; mkTok 31 """CRC32""" 92 4 false; mkTok 40 "," 93 4 false; mkTok 44 (string_of_bytes [47; 47; 9; 116]%N) 94 4 true; mkTok 30 "0" 95 4 false; mkTok 13 "]" 96 4 false; mkTok 39 ":" 96 6 false; mkTok 42 "trueish" 96 7 false; mkTok 40 "," 97 0 false; mkTok 3 "}" 98 0 false; mkTok 40 "," 98 2 false; mkTok 23 "uint64" 98 4 false; mkTok 42 "Foo" 98 11 false; mkTok 40 "," 99 0 false; mkTok 42 "zchar" 99 2 false; mkTok 2 "{" 99 8 false; mkTok 42 "metadata" 99 9 false; mkTok 7 "@lengthOf(" 100 0 false; mkTok 42 "Pad" 100 10 false; mkTok 6 ")" 100 13 false; mkTok 44 (string_of_bytes [47; 47; 9; 116]%N) 100 14 true; mkTok 43 (string_of_bytes [96; 99; 114; 108; 102; 13; 10; 108; 105; 110; 101; 96]%N) 101 0 false; mkTok 40 "," 102 6 false; mkTok 38 "match" 103 4 false; mkTok 42 "u" 103 10 false; mkTok 17 "as" 103 12 false; mkTok 42 "charz" 103 15 false; mkTok 2 "{" 103 21 false; mkTok 30 "65535" 103 23 false; mkTok 39 ":" 103 29 false; mkTok 44 "//x" 104 4 true; mkTok 42 "int" 105 4 false; mkTok 18 "[" 106 0 false; mkTok 31 """1""" 106 2 false; mkTok 13 "]" 106 5 false; mkTok 39 ":" 107 0 false; mkTok 44 "// c" 108 0 true; mkTok 44 "//" 109 0 true; mkTok 42 "a1" 110 0 false; mkTok 40 "," 110 3 false; mkTok 18 "[" 110 5 false; mkTok 30 "4294967296" 110 6 false; mkTok 40 "," 110 17 false; mkTok 30 "00" 110 19 false; mkTok 40 "," 110 21 false; mkTok 31 (string_of_bytes [34; 195; 169; 116; 195; 169; 34]%N) 110 22 false; mkTok 40 "," 110 28 false; mkTok 31 (string_of_bytes [34; 230; 182; 136; 230; 129; 175; 34]%N) 110 30 false; mkTok 40 "," 110 35 false; mkTok 30 "00" 111 4 false; mkTok 13 "]" 111 7 false; mkTok 39 ":" 111 8 false; mkTok 42 "matchKey" 111 10 false; mkTok 40 "," 111 19 false; mkTok 18 "[" 111 21 false; mkTok 31 """a\\""" 111 23 false; mkTok 13 "]" 111 29 false; mkTok 39 ":" 111 31 false; mkTok 42 "Logon" 111 33 false; mkTok 40 "," 111 39 false; mkTok 3 "}" 112 4 false; mkTok 40 "," 112 5 false; mkTok 36 "repeat" 113 0 false; mkTok 42 "rootA" 113 7 false; mkTok 2 "{" 113 13 false; mkTok 25 "int16" 113 15 false; mkTok 42 "Foo" 114 0 false; mkTok 7 "@lengthOf(" 114 4 false; mkTok 42 "rootA" 114 15 false; mkTok 44 (string_of_bytes [47; 47; 32; 230; 179; 168; 233; 135; 138]%N) 114 21 true; mkTok 6 ")" 115 0 false; mkTok 40 "," 115 1 false; mkTok 42 "options1" 115 2 false; mkTok 43 "`u8 x,`" 115 11 false; mkTok 44 "// trailing space " 115 19 true; mkTok 40 "," 116 0 false; mkTok 3 "}" 116 2 false; mkTok 40 "," 116 4 false; mkTok 3 "}" 116 7 false; mkTok 40 "," 116 8 false; mkTok 38 "match" 116 11 false; mkTok 42 "chars" 116 17 false; mkTok 17 "as" 116 23 false; mkTok 42 "u" 116 26 false; mkTok 44 (string_of_bytes [47; 47; 32; 240; 159; 152; 128; 32; 101; 109; 111; 106; 105]%N) 117 0 true; mkTok 44 (string_of_bytes [47; 47; 32; 240; 159; 152; 128; 32; 101; 109; 111; 106; 105]%N) 118 0 true; mkTok 2 "{" 119 0 false; mkTok 18 "[" 119 2 false; mkTok 44 "//" 119 3 true; mkTok 31 """it's""" 120 0 false; mkTok 40 "," 120 7 false; mkTok 30 "007" 120 9 false; mkTok 40 "," 120 13 false; mkTok 31 (string_of_bytes [34; 195; 169; 116; 195; 169; 34]%N) 120 15 false; mkTok 40 "," 120 20 false; mkTok 31 """abc""" 120 22 false; mkTok 40 "," 120 28 false; mkTok 31 """\n""" 120 29 false; mkTok 40 "," 120 34 false; mkTok 44 (string_of_bytes [47; 47; 32; 240; 159; 152; 128; 32; 101; 109; 111; 106; 105]%N) 121 0 true; mkTok 44 (string_of_bytes [47; 47; 32; 230; 179; 168; 233; 135; 138]%N) 122 0 true; mkTok 31 """""" 123 0 false; mkTok 44 "// c" 123 3 true; mkTok 13 "]" 124 0 false; mkTok 39 ":" 124 2 false; mkTok 42 "repeatCount" 124 4 false; mkTok 40 "," 124 15 false; mkTok 30 "65535" 125 0 false; mkTok 44 (string_of_bytes [47; 47; 32; 240; 159; 152; 128; 32; 101; 109; 111; 106; 105]%N) 126 4 true; mkTok 39 ":" 127 4 false; mkTok 42 "Z9_" 127 5 false; mkTok 40 "," 128 0 false; mkTok 18 "[" 128 2 false; mkTok 30 "007" 128 4 false; mkTok 40 "," 128 9 false; mkTok 31 """abc""" 128 11 false; mkTok 40 "," 128 16 false; mkTok 31 """// no comment""" 128 17 false; mkTok 40 "," 129 0 false; mkTok 31 (string_of_bytes [34; 230; 182; 136; 230; 129; 175; 34]%N) 129 2 false; mkTok 13 "]" 129 7 false; mkTok 39 ":" 129 9 false; mkTok 42 "falsey" 129 12 false; mkTok 40 "," 129 19 false; mkTok 30 "00" 130 0 false; mkTok 39 ":" 131 0 false; mkTok 42 "string_" 132 4 false; mkTok 3 "}" 132 11 false; mkTok 40 "," 133 0 false; mkTok 19 "char" 133 3 false; mkTok 42 "repeatCount" 133 8 false; mkTok 40 "," 133 20 false; mkTok 3 "}" 133 22 false; mkTok 35 "packet" 133 24 false; mkTok 42 "Foo" 133 31 false; mkTok 2 "{" 133 35 false; mkTok 16 "char[]" 133 36 false; mkTok 42 "a1" 134 0 false; mkTok 5 "@calculatedFrom(" 134 3 false; mkTok 31 """""" 134 20 false; mkTok 6 ")" 134 22 false; mkTok 43 (string_of_bytes [96; 108; 105; 110; 101; 49; 10; 108; 105; 110; 101; 50; 96]%N) 134 23 false; mkTok 40 "," 136 0 false; mkTok 21 "uint16" 136 2 false; mkTok 44 "// a // b" 136 9 true; mkTok 42 "MetaDataX" 137 0 false; mkTok 44 "// packet A { u8 x, }" 138 4 true; mkTok 43 "`say ""hi""`" 139 4 false; mkTok 40 "," 139 14 false; mkTok 16 "char[]" 139 15 false; mkTok 42 "A" 139 22 false; mkTok 40 "," 139 24 false; mkTok 44 "// trailing space " 140 0 true; mkTok 44 (string_of_bytes [47; 47; 32; 240; 159; 152; 128; 32; 101; 109; 111; 106; 105]%N) 141 0 true; mkTok 29 "f64" 142 0 false; mkTok 42 "int" 142 4 false; mkTok 7 "@lengthOf(" 142 8 false; mkTok 42 "Pad" 142 18 false; mkTok 6 ")" 142 23 false; mkTok 40 "," 142 25 false; mkTok 22 "u32" 142 27 false; mkTok 42 "BodyLength" 143 4 false; mkTok 40 "," 144 0 false; mkTok 29 "float64" 144 2 false; mkTok 42 "trueish" 145 0 false; mkTok 7 "@lengthOf(" 145 8 false; mkTok 42 "lengthOf" 145 18 false; mkTok 6 ")" 145 27 false; mkTok 44 "// `tick` ""quote"" 'q'" 146 0 true; mkTok 44 "// trailing space " 147 0 true; mkTok 43 (string_of_bytes [96; 99; 114; 108; 102; 13; 10; 108; 105; 110; 101; 96]%N) 148 0 false; mkTok 40 "," 149 6 false; mkTok 9 "@tag(" 149 8 false; mkTok 30 "255" 149 13 false; mkTok 6 ")" 149 17 false; mkTok 38 "match" 149 19 false; mkTok 42 "Z9_" 149 25 false; mkTok 17 "as" 149 29 false; mkTok 42 "tag" 149 32 false; mkTok 2 "{" 149 36 false; mkTok 18 "[" 149 38 false; mkTok 31 """a\""b""" 149 40 false; mkTok 40 "," 149 46 false; mkTok 30 "4294967296" 149 47 false; mkTok 40 "," 149 59 false; mkTok 31 """{,}""" 149 62 false; mkTok 40 "," 149 68 false; mkTok 31 """{,}""" 149 69 false; mkTok 44 "/// triple" 149 74 true; mkTok 13 "]" 150 0 false; mkTok 39 ":" 150 2 false; mkTok 42 "Pad" 150 4 false; mkTok 40 "," 150 8 false; mkTok 30 "1" 150 10 false; mkTok 39 ":" 150 12 false; mkTok 42 "lengthOf" 150 14 false; mkTok 40 "," 150 23 false; mkTok 30 "0123456789" 150 25 false; mkTok 39 ":" 150 36 false; mkTok 42 "msg_type" 150 38 false; mkTok 40 "," 150 48 false; mkTok 31 """// no comment""" 150 50 false; mkTok 39 ":" 150 65 false; mkTok 42 "BodyLength" 151 4 false; mkTok 40 "," 151 14 false; mkTok 18 "[" 151 16 false; mkTok 31 """1""" 151 18 false; mkTok 13 "]" 151 22 false; mkTok 39 ":" 151 24 false; mkTok 42 "string_" 151 26 false; mkTok 18 "[" 151 34 false; mkTok 30 "3" 151 35 false; mkTok 40 "," 151 37 false; mkTok 30 "0" 151 39 false; mkTok 40 "," 151 40 false; mkTok 30 "1" 151 41 false; mkTok 40 "," 151 43 false; mkTok 30 "1" 151 45 false; mkTok 40 "," 152 0 false; mkTok 31 (string_of_bytes [34; 92; 195; 169; 34]%N) 152 2 false; mkTok 44 (string_of_bytes [47; 47; 32; 230; 179; 168; 233; 135; 138]%N) 152 7 true; mkTok 40 "," 153 0 false; mkTok 31 """""" 154 4 false; mkTok 40 "," 155 4 false; mkTok 30 "00" 155 6 false; mkTok 44 "// c" 156 4 true; mkTok 13 "]" 157 4 false; mkTok 44 "// c" 157 6 true; mkTok 39 ":" 158 0 false; mkTok 42 "asx" 158 2 false; mkTok 3 "}" 158 5 false; mkTok 40 "," 158 7 false; mkTok 42 "body" 158 9 false; mkTok 43 "`say ""hi""`" 158 14 false; mkTok 44 "// `tick` ""quote"" 'q'" 158 24 true; mkTok 40 "," 159 0 false; mkTok 3 "}" 159 2 false; mkTok 1 "options" 159 3 false; mkTok 2 "{" 159 11 false; mkTok 42 "x" 159 13 false; mkTok 4 "=" 159 15 false; mkTok 33 "'0'" 159 16 false; mkTok 41 ";" 160 0 false; mkTok 42 "u8x" 160 2 false; mkTok 44 (string_of_bytes [47; 47; 32; 240; 159; 152; 128; 32; 101; 109; 111; 106; 105]%N) 160 6 true; mkTok 4 "=" 161 0 false; mkTok 23 "u64" 161 2 false; mkTok 41 ";" 161 5 false; mkTok 44 "// c" 162 0 true; mkTok 44 (string_of_bytes [47; 47; 9; 116]%N) 163 0 true; mkTok 42 "string_" 164 0 false; mkTok 4 "=" 164 8 false; mkTok 31 """a\""b""" 164 10 false; mkTok 3 "}" 164 17 false; mkTok 0 "<EOF>" 165 0 false] (mkPacket (mkPtok 35 "packet" 1 0 0) (Some (mkPtok 3 "}" 164 17 514)) [(DPacket (mkPacketDef (mkSpan (mkPtok 35 "packet" 1 0 0) (mkPtok 3 "}" 57 6 155)) None (mkPtok 35 "packet" 1 0 0) (mkPtok 42 "len" 1 7 1) (mkPtok 2 "{" 2 0 2) [(mkFieldWithAttr (mkSpan (mkPtok 5 "@calculatedFrom(" 2 3 3) (mkPtok 40 "," 5 4 13)) [(FACalculatedFrom (mkSpan (mkPtok 5 "@calculatedFrom(" 2 3 3) (mkPtok 6 ")" 2 29 5)) (mkCalculatedFrom (mkSpan (mkPtok 5 "@calculatedFrom(" 2 3 3) (mkPtok 6 ")" 2 29 5)) (mkPtok 5 "@calculatedFrom(" 2 3 3) (mkPtok 31 """`tick`""" 2 20 4) (mkPtok 6 ")" 2 29 5)))] (MetaField (mkSpan (mkPtok 36 "repeat" 2 31 6) (mkPtok 40 "," 5 4 13)) (Some (mkPtok 36 "repeat" 2 31 6)) (mkMetaDecl (mkSpan (mkPtok 14 "zchar[" 2 38 7) (mkPtok 40 "," 5 4 13)) (TyFixed (mkSpan (mkPtok 14 "zchar[" 2 38 7) (mkPtok 13 "]" 3 4 9)) (mkFixedString (mkSpan (mkPtok 14 "zchar[" 2 38 7) (mkPtok 13 "]" 3 4 9)) (mkPtok 14 "zchar[" 2 38 7) (mkPtok 30 "00" 2 45 8) (mkPtok 13 "]" 3 4 9))) (mkPtok 42 "chars" 3 5 10) (Some (mkPtok 43 "`a\`" 4 0 12)) (mkPtok 40 "," 5 4 13)))); (mkFieldWithAttr (mkSpan (mkPtok 42 "u8x" 6 0 14) (mkPtok 40 "," 12 4 20)) [] (ObjectField (mkSpan (mkPtok 42 "u8x" 6 0 14) (mkPtok 40 "," 12 4 20)) None (mkPtok 42 "u8x" 6 0 14) (Some (mkPtok 42 "MetaDataX" 9 0 17)) (Some (mkPtok 43 (string_of_bytes [96; 108; 105; 110; 101; 49; 10; 108; 105; 110; 101; 50; 96]%N) 9 10 18)) (mkPtok 40 "," 12 4 20))); (mkFieldWithAttr (mkSpan (mkPtok 5 "@calculatedFrom(" 12 5 21) (mkPtok 40 "," 20 0 39)) [(FACalculatedFrom (mkSpan (mkPtok 5 "@calculatedFrom(" 12 5 21) (mkPtok 6 ")" 12 29 23)) (mkCalculatedFrom (mkSpan (mkPtok 5 "@calculatedFrom(" 12 5 21) (mkPtok 6 ")" 12 29 23)) (mkPtok 5 "@calculatedFrom(" 12 5 21) (mkPtok 31 """a\""b""" 12 22 22) (mkPtok 6 ")" 12 29 23)))] (MatchField (mkSpan (mkPtok 38 "match" 12 31 24) (mkPtok 40 "," 20 0 39)) (mkMatchFieldDecl (mkSpan (mkPtok 38 "match" 12 31 24) (mkPtok 3 "}" 19 4 38)) (mkPtok 38 "match" 12 31 24) (mkPtok 42 "matchKey" 13 4 25) (mkPtok 17 "as" 13 13 26) (mkPtok 42 "asx" 13 16 27) (mkPtok 2 "{" 13 20 28) [(mkMatchPair (mkSpan (mkPtok 18 "[" 14 4 29) (mkPtok 40 "," 18 4 37)) (MKList (mkKeyList (mkSpan (mkPtok 18 "[" 14 4 29) (mkPtok 13 "]" 15 0 33)) (mkPtok 18 "[" 14 4 29) (mkPtok 31 """CRC32""" 14 6 30) [((mkPtok 40 "," 14 14 31), (mkPtok 31 """a\""b""" 14 16 32))] (mkPtok 13 "]" 15 0 33))) (mkPtok 39 ":" 16 0 35) (mkPtok 42 "msg_type" 17 0 36) (Some (mkPtok 40 "," 18 4 37)))] (mkPtok 3 "}" 19 4 38)) (mkPtok 40 "," 20 0 39))); (mkFieldWithAttr (mkSpan (mkPtok 24 "i8" 20 2 40) (mkPtok 40 "," 21 4 45)) [] (CheckSumField (mkSpan (mkPtok 24 "i8" 20 2 40) (mkPtok 40 "," 21 4 45)) (mkChecksumFieldDecl (mkSpan (mkPtok 24 "i8" 20 2 40) (mkPtok 40 "," 21 4 45)) (Some (TyBasic (mkSpan (mkPtok 24 "i8" 20 2 40) (mkPtok 24 "i8" 20 2 40)) (mkBasicType (mkSpan (mkPtok 24 "i8" 20 2 40) (mkPtok 24 "i8" 20 2 40)) (mkPtok 24 "i8" 20 2 40)))) (mkPtok 42 "string_" 20 5 41) (mkCalculatedFrom (mkSpan (mkPtok 5 "@calculatedFrom(" 20 13 42) (mkPtok 6 ")" 20 36 44)) (mkPtok 5 "@calculatedFrom(" 20 13 42) (mkPtok 31 """{,}""" 20 30 43) (mkPtok 6 ")" 20 36 44)) None (mkPtok 40 "," 21 4 45)))); (mkFieldWithAttr (mkSpan (mkPtok 7 "@lengthOf(" 21 5 46) (mkPtok 40 "," 29 7 57)) [(FALengthOf (mkSpan (mkPtok 7 "@lengthOf(" 21 5 46) (mkPtok 6 ")" 24 4 49)) (mkLengthOf (mkSpan (mkPtok 7 "@lengthOf(" 21 5 46) (mkPtok 6 ")" 24 4 49)) (mkPtok 7 "@lengthOf(" 21 5 46) (mkPtok 42 "lengthOf" 22 0 47) (mkPtok 6 ")" 24 4 49)))] (MetaField (mkSpan (mkPtok 14 "zchar[" 24 6 50) (mkPtok 40 "," 29 7 57)) None (mkMetaDecl (mkSpan (mkPtok 14 "zchar[" 24 6 50) (mkPtok 40 "," 29 7 57)) (TyFixed (mkSpan (mkPtok 14 "zchar[" 24 6 50) (mkPtok 13 "]" 24 15 52)) (mkFixedString (mkSpan (mkPtok 14 "zchar[" 24 6 50) (mkPtok 13 "]" 24 15 52)) (mkPtok 14 "zchar[" 24 6 50) (mkPtok 30 "42" 24 12 51) (mkPtok 13 "]" 24 15 52))) (mkPtok 42 "_x" 25 4 53) (Some (mkPtok 43 (string_of_bytes [96; 108; 105; 110; 101; 49; 10; 108; 105; 110; 101; 50; 96]%N) 28 0 56)) (mkPtok 40 "," 29 7 57)))); (mkFieldWithAttr (mkSpan (mkPtok 7 "@lengthOf(" 30 4 58) (mkPtok 40 "," 31 12 65)) [(FALengthOf (mkSpan (mkPtok 7 "@lengthOf(" 30 4 58) (mkPtok 6 ")" 30 18 60)) (mkLengthOf (mkSpan (mkPtok 7 "@lengthOf(" 30 4 58) (mkPtok 6 ")" 30 18 60)) (mkPtok 7 "@lengthOf(" 30 4 58) (mkPtok 42 "asx" 30 15 59) (mkPtok 6 ")" 30 18 60)))] (MetaField (mkSpan (mkPtok 36 "repeat" 30 20 61) (mkPtok 40 "," 31 12 65)) (Some (mkPtok 36 "repeat" 30 20 61)) (mkMetaDecl (mkSpan (mkPtok 24 "int8" 31 0 63) (mkPtok 40 "," 31 12 65)) (TyBasic (mkSpan (mkPtok 24 "int8" 31 0 63) (mkPtok 24 "int8" 31 0 63)) (mkBasicType (mkSpan (mkPtok 24 "int8" 31 0 63) (mkPtok 24 "int8" 31 0 63)) (mkPtok 24 "int8" 31 0 63))) (mkPtok 42 "Header" 31 5 64) None (mkPtok 40 "," 31 12 65)))); (mkFieldWithAttr (mkSpan (mkPtok 36 "repeat" 31 14 66) (mkPtok 40 "," 33 29 77)) [] (InerObjectField (mkSpan (mkPtok 36 "repeat" 31 14 66) (mkPtok 40 "," 33 29 77)) (Some (mkPtok 36 "repeat" 31 14 66)) (InerObjectDecl (mkSpan (mkPtok 42 "crc" 31 21 67) (mkPtok 3 "}" 33 27 76)) (mkPtok 42 "crc" 31 21 67) (mkPtok 2 "{" 31 25 68) [(CheckSumField (mkSpan (mkPtok 24 "int8" 32 0 69) (mkPtok 40 "," 33 25 75)) (mkChecksumFieldDecl (mkSpan (mkPtok 24 "int8" 32 0 69) (mkPtok 40 "," 33 25 75)) (Some (TyBasic (mkSpan (mkPtok 24 "int8" 32 0 69) (mkPtok 24 "int8" 32 0 69)) (mkBasicType (mkSpan (mkPtok 24 "int8" 32 0 69) (mkPtok 24 "int8" 32 0 69)) (mkPtok 24 "int8" 32 0 69)))) (mkPtok 42 "i64_" 32 5 70) (mkCalculatedFrom (mkSpan (mkPtok 5 "@calculatedFrom(" 33 0 72) (mkPtok 6 ")" 33 23 74)) (mkPtok 5 "@calculatedFrom(" 33 0 72) (mkPtok 31 """{,}""" 33 17 73) (mkPtok 6 ")" 33 23 74)) None (mkPtok 40 "," 33 25 75)))] (mkPtok 3 "}" 33 27 76)) (mkPtok 40 "," 33 29 77))); (mkFieldWithAttr (mkSpan (mkPtok 36 "repeat" 33 30 78) (mkPtok 40 "," 34 7 82)) [] (ObjectField (mkSpan (mkPtok 36 "repeat" 33 30 78) (mkPtok 40 "," 34 7 82)) (Some (mkPtok 36 "repeat" 33 30 78)) (mkPtok 42 "_x" 33 37 79) (Some (mkPtok 42 "i8i8" 33 40 80)) (Some (mkPtok 43 (string_of_bytes [96; 108; 105; 110; 101; 49; 10; 108; 105; 110; 101; 50; 96]%N) 33 45 81)) (mkPtok 40 "," 34 7 82))); (mkFieldWithAttr (mkSpan (mkPtok 29 "float64" 34 9 83) (mkPtok 40 "," 35 8 86)) [] (MetaField (mkSpan (mkPtok 29 "float64" 34 9 83) (mkPtok 40 "," 35 8 86)) None (mkMetaDecl (mkSpan (mkPtok 29 "float64" 34 9 83) (mkPtok 40 "," 35 8 86)) (TyBasic (mkSpan (mkPtok 29 "float64" 34 9 83) (mkPtok 29 "float64" 34 9 83)) (mkBasicType (mkSpan (mkPtok 29 "float64" 34 9 83) (mkPtok 29 "float64" 34 9 83)) (mkPtok 29 "float64" 34 9 83))) (mkPtok 42 "stringy" 35 0 85) None (mkPtok 40 "," 35 8 86)))); (mkFieldWithAttr (mkSpan (mkPtok 42 "MetaDataX" 35 10 87) (mkPtok 40 "," 57 4 154)) [] (InerObjectField (mkSpan (mkPtok 42 "MetaDataX" 35 10 87) (mkPtok 40 "," 57 4 154)) None (InerObjectDecl (mkSpan (mkPtok 42 "MetaDataX" 35 10 87) (mkPtok 3 "}" 57 2 153)) (mkPtok 42 "MetaDataX" 35 10 87) (mkPtok 2 "{" 35 20 88) [(InerObjectField (mkSpan (mkPtok 42 "charz" 35 22 89) (mkPtok 40 "," 57 0 152)) None (InerObjectDecl (mkSpan (mkPtok 42 "charz" 35 22 89) (mkPtok 3 "}" 54 3 149)) (mkPtok 42 "charz" 35 22 89) (mkPtok 2 "{" 36 4 90) [(MetaField (mkSpan (mkPtok 25 "int16" 36 6 91) (mkPtok 40 "," 36 20 93)) None (mkMetaDecl (mkSpan (mkPtok 25 "int16" 36 6 91) (mkPtok 40 "," 36 20 93)) (TyBasic (mkSpan (mkPtok 25 "int16" 36 6 91) (mkPtok 25 "int16" 36 6 91)) (mkBasicType (mkSpan (mkPtok 25 "int16" 36 6 91) (mkPtok 25 "int16" 36 6 91)) (mkPtok 25 "int16" 36 6 91))) (mkPtok 42 "matchKey" 36 12 92) None (mkPtok 40 "," 36 20 93))); (ObjectField (mkSpan (mkPtok 36 "repeat" 36 22 94) (mkPtok 40 "," 37 8 96)) (Some (mkPtok 36 "repeat" 36 22 94)) (mkPtok 42 "i64_" 37 4 95) None None (mkPtok 40 "," 37 8 96)); (MetaField (mkSpan (mkPtok 12 "char[" 38 4 97) (mkPtok 40 "," 39 2 102)) None (mkMetaDecl (mkSpan (mkPtok 12 "char[" 38 4 97) (mkPtok 40 "," 39 2 102)) (TyFixed (mkSpan (mkPtok 12 "char[" 38 4 97) (mkPtok 13 "]" 38 12 99)) (mkFixedString (mkSpan (mkPtok 12 "char[" 38 4 97) (mkPtok 13 "]" 38 12 99)) (mkPtok 12 "char[" 38 4 97) (mkPtok 30 "00" 38 10 98) (mkPtok 13 "]" 38 12 99))) (mkPtok 42 "Z9_" 38 14 100) (Some (mkPtok 43 (string_of_bytes [96; 10; 96]%N) 38 18 101)) (mkPtok 40 "," 39 2 102))); (MatchField (mkSpan (mkPtok 38 "match" 40 4 103) (mkPtok 40 "," 54 0 148)) (mkMatchFieldDecl (mkSpan (mkPtok 38 "match" 40 4 103) (mkPtok 3 "}" 51 19 145)) (mkPtok 38 "match" 40 4 103) (mkPtok 42 "As" 40 10 104) (mkPtok 17 "as" 42 4 106) (mkPtok 42 "Packet" 42 7 107) (mkPtok 2 "{" 42 14 108) [(mkMatchPair (mkSpan (mkPtok 30 "3" 42 16 109) (mkPtok 40 "," 42 24 112)) (MKDigits (mkPtok 30 "3" 42 16 109)) (mkPtok 39 ":" 42 18 110) (mkPtok 42 "crc" 42 20 111) (Some (mkPtok 40 "," 42 24 112))); (mkMatchPair (mkSpan (mkPtok 18 "[" 42 26 113) (mkPtok 40 "," 48 0 123)) (MKList (mkKeyList (mkSpan (mkPtok 18 "[" 42 26 113) (mkPtok 13 "]" 47 0 119)) (mkPtok 18 "[" 42 26 113) (mkPtok 30 "1" 45 0 116) [((mkPtok 40 "," 45 2 117), (mkPtok 30 "00" 46 0 118))] (mkPtok 13 "]" 47 0 119))) (mkPtok 39 ":" 47 1 120) (mkPtok 42 "Header" 47 3 121) (Some (mkPtok 40 "," 48 0 123))); (mkMatchPair (mkSpan (mkPtok 30 "255" 48 2 124) (mkPtok 40 "," 48 10 127)) (MKDigits (mkPtok 30 "255" 48 2 124)) (mkPtok 39 ":" 48 6 125) (mkPtok 42 "_x" 48 7 126) (Some (mkPtok 40 "," 48 10 127))); (mkMatchPair (mkSpan (mkPtok 30 "42" 48 12 128) (mkPtok 40 "," 49 0 131)) (MKDigits (mkPtok 30 "42" 48 12 128)) (mkPtok 39 ":" 48 15 129) (mkPtok 42 "body" 48 17 130) (Some (mkPtok 40 "," 49 0 131))); (mkMatchPair (mkSpan (mkPtok 18 "[" 49 2 132) (mkPtok 42 "chars" 49 9 136)) (MKList (mkKeyList (mkSpan (mkPtok 18 "[" 49 2 132) (mkPtok 13 "]" 49 5 134)) (mkPtok 18 "[" 49 2 132) (mkPtok 30 "0" 49 3 133) [] (mkPtok 13 "]" 49 5 134))) (mkPtok 39 ":" 49 7 135) (mkPtok 42 "chars" 49 9 136) None); (mkMatchPair (mkSpan (mkPtok 18 "[" 50 4 137) (mkPtok 40 "," 51 17 144)) (MKList (mkKeyList (mkSpan (mkPtok 18 "[" 50 4 137) (mkPtok 13 "]" 51 8 141)) (mkPtok 18 "[" 50 4 137) (mkPtok 30 "4294967296" 50 6 138) [((mkPtok 40 "," 51 0 139), (mkPtok 30 "65535" 51 2 140))] (mkPtok 13 "]" 51 8 141))) (mkPtok 39 ":" 51 10 142) (mkPtok 42 "chars" 51 11 143) (Some (mkPtok 40 "," 51 17 144)))] (mkPtok 3 "}" 51 19 145)) (mkPtok 40 "," 54 0 148))] (mkPtok 3 "}" 54 3 149)) (mkPtok 40 "," 57 0 152))] (mkPtok 3 "}" 57 2 153)) (mkPtok 40 "," 57 4 154)))] (mkPtok 3 "}" 57 6 155))); (DMeta (mkMetaDef (mkSpan (mkPtok 37 "MetaData" 57 8 156) (mkPtok 3 "}" 62 14 171)) (mkPtok 37 "MetaData" 57 8 156) (mkPtok 42 "falsey" 57 17 157) (mkPtok 2 "{" 57 24 158) [(MIDecl (mkMetaDecl (mkSpan (mkPtok 12 "char[" 58 0 159) (mkPtok 40 "," 60 7 163)) (TyFixed (mkSpan (mkPtok 12 "char[" 58 0 159) (mkPtok 13 "]" 60 0 161)) (mkFixedString (mkSpan (mkPtok 12 "char[" 58 0 159) (mkPtok 13 "]" 60 0 161)) (mkPtok 12 "char[" 58 0 159) (mkPtok 30 "255" 59 0 160) (mkPtok 13 "]" 60 0 161))) (mkPtok 42 "u128" 60 2 162) None (mkPtok 40 "," 60 7 163))); (MIDecl (mkMetaDecl (mkSpan (mkPtok 20 "u8" 60 9 164) (mkPtok 40 "," 61 0 167)) (TyBasic (mkSpan (mkPtok 20 "u8" 60 9 164) (mkPtok 20 "u8" 60 9 164)) (mkBasicType (mkSpan (mkPtok 20 "u8" 60 9 164) (mkPtok 20 "u8" 60 9 164)) (mkPtok 20 "u8" 60 9 164))) (mkPtok 42 "Header" 60 12 165) (Some (mkPtok 43 (string_of_bytes [96; 116; 97; 98; 9; 104; 101; 114; 101; 96]%N) 60 18 166)) (mkPtok 40 "," 61 0 167))); (MIDecl (mkMetaDecl (mkSpan (mkPtok 15 "string" 62 0 168) (mkPtok 40 "," 62 13 170)) (TyDynamic (mkSpan (mkPtok 15 "string" 62 0 168) (mkPtok 15 "string" 62 0 168)) (mkDynamicString (mkSpan (mkPtok 15 "string" 62 0 168) (mkPtok 15 "string" 62 0 168)) (mkPtok 15 "string" 62 0 168))) (mkPtok 42 "float" 62 7 169) None (mkPtok 40 "," 62 13 170)))] (mkPtok 3 "}" 62 14 171))); (DPacket (mkPacketDef (mkSpan (mkPtok 34 "root" 62 16 172) (mkPtok 3 "}" 133 22 393)) (Some (mkPtok 34 "root" 62 16 172)) (mkPtok 35 "packet" 62 21 173) (mkPtok 42 "int" 62 28 174) (mkPtok 2 "{" 62 32 175) [(mkFieldWithAttr (mkSpan (mkPtok 42 "Logon" 62 34 176) (mkPtok 40 "," 62 46 178)) [] (ObjectField (mkSpan (mkPtok 42 "Logon" 62 34 176) (mkPtok 40 "," 62 46 178)) None (mkPtok 42 "Logon" 62 34 176) (Some (mkPtok 42 "i64_" 62 40 177)) None (mkPtok 40 "," 62 46 178))); (mkFieldWithAttr (mkSpan (mkPtok 5 "@calculatedFrom(" 63 4 179) (mkPtok 40 "," 73 4 213)) [(FACalculatedFrom (mkSpan (mkPtok 5 "@calculatedFrom(" 63 4 179) (mkPtok 6 ")" 65 0 181)) (mkCalculatedFrom (mkSpan (mkPtok 5 "@calculatedFrom(" 63 4 179) (mkPtok 6 ")" 65 0 181)) (mkPtok 5 "@calculatedFrom(" 63 4 179) (mkPtok 31 """1""" 64 0 180) (mkPtok 6 ")" 65 0 181)))] (InerObjectField (mkSpan (mkPtok 42 "zchar" 65 2 182) (mkPtok 40 "," 73 4 213)) None (InerObjectDecl (mkSpan (mkPtok 42 "zchar" 65 2 182) (mkPtok 3 "}" 71 8 211)) (mkPtok 42 "zchar" 65 2 182) (mkPtok 2 "{" 65 8 183) [(InerObjectField (mkSpan (mkPtok 42 "u" 65 10 184) (mkPtok 40 "," 67 14 192)) None (InerObjectDecl (mkSpan (mkPtok 42 "u" 65 10 184) (mkPtok 3 "}" 67 12 191)) (mkPtok 42 "u" 65 10 184) (mkPtok 2 "{" 65 12 185) [(MetaField (mkSpan (mkPtok 14 "zchar[" 66 4 186) (mkPtok 40 "," 67 10 190)) None (mkMetaDecl (mkSpan (mkPtok 14 "zchar[" 66 4 186) (mkPtok 40 "," 67 10 190)) (TyFixed (mkSpan (mkPtok 14 "zchar[" 66 4 186) (mkPtok 13 "]" 67 4 188)) (mkFixedString (mkSpan (mkPtok 14 "zchar[" 66 4 186) (mkPtok 13 "]" 67 4 188)) (mkPtok 14 "zchar[" 66 4 186) (mkPtok 30 "255" 67 0 187) (mkPtok 13 "]" 67 4 188))) (mkPtok 42 "Pad" 67 6 189) None (mkPtok 40 "," 67 10 190)))] (mkPtok 3 "}" 67 12 191)) (mkPtok 40 "," 67 14 192)); (InerObjectField (mkSpan (mkPtok 42 "stringy" 67 16 193) (mkPtok 40 "," 69 2 200)) None (InerObjectDecl (mkSpan (mkPtok 42 "stringy" 67 16 193) (mkPtok 3 "}" 69 0 199)) (mkPtok 42 "stringy" 67 16 193) (mkPtok 2 "{" 67 24 194) [(ObjectField (mkSpan (mkPtok 42 "Pad" 68 4 195) (mkPtok 40 "," 68 25 198)) None (mkPtok 42 "Pad" 68 4 195) (Some (mkPtok 42 "metadata" 68 8 196)) (Some (mkPtok 43 "`u8 x,`" 68 17 197)) (mkPtok 40 "," 68 25 198))] (mkPtok 3 "}" 69 0 199)) (mkPtok 40 "," 69 2 200)); (MetaField (mkSpan (mkPtok 36 "repeat" 69 4 201) (mkPtok 40 "," 69 22 204)) (Some (mkPtok 36 "repeat" 69 4 201)) (mkMetaDecl (mkSpan (mkPtok 15 "string" 69 11 202) (mkPtok 40 "," 69 22 204)) (TyDynamic (mkSpan (mkPtok 15 "string" 69 11 202) (mkPtok 15 "string" 69 11 202)) (mkDynamicString (mkSpan (mkPtok 15 "string" 69 11 202) (mkPtok 15 "string" 69 11 202)) (mkPtok 15 "string" 69 11 202))) (mkPtok 42 "i8i8" 69 18 203) None (mkPtok 40 "," 69 22 204))); (CheckSumField (mkSpan (mkPtok 16 "char[]" 69 24 205) (mkPtok 40 "," 71 7 210)) (mkChecksumFieldDecl (mkSpan (mkPtok 16 "char[]" 69 24 205) (mkPtok 40 "," 71 7 210)) (Some (TyDynamic (mkSpan (mkPtok 16 "char[]" 69 24 205) (mkPtok 16 "char[]" 69 24 205)) (mkDynamicString (mkSpan (mkPtok 16 "char[]" 69 24 205) (mkPtok 16 "char[]" 69 24 205)) (mkPtok 16 "char[]" 69 24 205)))) (mkPtok 42 "As" 70 4 206) (mkCalculatedFrom (mkSpan (mkPtok 5 "@calculatedFrom(" 70 6 207) (mkPtok 6 ")" 71 5 209)) (mkPtok 5 "@calculatedFrom(" 70 6 207) (mkPtok 31 """\n""" 71 0 208) (mkPtok 6 ")" 71 5 209)) None (mkPtok 40 "," 71 7 210)))] (mkPtok 3 "}" 71 8 211)) (mkPtok 40 "," 73 4 213))); (mkFieldWithAttr (mkSpan (mkPtok 7 "@lengthOf(" 73 6 214) (mkPtok 40 "," 76 6 223)) [(FALengthOf (mkSpan (mkPtok 7 "@lengthOf(" 73 6 214) (mkPtok 6 ")" 74 0 217)) (mkLengthOf (mkSpan (mkPtok 7 "@lengthOf(" 73 6 214) (mkPtok 6 ")" 74 0 217)) (mkPtok 7 "@lengthOf(" 73 6 214) (mkPtok 42 "packetx" 73 17 215) (mkPtok 6 ")" 74 0 217))); (FALengthOf (mkSpan (mkPtok 7 "@lengthOf(" 74 2 218) (mkPtok 6 ")" 75 9 220)) (mkLengthOf (mkSpan (mkPtok 7 "@lengthOf(" 74 2 218) (mkPtok 6 ")" 75 9 220)) (mkPtok 7 "@lengthOf(" 74 2 218) (mkPtok 42 "i64_" 75 4 219) (mkPtok 6 ")" 75 9 220)))] (ObjectField (mkSpan (mkPtok 42 "body" 75 11 221) (mkPtok 40 "," 76 6 223)) None (mkPtok 42 "body" 75 11 221) None (Some (mkPtok 43 (string_of_bytes [96; 108; 105; 110; 101; 49; 10; 108; 105; 110; 101; 50; 96]%N) 75 16 222)) (mkPtok 40 "," 76 6 223))); (mkFieldWithAttr (mkSpan (mkPtok 7 "@lengthOf(" 76 7 224) (mkPtok 40 "," 98 2 271)) [(FALengthOf (mkSpan (mkPtok 7 "@lengthOf(" 76 7 224) (mkPtok 6 ")" 76 22 226)) (mkLengthOf (mkSpan (mkPtok 7 "@lengthOf(" 76 7 224) (mkPtok 6 ")" 76 22 226)) (mkPtok 7 "@lengthOf(" 76 7 224) (mkPtok 42 "roots" 76 17 225) (mkPtok 6 ")" 76 22 226)))] (MatchField (mkSpan (mkPtok 38 "match" 76 23 227) (mkPtok 40 "," 98 2 271)) (mkMatchFieldDecl (mkSpan (mkPtok 38 "match" 76 23 227) (mkPtok 3 "}" 98 0 270)) (mkPtok 38 "match" 76 23 227) (mkPtok 42 "MetaDataX" 79 0 230) (mkPtok 17 "as" 79 10 231) (mkPtok 42 "uint8x" 79 13 232) (mkPtok 2 "{" 79 20 233) [(mkMatchPair (mkSpan (mkPtok 18 "[" 80 0 235) (mkPtok 40 "," 88 0 248)) (MKList (mkKeyList (mkSpan (mkPtok 18 "[" 80 0 235) (mkPtok 13 "]" 86 2 244)) (mkPtok 18 "[" 80 0 235) (mkPtok 30 "007" 80 2 236) [((mkPtok 40 "," 83 0 239), (mkPtok 30 "255" 84 0 241)); ((mkPtok 40 "," 85 4 242), (mkPtok 30 "00" 86 0 243))] (mkPtok 13 "]" 86 2 244))) (mkPtok 39 ":" 87 4 245) (mkPtok 42 "body" 87 6 246) (Some (mkPtok 40 "," 88 0 248))); (mkMatchPair (mkSpan (mkPtok 18 "[" 88 2 249) (mkPtok 40 "," 97 0 269)) (MKList (mkKeyList (mkSpan (mkPtok 18 "[" 88 2 249) (mkPtok 13 "]" 96 4 266)) (mkPtok 18 "[" 88 2 249) (mkPtok 30 "65535" 88 4 250) [((mkPtok 40 "," 88 10 251), (mkPtok 31 """1""" 88 12 252)); ((mkPtok 40 "," 88 15 253), (mkPtok 30 "1" 89 0 255)); ((mkPtok 40 "," 89 3 256), (mkPtok 31 """\n""" 90 0 257)); ((mkPtok 40 "," 91 0 259), (mkPtok 30 "1" 91 2 260)); ((mkPtok 40 "," 91 4 261), (mkPtok 31 """CRC32""" 92 4 262)); ((mkPtok 40 "," 93 4 263), (mkPtok 30 "0" 95 4 265))] (mkPtok 13 "]" 96 4 266))) (mkPtok 39 ":" 96 6 267) (mkPtok 42 "trueish" 96 7 268) (Some (mkPtok 40 "," 97 0 269)))] (mkPtok 3 "}" 98 0 270)) (mkPtok 40 "," 98 2 271))); (mkFieldWithAttr (mkSpan (mkPtok 23 "uint64" 98 4 272) (mkPtok 40 "," 99 0 274)) [] (MetaField (mkSpan (mkPtok 23 "uint64" 98 4 272) (mkPtok 40 "," 99 0 274)) None (mkMetaDecl (mkSpan (mkPtok 23 "uint64" 98 4 272) (mkPtok 40 "," 99 0 274)) (TyBasic (mkSpan (mkPtok 23 "uint64" 98 4 272) (mkPtok 23 "uint64" 98 4 272)) (mkBasicType (mkSpan (mkPtok 23 "uint64" 98 4 272) (mkPtok 23 "uint64" 98 4 272)) (mkPtok 23 "uint64" 98 4 272))) (mkPtok 42 "Foo" 98 11 273) None (mkPtok 40 "," 99 0 274)))); (mkFieldWithAttr (mkSpan (mkPtok 42 "zchar" 99 2 275) (mkPtok 40 "," 116 8 340)) [] (InerObjectField (mkSpan (mkPtok 42 "zchar" 99 2 275) (mkPtok 40 "," 116 8 340)) None (InerObjectDecl (mkSpan (mkPtok 42 "zchar" 99 2 275) (mkPtok 3 "}" 116 7 339)) (mkPtok 42 "zchar" 99 2 275) (mkPtok 2 "{" 99 8 276) [(LengthField (mkSpan (mkPtok 42 "metadata" 99 9 277) (mkPtok 40 "," 102 6 283)) (mkLengthFieldDecl (mkSpan (mkPtok 42 "metadata" 99 9 277) (mkPtok 40 "," 102 6 283)) None (mkPtok 42 "metadata" 99 9 277) (mkLengthOf (mkSpan (mkPtok 7 "@lengthOf(" 100 0 278) (mkPtok 6 ")" 100 13 280)) (mkPtok 7 "@lengthOf(" 100 0 278) (mkPtok 42 "Pad" 100 10 279) (mkPtok 6 ")" 100 13 280)) (Some (mkPtok 43 (string_of_bytes [96; 99; 114; 108; 102; 13; 10; 108; 105; 110; 101; 96]%N) 101 0 282)) (mkPtok 40 "," 102 6 283))); (MatchField (mkSpan (mkPtok 38 "match" 103 4 284) (mkPtok 40 "," 112 5 322)) (mkMatchFieldDecl (mkSpan (mkPtok 38 "match" 103 4 284) (mkPtok 3 "}" 112 4 321)) (mkPtok 38 "match" 103 4 284) (mkPtok 42 "u" 103 10 285) (mkPtok 17 "as" 103 12 286) (mkPtok 42 "charz" 103 15 287) (mkPtok 2 "{" 103 21 288) [(mkMatchPair (mkSpan (mkPtok 30 "65535" 103 23 289) (mkPtok 42 "int" 105 4 292)) (MKDigits (mkPtok 30 "65535" 103 23 289)) (mkPtok 39 ":" 103 29 290) (mkPtok 42 "int" 105 4 292) None); (mkMatchPair (mkSpan (mkPtok 18 "[" 106 0 293) (mkPtok 40 "," 110 3 300)) (MKList (mkKeyList (mkSpan (mkPtok 18 "[" 106 0 293) (mkPtok 13 "]" 106 5 295)) (mkPtok 18 "[" 106 0 293) (mkPtok 31 """1""" 106 2 294) [] (mkPtok 13 "]" 106 5 295))) (mkPtok 39 ":" 107 0 296) (mkPtok 42 "a1" 110 0 299) (Some (mkPtok 40 "," 110 3 300))); (mkMatchPair (mkSpan (mkPtok 18 "[" 110 5 301) (mkPtok 40 "," 111 19 314)) (MKList (mkKeyList (mkSpan (mkPtok 18 "[" 110 5 301) (mkPtok 13 "]" 111 7 311)) (mkPtok 18 "[" 110 5 301) (mkPtok 30 "4294967296" 110 6 302) [((mkPtok 40 "," 110 17 303), (mkPtok 30 "00" 110 19 304)); ((mkPtok 40 "," 110 21 305), (mkPtok 31 (string_of_bytes [34; 195; 169; 116; 195; 169; 34]%N) 110 22 306)); ((mkPtok 40 "," 110 28 307), (mkPtok 31 (string_of_bytes [34; 230; 182; 136; 230; 129; 175; 34]%N) 110 30 308)); ((mkPtok 40 "," 110 35 309), (mkPtok 30 "00" 111 4 310))] (mkPtok 13 "]" 111 7 311))) (mkPtok 39 ":" 111 8 312) (mkPtok 42 "matchKey" 111 10 313) (Some (mkPtok 40 "," 111 19 314))); (mkMatchPair (mkSpan (mkPtok 18 "[" 111 21 315) (mkPtok 40 "," 111 39 320)) (MKList (mkKeyList (mkSpan (mkPtok 18 "[" 111 21 315) (mkPtok 13 "]" 111 29 317)) (mkPtok 18 "[" 111 21 315) (mkPtok 31 """a\\""" 111 23 316) [] (mkPtok 13 "]" 111 29 317))) (mkPtok 39 ":" 111 31 318) (mkPtok 42 "Logon" 111 33 319) (Some (mkPtok 40 "," 111 39 320)))] (mkPtok 3 "}" 112 4 321)) (mkPtok 40 "," 112 5 322)); (InerObjectField (mkSpan (mkPtok 36 "repeat" 113 0 323) (mkPtok 40 "," 116 4 338)) (Some (mkPtok 36 "repeat" 113 0 323)) (InerObjectDecl (mkSpan (mkPtok 42 "rootA" 113 7 324) (mkPtok 3 "}" 116 2 337)) (mkPtok 42 "rootA" 113 7 324) (mkPtok 2 "{" 113 13 325) [(LengthField (mkSpan (mkPtok 25 "int16" 113 15 326) (mkPtok 40 "," 115 1 332)) (mkLengthFieldDecl (mkSpan (mkPtok 25 "int16" 113 15 326) (mkPtok 40 "," 115 1 332)) (Some (TyBasic (mkSpan (mkPtok 25 "int16" 113 15 326) (mkPtok 25 "int16" 113 15 326)) (mkBasicType (mkSpan (mkPtok 25 "int16" 113 15 326) (mkPtok 25 "int16" 113 15 326)) (mkPtok 25 "int16" 113 15 326)))) (mkPtok 42 "Foo" 114 0 327) (mkLengthOf (mkSpan (mkPtok 7 "@lengthOf(" 114 4 328) (mkPtok 6 ")" 115 0 331)) (mkPtok 7 "@lengthOf(" 114 4 328) (mkPtok 42 "rootA" 114 15 329) (mkPtok 6 ")" 115 0 331)) None (mkPtok 40 "," 115 1 332))); (ObjectField (mkSpan (mkPtok 42 "options1" 115 2 333) (mkPtok 40 "," 116 0 336)) None (mkPtok 42 "options1" 115 2 333) None (Some (mkPtok 43 "`u8 x,`" 115 11 334)) (mkPtok 40 "," 116 0 336))] (mkPtok 3 "}" 116 2 337)) (mkPtok 40 "," 116 4 338))] (mkPtok 3 "}" 116 7 339)) (mkPtok 40 "," 116 8 340))); (mkFieldWithAttr (mkSpan (mkPtok 38 "match" 116 11 341) (mkPtok 40 "," 133 0 389)) [] (MatchField (mkSpan (mkPtok 38 "match" 116 11 341) (mkPtok 40 "," 133 0 389)) (mkMatchFieldDecl (mkSpan (mkPtok 38 "match" 116 11 341) (mkPtok 3 "}" 132 11 388)) (mkPtok 38 "match" 116 11 341) (mkPtok 42 "chars" 116 17 342) (mkPtok 17 "as" 116 23 343) (mkPtok 42 "u" 116 26 344) (mkPtok 2 "{" 119 0 347) [(mkMatchPair (mkSpan (mkPtok 18 "[" 119 2 348) (mkPtok 40 "," 124 15 367)) (MKList (mkKeyList (mkSpan (mkPtok 18 "[" 119 2 348) (mkPtok 13 "]" 124 0 364)) (mkPtok 18 "[" 119 2 348) (mkPtok 31 """it's""" 120 0 350) [((mkPtok 40 "," 120 7 351), (mkPtok 30 "007" 120 9 352)); ((mkPtok 40 "," 120 13 353), (mkPtok 31 (string_of_bytes [34; 195; 169; 116; 195; 169; 34]%N) 120 15 354)); ((mkPtok 40 "," 120 20 355), (mkPtok 31 """abc""" 120 22 356)); ((mkPtok 40 "," 120 28 357), (mkPtok 31 """\n""" 120 29 358)); ((mkPtok 40 "," 120 34 359), (mkPtok 31 """""" 123 0 362))] (mkPtok 13 "]" 124 0 364))) (mkPtok 39 ":" 124 2 365) (mkPtok 42 "repeatCount" 124 4 366) (Some (mkPtok 40 "," 124 15 367))); (mkMatchPair (mkSpan (mkPtok 30 "65535" 125 0 368) (mkPtok 40 "," 128 0 372)) (MKDigits (mkPtok 30 "65535" 125 0 368)) (mkPtok 39 ":" 127 4 370) (mkPtok 42 "Z9_" 127 5 371) (Some (mkPtok 40 "," 128 0 372))); (mkMatchPair (mkSpan (mkPtok 18 "[" 128 2 373) (mkPtok 40 "," 129 19 384)) (MKList (mkKeyList (mkSpan (mkPtok 18 "[" 128 2 373) (mkPtok 13 "]" 129 7 381)) (mkPtok 18 "[" 128 2 373) (mkPtok 30 "007" 128 4 374) [((mkPtok 40 "," 128 9 375), (mkPtok 31 """abc""" 128 11 376)); ((mkPtok 40 "," 128 16 377), (mkPtok 31 """// no comment""" 128 17 378)); ((mkPtok 40 "," 129 0 379), (mkPtok 31 (string_of_bytes [34; 230; 182; 136; 230; 129; 175; 34]%N) 129 2 380))] (mkPtok 13 "]" 129 7 381))) (mkPtok 39 ":" 129 9 382) (mkPtok 42 "falsey" 129 12 383) (Some (mkPtok 40 "," 129 19 384))); (mkMatchPair (mkSpan (mkPtok 30 "00" 130 0 385) (mkPtok 42 "string_" 132 4 387)) (MKDigits (mkPtok 30 "00" 130 0 385)) (mkPtok 39 ":" 131 0 386) (mkPtok 42 "string_" 132 4 387) None)] (mkPtok 3 "}" 132 11 388)) (mkPtok 40 "," 133 0 389))); (mkFieldWithAttr (mkSpan (mkPtok 19 "char" 133 3 390) (mkPtok 40 "," 133 20 392)) [] (MetaField (mkSpan (mkPtok 19 "char" 133 3 390) (mkPtok 40 "," 133 20 392)) None (mkMetaDecl (mkSpan (mkPtok 19 "char" 133 3 390) (mkPtok 40 "," 133 20 392)) (TyBasic (mkSpan (mkPtok 19 "char" 133 3 390) (mkPtok 19 "char" 133 3 390)) (mkBasicType (mkSpan (mkPtok 19 "char" 133 3 390) (mkPtok 19 "char" 133 3 390)) (mkPtok 19 "char" 133 3 390))) (mkPtok 42 "repeatCount" 133 8 391) None (mkPtok 40 "," 133 20 392))))] (mkPtok 3 "}" 133 22 393))); (DPacket (mkPacketDef (mkSpan (mkPtok 35 "packet" 133 24 394) (mkPtok 3 "}" 159 2 497)) None (mkPtok 35 "packet" 133 24 394) (mkPtok 42 "Foo" 133 31 395) (mkPtok 2 "{" 133 35 396) [(mkFieldWithAttr (mkSpan (mkPtok 16 "char[]" 133 36 397) (mkPtok 40 "," 136 0 403)) [] (CheckSumField (mkSpan (mkPtok 16 "char[]" 133 36 397) (mkPtok 40 "," 136 0 403)) (mkChecksumFieldDecl (mkSpan (mkPtok 16 "char[]" 133 36 397) (mkPtok 40 "," 136 0 403)) (Some (TyDynamic (mkSpan (mkPtok 16 "char[]" 133 36 397) (mkPtok 16 "char[]" 133 36 397)) (mkDynamicString (mkSpan (mkPtok 16 "char[]" 133 36 397) (mkPtok 16 "char[]" 133 36 397)) (mkPtok 16 "char[]" 133 36 397)))) (mkPtok 42 "a1" 134 0 398) (mkCalculatedFrom (mkSpan (mkPtok 5 "@calculatedFrom(" 134 3 399) (mkPtok 6 ")" 134 22 401)) (mkPtok 5 "@calculatedFrom(" 134 3 399) (mkPtok 31 """""" 134 20 400) (mkPtok 6 ")" 134 22 401)) (Some (mkPtok 43 (string_of_bytes [96; 108; 105; 110; 101; 49; 10; 108; 105; 110; 101; 50; 96]%N) 134 23 402)) (mkPtok 40 "," 136 0 403)))); (mkFieldWithAttr (mkSpan (mkPtok 21 "uint16" 136 2 404) (mkPtok 40 "," 139 14 409)) [] (MetaField (mkSpan (mkPtok 21 "uint16" 136 2 404) (mkPtok 40 "," 139 14 409)) None (mkMetaDecl (mkSpan (mkPtok 21 "uint16" 136 2 404) (mkPtok 40 "," 139 14 409)) (TyBasic (mkSpan (mkPtok 21 "uint16" 136 2 404) (mkPtok 21 "uint16" 136 2 404)) (mkBasicType (mkSpan (mkPtok 21 "uint16" 136 2 404) (mkPtok 21 "uint16" 136 2 404)) (mkPtok 21 "uint16" 136 2 404))) (mkPtok 42 "MetaDataX" 137 0 406) (Some (mkPtok 43 "`say ""hi""`" 139 4 408)) (mkPtok 40 "," 139 14 409)))); (mkFieldWithAttr (mkSpan (mkPtok 16 "char[]" 139 15 410) (mkPtok 40 "," 139 24 412)) [] (MetaField (mkSpan (mkPtok 16 "char[]" 139 15 410) (mkPtok 40 "," 139 24 412)) None (mkMetaDecl (mkSpan (mkPtok 16 "char[]" 139 15 410) (mkPtok 40 "," 139 24 412)) (TyDynamic (mkSpan (mkPtok 16 "char[]" 139 15 410) (mkPtok 16 "char[]" 139 15 410)) (mkDynamicString (mkSpan (mkPtok 16 "char[]" 139 15 410) (mkPtok 16 "char[]" 139 15 410)) (mkPtok 16 "char[]" 139 15 410))) (mkPtok 42 "A" 139 22 411) None (mkPtok 40 "," 139 24 412)))); (mkFieldWithAttr (mkSpan (mkPtok 29 "f64" 142 0 415) (mkPtok 40 "," 142 25 420)) [] (LengthField (mkSpan (mkPtok 29 "f64" 142 0 415) (mkPtok 40 "," 142 25 420)) (mkLengthFieldDecl (mkSpan (mkPtok 29 "f64" 142 0 415) (mkPtok 40 "," 142 25 420)) (Some (TyBasic (mkSpan (mkPtok 29 "f64" 142 0 415) (mkPtok 29 "f64" 142 0 415)) (mkBasicType (mkSpan (mkPtok 29 "f64" 142 0 415) (mkPtok 29 "f64" 142 0 415)) (mkPtok 29 "f64" 142 0 415)))) (mkPtok 42 "int" 142 4 416) (mkLengthOf (mkSpan (mkPtok 7 "@lengthOf(" 142 8 417) (mkPtok 6 ")" 142 23 419)) (mkPtok 7 "@lengthOf(" 142 8 417) (mkPtok 42 "Pad" 142 18 418) (mkPtok 6 ")" 142 23 419)) None (mkPtok 40 "," 142 25 420)))); (mkFieldWithAttr (mkSpan (mkPtok 22 "u32" 142 27 421) (mkPtok 40 "," 144 0 423)) [] (MetaField (mkSpan (mkPtok 22 "u32" 142 27 421) (mkPtok 40 "," 144 0 423)) None (mkMetaDecl (mkSpan (mkPtok 22 "u32" 142 27 421) (mkPtok 40 "," 144 0 423)) (TyBasic (mkSpan (mkPtok 22 "u32" 142 27 421) (mkPtok 22 "u32" 142 27 421)) (mkBasicType (mkSpan (mkPtok 22 "u32" 142 27 421) (mkPtok 22 "u32" 142 27 421)) (mkPtok 22 "u32" 142 27 421))) (mkPtok 42 "BodyLength" 143 4 422) None (mkPtok 40 "," 144 0 423)))); (mkFieldWithAttr (mkSpan (mkPtok 29 "float64" 144 2 424) (mkPtok 40 "," 149 6 432)) [] (LengthField (mkSpan (mkPtok 29 "float64" 144 2 424) (mkPtok 40 "," 149 6 432)) (mkLengthFieldDecl (mkSpan (mkPtok 29 "float64" 144 2 424) (mkPtok 40 "," 149 6 432)) (Some (TyBasic (mkSpan (mkPtok 29 "float64" 144 2 424) (mkPtok 29 "float64" 144 2 424)) (mkBasicType (mkSpan (mkPtok 29 "float64" 144 2 424) (mkPtok 29 "float64" 144 2 424)) (mkPtok 29 "float64" 144 2 424)))) (mkPtok 42 "trueish" 145 0 425) (mkLengthOf (mkSpan (mkPtok 7 "@lengthOf(" 145 8 426) (mkPtok 6 ")" 145 27 428)) (mkPtok 7 "@lengthOf(" 145 8 426) (mkPtok 42 "lengthOf" 145 18 427) (mkPtok 6 ")" 145 27 428)) (Some (mkPtok 43 (string_of_bytes [96; 99; 114; 108; 102; 13; 10; 108; 105; 110; 101; 96]%N) 148 0 431)) (mkPtok 40 "," 149 6 432)))); (mkFieldWithAttr (mkSpan (mkPtok 9 "@tag(" 149 8 433) (mkPtok 40 "," 158 7 492)) [(FATag (mkSpan (mkPtok 9 "@tag(" 149 8 433) (mkPtok 6 ")" 149 17 435)) (mkTagAttr (mkSpan (mkPtok 9 "@tag(" 149 8 433) (mkPtok 6 ")" 149 17 435)) (mkPtok 9 "@tag(" 149 8 433) (mkPtok 30 "255" 149 13 434) (mkPtok 6 ")" 149 17 435)))] (MatchField (mkSpan (mkPtok 38 "match" 149 19 436) (mkPtok 40 "," 158 7 492)) (mkMatchFieldDecl (mkSpan (mkPtok 38 "match" 149 19 436) (mkPtok 3 "}" 158 5 491)) (mkPtok 38 "match" 149 19 436) (mkPtok 42 "Z9_" 149 25 437) (mkPtok 17 "as" 149 29 438) (mkPtok 42 "tag" 149 32 439) (mkPtok 2 "{" 149 36 440) [(mkMatchPair (mkSpan (mkPtok 18 "[" 149 38 441) (mkPtok 40 "," 150 8 453)) (MKList (mkKeyList (mkSpan (mkPtok 18 "[" 149 38 441) (mkPtok 13 "]" 150 0 450)) (mkPtok 18 "[" 149 38 441) (mkPtok 31 """a\""b""" 149 40 442) [((mkPtok 40 "," 149 46 443), (mkPtok 30 "4294967296" 149 47 444)); ((mkPtok 40 "," 149 59 445), (mkPtok 31 """{,}""" 149 62 446)); ((mkPtok 40 "," 149 68 447), (mkPtok 31 """{,}""" 149 69 448))] (mkPtok 13 "]" 150 0 450))) (mkPtok 39 ":" 150 2 451) (mkPtok 42 "Pad" 150 4 452) (Some (mkPtok 40 "," 150 8 453))); (mkMatchPair (mkSpan (mkPtok 30 "1" 150 10 454) (mkPtok 40 "," 150 23 457)) (MKDigits (mkPtok 30 "1" 150 10 454)) (mkPtok 39 ":" 150 12 455) (mkPtok 42 "lengthOf" 150 14 456) (Some (mkPtok 40 "," 150 23 457))); (mkMatchPair (mkSpan (mkPtok 30 "0123456789" 150 25 458) (mkPtok 40 "," 150 48 461)) (MKDigits (mkPtok 30 "0123456789" 150 25 458)) (mkPtok 39 ":" 150 36 459) (mkPtok 42 "msg_type" 150 38 460) (Some (mkPtok 40 "," 150 48 461))); (mkMatchPair (mkSpan (mkPtok 31 """// no comment""" 150 50 462) (mkPtok 40 "," 151 14 465)) (MKString (mkPtok 31 """// no comment""" 150 50 462)) (mkPtok 39 ":" 150 65 463) (mkPtok 42 "BodyLength" 151 4 464) (Some (mkPtok 40 "," 151 14 465))); (mkMatchPair (mkSpan (mkPtok 18 "[" 151 16 466) (mkPtok 42 "string_" 151 26 470)) (MKList (mkKeyList (mkSpan (mkPtok 18 "[" 151 16 466) (mkPtok 13 "]" 151 22 468)) (mkPtok 18 "[" 151 16 466) (mkPtok 31 """1""" 151 18 467) [] (mkPtok 13 "]" 151 22 468))) (mkPtok 39 ":" 151 24 469) (mkPtok 42 "string_" 151 26 470) None); (mkMatchPair (mkSpan (mkPtok 18 "[" 151 34 471) (mkPtok 42 "asx" 158 2 490)) (MKList (mkKeyList (mkSpan (mkPtok 18 "[" 151 34 471) (mkPtok 13 "]" 157 4 487)) (mkPtok 18 "[" 151 34 471) (mkPtok 30 "3" 151 35 472) [((mkPtok 40 "," 151 37 473), (mkPtok 30 "0" 151 39 474)); ((mkPtok 40 "," 151 40 475), (mkPtok 30 "1" 151 41 476)); ((mkPtok 40 "," 151 43 477), (mkPtok 30 "1" 151 45 478)); ((mkPtok 40 "," 152 0 479), (mkPtok 31 (string_of_bytes [34; 92; 195; 169; 34]%N) 152 2 480)); ((mkPtok 40 "," 153 0 482), (mkPtok 31 """""" 154 4 483)); ((mkPtok 40 "," 155 4 484), (mkPtok 30 "00" 155 6 485))] (mkPtok 13 "]" 157 4 487))) (mkPtok 39 ":" 158 0 489) (mkPtok 42 "asx" 158 2 490) None)] (mkPtok 3 "}" 158 5 491)) (mkPtok 40 "," 158 7 492))); (mkFieldWithAttr (mkSpan (mkPtok 42 "body" 158 9 493) (mkPtok 40 "," 159 0 496)) [] (ObjectField (mkSpan (mkPtok 42 "body" 158 9 493) (mkPtok 40 "," 159 0 496)) None (mkPtok 42 "body" 158 9 493) None (Some (mkPtok 43 "`say ""hi""`" 158 14 494)) (mkPtok 40 "," 159 0 496)))] (mkPtok 3 "}" 159 2 497))); (DOption (mkOptionDef (mkSpan (mkPtok 1 "options" 159 3 498) (mkPtok 3 "}" 164 17 514)) (mkPtok 1 "options" 159 3 498) (mkPtok 2 "{" 159 11 499) [(mkOptionDecl (mkSpan (mkPtok 42 "x" 159 13 500) (mkPtok 41 ";" 160 0 503)) (mkPtok 42 "x" 159 13 500) (mkPtok 4 "=" 159 15 501) (VPaddingChar (mkSpan (mkPtok 33 "'0'" 159 16 502) (mkPtok 33 "'0'" 159 16 502)) (mkPtok 33 "'0'" 159 16 502)) (Some (mkPtok 41 ";" 160 0 503))); (mkOptionDecl (mkSpan (mkPtok 42 "u8x" 160 2 504) (mkPtok 41 ";" 161 5 508)) (mkPtok 42 "u8x" 160 2 504) (mkPtok 4 "=" 161 0 506) (VType (mkSpan (mkPtok 23 "u64" 161 2 507) (mkPtok 23 "u64" 161 2 507)) (TyBasic (mkSpan (mkPtok 23 "u64" 161 2 507) (mkPtok 23 "u64" 161 2 507)) (mkBasicType (mkSpan (mkPtok 23 "u64" 161 2 507) (mkPtok 23 "u64" 161 2 507)) (mkPtok 23 "u64" 161 2 507)))) (Some (mkPtok 41 ";" 161 5 508))); (mkOptionDecl (mkSpan (mkPtok 42 "string_" 164 0 511) (mkPtok 31 """a\""b""" 164 10 513)) (mkPtok 42 "string_" 164 0 511) (mkPtok 4 "=" 164 8 512) (VString (mkSpan (mkPtok 31 """a\""b""" 164 10 513) (mkPtok 31 """a\""b""" 164 10 513)) (mkPtok 31 """a\""b""" 164 10 513)) None)] (mkPtok 3 "}" 164 17 514)))])).
Eval vm_compute in ("<<<M296>>>" ++ check (runes_of_ascii "
packet charz{ repeat u16 Foo`{ , }`// c
,
//
//
} options
    { crc = """ ++ [28040; 24687]%N ++ runes_of_ascii """ ;	}")).
Eval vm_compute in ("<<<M306>>>" ++ check (runes_of_ascii "root packet SimpleMessage {
    uint16 MsgType `" ++ [28040; 24687; 31867; 22411]%N ++ runes_of_ascii "`,
    string JsonBody `Json" ++ [23383; 31526; 20018; 28040; 24687; 20307]%N ++ runes_of_ascii "`,
}")).
Eval vm_compute in ("<<<M316>>>" ++ check (runes_of_ascii "packet
{
asx Z9_ Header// " ++ [128512]%N ++ runes_of_ascii " emoji
,} packet pack
    { }
")).
Eval vm_compute in ("<<<M326>>>" ++ check (runes_of_ascii "packet
asx
{ Header Z9_// " ++ [128512]%N ++ runes_of_ascii " emoji
,} packet pack
    { }
")).
Eval vm_compute in ("<<<M336>>>" ++ check (runes_of_ascii "packet
asx
{ Z9_ Header// " ++ [128512]%N ++ runes_of_ascii " emoji
}, packet pack
    { }
")).
Eval vm_compute in ("<<<M346>>>" ++ check (runes_of_ascii "packet
asx
{ Z9_ Header// " ++ [128512]%N ++ runes_of_ascii " emoji
,} pack packet
    { }
")).
Eval vm_compute in ("<<<M356>>>" ++ check (runes_of_ascii "packet
asx
{ Z9_ Header// " ++ [128512]%N ++ runes_of_ascii " emoji
,} packet pack
    } {
")).
Eval vm_compute in ("<<<M366>>>" ++ check (runes_of_ascii "packet
asx
{ Z9_ Header/")).
Eval vm_compute in ("<<<M376>>>" ++ check (runes_of_ascii "packet
asx
{ Z9_ Header// " ++ [128512]%N ++ runes_of_ascii " emoji
,} packet pack
    { #}
")).
Eval vm_compute in ("<<<M386>>>" ++ check (runes_of_ascii "MetaData MetaData o { char[ // `tick` ""quote"" 'q'
3] body, } packet o{
u8
charz ,
    }")).
Eval vm_compute in ("<<<M396>>>" ++ check (runes_of_ascii "MetaData o { { char[ // `tick` ""quote"" 'q'
3] body, } packet o{
u8
charz ,
    }")).
Eval vm_compute in ("<<<M406>>>" ++ check (runes_of_ascii "MetaData o { char[ // `tick` ""quote"" 'q'
3 3] body, } packet o{
u8
charz ,
    }")).
Eval vm_compute in ("<<<M416>>>" ++ check (runes_of_ascii "MetaData o { char[ // `tick` ""quote"" 'q'
3] body body, } packet o{
u8
charz ,
    }")).
Eval vm_compute in ("<<<M426>>>" ++ check (runes_of_ascii "MetaData o { char[ // `tick` ""quote"" 'q'
3] body, } } packet o{
u8
charz ,
    }")).
Eval vm_compute in ("<<<M436>>>" ++ check (runes_of_ascii "MetaData o { char[ // `tick` ""quote"" 'q'
3] body, } packet o o{
u8
charz ,
    }")).
Eval vm_compute in ("<<<M446>>>" ++ check (runes_of_ascii "MetaData o { char[ // `tick` ""quote"" 'q'
3] body, } packet o{
u8 u8
charz ,
    }")).
Eval vm_compute in ("<<<M456>>>" ++ check (runes_of_ascii "MetaData o { char[ // `tick` ""quote"" 'q'
3] body, } packet o{
u8
charz , ,
    }")).
Eval vm_compute in ("<<<M466>>>" ++ check (runes_of_ascii "MetaData o { char[ // `tick` ""quote""")).
Eval vm_compute in ("<<<M476>>>" ++ check (runes_of_ascii "MetaData o { char[ // `tick` ""quote"" 'q'
3] body, } packet o%{
u8
charz ,
    }")).
Eval vm_compute in ("<<<M486>>>" ++ check (runes_of_ascii " {calculatedFrom =	int8 ;}

")).
Eval vm_compute in ("<<<M496>>>" ++ check (runes_of_ascii "options { =	int8 ;}

")).
Eval vm_compute in ("<<<M506>>>" ++ check (runes_of_ascii "options {calculatedFrom =	 ;}

")).
Eval vm_compute in ("<<<M516>>>" ++ check (runes_of_ascii "options {calculatedFrom =	int8 ;

")).
Eval vm_compute in ("<<<M526>>>" ++ check (runes_of_ascii "options " ++ [233]%N ++ runes_of_ascii "{calculatedFrom =	int8 ;}

")).
Eval vm_compute in ("<<<M536>>>" ++ check (runes_of_ascii "options {calcul@atedFrom =	int8 ;}

")).
Eval vm_compute in ("<<<M546>>>" ++ check (runes_of_ascii "
MetaData chars {Logon packetx,
    float calculatedFrom
,  u32 i64_ }	,")).
Eval vm_compute in ("<<<M556>>>" ++ check (runes_of_ascii "
MetaData chars {Logon packetx,
    float float calculatedFrom
,  u32 i64_ ,	}")).
Eval vm_compute in ("<<<M566>>>" ++ check (runes_of_ascii "
	 ")).
Eval vm_compute in ("<<<T566>>>" ++ terms [mkTok 0 "<EOF>" 2 2 false] (mkPacket (mkPtok 0 "<EOF>" 2 2 0) None [])).
Eval vm_compute in ("<<<M576>>>" ++ check (runes_of_ascii " " ++ [12]%N ++ runes_of_ascii " ")).
Eval vm_compute in ("<<<M586>>>" ++ check (runes_of_ascii "mJjx4KYpBxd&KW`i'mpr[TGL WfNZ")).
Eval vm_compute in ("<<<M596>>>" ++ check (runes_of_ascii "repeat char[] i64 true uint16 packet int ( uint16 zchar[")).
