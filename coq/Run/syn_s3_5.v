From FP Require Import Lexer Parser ShowPT Digest.
From Coq Require Import String List NArith.
Import ListNotations.
Open Scope string_scope.
Set Printing Width 100000000.
Set Printing Depth 100000000.
Definition nl : string := String (Ascii.ascii_of_nat 10) EmptyString.
Definition model_lex (rs : list rune) : string := show_toks (lex rs).
Definition model_parse (rs : list rune) : string :=
  show_pt (match lex rs with Some ts => parse ts | None => None end).
(* coqc is slow at printing long strings: digests first (Digest.v), full texts on demand *)
Definition check (rs : list rune) : string :=
  digest (model_lex rs) ++ " " ++ digest (model_parse rs).
Definition full (rs : list rune) : string := model_lex rs ++ nl ++ model_parse rs.
Definition terms (ts : list tok) (t : pt) : string :=
  digest (show_toks (Some ts)) ++ " " ++ digest (show_pt (Some t)) ++ " " ++ digest (show_pt (parse ts)).
Definition terms_full (ts : list tok) (t : pt) : string :=
  show_toks (Some ts) ++ nl ++ show_pt (Some t) ++ nl ++ show_pt (parse ts).
Eval vm_compute in ("<<<M5>>>" ++ check (runes_of_ascii "

")).
Eval vm_compute in ("<<<M15>>>" ++ check (runes_of_ascii "root packet u128 {}
    options {
    packetx= ""a\""b"" }
")).
Eval vm_compute in ("<<<M25>>>" ++ check (runes_of_ascii "MetaData u8x
    {
    // @lengthOf(
    Pad i8i8 ,
    Foo string_ `doc` // c
,
    }
")).
Eval vm_compute in ("<<<M35>>>" ++ check (runes_of_ascii "root packet Z9_ { }
")).
Eval vm_compute in ("<<<M45>>>" ++ check (runes_of_ascii "root packet f32a
    {
    @lengthOf( packetx) roots
@lengthOf(A )
`two words` ,rootA
    u128 , float64	uint8x `" ++ [233]%N ++ runes_of_ascii "` ,
    } options
    { repeatCount =uint64
}")).
Eval vm_compute in ("<<<M55>>>" ++ check (runes_of_ascii "// a // b
options { pack
    // " ++ [128512]%N ++ runes_of_ascii " emoji
    =
char[	10 ]; Header
= ' ' }
packet Header {
@tag( 7) @calculatedFrom( ""// no comment"" )@tag( 007 )	string
i8i8, } root packet // `tick` ""quote"" 'q'
options1 { // packet A { u8 x, }
@rightPad
( ' '
    ) A// packet A { u8 x, }
@calculatedFrom( ""a\\"") , @tag( 1 )
    repeat body
As ,asx @lengthOf( x_y_z ) `tab	here`
,
    // trailing space 
    repeat x ,
    }
")).
Eval vm_compute in ("<<<T55>>>" ++ terms [mkTok 44 "// a // b" 1 0 true; mkTok 1 "options" 2 0 false; mkTok 2 "{" 2 8 false; mkTok 42 "pack" 2 10 false; mkTok 44 (string_of_bytes [47; 47; 32; 240; 159; 152; 128; 32; 101; 109; 111; 106; 105]%N) 3 4 true; mkTok 4 "=" 4 4 false; mkTok 12 "char[" 5 0 false; mkTok 30 "10" 5 6 false; mkTok 13 "]" 5 9 false; mkTok 41 ";" 5 10 false; mkTok 42 "Header" 5 12 false; mkTok 4 "=" 6 0 false; mkTok 33 "' '" 6 2 false; mkTok 3 "}" 6 6 false; mkTok 35 "packet" 7 0 false; mkTok 42 "Header" 7 7 false; mkTok 2 "{" 7 14 false; mkTok 9 "@tag(" 8 0 false; mkTok 30 "7" 8 6 false; mkTok 6 ")" 8 7 false; mkTok 5 "@calculatedFrom(" 8 9 false; mkTok 31 """// no comment""" 8 26 false; mkTok 6 ")" 8 42 false; mkTok 9 "@tag(" 8 43 false; mkTok 30 "007" 8 49 false; mkTok 6 ")" 8 53 false; mkTok 15 "string" 8 55 false; mkTok 42 "i8i8" 9 0 false; mkTok 40 "," 9 4 false; mkTok 3 "}" 9 6 false; mkTok 34 "root" 9 8 false; mkTok 35 "packet" 9 13 false; mkTok 44 "// `tick` ""quote"" 'q'" 9 20 true; mkTok 42 "options1" 10 0 false; mkTok 2 "{" 10 9 false; mkTok 44 "// packet A { u8 x, }" 10 11 true; mkTok 32 "@rightPad" 11 0 false; mkTok 8 "(" 12 0 false; mkTok 33 "' '" 12 2 false; mkTok 6 ")" 13 4 false; mkTok 42 "A" 13 6 false; mkTok 44 "// packet A { u8 x, }" 13 7 true; mkTok 5 "@calculatedFrom(" 14 0 false; mkTok 31 """a\\""" 14 17 false; mkTok 6 ")" 14 22 false; mkTok 40 "," 14 24 false; mkTok 9 "@tag(" 14 26 false; mkTok 30 "1" 14 32 false; mkTok 6 ")" 14 34 false; mkTok 36 "repeat" 15 4 false; mkTok 42 "body" 15 11 false; mkTok 42 "As" 16 0 false; mkTok 40 "," 16 3 false; mkTok 42 "asx" 16 4 false; mkTok 7 "@lengthOf(" 16 8 false; mkTok 42 "x_y_z" 16 19 false; mkTok 6 ")" 16 25 false; mkTok 43 (string_of_bytes [96; 116; 97; 98; 9; 104; 101; 114; 101; 96]%N) 16 27 false; mkTok 40 "," 17 0 false; mkTok 44 "// trailing space " 18 4 true; mkTok 36 "repeat" 19 4 false; mkTok 42 "x" 19 11 false; mkTok 40 "," 19 13 false; mkTok 3 "}" 20 4 false; mkTok 0 "<EOF>" 21 0 false] (mkPacket (mkPtok 1 "options" 2 0 1) (Some (mkPtok 3 "}" 20 4 63)) [(DOption (mkOptionDef (mkSpan (mkPtok 1 "options" 2 0 1) (mkPtok 3 "}" 6 6 13)) (mkPtok 1 "options" 2 0 1) (mkPtok 2 "{" 2 8 2) [(mkOptionDecl (mkSpan (mkPtok 42 "pack" 2 10 3) (mkPtok 41 ";" 5 10 9)) (mkPtok 42 "pack" 2 10 3) (mkPtok 4 "=" 4 4 5) (VType (mkSpan (mkPtok 12 "char[" 5 0 6) (mkPtok 13 "]" 5 9 8)) (TyFixed (mkSpan (mkPtok 12 "char[" 5 0 6) (mkPtok 13 "]" 5 9 8)) (mkFixedString (mkSpan (mkPtok 12 "char[" 5 0 6) (mkPtok 13 "]" 5 9 8)) (mkPtok 12 "char[" 5 0 6) (mkPtok 30 "10" 5 6 7) (mkPtok 13 "]" 5 9 8)))) (Some (mkPtok 41 ";" 5 10 9))); (mkOptionDecl (mkSpan (mkPtok 42 "Header" 5 12 10) (mkPtok 33 "' '" 6 2 12)) (mkPtok 42 "Header" 5 12 10) (mkPtok 4 "=" 6 0 11) (VPaddingChar (mkSpan (mkPtok 33 "' '" 6 2 12) (mkPtok 33 "' '" 6 2 12)) (mkPtok 33 "' '" 6 2 12)) None)] (mkPtok 3 "}" 6 6 13))); (DPacket (mkPacketDef (mkSpan (mkPtok 35 "packet" 7 0 14) (mkPtok 3 "}" 9 6 29)) None (mkPtok 35 "packet" 7 0 14) (mkPtok 42 "Header" 7 7 15) (mkPtok 2 "{" 7 14 16) [(mkFieldWithAttr (mkSpan (mkPtok 9 "@tag(" 8 0 17) (mkPtok 40 "," 9 4 28)) [(FATag (mkSpan (mkPtok 9 "@tag(" 8 0 17) (mkPtok 6 ")" 8 7 19)) (mkTagAttr (mkSpan (mkPtok 9 "@tag(" 8 0 17) (mkPtok 6 ")" 8 7 19)) (mkPtok 9 "@tag(" 8 0 17) (mkPtok 30 "7" 8 6 18) (mkPtok 6 ")" 8 7 19))); (FACalculatedFrom (mkSpan (mkPtok 5 "@calculatedFrom(" 8 9 20) (mkPtok 6 ")" 8 42 22)) (mkCalculatedFrom (mkSpan (mkPtok 5 "@calculatedFrom(" 8 9 20) (mkPtok 6 ")" 8 42 22)) (mkPtok 5 "@calculatedFrom(" 8 9 20) (mkPtok 31 """// no comment""" 8 26 21) (mkPtok 6 ")" 8 42 22))); (FATag (mkSpan (mkPtok 9 "@tag(" 8 43 23) (mkPtok 6 ")" 8 53 25)) (mkTagAttr (mkSpan (mkPtok 9 "@tag(" 8 43 23) (mkPtok 6 ")" 8 53 25)) (mkPtok 9 "@tag(" 8 43 23) (mkPtok 30 "007" 8 49 24) (mkPtok 6 ")" 8 53 25)))] (MetaField (mkSpan (mkPtok 15 "string" 8 55 26) (mkPtok 40 "," 9 4 28)) None (mkMetaDecl (mkSpan (mkPtok 15 "string" 8 55 26) (mkPtok 40 "," 9 4 28)) (TyDynamic (mkSpan (mkPtok 15 "string" 8 55 26) (mkPtok 15 "string" 8 55 26)) (mkDynamicString (mkSpan (mkPtok 15 "string" 8 55 26) (mkPtok 15 "string" 8 55 26)) (mkPtok 15 "string" 8 55 26))) (mkPtok 42 "i8i8" 9 0 27) None (mkPtok 40 "," 9 4 28))))] (mkPtok 3 "}" 9 6 29))); (DPacket (mkPacketDef (mkSpan (mkPtok 34 "root" 9 8 30) (mkPtok 3 "}" 20 4 63)) (Some (mkPtok 34 "root" 9 8 30)) (mkPtok 35 "packet" 9 13 31) (mkPtok 42 "options1" 10 0 33) (mkPtok 2 "{" 10 9 34) [(mkFieldWithAttr (mkSpan (mkPtok 32 "@rightPad" 11 0 36) (mkPtok 40 "," 14 24 45)) [(FAPadding (mkSpan (mkPtok 32 "@rightPad" 11 0 36) (mkPtok 6 ")" 13 4 39)) (mkPaddingAttr (mkSpan (mkPtok 32 "@rightPad" 11 0 36) (mkPtok 6 ")" 13 4 39)) (mkPtok 32 "@rightPad" 11 0 36) (mkPtok 8 "(" 12 0 37) (Some (mkPtok 33 "' '" 12 2 38)) (mkPtok 6 ")" 13 4 39)))] (CheckSumField (mkSpan (mkPtok 42 "A" 13 6 40) (mkPtok 40 "," 14 24 45)) (mkChecksumFieldDecl (mkSpan (mkPtok 42 "A" 13 6 40) (mkPtok 40 "," 14 24 45)) None (mkPtok 42 "A" 13 6 40) (mkCalculatedFrom (mkSpan (mkPtok 5 "@calculatedFrom(" 14 0 42) (mkPtok 6 ")" 14 22 44)) (mkPtok 5 "@calculatedFrom(" 14 0 42) (mkPtok 31 """a\\""" 14 17 43) (mkPtok 6 ")" 14 22 44)) None (mkPtok 40 "," 14 24 45)))); (mkFieldWithAttr (mkSpan (mkPtok 9 "@tag(" 14 26 46) (mkPtok 40 "," 16 3 52)) [(FATag (mkSpan (mkPtok 9 "@tag(" 14 26 46) (mkPtok 6 ")" 14 34 48)) (mkTagAttr (mkSpan (mkPtok 9 "@tag(" 14 26 46) (mkPtok 6 ")" 14 34 48)) (mkPtok 9 "@tag(" 14 26 46) (mkPtok 30 "1" 14 32 47) (mkPtok 6 ")" 14 34 48)))] (ObjectField (mkSpan (mkPtok 36 "repeat" 15 4 49) (mkPtok 40 "," 16 3 52)) (Some (mkPtok 36 "repeat" 15 4 49)) (mkPtok 42 "body" 15 11 50) (Some (mkPtok 42 "As" 16 0 51)) None (mkPtok 40 "," 16 3 52))); (mkFieldWithAttr (mkSpan (mkPtok 42 "asx" 16 4 53) (mkPtok 40 "," 17 0 58)) [] (LengthField (mkSpan (mkPtok 42 "asx" 16 4 53) (mkPtok 40 "," 17 0 58)) (mkLengthFieldDecl (mkSpan (mkPtok 42 "asx" 16 4 53) (mkPtok 40 "," 17 0 58)) None (mkPtok 42 "asx" 16 4 53) (mkLengthOf (mkSpan (mkPtok 7 "@lengthOf(" 16 8 54) (mkPtok 6 ")" 16 25 56)) (mkPtok 7 "@lengthOf(" 16 8 54) (mkPtok 42 "x_y_z" 16 19 55) (mkPtok 6 ")" 16 25 56)) (Some (mkPtok 43 (string_of_bytes [96; 116; 97; 98; 9; 104; 101; 114; 101; 96]%N) 16 27 57)) (mkPtok 40 "," 17 0 58)))); (mkFieldWithAttr (mkSpan (mkPtok 36 "repeat" 19 4 60) (mkPtok 40 "," 19 13 62)) [] (ObjectField (mkSpan (mkPtok 36 "repeat" 19 4 60) (mkPtok 40 "," 19 13 62)) (Some (mkPtok 36 "repeat" 19 4 60)) (mkPtok 42 "x" 19 11 61) None None (mkPtok 40 "," 19 13 62)))] (mkPtok 3 "}" 20 4 63)))])).
Eval vm_compute in ("<<<M65>>>" ++ check (runes_of_ascii "packet T {	match zchar as
    x_y_z{
    //
    """ ++ [28040; 24687]%N ++ runes_of_ascii """ :	crc
    // " ++ [128512]%N ++ runes_of_ascii " emoji
    ,
007 // trailing space 
:i8i8,
    }
, }
    root packet msg_type {
    } MetaData
//	t
//	t
Pad{  options1 Foo// `tick` ""quote"" 'q'
, } MetaData A
{Header
    x_y_z ,
} 	 ")).
Eval vm_compute in ("<<<M75>>>" ++ check (runes_of_ascii "
packet	a1 { @lengthOf( leftPad)zchar[
    00]
    leftPad @calculatedFrom( ""packet""	) `a\` ,
    float32 chars ``
,}
packet u {//x
repeat zchar[
    1
    ] A // packet A { u8 x, }
`" ++ [28040; 24687; 31867; 22411]%N ++ runes_of_ascii "`// " ++ [27880; 37322]%N ++ runes_of_ascii "
,
@calculatedFrom( ""`tick`"" )match calculatedFrom
    // packet A { u8 x, }
    as MetaDataX  {[ ""1"",
007// `tick` ""quote"" 'q'
,""a\""b""  ]
    : string_ ,
42 :
    // @lengthOf(
    options1 , """" /// triple
:msg_type ,""{,}""
    // " ++ [27880; 37322]%N ++ runes_of_ascii "
    : _x // `tick` ""quote"" 'q'
, }  , match body
as
pack
{ [ ""a\\"",  ""packet"" ] :  packetx } , match
    // " ++ [27880; 37322]%N ++ runes_of_ascii "
    i8i8  as As {""// no comment"" :stringy[
    ""x y""
    ] :
crc	, [
""a\""b"" //
,
    ""it's""]
    :	string_, [  """" ] : A , [
    ""it's"" ]
:	Logon, """ ++ [28040; 24687]%N ++ runes_of_ascii """ :
len }
,}
")).
Eval vm_compute in ("<<<M85>>>" ++ check (runes_of_ascii "root packet matchKey{ @calculatedFrom( ""it's""
    )repeat float64 Z9_ // c
,falsey@calculatedFrom( ""{,}"" ),@leftPad (	' '// " ++ [27880; 37322]%N ++ runes_of_ascii "
)repeat i8
metadata,  @calculatedFrom( ""a	b"" ) int8
    calculatedFrom
    ,
@calculatedFrom( ""`tick`""  ) int16
    MetaDataX @lengthOf( float )
    // " ++ [27880; 37322]%N ++ runes_of_ascii "
    `" ++ [28040; 24687; 31867; 22411]%N ++ runes_of_ascii "`	,  } 	 ")).
Eval vm_compute in ("<<<M95>>>" ++ check (runes_of_ascii "options{metadata// packet A { u8 x, }
= ""a\""b"" ;	}
")).
Eval vm_compute in ("<<<M105>>>" ++ check (runes_of_ascii "packet trueish //
{@lengthOf( leftPad
) uint64 _x
@calculatedFrom( """ ++ [233]%N ++ runes_of_ascii "t" ++ [233]%N ++ runes_of_ascii """  ) ,
    }
")).
Eval vm_compute in ("<<<M115>>>" ++ check (runes_of_ascii "options { msg_type= 10
;
    }	packet	x	{ zchar[
4294967296]
    int
`` ,repeat char[0123456789 /// triple
]x_y_z , @leftPad
(
' '  )@calculatedFrom(""" ++ [128512]%N ++ runes_of_ascii """ ) u64 f32a ,
    @tag(10 )@leftPad ( '\x00'
)
    // `tick` ""quote"" 'q'
    @calculatedFrom(	""""
) float64 i64_ @lengthOf( // `tick` ""quote"" 'q'
Z9_)`crlf
line` , @calculatedFrom( ""CRC32""
) u32 stringy
    @calculatedFrom( ""abc"" ) `tab	here`
    , @lengthOf( u128)
char[ 0 ]
Foo @calculatedFrom(
""" ++ [233]%N ++ runes_of_ascii "t" ++ [233]%N ++ runes_of_ascii """)
// `tick` ""quote"" 'q'
// " ++ [128512]%N ++ runes_of_ascii " emoji
`say ""hi""` ,repeat char[00 ]	options1
    `doc` ,  }")).
Eval vm_compute in ("<<<M125>>>" ++ check (runes_of_ascii "packet
uint8x
    {	char[
65535 ] matchKey ,	rootA @calculatedFrom(""" ++ [233]%N ++ runes_of_ascii "t" ++ [233]%N ++ runes_of_ascii """ ) , @tag(// packet A { u8 x, }
4294967296 )	Header{
    charz { repeat
    char falsey
    , char[]
i8i8
,// " ++ [128512]%N ++ runes_of_ascii " emoji
matchKey
    // a // b
    a1 , } , } , u32 packetx	@lengthOf( zchar	)`line1
line2` ,
zchar[ 0123456789
// a // b
// @lengthOf(
] trueish	`tab	here`, @calculatedFrom( ""\" ++ [233]%N ++ runes_of_ascii """  ) u128 @calculatedFrom(""\n"") ,repeat crc {match pack
    as body { [ ""\" ++ [233]%N ++ runes_of_ascii """ ]: options1 , 0 : body 42	:
    As, 42 : leftPad ,
""a\\"" :
    calculatedFrom
    ,
    42 :
o , } , options1@calculatedFrom( ""`tick`""
)`` ,match a1
as rootA { ""a\\"": Z9_
, } ,
    // c
    uint8 A
    , }
, @calculatedFrom(""" ++ [28040; 24687]%N ++ runes_of_ascii """ )	u64 charz `a\` ,repeat u16 As ,
}
/// triple
// @lengthOf(
packet
// `tick` ""quote"" 'q'
// @lengthOf(
rootA {}MetaData metadata { float64 rootA
    , } // c
MetaData
asx
    { u128
o ,
A x_y_z , calculatedFrom charz `tab	here` ,int8 tag , }
")).
Eval vm_compute in ("<<<T125>>>" ++ terms [mkTok 35 "packet" 1 0 false; mkTok 42 "uint8x" 2 0 false; mkTok 2 "{" 3 4 false; mkTok 12 "char[" 3 6 false; mkTok 30 "65535" 4 0 false; mkTok 13 "]" 4 6 false; mkTok 42 "matchKey" 4 8 false; mkTok 40 "," 4 17 false; mkTok 42 "rootA" 4 19 false; mkTok 5 "@calculatedFrom(" 4 25 false; mkTok 31 (string_of_bytes [34; 195; 169; 116; 195; 169; 34]%N) 4 41 false; mkTok 6 ")" 4 47 false; mkTok 40 "," 4 49 false; mkTok 9 "@tag(" 4 51 false; mkTok 44 "// packet A { u8 x, }" 4 56 true; mkTok 30 "4294967296" 5 0 false; mkTok 6 ")" 5 11 false; mkTok 42 "Header" 5 13 false; mkTok 2 "{" 5 19 false; mkTok 42 "charz" 6 4 false; mkTok 2 "{" 6 10 false; mkTok 36 "repeat" 6 12 false; mkTok 19 "char" 7 4 false; mkTok 42 "falsey" 7 9 false; mkTok 40 "," 8 4 false; mkTok 16 "char[]" 8 6 false; mkTok 42 "i8i8" 9 0 false; mkTok 40 "," 10 0 false; mkTok 44 (string_of_bytes [47; 47; 32; 240; 159; 152; 128; 32; 101; 109; 111; 106; 105]%N) 10 1 true; mkTok 42 "matchKey" 11 0 false; mkTok 44 "// a // b" 12 4 true; mkTok 42 "a1" 13 4 false; mkTok 40 "," 13 7 false; mkTok 3 "}" 13 9 false; mkTok 40 "," 13 11 false; mkTok 3 "}" 13 13 false; mkTok 40 "," 13 15 false; mkTok 22 "u32" 13 17 false; mkTok 42 "packetx" 13 21 false; mkTok 7 "@lengthOf(" 13 29 false; mkTok 42 "zchar" 13 40 false; mkTok 6 ")" 13 46 false; mkTok 43 (string_of_bytes [96; 108; 105; 110; 101; 49; 10; 108; 105; 110; 101; 50; 96]%N) 13 47 false; mkTok 40 "," 14 7 false; mkTok 14 "zchar[" 15 0 false; mkTok 30 "0123456789" 15 7 false; mkTok 44 "// a // b" 16 0 true; mkTok 44 "// @lengthOf(" 17 0 true; mkTok 13 "]" 18 0 false; mkTok 42 "trueish" 18 2 false; mkTok 43 (string_of_bytes [96; 116; 97; 98; 9; 104; 101; 114; 101; 96]%N) 18 10 false; mkTok 40 "," 18 20 false; mkTok 5 "@calculatedFrom(" 18 22 false; mkTok 31 (string_of_bytes [34; 92; 195; 169; 34]%N) 18 39 false; mkTok 6 ")" 18 45 false; mkTok 42 "u128" 18 47 false; mkTok 5 "@calculatedFrom(" 18 52 false; mkTok 31 """\n""" 18 68 false; mkTok 6 ")" 18 72 false; mkTok 40 "," 18 74 false; mkTok 36 "repeat" 18 75 false; mkTok 42 "crc" 18 82 false; mkTok 2 "{" 18 86 false; mkTok 38 "match" 18 87 false; mkTok 42 "pack" 18 93 false; mkTok 17 "as" 19 4 false; mkTok 42 "body" 19 7 false; mkTok 2 "{" 19 12 false; mkTok 18 "[" 19 14 false; mkTok 31 (string_of_bytes [34; 92; 195; 169; 34]%N) 19 16 false; mkTok 13 "]" 19 21 false; mkTok 39 ":" 19 22 false; mkTok 42 "options1" 19 24 false; mkTok 40 "," 19 33 false; mkTok 30 "0" 19 35 false; mkTok 39 ":" 19 37 false; mkTok 42 "body" 19 39 false; mkTok 30 "42" 19 44 false; mkTok 39 ":" 19 47 false; mkTok 42 "As" 20 4 false; mkTok 40 "," 20 6 false; mkTok 30 "42" 20 8 false; mkTok 39 ":" 20 11 false; mkTok 42 "leftPad" 20 13 false; mkTok 40 "," 20 21 false; mkTok 31 """a\\""" 21 0 false; mkTok 39 ":" 21 6 false; mkTok 42 "calculatedFrom" 22 4 false; mkTok 40 "," 23 4 false; mkTok 30 "42" 24 4 false; mkTok 39 ":" 24 7 false; mkTok 42 "o" 25 0 false; mkTok 40 "," 25 2 false; mkTok 3 "}" 25 4 false; mkTok 40 "," 25 6 false; mkTok 42 "options1" 25 8 false; mkTok 5 "@calculatedFrom(" 25 16 false; mkTok 31 """`tick`""" 25 33 false; mkTok 6 ")" 26 0 false; mkTok 43 "``" 26 1 false; mkTok 40 "," 26 4 false; mkTok 38 "match" 26 5 false; mkTok 42 "a1" 26 11 false; mkTok 17 "as" 27 0 false; mkTok 42 "rootA" 27 3 false; mkTok 2 "{" 27 9 false; mkTok 31 """a\\""" 27 11 false; mkTok 39 ":" 27 16 false; mkTok 42 "Z9_" 27 18 false; mkTok 40 "," 28 0 false; mkTok 3 "}" 28 2 false; mkTok 40 "," 28 4 false; mkTok 44 "// c" 29 4 true; mkTok 20 "uint8" 30 4 false; mkTok 42 "A" 30 10 false; mkTok 40 "," 31 4 false; mkTok 3 "}" 31 6 false; mkTok 40 "," 32 0 false; mkTok 5 "@calculatedFrom(" 32 2 false; mkTok 31 (string_of_bytes [34; 230; 182; 136; 230; 129; 175; 34]%N) 32 18 false; mkTok 6 ")" 32 23 false; mkTok 23 "u64" 32 25 false; mkTok 42 "charz" 32 29 false; mkTok 43 "`a\`" 32 35 false; mkTok 40 "," 32 40 false; mkTok 36 "repeat" 32 41 false; mkTok 21 "u16" 32 48 false; mkTok 42 "As" 32 52 false; mkTok 40 "," 32 55 false; mkTok 3 "}" 33 0 false; mkTok 44 "/// triple" 34 0 true; mkTok 44 "// @lengthOf(" 35 0 true; mkTok 35 "packet" 36 0 false; mkTok 44 "// `tick` ""quote"" 'q'" 37 0 true; mkTok 44 "// @lengthOf(" 38 0 true; mkTok 42 "rootA" 39 0 false; mkTok 2 "{" 39 6 false; mkTok 3 "}" 39 7 false; mkTok 37 "MetaData" 39 8 false; mkTok 42 "metadata" 39 17 false; mkTok 2 "{" 39 26 false; mkTok 29 "float64" 39 28 false; mkTok 42 "rootA" 39 36 false; mkTok 40 "," 40 4 false; mkTok 3 "}" 40 6 false; mkTok 44 "// c" 40 8 true; mkTok 37 "MetaData" 41 0 false; mkTok 42 "asx" 42 0 false; mkTok 2 "{" 43 4 false; mkTok 42 "u128" 43 6 false; mkTok 42 "o" 44 0 false; mkTok 40 "," 44 2 false; mkTok 42 "A" 45 0 false; mkTok 42 "x_y_z" 45 2 false; mkTok 40 "," 45 8 false; mkTok 42 "calculatedFrom" 45 10 false; mkTok 42 "charz" 45 25 false; mkTok 43 (string_of_bytes [96; 116; 97; 98; 9; 104; 101; 114; 101; 96]%N) 45 31 false; mkTok 40 "," 45 42 false; mkTok 24 "int8" 45 43 false; mkTok 42 "tag" 45 48 false; mkTok 40 "," 45 52 false; mkTok 3 "}" 45 54 false; mkTok 0 "<EOF>" 46 0 false] (mkPacket (mkPtok 35 "packet" 1 0 0) (Some (mkPtok 3 "}" 45 54 162)) [(DPacket (mkPacketDef (mkSpan (mkPtok 35 "packet" 1 0 0) (mkPtok 3 "}" 33 0 129)) None (mkPtok 35 "packet" 1 0 0) (mkPtok 42 "uint8x" 2 0 1) (mkPtok 2 "{" 3 4 2) [(mkFieldWithAttr (mkSpan (mkPtok 12 "char[" 3 6 3) (mkPtok 40 "," 4 17 7)) [] (MetaField (mkSpan (mkPtok 12 "char[" 3 6 3) (mkPtok 40 "," 4 17 7)) None (mkMetaDecl (mkSpan (mkPtok 12 "char[" 3 6 3) (mkPtok 40 "," 4 17 7)) (TyFixed (mkSpan (mkPtok 12 "char[" 3 6 3) (mkPtok 13 "]" 4 6 5)) (mkFixedString (mkSpan (mkPtok 12 "char[" 3 6 3) (mkPtok 13 "]" 4 6 5)) (mkPtok 12 "char[" 3 6 3) (mkPtok 30 "65535" 4 0 4) (mkPtok 13 "]" 4 6 5))) (mkPtok 42 "matchKey" 4 8 6) None (mkPtok 40 "," 4 17 7)))); (mkFieldWithAttr (mkSpan (mkPtok 42 "rootA" 4 19 8) (mkPtok 40 "," 4 49 12)) [] (CheckSumField (mkSpan (mkPtok 42 "rootA" 4 19 8) (mkPtok 40 "," 4 49 12)) (mkChecksumFieldDecl (mkSpan (mkPtok 42 "rootA" 4 19 8) (mkPtok 40 "," 4 49 12)) None (mkPtok 42 "rootA" 4 19 8) (mkCalculatedFrom (mkSpan (mkPtok 5 "@calculatedFrom(" 4 25 9) (mkPtok 6 ")" 4 47 11)) (mkPtok 5 "@calculatedFrom(" 4 25 9) (mkPtok 31 (string_of_bytes [34; 195; 169; 116; 195; 169; 34]%N) 4 41 10) (mkPtok 6 ")" 4 47 11)) None (mkPtok 40 "," 4 49 12)))); (mkFieldWithAttr (mkSpan (mkPtok 9 "@tag(" 4 51 13) (mkPtok 40 "," 13 15 36)) [(FATag (mkSpan (mkPtok 9 "@tag(" 4 51 13) (mkPtok 6 ")" 5 11 16)) (mkTagAttr (mkSpan (mkPtok 9 "@tag(" 4 51 13) (mkPtok 6 ")" 5 11 16)) (mkPtok 9 "@tag(" 4 51 13) (mkPtok 30 "4294967296" 5 0 15) (mkPtok 6 ")" 5 11 16)))] (InerObjectField (mkSpan (mkPtok 42 "Header" 5 13 17) (mkPtok 40 "," 13 15 36)) None (InerObjectDecl (mkSpan (mkPtok 42 "Header" 5 13 17) (mkPtok 3 "}" 13 13 35)) (mkPtok 42 "Header" 5 13 17) (mkPtok 2 "{" 5 19 18) [(InerObjectField (mkSpan (mkPtok 42 "charz" 6 4 19) (mkPtok 40 "," 13 11 34)) None (InerObjectDecl (mkSpan (mkPtok 42 "charz" 6 4 19) (mkPtok 3 "}" 13 9 33)) (mkPtok 42 "charz" 6 4 19) (mkPtok 2 "{" 6 10 20) [(MetaField (mkSpan (mkPtok 36 "repeat" 6 12 21) (mkPtok 40 "," 8 4 24)) (Some (mkPtok 36 "repeat" 6 12 21)) (mkMetaDecl (mkSpan (mkPtok 19 "char" 7 4 22) (mkPtok 40 "," 8 4 24)) (TyBasic (mkSpan (mkPtok 19 "char" 7 4 22) (mkPtok 19 "char" 7 4 22)) (mkBasicType (mkSpan (mkPtok 19 "char" 7 4 22) (mkPtok 19 "char" 7 4 22)) (mkPtok 19 "char" 7 4 22))) (mkPtok 42 "falsey" 7 9 23) None (mkPtok 40 "," 8 4 24))); (MetaField (mkSpan (mkPtok 16 "char[]" 8 6 25) (mkPtok 40 "," 10 0 27)) None (mkMetaDecl (mkSpan (mkPtok 16 "char[]" 8 6 25) (mkPtok 40 "," 10 0 27)) (TyDynamic (mkSpan (mkPtok 16 "char[]" 8 6 25) (mkPtok 16 "char[]" 8 6 25)) (mkDynamicString (mkSpan (mkPtok 16 "char[]" 8 6 25) (mkPtok 16 "char[]" 8 6 25)) (mkPtok 16 "char[]" 8 6 25))) (mkPtok 42 "i8i8" 9 0 26) None (mkPtok 40 "," 10 0 27))); (ObjectField (mkSpan (mkPtok 42 "matchKey" 11 0 29) (mkPtok 40 "," 13 7 32)) None (mkPtok 42 "matchKey" 11 0 29) (Some (mkPtok 42 "a1" 13 4 31)) None (mkPtok 40 "," 13 7 32))] (mkPtok 3 "}" 13 9 33)) (mkPtok 40 "," 13 11 34))] (mkPtok 3 "}" 13 13 35)) (mkPtok 40 "," 13 15 36))); (mkFieldWithAttr (mkSpan (mkPtok 22 "u32" 13 17 37) (mkPtok 40 "," 14 7 43)) [] (LengthField (mkSpan (mkPtok 22 "u32" 13 17 37) (mkPtok 40 "," 14 7 43)) (mkLengthFieldDecl (mkSpan (mkPtok 22 "u32" 13 17 37) (mkPtok 40 "," 14 7 43)) (Some (TyBasic (mkSpan (mkPtok 22 "u32" 13 17 37) (mkPtok 22 "u32" 13 17 37)) (mkBasicType (mkSpan (mkPtok 22 "u32" 13 17 37) (mkPtok 22 "u32" 13 17 37)) (mkPtok 22 "u32" 13 17 37)))) (mkPtok 42 "packetx" 13 21 38) (mkLengthOf (mkSpan (mkPtok 7 "@lengthOf(" 13 29 39) (mkPtok 6 ")" 13 46 41)) (mkPtok 7 "@lengthOf(" 13 29 39) (mkPtok 42 "zchar" 13 40 40) (mkPtok 6 ")" 13 46 41)) (Some (mkPtok 43 (string_of_bytes [96; 108; 105; 110; 101; 49; 10; 108; 105; 110; 101; 50; 96]%N) 13 47 42)) (mkPtok 40 "," 14 7 43)))); (mkFieldWithAttr (mkSpan (mkPtok 14 "zchar[" 15 0 44) (mkPtok 40 "," 18 20 51)) [] (MetaField (mkSpan (mkPtok 14 "zchar[" 15 0 44) (mkPtok 40 "," 18 20 51)) None (mkMetaDecl (mkSpan (mkPtok 14 "zchar[" 15 0 44) (mkPtok 40 "," 18 20 51)) (TyFixed (mkSpan (mkPtok 14 "zchar[" 15 0 44) (mkPtok 13 "]" 18 0 48)) (mkFixedString (mkSpan (mkPtok 14 "zchar[" 15 0 44) (mkPtok 13 "]" 18 0 48)) (mkPtok 14 "zchar[" 15 0 44) (mkPtok 30 "0123456789" 15 7 45) (mkPtok 13 "]" 18 0 48))) (mkPtok 42 "trueish" 18 2 49) (Some (mkPtok 43 (string_of_bytes [96; 116; 97; 98; 9; 104; 101; 114; 101; 96]%N) 18 10 50)) (mkPtok 40 "," 18 20 51)))); (mkFieldWithAttr (mkSpan (mkPtok 5 "@calculatedFrom(" 18 22 52) (mkPtok 40 "," 18 74 59)) [(FACalculatedFrom (mkSpan (mkPtok 5 "@calculatedFrom(" 18 22 52) (mkPtok 6 ")" 18 45 54)) (mkCalculatedFrom (mkSpan (mkPtok 5 "@calculatedFrom(" 18 22 52) (mkPtok 6 ")" 18 45 54)) (mkPtok 5 "@calculatedFrom(" 18 22 52) (mkPtok 31 (string_of_bytes [34; 92; 195; 169; 34]%N) 18 39 53) (mkPtok 6 ")" 18 45 54)))] (CheckSumField (mkSpan (mkPtok 42 "u128" 18 47 55) (mkPtok 40 "," 18 74 59)) (mkChecksumFieldDecl (mkSpan (mkPtok 42 "u128" 18 47 55) (mkPtok 40 "," 18 74 59)) None (mkPtok 42 "u128" 18 47 55) (mkCalculatedFrom (mkSpan (mkPtok 5 "@calculatedFrom(" 18 52 56) (mkPtok 6 ")" 18 72 58)) (mkPtok 5 "@calculatedFrom(" 18 52 56) (mkPtok 31 """\n""" 18 68 57) (mkPtok 6 ")" 18 72 58)) None (mkPtok 40 "," 18 74 59)))); (mkFieldWithAttr (mkSpan (mkPtok 36 "repeat" 18 75 60) (mkPtok 40 "," 32 0 117)) [] (InerObjectField (mkSpan (mkPtok 36 "repeat" 18 75 60) (mkPtok 40 "," 32 0 117)) (Some (mkPtok 36 "repeat" 18 75 60)) (InerObjectDecl (mkSpan (mkPtok 42 "crc" 18 82 61) (mkPtok 3 "}" 31 6 116)) (mkPtok 42 "crc" 18 82 61) (mkPtok 2 "{" 18 86 62) [(MatchField (mkSpan (mkPtok 38 "match" 18 87 63) (mkPtok 40 "," 25 6 94)) (mkMatchFieldDecl (mkSpan (mkPtok 38 "match" 18 87 63) (mkPtok 3 "}" 25 4 93)) (mkPtok 38 "match" 18 87 63) (mkPtok 42 "pack" 18 93 64) (mkPtok 17 "as" 19 4 65) (mkPtok 42 "body" 19 7 66) (mkPtok 2 "{" 19 12 67) [(mkMatchPair (mkSpan (mkPtok 18 "[" 19 14 68) (mkPtok 40 "," 19 33 73)) (MKList (mkKeyList (mkSpan (mkPtok 18 "[" 19 14 68) (mkPtok 13 "]" 19 21 70)) (mkPtok 18 "[" 19 14 68) (mkPtok 31 (string_of_bytes [34; 92; 195; 169; 34]%N) 19 16 69) [] (mkPtok 13 "]" 19 21 70))) (mkPtok 39 ":" 19 22 71) (mkPtok 42 "options1" 19 24 72) (Some (mkPtok 40 "," 19 33 73))); (mkMatchPair (mkSpan (mkPtok 30 "0" 19 35 74) (mkPtok 42 "body" 19 39 76)) (MKDigits (mkPtok 30 "0" 19 35 74)) (mkPtok 39 ":" 19 37 75) (mkPtok 42 "body" 19 39 76) None); (mkMatchPair (mkSpan (mkPtok 30 "42" 19 44 77) (mkPtok 40 "," 20 6 80)) (MKDigits (mkPtok 30 "42" 19 44 77)) (mkPtok 39 ":" 19 47 78) (mkPtok 42 "As" 20 4 79) (Some (mkPtok 40 "," 20 6 80))); (mkMatchPair (mkSpan (mkPtok 30 "42" 20 8 81) (mkPtok 40 "," 20 21 84)) (MKDigits (mkPtok 30 "42" 20 8 81)) (mkPtok 39 ":" 20 11 82) (mkPtok 42 "leftPad" 20 13 83) (Some (mkPtok 40 "," 20 21 84))); (mkMatchPair (mkSpan (mkPtok 31 """a\\""" 21 0 85) (mkPtok 40 "," 23 4 88)) (MKString (mkPtok 31 """a\\""" 21 0 85)) (mkPtok 39 ":" 21 6 86) (mkPtok 42 "calculatedFrom" 22 4 87) (Some (mkPtok 40 "," 23 4 88))); (mkMatchPair (mkSpan (mkPtok 30 "42" 24 4 89) (mkPtok 40 "," 25 2 92)) (MKDigits (mkPtok 30 "42" 24 4 89)) (mkPtok 39 ":" 24 7 90) (mkPtok 42 "o" 25 0 91) (Some (mkPtok 40 "," 25 2 92)))] (mkPtok 3 "}" 25 4 93)) (mkPtok 40 "," 25 6 94)); (CheckSumField (mkSpan (mkPtok 42 "options1" 25 8 95) (mkPtok 40 "," 26 4 100)) (mkChecksumFieldDecl (mkSpan (mkPtok 42 "options1" 25 8 95) (mkPtok 40 "," 26 4 100)) None (mkPtok 42 "options1" 25 8 95) (mkCalculatedFrom (mkSpan (mkPtok 5 "@calculatedFrom(" 25 16 96) (mkPtok 6 ")" 26 0 98)) (mkPtok 5 "@calculatedFrom(" 25 16 96) (mkPtok 31 """`tick`""" 25 33 97) (mkPtok 6 ")" 26 0 98)) (Some (mkPtok 43 "``" 26 1 99)) (mkPtok 40 "," 26 4 100))); (MatchField (mkSpan (mkPtok 38 "match" 26 5 101) (mkPtok 40 "," 28 4 111)) (mkMatchFieldDecl (mkSpan (mkPtok 38 "match" 26 5 101) (mkPtok 3 "}" 28 2 110)) (mkPtok 38 "match" 26 5 101) (mkPtok 42 "a1" 26 11 102) (mkPtok 17 "as" 27 0 103) (mkPtok 42 "rootA" 27 3 104) (mkPtok 2 "{" 27 9 105) [(mkMatchPair (mkSpan (mkPtok 31 """a\\""" 27 11 106) (mkPtok 40 "," 28 0 109)) (MKString (mkPtok 31 """a\\""" 27 11 106)) (mkPtok 39 ":" 27 16 107) (mkPtok 42 "Z9_" 27 18 108) (Some (mkPtok 40 "," 28 0 109)))] (mkPtok 3 "}" 28 2 110)) (mkPtok 40 "," 28 4 111)); (MetaField (mkSpan (mkPtok 20 "uint8" 30 4 113) (mkPtok 40 "," 31 4 115)) None (mkMetaDecl (mkSpan (mkPtok 20 "uint8" 30 4 113) (mkPtok 40 "," 31 4 115)) (TyBasic (mkSpan (mkPtok 20 "uint8" 30 4 113) (mkPtok 20 "uint8" 30 4 113)) (mkBasicType (mkSpan (mkPtok 20 "uint8" 30 4 113) (mkPtok 20 "uint8" 30 4 113)) (mkPtok 20 "uint8" 30 4 113))) (mkPtok 42 "A" 30 10 114) None (mkPtok 40 "," 31 4 115)))] (mkPtok 3 "}" 31 6 116)) (mkPtok 40 "," 32 0 117))); (mkFieldWithAttr (mkSpan (mkPtok 5 "@calculatedFrom(" 32 2 118) (mkPtok 40 "," 32 40 124)) [(FACalculatedFrom (mkSpan (mkPtok 5 "@calculatedFrom(" 32 2 118) (mkPtok 6 ")" 32 23 120)) (mkCalculatedFrom (mkSpan (mkPtok 5 "@calculatedFrom(" 32 2 118) (mkPtok 6 ")" 32 23 120)) (mkPtok 5 "@calculatedFrom(" 32 2 118) (mkPtok 31 (string_of_bytes [34; 230; 182; 136; 230; 129; 175; 34]%N) 32 18 119) (mkPtok 6 ")" 32 23 120)))] (MetaField (mkSpan (mkPtok 23 "u64" 32 25 121) (mkPtok 40 "," 32 40 124)) None (mkMetaDecl (mkSpan (mkPtok 23 "u64" 32 25 121) (mkPtok 40 "," 32 40 124)) (TyBasic (mkSpan (mkPtok 23 "u64" 32 25 121) (mkPtok 23 "u64" 32 25 121)) (mkBasicType (mkSpan (mkPtok 23 "u64" 32 25 121) (mkPtok 23 "u64" 32 25 121)) (mkPtok 23 "u64" 32 25 121))) (mkPtok 42 "charz" 32 29 122) (Some (mkPtok 43 "`a\`" 32 35 123)) (mkPtok 40 "," 32 40 124)))); (mkFieldWithAttr (mkSpan (mkPtok 36 "repeat" 32 41 125) (mkPtok 40 "," 32 55 128)) [] (MetaField (mkSpan (mkPtok 36 "repeat" 32 41 125) (mkPtok 40 "," 32 55 128)) (Some (mkPtok 36 "repeat" 32 41 125)) (mkMetaDecl (mkSpan (mkPtok 21 "u16" 32 48 126) (mkPtok 40 "," 32 55 128)) (TyBasic (mkSpan (mkPtok 21 "u16" 32 48 126) (mkPtok 21 "u16" 32 48 126)) (mkBasicType (mkSpan (mkPtok 21 "u16" 32 48 126) (mkPtok 21 "u16" 32 48 126)) (mkPtok 21 "u16" 32 48 126))) (mkPtok 42 "As" 32 52 127) None (mkPtok 40 "," 32 55 128))))] (mkPtok 3 "}" 33 0 129))); (DPacket (mkPacketDef (mkSpan (mkPtok 35 "packet" 36 0 132) (mkPtok 3 "}" 39 7 137)) None (mkPtok 35 "packet" 36 0 132) (mkPtok 42 "rootA" 39 0 135) (mkPtok 2 "{" 39 6 136) [] (mkPtok 3 "}" 39 7 137))); (DMeta (mkMetaDef (mkSpan (mkPtok 37 "MetaData" 39 8 138) (mkPtok 3 "}" 40 6 144)) (mkPtok 37 "MetaData" 39 8 138) (mkPtok 42 "metadata" 39 17 139) (mkPtok 2 "{" 39 26 140) [(MIDecl (mkMetaDecl (mkSpan (mkPtok 29 "float64" 39 28 141) (mkPtok 40 "," 40 4 143)) (TyBasic (mkSpan (mkPtok 29 "float64" 39 28 141) (mkPtok 29 "float64" 39 28 141)) (mkBasicType (mkSpan (mkPtok 29 "float64" 39 28 141) (mkPtok 29 "float64" 39 28 141)) (mkPtok 29 "float64" 39 28 141))) (mkPtok 42 "rootA" 39 36 142) None (mkPtok 40 "," 40 4 143)))] (mkPtok 3 "}" 40 6 144))); (DMeta (mkMetaDef (mkSpan (mkPtok 37 "MetaData" 41 0 146) (mkPtok 3 "}" 45 54 162)) (mkPtok 37 "MetaData" 41 0 146) (mkPtok 42 "asx" 42 0 147) (mkPtok 2 "{" 43 4 148) [(MIRef (mkRefMetaDecl (mkSpan (mkPtok 42 "u128" 43 6 149) (mkPtok 40 "," 44 2 151)) (mkPtok 42 "u128" 43 6 149) (mkPtok 42 "o" 44 0 150) None (mkPtok 40 "," 44 2 151))); (MIRef (mkRefMetaDecl (mkSpan (mkPtok 42 "A" 45 0 152) (mkPtok 40 "," 45 8 154)) (mkPtok 42 "A" 45 0 152) (mkPtok 42 "x_y_z" 45 2 153) None (mkPtok 40 "," 45 8 154))); (MIRef (mkRefMetaDecl (mkSpan (mkPtok 42 "calculatedFrom" 45 10 155) (mkPtok 40 "," 45 42 158)) (mkPtok 42 "calculatedFrom" 45 10 155) (mkPtok 42 "charz" 45 25 156) (Some (mkPtok 43 (string_of_bytes [96; 116; 97; 98; 9; 104; 101; 114; 101; 96]%N) 45 31 157)) (mkPtok 40 "," 45 42 158))); (MIDecl (mkMetaDecl (mkSpan (mkPtok 24 "int8" 45 43 159) (mkPtok 40 "," 45 52 161)) (TyBasic (mkSpan (mkPtok 24 "int8" 45 43 159) (mkPtok 24 "int8" 45 43 159)) (mkBasicType (mkSpan (mkPtok 24 "int8" 45 43 159) (mkPtok 24 "int8" 45 43 159)) (mkPtok 24 "int8" 45 43 159))) (mkPtok 42 "tag" 45 48 160) None (mkPtok 40 "," 45 52 161)))] (mkPtok 3 "}" 45 54 162)))])).
Eval vm_compute in ("<<<M135>>>" ++ check (runes_of_ascii "MetaData
    u128 { //x
i8i8 T ,metadata
    T , //
string x_y_z , uint16
A `doc` ,i64 pack ,
}
")).
Eval vm_compute in ("<<<M145>>>" ++ check (runes_of_ascii "packet	pack
    {tag
// " ++ [128512]%N ++ runes_of_ascii " emoji
// " ++ [27880; 37322]%N ++ runes_of_ascii "
{	MetaDataX zchar ,
match
i8i8
as // " ++ [27880; 37322]%N ++ runes_of_ascii "
zchar { 0123456789 :
    Z9_ [
0123456789 ,
    """" ]
    :
metadata , }
,char[	007 ]
falsey `` ,
    char[ 7 ] f32a
, },
repeat zchar{	char[]
body @calculatedFrom( ""a\\"" ) ,
    }, @rightPad
(
// `tick` ""quote"" 'q'
//
' '	)  repeat i32  uint8x `it's` , repeat char[ 10
    ] u128 , i64 calculatedFrom  , } // packet A { u8 x, }")).
Eval vm_compute in ("<<<M155>>>" ++ check (runes_of_ascii "MetaData// " ++ [128512]%N ++ runes_of_ascii " emoji
trueish // " ++ [128512]%N ++ runes_of_ascii " emoji
{ char[
    0 // packet A { u8 x, }
]charz
    `two words` ,}")).
Eval vm_compute in ("<<<M165>>>" ++ check (runes_of_ascii "// `tick` ""quote"" 'q'
MetaData
A {int
BodyLength
    `u8 x,` , uint8 asx ,  string	_x, u16
    pack
    , i16
    // a // b
    i64_ `line1
line2`
    ,	zchar[ 65535 ] body ,
    }")).
Eval vm_compute in ("<<<M175>>>" ++ check (runes_of_ascii "
packet crc { zchar[ 42 //
] string_ `
` ,  int64
    As @calculatedFrom( //
""" ++ [128512]%N ++ runes_of_ascii """
// c
//	t
) `
`
,  A@calculatedFrom( ""packet""
) // " ++ [27880; 37322]%N ++ runes_of_ascii "
,@lengthOf(i64_ ) string roots
    @calculatedFrom(
    ""abc"" )`
` , } // " ++ [128512]%N ++ runes_of_ascii " emoji")).
Eval vm_compute in ("<<<M185>>>" ++ check (runes_of_ascii "MetaData	repeatCount
{ string BodyLength , uint32
    roots  , float32 BodyLength
,i32	Header ``,
char[]
o , }")).
Eval vm_compute in ("<<<M195>>>" ++ check (runes_of_ascii "packet
    msg_type {
@tag( 10 )int16
    //
    T
`" ++ [233]%N ++ runes_of_ascii "`
,
    u32 a1
    , char[
    //x
    0] // c
crc
    , uint64 string_@calculatedFrom(  """ ++ [28040; 24687]%N ++ runes_of_ascii """) , }
")).
Eval vm_compute in ("<<<T195>>>" ++ terms [mkTok 35 "packet" 1 0 false; mkTok 42 "msg_type" 2 4 false; mkTok 2 "{" 2 13 false; mkTok 9 "@tag(" 3 0 false; mkTok 30 "10" 3 6 false; mkTok 6 ")" 3 9 false; mkTok 25 "int16" 3 10 false; mkTok 44 "//" 4 4 true; mkTok 42 "T" 5 4 false; mkTok 43 (string_of_bytes [96; 195; 169; 96]%N) 6 0 false; mkTok 40 "," 7 0 false; mkTok 22 "u32" 8 4 false; mkTok 42 "a1" 8 8 false; mkTok 40 "," 9 4 false; mkTok 12 "char[" 9 6 false; mkTok 44 "//x" 10 4 true; mkTok 30 "0" 11 4 false; mkTok 13 "]" 11 5 false; mkTok 44 "// c" 11 7 true; mkTok 42 "crc" 12 0 false; mkTok 40 "," 13 4 false; mkTok 23 "uint64" 13 6 false; mkTok 42 "string_" 13 13 false; mkTok 5 "@calculatedFrom(" 13 20 false; mkTok 31 (string_of_bytes [34; 230; 182; 136; 230; 129; 175; 34]%N) 13 38 false; mkTok 6 ")" 13 42 false; mkTok 40 "," 13 44 false; mkTok 3 "}" 13 46 false; mkTok 0 "<EOF>" 14 0 false] (mkPacket (mkPtok 35 "packet" 1 0 0) (Some (mkPtok 3 "}" 13 46 27)) [(DPacket (mkPacketDef (mkSpan (mkPtok 35 "packet" 1 0 0) (mkPtok 3 "}" 13 46 27)) None (mkPtok 35 "packet" 1 0 0) (mkPtok 42 "msg_type" 2 4 1) (mkPtok 2 "{" 2 13 2) [(mkFieldWithAttr (mkSpan (mkPtok 9 "@tag(" 3 0 3) (mkPtok 40 "," 7 0 10)) [(FATag (mkSpan (mkPtok 9 "@tag(" 3 0 3) (mkPtok 6 ")" 3 9 5)) (mkTagAttr (mkSpan (mkPtok 9 "@tag(" 3 0 3) (mkPtok 6 ")" 3 9 5)) (mkPtok 9 "@tag(" 3 0 3) (mkPtok 30 "10" 3 6 4) (mkPtok 6 ")" 3 9 5)))] (MetaField (mkSpan (mkPtok 25 "int16" 3 10 6) (mkPtok 40 "," 7 0 10)) None (mkMetaDecl (mkSpan (mkPtok 25 "int16" 3 10 6) (mkPtok 40 "," 7 0 10)) (TyBasic (mkSpan (mkPtok 25 "int16" 3 10 6) (mkPtok 25 "int16" 3 10 6)) (mkBasicType (mkSpan (mkPtok 25 "int16" 3 10 6) (mkPtok 25 "int16" 3 10 6)) (mkPtok 25 "int16" 3 10 6))) (mkPtok 42 "T" 5 4 8) (Some (mkPtok 43 (string_of_bytes [96; 195; 169; 96]%N) 6 0 9)) (mkPtok 40 "," 7 0 10)))); (mkFieldWithAttr (mkSpan (mkPtok 22 "u32" 8 4 11) (mkPtok 40 "," 9 4 13)) [] (MetaField (mkSpan (mkPtok 22 "u32" 8 4 11) (mkPtok 40 "," 9 4 13)) None (mkMetaDecl (mkSpan (mkPtok 22 "u32" 8 4 11) (mkPtok 40 "," 9 4 13)) (TyBasic (mkSpan (mkPtok 22 "u32" 8 4 11) (mkPtok 22 "u32" 8 4 11)) (mkBasicType (mkSpan (mkPtok 22 "u32" 8 4 11) (mkPtok 22 "u32" 8 4 11)) (mkPtok 22 "u32" 8 4 11))) (mkPtok 42 "a1" 8 8 12) None (mkPtok 40 "," 9 4 13)))); (mkFieldWithAttr (mkSpan (mkPtok 12 "char[" 9 6 14) (mkPtok 40 "," 13 4 20)) [] (MetaField (mkSpan (mkPtok 12 "char[" 9 6 14) (mkPtok 40 "," 13 4 20)) None (mkMetaDecl (mkSpan (mkPtok 12 "char[" 9 6 14) (mkPtok 40 "," 13 4 20)) (TyFixed (mkSpan (mkPtok 12 "char[" 9 6 14) (mkPtok 13 "]" 11 5 17)) (mkFixedString (mkSpan (mkPtok 12 "char[" 9 6 14) (mkPtok 13 "]" 11 5 17)) (mkPtok 12 "char[" 9 6 14) (mkPtok 30 "0" 11 4 16) (mkPtok 13 "]" 11 5 17))) (mkPtok 42 "crc" 12 0 19) None (mkPtok 40 "," 13 4 20)))); (mkFieldWithAttr (mkSpan (mkPtok 23 "uint64" 13 6 21) (mkPtok 40 "," 13 44 26)) [] (CheckSumField (mkSpan (mkPtok 23 "uint64" 13 6 21) (mkPtok 40 "," 13 44 26)) (mkChecksumFieldDecl (mkSpan (mkPtok 23 "uint64" 13 6 21) (mkPtok 40 "," 13 44 26)) (Some (TyBasic (mkSpan (mkPtok 23 "uint64" 13 6 21) (mkPtok 23 "uint64" 13 6 21)) (mkBasicType (mkSpan (mkPtok 23 "uint64" 13 6 21) (mkPtok 23 "uint64" 13 6 21)) (mkPtok 23 "uint64" 13 6 21)))) (mkPtok 42 "string_" 13 13 22) (mkCalculatedFrom (mkSpan (mkPtok 5 "@calculatedFrom(" 13 20 23) (mkPtok 6 ")" 13 42 25)) (mkPtok 5 "@calculatedFrom(" 13 20 23) (mkPtok 31 (string_of_bytes [34; 230; 182; 136; 230; 129; 175; 34]%N) 13 38 24) (mkPtok 6 ")" 13 42 25)) None (mkPtok 40 "," 13 44 26))))] (mkPtok 3 "}" 13 46 27)))])).
Eval vm_compute in ("<<<M205>>>" ++ check (runes_of_ascii "packet matchKey { @calculatedFrom( ""\" ++ [233]%N ++ runes_of_ascii """ )@lengthOf(
    x_y_z )@rightPad
( ' ' //x
)MetaDataX
    // `tick` ""quote"" 'q'
    u8x // " ++ [128512]%N ++ runes_of_ascii " emoji
, } root
    packet
// trailing space 
// trailing space 
rootA /// triple
{ @tag( 4294967296
    ) match
body as packetx // a // b
{
    ""\n"" :chars
    ,	} ,} options {  string_ // " ++ [128512]%N ++ runes_of_ascii " emoji
=float32 ;
    x ='\x00' chars
=  string; zchar = ""it's"" }
    root
    packet
a1
    {
int32
    Pad `u8 x,` , }	MetaData
    packetx	{
    char[]A `say ""hi""`// " ++ [128512]%N ++ runes_of_ascii " emoji
, }
")).
Eval vm_compute in ("<<<M215>>>" ++ check (runes_of_ascii "options { Logon/// triple
= false ;} packet trueish
{
    @calculatedFrom( """" ) zchar[65535] float @calculatedFrom( ""`tick`"" ) , int8
crc @calculatedFrom( ""{,}""
    ) ,
@lengthOf( calculatedFrom )@leftPad ( '0' )  @rightPad
    (  ) uint16 x`two words`
    , // `tick` ""quote"" 'q'
matchKey {
// " ++ [128512]%N ++ runes_of_ascii " emoji
//	t
repeat tag
{
// " ++ [128512]%N ++ runes_of_ascii " emoji
//x
match charz as asx{ 007: A	,
    }
    ,f32 packetx ,
} , // " ++ [128512]%N ++ runes_of_ascii " emoji
match leftPad as _x {[ ""it's""
,0,""\n"" // " ++ [27880; 37322]%N ++ runes_of_ascii "
,007 ]
    : Pad //	t
,65535	:
// @lengthOf(
// packet A { u8 x, }
chars ,""{,}"" :  As  , 0123456789 : u8x[
    """ ++ [28040; 24687]%N ++ runes_of_ascii """
    , 42 // @lengthOf(
]//	t
:
u8x, ""a\""b"" /// triple
: _x },len  @lengthOf(lengthOf	)	`" ++ [233]%N ++ runes_of_ascii "` , u
{ char[] Header `u8 x,` ,
    // trailing space 
    }, } , match crc	as
leftPad { [7
] : u
    } // trailing space 
,
@leftPad
    ( ' ')  repeat
int { repeat u16	pack `// not a comment` ,} , i64 Pad
, repeat i8
// " ++ [27880; 37322]%N ++ runes_of_ascii "
// `tick` ""quote"" 'q'
calculatedFrom ,//	t
}packet tag  { repeat string
    asx  ,} options
{ uint8x=char[
    0123456789 ]	Header
= uint8 f32a =// " ++ [27880; 37322]%N ++ runes_of_ascii "
true Pad = '0' // " ++ [27880; 37322]%N ++ runes_of_ascii "
; string_ = 00 ;
//
// c
}
    packet body{ i64 int @calculatedFrom(
""a\""b""
// @lengthOf(
/// triple
)
`// not a comment`, @leftPad (
    )
    float { //
zchar options1``	,i8 string_ @calculatedFrom( ""a\""b""
)  , char[
4294967296
    ]leftPad , } ,
@rightPad //	t
('\x00'
    ) repeatCount
    @lengthOf(
len) `a\` , repeat
    Foo
{
uint8 int
`two words` , } ,
@tag( 3)
    @lengthOf( stringy
)char[]
calculatedFrom `// not a comment` , repeat
    crc
`a\`, As
,}
")).
Eval vm_compute in ("<<<M225>>>" ++ check (runes_of_ascii "MetaData As {Foo Logon `tab	here`,
    Logon
    Packet //	t
,float32 Packet ,
    // trailing space 
    } options{Z9_ // " ++ [128512]%N ++ runes_of_ascii " emoji
=0 u8x
    // c
    = ""\" ++ [233]%N ++ runes_of_ascii """ } MetaData
    body
    { char[] packetx ,u8x Pad ,
}
")).
Eval vm_compute in ("<<<M235>>>" ++ check (runes_of_ascii "// trailing space 
MetaData As{ rootA f32a ,Foo pack `say ""hi""`
, // a // b
}options {
    T
    = ' '
metadata = 10 ;
    matchKey =
true
    //
    ;
T=	char[]  ;} MetaData float {} packet Logon
    { @tag( 10 ) // a // b
u16 calculatedFrom
    // a // b
    `
` , match leftPad as
Pad{ 007 :  x	, 3
// c
// packet A { u8 x, }
: // trailing space 
A
// " ++ [128512]%N ++ runes_of_ascii " emoji
//x
,
[0 // c
,	"""" //x
]
//
// c
: // " ++ [128512]%N ++ runes_of_ascii " emoji
packetx , [
    ""abc"" ,  """ ++ [233]%N ++ runes_of_ascii "t" ++ [233]%N ++ runes_of_ascii """
] :
// @lengthOf(
// `tick` ""quote"" 'q'
falsey , 00 :/// triple
BodyLength, ""a\""b"" :// trailing space 
u128,}
,
    Header {  string packetx@calculatedFrom(
""\n"" )	,	a1 , match roots
    // a // b
    as As
    {
    ""\n"" : float ,},
char Foo,
}  ,	u32
o @calculatedFrom(	""packet"" )
`say ""hi""`, uint32
matchKey `tab	here`, // @lengthOf(
@lengthOf( repeatCount ) //x
@lengthOf( Pad )	float64 falsey@calculatedFrom( ""\n"" ) ,// packet A { u8 x, }
@calculatedFrom( //
""{,}"" ) f32 string_ , @calculatedFrom( ""`tick`"")Pad , repeat
    string Packet ,
    }
")).
Eval vm_compute in ("<<<M245>>>" ++ check (runes_of_ascii "// packet A { u8 x, }
packet a1 //	t
{  repeat asx
    { //
repeat
    falsey { match Packet // @lengthOf(
as
    //x
    rootA { [
""" ++ [28040; 24687]%N ++ runes_of_ascii """
, """ ++ [28040; 24687]%N ++ runes_of_ascii """ ]:u128, 7
: repeatCount
, }	,
    repeat
    // " ++ [27880; 37322]%N ++ runes_of_ascii "
    zchar[1] calculatedFrom , char[]x @calculatedFrom( """ ++ [28040; 24687]%N ++ runes_of_ascii """
),
match
    // " ++ [128512]%N ++ runes_of_ascii " emoji
    lengthOf // c
as asx  { 10: Foo	}
    , } , },	@calculatedFrom( ""packet"" )// " ++ [128512]%N ++ runes_of_ascii " emoji
float32 repeatCount@lengthOf(
uint8x )`doc` , match T as // a // b
asx{ // c
[""""
,0
// packet A { u8 x, }
//
,
    007
// a // b
// packet A { u8 x, }
,// c
""`tick`""  , ""`tick`"", 0123456789 ,	007]
    // trailing space 
    :leftPad , [ ""1"" ,1, 0,
007 ,// packet A { u8 x, }
""it's""
,
// " ++ [128512]%N ++ runes_of_ascii " emoji
//
""\n""
] : asx ,1
:  trueish ,  } ,@tag( 3 ) char[] msg_type ,
// a // b
/// triple
@tag( /// triple
0)repeat
uint16
    chars ,
// c
// a // b
string Logon , // packet A { u8 x, }
int64 options1,
@lengthOf( T )char metadata@lengthOf( BodyLength )`" ++ [233]%N ++ runes_of_ascii "` ,} // c")).
Eval vm_compute in ("<<<M255>>>" ++ check (runes_of_ascii " 	 ")).
Eval vm_compute in ("<<<M265>>>" ++ check (runes_of_ascii "root packet i64_ { @rightPad( // trailing space 
'\x00' ) /// triple
repeat o {int32 body	@lengthOf(x_y_z
) `say ""hi""` , char[] falsey
    @lengthOf( Z9_ ) ,
}
//x
// `tick` ""quote"" 'q'
, } packet
f32a {	@lengthOf(
    // `tick` ""quote"" 'q'
    i8i8  )
roots
@calculatedFrom( ""// no comment"" ) , @lengthOf(
int )char[ 4294967296] // " ++ [27880; 37322]%N ++ runes_of_ascii "
options1, }
")).
Eval vm_compute in ("<<<T265>>>" ++ terms [mkTok 34 "root" 1 0 false; mkTok 35 "packet" 1 5 false; mkTok 42 "i64_" 1 12 false; mkTok 2 "{" 1 17 false; mkTok 32 "@rightPad" 1 19 false; mkTok 8 "(" 1 28 false; mkTok 44 "// trailing space " 1 30 true; mkTok 33 "'\x00'" 2 0 false; mkTok 6 ")" 2 7 false; mkTok 44 "/// triple" 2 9 true; mkTok 36 "repeat" 3 0 false; mkTok 42 "o" 3 7 false; mkTok 2 "{" 3 9 false; mkTok 26 "int32" 3 10 false; mkTok 42 "body" 3 16 false; mkTok 7 "@lengthOf(" 3 21 false; mkTok 42 "x_y_z" 3 31 false; mkTok 6 ")" 4 0 false; mkTok 43 "`say ""hi""`" 4 2 false; mkTok 40 "," 4 13 false; mkTok 16 "char[]" 4 15 false; mkTok 42 "falsey" 4 22 false; mkTok 7 "@lengthOf(" 5 4 false; mkTok 42 "Z9_" 5 15 false; mkTok 6 ")" 5 19 false; mkTok 40 "," 5 21 false; mkTok 3 "}" 6 0 false; mkTok 44 "//x" 7 0 true; mkTok 44 "// `tick` ""quote"" 'q'" 8 0 true; mkTok 40 "," 9 0 false; mkTok 3 "}" 9 2 false; mkTok 35 "packet" 9 4 false; mkTok 42 "f32a" 10 0 false; mkTok 2 "{" 10 5 false; mkTok 7 "@lengthOf(" 10 7 false; mkTok 44 "// `tick` ""quote"" 'q'" 11 4 true; mkTok 42 "i8i8" 12 4 false; mkTok 6 ")" 12 10 false; mkTok 42 "roots" 13 0 false; mkTok 5 "@calculatedFrom(" 14 0 false; mkTok 31 """// no comment""" 14 17 false; mkTok 6 ")" 14 33 false; mkTok 40 "," 14 35 false; mkTok 7 "@lengthOf(" 14 37 false; mkTok 42 "int" 15 0 false; mkTok 6 ")" 15 4 false; mkTok 12 "char[" 15 5 false; mkTok 30 "4294967296" 15 11 false; mkTok 13 "]" 15 21 false; mkTok 44 (string_of_bytes [47; 47; 32; 230; 179; 168; 233; 135; 138]%N) 15 23 true; mkTok 42 "options1" 16 0 false; mkTok 40 "," 16 8 false; mkTok 3 "}" 16 10 false; mkTok 0 "<EOF>" 17 0 false] (mkPacket (mkPtok 34 "root" 1 0 0) (Some (mkPtok 3 "}" 16 10 52)) [(DPacket (mkPacketDef (mkSpan (mkPtok 34 "root" 1 0 0) (mkPtok 3 "}" 9 2 30)) (Some (mkPtok 34 "root" 1 0 0)) (mkPtok 35 "packet" 1 5 1) (mkPtok 42 "i64_" 1 12 2) (mkPtok 2 "{" 1 17 3) [(mkFieldWithAttr (mkSpan (mkPtok 32 "@rightPad" 1 19 4) (mkPtok 40 "," 9 0 29)) [(FAPadding (mkSpan (mkPtok 32 "@rightPad" 1 19 4) (mkPtok 6 ")" 2 7 8)) (mkPaddingAttr (mkSpan (mkPtok 32 "@rightPad" 1 19 4) (mkPtok 6 ")" 2 7 8)) (mkPtok 32 "@rightPad" 1 19 4) (mkPtok 8 "(" 1 28 5) (Some (mkPtok 33 "'\x00'" 2 0 7)) (mkPtok 6 ")" 2 7 8)))] (InerObjectField (mkSpan (mkPtok 36 "repeat" 3 0 10) (mkPtok 40 "," 9 0 29)) (Some (mkPtok 36 "repeat" 3 0 10)) (InerObjectDecl (mkSpan (mkPtok 42 "o" 3 7 11) (mkPtok 3 "}" 6 0 26)) (mkPtok 42 "o" 3 7 11) (mkPtok 2 "{" 3 9 12) [(LengthField (mkSpan (mkPtok 26 "int32" 3 10 13) (mkPtok 40 "," 4 13 19)) (mkLengthFieldDecl (mkSpan (mkPtok 26 "int32" 3 10 13) (mkPtok 40 "," 4 13 19)) (Some (TyBasic (mkSpan (mkPtok 26 "int32" 3 10 13) (mkPtok 26 "int32" 3 10 13)) (mkBasicType (mkSpan (mkPtok 26 "int32" 3 10 13) (mkPtok 26 "int32" 3 10 13)) (mkPtok 26 "int32" 3 10 13)))) (mkPtok 42 "body" 3 16 14) (mkLengthOf (mkSpan (mkPtok 7 "@lengthOf(" 3 21 15) (mkPtok 6 ")" 4 0 17)) (mkPtok 7 "@lengthOf(" 3 21 15) (mkPtok 42 "x_y_z" 3 31 16) (mkPtok 6 ")" 4 0 17)) (Some (mkPtok 43 "`say ""hi""`" 4 2 18)) (mkPtok 40 "," 4 13 19))); (LengthField (mkSpan (mkPtok 16 "char[]" 4 15 20) (mkPtok 40 "," 5 21 25)) (mkLengthFieldDecl (mkSpan (mkPtok 16 "char[]" 4 15 20) (mkPtok 40 "," 5 21 25)) (Some (TyDynamic (mkSpan (mkPtok 16 "char[]" 4 15 20) (mkPtok 16 "char[]" 4 15 20)) (mkDynamicString (mkSpan (mkPtok 16 "char[]" 4 15 20) (mkPtok 16 "char[]" 4 15 20)) (mkPtok 16 "char[]" 4 15 20)))) (mkPtok 42 "falsey" 4 22 21) (mkLengthOf (mkSpan (mkPtok 7 "@lengthOf(" 5 4 22) (mkPtok 6 ")" 5 19 24)) (mkPtok 7 "@lengthOf(" 5 4 22) (mkPtok 42 "Z9_" 5 15 23) (mkPtok 6 ")" 5 19 24)) None (mkPtok 40 "," 5 21 25)))] (mkPtok 3 "}" 6 0 26)) (mkPtok 40 "," 9 0 29)))] (mkPtok 3 "}" 9 2 30))); (DPacket (mkPacketDef (mkSpan (mkPtok 35 "packet" 9 4 31) (mkPtok 3 "}" 16 10 52)) None (mkPtok 35 "packet" 9 4 31) (mkPtok 42 "f32a" 10 0 32) (mkPtok 2 "{" 10 5 33) [(mkFieldWithAttr (mkSpan (mkPtok 7 "@lengthOf(" 10 7 34) (mkPtok 40 "," 14 35 42)) [(FALengthOf (mkSpan (mkPtok 7 "@lengthOf(" 10 7 34) (mkPtok 6 ")" 12 10 37)) (mkLengthOf (mkSpan (mkPtok 7 "@lengthOf(" 10 7 34) (mkPtok 6 ")" 12 10 37)) (mkPtok 7 "@lengthOf(" 10 7 34) (mkPtok 42 "i8i8" 12 4 36) (mkPtok 6 ")" 12 10 37)))] (CheckSumField (mkSpan (mkPtok 42 "roots" 13 0 38) (mkPtok 40 "," 14 35 42)) (mkChecksumFieldDecl (mkSpan (mkPtok 42 "roots" 13 0 38) (mkPtok 40 "," 14 35 42)) None (mkPtok 42 "roots" 13 0 38) (mkCalculatedFrom (mkSpan (mkPtok 5 "@calculatedFrom(" 14 0 39) (mkPtok 6 ")" 14 33 41)) (mkPtok 5 "@calculatedFrom(" 14 0 39) (mkPtok 31 """// no comment""" 14 17 40) (mkPtok 6 ")" 14 33 41)) None (mkPtok 40 "," 14 35 42)))); (mkFieldWithAttr (mkSpan (mkPtok 7 "@lengthOf(" 14 37 43) (mkPtok 40 "," 16 8 51)) [(FALengthOf (mkSpan (mkPtok 7 "@lengthOf(" 14 37 43) (mkPtok 6 ")" 15 4 45)) (mkLengthOf (mkSpan (mkPtok 7 "@lengthOf(" 14 37 43) (mkPtok 6 ")" 15 4 45)) (mkPtok 7 "@lengthOf(" 14 37 43) (mkPtok 42 "int" 15 0 44) (mkPtok 6 ")" 15 4 45)))] (MetaField (mkSpan (mkPtok 12 "char[" 15 5 46) (mkPtok 40 "," 16 8 51)) None (mkMetaDecl (mkSpan (mkPtok 12 "char[" 15 5 46) (mkPtok 40 "," 16 8 51)) (TyFixed (mkSpan (mkPtok 12 "char[" 15 5 46) (mkPtok 13 "]" 15 21 48)) (mkFixedString (mkSpan (mkPtok 12 "char[" 15 5 46) (mkPtok 13 "]" 15 21 48)) (mkPtok 12 "char[" 15 5 46) (mkPtok 30 "4294967296" 15 11 47) (mkPtok 13 "]" 15 21 48))) (mkPtok 42 "options1" 16 0 50) None (mkPtok 40 "," 16 8 51))))] (mkPtok 3 "}" 16 10 52)))])).
Eval vm_compute in ("<<<M275>>>" ++ check (runes_of_ascii "
MetaData
uint8x	{ body
// a // b
// packet A { u8 x, }
T// `tick` ""quote"" 'q'
`line1
line2`,}	packet A { char[ 3 ]
calculatedFrom, } options { Logon =""a\""b""  ;  }
packet T
{repeat float ,}
packet
    i8i8
{	}
")).
Eval vm_compute in ("<<<M285>>>" ++ check (runes_of_ascii "MetaData As{// " ++ [27880; 37322]%N ++ runes_of_ascii "
int8 x , uint8
tag `tab	here`, }")).
Eval vm_compute in ("<<<M295>>>" ++ check (runes_of_ascii "/// triple
options {
    f32a	= i32 msg_type  = ""CRC32""
; }
")).
Eval vm_compute in ("<<<M305>>>" ++ check (runes_of_ascii "options {
	StringPrefixLenType = u16;
	ArrayPrefixLenType = u16;
}

packet SampleBinary {
	uint16 MsgType `" ++ [28040; 24687; 31867; 22411]%N ++ runes_of_ascii "`,
	u16 BodyLenght @lengthOf(Body) `" ++ [28040; 24687; 20307; 38271; 24230]%N ++ runes_of_ascii "`,
	match MsgType as Body {
		1 : Logon,
		2 : Logout,
		3 : Heartbeat,
		4 : RiskControlRequest,
		5 : RiskControlResponse,
	},
	@calculatedFrom(""CRC32"")
	u32 Ckecksum `" ++ [26657; 39564; 21644]%N ++ runes_of_ascii "`,
}

packet Logon {
	@leftPad('0')
	char[10] UserName `" ++ [29992; 25143; 21517]%N ++ runes_of_ascii "`,
	string Password `" ++ [23494; 30721]%N ++ runes_of_ascii "`,
	uint64 ClientId `" ++ [23458; 25143; 31471]%N ++ runes_of_ascii "ID`,
	u16 HeartbeatInterval `" ++ [24515; 36339; 38388; 38548]%N ++ runes_of_ascii "`,
}

packet Logout {
	@rightPad('0')
	char[10] UserName `" ++ [29992; 25143; 21517]%N ++ runes_of_ascii "`,
	uint64 ClientId `" ++ [23458; 25143; 31471]%N ++ runes_of_ascii "ID`,
}

packet Heartbeat {
}

packet RiskControlRequest {
	string UniqueOrderId `" ++ [21807; 19968; 35746; 21333; 21495]%N ++ runes_of_ascii "`,
	char[16] ClOrdID `" ++ [23458; 25143; 35746; 21333; 21495]%N ++ runes_of_ascii "`,
	char[3] MarketID `" ++ [24066; 22330]%N ++ runes_of_ascii "id`,
	char[12] SecurityID `" ++ [35777; 21048; 20195; 30721]%N ++ runes_of_ascii "`,
	char Side `" ++ [20080; 21334; 26041; 21521]%N ++ runes_of_ascii "`,
	char OrderType `" ++ [35746; 21333; 31867; 22411]%N ++ runes_of_ascii "`,
	u64 Price `" ++ [20215; 26684]%N ++ runes_of_ascii "`,
	u32 Qty `" ++ [25968; 37327]%N ++ runes_of_ascii "`,
	repeat string ExtraInfo `" ++ [38468; 21152; 20449; 24687]%N ++ runes_of_ascii "`,
	repeat SubOrder {
		char[16] ClOrdID `" ++ [23376; 35746; 21333; 21495]%N ++ runes_of_ascii "`,
		u64 Price `" ++ [23376; 35746; 21333; 20215; 26684]%N ++ runes_of_ascii "`,
		u32 Qty `" ++ [23376; 35746; 21333; 25968; 37327]%N ++ runes_of_ascii "`,
	},
}

packet RiskControlResponse {
	string UniqueOrderId `" ++ [21807; 19968; 35746; 21333; 21495]%N ++ runes_of_ascii "`,
	i32 Status `" ++ [29366; 24577]%N ++ runes_of_ascii "`,
	string Msg `" ++ [32467; 26524; 20449; 24687]%N ++ runes_of_ascii "`,
	repeat Detail,
}

packet Detail {
	string RuleName `" ++ [35268; 21017; 21517; 31216]%N ++ runes_of_ascii "`,
	u16 Code `" ++ [21407; 22240; 20195; 30721]%N ++ runes_of_ascii "`,
}")).
Eval vm_compute in ("<<<M315>>>" ++ check (runes_of_ascii "packet  calculatedFrom calculatedFrom{ @rightPad(	' '
    )@lengthOf( uint8x
)	i32  options1 ,u ,
    //	t
    len @lengthOf(
int // trailing space 
)
    , @tag( 42 ) repeat uint32 u ,
    }")).
Eval vm_compute in ("<<<M325>>>" ++ check (runes_of_ascii "packet  calculatedFrom{ @rightPad @rightPad(	' '
    )@lengthOf( uint8x
)	i32  options1 ,u ,
    //	t
    len @lengthOf(
int // trailing space 
)
    , @tag( 42 ) repeat uint32 u ,
    }")).
Eval vm_compute in ("<<<M335>>>" ++ check (runes_of_ascii "packet  calculatedFrom{ @rightPad(	' ' ' '
    )@lengthOf( uint8x
)	i32  options1 ,u ,
    //	t
    len @lengthOf(
int // trailing space 
)
    , @tag( 42 ) repeat uint32 u ,
    }")).
Eval vm_compute in ("<<<M345>>>" ++ check (runes_of_ascii "packet  calculatedFrom{ @rightPad(	' '
    )@lengthOf( @lengthOf( uint8x
)	i32  options1 ,u ,
    //	t
    len @lengthOf(
int // trailing space 
)
    , @tag( 42 ) repeat uint32 u ,
    }")).
Eval vm_compute in ("<<<M355>>>" ++ check (runes_of_ascii "packet  calculatedFrom{ @rightPad(	' '
    )@lengthOf( uint8x
) )	i32  options1 ,u ,
    //	t
    len @lengthOf(
int // trailing space 
)
    , @tag( 42 ) repeat uint32 u ,
    }")).
Eval vm_compute in ("<<<M365>>>" ++ check (runes_of_ascii "packet  calculatedFrom{ @rightPad(	' '
    )@lengthOf( uint8x
)	i32  options1 options1 ,u ,
    //	t
    len @lengthOf(
int // trailing space 
)
    , @tag( 42 ) repeat uint32 u ,
    }")).
Eval vm_compute in ("<<<M375>>>" ++ check (runes_of_ascii "packet  calculatedFrom{ @rightPad(	' '
    )@lengthOf( uint8x
)	i32  options1 ,u u ,
    //	t
    len @lengthOf(
int // trailing space 
)
    , @tag( 42 ) repeat uint32 u ,
    }")).
Eval vm_compute in ("<<<M385>>>" ++ check (runes_of_ascii "packet  calculatedFrom{ @rightPad(	' '
    )@lengthOf( uint8x
)	i32  options1 ,u ,
    //	t
    len len @lengthOf(
int // trailing space 
)
    , @tag( 42 ) repeat uint32 u ,
    }")).
Eval vm_compute in ("<<<M395>>>" ++ check (runes_of_ascii "packet  calculatedFrom{ @rightPad(	' '
    )@lengthOf( uint8x
)	i32  options1 ,u ,
    //	t
    len @lengthOf(
int int // trailing space 
)
    , @tag( 42 ) repeat uint32 u ,
    }")).
Eval vm_compute in ("<<<M405>>>" ++ check (runes_of_ascii "packet  calculatedFrom{ @rightPad(	' '
    )@lengthOf( uint8x
)	i32  options1 ,u ,
    //	t
    len @lengthOf(
int // trailing space 
)
    , , @tag( 42 ) repeat uint32 u ,
    }")).
Eval vm_compute in ("<<<M415>>>" ++ check (runes_of_ascii "packet  calculatedFrom{ @rightPad(	' '
    )@lengthOf( uint8x
)	i32  options1 ,u ,
    //	t
    len @lengthOf(
int // trailing space 
)
    , @tag( 42 42 ) repeat uint32 u ,
    }")).
Eval vm_compute in ("<<<M425>>>" ++ check (runes_of_ascii "packet  calculatedFrom{ @rightPad(	' '
    )@lengthOf( uint8x
)	i32  options1 ,u ,
    //	t
    len @lengthOf(
int // trailing space 
)
    , @tag( 42 ) repeat repeat uint32 u ,
    }")).
Eval vm_compute in ("<<<M435>>>" ++ check (runes_of_ascii "packet  calculatedFrom{ @rightPad(	' '
    )@lengthOf( uint8x
)	i32  options1 ,u ,
    //	t
    len @lengthOf(
int // trailing space 
)
    , @tag( 42 ) repeat uint32 u u ,
    }")).
Eval vm_compute in ("<<<M445>>>" ++ check (runes_of_ascii "packet  calculatedFrom{ @rightPad(	' '
    )@lengthOf( uint8x
)	i32  options1 ,u ,
    //	t
    len @lengthOf(
int // trailing space 
)
    , @tag( 42 ) repeat uint32 u ,
    } }")).
Eval vm_compute in ("<<<M455>>>" ++ check (runes_of_ascii "packet  calculatedFrom{ @rightPad(	' '
    )@lengthOf( uint8x
)	i32  options1 ,u ,
    //	t
    len @lengthOf(
int // trailing space 
)
    , @tag( 42 ) repeat uint32 u ,
    @x}")).
Eval vm_compute in ("<<<M465>>>" ++ check (runes_of_ascii "\ packet  calculatedFrom{ @rightPad(	' '
    )@lengthOf( uint8x
)	i32  options1 ,u ,
    //	t
    len @lengthOf(
int // trailing space 
)
    , @tag( 42 ) repeat uint32 u ,
    }")).
Eval vm_compute in ("<<<M475>>>" ++ check (runes_of_ascii "MetaData u// packet A { u8 x, }
{ A
// c
//	t
i64_ ,char[ 255 ]")).
Eval vm_compute in ("<<<M485>>>" ++ check (runes_of_ascii "MetaData u// packet A { u8 x, }
{ A
// c
//	t
i64_ ,char[ 255 ]
    repeatCount , zchar[
65535 ]
    tag `" ++ [233]%N ++ runes_of_ascii "` `" ++ [233]%N ++ runes_of_ascii "`
    ,int32 lengthOf	, }
")).
Eval vm_compute in ("<<<M495>>>" ++ check (runes_of_ascii "MetaData u// packet A { u8 x, }
{ A
// c
//	t
i64_ ,char[ 255 ]
    repeatCount , zchar[
65535 ]
    tag `" ++ [233]%N ++ runes_of_ascii "`
    ,int32 lengthOf	packet }
")).
Eval vm_compute in ("<<<M505>>>" ++ check (runes_of_ascii "MetaData u// packet A { u8 x, }
{ A
// c
//	t
i64_ ,char[ 255 ]
    repeatCount , zchar[
65535 ]
    tag `" ++ [233]%N ++ runes_of_ascii "`
    ,int32 lengthOf lengthOf	, }
")).
Eval vm_compute in ("<<<M515>>>" ++ check (runes_of_ascii "MetaData u// packet A { u8 x, }
{ A
// c
//	t
i64_ ,char[ 255 ]
    repeatCount , zchar[
65535 ]
    tag `" ++ [233]%N ++ runes_of_ascii "`
    ,int32")).
Eval vm_compute in ("<<<M525>>>" ++ check (runes_of_ascii "MetaData u// packet A { u8 x, }
{ A
// c
//	t
i64_ ,char[ 255 ]
    repeatCount , zchar[
65" ++ [8232]%N ++ runes_of_ascii "535 ]
    tag `" ++ [233]%N ++ runes_of_ascii "`
    ,int32 lengthOf	, }
")).
Eval vm_compute in ("<<<M535>>>" ++ check (runes_of_ascii "MetaData u// packet A { u8 x, }
{ A
// c
//	t
i64_ ,char[ 255 ]
    repeatCount , zchar[
65535 ]
    tag `" ++ [233]%N ++ runes_of_ascii "`
    ,int32 lengthOf	, , }
")).
Eval vm_compute in ("<<<M545>>>" ++ check (runes_of_ascii "MetaData u// packet A { u8 x, }
{ A
// c
//	t
, i64_ char[ 255 ]
    repeatCount , zchar[
65535 ]
    tag `" ++ [233]%N ++ runes_of_ascii "`
    ,int32 lengthOf	, }
")).
Eval vm_compute in ("<<<M555>>>" ++ check (runes_of_ascii "MetaData u// packet A { u8 x, }
{ A
// c
//	t
i64_ ,char[ 255 ]
    repeatCount , zchar[
packet ]
    tag `" ++ [233]%N ++ runes_of_ascii "`
    ,int32 lengthOf	, }
")).
Eval vm_compute in ("<<<M565>>>" ++ check (runes_of_ascii "
")).
Eval vm_compute in ("<<<M575>>>" ++ check ([0]%N)).
Eval vm_compute in ("<<<M585>>>" ++ check (runes_of_ascii "[" ++ [65533]%N ++ runes_of_ascii "G" ++ [29]%N ++ runes_of_ascii "'FF" ++ [65533; 65533; 65533; 28; 65533]%N ++ runes_of_ascii "+" ++ [65533; 65533; 2031; 65533; 4]%N ++ runes_of_ascii "VB1A")).
Eval vm_compute in ("<<<M595>>>" ++ check (runes_of_ascii "f32 float64 false packet root [ repeat false @lengthOf( packet char } false")).
