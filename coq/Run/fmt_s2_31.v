From FP Require Import Lexer Parser ShowPT Digest Formatter.
From Coq Require Import String List NArith.
Import ListNotations.
Open Scope string_scope.
Set Printing Width 100000000.
Set Printing Depth 100000000.
Definition show_fres (r : fres) : string :=
  match r with
  | FOk s => "OK:" ++ sh_escaped s ""
  | FErr s => "ERR:" ++ sh_escaped s ""
  | FPanic p => "PANIC:" ++ p
  end.
Definition check (rs : list rune) : string := digest (show_fres (format_res rs)).
Definition full (rs : list rune) : string := show_fres (format_res rs).
Eval vm_compute in ("<<<M3982>>>" ++ check (runes_of_ascii "packet lengthOf {
    @leftPad(' ')
    match len as As {
        ""1"" : leftPad,
        255 : Pad,
        ""1"" : x,
        4294967296 : u128,
        // c
        // packet A { u8 x, }
    },
    @rightPad()
    crc `say ""hi""`,
    @lengthOf(leftPad)
    @calculatedFrom(""a\\"")
    repeat char[] _x `100% of %d`,
    repeatCount asx,
    repeat u {
        match falsey as i8i8 {
            """ ++ [233]%N ++ runes_of_ascii "t" ++ [233]%N ++ runes_of_ascii """ : float,
            [""\n""] : _x,
            ""CRC32"" : roots,
            7 : matchKey,
            ""packet"" : Foo,
            ""1"" : int,
        },
    },
    i8 x `
        `,
    MetaDataX @lengthOf(f32a),
    charz {
        tag @calculatedFrom(""a\\""),
        MetaDataX @lengthOf(matchKey),
        int16 msg_type,
    },
    @calculatedFrom(""x y"")
    match x_y_z as Z9_ {
        1 : lengthOf,
        255 : u128,
        ""it's"" : Z9_,
        // @lengthOf(
        // 50% %s
        42 : len,
    },
    //
    match calculatedFrom as crc {
        [
            0123456789, 255, ""packet"", ""it's"", 0,
            ""\n"", 1, 0123456789
        ] : calculatedFrom,
        65535 : _x,
        ""CRC32"" : tag,
        [""`tick`""] : T,
        [
            ""it's"", ""it's"", 0123456789, """ ++ [128512]%N ++ runes_of_ascii """, 4294967296,
            ""`tick`""
        ] : pack,
    },
}

packet u8x {
}

root packet string_ {
    @tag(3)
    char[] crc,
    @rightPad('\x00')
    @leftPad(' ')
    //x
    // packet A { u8 x, }
    repeat char[42] Foo,
    @calculatedFrom(""{,}"")
    string stringy @lengthOf(chars),
    @tag(1)
    zchar[007] charz `" ++ [28040; 24687; 31867; 22411]%N ++ runes_of_ascii "`,
    repeat msg_type {
        char uint8x `say ""hi""`,
        char[00] options1 @calculatedFrom(""" ++ [233]%N ++ runes_of_ascii "t" ++ [233]%N ++ runes_of_ascii """) `" ++ [233]%N ++ runes_of_ascii "`,
        matchKey @calculatedFrom(""1""),
    },
    @tag(0123456789)
    zchar[00] lengthOf,
    @tag(3)
    falsey As,
}

packet lengthOf {
    chars {
        Packet `two words`,//
        char[7] a1 @calculatedFrom(""\" ++ [233]%N ++ runes_of_ascii """) `doc`,
        charz @calculatedFrom(""" ++ [233]%N ++ runes_of_ascii "t" ++ [233]%N ++ runes_of_ascii """),
    },
    @lengthOf(body)
    match metadata as BodyLength {
        ""abc"" : chars,
        255 : o,
    },
    leftPad,
    repeat uint32 Logon,
}")).
Eval vm_compute in ("<<<M612>>>" ++ check (runes_of_ascii "  packet a1
{ @calculatedFrom("""" )
int16 i64_ @calculatedFrom( """ ++ [233]%N ++ runes_of_ascii "t" ++ [233]%N ++ runes_of_ascii """ ) , len stringy , zchar[ 007]uint8x ,@lengthOf(
    Packet  )@calculatedFrom( ""packet"" ) @calculatedFrom( ""\" ++ [233]%N ++ runes_of_ascii """ )
repeat trueish `tab	here` ,
repeatCount {repeat charz
    i8i8 `line1
line2`, repeat u16	falsey `line1
line2` , char[]
    /// triple
    pack ,
    // `tick` ""quote"" 'q'
    } ,
string packetx/// triple
,
    repeat
Packet // 50% %s
,
    @calculatedFrom(""packet"" )	string
    msg_type
    @lengthOf( options1 ),char[
    00 // `tick` ""quote"" 'q'
] f32a
@lengthOf(  As ) ,
tag @lengthOf(
MetaDataX
    //x
    ) , }
packet
f32a { a1
`two words` ,
    } MetaData A
// " ++ [128512]%N ++ runes_of_ascii " emoji
/// triple
{ len Header , i16	_x
    //	t
    ,i32
    //	t
    f32a	,uint8 Packet`a\` , uint8x i64_  , char[] packetx,	} packet
    T {
@calculatedFrom(
""a	b"" //
) _x x_y_z , @leftPad ( '\x00'	)
@lengthOf(o
) @rightPad	(
    //	t
    '\x00'
    ) match tag	as MetaDataX
    { 007 :
Header, 3 :  stringy,
[  7
, 00]:
T
, [
4294967296,42 ] : i8i8
    ,	} , repeat As , } packet packetx{ @calculatedFrom( ""`tick`"" )	@leftPad ( ) @calculatedFrom( ""\" ++ [233]%N ++ runes_of_ascii """
)BodyLength // `tick` ""quote"" 'q'
options1 , @calculatedFrom( """" // packet A { u8 x, }
) @lengthOf( rootA )@lengthOf(metadata )charz @calculatedFrom( ""abc"")  , // " ++ [27880; 37322]%N ++ runes_of_ascii "
@lengthOf( body	) tag
    @calculatedFrom(
    ""it's""	)
    ,
repeat zchar[ 255 ]
_x
    // @lengthOf(
    ,
repeat i64  f32a`doc` ,	string repeatCount @calculatedFrom( ""packet"")
`{ , }`  ,	repeat
uint32
    stringy`line1
line2` // @lengthOf(
, T ,@calculatedFrom( """ ++ [128512]%N ++ runes_of_ascii """
)a1  {
    repeat zchar[3 // a // b
] //
Foo
`crlf
line`
    , }
,  }
")).
Eval vm_compute in ("<<<M232>>>" ++ check (runes_of_ascii "options {
trueish
=  ""1"" ;	u8x = ""x y""}packet metadata { _x { repeat Pad { match packetx as leftPad { 3 // trailing space 
: A , }, metadata ,
    char[ 4294967296
] falsey@calculatedFrom( ""x y"" ) `// not a comment`,
}
,
    } , } packet As {
    string x_y_z,  @lengthOf( chars ) @calculatedFrom(	""" ++ [233]%N ++ runes_of_ascii "t" ++ [233]%N ++ runes_of_ascii """) int8 f32a
, }packet As { @calculatedFrom( ""it's"" ) int64 msg_type// trailing space 
@calculatedFrom(
    // 50% %s
    ""a\""b"" )`a\` ,options1  , @lengthOf( // " ++ [128512]%N ++ runes_of_ascii " emoji
roots
//
// " ++ [27880; 37322]%N ++ runes_of_ascii "
)
    int64
int
@lengthOf( Pad
) `two words` , @tag(
    4294967296
    )@calculatedFrom(""CRC32""
)
    // " ++ [128512]%N ++ runes_of_ascii " emoji
    int8 int ,repeat	u8 A `u8 x,`	, A asx
`a\` , A  {
f32 //
x ,
    // packet A { u8 x, }
    x_y_z @lengthOf(metadata ) , } ,a1 @lengthOf( u128
    )`u8 x,` , }packet options1 { rootA@calculatedFrom(""\" ++ [233]%N ++ runes_of_ascii """ ),repeat body
    { uint16 BodyLength `line1
line2`
, repeat // packet A { u8 x, }
string_ {
repeat falsey
{
    repeat
    // @lengthOf(
    i16
As `" ++ [233]%N ++ runes_of_ascii "` , }
,As tag `u8 x,` , } , repeat
    string options1 ,
} , char[]	uint8x @calculatedFrom( ""`tick`"" )
    ,	repeat char[] rootA `a\`
, @lengthOf( uint8x
)Packet // packet A { u8 x, }
x_y_z , char[ 10
    ]Header @lengthOf( calculatedFrom )`say ""hi""` , repeat chars  , repeat
options1 {
//x
// @lengthOf(
zchar[/// triple
1 ]
roots @calculatedFrom( """ ++ [28040; 24687]%N ++ runes_of_ascii """ )
, repeat i8 As
//x
// c
`tab	here`, repeat matchKey string_
`// not a comment`
//x
/// triple
,  } , }")).
Eval vm_compute in ("<<<M3926>>>" ++ check (runes_of_ascii "// trailing space 
root packet x {
    // @lengthOf(
    repeat zchar[7] i64_,
}

packet As {
    @calculatedFrom(""" ++ [28040; 24687]%N ++ runes_of_ascii """)
    o `" ++ [28040; 24687; 31867; 22411]%N ++ runes_of_ascii "`,
    string a1 `u8 x,`,
    @lengthOf(rootA)
    // " ++ [128512]%N ++ runes_of_ascii " emoji
    repeat uint32 lengthOf `// not a comment`,
    @rightPad(' ')
    u128 T,
}

options {
    A = ""\" ++ [233]%N ++ runes_of_ascii """
    float = char[65535];
    calculatedFrom = ""packet"";// @lengthOf(
    lengthOf = false;
}

root packet lengthOf {
    // `tick` ""quote"" 'q'
    uint16 x_y_z `a\`,
    f32 T,
    len @lengthOf(repeatCount),
    i8 chars @lengthOf(Z9_) `say ""hi""`,
    @leftPad(' ')
    float32 _x `doc`,
    @calculatedFrom(""{,}"")
    zchar @lengthOf(i8i8),
    repeat char[1] repeatCount `two words`,
    @calculatedFrom(""{,}"")
    @calculatedFrom(""abc"")
    @lengthOf(stringy)
    MetaDataX,
    string len `100% of %d`,
    @leftPad(' ')
    match calculatedFrom as Logon {
        [""// no comment""] : MetaDataX,
        ""a\""b"" : f32a,
        [
            3, 4294967296, 0123456789, ""{,}"", ""x y"",
            3
        ] : i8i8,
    },// 50% %s
}

packet crc {
    repeat packetx,
    @leftPad('0')
    pack `tab	here`,
    Pad,
    @calculatedFrom(""abc"")
    u64 i64_ `tab	here`,
    @tag(0123456789)
    // trailing space 
    zchar[255] u,
    match tag as x {
        255 : u128,
    },
}")).
Eval vm_compute in ("<<<M3892>>>" ++ check (runes_of_ascii "  // " ++ [27880; 37322]%N ++ runes_of_ascii "
  	packet

    chars

{ // c
}

    packet
Z9_ 
{

    falsey

// packet A { u8 x, }
  @calculatedFrom(""x y""
) `// not a comment`
	,
string  Foo@calculatedFrom(	""""// @lengthOf(
	)  // a // b
  ,
repeat o i64_	,
@tag(

0123456789	)

    repeat // " ++ [128512]%N ++ runes_of_ascii " emoji
		uint16 T 
,match  trueish as// packet A { u8 x, }
		MetaDataX

{ 0123456789 :MetaDataX  ,
3
	:

trueish 
,// `tick` ""quote"" 'q'
  [
42 ,

7	//
]
    :
    u8x
	,
/// triple
    ""1""

: 
Z9_ 
    //
	, },  uint32	// @lengthOf(
zchar ,
As 
{

Z9_, Z9_
    { 
    //
zchar[7 
]

float 
      // " ++ [128512]%N ++ runes_of_ascii " emoji
// c
    	`it's` ,

    Z9_ @lengthOf( 
options1

)

    ,stringy @lengthOf(
	i64_)

    ,  /// triple

  }

,u8	metadata `u8 x,`
,
}
/// triple
  	,
@calculatedFrom(""x y""	//
		) @calculatedFrom(""" ++ [28040; 24687]%N ++ runes_of_ascii """
)
@lengthOf(int ) match 	 // trailing space 
float 
as 	 // 50% %s
  matchKey  {
	7	:rootA

    ,
	}

,

@calculatedFrom(
""" ++ [128512]%N ++ runes_of_ascii """ )
    repeat	string
    Logon,
}	options 
{

    metadata 
= 
    // `tick` ""quote"" 'q'
		float32 packetx
	= true;Foo =
	'\x00';
	A	=
	u16	;  } MetaData 
crc{	// " ++ [27880; 37322]%N ++ runes_of_ascii "
	  int8 
uint8x
    , zchar[ 0  ] 
// `tick` ""quote"" 'q'
	// 50% %s
A
,
} ")).
Eval vm_compute in ("<<<M4489>>>" ++ check (runes_of_ascii "  // c

  packet

    body
{ 
match Header
    as
	u128

    {
3
	:
i8i8
, 	 // c
    [
    ""`tick`""] 	 /// triple
:  u8x ,

""" ++ [128512]%N ++ runes_of_ascii """
:
T  
      //
  [65535 
]: // " ++ [128512]%N ++ runes_of_ascii " emoji
      calculatedFrom
    ,

007
	:
    trueish
,
}

, 
	    //
    rootA {u16	//x
	stringy @calculatedFrom( ""a\\""
	)

,

    match
    BodyLength
// " ++ [27880; 37322]%N ++ runes_of_ascii "
		as falsey

{	""\" ++ [233]%N ++ runes_of_ascii """
	:
u8x  , [
""`tick`""	,  // @lengthOf(

""a\\"" 
]

    : 
MetaDataX
	,

    [
7
    ]  :
    float,
255: i8i8 // packet A { u8 x, }

	,10
: packetx
	""a	b"" 
:

f32a
	,} ,	// packet A { u8 x, }

	repeat  crc {
	Z9_
@calculatedFrom(""{,}""),

    repeat int
{	f32a _x , 
      // @lengthOf(
  	// trailing space 
	  }
, 
u8

T

`a\` , } 
,match x_y_z

    as
    roots
{
	[ ""`tick`""
, 
""\" ++ [233]%N ++ runes_of_ascii """
,

1

, 
007 ,3 , """" 
,	4294967296 
, 255	]

: rootA
        //
,

    3	:
body

,  [
	""a	b""
, ""{,}""	, 
""abc"", ""a\""b""

    ] // 50% %s

	: Foo ,  //
  """"

    :tag

,
}, },
char[

0
]
chars
    @lengthOf(
calculatedFrom
	)
`line1
line2`

    ,

    repeat 
Logon
    uint8x  `two words`, repeat //x
		i32
    MetaDataX 

    //
//x
		,

} ")).
Eval vm_compute in ("<<<M932>>>" ++ check (runes_of_ascii "root packet falsey { // @lengthOf(
@tag(
    // packet A { u8 x, }
    0123456789 ) u	{ char
    tag`u8 x,` ,i16// " ++ [27880; 37322]%N ++ runes_of_ascii "
pack@lengthOf(//	t
charz
),
repeat u128 options1`" ++ [28040; 24687; 31867; 22411]%N ++ runes_of_ascii "` , } ,
@lengthOf( // " ++ [27880; 37322]%N ++ runes_of_ascii "
tag ) Z9_ @lengthOf( zchar // " ++ [128512]%N ++ runes_of_ascii " emoji
) , calculatedFrom
    @lengthOf(  pack) `it's`	,
@lengthOf(MetaDataX )repeat  Foo, } packet
u8x
{ // 50% %s
@calculatedFrom( ""\" ++ [233]%N ++ runes_of_ascii """ )float32 crc,@lengthOf( stringy) u ,@tag(
4294967296)@tag(4294967296	)
@lengthOf( Foo )
    int16 x	`it's`// a // b
,
    // " ++ [128512]%N ++ runes_of_ascii " emoji
    }// c
root packet	leftPad{
}
    // packet A { u8 x, }
    packet u128 { a1
,@lengthOf( o )
// @lengthOf(
// packet A { u8 x, }
@calculatedFrom( ""\n"" )
@calculatedFrom(
""a\\""
) match u
as chars
    { [ ""`tick`"" ,
0
    ,
// packet A { u8 x, }
// packet A { u8 x, }
007  , ""\n"" ,	""\" ++ [233]%N ++ runes_of_ascii """ ,65535 , 42 ]
    :
    u , 00: packetx """ ++ [28040; 24687]%N ++ runes_of_ascii """ :
falsey 10 :Packet ""CRC32""
: o , [""\" ++ [233]%N ++ runes_of_ascii """	] : falsey , } , /// triple
match
    // `tick` ""quote"" 'q'
    Foo as x	{ 1
:	tag },
crc  A , stringy falsey
`tab	here`
,
    Pad
    , charz,uint32 i64_ ,
}
")).
Eval vm_compute in ("<<<M4155>>>" ++ check (runes_of_ascii "  options
    {
options1

=
	// a // b

  0 ; u	=

    true 
_x= true	; uint8x
	=
    false	;} packet

    falsey {
}
packet falsey{
	repeat

zchar[ 00]  len ,
	// " ++ [27880; 37322]%N ++ runes_of_ascii "
      }
	packet
u128
{
    len 
    //	t
	`100% of %d`,  // " ++ [27880; 37322]%N ++ runes_of_ascii "
      uint8	roots

`{ , }`	,@rightPad
(
' '// @lengthOf(
    )
	repeat

    int,

@calculatedFrom(
    ""// no comment""

)
Header
	@calculatedFrom( """ ++ [233]%N ++ runes_of_ascii "t" ++ [233]%N ++ runes_of_ascii """

)  ,

    string roots
, repeat	Pad
{ char[]
	i64_
	@lengthOf( //	t

  lengthOf
	    //x
		/// triple
) 

// trailing space 
  `" ++ [28040; 24687; 31867; 22411]%N ++ runes_of_ascii "` 
,	char

body ,i8 a1 @lengthOf( o  )

    ,} , 
match x_y_z 
    /// triple
	// @lengthOf(
  	as 
roots
{
    [

    ""CRC32""	,
""a\\""

]
	:
    MetaDataX

, 
7

:
repeatCount,
""// no comment""
: 
T
	[	// @lengthOf(
  007	,	""\" ++ [233]%N ++ runes_of_ascii """
	]	// 50% %s
	:

_x , 
    //	t
      [""" ++ [28040; 24687]%N ++ runes_of_ascii """  , 
""abc""
    ]
:
u

    ,
    [ 
"""" 	 //
    	]:i8i8 // `tick` ""quote"" 'q'
  }  , 	 // " ++ [128512]%N ++ runes_of_ascii " emoji
  	int64

    repeatCount 
`// not a comment`
,  } ")).
Eval vm_compute in ("<<<M1135>>>" ++ check (runes_of_ascii "// c
packet body  {
match Header as u128
{
3
    : i8i8
,// c
[	""`tick`""	]/// triple
:u8x, """ ++ [128512]%N ++ runes_of_ascii """ : T
    //
    [65535] : // " ++ [128512]%N ++ runes_of_ascii " emoji
calculatedFrom
    ,007: trueish, }	,
    //
    rootA { u16 //x
stringy @calculatedFrom(	""a\\"") , match BodyLength
    // " ++ [27880; 37322]%N ++ runes_of_ascii "
    as
    falsey { ""\" ++ [233]%N ++ runes_of_ascii """ :u8x
, [ ""`tick`"", // @lengthOf(
""a\\"" ] : MetaDataX, [ 7
]:
    float ,  255 : i8i8 // packet A { u8 x, }
,
10
: packetx
""a	b""
    : f32a
    ,}
, // packet A { u8 x, }
repeat crc
    { Z9_
@calculatedFrom(""{,}"" ),repeat int	{f32a
_x  ,
// @lengthOf(
// trailing space 
}, u8
T
    `a\` , }
    ,
match
x_y_z as
roots {[ ""`tick`""	,""\" ++ [233]%N ++ runes_of_ascii """ ,1 , 007 ,
    3 , """"
, 4294967296
    ,
255 ] :
    rootA
    //
    , 3 : body ,
[ ""a	b""
,""{,}"",""abc"" ,
    ""a\""b"" ] // 50% %s
:
    Foo , //
""""
: tag
, } ,	} ,char[ 0 ] chars@lengthOf(calculatedFrom ) `line1
line2` , repeat
    Logon
uint8x `two words` , repeat //x
i32
    MetaDataX
//
//x
,}")).
Eval vm_compute in ("<<<M929>>>" ++ check (runes_of_ascii "root
packet MetaDataX{ }
options
{ As=
    255 lengthOf =  '\x00' roots /// triple
= '0' }
root
packet T {// " ++ [27880; 37322]%N ++ runes_of_ascii "
pack{ char[ // trailing space 
10] lengthOf
    ,char[ // 50% %s
4294967296
] stringy , leftPad
@lengthOf(x_y_z
    ) ,repeat tag { match o as
x_y_z
{ [  """ ++ [233]%N ++ runes_of_ascii "t" ++ [233]%N ++ runes_of_ascii """ ,0123456789	, 10 ,4294967296 ,	""" ++ [233]%N ++ runes_of_ascii "t" ++ [233]%N ++ runes_of_ascii """] :u [  ""// no comment""
, ""{,}"" ] :	i64_ ""\" ++ [233]%N ++ runes_of_ascii """
    // @lengthOf(
    :
    falsey } , match i64_ as i8i8 {
1	:// " ++ [128512]%N ++ runes_of_ascii " emoji
o 007 :  trueish,//
} , matchKey	@lengthOf( a1 ) , } ,
    }
,
    // `tick` ""quote"" 'q'
    uint8 // " ++ [27880; 37322]%N ++ runes_of_ascii "
i8i8 @calculatedFrom( ""CRC32"" ) ,
@lengthOf(u128
) @lengthOf(zchar ) uint64	Z9_ `// not a comment`
,
int32 tag
    // @lengthOf(
    `" ++ [233]%N ++ runes_of_ascii "` ,  @lengthOf( pack)
match msg_type
    // a // b
    as u8x { 255 :
f32a,0123456789:msg_type ,
// trailing space 
//
} ,
    @lengthOf( //	t
zchar
)rootA,
    } MetaData	Pad {  u16
packetx,  }
")).
Eval vm_compute in ("<<<M4156>>>" ++ check (runes_of_ascii "options // c
{  As  = false}  packet

falsey

{ @lengthOf(
	float
) @calculatedFrom(
""\n"")  u32 As
	,
    match
leftPad

    as

repeatCount

{ 0
:	Z9_, 1 : repeatCount
	, [	65535 ] // trailing space 
	: // c
Pad 00:

packetx 
""a\\""
    :	packetx 
, 00

    :  crc
,  } 
,

    repeat
	Packet,
    repeat
float

{

u128/// triple
    @calculatedFrom(  """ ++ [28040; 24687]%N ++ runes_of_ascii """ )`a\`
,
    u64
    Foo
    `a\`  ,
	}

,

    @leftPad	(
    '\x00' )

@tag(
1
)  @calculatedFrom(  ""`tick`""	)
	f64
lengthOf
, @rightPad (

'0'

)
	@leftPad ( ) @lengthOf(

f32a
	) repeat
	i64_

    x_y_z

    ,

    @rightPad
	( '\x00' )  o  @calculatedFrom( 
"""")
`doc` , 
asx {

    // a // b
	  //x
      repeat
    T

chars `two words`
,  repeat
char[ 0
]
    string_ ,

    }

, 
repeat 
char

repeatCount`{ , }`, @rightPad
(  ) int16 float,

} ")).
Eval vm_compute in ("<<<M3812>>>" ++ check (runes_of_ascii "options {
    len = true;
    asx = 4294967296
    Packet = """ ++ [28040; 24687]%N ++ runes_of_ascii """;
    o = ' '
    MetaDataX = true
}

// packet A { u8 x, }
root packet body {
    Packet {
        repeat Logon T `u8 x,`,
        repeat char[00] metadata,
    },
    @lengthOf(i64_)
    repeat char[] tag,
    @tag(7)
    f64 calculatedFrom,// trailing space 
    T x `crlf
    line`,
    float32 BodyLength @lengthOf(falsey) `two words`,
    @lengthOf(u)
    repeat char[] body,// 50% %s
    @calculatedFrom(""a\""b"")
    match u128 as Pad {
        // trailing space 
        ""\" ++ [233]%N ++ runes_of_ascii """ : float,
        [7] : Packet,
        // " ++ [27880; 37322]%N ++ runes_of_ascii "
        // " ++ [128512]%N ++ runes_of_ascii " emoji
        10 : i8i8,
    },
}

MetaData packetx {
    // a // b
    matchKey i64_ `line1
    line2`,
    char[7] Foo `a\`,
    float32 Packet `a\`,
    float32 i8i8 `it's`,
    asx i8i8,
}")).
Eval vm_compute in ("<<<M274>>>" ++ check (runes_of_ascii "packet
    // c
    Foo // c
{	match // 50% %s
float
as leftPad { // " ++ [128512]%N ++ runes_of_ascii " emoji
[00, ""`tick`""
    ] : leftPad
// a // b
/// triple
,
0
//
// 50% %s
:chars
,007 : Logon[ 3 ] : body
//	t
//
,
    [ 10] : T
    // " ++ [27880; 37322]%N ++ runes_of_ascii "
    ,""a	b"" : Z9_,
    // trailing space 
    } , @lengthOf(
zchar ) i32 trueish
    @lengthOf( a1  )
`it's` , @rightPad ( ' ' )// a // b
repeat
    len {
match  pack as // packet A { u8 x, }
falsey
{ ""// no comment"" : //
packetx ""1""
    :
//
// c
o , [ 00 ,
""{,}"" ] //	t
: T
// " ++ [128512]%N ++ runes_of_ascii " emoji
// `tick` ""quote"" 'q'
007 :
    // `tick` ""quote"" 'q'
    _x}
,	} , match options1 as rootA	{ ""a	b"" : MetaDataX ,007: calculatedFrom
    ,
// c
//x
""" ++ [233]%N ++ runes_of_ascii "t" ++ [233]%N ++ runes_of_ascii """ ://
lengthOf  1
:
A , ""a\\"" :
    packetx
, [
    ""it's"" ] : body ,
    }
    ,
} packet
Header {
}
")).
Eval vm_compute in ("<<<M1034>>>" ++ check (runes_of_ascii "
options { calculatedFrom
= ""a	b"" ;
    lengthOf = ""packet""	; // 50% %s
Header= zchar[
7 ]  ; } packet
    /// triple
    Logon { @calculatedFrom(
""" ++ [28040; 24687]%N ++ runes_of_ascii """ ) i16// " ++ [128512]%N ++ runes_of_ascii " emoji
charz,
}
packet asx {  Packet @lengthOf( tag  )`crlf
line` , @calculatedFrom( """ ++ [128512]%N ++ runes_of_ascii """
    ) char[ 7 ] i8i8@calculatedFrom( ""\n"" ) `line1
line2`
, i32
// c
// @lengthOf(
pack
    @lengthOf(
// c
// packet A { u8 x, }
f32a
// `tick` ""quote"" 'q'
//	t
)	`two words` /// triple
, falsey f32a
    `tab	here` ,	@tag(3
) u16 lengthOf ,
// trailing space 
//x
Foo @lengthOf( // trailing space 
uint8x ) //
,
    @lengthOf(
chars ) zchar@lengthOf(stringy )
    `crlf
line` ,asx , /// triple
zchar[ 65535 ]
    Z9_ // trailing space 
@calculatedFrom( ""1"") , }")).
Eval vm_compute in ("<<<M1381>>>" ++ check (runes_of_ascii "
root
packet int  { }packet Header // packet A { u8 x, }
{ @calculatedFrom(""""
    )
    @calculatedFrom(
    ""1""
    ) @calculatedFrom(
    ""\" ++ [233]%N ++ runes_of_ascii """ ) //	t
rootA`crlf
line`
,
    }
    packet leftPad { u32 o
@calculatedFrom( ""packet"" ) `{ , }`
,body@lengthOf( roots) , i64
Header`tab	here` , string
    x_y_z // trailing space 
`say ""hi""` // packet A { u8 x, }
,
    zchar[0
]
    a1 `say ""hi""` // @lengthOf(
, uint8 T , @calculatedFrom( ""abc""  ) A @lengthOf( matchKey
    ) ``
// @lengthOf(
// " ++ [27880; 37322]%N ++ runes_of_ascii "
,@calculatedFrom(
    ""1"") repeat u32
    falsey
// packet A { u8 x, }
// " ++ [27880; 37322]%N ++ runes_of_ascii "
,	@lengthOf(
    BodyLength
    )// `tick` ""quote"" 'q'
repeat uint16 chars`tab	here`
,
} MetaData body{ }
")).
Eval vm_compute in ("<<<M211>>>" ++ check (runes_of_ascii "root packet
    asx
    {@lengthOf( metadata/// triple
)@tag(
0
) @calculatedFrom( """") msg_type `u8 x,` // " ++ [128512]%N ++ runes_of_ascii " emoji
,
@leftPad
// 50% %s
//	t
( ' '
    )  repeat string
    //	t
    chars `say ""hi""` , repeat pack { repeat  o { repeat string_
{ //	t
match
chars // trailing space 
as
// 50% %s
//
x
{ ""it's"":
    roots , ""packet"" :stringy ,	[ ""abc""
]:As , [""`tick`"" ] : u128
, 0 // trailing space 
:	f32a, } ,
repeat Foo
roots
, trueish `" ++ [233]%N ++ runes_of_ascii "`
/// triple
// a // b
, a1 @lengthOf(f32a
) , }
, }
,As@lengthOf( chars
) ,
    }  , body { int32 u`u8 x,`,
zchar[10 ] falsey
    `doc`
,
repeat // " ++ [128512]%N ++ runes_of_ascii " emoji
Logon  `tab	here` , uint32
// c
// @lengthOf(
u8x , } , }")).
Eval vm_compute in ("<<<M3509>>>" ++ check (runes_of_ascii "// top
packet // c0a
  // c0b
MDSnapshotZZ { // c2
u8 // c3
a // c4
, // c5
} packet // c7
OrderACK {
    // c9
u16 b // c11a
  // c11b
, // c12a
  // c12b
}
    // c13
packet // c14a
  // c14b
HTTPServerInfo
    // c15
{ // c16
string s // c18
, // c19a
  // c19b
} // c20
root packet FIXMsg
    // c23
{ u8 // c25
KType // c26a
  // c26b
, MDSnapshotZZ // c28
, // c29a
  // c29b
repeat // c30
OrderACK // c31
, // c32
match // c33
KType // c34
as Body
    // c36
{ // c37a
  // c37b
1
    // c38
: // c39
HTTPServerInfo // c40a
  // c40b
, // c41
2
    // c42
:
    // c43
OrderACK // c44a
  // c44b
, }
    // c46
, } // c48
")).
Eval vm_compute in ("<<<M835>>>" ++ check (runes_of_ascii "packet Header { @rightPad( '0' ) @calculatedFrom(// trailing space 
""1"" // c
)@lengthOf(	uint8x ) charz
charz`tab	here`, @rightPad
// trailing space 
// trailing space 
( ) roots /// triple
, @rightPad ('\x00')	f32a o`{ , }` ,
int32 Foo @calculatedFrom( ""a\\"" ) `doc`
    ,
@calculatedFrom(""" ++ [233]%N ++ runes_of_ascii "t" ++ [233]%N ++ runes_of_ascii """	)
// a // b
//
string a1 ,	@rightPad
(
    )	match string_ as x_y_z {
    1 :msg_type
    , }, @lengthOf( options1 )  match pack as metadata { 7 :body
,
1  : i64_
,
    },  string
metadata
, repeat // " ++ [27880; 37322]%N ++ runes_of_ascii "
i32 matchKey
    , @rightPad( // `tick` ""quote"" 'q'
' ' ) string Logon `100% of %d`
    , } //x")).
Eval vm_compute in ("<<<M1353>>>" ++ check (runes_of_ascii "
MetaData stringy { T As `crlf
line` ,  i16 Packet, }packet  Foo {	@lengthOf(MetaDataX ) msg_type  ,  @tag( 1)packetx Packet
    ,
// @lengthOf(
// `tick` ""quote"" 'q'
@tag(	007 ) // a // b
i64	body
@calculatedFrom(""" ++ [128512]%N ++ runes_of_ascii """ ) ,@tag( 1
) match zchar as leftPad {
    ""{,}""
// c
// a // b
: msg_type[ 4294967296
    ,
1, ""`tick`"", 3
    ]:	body	,""packet""	:  u128 }, @tag( 1 )
    crc , //
x_y_z , @rightPad
    ()a1 @calculatedFrom( ""// no comment"" ) `doc`, @leftPad(
//
//
'\x00')  string BodyLength , @tag(
255 )// @lengthOf(
uint8 // @lengthOf(
options1, i64 lengthOf , }
")).
Eval vm_compute in ("<<<M4035>>>" ++ check (runes_of_ascii "packet o {
    /// triple
    // " ++ [27880; 37322]%N ++ runes_of_ascii "
    metadata crc,
    @tag(3)
    @calculatedFrom(""it's"")
    @tag(7)
    repeat uint64 MetaDataX,
    i16 u8x `100% of %d`,
    zchar[00] A,
    Pad As,
}

root packet T {
}

packet o {
    repeat len {
        Z9_,
        // a // b
    },
    repeat chars {
        repeat zchar[65535] int,
        char[0] x @lengthOf(repeatCount),
        body,
    },/// triple
    string matchKey `" ++ [233]%N ++ runes_of_ascii "`,
    Header @calculatedFrom(""" ++ [233]%N ++ runes_of_ascii "t" ++ [233]%N ++ runes_of_ascii """),
    @tag(0123456789)
    @tag(255)
    char len,// " ++ [128512]%N ++ runes_of_ascii " emoji
    body matchKey `u8 x,`,
}")).
Eval vm_compute in ("<<<M1097>>>" ++ check (runes_of_ascii "packet options1 // " ++ [27880; 37322]%N ++ runes_of_ascii "
{
repeat i64_ charz , repeat charz
    // packet A { u8 x, }
    u8x
    //
    , repeat float32 // c
uint8x , _x
{ metadata @calculatedFrom( ""CRC32"" )
    // trailing space 
    `crlf
line`, char[ 1 ]repeatCount@lengthOf(
// packet A { u8 x, }
// packet A { u8 x, }
i64_
    ),
} ,
    char[] string_`doc` ,
    int16 o  @calculatedFrom( ""a\\"" ) , @leftPad
()
    u32
roots @lengthOf(
    matchKey
    ) `{ , }` , stringy ,int16	pack
    `` ,
zchar[  255 ]
    a1 // a // b
@calculatedFrom(""a\""b"")
    , }
")).
Eval vm_compute in ("<<<M668>>>" ++ check (runes_of_ascii "packet
//	t
// a // b
Z9_  {
// 50% %s
// @lengthOf(
@leftPad( ' ' ) o `a\` ,	@lengthOf(charz ) // " ++ [128512]%N ++ runes_of_ascii " emoji
repeat
    int64 rootA , repeat float64 A `{ , }` , repeat zchar[ 7 ] options1 , Foo
    //	t
    , @lengthOf( int ) i16
    As ,}
root	packet A {
} MetaData packetx
    { u32
f32a	,zchar[
42
    ]
    // packet A { u8 x, }
    roots,
    chars matchKey	`tab	here`  ,
chars zchar `100% of %d`
    ,
chars
charz
    // packet A { u8 x, }
    , }root packet leftPad
// 50% %s
//
{ } options{ u8x =	65535 ; }")).
Eval vm_compute in ("<<<M4310>>>" ++ check (runes_of_ascii "root packet msg_type {
    Header {
        match body as msg_type {
            [3, 7] : x,
        },
        match lengthOf as stringy {
            10 : calculatedFrom,
        },
        match Foo as rootA {
            [0123456789] : zchar,
        },
    },
    @calculatedFrom(""abc"")
    match pack as leftPad {
        [007, 10] : pack,
        ""CRC32"" : Foo,
        ""it's"" : Packet,
        00 : Z9_,
    },
    repeat u8 crc `crlf
    line`,
}

options {
    falsey = ' '
}")).
Eval vm_compute in ("<<<M3635>>>" ++ check (runes_of_ascii "root packet metadata
	{

    char[007

    ] _x`a\`  ,
	match

// " ++ [128512]%N ++ runes_of_ascii " emoji

/// triple
	_x as Packet
{ [  // a // b
    4294967296

    ,

""a\""b"" , ""{,}"" ,
0	,
    """" , 65535  // trailing space 

]

    :

options1

    ,
    [
	""abc""] 
:  options1 ,	[
        // trailing space 

""it's"" 
,""" ++ [233]%N ++ runes_of_ascii "t" ++ [233]%N ++ runes_of_ascii """

    , 
""" ++ [233]%N ++ runes_of_ascii "t" ++ [233]%N ++ runes_of_ascii """ 
,
""a\\""]	// a // b
  :len  , } 
,
    uint8 
Z9_,

As @calculatedFrom(
	""""

    )

`" ++ [28040; 24687; 31867; 22411]%N ++ runes_of_ascii "` , // @lengthOf(
    i64  As

`" ++ [233]%N ++ runes_of_ascii "`	,

    }
")).
Eval vm_compute in ("<<<M4457>>>" ++ check (runes_of_ascii "packet 

    // packet A { u8 x, }

/// triple
  	u
{
	repeat 
Z9_  u // @lengthOf(
	, match
roots
	as

    A{""\n"" : i64_// 50% %s
	,	}

    ,
A @calculatedFrom(
""packet"" ) // " ++ [128512]%N ++ runes_of_ascii " emoji

, u64
	tag

@lengthOf(
	A )

    `100% of %d` ,
    @lengthOf( 
Pad	)@rightPad (
)

@lengthOf(
pack
	) match o
	    //	t
as uint8x {
4294967296  :o
    ,
    00
	:
A	,
	}, @rightPad
(

'\x00'	)  char[
0123456789 ]

msg_type	,  }
    /// triple")).
Eval vm_compute in ("<<<M3899>>>" ++ check (runes_of_ascii "packet u8x {
    leftPad,
    repeat MetaDataX `{ , }`,
    lengthOf @calculatedFrom(""" ++ [128512]%N ++ runes_of_ascii """),
    @calculatedFrom(""a	b"")
    @lengthOf(uint8x)
    uint16 Packet,
    match i64_ as asx {
        ""a\""b"" : len,
    },
    @rightPad(' ')
    uint64 stringy @lengthOf(a1),// " ++ [27880; 37322]%N ++ runes_of_ascii "
    @leftPad()
    u8 stringy,
    repeat f64 uint8x `line1
    line2`,
    BodyLength,
    @calculatedFrom(""// no comment"")
    i64_ string_ `100% of %d`,
}")).
Eval vm_compute in ("<<<M1397>>>" ++ check (runes_of_ascii "MetaData  BodyLength { i8	tag `two words` , options1 o , int Foo `doc`, packetx
metadata ,
    Pad
roots ,int8 int
    `line1
line2`, }root packet metadata {// " ++ [128512]%N ++ runes_of_ascii " emoji
float @lengthOf(  matchKey )  , i16	Header `100% of %d`,
    match  leftPad
    as u { ""\n"" : x
    , } , }MetaData a1{ _x uint8x  ,
    uint64
chars `
`,Z9_ falsey	`doc` , leftPad As
,
    As//x
f32a
`say ""hi""` // 50% %s
, Packet trueish ,}
")).
Eval vm_compute in ("<<<M856>>>" ++ check (runes_of_ascii "root packet charz
{ repeat o
    //
    Packet, }
packet
    float {match
    crc
// @lengthOf(
//	t
as  body {// packet A { u8 x, }
""\" ++ [233]%N ++ runes_of_ascii """
// 50% %s
//
: f32a	4294967296
//	t
// a // b
: len[ ""// no comment"" //
]:lengthOf , 65535 : i64_
,4294967296 : Pad , }, Logon,//	t
float64 body @lengthOf(leftPad) `a\` , }
packet MetaDataX{
zchar[ 65535 ] zchar, MetaDataX @lengthOf( falsey ) , // " ++ [128512]%N ++ runes_of_ascii " emoji
}")).
Eval vm_compute in ("<<<M3541>>>" ++ check (runes_of_ascii "options	{ StringPrefixLenType

    =
u32	;FixedStringPadFromLeft  =
false ;

    } 
packet

    Logout

    {f64
	Flags,
repeat InTail1
	{ int32 Flags , zchar[ 1 ]tag7
,

    } ,
repeat

    string

    x
	,  }

root
    packet 
Trade {repeat
f32	Acct 
,

InTail62

    {

    u32 Qty ,	zchar[

    1
    ]x

,
	}
    ,	repeat string
	Side2,u16 Ref

,  }")).
Eval vm_compute in ("<<<M4498>>>" ++ check (runes_of_ascii "packet leftPad {
    stringy @calculatedFrom(""\" ++ [233]%N ++ runes_of_ascii """) `say ""hi""`,
    @rightPad('0')
    @tag(4294967296)
    lengthOf @calculatedFrom(""a	b""),
    // packet A { u8 x, }
    //	t
    repeat i32 trueish `line1
    line2`,
    // `tick` ""quote"" 'q'
}// " ++ [27880; 37322]%N ++ runes_of_ascii "

packet zchar {
    repeat string x,
}

options {
    u8x = 0;
    A = ""x y""
    roots = char;
    packetx = false;
}")).
Eval vm_compute in ("<<<M1337>>>" ++ check (runes_of_ascii "root// c
packet
Z9_
{ matchKey{ char[// 50% %s
007 ] A// 50% %s
@calculatedFrom( ""{,}"" ) , }
    , // 50% %s
@lengthOf( tag ) roots
    As ,char[] falsey
`say ""hi""`
,@lengthOf( uint8x
) _x
@calculatedFrom(""" ++ [233]%N ++ runes_of_ascii "t" ++ [233]%N ++ runes_of_ascii """  )
,//x
}
root packet A
    {@lengthOf( u128)
    char[007
    ] int
@calculatedFrom( """ ++ [28040; 24687]%N ++ runes_of_ascii """ ) ,
// c
//x
} packet Foo
    { repeat string_ , }")).
Eval vm_compute in ("<<<M416>>>" ++ check (runes_of_ascii "// c
options
{ chars	= u8
; falsey =
zchar[ // " ++ [128512]%N ++ runes_of_ascii " emoji
0 ] }
    options {
i64_ =// " ++ [27880; 37322]%N ++ runes_of_ascii "
' '
    Header
    = 0123456789 ; Logon = """ ++ [233]%N ++ runes_of_ascii "t" ++ [233]%N ++ runes_of_ascii """
    asx
= i32 // `tick` ""quote"" 'q'
}  packet options1 {
    char[] x_y_z
@lengthOf( o ), repeat //
x_y_z tag , @rightPad ( )char[4294967296
] Pad
@lengthOf( Header
    )`
` ,
    // " ++ [128512]%N ++ runes_of_ascii " emoji
    }")).
Eval vm_compute in ("<<<M458>>>" ++ check (runes_of_ascii "packet trueish {x metadata , uint16
f32a // trailing space 
, repeat leftPad { match MetaDataX as
    lengthOf {4294967296
: calculatedFrom
,
[""a\\""
, ""a\\"" ] : len  , 0
:
    // `tick` ""quote"" 'q'
    f32a , [ ""CRC32""
    ] :
chars ,
// @lengthOf(
// " ++ [128512]%N ++ runes_of_ascii " emoji
65535  : /// triple
i8i8 , }, } // packet A { u8 x, }
,
    }")).
Eval vm_compute in ("<<<M3712>>>" ++ check (runes_of_ascii "

  //x
    packet// c
    zchar	{ 
    // " ++ [128512]%N ++ runes_of_ascii " emoji
  // `tick` ""quote"" 'q'
    string _x
    ,	@lengthOf(string_
	)  a1
,char[] 
    // packet A { u8 x, }
	// packet A { u8 x, }
  	leftPad`` ,  } packet 
charz

    {

    @leftPad
(

    )	falsey
    //	t
    // packet A { u8 x, }
		`two words`	,  }")).
Eval vm_compute in ("<<<M260>>>" ++ check (runes_of_ascii "root
packet // packet A { u8 x, }
roots	{ repeat uint8x {uint32 int `tab	here` ,match zchar as calculatedFrom  { [ 007 , 0 ,
    7
,
    ""a\""b"" ,
0123456789
, """ ++ [233]%N ++ runes_of_ascii "t" ++ [233]%N ++ runes_of_ascii """ //
, 4294967296  , ""1""// " ++ [128512]%N ++ runes_of_ascii " emoji
] :o , } , }, char uint8x `{ , }` , }packet rootA {
@lengthOf( o) char _x ,// " ++ [27880; 37322]%N ++ runes_of_ascii "
u64
i8i8
`
`
,}
")).
Eval vm_compute in ("<<<M4278>>>" ++ check (runes_of_ascii "packet packetx {
    // trailing space 
    x_y_z {
        string charz,
        string x `two words`,
        u8x {
            // `tick` ""quote"" 'q'
            charz `100% of %d`,
        },
    },
}

// a // b
packet metadata {
    @leftPad('0')
    repeat options1,
    u64 uint8x,
}")).
Eval vm_compute in ("<<<M171>>>" ++ check (runes_of_ascii "options{
MetaDataX= zchar[0123456789 ] ; } MetaData
    len { zchar[ 1] lengthOf// @lengthOf(
, f32 rootA
    , float64 calculatedFrom
`crlf
line` ,
    // " ++ [128512]%N ++ runes_of_ascii " emoji
    string_ falsey ,
x_y_z int `it's` , } packet roots
{// packet A { u8 x, }
@calculatedFrom(	""a\""b"" ) char Pad , }
")).
Eval vm_compute in ("<<<M1892>>>" ++ check (runes_of_ascii "packet	packetx { // trailing space 
x_y_z
{
string
charz ,
string x x// @lengthOf(
`two words`
    ,  u8x { // `tick` ""quote"" 'q'
charz `100% of %d` // packet A { u8 x, }
,}// " ++ [27880; 37322]%N ++ runes_of_ascii "
,} , }
    // a // b
    packet metadata {  @leftPad ( '0') repeat i32 options1 ,u64 uint8x , }
")).
Eval vm_compute in ("<<<M1858>>>" ++ check (runes_of_ascii "packet	packetx x_y_z // trailing space 
{
{
string
charz ,
string x// @lengthOf(
`two words`
    ,  u8x { // `tick` ""quote"" 'q'
charz `100% of %d` // packet A { u8 x, }
,}// " ++ [27880; 37322]%N ++ runes_of_ascii "
,} , }
    // a // b
    packet metadata {  @leftPad ( '0') repeat i32 options1 ,u64 uint8x , }
")).
Eval vm_compute in ("<<<M1994>>>" ++ check (runes_of_ascii "packet	packetx { // trailing space 
x_y_z
{
string
charz ,
string x// @lengthOf(
`two words`
    ,  u8x { // `tick` ""quote"" 'q'
charz `100% of %d` // packet A { u8 x, }
,}// " ++ [27880; 37322]%N ++ runes_of_ascii "
,} , }
    // a // b
    packet metadata {  @leftPad ( '0') uint16 i32 options1 ,u64 uint8x , }
")).
Eval vm_compute in ("<<<M1879>>>" ++ check (runes_of_ascii "packet	packetx { // trailing space 
x_y_z
{
string
i32 ,
string x// @lengthOf(
`two words`
    ,  u8x { // `tick` ""quote"" 'q'
charz `100% of %d` // packet A { u8 x, }
,}// " ++ [27880; 37322]%N ++ runes_of_ascii "
,} , }
    // a // b
    packet metadata {  @leftPad ( '0') repeat i32 options1 ,u64 uint8x , }
")).
Eval vm_compute in ("<<<M2025>>>" ++ check (runes_of_ascii "packet	packetx { // trailing space 
x_y_z
{
string
charz ,
string x// @lengthOf(
`two words`
    ,  u8x { // `tick` ""quote"" 'q'
charz `100% of %d` // packet A { u8 x, }
,}// " ++ [27880; 37322]%N ++ runes_of_ascii "
,} , }
    // a // b
    packet metadata {  @leftPad ( '0') repeat i32 options1 ,u64 uint8x")).
Eval vm_compute in ("<<<M4093>>>" ++ check (runes_of_ascii "options {
    pack = true
}//	t

packet lengthOf {
    int8 u `" ++ [28040; 24687; 31867; 22411]%N ++ runes_of_ascii "`,
    u @lengthOf(stringy),
    @lengthOf(roots)
    @leftPad('\x00')
    @calculatedFrom(""a\\"")
    repeat uint16 A `{ , }`,
}

packet u {
    // c
    uint32 pack @lengthOf(Pad) ``,
    lengthOf u,
}")).
Eval vm_compute in ("<<<M532>>>" ++ check (runes_of_ascii "
root packet zchar
    {
@leftPad
    ( '0')
string
i64_ `line1
line2` , char[]roots	`u8 x,`
,
// " ++ [27880; 37322]%N ++ runes_of_ascii "
// packet A { u8 x, }
u64 i64_ , leftPad// " ++ [27880; 37322]%N ++ runes_of_ascii "
@calculatedFrom(
    //
    ""\n"" )
,
    @tag( 0 )
repeat u64 crc , string// " ++ [27880; 37322]%N ++ runes_of_ascii "
u128// 50% %s
`// not a comment`
,
}")).
Eval vm_compute in ("<<<M2165>>>" ++ check (runes_of_ascii "packet// packet A { u8 x, }
repeatCount	{// packet A { u8 x, }
@leftPad ( '\x00'
) repeat u8x MetaDataX `crlf
line`,
    repeat
    char[] MetaDataX
    ,
u64	uint8x@calculatedFrom(""a\""b""
// c
// packet A { u8 x, }
) `tab	here`
,//
} }MetaData pack
    {
    }
")).
Eval vm_compute in ("<<<M2071>>>" ++ check (runes_of_ascii "packet// packet A { u8 x, }
repeatCount	{// packet A { u8 x, }
@leftPad '\x00' (
) repeat u8x MetaDataX `crlf
line`,
    repeat
    char[] MetaDataX
    ,
u64	uint8x@calculatedFrom(""a\""b""
// c
// packet A { u8 x, }
) `tab	here`
,//
}MetaData pack
    {
    }
")).
Eval vm_compute in ("<<<M2077>>>" ++ check (runes_of_ascii "packet// packet A { u8 x, }
repeatCount	{// packet A { u8 x, }
@leftPad ( uint8
) repeat u8x MetaDataX `crlf
line`,
    repeat
    char[] MetaDataX
    ,
u64	uint8x@calculatedFrom(""a\""b""
// c
// packet A { u8 x, }
) `tab	here`
,//
}MetaData pack
    {
    }
")).
Eval vm_compute in ("<<<M2112>>>" ++ check (runes_of_ascii "packet// packet A { u8 x, }
repeatCount	{// packet A { u8 x, }
@leftPad ( '\x00'
) repeat u8x MetaDataX `crlf
line`,
    )
    char[] MetaDataX
    ,
u64	uint8x@calculatedFrom(""a\""b""
// c
// packet A { u8 x, }
) `tab	here`
,//
}MetaData pack
    {
    }
")).
Eval vm_compute in ("<<<M1531>>>" ++ check (runes_of_ascii "packet calculatedFrom
{ @calculatedFrom( ""a\\"" ) zchar[ 4294967296 ]
calculatedFrom@lengthOf( pack )	`100% of %d` ,char[]body@calculatedFrom( ""// no comment"" )  ,
@tag( 007 false //x
int8
leftPad`it's` , repeat pack
    { repeat char[ 3] body
,},
}")).
Eval vm_compute in ("<<<M1439>>>" ++ check (runes_of_ascii "packet calculatedFrom
{ @calculatedFrom( ""a\\"" ) ) zchar[ 4294967296 ]
calculatedFrom@lengthOf( pack )	`100% of %d` ,char[]body@calculatedFrom( ""// no comment"" )  ,
@tag( 007) //x
int8
leftPad`it's` , repeat pack
    { repeat char[ 3] body
,},
}")).
Eval vm_compute in ("<<<M1575>>>" ++ check (runes_of_ascii "packet calculatedFrom
{ @calculatedFrom( ""a\\"" ) zchar[ 4294967296 ]
calculatedFrom@lengthOf( pack )	`100% of %d` ,char[]body@calculatedFrom( ""// no comment"" )  ,
@tag( 007) //x
int8
leftPad`it's` , repeat pack
    { repeat 3 char[ ] body
,},
}")).
Eval vm_compute in ("<<<M1480>>>" ++ check (runes_of_ascii "packet calculatedFrom
{ @calculatedFrom( ""a\\"" ) zchar[ 4294967296 ]
calculatedFrom@lengthOf( pack )	, `100% of %d`char[]body@calculatedFrom( ""// no comment"" )  ,
@tag( 007) //x
int8
leftPad`it's` , repeat pack
    { repeat char[ 3] body
,},
}")).
Eval vm_compute in ("<<<M1453>>>" ++ check (runes_of_ascii "packet calculatedFrom
{ @calculatedFrom( ""a\\"" ) zchar[ 4294967296 
calculatedFrom@lengthOf( pack )	`100% of %d` ,char[]body@calculatedFrom( ""// no comment"" )  ,
@tag( 007) //x
int8
leftPad`it's` , repeat pack
    { repeat char[ 3] body
,},
}")).
Eval vm_compute in ("<<<M1533>>>" ++ check (runes_of_ascii "packet calculatedFrom
{ @calculatedFrom( ""a\\"" ) zchar[ 4294967296 ]
calculatedFrom@lengthOf( pack )	`100% of %d` ,char[]body@calculatedFrom( ""// no comment"" )  ,
@tag( 007) //x

leftPad`it's` , repeat pack
    { repeat char[ 3] body
,},
}")).
Eval vm_compute in ("<<<M1538>>>" ++ check (runes_of_ascii "packet calculatedFrom
{ @calculatedFrom( ""a\\"" ) zchar[ 4294967296 ]
calculatedFrom@lengthOf( pack )	`100% of %d` ,char[]body@calculatedFrom( ""// no comment"" )  ,
@tag( 007) //x
int8
`it's` , repeat pack
    { repeat char[ 3] body
,},
}")).
Eval vm_compute in ("<<<M1498>>>" ++ check (runes_of_ascii "packet calculatedFrom
{ @calculatedFrom( ""a\\"" ) zchar[ 4294967296 ]
calculatedFrom@lengthOf( pack )	`100% of %d` ,char[]body ""// no comment"" )  ,
@tag( 007) //x
int8
leftPad`it's` , repeat pack
    { repeat char[ 3] body
,},
}")).
Eval vm_compute in ("<<<M1572>>>" ++ check (runes_of_ascii "packet calculatedFrom
{ @calculatedFrom( ""a\\"" ) zchar[ 4294967296 ]
calculatedFrom@lengthOf( pack )	`100% of %d` ,char[]body@calculatedFrom( ""// no comment"" )  ,
@tag( 007) //x
int8
leftPad`it's` , repeat pack
    {")).
Eval vm_compute in ("<<<M3922>>>" ++ check (runes_of_ascii "packet repeatCount {
    // packet A { u8 x, }
    @leftPad('\x00')
    u8x MetaDataX `crlf
        line`,
    repeat char[] MetaDataX,
    u64 uint8x @calculatedFrom(""a\""b"") `tab	here`,//
}

MetaData pack {
}")).
Eval vm_compute in ("<<<M864>>>" ++ check (runes_of_ascii "// `tick` ""quote"" 'q'
root packet
chars { } packet	msg_type
{ // @lengthOf(
msg_type @lengthOf( Z9_
) `tab	here` ,} options { msg_type = 10 ;x_y_z =uint64;
falsey=
""1"" len = ""\n""  Z9_
    = ' ';} 	 ")).
Eval vm_compute in ("<<<M1396>>>" ++ check (runes_of_ascii "MetaData roots  {char[ 255 ] calculatedFrom
,
i32
Foo	`say ""hi""` , Z9_
    Logon ,
// a // b
//
float64 msg_type ,zchar[
    //
    007
    // trailing space 
    ] lengthOf
`two words` , } 	 ")).
Eval vm_compute in ("<<<M264>>>" ++ check (runes_of_ascii "MetaData MetaDataX // trailing space 
{
tag
    Pad`{ , }`,
    zchar[ 255 ]
    stringy
    `crlf
line`,	string packetx `crlf
line` ,i32 // 50% %s
o , char[ 1]
uint8x
    , //
}
")).
Eval vm_compute in ("<<<M297>>>" ++ check (runes_of_ascii "packet x { char[ 7 ]	u `crlf
line` ,
// a // b
//
}// a // b
packet
    stringy { @lengthOf(
x_y_z ) match asx as asx  {
    // " ++ [27880; 37322]%N ++ runes_of_ascii "
    1 :metadata 10 :// a // b
roots ,  } ,  }")).
Eval vm_compute in ("<<<M4221>>>" ++ check (runes_of_ascii "
options{

As/// triple
    = """ ++ [28040; 24687]%N ++ runes_of_ascii """

    }
    options 
	    // c
  // c
	{  o  =
	' '// c
  ;
	i8i8

=
' ' msg_type
    =
uint8

; trueish  = false i64_
=255
    ;}
")).
Eval vm_compute in ("<<<M3944>>>" ++ check (runes_of_ascii "packet A {
    match k as n {
        [
            1, ""bb"", 007, ""d"", 5,
            ""f"", 7, ""h"", 9, ""j"",
            11, ""l""
        ] : B,
        2 : C,
    },
}")).
Eval vm_compute in ("<<<M1653>>>" ++ check (runes_of_ascii "options { } packet Packet Packet{char[] i64_ ,
@tag(
    255) match
crc as i8i8{""{,}"" : trueish """" : Pad , ""a\\"" :
Foo ,
    1 :packetx
, """ ++ [128512]%N ++ runes_of_ascii """ : trueish , } , }")).
Eval vm_compute in ("<<<M1775>>>" ++ check (runes_of_ascii "options { } packet Packet{char[] i64_ ,
@tag(
    255) match
crc as i8i8{""{,}"" : trueish """" : Pad , ""a\\"" :
Foo ,
    string :packetx
, """ ++ [128512]%N ++ runes_of_ascii """ : trueish , } , }")).
Eval vm_compute in ("<<<M2384>>>" ++ check (runes_of_ascii "
packet MetaDataX
{
    @leftPad
( // a // b
'0'
) i8 u @lengthOf(
MetaDataX
    ) `say ""hi""/` ,	} MetaData BodyLength {
    asx
x_y_z `" ++ [233]%N ++ runes_of_ascii "`
, uint64 u128 , }
")).
Eval vm_compute in ("<<<M2429>>>" ++ check (runes_of_ascii "
packet MetaDataX
@leftPad
    {
( // a // b
'0'
) i8 u @lengthOf(
MetaDataX
    ) `say ""hi""` ,	} MetaData BodyLength {
    asx
x_y_z `" ++ [233]%N ++ runes_of_ascii "`
, uint64 u128 , }
")).
Eval vm_compute in ("<<<M1844>>>" ++ check (runes_of_ascii "options { } packet Packet{char[] i64_ ,
@tag(
    255) match
crc as i8i8{""{,}"" : trueish """" : Pad , ""a@x\\"" :
Foo ,
    1 :packetx
, """ ++ [128512]%N ++ runes_of_ascii """ : trueish , } , }")).
Eval vm_compute in ("<<<M2410>>>" ++ check (runes_of_ascii "
packet MetaDataX
{
    @leftPad
( // a // b
'0'
)  u @lengthOf(
MetaDataX
    ) `say ""hi""` ,	} MetaData BodyLength {
    asx
x_y_z `" ++ [233]%N ++ runes_of_ascii "`
, uint64 u128 , }
")).
Eval vm_compute in ("<<<M1759>>>" ++ check (runes_of_ascii "options { } packet Packet{char[] i64_ ,
@tag(
    255) match
crc as i8i8{""{,}"" : trueish """" : Pad , ""a\\"" Foo
: ,
    1 :packetx
, """ ++ [128512]%N ++ runes_of_ascii """ : trueish , } , }")).
Eval vm_compute in ("<<<M1747>>>" ++ check (runes_of_ascii "options { } packet Packet{char[] i64_ ,
@tag(
    255) match
crc as i8i8{""{,}"" : trueish """" : Pad  ""a\\"" :
Foo ,
    1 :packetx
, """ ++ [128512]%N ++ runes_of_ascii """ : trueish , } , }")).
Eval vm_compute in ("<<<M3397>>>" ++ check (runes_of_ascii "// top
packet // c0
o // c1
{ // c2
@tag( // c3
4294967296 // c4
) // c5
options1 // c6
@lengthOf( // c7
u8x // c8
) // c9
`" ++ [233]%N ++ runes_of_ascii "` // c10
, // c11
} // c12
")).
Eval vm_compute in ("<<<M3933>>>" ++ check (runes_of_ascii "  MetaData

    metadata 
{
}MetaData
rootA { 
i8	i64_  // c
  , 
roots 
options1 `a\`  ,
lengthOf	Header

, 
Z9_ Foo
    ,int16
BodyLength , 
}

")).
Eval vm_compute in ("<<<M2417>>>" ++ check (runes_of_ascii "
packet MetaDataX
{
    @leftPad
( // a // b
'0'
) i8 u 
MetaDataX
    ) `say ""hi""` ,	} MetaData BodyLength {
    asx
x_y_z `" ++ [233]%N ++ runes_of_ascii "`
, uint64 u128 , }
")).
Eval vm_compute in ("<<<M849>>>" ++ check (runes_of_ascii "// `tick` ""quote"" 'q'
MetaData i8i8 // 50% %s
{ zchar[
// " ++ [27880; 37322]%N ++ runes_of_ascii "
/// triple
42 ] options1 `u8 x,`
,As
    leftPad
    `` , As x
`two words`  , }")).
Eval vm_compute in ("<<<M1925>>>" ++ check (runes_of_ascii "packet	packetx { // trailing space 
x_y_z
{
string
charz ,
string x// @lengthOf(
`two words`
    ,  u8x { // `tick` ""quote"" 'q'
charz")).
Eval vm_compute in ("<<<M4065>>>" ++ check (runes_of_ascii "packet A {
    match k as n {
        [
            ""a"", ""bb"", ""c c"", ""d"", ""e"",
            ""f""
        ] : B,
        2 : C,
    },
}")).
Eval vm_compute in ("<<<M4034>>>" ++ check (runes_of_ascii "packet A {
    match k as n {
        [
            1, 22, ""c c"", 4, 5,
            ""f"", 7
        ] : B,
        2 : C,
    },
}")).
Eval vm_compute in ("<<<M3263>>>" ++ check (runes_of_ascii "MetaData
// c
metadata { } MetaData rootA { i8 i64_ , roots options1 `a\` , lengthOf Header , Z9_ Foo , int16 BodyLength , }")).
Eval vm_compute in ("<<<M3295>>>" ++ check (runes_of_ascii "MetaData metadata { } MetaData rootA { i8 i64_ , roots options1 `a\` , lengthOf Header ,
// c
Z9_ Foo , int16 BodyLength , }")).
Eval vm_compute in ("<<<M1224>>>" ++ check (runes_of_ascii "options {  x_y_z = false zchar
= """ ++ [128512]%N ++ runes_of_ascii """
} MetaData falsey{ Header repeatCount
    /// triple
    `` , }packet rootA
    {}")).
Eval vm_compute in ("<<<M1141>>>" ++ check (runes_of_ascii "options{ //x
} options// 50% %s
{falsey= 0123456789 metadata = '0'
; body
=char[007
    ]; falsey
    =	uint32; }
")).
Eval vm_compute in ("<<<M3001>>>" ++ check (runes_of_ascii "packet A {
  match k as n {
    [""a"", ""bb"", ""c c"", ""d"", ""e"", ""f"", ""g"", ""h"", ""i"", ""j"", ""k""] : B
    2 : C
  },
}")).
Eval vm_compute in ("<<<M3334>>>" ++ check (runes_of_ascii "MetaData float { uint8 BodyLength , } MetaData charz // c
{ float32 trueish `a\` , i16 metadata `say ""hi""` , }")).
Eval vm_compute in ("<<<M3463>>>" ++ check (runes_of_ascii "
packet 
B { 
u8
	a ,	string s ,

} 
root

    packet P {	u16 L
    @lengthOf(  B

), B ,
u8 t

    , } ")).
Eval vm_compute in ("<<<M306>>>" ++ check (runes_of_ascii "// @lengthOf(
options
{
calculatedFrom
    =
//x
// a // b
true
} options {As=
7
;}
packet
x_y_z {
}

")).
Eval vm_compute in ("<<<M3796>>>" ++ check (runes_of_ascii "MetaData 	 // c
  	_x
	{ f64 charz`tab	here`
,

    }options {
BodyLength

    =
""" ++ [233]%N ++ runes_of_ascii "t" ++ [233]%N ++ runes_of_ascii """  ;

    }")).
Eval vm_compute in ("<<<M2991>>>" ++ check (runes_of_ascii "packet A {
  match k as n {
    [""a"", 22, ""c c"", 4, ""e"", 66, ""g"", 8, ""i"", 10] : B,
    2 : C
  },
}")).
Eval vm_compute in ("<<<M1015>>>" ++ check (runes_of_ascii "packet
repeatCount // 50% %s
{ @tag(  3 ) A@calculatedFrom( /// triple
""\n"" ),	}  options {}
")).
Eval vm_compute in ("<<<M2969>>>" ++ check (runes_of_ascii "packet A {
  match k as n {
    [""a"", ""bb"", 007, ""d"", ""e"", 66, ""g"", ""h""] : B,
    2 : C
  },
}")).
Eval vm_compute in ("<<<M655>>>" ++ check (runes_of_ascii "
packet
charz
// 50% %s
// a // b
{
    // 50% %s
    @calculatedFrom("""" ) pack	,
    } 	 ")).
Eval vm_compute in ("<<<M116>>>" ++ check (runes_of_ascii "root
packet
zchar{ } packet	options1 {} packet
roots
{	T	@calculatedFrom( """ ++ [28040; 24687]%N ++ runes_of_ascii """) ,
} 	 ")).
Eval vm_compute in ("<<<M2231>>>" ++ check (runes_of_ascii "MetaData _x {string `// not a comment` x , string
i64_ // trailing space 
`a\` ,
    }
")).
Eval vm_compute in ("<<<M324>>>" ++ check (runes_of_ascii "packet
metadata { i8
    //
    Z9_ @lengthOf( Z9_
    )
//x
/// triple
`it's` ,	} 	 ")).
Eval vm_compute in ("<<<M2249>>>" ++ check (runes_of_ascii "MetaData _x {string x `// not a comment` , string
 // trailing space 
`a\` ,
    }
")).
Eval vm_compute in ("<<<M3888>>>" ++ check (runes_of_ascii "MetaData _x {
    f64 charz `tab	here`,
}

options {
    BodyLength = """ ++ [233]%N ++ runes_of_ascii "t" ++ [233]%N ++ runes_of_ascii """;// c
}")).
Eval vm_compute in ("<<<M3222>>>" ++ check (runes_of_ascii "packet A { u16 // a
 len // b
 @lengthOf( // c
 body // d
 ) // e
 `d` // f
 , }")).
Eval vm_compute in ("<<<M4250>>>" ++ check (runes_of_ascii "packet A {
    // a
    @tag(1)
    u8 x,// b
    // c
    @tag(2)
    u8 y,
}")).
Eval vm_compute in ("<<<M3367>>>" ++ check (runes_of_ascii "MetaData _x
// c
{ f64 charz `tab	here` , } options { BodyLength = """ ++ [233]%N ++ runes_of_ascii "t" ++ [233]%N ++ runes_of_ascii """ ; }")).
Eval vm_compute in ("<<<M1721>>>" ++ check (runes_of_ascii "options { } packet Packet{char[] i64_ ,
@tag(
    255) match
crc as i8i8{")).
Eval vm_compute in ("<<<M3067>>>" ++ check (runes_of_ascii "packet A {
    B b `tab
	x`,
    B `tab
	x`,
    repeat B bs `tab
	x`,
}")).
Eval vm_compute in ("<<<M1462>>>" ++ check (runes_of_ascii "packet calculatedFrom
{ @calculatedFrom( ""a\\"" ) zchar[ 4294967296 ]")).
Eval vm_compute in ("<<<M3413>>>" ++ check (runes_of_ascii "packet o { @tag( 4294967296 )
// c
options1 @lengthOf( u8x ) `" ++ [233]%N ++ runes_of_ascii "` , }")).
Eval vm_compute in ("<<<M636>>>" ++ check (runes_of_ascii "options //
{i8i8
    = ""1"" ; } MetaData uint8x
{ float uint8x, }")).
Eval vm_compute in ("<<<M1265>>>" ++ check (runes_of_ascii "options { metadata =
'\x00' Z9_
= zchar[
65535]; A = false }

")).
Eval vm_compute in ("<<<M1071>>>" ++ check (runes_of_ascii "MetaData
x{ i8 Header , } //x
packet string_{  } options{
}
")).
Eval vm_compute in ("<<<M2882>>>" ++ check (runes_of_ascii "packet A {
  match k as n {
    [""a""] : B,
    2 : C
  },
}")).
Eval vm_compute in ("<<<M4369>>>" ++ check (runes_of_ascii "root packet A {
    u8 x `a
            b
          c`,
}")).
Eval vm_compute in ("<<<M2301>>>" ++ check (runes_of_ascii "
MetaData Pad repeat
u32 rootA `line1
line2` ,
    }
")).
Eval vm_compute in ("<<<M3206>>>" ++ check (runes_of_ascii "// a
MetaData M {} // b
// c
MetaData N {} // d
// e")).
Eval vm_compute in ("<<<M3861>>>" ++ check (runes_of_ascii "packet As {
    i8 uint8x `line1
        line2`,
}")).
Eval vm_compute in ("<<<M2291>>>" ++ check (runes_of_ascii "
Pad MetaData{
u32 rootA `line1
line2` ,
    }
")).
Eval vm_compute in ("<<<M3077>>>" ++ check (runes_of_ascii "root packet A {
    u8 x `100% of %s %d %v`,
}")).
Eval vm_compute in ("<<<M3093>>>" ++ check (runes_of_ascii "options {
    a = ""x\
y"";
    b = ""x\
y""
}")).
Eval vm_compute in ("<<<M3672>>>" ++ check (runes_of_ascii "root packet Z9_ {
    repeat body `doc`,
}")).
Eval vm_compute in ("<<<M3235>>>" ++ check (runes_of_ascii "MetaData zchar // c
{ zchar[ 3 ] Pad , }")).
Eval vm_compute in ("<<<M2797>>>" ++ check (runes_of_ascii "&(x!{9/tGAgH-b-%<`3jFjc {n%qe[ES_i:>nY")).
Eval vm_compute in ("<<<M2636>>>" ++ check (runes_of_ascii "packet A { match k as n { 1 : 2 }, }")).
Eval vm_compute in ("<<<M2832>>>" ++ check (runes_of_ascii "X" ++ [65533; 20; 65533]%N ++ runes_of_ascii "G?w$" ++ [22; 1; 65533; 11; 20; 65533; 65533; 65533; 65533; 65533; 65533]%N ++ runes_of_ascii "1}" ++ [65533]%N ++ runes_of_ascii "[*Vt" ++ [65533]%N ++ runes_of_ascii "K" ++ [65533; 3; 65533]%N ++ runes_of_ascii "e" ++ [65533; 7; 65533]%N)).
Eval vm_compute in ("<<<M1013>>>" ++ check (runes_of_ascii "packet	MetaDataX{// @lengthOf(
}
")).
Eval vm_compute in ("<<<M3478>>>" ++ check (runes_of_ascii "root packet P {
    string s,
}
")).
Eval vm_compute in ("<<<M3176>>>" ++ check (runes_of_ascii "packet A {
 u8 x `d" ++ [8203]%N ++ runes_of_ascii "`, // c" ++ [8203]%N ++ runes_of_ascii "
}")).
Eval vm_compute in ("<<<M4237>>>" ++ check (runes_of_ascii "
root packet 
tag
    { }
")).
Eval vm_compute in ("<<<M2597>>>" ++ check (runes_of_ascii "packet A { u8 x `d` `e`, }")).
Eval vm_compute in ("<<<M3794>>>" ++ check (runes_of_ascii "

  MetaData	Pad {  }  //")).
Eval vm_compute in ("<<<M2808>>>" ++ check ([65533]%N ++ runes_of_ascii "}" ++ [65533]%N ++ runes_of_ascii "T" ++ [65533; 65533]%N ++ runes_of_ascii "CqI:" ++ [65533; 65533; 5; 65533]%N ++ runes_of_ascii "g" ++ [65533]%N ++ runes_of_ascii "	" ++ [65533; 65533; 65533]%N ++ runes_of_ascii "m" ++ [65533]%N ++ runes_of_ascii "V")).
Eval vm_compute in ("<<<M137>>>" ++ check (runes_of_ascii "
// trailing space 
")).
Eval vm_compute in ("<<<M2651>>>" ++ check (runes_of_ascii "packet A { } packet")).
Eval vm_compute in ("<<<M3130>>>" ++ check (runes_of_ascii "// c" ++ [8192]%N ++ runes_of_ascii "
packet A {
}")).
Eval vm_compute in ("<<<M381>>>" ++ check (runes_of_ascii "  options
    { }")).
Eval vm_compute in ("<<<M3909>>>" ++ check (runes_of_ascii "

  /// triple
 
")).
Eval vm_compute in ("<<<M3705>>>" ++ check (runes_of_ascii "packet u128 {
}")).
Eval vm_compute in ("<<<M685>>>" ++ check (runes_of_ascii "// " ++ [128512]%N ++ runes_of_ascii " emoji

")).
Eval vm_compute in ("<<<M2648>>>" ++ check (runes_of_ascii "packet { }")).
Eval vm_compute in ("<<<M2865>>>" ++ check (runes_of_ascii "JvdXGoLq")).
Eval vm_compute in ("<<<M2447>>>" ++ check (runes_of_ascii "char [")).
Eval vm_compute in ("<<<M2530>>>" ++ check (runes_of_ascii """a\""""")).
Eval vm_compute in ("<<<M2489>>>" ++ check (runes_of_ascii "ROOT")).
Eval vm_compute in ("<<<M2494>>>" ++ check (runes_of_ascii "'1'")).
Eval vm_compute in ("<<<M2515>>>" ++ check (runes_of_ascii "@@")).
Eval vm_compute in ("<<<M2696>>>" ++ check (runes_of_ascii ",")).
