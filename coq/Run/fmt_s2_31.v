From FP Require Import Lexer Parser ShowPT Digest Formatter.
From Coq Require Import String List NArith.
Import ListNotations.
Open Scope string_scope.
Set Printing Width 100000000.
Set Printing Depth 100000000.
Definition show_fres (r : fres) : string :=
  match r with
  | FOk s => "OK:" ++ sh_escaped s ""
  | FErr s => "ERR:" ++ sh_escaped s ""
  | FPanic p => "PANIC:" ++ p
  end.
Definition check (rs : list rune) : string := digest (show_fres (format_res rs)).
Definition full (rs : list rune) : string := show_fres (format_res rs).
Eval vm_compute in ("<<<M4079>>>" ++ check (runes_of_ascii "root packet rootA {
    @calculatedFrom("""")
    match packetx as x_y_z {
        // `tick` ""quote"" 'q'
        """ ++ [28040; 24687]%N ++ runes_of_ascii """ : crc,
        ""a	b"" : i8i8,
        ""it's"" : msg_type,
        10 : string_,
        0123456789 : int,
    },
    zchar[0123456789] _x `say ""hi""`,
    @lengthOf(lengthOf)
    repeat chars {
        repeat i16 u,
    },
    i16 u @lengthOf(Pad) `say ""hi""`,
    string u8x @calculatedFrom(""\n"") `" ++ [233]%N ++ runes_of_ascii "`,
    MetaDataX `" ++ [233]%N ++ runes_of_ascii "`,
    char[] Header @lengthOf(Foo) `u8 x,`,//
}

// c
// " ++ [128512]%N ++ runes_of_ascii " emoji
packet repeatCount {
    @tag(7)
    char[] x_y_z `it's`,
    @calculatedFrom(""`tick`"")
    repeat o,
    @lengthOf(pack)
    @lengthOf(u128)
    @lengthOf(stringy)
    match zchar as MetaDataX {
        [0, ""// no comment""] : options1,
        [7, 0123456789, ""a	b"", ""`tick`"", """ ++ [233]%N ++ runes_of_ascii "t" ++ [233]%N ++ runes_of_ascii """] : string_,
        ""a\""b"" : len,
        ""a\\"" : MetaDataX,
    },
    u8x {
        repeat chars MetaDataX `two words`,
        repeat Header len ``,
        pack {
            u16 asx @calculatedFrom(""`tick`"") `line1
                        line2`,
            f64 string_,
            float32 zchar @lengthOf(i8i8),
            As @lengthOf(_x) `u8 x,`,
        },
        int32 roots `doc`,
    },
}

packet As {
    @lengthOf(leftPad)
    @calculatedFrom("""")
    x_y_z @lengthOf(i8i8) `" ++ [233]%N ++ runes_of_ascii "`,
    repeat float32 Z9_,// `tick` ""quote"" 'q'
    pack,
    msg_type,// `tick` ""quote"" 'q'
    @rightPad('0')
    // a // b
    // @lengthOf(
    u16 crc,
    @lengthOf(chars)
    repeat x `it's`,
}

packet body {
    @calculatedFrom(""" ++ [28040; 24687]%N ++ runes_of_ascii """)
    T @lengthOf(u8x),
    @tag(3)
    // packet A { u8 x, }
    u32 u @lengthOf(msg_type),
    @calculatedFrom(""" ++ [128512]%N ++ runes_of_ascii """)
    repeat char[10] A,
    x {
        string o,
        match Pad as rootA {
            ""packet"" : matchKey,
        },
        u64 x_y_z,
        char[] leftPad @lengthOf(float),/// triple
    },
    repeat uint8x falsey `" ++ [233]%N ++ runes_of_ascii "`,
    @lengthOf(Z9_)
    u8 f32a,
    @tag(0123456789)
    // @lengthOf(
    // `tick` ""quote"" 'q'
    u8 matchKey ``,
    Pad trueish `say ""hi""`,
}")).
Eval vm_compute in ("<<<M758>>>" ++ check (runes_of_ascii "root packet o
    {
@lengthOf( BodyLength) uint64 string_@calculatedFrom( ""a\""b""
) ,	repeat tag { match crc  as  lengthOf
    { ""{,}"" :
    //	t
    i8i8 , 255 : trueish
// c
/// triple
[ 10
    // @lengthOf(
    , 1 ,
    // " ++ [128512]%N ++ runes_of_ascii " emoji
    ""abc"" , 0123456789 ,
4294967296
    ,
00
    ]	: body } ,
int32 uint8x @calculatedFrom( ""// no comment"" ) ,// @lengthOf(
zchar[3
] msg_type `` , repeat
float32 pack`it's` //
, }, match  u as _x	{
00
: calculatedFrom , 255 // @lengthOf(
: float ,
""\n"" : repeatCount,
    } ,@tag(
3
    ) match
// c
//
A as Z9_ { ""a\\"": //x
rootA""// no comment"" : f32a,[ ""x y"" ]: i64_ } ,x_y_z ,
int32 f32a , // packet A { u8 x, }
@leftPad
    (
)
f32 roots , @lengthOf( packetx ) @tag(  255 )// c
@tag(
    3
    )i32
    string_
    @calculatedFrom(
//	t
// packet A { u8 x, }
""" ++ [128512]%N ++ runes_of_ascii """)
    `doc`,@leftPad ( ) int8 trueish // `tick` ""quote"" 'q'
@lengthOf(	uint8x
/// triple
// " ++ [27880; 37322]%N ++ runes_of_ascii "
) ,
    zchar[
    007] tag
    @calculatedFrom(""{,}"" )
    , } packet leftPad {
string Foo
, metadata
//	t
// " ++ [128512]%N ++ runes_of_ascii " emoji
u8x ,
msg_type // c
`
` ,  @leftPad
(
    )
repeat metadata {
//x
//	t
char[]
// a // b
// packet A { u8 x, }
i8i8@calculatedFrom( ""CRC32""
)
    , char[1  ] rootA , match falsey as zchar { 4294967296 :leftPad}
, // c
char[/// triple
007 ]stringy @lengthOf(
    /// triple
    i64_	)`a\` ,// packet A { u8 x, }
} ,
    @rightPad (
    '0'
) @lengthOf(
    /// triple
    x
    ) @calculatedFrom(
""1"" ) repeat roots
    ,
    char[]  int@calculatedFrom(""" ++ [128512]%N ++ runes_of_ascii """)`a\`
    ,zchar[
42 ] stringy ,
@lengthOf(chars )
char[ 255 ] int,
    crc@lengthOf(
    falsey
    )`line1
line2`
    ,}
// trailing space 
")).
Eval vm_compute in ("<<<M821>>>" ++ check (runes_of_ascii "
options {
    msg_type
    = ""{,}"" ;
    asx =true ; trueish = ""// no comment""
Pad =
""\n"";
    metadata =uint64
;
    }root // @lengthOf(
packet
// @lengthOf(
// c
int{  @tag(  0123456789) @tag( //	t
00
) @calculatedFrom(
""packet"" )zchar[4294967296
    ] leftPad `line1
line2` , @calculatedFrom( ""x y"")
falsey
@calculatedFrom( ""x y""
//
// `tick` ""quote"" 'q'
) ,
repeat uint8 Packet ,@tag(
4294967296 ) u8x ,
    repeat	char[ 42
] Logon `it's` , int16
falsey@calculatedFrom( ""it's""
)
    //
    ,
msg_type
@lengthOf(leftPad
)
    /// triple
    `" ++ [28040; 24687; 31867; 22411]%N ++ runes_of_ascii "` , match string_ as	charz
    {
    //
    ""it's"" :Foo ,0123456789:
calculatedFrom ""// no comment""
    : T,
[
    ""// no comment""
, 65535  , ""a\\""
    , ""abc"",007
,// " ++ [27880; 37322]%N ++ runes_of_ascii "
""// no comment"" ,  4294967296	]  :
Z9_
}
    // packet A { u8 x, }
    ,float64  charz@lengthOf( Z9_ ) `a\`,
} packet a1 { } packet T  { } packet i64_	{ repeat zchar[65535
]
Logon, @calculatedFrom( ""CRC32"" // " ++ [128512]%N ++ runes_of_ascii " emoji
)repeat string stringy `crlf
line` ,
    repeat char[ 007 ] leftPad ,
@calculatedFrom(
    //
    ""abc""
    ) string calculatedFrom `two words`, len {
    // `tick` ""quote"" 'q'
    float64 lengthOf `" ++ [28040; 24687; 31867; 22411]%N ++ runes_of_ascii "`
// " ++ [27880; 37322]%N ++ runes_of_ascii "
// packet A { u8 x, }
, } ,A
    @calculatedFrom(""abc""
) `line1
line2` ,
    zchar[  10] charz `" ++ [28040; 24687; 31867; 22411]%N ++ runes_of_ascii "` ,repeat Packet ,
    // packet A { u8 x, }
    string
As	@lengthOf( roots ) , @tag( 7
) Packet chars ,
//x
// trailing space 
}
")).
Eval vm_compute in ("<<<M1401>>>" ++ check (runes_of_ascii "options {
	StringPrefixLenType = u16;
	ArrayPrefixLenType = u16;
}

packet SampleBinary {
    uint16 MsgType `" ++ [28040; 24687; 31867; 22411]%N ++ runes_of_ascii "`,
    u16 BodyLenght @lengthOf(Body) `" ++ [28040; 24687; 20307; 38271; 24230]%N ++ runes_of_ascii "`,
    match MsgType as Body {
        1 : Logon,
        2 : Logout,
        3 : Heartbeat,
        4 : RiskControlRequest,
        5 : RiskControlResponse,
    },
        @calculatedFrom(""CRC32"")
    u32 Ckecksum `" ++ [26657; 39564; 21644]%N ++ runes_of_ascii "`,
}

packet Logon {
     @leftPad('0')
    char[10] UserName `" ++ [29992; 25143; 21517]%N ++ runes_of_ascii "`,
    string Password `" ++ [23494; 30721]%N ++ runes_of_ascii "`,
    uint64 ClientId `" ++ [23458; 25143; 31471]%N ++ runes_of_ascii "ID`,
    u16 HeartbeatInterval `" ++ [24515; 36339; 38388; 38548]%N ++ runes_of_ascii "`,
}

packet Logout {
      @rightPad('0')
    char[10] UserName `" ++ [29992; 25143; 21517]%N ++ runes_of_ascii "`,
    uint64 ClientId `" ++ [23458; 25143; 31471]%N ++ runes_of_ascii "ID`,
}

packet Heartbeat {
}

packet RiskControlRequest {
    string UniqueOrderId `" ++ [21807; 19968; 35746; 21333; 21495]%N ++ runes_of_ascii "`,
    char[16] ClOrdID `" ++ [23458; 25143; 35746; 21333; 21495]%N ++ runes_of_ascii "`,
    char[3] MarketID `" ++ [24066; 22330]%N ++ runes_of_ascii "id`,
    char[12] SecurityID `" ++ [35777; 21048; 20195; 30721]%N ++ runes_of_ascii "`,
    char Side `" ++ [20080; 21334; 26041; 21521]%N ++ runes_of_ascii "`,
    char OrderType `" ++ [35746; 21333; 31867; 22411]%N ++ runes_of_ascii "`,
    u64 Price `" ++ [20215; 26684]%N ++ runes_of_ascii "`,
    u32 Qty `" ++ [25968; 37327]%N ++ runes_of_ascii "`,
    repeat string ExtraInfo `" ++ [38468; 21152; 20449; 24687]%N ++ runes_of_ascii "`,
    repeat SubOrder {
    		char[16] ClOrdID `" ++ [23376; 35746; 21333; 21495]%N ++ runes_of_ascii "`,
    		u64 Price `" ++ [23376; 35746; 21333; 20215; 26684]%N ++ runes_of_ascii "`,
    		u32 Qty `" ++ [23376; 35746; 21333; 25968; 37327]%N ++ runes_of_ascii "`,
    	},
}

packet RiskControlResponse {
    string UniqueOrderId `" ++ [21807; 19968; 35746; 21333; 21495]%N ++ runes_of_ascii "`,
    i32 Status `" ++ [29366; 24577]%N ++ runes_of_ascii "`,
    string Msg `" ++ [32467; 26524; 20449; 24687]%N ++ runes_of_ascii "`,
    repeat Detail,
}

packet Detail {
    string RuleName `" ++ [35268; 21017; 21517; 31216]%N ++ runes_of_ascii "`,
    u16 Code `" ++ [21407; 22240; 20195; 30721]%N ++ runes_of_ascii "`,
}")).
Eval vm_compute in ("<<<M118>>>" ++ check (runes_of_ascii "
packet // c
zchar { i8 uint8x//
`a\`,
    match
leftPad as matchKey
// a // b
// @lengthOf(
{  007
    :f32a  ,
7// " ++ [27880; 37322]%N ++ runes_of_ascii "
: // " ++ [128512]%N ++ runes_of_ascii " emoji
falsey ,3
:_x	, [ ""1"" ] : u8x ,
    //	t
    ""it's""
: i8i8 ,
    10 :pack , } , repeat string
rootA`say ""hi""`, repeat
int32 repeatCount `" ++ [233]%N ++ runes_of_ascii "` , @lengthOf( calculatedFrom)
zchar[// @lengthOf(
4294967296 ]
// @lengthOf(
// packet A { u8 x, }
T ,
    @tag(
4294967296 )
crc @calculatedFrom( // packet A { u8 x, }
"""" )
, @calculatedFrom(""abc"")u8x	@lengthOf( o) `crlf
line`, }packet
//
// c
T { i64 repeatCount ,
    calculatedFrom pack
,
@calculatedFrom( ""`tick`"" // packet A { u8 x, }
)
    f32a Foo
, match body as string_ {  ""packet"":	uint8x // " ++ [128512]%N ++ runes_of_ascii " emoji
,// @lengthOf(
""" ++ [128512]%N ++ runes_of_ascii """ /// triple
: body, 007	:
Logon, ""it's"" // a // b
:leftPad
    ,
[ ""x y"" ,
255 , ""\" ++ [233]%N ++ runes_of_ascii """,
1 //
, 0123456789]: options1 ,} , @rightPad ( '\x00'	)
    // packet A { u8 x, }
    match
//	t
// @lengthOf(
As as
    roots { 4294967296 :len """ ++ [28040; 24687]%N ++ runes_of_ascii """ :msg_type
, } ,
    f32 chars ,
// `tick` ""quote"" 'q'
// @lengthOf(
repeat calculatedFrom , @calculatedFrom( ""x y"" ) f32
roots
// `tick` ""quote"" 'q'
//x
`{ , }` , } root packet calculatedFrom{ }
")).
Eval vm_compute in ("<<<M4244>>>" ++ check (runes_of_ascii "

  options
{	StringPrefixLenType

=  u8
	; ArrayPrefixLenType
    =
    u8 
;
FixedStringPadFromLeft =true
    ;  FixedStringPadChar = ' ';
	} packet Logout 
{  repeat
string	Px
    ,repeat
	string seqNo,	InMsgkind64
{  uint16

    OrderId
,
	char[]  count

, repeat
	i32 venue
	, }
,

    }

    packet
Heartbeat	{ float32 tag7 ,repeat  InPrice50	{

    repeat char[ 5 ]

    lastPx ,InRef42 {
    u8

pad0

    , } ,
    uint32

    Acct,repeat	Logout ,repeat
	char[  5]
	Qty  ,}

    ,

    repeat  InSeqno30

    {  repeat 
Logout
,

    } ,
    @leftPad
    (
	'0'  )	char[
    12
] Acct ,	char[] Side2 ,

    repeat

    string
msgKind	,} packet
    Ack
	{
	Heartbeat
,
	char[
8

    ]

seqNo
    , 
float64  clOrdID
,} packet	Trade
	{

    char[]
    OrderId

,
    f64
    Side2 , zchar[ 
8]
f1

    ,
    string	Qty ,
float64
    seqNo
	,

    repeat

    Logout
    ,}packet

Order
	{
f32
OrderId	,

    repeat u8

    x

,
Ack
,
zchar[
7
]
	Note
,
}
root	packet 
Logon {	@rightPad
(
    '\x00'
	)

char[ 9

] 
f1,
}")).
Eval vm_compute in ("<<<M582>>>" ++ check (runes_of_ascii "root packet u128
    {@lengthOf( chars ) repeat u128
{ repeat	char[
//	t
// trailing space 
007
// packet A { u8 x, }
/// triple
] falsey ,
zchar[ 00 ]
crc , uint8x @lengthOf(
    Logon ) `" ++ [28040; 24687; 31867; 22411]%N ++ runes_of_ascii "`
,	zchar[ 0123456789]lengthOf @lengthOf( f32a ),} , repeat/// triple
char[42
    ] float , int16 u
/// triple
// `tick` ""quote"" 'q'
``
    , @leftPad (
)
    zchar {
    int8 f32a `u8 x,`,
    } , @lengthOf(
msg_type  )
options1 { string roots@calculatedFrom(""" ++ [233]%N ++ runes_of_ascii "t" ++ [233]%N ++ runes_of_ascii """
    ) `// not a comment` , }
, Header Packet , @calculatedFrom( """ ++ [233]%N ++ runes_of_ascii "t" ++ [233]%N ++ runes_of_ascii """)  Z9_ { float {
    char[]pack @calculatedFrom( ""a\""b"" )
    `two words` , match Pad as body {
0123456789 : body ,
// " ++ [27880; 37322]%N ++ runes_of_ascii "
// a // b
[// packet A { u8 x, }
""it's""	,""x y"" , """ ++ [128512]%N ++ runes_of_ascii """
// @lengthOf(
// @lengthOf(
, 65535 ,""""
]
//	t
// " ++ [128512]%N ++ runes_of_ascii " emoji
: crc , ""abc""
    //x
    : msg_type, // @lengthOf(
""" ++ [233]%N ++ runes_of_ascii "t" ++ [233]%N ++ runes_of_ascii """ :lengthOf , 3 : Logon ,
    [  ""a\\"" ] : u128 ,
// a // b
/// triple
} ,
    } , MetaDataX{ rootA {repeat char[1
] Pad , }, }
    ,
x  ,	}
//	t
// a // b
, repeat// " ++ [128512]%N ++ runes_of_ascii " emoji
chars , //	t
u16 As ,}
")).
Eval vm_compute in ("<<<M641>>>" ++ check (runes_of_ascii "root
    packet pack {
@lengthOf(
leftPad) match msg_type
    as// a // b
lengthOf
    {
""\n"" : a1,3
:tag 0 : metadata
,
    } ,
    tag @calculatedFrom( ""CRC32"" )
    `doc`/// triple
,
    @rightPad // `tick` ""quote"" 'q'
('\x00'
//x
// " ++ [27880; 37322]%N ++ runes_of_ascii "
)zchar[ 255 ]asx// @lengthOf(
`say ""hi""` ,@calculatedFrom( ""a	b"")
    @calculatedFrom(""" ++ [233]%N ++ runes_of_ascii "t" ++ [233]%N ++ runes_of_ascii """)@calculatedFrom(""packet"" ) Pad { match
    rootA  as float {
    [00 , 007 , ""a\""b"" ,"""",	""a	b"" , ""packet""	]: stringy 0 // trailing space 
: float  ""\" ++ [233]%N ++ runes_of_ascii """ : int	,} , i8i8 { Foo @calculatedFrom( """ ++ [128512]%N ++ runes_of_ascii """
),
string zchar `" ++ [28040; 24687; 31867; 22411]%N ++ runes_of_ascii "` , zchar[ 3
    // " ++ [27880; 37322]%N ++ runes_of_ascii "
    ] metadata `crlf
line` ,
match leftPad as // c
f32a //	t
{ 0
: // " ++ [27880; 37322]%N ++ runes_of_ascii "
pack, [ """",  ""packet""
, 0	,42,""abc""
,
// c
// trailing space 
1 ,
    ""{,}"" ]
: uint8x
} ,
} ,char[ 00
// c
// trailing space 
] trueish @calculatedFrom( """ ++ [128512]%N ++ runes_of_ascii """) // `tick` ""quote"" 'q'
,// c
} , }packet repeatCount{@tag( 4294967296
    )  i8i8
// " ++ [27880; 37322]%N ++ runes_of_ascii "
//x
f32a,@lengthOf(  len )
i8i8 {As`
` // " ++ [128512]%N ++ runes_of_ascii " emoji
, },repeat
f64 asx , }
")).
Eval vm_compute in ("<<<M1263>>>" ++ check (runes_of_ascii "root
    packet  matchKey
    { match uint8x as x_y_z { 1
    : // @lengthOf(
falsey // a // b
, } ,}
packet
    // " ++ [27880; 37322]%N ++ runes_of_ascii "
    MetaDataX  {
    /// triple
    float @calculatedFrom(""a\\"" ) `// not a comment`, repeat stringy {  match repeatCount as
a1 {	[ ""// no comment"" ] : metadata , //	t
[ 4294967296 ,""" ++ [233]%N ++ runes_of_ascii "t" ++ [233]%N ++ runes_of_ascii """ ] : len
    [""a\\""
    , 4294967296 ,""packet"" , """ ++ [233]%N ++ runes_of_ascii "t" ++ [233]%N ++ runes_of_ascii """ ,
    10 , 0 // " ++ [27880; 37322]%N ++ runes_of_ascii "
] :charz
    , 00 :  i64_ , [
7 ] :
tag, 00
//	t
//	t
: falsey }
    , }
    , roots @calculatedFrom( ""1"" ) `
`
    ,msg_type  @lengthOf(
    stringy
) `a\`  , int MetaDataX `doc` , @calculatedFrom( // trailing space 
""" ++ [128512]%N ++ runes_of_ascii """ ) u64
int `say ""hi""`
    , }packet //x
rootA{
asx // c
@lengthOf( Foo) `a\`, @leftPad(
' ' )
string// c
Z9_
,
    crc
    //x
    @lengthOf(
//	t
// a // b
leftPad
)	`doc` ,  repeat calculatedFrom
    // packet A { u8 x, }
    u128`{ , }` , //x
@calculatedFrom(
""packet""
) @calculatedFrom(""\" ++ [233]%N ++ runes_of_ascii """	)i16 roots `doc` , }")).
Eval vm_compute in ("<<<M4420>>>" ++ check (runes_of_ascii "packet len {
    repeat char[0] leftPad `{ , }`,
    @calculatedFrom(""abc"")
    zchar[65535] Z9_ @lengthOf(tag) `tab	here`,
    match u128 as packetx {
        [""it's"", ""\" ++ [233]%N ++ runes_of_ascii """] : o,
        ""\n"" : int,
        ""a\""b"" : As,
        ""{,}"" : chars,
        42 : T,
        ""1"" : packetx,
    },
    x Pad,
    int8 Pad `a\`,
    chars a1,
    char[0] Z9_ @calculatedFrom(""// no comment"") `" ++ [28040; 24687; 31867; 22411]%N ++ runes_of_ascii "`,
}

packet x_y_z {
    repeat stringy x_y_z,
}

root packet charz {
}// " ++ [128512]%N ++ runes_of_ascii " emoji

root packet x {
    _x msg_type,
    @tag(0123456789)
    i64 body `two words`,
    @rightPad('\x00')
    @lengthOf(charz)
    //x
    // @lengthOf(
    zchar[0123456789] stringy,
    repeat Packet stringy,
    repeat A `tab	here`,
    @tag(0)
    match asx as Pad {
        [
            3, 1, 1, """ ++ [233]%N ++ runes_of_ascii "t" ++ [233]%N ++ runes_of_ascii """, ""\n"",
            """"
        ] : Packet,
        42 : roots,
    },
}

options {
    float = true;
}/// triple")).
Eval vm_compute in ("<<<M1175>>>" ++ check (runes_of_ascii "// a // b
root packet
    // trailing space 
    charz { @tag(007 ) repeat u32
    chars, Packet
`doc`
    , } MetaData rootA // `tick` ""quote"" 'q'
{  char[ 42 ]Packet
    `crlf
line` , }// c
packet asx
{repeat  calculatedFrom{
asx @lengthOf(	chars
    )  ,repeat string //	t
x_y_z `line1
line2`
, repeat u32  i64_ //	t
`it's` ,A
    //x
    @lengthOf(
Logon ) `tab	here` , }
    ,
uint32
asx // c
@lengthOf(
BodyLength) ,
// " ++ [27880; 37322]%N ++ runes_of_ascii "
// " ++ [27880; 37322]%N ++ runes_of_ascii "
char[ 0123456789 ] calculatedFrom ,repeat Z9_,
match
    asx //	t
as uint8x {// c
[ ""{,}"",
    // `tick` ""quote"" 'q'
    ""it's""
    , 7 ,""CRC32""
] :
msg_type
    ,
    [
    // packet A { u8 x, }
    1	]// " ++ [128512]%N ++ runes_of_ascii " emoji
: u8x ""CRC32""
:  T, }
    // @lengthOf(
    ,
i8
    charz	@calculatedFrom(
    ""x y""
)
    // `tick` ""quote"" 'q'
    `" ++ [233]%N ++ runes_of_ascii "` ,
    }MetaData u8x
{
    // " ++ [128512]%N ++ runes_of_ascii " emoji
    i8 T , }
")).
Eval vm_compute in ("<<<M3519>>>" ++ check (runes_of_ascii "options {
    LittleEndian = true;
    StringPrefixLenType = u64;
    ArrayPrefixLenType = u8;
    FixedStringPadChar = '0';
}
packet Reject {
    i32 Ref,
    repeat f64 OrderId,
    repeat InNote12 {
        u8 pad0,
    },
    @leftPad(' ') char[6] count,
}
packet Logout {
    zchar[6] Tail,
    repeat string venue,
}
packet Cancel {
    u64 count,
    repeat char[5] lastPx,
    i64 Tail,
    repeat InF140 {
        repeat Logout,
        repeat Reject,
    },
}
root packet Trade {
    repeat InMsgkind39 {
        repeat Reject,
        char[4] Px,
    },
    string Acct,
    uint16 price,
    f32 OrderId,
    u16 x,
    u16 clOrdID @lengthOf(Body),
    match x as Body {
        178 : Logout,
        13 : Cancel,
        174 : Reject,
    },
    u16 Flags @calculatedFrom(""CR\
C32""),
}
")).
Eval vm_compute in ("<<<M900>>>" ++ check (runes_of_ascii "// " ++ [128512]%N ++ runes_of_ascii " emoji
MetaData int {	As
options1 ,
char[
    // a // b
    42]  a1, int32 Foo
`// not a comment`, int32// trailing space 
float
    , zchar[4294967296] uint8x
// c
// `tick` ""quote"" 'q'
`// not a comment` ,	char[] Pad ,  }  root packet
MetaDataX { @tag( 1
    ) u128 { repeatCount	Packet
    , } , A
    , @lengthOf(u128 ) @leftPad
    ( )@leftPad ( '\x00' )repeat i16
    uint8x `u8 x,` ,
int16
float @calculatedFrom( ""abc""
) `" ++ [28040; 24687; 31867; 22411]%N ++ runes_of_ascii "`// packet A { u8 x, }
, body @lengthOf( _x )  , @leftPad	( '0')
    //x
    match roots
as Header // `tick` ""quote"" 'q'
{""{,}""
:Packet , 0123456789
:
pack  00 : matchKey[ """ ++ [28040; 24687]%N ++ runes_of_ascii """
    ,
4294967296  ] : string_
    ,
    } , }  packet
    charz{// trailing space 
char[ 00
    ]u8x , i32 chars ,
}
packet matchKey
    { }")).
Eval vm_compute in ("<<<M157>>>" ++ check (runes_of_ascii "packet Packet { zchar[ /// triple
00] u
@lengthOf(tag
    ),	repeat // " ++ [128512]%N ++ runes_of_ascii " emoji
string u8x `u8 x,`
    , packetx { repeat uint8 leftPad `doc` ,
}	,// " ++ [27880; 37322]%N ++ runes_of_ascii "
@tag(	0123456789
)char[] chars@lengthOf(rootA
// trailing space 
// c
) `{ , }` , uint8 Packet ,
repeat a1 `two words`
//
//
,@calculatedFrom(
    //	t
    ""it's"") string_ {u16 A
// packet A { u8 x, }
// a // b
`crlf
line` , repeat
string // " ++ [27880; 37322]%N ++ runes_of_ascii "
uint8x
    , string u128 ,
    } , }	packet MetaDataX{
    //x
    @tag( 0123456789 ) char[ // packet A { u8 x, }
3
    ] Packet , } MetaData
    repeatCount {  } root packet  u8x
    // `tick` ""quote"" 'q'
    { x_y_z// " ++ [27880; 37322]%N ++ runes_of_ascii "
@lengthOf(
    // a // b
    o ) `two words` , // " ++ [27880; 37322]%N ++ runes_of_ascii "
repeat zchar[ 0123456789
] len `" ++ [233]%N ++ runes_of_ascii "` , }
//
")).
Eval vm_compute in ("<<<M3814>>>" ++ check (runes_of_ascii "// " ++ [27880; 37322]%N ++ runes_of_ascii "

packet
leftPad{	// a // b
      string
As`{ , }`	,char[
	42 
] 
msg_type

    ,
@lengthOf(
i8i8

)match
	Foo
    as

matchKey//	t

{ 
1: chars
    ,65535:
	o
    7
    :calculatedFrom 
,[	65535
    , 7
, ""a	b"" ]
	:int 
,[

00
,
0 , ""x y""

,
65535 //	t
    ,	""" ++ [128512]%N ++ runes_of_ascii """	,
	007
,  ""it's"", """"]
:

Packet ,
""""
: float ,
} , 
u64
    Logon	@calculatedFrom(
	""" ++ [128512]%N ++ runes_of_ascii """ ) ,@calculatedFrom(  ""a	b""
    ) pack	{ 
float32
	charz 
`line1
line2` 	 // `tick` ""quote"" 'q'
	, 
}

    , }MetaData
	u128 {
repeatCount
len`" ++ [233]%N ++ runes_of_ascii "`  ,	BodyLength 	 //x
charz
,u8x  trueish`a\`
,  Header 
msg_type`line1
line2`  ,  string

    stringy

    , // " ++ [128512]%N ++ runes_of_ascii " emoji
	char[]
	u128
    `" ++ [233]%N ++ runes_of_ascii "`
    , }
    options {
}")).
Eval vm_compute in ("<<<M1276>>>" ++ check (runes_of_ascii "packet
As{
@lengthOf(
    chars
)@leftPad( ' ' )	string
    leftPad @lengthOf(
    _x ) , @tag( // " ++ [128512]%N ++ runes_of_ascii " emoji
00
    /// triple
    ) match// " ++ [128512]%N ++ runes_of_ascii " emoji
A as
    falsey { // `tick` ""quote"" 'q'
0:
i64_ ,
[ ""x y"", ""a\""b"" , ""it's"" ,""x y""  ,
007 , ""a	b"" ]// `tick` ""quote"" 'q'
:roots 65535://x
stringy , }
,  zchar[4294967296]
string_ `it's` , int16 Logon `it's` , @calculatedFrom(""" ++ [233]%N ++ runes_of_ascii "t" ++ [233]%N ++ runes_of_ascii """ )repeat char[]// " ++ [27880; 37322]%N ++ runes_of_ascii "
stringy `a\` ,repeat
char[3	] crc , @lengthOf( msg_type )  x { u8x  int`two words` ,
    i8i8 _x // packet A { u8 x, }
`
`
, int8	Logon@lengthOf(
    Pad) ,} ,@tag(1 )	i64	string_@calculatedFrom( ""\" ++ [233]%N ++ runes_of_ascii """ ) , // packet A { u8 x, }
char[]
    Foo  ,  }
")).
Eval vm_compute in ("<<<M3984>>>" ++ check (runes_of_ascii "options

{
    zchar =

    false ;  Packet
=	""`tick`""  ; a1 =  
      // c
    	char[]  ;
    Packet

    =

0123456789

;
	}packet
msg_type
{ 	 /// triple
      @lengthOf( 
u128

    )body
@lengthOf( 
len 
) ,

    @calculatedFrom(
""CRC32"" )zchar[
        /// triple
007 
]  // packet A { u8 x, }
repeatCount 
@lengthOf(Foo )`it's`
    ,
    i16

    leftPad@calculatedFrom(  ""a\\"")	`u8 x,`
    , 
    /// triple
float , 
@lengthOf(  a1) As@lengthOf(	rootA) 
`doc` // @lengthOf(
    , // " ++ [128512]%N ++ runes_of_ascii " emoji
f32
o@calculatedFrom( ""a	b"" ) `tab	here` 
, }	options
// @lengthOf(
    // " ++ [27880; 37322]%N ++ runes_of_ascii "
{ } options
{

    }
")).
Eval vm_compute in ("<<<M3661>>>" ++ check (runes_of_ascii "root packet Pad {
    @lengthOf(_x)
    As i8i8,
    f32 lengthOf `a\`,
    // " ++ [27880; 37322]%N ++ runes_of_ascii "
    repeat len `tab	here`,
    zchar[3] body,
    int8 matchKey `crlf
    line`,
}

MetaData metadata {
    matchKey packetx,
}

packet options1 {
    repeat charz `line1
    line2`,
    int8 options1,
    repeat roots {
        repeat float32 x_y_z `say ""hi""`,
    },
    int64 options1 `line1
    line2`,
    match falsey as falsey {
        [""// no comment"", """"] : _x,
        42 : crc,
        ""packet"" : repeatCount,
        """ ++ [128512]%N ++ runes_of_ascii """ : u8x,
        ""abc"" : falsey,
    },
    repeat float64 x_y_z `a\`,
}")).
Eval vm_compute in ("<<<M20>>>" ++ check (runes_of_ascii "// " ++ [128512]%N ++ runes_of_ascii " emoji
MetaData o
    { } packet uint8x { uint8
    // c
    u128  @lengthOf(
body  )  `// not a comment` , @calculatedFrom( ""1"" ) options1{
    repeat Foo crc , zchar[ 255] MetaDataX
    /// triple
    @calculatedFrom( ""\" ++ [233]%N ++ runes_of_ascii """ ) , Foo { char[ 1 ] msg_type ,
    } ,
    },
float64
    falsey @lengthOf(
f32a )
,
    match
// packet A { u8 x, }
//
BodyLength
    as f32a
{ """ ++ [128512]%N ++ runes_of_ascii """
: x_y_z ,	""" ++ [128512]%N ++ runes_of_ascii """ :
    BodyLength ,""" ++ [28040; 24687]%N ++ runes_of_ascii """ : Foo
,
    } , @lengthOf( lengthOf ) repeat len , // " ++ [128512]%N ++ runes_of_ascii " emoji
crc float`line1
line2`
    , }MetaData repeatCount {
tag x, //	t
}
")).
Eval vm_compute in ("<<<M1216>>>" ++ check (runes_of_ascii "// c
options {} packet // `tick` ""quote"" 'q'
msg_type
    {
    T @calculatedFrom( ""it's"" ) , @tag( 00
    //
    )  match rootA
    as
// a // b
// `tick` ""quote"" 'q'
charz{ 255 : roots [ ""1"", 7
    , 00 ] : x }
    , zchar[  007
    // c
    ]  u @calculatedFrom(
// trailing space 
//x
""" ++ [28040; 24687]%N ++ runes_of_ascii """)  ,	match repeatCount as Pad
    {[ /// triple
""packet""
, 1 ,4294967296,""1"" , ""x y""
    , 42 ] :
metadata ,
    [	3 ,65535 ,
    """",
007, """ ++ [233]%N ++ runes_of_ascii "t" ++ [233]%N ++ runes_of_ascii """ ,
    """ ++ [28040; 24687]%N ++ runes_of_ascii """, // c
""CRC32""
    // " ++ [128512]%N ++ runes_of_ascii " emoji
    ]
    :
    pack
""\" ++ [233]%N ++ runes_of_ascii """
: Packet }, }

")).
Eval vm_compute in ("<<<M675>>>" ++ check (runes_of_ascii "packet charz{
@rightPad
    // a // b
    (
// trailing space 
//x
'0'
)  repeat float32 options1 , @tag(
00
) zchar[007
    // a // b
    ]
lengthOf , @calculatedFrom(
"""" )
    i8 MetaDataX
, repeat
char[] string_ ,// packet A { u8 x, }
match u	as
// a // b
// `tick` ""quote"" 'q'
string_ {
    [ ""\n"" , 0123456789
,	""it's"" , 0123456789,3
    , ""a\""b"" ]
    : packetx,""" ++ [28040; 24687]%N ++ runes_of_ascii """ : _x ,""a\""b""// " ++ [128512]%N ++ runes_of_ascii " emoji
: // " ++ [128512]%N ++ runes_of_ascii " emoji
roots 65535 :crc , },@tag( 7
)
uint8x
u8x
    // " ++ [27880; 37322]%N ++ runes_of_ascii "
    ,
Logon charz  `{ , }` , }
")).
Eval vm_compute in ("<<<M3741>>>" ++ check (runes_of_ascii "
options
    // packet A { u8 x, }
  	// @lengthOf(
  { asx

    // " ++ [128512]%N ++ runes_of_ascii " emoji

	=	// trailing space 
	true
    u128  //x

= ""// no comment""len =
    ' '  ;
crc  = ""1""
; f32a  =

    zchar[
//
  255

];	}  packet falsey
	{@calculatedFrom(	""{,}""
)
	@lengthOf(
    f32a
) repeat int64
i8i8

    `two words` 
,
    //
float64

    Z9_ 
@lengthOf(  A 
)

    `" ++ [28040; 24687; 31867; 22411]%N ++ runes_of_ascii "`
, match
	int as
calculatedFrom
	{ 	 // trailing space 
    10

    : T//	t
    , }
, 
} //	t
")).
Eval vm_compute in ("<<<M1176>>>" ++ check (runes_of_ascii "
MetaData
roots	{	char[
42 ] // @lengthOf(
packetx`u8 x,`
    ,	}
    MetaData
len { u128 rootA`
`
    ,
roots
trueish `doc`
// a // b
// `tick` ""quote"" 'q'
,// trailing space 
uint64 x_y_z
    , u32 string_ , options1 int, i8 charz `it's`,
// " ++ [128512]%N ++ runes_of_ascii " emoji
//
} MetaData int {
// trailing space 
// " ++ [27880; 37322]%N ++ runes_of_ascii "
}
    packet len
{  @calculatedFrom(
""a\\"")
string Header
`doc` , }packet o
{ @leftPad
    // c
    (' ' ) char[] // c
crc@calculatedFrom(""{,}"" )	, }
")).
Eval vm_compute in ("<<<M3679>>>" ++ check (runes_of_ascii "MetaData lengthOf {
    zchar[4294967296] Pad,
    As trueish `" ++ [28040; 24687; 31867; 22411]%N ++ runes_of_ascii "`,
    u32 calculatedFrom `it's`,
    zchar[255] packetx,
    string asx,
    int16 string_ ``,
}

packet Header {
    @calculatedFrom(""" ++ [233]%N ++ runes_of_ascii "t" ++ [233]%N ++ runes_of_ascii """)
    uint8 lengthOf,
    string int @calculatedFrom(""x y"") `" ++ [28040; 24687; 31867; 22411]%N ++ runes_of_ascii "`,
    match stringy as tag {
        [10] : trueish,
        //x
        10 : int,
        // @lengthOf(
        ""abc"" : o,
    },
    @tag(3)
    zchar[255] i64_,
}")).
Eval vm_compute in ("<<<M639>>>" ++ check (runes_of_ascii "options { A = 4294967296 body =0 tag = ""// no comment"";Packet =00
    ;  }root packet leftPad { } root
packet rootA { repeat
charz {repeatCount{
    a1 {repeat uint32 stringy	`` , } ,
    /// triple
    zchar[ 65535
    // `tick` ""quote"" 'q'
    ] tag
, i64_/// triple
metadata
    ,
a1 // " ++ [27880; 37322]%N ++ runes_of_ascii "
{repeat zchar[	3
    ]
    Foo `two words` ,},
    } // `tick` ""quote"" 'q'
, string
a1  @lengthOf( float )
, }
,
    //x
    }")).
Eval vm_compute in ("<<<M4227>>>" ++ check (runes_of_ascii "options 
{ A 
= ' '
_x=
'\x00' 	 /// triple
  string_=
    ""it's""
	;
        // trailing space 
	// @lengthOf(
  }

    options
	{
    u8x	//
      =""it's""
	;lengthOf=
true ;}	packet  matchKey

{ 
    // trailing space 
    char[
65535

]	charz	, 

// " ++ [128512]%N ++ runes_of_ascii " emoji
  //x
uint8x

    ,@leftPad
    // a // b

( 
'\x00')
repeat tag
    Pad

,i32

    i8i8 @lengthOf( MetaDataX )	/// triple
	  ,
    }")).
Eval vm_compute in ("<<<M4170>>>" ++ check (runes_of_ascii "

  options
    { body	// " ++ [27880; 37322]%N ++ runes_of_ascii "

  = 
0123456789
	} packet
tag
{ 
o	@lengthOf(
packetx
	)

`" ++ [28040; 24687; 31867; 22411]%N ++ runes_of_ascii "`	,

repeat options1

    {float64  o `doc`  ,} , 
}
root  packet	float
{
	// trailing space 
@calculatedFrom(

""a	b"" )  //	t
      float32
BodyLength 	 // " ++ [128512]%N ++ runes_of_ascii " emoji
      `crlf
line`  ,

    repeat 	 // " ++ [128512]%N ++ runes_of_ascii " emoji
f32a	Header  `say ""hi""`, int8

falsey// `tick` ""quote"" 'q'
  `{ , }` ,} ")).
Eval vm_compute in ("<<<M79>>>" ++ check (runes_of_ascii "options { len =
    255 tag=""" ++ [233]%N ++ runes_of_ascii "t" ++ [233]%N ++ runes_of_ascii """ }packet	packetx
{
    } options { repeatCount= '\x00' ; x = 4294967296 len =
false	; A =
    false ;Packet
= """" // " ++ [27880; 37322]%N ++ runes_of_ascii "
;
    }MetaData
    x  {
//
// `tick` ""quote"" 'q'
uint32 roots,  lengthOf o `
`	,
u32
    x_y_z `line1
line2` ,
    int64  msg_type
// a // b
//
`crlf
line`	, string repeatCount `line1
line2` , u128 stringy
    , }")).
Eval vm_compute in ("<<<M4103>>>" ++ check (runes_of_ascii "MetaData MetaDataX {
    zchar[42] charz ``,
    Packet stringy `two words`,
    u32 uint8x,
    int chars `
        `,
    f32 metadata,
    char[] string_,
}

packet roots {
    char[7] leftPad,
    @tag(1)
    uint8x @calculatedFrom(""`tick`""),
    @lengthOf(x)
    lengthOf {
        repeat uint8x u,
        char zchar,
        zchar[10] tag,
    },
}")).
Eval vm_compute in ("<<<M864>>>" ++ check (runes_of_ascii "options{
    msg_type =false len= 4294967296  ; asx= false
// a // b
// `tick` ""quote"" 'q'
A = '\x00' float= zchar[
    007 ] }
packet u128
{ float32 msg_type `a\`// c
, } MetaData T{
int64 o `" ++ [28040; 24687; 31867; 22411]%N ++ runes_of_ascii "`// @lengthOf(
, char[]
    Foo  , }options	{packetx =uint32	;	roots
    = false ; falsey=zchar[
    00 ]
}options {
    Logon = float32 }

")).
Eval vm_compute in ("<<<M1172>>>" ++ check (runes_of_ascii "packet
stringy { @lengthOf(
Packet ) lengthOf @calculatedFrom(""it's"" ) ,  } MetaData x_y_z{ asx rootA `it's` ,
float32 // " ++ [128512]%N ++ runes_of_ascii " emoji
trueish
//x
// packet A { u8 x, }
, o Packet , } options {leftPad =true ; len	= 7 //x
; Pad
//	t
// c
= 42
    //x
    ; chars
    = 65535 ;A =
    4294967296} MetaData int
    /// triple
    { }")).
Eval vm_compute in ("<<<M136>>>" ++ check (runes_of_ascii "options { As
=char[007 ] ;_x // a // b
=1
;
    matchKey
    =true
;
Logon // trailing space 
= ' ' ;
    stringy =/// triple
zchar[007  ] ;
    } root
    packet MetaDataX { //x
match leftPad
    as Logon { 255
    : packetx [0123456789
    ]
    : x_y_z
, 10
// `tick` ""quote"" 'q'
// a // b
: rootA} , }")).
Eval vm_compute in ("<<<M1560>>>" ++ check (runes_of_ascii "root packet Foo // " ++ [128512]%N ++ runes_of_ascii " emoji
{ } options {
    // a // b
    tag // `tick` ""quote"" 'q'
= //	t
""""
    ; u8x = zchar[0  ] }
MetaData
    int {zchar[ 10]
lengthOf	`` , i64 u8x`// not a comment` ,MetaDataX MetaDataX pack// `tick` ""quote"" 'q'
`crlf
line`
, Logon charz `crlf
line`
    ,
    // a // b
    }
")).
Eval vm_compute in ("<<<M1482>>>" ++ check (runes_of_ascii "root packet Foo // " ++ [128512]%N ++ runes_of_ascii " emoji
{ } options {
    // a // b
    tag // `tick` ""quote"" 'q'
= //	t
""""
    ; u8x = zchar[""" ++ [233]%N ++ runes_of_ascii "t" ++ [233]%N ++ runes_of_ascii """  ] }
MetaData
    int {zchar[ 10]
lengthOf	`` , i64 u8x`// not a comment` ,MetaDataX pack// `tick` ""quote"" 'q'
`crlf
line`
, Logon charz `crlf
line`
    ,
    // a // b
    }
")).
Eval vm_compute in ("<<<M1470>>>" ++ check (runes_of_ascii "root packet Foo // " ++ [128512]%N ++ runes_of_ascii " emoji
{ } options {
    // a // b
    tag // `tick` ""quote"" 'q'
= //	t
""""
    ; u8x = = zchar[0  ] }
MetaData
    int {zchar[ 10]
lengthOf	`` , i64 u8x`// not a comment` ,MetaDataX pack// `tick` ""quote"" 'q'
`crlf
line`
, Logon charz `crlf
line`
    ,
    // a // b
    }
")).
Eval vm_compute in ("<<<M4434>>>" ++ check (runes_of_ascii "packet calculatedFrom {
    repeat charz,
    Logon @calculatedFrom(""packet""),
    @tag(1)
    repeat zchar[255] rootA,
    string calculatedFrom `two words`,
    @rightPad(' ')
    @calculatedFrom(""\n"")
    @tag(4294967296)
    chars @calculatedFrom(""" ++ [233]%N ++ runes_of_ascii "t" ++ [233]%N ++ runes_of_ascii """) `
        `,
    repeat u128 int,
}")).
Eval vm_compute in ("<<<M1566>>>" ++ check (runes_of_ascii "root packet Foo // " ++ [128512]%N ++ runes_of_ascii " emoji
{ } options {
    // a // b
    tag // `tick` ""quote"" 'q'
= //	t
""""
    ; u8x = zchar[0  ] }
MetaData
    int {zchar[ 10]
lengthOf	`` , i64 u8x`// not a comment` ,MetaDataX `crlf
line`// `tick` ""quote"" 'q'
pack
, Logon charz `crlf
line`
    ,
    // a // b
    }
")).
Eval vm_compute in ("<<<M1437>>>" ++ check (runes_of_ascii "root packet Foo // " ++ [128512]%N ++ runes_of_ascii " emoji
{ } false {
    // a // b
    tag // `tick` ""quote"" 'q'
= //	t
""""
    ; u8x = zchar[0  ] }
MetaData
    int {zchar[ 10]
lengthOf	`` , i64 u8x`// not a comment` ,MetaDataX pack// `tick` ""quote"" 'q'
`crlf
line`
, Logon charz `crlf
line`
    ,
    // a // b
    }
")).
Eval vm_compute in ("<<<M1474>>>" ++ check (runes_of_ascii "root packet Foo // " ++ [128512]%N ++ runes_of_ascii " emoji
{ } options {
    // a // b
    tag // `tick` ""quote"" 'q'
= //	t
""""
    ; u8x = 0  ] }
MetaData
    int {zchar[ 10]
lengthOf	`` , i64 u8x`// not a comment` ,MetaDataX pack// `tick` ""quote"" 'q'
`crlf
line`
, Logon charz `crlf
line`
    ,
    // a // b
    }
")).
Eval vm_compute in ("<<<M236>>>" ++ check (runes_of_ascii "root packet
    x_y_z{ match lengthOf
as // `tick` ""quote"" 'q'
rootA { 42 :
    asx } ,	@rightPad(
' ' ) repeat u16 int`// not a comment`, @tag(42	)rootA string_, int32 lengthOf // trailing space 
,match
    As as falsey { [ ""// no comment"" ] :
    calculatedFrom,
    } , }
")).
Eval vm_compute in ("<<<M3493>>>" ++ check (runes_of_ascii "packet FooBar
    // c1
{
    // c2
u8 // c3
a
    // c4
, } // c6
packet // c7
foo_bar {
    // c9
u16 // c10a
  // c10b
b // c11a
  // c11b
, // c12a
  // c12b
} root // c14a
  // c14b
packet // c15
R
    // c16
{ FooBar // c18
, // c19
foo_bar , // c21
} // c22
")).
Eval vm_compute in ("<<<M14>>>" ++ check (runes_of_ascii "MetaData	packetx {
    packetx i64_ `say ""hi""` ,  } options {
    } packet string_ {
@lengthOf(repeatCount ) len
{ zchar[ 10]
// " ++ [128512]%N ++ runes_of_ascii " emoji
// `tick` ""quote"" 'q'
u128 ,
    f32
    falsey`say ""hi""`
,uint16// a // b
f32a
    `crlf
line`
,
    } , }
// " ++ [27880; 37322]%N ++ runes_of_ascii "
")).
Eval vm_compute in ("<<<M3544>>>" ++ check (runes_of_ascii "
packet Sub
    {

    u8
a 
,	u32 
SubSum	@calculatedFrom(

    ""CRC16""

    )  ,
}
root packet  Frame 
{	u16 MsgType,u16
	BodyLen

@lengthOf(
	Body	)
	,
	Sub
Body	, string note
,u32 Checksum@calculatedFrom(""CRC16""  )	,  u8 tail , }
")).
Eval vm_compute in ("<<<M1293>>>" ++ check (runes_of_ascii "root packet
    charz {roots falsey	, @lengthOf(
    // packet A { u8 x, }
    u8x )T @lengthOf( x) `line1
line2` /// triple
,	x
@calculatedFrom(
    // a // b
    ""// no comment"" ),  @leftPad
    (
' ' )	zchar[ 0123456789	] string_, }")).
Eval vm_compute in ("<<<M4010>>>" ++ check (runes_of_ascii "root packet rootA {
    @leftPad('\x00')
    @lengthOf(crc)
    @lengthOf(string_)
    uint16 Z9_ `
    `,
    @lengthOf(Z9_)
    char[4294967296] zchar `say ""hi""`,
    u,
    match int as stringy {
        3 : body,
    },
}")).
Eval vm_compute in ("<<<M2228>>>" ++ check (runes_of_ascii "MetaData Packet { ""CRC32""packet	asx  { @lengthOf( asx) falsey`crlf
line`
,
    }
    packet x	{uint32// @lengthOf(
rootA	,u32 options1 `say ""hi""` , @tag( 7
    )// packet A { u8 x, }
msg_type @lengthOf(
stringy	)	, }

")).
Eval vm_compute in ("<<<M2256>>>" ++ check (runes_of_ascii "MetaData Packet { }packet	asx  { @lengthOf( asx) ) falsey`crlf
line`
,
    }
    packet x	{uint32// @lengthOf(
rootA	,u32 options1 `say ""hi""` , @tag( 7
    )// packet A { u8 x, }
msg_type @lengthOf(
stringy	)	, }

")).
Eval vm_compute in ("<<<M2390>>>" ++ check (runes_of_ascii "MetaData Packet { }packet	asx  { @lengthOf( asx) falsey`crlf
line`
,
    }
|    packet x	{uint32// @lengthOf(
rootA	,u32 options1 `say ""hi""` , @tag( 7
    )// packet A { u8 x, }
msg_type @lengthOf(
stringy	)	, }

")).
Eval vm_compute in ("<<<M2357>>>" ++ check (runes_of_ascii "MetaData Packet { }packet	asx  { @lengthOf( asx) falsey`crlf
line`
,
    }
    packet x	{uint32// @lengthOf(
rootA	,u32 options1 `say ""hi""` , @tag( 7
    )// packet A { u8 x, }
msg_type @lengthOf(
)	stringy	, }

")).
Eval vm_compute in ("<<<M1117>>>" ++ check (runes_of_ascii "MetaData string_
{ // c
len
MetaDataX`
` , char[] options1
// " ++ [27880; 37322]%N ++ runes_of_ascii "
/// triple
,u tag
, options1 Z9_ ,
x // c
f32a //x
`line1
line2`,zchar[ 0123456789 ] pack
,
}packet _x {  @leftPad ( ) char[	10
] roots , }
")).
Eval vm_compute in ("<<<M173>>>" ++ check (runes_of_ascii "//
packet
    u { }
    packet
    u8x { }options  {
    Logon =string ; calculatedFrom ='\x00'
;
BodyLength// " ++ [27880; 37322]%N ++ runes_of_ascii "
= 1; //	t
_x// " ++ [27880; 37322]%N ++ runes_of_ascii "
=""CRC32""; } root
/// triple
// " ++ [27880; 37322]%N ++ runes_of_ascii "
packet Z9_ {
}
    MetaData chars  {
}
")).
Eval vm_compute in ("<<<M715>>>" ++ check (runes_of_ascii "packet u128 // packet A { u8 x, }
{ @tag( 00 )
    // trailing space 
    i64 msg_type @calculatedFrom(
""x y"" ) , repeat //
calculatedFrom u//
, @rightPad
('0')repeat string chars`` , int8 metadata,}
")).
Eval vm_compute in ("<<<M4402>>>" ++ check (runes_of_ascii "
root
    packet body 
//	t
  { 
@lengthOf(
    string_

) match
    f32a
as
rootA
    {
[
	""x y""
] 
	    // @lengthOf(
    // trailing space 
	: packetx
        //
	// a // b
,}

    ,}")).
Eval vm_compute in ("<<<M1558>>>" ++ check (runes_of_ascii "root packet Foo // " ++ [128512]%N ++ runes_of_ascii " emoji
{ } options {
    // a // b
    tag // `tick` ""quote"" 'q'
= //	t
""""
    ; u8x = zchar[0  ] }
MetaData
    int {zchar[ 10]
lengthOf	`` , i64 u8x`// not a comment`")).
Eval vm_compute in ("<<<M3>>>" ++ check (runes_of_ascii "packet
    Foo{
    uint64  Header @lengthOf( float )
`
`
, // a // b
char[]_x,@tag( 10
    )
char[] Packet , uint16 stringy @lengthOf(
    calculatedFrom
), }//x
options	{ }")).
Eval vm_compute in ("<<<M1080>>>" ++ check (runes_of_ascii "packet
// `tick` ""quote"" 'q'
// " ++ [27880; 37322]%N ++ runes_of_ascii "
len
{
match x as  pack { // @lengthOf(
3 : MetaDataX 255
    :Foo , 00
:
o
}, @calculatedFrom(  ""CRC32"" ) u128@lengthOf(packetx	) ,
}")).
Eval vm_compute in ("<<<M98>>>" ++ check (runes_of_ascii "root // trailing space 
packet Foo
    // " ++ [128512]%N ++ runes_of_ascii " emoji
    {
    //x
    char[] body`crlf
line`, // " ++ [128512]%N ++ runes_of_ascii " emoji
} options {
    _x=  false
    }
packet BodyLength	{
} 	 ")).
Eval vm_compute in ("<<<M2349>>>" ++ check (runes_of_ascii "MetaData Packet { }packet	asx  { @lengthOf( asx) falsey`crlf
line`
,
    }
    packet x	{uint32// @lengthOf(
rootA	,u32 options1 `say ""hi""` , @tag( 7
    )")).
Eval vm_compute in ("<<<M2339>>>" ++ check (runes_of_ascii "MetaData Packet { }packet	asx  { @lengthOf( asx) falsey`crlf
line`
,
    }
    packet x	{uint32// @lengthOf(
rootA	,u32 options1 `say ""hi""` , @tag(")).
Eval vm_compute in ("<<<M1518>>>" ++ check (runes_of_ascii "root packet Foo // " ++ [128512]%N ++ runes_of_ascii " emoji
{ } options {
    // a // b
    tag // `tick` ""quote"" 'q'
= //	t
""""
    ; u8x = zchar[0  ] }
MetaData
    int {zchar[")).
Eval vm_compute in ("<<<M249>>>" ++ check (runes_of_ascii "
options {
Header
    // a // b
    =
false float
=
""abc"" ;
i64_  = false ;}options // " ++ [128512]%N ++ runes_of_ascii " emoji
{
//
//x
repeatCount
    =
    ""a\\"";
}
//
")).
Eval vm_compute in ("<<<M1630>>>" ++ check (runes_of_ascii "root packet packet /// triple
rootA {	i32
MetaDataX@calculatedFrom( ""CRC32"" ) `line1
line2` , } MetaData BodyLength {
u8
rootA, } // c")).
Eval vm_compute in ("<<<M3861>>>" ++ check (runes_of_ascii "packet A {
    u8 a,
}

packet B {
    u16 b,
}

root packet P {
    u8 K,
    match K as M {
        1 : A,
        1 : B,
    },
}")).
Eval vm_compute in ("<<<M3435>>>" ++ check (runes_of_ascii "
packet	B
{
	u8 a	, 
}

    root

packet P {  u8  K , 
u8
    L @lengthOf(
Body)

,	match
K as Body
{  1

    :B,  }	,
	} ")).
Eval vm_compute in ("<<<M1704>>>" ++ check (runes_of_ascii "root packet /// triple
rootA {	i32
MetaDataX@calculatedFrom( ""CRC32"" ) `line1
line2` , } MetaData BodyLength {
u8
,rootA } // c")).
Eval vm_compute in ("<<<M3799>>>" ++ check (runes_of_ascii "packet A {
    u16 len @lengthOf(body) `a
    
    b`,
    u32 crc @calculatedFrom(""CRC32"") `a
    
    b`,
    string body,
}")).
Eval vm_compute in ("<<<M392>>>" ++ check (runes_of_ascii "root packet
roots {
    BodyLength asx
    ,a1//
,@tag(7
    )zchar[
42 ]
BodyLength , // " ++ [27880; 37322]%N ++ runes_of_ascii "
x_y_z `u8 x,`
,f64 packetx ,}")).
Eval vm_compute in ("<<<M1838>>>" ++ check (runes_of_ascii "packet
    Pad // a // b
{ i8i8 @calculatedFrom( ""a	b"") `u8 x,` ,
} options true float// " ++ [128512]%N ++ runes_of_ascii " emoji
= f64 i64_
=//	t
00 }
")).
Eval vm_compute in ("<<<M1868>>>" ++ check (runes_of_ascii "packet
    Pad // a // b
{ i8i8 @calculatedFrom( ""a	b"") `u8 x,` ,
} options{ float// " ++ [128512]%N ++ runes_of_ascii " emoji
= f64 i64_
=//	t
root }
")).
Eval vm_compute in ("<<<M790>>>" ++ check (runes_of_ascii "// @lengthOf(
packet u128
    // `tick` ""quote"" 'q'
    { char[ 0123456789 // " ++ [27880; 37322]%N ++ runes_of_ascii "
]A @lengthOf( Packet  ) `u8 x,`, }
")).
Eval vm_compute in ("<<<M1810>>>" ++ check (runes_of_ascii "packet
    Pad // a // b
{ i8i8 @calculatedFrom( ""a	b"" `u8 x,` ,
} options{ float// " ++ [128512]%N ++ runes_of_ascii " emoji
= f64 i64_
=//	t
00 }
")).
Eval vm_compute in ("<<<M691>>>" ++ check (runes_of_ascii "packet o
{ } packet  MetaDataX{
} root packet u8x {MetaDataX @calculatedFrom(""\n"" ) ,
    } // packet A { u8 x, }")).
Eval vm_compute in ("<<<M512>>>" ++ check (runes_of_ascii "packet	f32a { i16 uint8x@lengthOf( a1 ) ,
    /// triple
    @lengthOf( body ) u64 u ,// packet A { u8 x, }
}

")).
Eval vm_compute in ("<<<M3639>>>" ++ check (runes_of_ascii "packet i8i8 {
    @tag(00)
    @lengthOf(chars)
    @leftPad('\x00')
    A @calculatedFrom(""it's"") `{ , }`,
}")).
Eval vm_compute in ("<<<M3454>>>" ++ check (runes_of_ascii "options {
    LittleEndian = true;
}
root packet P {
    u16 a,
    u32 Sum @calculatedFrom(""CR\
C32""),
}
")).
Eval vm_compute in ("<<<M3341>>>" ++ check (runes_of_ascii "packet calculatedFrom // c
{ @tag( 4294967296 ) u msg_type , char[ 3 ] crc @lengthOf( len ) `u8 x,` , }")).
Eval vm_compute in ("<<<M3373>>>" ++ check (runes_of_ascii "packet calculatedFrom { @tag( 4294967296 ) u msg_type , char[ 3 ] crc @lengthOf( len ) `u8 x,` , // c
}")).
Eval vm_compute in ("<<<M843>>>" ++ check (runes_of_ascii "  packet crc { repeat int64 string_
    `" ++ [28040; 24687; 31867; 22411]%N ++ runes_of_ascii "` , } root packet
leftPad {
    } MetaData A{
}
// c
")).
Eval vm_compute in ("<<<M1055>>>" ++ check (runes_of_ascii "
MetaData u { stringy metadata
`// not a comment` , u8 len
, _x a1, string
    Z9_
    ,
    }")).
Eval vm_compute in ("<<<M3223>>>" ++ check (runes_of_ascii "packet Logon { @tag(
// c
42 ) @rightPad ( ' ' ) @leftPad ( ) repeat trueish { string T , } , }")).
Eval vm_compute in ("<<<M3255>>>" ++ check (runes_of_ascii "packet Logon { @tag( 42 ) @rightPad ( ' ' ) @leftPad ( ) repeat trueish { string T , }
// c
, }")).
Eval vm_compute in ("<<<M1963>>>" ++ check (runes_of_ascii "root
packet packet crc
    { f32a @calculatedFrom( """ ++ [233]%N ++ runes_of_ascii "t" ++ [233]%N ++ runes_of_ascii """ )
    `say ""hi""`, lengthOf `` ,  }")).
Eval vm_compute in ("<<<M1356>>>" ++ check (runes_of_ascii "MetaData u	{ i32 i8i8`u8 x,` , MetaDataX
// " ++ [27880; 37322]%N ++ runes_of_ascii "
// " ++ [27880; 37322]%N ++ runes_of_ascii "
pack `
` , Logon zchar
    `doc` ,}
")).
Eval vm_compute in ("<<<M2017>>>" ++ check (runes_of_ascii "root
packet crc
    { f32a @calculatedFrom( """ ++ [233]%N ++ runes_of_ascii "t" ++ [233]%N ++ runes_of_ascii """ )
    `say ""hi""`, lengthOf `` , ,  }")).
Eval vm_compute in ("<<<M1960>>>" ++ check (runes_of_ascii "packet
root crc
    { f32a @calculatedFrom( """ ++ [233]%N ++ runes_of_ascii "t" ++ [233]%N ++ runes_of_ascii """ )
    `say ""hi""`, lengthOf `` ,  }")).
Eval vm_compute in ("<<<M2921>>>" ++ check (runes_of_ascii "packet A {
  match k as n {
    [""a"", ""bb"", 007, ""d"", ""e"", 66] : B,
    2 : C
  },
}")).
Eval vm_compute in ("<<<M256>>>" ++ check (runes_of_ascii "packet matchKey {
@tag( 7
    ) @leftPad
    //x
    ( '\x00')
    string_ ,	} 	 ")).
Eval vm_compute in ("<<<M3314>>>" ++ check (runes_of_ascii "packet o { @tag( 42 ) repeat x { char[ 0123456789 // c
] i64_ , } , } options { }")).
Eval vm_compute in ("<<<M3179>>>" ++ check (runes_of_ascii "packet A { u16 // a
 len // b
 @lengthOf( // c
 body // d
 ) // e
 `d` // f
 , }")).
Eval vm_compute in ("<<<M4388>>>" ++ check (runes_of_ascii "
packet 
len{
    Logon@calculatedFrom( 	 // a // b
""a\""b""

    ),

    }
")).
Eval vm_compute in ("<<<M2912>>>" ++ check (runes_of_ascii "packet A {
  match k as n {
    [1, 22, 007, 4, 5, 66] : B
    2 : C
  },
}")).
Eval vm_compute in ("<<<M779>>>" ++ check (runes_of_ascii "MetaData
    repeatCount {
    T matchKey
    , float Packet
    ,
    }")).
Eval vm_compute in ("<<<M2195>>>" ++ check (runes_of_ascii "root
    // `tick` ""quote"" 'q'
    @tagpacket As { trueish Packet , }
")).
Eval vm_compute in ("<<<M1666>>>" ++ check (runes_of_ascii "root packet /// triple
rootA {	i32
MetaDataX@calculatedFrom( ""CRC32""")).
Eval vm_compute in ("<<<M2824>>>" ++ check (runes_of_ascii "false @rightPad u8x true u64 ] repeat char uint16 [ MetaData options")).
Eval vm_compute in ("<<<M2159>>>" ++ check (runes_of_ascii "root
    // `tick` ""quote"" 'q'
    As packet { trueish Packet , }
")).
Eval vm_compute in ("<<<M3912>>>" ++ check (runes_of_ascii "  options 
{ }
packet
_x

{ 
}

    packet

matchKey
    {	}

")).
Eval vm_compute in ("<<<M1453>>>" ++ check (runes_of_ascii "root packet Foo // " ++ [128512]%N ++ runes_of_ascii " emoji
{ } options {
    // a // b
    tag")).
Eval vm_compute in ("<<<M1937>>>" ++ check (runes_of_ascii "
packet	As { @calculatedFrom(//x
""{,}""	)lengthOf , zchar[ 	 ")).
Eval vm_compute in ("<<<M1901>>>" ++ check (runes_of_ascii "
packet	As As { @calculatedFrom(//x
""{,}""	)lengthOf , } 	 ")).
Eval vm_compute in ("<<<M57>>>" ++ check (runes_of_ascii "MetaData stringy { uint8
//x
// @lengthOf(
string_
, }
")).
Eval vm_compute in ("<<<M2269>>>" ++ check (runes_of_ascii "MetaData Packet { }packet	asx  { @lengthOf( asx) falsey")).
Eval vm_compute in ("<<<M1235>>>" ++ check (runes_of_ascii "root packet Pad { zchar[7 ]
    float // a // b
, }
")).
Eval vm_compute in ("<<<M2404>>>" ++ check (runes_of_ascii "MetaData A
{
i64
chars	@x, } // `tick` ""quote"" 'q'")).
Eval vm_compute in ("<<<M150>>>" ++ check (runes_of_ascii "options {float
    = 4294967296 ;} options
{ }
")).
Eval vm_compute in ("<<<M1925>>>" ++ check (runes_of_ascii "
packet	As { @calculatedFrom(//x
""{,}""	) , } 	 ")).
Eval vm_compute in ("<<<M405>>>" ++ check (runes_of_ascii "options
    { x
=
    //	t
    zchar[65535 ]}")).
Eval vm_compute in ("<<<M3053>>>" ++ check (runes_of_ascii "options {
    a = ""x\
y"";
    b = ""x\
y""
}")).
Eval vm_compute in ("<<<M1913>>>" ++ check (runes_of_ascii "
packet	As { f32//x
""{,}""	)lengthOf , } 	 ")).
Eval vm_compute in ("<<<M3816>>>" ++ check (runes_of_ascii "  packet
	A {u8 
x
    `d" ++ [6158]%N ++ runes_of_ascii "` ,  // c" ++ [6158]%N ++ runes_of_ascii "
	} ")).
Eval vm_compute in ("<<<M3192>>>" ++ check (runes_of_ascii "MetaData zchar // c
{ zchar[ 3 ] Pad , }")).
Eval vm_compute in ("<<<M2193>>>" ++ check (runes_of_ascii "root
    // `tick` ""quote"" 'q'
    pack")).
Eval vm_compute in ("<<<M3152>>>" ++ check (runes_of_ascii "packet A {    u8 x, // c    u8 y,}")).
Eval vm_compute in ("<<<M2150>>>" ++ check (runes_of_ascii "MetaData x
{// " ++ [128512]%N ++ runes_of_ascii " emoji
i16 na" ++ [239]%N ++ runes_of_ascii "ve , }")).
Eval vm_compute in ("<<<M3851>>>" ++ check (runes_of_ascii "options {
    metadata = ""packet""
}")).
Eval vm_compute in ("<<<M2828>>>" ++ check (runes_of_ascii "u64 root options `` char[] """" = :")).
Eval vm_compute in ("<<<M289>>>" ++ check (runes_of_ascii "options
    // " ++ [128512]%N ++ runes_of_ascii " emoji
    { }
")).
Eval vm_compute in ("<<<M3078>>>" ++ check (runes_of_ascii "packet A {
 u8 x `d" ++ [133]%N ++ runes_of_ascii "`, // c" ++ [133]%N ++ runes_of_ascii "
}")).
Eval vm_compute in ("<<<M3834>>>" ++ check (runes_of_ascii "options {
    string_ = 007
}")).
Eval vm_compute in ("<<<M1985>>>" ++ check (runes_of_ascii "root
packet crc
    { f32a")).
Eval vm_compute in ("<<<M2445>>>" ++ check (runes_of_ascii "int8 int16 int32 int64 int")).
Eval vm_compute in ("<<<M2745>>>" ++ check (runes_of_ascii "{ [ as uint64 @tag( char[")).
Eval vm_compute in ("<<<M3169>>>" ++ check (runes_of_ascii "packet A { // a
 u8 x, }")).
Eval vm_compute in ("<<<M2590>>>" ++ check (runes_of_ascii "packet A { x @tag(1), }")).
Eval vm_compute in ("<<<M3766>>>" ++ check (runes_of_ascii "  MetaData 
Logon	{ } ")).
Eval vm_compute in ("<<<M182>>>" ++ check (runes_of_ascii "root packet As { }

")).
Eval vm_compute in ("<<<M2593>>>" ++ check (runes_of_ascii "packet A { B { }, }")).
Eval vm_compute in ("<<<M2764>>>" ++ check (runes_of_ascii "p*ytL24P\39v6K0pl$")).
Eval vm_compute in ("<<<M3132>>>" ++ check (runes_of_ascii "// c" ++ [8203]%N ++ runes_of_ascii "
packet A {
}")).
Eval vm_compute in ("<<<M3069>>>" ++ check (runes_of_ascii "packet A {
}// c" ++ [160]%N)).
Eval vm_compute in ("<<<M4440>>>" ++ check (runes_of_ascii "packet chars {
}")).
Eval vm_compute in ("<<<M2730>>>" ++ check (runes_of_ascii "@tag( ) uint64")).
Eval vm_compute in ("<<<M915>>>" ++ check (runes_of_ascii "options{ }
")).
Eval vm_compute in ("<<<M2750>>>" ++ check (runes_of_ascii "} } i64 ]")).
Eval vm_compute in ("<<<M2709>>>" ++ check (runes_of_ascii ") char[")).
Eval vm_compute in ("<<<M1334>>>" ++ check (runes_of_ascii "// c
")).
Eval vm_compute in ("<<<M3095>>>" ++ check (runes_of_ascii "// c" ++ [8232]%N)).
Eval vm_compute in ("<<<M2543>>>" ++ check (runes_of_ascii "a
b")).
Eval vm_compute in ("<<<M2547>>>" ++ check (runes_of_ascii "a" ++ [12]%N ++ runes_of_ascii "b")).
Eval vm_compute in ("<<<M2830>>>" ++ check (runes_of_ascii "qp")).
