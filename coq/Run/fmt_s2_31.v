From FP Require Import Lexer Parser ShowPT Digest Formatter.
From Coq Require Import String List NArith.
Import ListNotations.
Open Scope string_scope.
Set Printing Width 100000000.
Set Printing Depth 100000000.
Definition show_fres (r : fres) : string :=
  match r with
  | FOk s => "OK:" ++ sh_escaped s ""
  | FErr s => "ERR:" ++ sh_escaped s ""
  | FPanic p => "PANIC:" ++ p
  end.
Definition check (rs : list rune) : string := digest (show_fres (format_res rs)).
Definition full (rs : list rune) : string := show_fres (format_res rs).
Eval vm_compute in ("<<<M1981>>>" ++ check (runes_of_ascii "// top
options {
    // c1
    LittleEndian = true;// c5a
    // c5b
    StringPrefixLenType = u64;// c9a
    // c9b
    ArrayPrefixLenType = u8;
    // c13
    FixedStringPadChar = '0';// c17
}

packet Reject {
    // c21a
    // c21b
    i32 Ref,
    // c24
    repeat f64 OrderId,
    // c28
    repeat InNote12 {
        // c31
        u8 pad0,
        // c34
    },
    @leftPad(' ')
    // c40a
    // c40b
    char[6] count,// c45a
    // c45b
}

// c46
packet Logout {
    // c49
    zchar[6] Tail,
    // c54
    repeat string venue,
    // c58
}// c59a

// c59b
packet Cancel {
    // c62a
    // c62b
    u64 count,
    // c65
    repeat char[5] lastPx,// c71a
    // c71b
    i64 Tail,
    // c74
    repeat InF140 {
        // c77a
        // c77b
        repeat Logout,// c80
        repeat Reject,// c83a
        // c83b
    },// c85
}

// c86
root packet Trade {
    repeat InMsgkind39 {
        // c93a
        // c93b
        repeat Reject,
        // c96
        char[4] Px,
    },// c103a
    // c103b
    string Acct,
    uint16 price,// c109a
    // c109b
    f32 OrderId,// c112
    u16 x,
    u16 clOrdID @lengthOf(Body),
    // c121
    match x as Body {
        178 : Logout,
        // c130
        13 : Cancel,
        // c134a
        // c134b
        174 : Reject,
        // c138a
        // c138b
    },// c140
    u16 Flags @calculatedFrom(""CRC32""),
    // c146
}")).
Eval vm_compute in ("<<<M275>>>" ++ check (runes_of_ascii "options { u =""a\""b""
//	t
//
;
    Z9_ =""// no comment"" ; tag
    // " ++ [27880; 37322]%N ++ runes_of_ascii "
    =7 } root packet
    // trailing space 
    As { }
packet Header { @lengthOf(
    Foo )  rootA
@calculatedFrom( ""\" ++ [233]%N ++ runes_of_ascii """ ) , @calculatedFrom( ""CRC32""// a // b
)
    float64 crc
,  repeat char[ // packet A { u8 x, }
007
] Logon , //
@tag( 7
    )
//
// c
@calculatedFrom( ""{,}"" ) @lengthOf( stringy
) match //	t
A as
// " ++ [128512]%N ++ runes_of_ascii " emoji
// `tick` ""quote"" 'q'
f32a {
    // `tick` ""quote"" 'q'
    [""a\\""
,	1 , ""CRC32"" , 007 ,	""a	b"" , ""\" ++ [233]%N ++ runes_of_ascii """ ] :trueish, 4294967296
    :
// c
//x
u8x ,//
}  ,
@tag(
255 ) @lengthOf( u8x
    )
@calculatedFrom( ""x y""
    ) pack { uint16 uint8x
    ,
    }
, match
leftPad as
asx {""{,}"" : T 007
    //	t
    : // @lengthOf(
_x
    1  : options1
,
    [ 42	,007]// a // b
:calculatedFrom
, """ ++ [233]%N ++ runes_of_ascii "t" ++ [233]%N ++ runes_of_ascii """ :
    lengthOf } ,
    u8x {int64 charz
`line1
line2`,
} , repeat
    //x
    Header BodyLength `
`  ,
@rightPad  ( // `tick` ""quote"" 'q'
'\x00' ) @lengthOf( tag )
    match o // trailing space 
as
    uint8x {
[ 255 ] :
_x ,1 :
    matchKey ,
// " ++ [128512]%N ++ runes_of_ascii " emoji
//x
65535
:
// c
// @lengthOf(
tag
,  0123456789: zchar,
""a\\"" :metadata
    ,
    }	, }
")).
Eval vm_compute in ("<<<M80>>>" ++ check (runes_of_ascii "// `tick` ""quote"" 'q'
packet	rootA{ }
root
packet x_y_z {
// `tick` ""quote"" 'q'
// packet A { u8 x, }
@calculatedFrom( """ ++ [28040; 24687]%N ++ runes_of_ascii """  )// a // b
@tag( 4294967296) @leftPad	(	'\x00')  match Z9_ as len // c
{0: x_y_z /// triple
, [ 255 , 007 ] : string_["""" ,
""`tick`"" , """" ,
10 ,""it's"" ,
    """ ++ [233]%N ++ runes_of_ascii "t" ++ [233]%N ++ runes_of_ascii """ ]	: BodyLength	, 4294967296 : u,4294967296
    // " ++ [27880; 37322]%N ++ runes_of_ascii "
    :	Header ,
""packet"": trueish , }
,
match int as asx { 007 : leftPad , ""abc"":
_x
65535 :stringy ""CRC32"" : int , 255 : A }, match asx as a1  {	[ 0123456789 ]: crc,""packet"" : leftPad ,
    ""\n"" : //x
crc
, 10
    //x
    :
// a // b
// a // b
chars ,},
    i16
rootA @calculatedFrom(
""abc"" ) , @lengthOf(Pad)  rootA As`" ++ [233]%N ++ runes_of_ascii "`,match i64_
    //	t
    as packetx{	[ """ ++ [28040; 24687]%N ++ runes_of_ascii """ ] :repeatCount
, 65535 : i8i8 ,
    } , // a // b
stringy len , }packet o{
} packet
Header {	_x
string_ ,
@lengthOf(
    u8x )
lengthOf `it's`
, } options
    { A // trailing space 
= ""it's"";
zchar
= ""packet"" ; // " ++ [128512]%N ++ runes_of_ascii " emoji
len
= 4294967296 ; T= ""abc""int
    =
3 ; }
")).
Eval vm_compute in ("<<<M1854>>>" ++ check (runes_of_ascii "packet trueish {
    char[7] chars @calculatedFrom(""" ++ [128512]%N ++ runes_of_ascii """),
    char[] uint8x @calculatedFrom(""`tick`"") `
        `,
    int16 metadata @calculatedFrom(""" ++ [128512]%N ++ runes_of_ascii """) `doc`,
    pack @lengthOf(stringy),
    u8 float @lengthOf(leftPad),
    @lengthOf(chars)
    f32a trueish,
    repeat zchar[4294967296] u,
    @leftPad(' ')
    @lengthOf(leftPad)
    @tag(7)
    repeat string u128,
}

packet Header {
    u64 leftPad,
    @lengthOf(u128)
    repeat uint32 T,
    @tag(4294967296)
    repeat uint32 x_y_z ``,
    T,
    @tag(1)
    zchar[7] Packet @lengthOf(f32a),// trailing space 
    float32 lengthOf,// packet A { u8 x, }
    i32 calculatedFrom `crlf
        line`,
    @tag(0123456789)
    @tag(1)
    //
    // `tick` ""quote"" 'q'
    @calculatedFrom(""" ++ [128512]%N ++ runes_of_ascii """)
    float32 lengthOf @calculatedFrom(""\n"") `" ++ [233]%N ++ runes_of_ascii "`,
    zchar[007] zchar @calculatedFrom(""abc"") `" ++ [28040; 24687; 31867; 22411]%N ++ runes_of_ascii "`,
    int32 roots,
}")).
Eval vm_compute in ("<<<M1549>>>" ++ check (runes_of_ascii "root packet lengthOf {
    repeat char[] asx `// not a comment`,
    lengthOf {
        string options1,
        char[] A @calculatedFrom(""\n""),
        int16 trueish,
    },
    repeat int16 stringy,
    string Logon `{ , }`,
    @lengthOf(metadata)
    match trueish as Foo {
        00 : T,
        7 : Z9_,
    },
    string_ a1 `" ++ [28040; 24687; 31867; 22411]%N ++ runes_of_ascii "`,
}

packet zchar {
    @calculatedFrom(""x y"")
    repeatCount `
        `,
    match stringy as u {
        255 : charz,
    },
    zchar[0123456789] Z9_ @lengthOf(crc) `it's`,
    @leftPad('\x00')
    zchar[0] rootA @calculatedFrom(""CRC32""),
    @lengthOf(leftPad)
    // packet A { u8 x, }
    Foo @calculatedFrom(""{,}""),
    uint32 Foo `// not a comment`,
    f32 float,
    repeat matchKey,
    Logon @lengthOf(rootA) `" ++ [28040; 24687; 31867; 22411]%N ++ runes_of_ascii "`,
}")).
Eval vm_compute in ("<<<M1453>>>" ++ check (runes_of_ascii "options {
    StringPrefixLenType = u16;
    ArrayPrefixLenType = u32;
    FixedStringPadFromLeft = false;
    FixedStringPadChar = '0';
}
packet Logout {
    f64 f1,
    i16 Note,
    @rightPad('\x00') char[11] Flags,
}
packet Cancel {
    float64 msgKind,
}
packet Reject {
    InQty43 {
        float32 sym,
        char[10] Tail,
        uint8 venue,
        uint16 f1,
        char[9] Acct,
    },
}
packet Trade {
    char[] x,
    zchar[6] Note,
    repeat Reject,
}
root packet Order {
    Cancel,
    Logout,
    u64 Acct,
    u32 OrderId,
    match OrderId as Body {
        [127, 70] : Reject,
        177 : Trade,
        58 : Logout,
        75 : Cancel,
    },
    u32 Tail @calculatedFrom(""CRC32""),
}
")).
Eval vm_compute in ("<<<M113>>>" ++ check (runes_of_ascii "root packet Pad{ @lengthOf( _x) As i8i8 ,f32 lengthOf
`a\`	,
    // " ++ [27880; 37322]%N ++ runes_of_ascii "
    repeat len  `tab	here` , zchar[ //	t
3 ] body, int8 matchKey
    `crlf
line` ,}
    MetaData metadata { matchKey  packetx
    ,
}
    packet options1	{ repeat charz `line1
line2`, int8 options1
    // " ++ [27880; 37322]%N ++ runes_of_ascii "
    ,
    repeat	roots
{
repeat	float32	x_y_z `say ""hi""`,	}
// c
// a // b
,int64 options1 // `tick` ""quote"" 'q'
`line1
line2` , match  falsey
as falsey
    {
    [ ""// no comment""// packet A { u8 x, }
, """"]:_x  , 42 : // @lengthOf(
crc ""packet"" : repeatCount, """ ++ [128512]%N ++ runes_of_ascii """
    //	t
    :u8x , ""abc""
: falsey, } , repeat	float64
x_y_z `a\`,
}")).
Eval vm_compute in ("<<<M1494>>>" ++ check (runes_of_ascii "packet float	{char[ 
00

    ] u8x 
,
    }
    packet // " ++ [128512]%N ++ runes_of_ascii " emoji
	A	// @lengthOf(
{
    string i8i8
    ,
	A 	 //x
  @calculatedFrom(

    ""a	b""

) `a\`

    ,  @tag(1
	) chars  @lengthOf(
Pad

    ) 
`u8 x,` 
,	/// triple
  match 
repeatCount

    as  stringy
{
    42

    :x  3
	:	// @lengthOf(
    tag
,[
    00  , 0123456789 ]  : 
packetx

, [
""" ++ [28040; 24687]%N ++ runes_of_ascii """
,  ""packet"" ]:	string_  ,
	}  ,
}
    options  // @lengthOf(

{
i8i8=

""" ++ [233]%N ++ runes_of_ascii "t" ++ [233]%N ++ runes_of_ascii """

    Foo

    =false
	// packet A { u8 x, }

  ;

Pad
=' ' ;}
")).
Eval vm_compute in ("<<<M337>>>" ++ check (runes_of_ascii "packet
    // " ++ [128512]%N ++ runes_of_ascii " emoji
    Header {	@calculatedFrom( """" ) @calculatedFrom(
""" ++ [128512]%N ++ runes_of_ascii """ )  @calculatedFrom(
""it's"" ) tag
// trailing space 
//
{int32 repeatCount
,f32a //
@lengthOf(
    BodyLength ) , calculatedFrom{ i64_
    len, trueish @lengthOf( body ) `
` , i64 f32a `u8 x,`, //x
match  Foo as A { 007
: options1
//x
/// triple
,  255: charz ,""" ++ [233]%N ++ runes_of_ascii "t" ++ [233]%N ++ runes_of_ascii """ :zchar
, ""`tick`""	:
    u8x
    ,  1 : len },}, } ,
    repeat leftPad { uint32 packetx	`` , } // c
, }")).
Eval vm_compute in ("<<<M105>>>" ++ check (runes_of_ascii "
MetaData u8x {
    packetx
    len `crlf
line`
    ,char[
255
] calculatedFrom `" ++ [28040; 24687; 31867; 22411]%N ++ runes_of_ascii "` , float64  MetaDataX // `tick` ""quote"" 'q'
`say ""hi""` ,BodyLength
// `tick` ""quote"" 'q'
// trailing space 
charz
`crlf
line`// a // b
,
}packet lengthOf{
    //	t
    @tag( 4294967296 ) uint8x @calculatedFrom(
    ""\n"" ) `" ++ [28040; 24687; 31867; 22411]%N ++ runes_of_ascii "` ,
    char calculatedFrom	@calculatedFrom(
""" ++ [28040; 24687]%N ++ runes_of_ascii """) // " ++ [27880; 37322]%N ++ runes_of_ascii "
`two words` , }
")).
Eval vm_compute in ("<<<M343>>>" ++ check (runes_of_ascii "
root packet Packet { @calculatedFrom(""packet""
)
    char[]  Packet
, match	crc
as T {255 :A ,
} ,
/// triple
// `tick` ""quote"" 'q'
repeat x_y_z , x_y_z@calculatedFrom( ""`tick`"" )`a\` ,
// c
//x
@calculatedFrom( // a // b
""" ++ [28040; 24687]%N ++ runes_of_ascii """ ) @lengthOf(Foo
    )match MetaDataX as T
    { 0 : repeatCount , } , } MetaData string_
{ u64 x_y_z,	}packet u // " ++ [27880; 37322]%N ++ runes_of_ascii "
{
    }
")).
Eval vm_compute in ("<<<M141>>>" ++ check (runes_of_ascii "packet u  { @calculatedFrom( ""CRC32"" ) repeat zchar[ 1] x_y_z`crlf
line` ,
@leftPad
    ( // `tick` ""quote"" 'q'
)
zchar[ // `tick` ""quote"" 'q'
255
]crc// c
, } root
    packet MetaDataX{@tag( 255 )
rootA//x
, }packet f32a {@lengthOf( packetx	) uint8 Z9_ @calculatedFrom(
""CRC32"" )
    /// triple
    ,
    }
")).
Eval vm_compute in ("<<<M224>>>" ++ check (runes_of_ascii "packet MetaDataX {	int64 x_y_z //
@calculatedFrom( ""// no comment""
// packet A { u8 x, }
// `tick` ""quote"" 'q'
)
, }	MetaData int { u16 // packet A { u8 x, }
roots , zchar[ 7 // " ++ [27880; 37322]%N ++ runes_of_ascii "
]u8x ,  int16 //x
Logon, } MetaData i64_ // a // b
{// c
zchar[ 1 ] // `tick` ""quote"" 'q'
crc	, }

")).
Eval vm_compute in ("<<<M316>>>" ++ check (runes_of_ascii "packet  crc {calculatedFrom
    {string_ u
,
rootA
    calculatedFrom , } // packet A { u8 x, }
,
    @lengthOf( len
    )match //x
roots
    /// triple
    as x{""// no comment""
:
    msg_type
    ,
7 : calculatedFrom ,} ,} packet zchar
{
    }

")).
Eval vm_compute in ("<<<M397>>>" ++ check (runes_of_ascii "options
{
matchKey matchKey = 42/// triple
x='0' ;
// packet A { u8 x, }
//
charz
=
// packet A { u8 x, }
// trailing space 
true  ; } MetaData BodyLength
{
uint8
pack,zchar[ 1]float ,  float32 x_y_z `` ,u32
_x,i16 body  , }
")).
Eval vm_compute in ("<<<M509>>>" ++ check (runes_of_ascii "options
{
matchKey = 42/// triple
x='0' ;
// packet A { u8 x, }
//
charz
=
// packet A { u8 x, }
// trailing space 
true  ; } MetaData BodyLength
{
uint8
pack,zchar[ 1]float zchar  float32 x_y_z `` ,u32
_x,i16 body  , }
")).
Eval vm_compute in ("<<<M557>>>" ++ check (runes_of_ascii "options
{
matchKey = 42/// triple
x='0' ;
// packet A { u8 x, }
//
charz
=
// packet A { u8 x, }
// trailing space 
true  ; } MetaData BodyLength
{
uint8
pack,zchar[ 1]float ,  float32 x_y_z `` ,u32
_x,i16 body  , , }
")).
Eval vm_compute in ("<<<M418>>>" ++ check (runes_of_ascii "options
{
matchKey = 42/// triple
x'0'= ;
// packet A { u8 x, }
//
charz
=
// packet A { u8 x, }
// trailing space 
true  ; } MetaData BodyLength
{
uint8
pack,zchar[ 1]float ,  float32 x_y_z `` ,u32
_x,i16 body  , }
")).
Eval vm_compute in ("<<<M401>>>" ++ check (runes_of_ascii "options
{
matchKey  42/// triple
x='0' ;
// packet A { u8 x, }
//
charz
=
// packet A { u8 x, }
// trailing space 
true  ; } MetaData BodyLength
{
uint8
pack,zchar[ 1]float ,  float32 x_y_z `` ,u32
_x,i16 body  , }
")).
Eval vm_compute in ("<<<M476>>>" ++ check (runes_of_ascii "options
{
matchKey = 42/// triple
x='0' ;
// packet A { u8 x, }
//
charz
=
// packet A { u8 x, }
// trailing space 
true  ; } MetaData BodyLength
{
uint8
,zchar[ 1]float ,  float32 x_y_z `` ,u32
_x,i16 body  , }
")).
Eval vm_compute in ("<<<M221>>>" ++ check (runes_of_ascii "options{ len = // " ++ [27880; 37322]%N ++ runes_of_ascii "
true
    ;
MetaDataX = zchar[ 00//
] lengthOf =  '0'; Pad	=""packet""  ; x_y_z
    // a // b
    = ""a\""b""; } packet calculatedFrom{
repeat
matchKey // packet A { u8 x, }
Foo
,
    }
")).
Eval vm_compute in ("<<<M1339>>>" ++ check (runes_of_ascii "// top
packet
    // c0
Inner { // c2a
  // c2b
u8 a // c4a
  // c4b
, } root
    // c7
packet // c8a
  // c8b
P // c9
{ // c10
Inner ref_obj , u8 x
    // c15
,
    // c16
}
    // c17
")).
Eval vm_compute in ("<<<M712>>>" ++ check (runes_of_ascii "// c
packet i64_ {	char[] calculatedFrom , `} packet
trueish  {@calculatedFrom(
""a\\"" ) o { i32 falsey@lengthOf( uint8x ),
} , } // `tick` ""quote"" 'q'
options {// c
Z9_ = ' '//
}
")).
Eval vm_compute in ("<<<M1384>>>" ++ check (runes_of_ascii "
packet
A { u8	a
	,
	} packet 
B 
{
u16 b	, } root packet
P  {
	u8
	K1

    ,

u8	K2 , match K1  as
M1
{1
    :A
, 
} ,	match K2 
as

    M2	{
1	:

    B,
	}
    , 
} ")).
Eval vm_compute in ("<<<M1649>>>" ++ check (runes_of_ascii "  packet u128{
u8 
a 
,

    } root packet  Msg  {

u8
	k ,u24{ u8
Hi
,	u16 Lo
,
},

repeat
i24 { 
u32
q
    , }
	,
u128

, u16 
float32x

    ,
string s  ,}
")).
Eval vm_compute in ("<<<M1388>>>" ++ check (runes_of_ascii "packet A {
    u8 a,
}
packet B {
    u16 b,
}
root packet P {
    u8 K,
    match K as M {
        [1, 2] : A,
        3 : B,
        7 : A,
    },
}
")).
Eval vm_compute in ("<<<M1355>>>" ++ check (runes_of_ascii "
packet
B{
    u8  a

    ,} root
    packet

P {  u8
K ,

    match  K
    as
Body {

    1
:
B,}
, 
u16
	L @lengthOf( 
Body ) ,
} ")).
Eval vm_compute in ("<<<M1667>>>" ++ check (runes_of_ascii "packet
	A{

    match  k 
as
n  {

[  1, 22
,  ""c c"" , 
4
,  5

,  ""f"" ,	7
, 8

,
    ""i"" ,10 ,
    11
    ]

:
B
    2:
	C	}	, }")).
Eval vm_compute in ("<<<M1993>>>" ++ check (runes_of_ascii "packet A {
    u16 len @lengthOf(body) `a
    
    b`,
    u32 crc @calculatedFrom(""CRC32"") `a
    
    b`,
    string body,
}")).
Eval vm_compute in ("<<<M1337>>>" ++ check (runes_of_ascii "
options

    { LittleEndian

=	true

    ; } root packet 
P 
{ 
repeat char
	cs
    ,

    u8

    x ,
    }

")).
Eval vm_compute in ("<<<M1554>>>" ++ check (runes_of_ascii "packet Logon {
    @tag(42)
    // c
    @rightPad(' ')
    @leftPad()
    repeat trueish {
        string T,
    },
}")).
Eval vm_compute in ("<<<M1374>>>" ++ check (runes_of_ascii "// top
root
    // c0
packet // c1a
  // c1b
P // c2a
  // c2b
{ // c3a
  // c3b
string // c4
s , // c6
}
    // c7
")).
Eval vm_compute in ("<<<M892>>>" ++ check (runes_of_ascii "packet A {
  match k as n {
    [""a"", ""bb"", ""c c"", ""d"", ""e"", ""f"", ""g"", ""h"", ""i"", ""j"", ""k""] : B,
    2 : C
  },
}")).
Eval vm_compute in ("<<<M918>>>" ++ check (runes_of_ascii "packet A {
    u16 len @lengthOf(body) `a
b`,
    u32 crc @calculatedFrom(""CRC32"") `a
b`,
    string body,
}")).
Eval vm_compute in ("<<<M1926>>>" ++ check (runes_of_ascii "packet o {
    @tag(42)
    repeat x {
        char[0123456789] i64_,
        // c
    },
}

options {
}")).
Eval vm_compute in ("<<<M1279>>>" ++ check (runes_of_ascii "packet calculatedFrom { @tag( 4294967296 ) u msg_type , char[ 3 ] crc @lengthOf( // c
len ) `u8 x,` , }")).
Eval vm_compute in ("<<<M626>>>" ++ check (runes_of_ascii "MetaData
    // trailing space 
    matchKey
{ u64 chars // a // b
,char[] lengthOf 
    , //	t
}")).
Eval vm_compute in ("<<<M6>>>" ++ check (runes_of_ascii "MetaData metadata{
leftPad i64_ ,
    // " ++ [128512]%N ++ runes_of_ascii " emoji
    u8
    stringy `
` , char[] trueish , }
")).
Eval vm_compute in ("<<<M1157>>>" ++ check (runes_of_ascii "packet Logon { @tag( 42 ) @rightPad ( ' ' ) @leftPad ( ) repeat
// c
trueish { string T , } , }")).
Eval vm_compute in ("<<<M840>>>" ++ check (runes_of_ascii "packet A {
  match k as n {
    [""a"", ""bb"", ""c c"", ""d"", ""e"", ""f"", ""g""] : B,
    2 : C
  },
}")).
Eval vm_compute in ("<<<M1938>>>" ++ check (runes_of_ascii "packet A {
    match k as n {
        [1, ""bb"", 007, ""d"", 5] : B,
        2 : C,
    },
}")).
Eval vm_compute in ("<<<M671>>>" ++ check (runes_of_ascii "// c
packet i64_ {	char[] calculatedFrom , } packet
trueish  {@calculatedFrom(
""a\\""")).
Eval vm_compute in ("<<<M1208>>>" ++ check (runes_of_ascii "packet // c
o { @tag( 42 ) repeat x { char[ 0123456789 ] i64_ , } , } options { }")).
Eval vm_compute in ("<<<M1240>>>" ++ check (runes_of_ascii "packet o { @tag( 42 ) repeat x { char[ 0123456789 ] i64_ , } , } // c
options { }")).
Eval vm_compute in ("<<<M1823>>>" ++ check (runes_of_ascii "MetaData M {
    u8 x `a
        
        b`,
    T t `a
        
        b`,
}")).
Eval vm_compute in ("<<<M817>>>" ++ check (runes_of_ascii "packet A {
  match k as n {
    [1, ""bb"", 007, ""d"", 5] : B
    2 : C
  },
}")).
Eval vm_compute in ("<<<M372>>>" ++ check (runes_of_ascii "
packet Z9_ { } // a // b
root
    packet roots{
    /// triple
    }")).
Eval vm_compute in ("<<<M1322>>>" ++ check (runes_of_ascii "MetaData _x { zchar[ 4294967296 ] lengthOf
// c
`// not a comment` , }")).
Eval vm_compute in ("<<<M1379>>>" ++ check (runes_of_ascii "root packet P {
    u8 s_u8,
    repeat u8 r_u8,
    u16 b_len,
}
")).
Eval vm_compute in ("<<<M1742>>>" ++ check (runes_of_ascii "packet Z9_ {
}// a // b

root packet roots {
    /// triple
}")).
Eval vm_compute in ("<<<M2004>>>" ++ check (runes_of_ascii "

  MetaData	/// triple
pack {
i64 Header
	, 
u64	As,  }")).
Eval vm_compute in ("<<<M926>>>" ++ check (runes_of_ascii "MetaData M {
    u8 x `a
b`,
    T t `a
b`,
}")).
Eval vm_compute in ("<<<M1614>>>" ++ check (runes_of_ascii "  root

    packet	P 
{

string
s
, }

")).
Eval vm_compute in ("<<<M1902>>>" ++ check (runes_of_ascii "root packet A {
    u8 x `a
    b`,
}")).
Eval vm_compute in ("<<<M305>>>" ++ check (runes_of_ascii "
packet asx{ u64
MetaDataX
, }
")).
Eval vm_compute in ("<<<M753>>>" ++ check (runes_of_ascii "NZ:ajvAoE|G&X[2Iou:C^VHSnZ'z*o")).
Eval vm_compute in ("<<<M2014>>>" ++ check (runes_of_ascii "

  packet
A {  } 	 // c" ++ [12]%N ++ runes_of_ascii "
 
")).
Eval vm_compute in ("<<<M1188>>>" ++ check (runes_of_ascii "options {
// c
u8x = 3 }")).
Eval vm_compute in ("<<<M1642>>>" ++ check (runes_of_ascii "
// c" ++ [12288]%N ++ runes_of_ascii "
packet	A

{}

")).
Eval vm_compute in ("<<<M1000>>>" ++ check (runes_of_ascii "packet A {
}
// c" ++ [8192]%N)).
Eval vm_compute in ("<<<M973>>>" ++ check (runes_of_ascii "packet A {
}// c ")).
Eval vm_compute in ("<<<M303>>>" ++ check (runes_of_ascii "options	{
}
")).
Eval vm_compute in ("<<<M1004>>>" ++ check (runes_of_ascii "// c" ++ [8202]%N)).
