From FP Require Import Lexer Parser ShowPT Digest Formatter.
From Coq Require Import String List NArith.
Import ListNotations.
Open Scope string_scope.
Set Printing Width 100000000.
Set Printing Depth 100000000.
Definition show_fres (r : fres) : string :=
  match r with
  | FOk s => "OK:" ++ sh_escaped s ""
  | FErr s => "ERR:" ++ sh_escaped s ""
  | FPanic p => "PANIC:" ++ p
  end.
Definition check (rs : list rune) : string := digest (show_fres (format_res rs)).
Definition full (rs : list rune) : string := show_fres (format_res rs).
Eval vm_compute in ("<<<M4322>>>" ++ check (runes_of_ascii "root packet charz {
    repeat o Packet,
}

packet float {
    match crc as body {
        ""\" ++ [233]%N ++ runes_of_ascii """ : f32a,
        4294967296 : len,
        [""// no comment""] : lengthOf,
        65535 : i64_,
        //x
        //
        4294967296 : Pad,
    },
    Logon,
    float64 body @lengthOf(leftPad) `say ""hi""`,
    match u8x as repeatCount {
        // @lengthOf(
        """ ++ [128512]%N ++ runes_of_ascii """ : i8i8,
        ""\n"" : tag,
        7 : pack,
        """ ++ [28040; 24687]%N ++ runes_of_ascii """ : calculatedFrom,
        /// triple
        [0, ""it's""] : int,
    },
    char[0] stringy,
    repeat float32 trueish `u8 x,`,
    char[] T,
}

packet calculatedFrom {
    matchKey matchKey,
    @leftPad()
    msg_type,
    int16 BodyLength `" ++ [233]%N ++ runes_of_ascii "`,
    char[255] packetx,
    @calculatedFrom(""x y"")
    match Packet as uint8x {
        ""\n"" : repeatCount,
        [65535] : leftPad,
        ""\n"" : trueish,
        [""" ++ [233]%N ++ runes_of_ascii "t" ++ [233]%N ++ runes_of_ascii """, 1, ""abc"", 10] : f32a,
        // " ++ [27880; 37322]%N ++ runes_of_ascii "
        [""// no comment""] : u,
        // @lengthOf(
        65535 : matchKey,
    },
    match _x as float {
        ""x y"" : len,
    },
    char a1 @lengthOf(i64_),
    _x @calculatedFrom(""\n"") `// not a comment`,
    repeat calculatedFrom {
        zchar[1] Foo,
        char[7] options1 `tab	here`,//
        match chars as A {
            4294967296 : string_,
        },
        u8x @calculatedFrom(""`tick`""),
    },
}

packet calculatedFrom {
    @lengthOf(tag)
    @leftPad('\x00')
    @rightPad('0')
    char[0123456789] u128,
    rootA {
        zchar[4294967296] _x @lengthOf(metadata),
    },
    Header u,
    @calculatedFrom(""it's"")
    // @lengthOf(
    // trailing space 
    Pad @calculatedFrom(""abc""),
    @lengthOf(u)
    @lengthOf(len)
    @rightPad()
    // trailing space 
    int64 uint8x `// not a comment`,
}

root packet roots {
    u @lengthOf(i8i8),
    @calculatedFrom(""\" ++ [233]%N ++ runes_of_ascii """)
    BodyLength Logon,
    uint16 body @lengthOf(f32a) `a\`,
    int16 zchar,
    @calculatedFrom(""a	b"")
    u32 u128 `
    `,
    Pad T `
    `,
}")).
Eval vm_compute in ("<<<M121>>>" ++ check (runes_of_ascii "packet body{ Z9_ {
    string leftPad `crlf
line` , msg_type { // c
uint64 tag  `{ , }` ,repeat f64 BodyLength
,} , i8i8 BodyLength , }
    // " ++ [128512]%N ++ runes_of_ascii " emoji
    , falsey //
,@leftPad ( // c
'0') @lengthOf(
    falsey	)
    f32 Z9_
@lengthOf(  o )
    , @calculatedFrom(
""" ++ [233]%N ++ runes_of_ascii "t" ++ [233]%N ++ runes_of_ascii """ )
repeat string //x
As
,@lengthOf(falsey) @calculatedFrom( ""a	b"")
    @tag( 3
) repeat Header{
Packet@lengthOf(
    crc )
    , repeat int16
As
, repeat uint16 // packet A { u8 x, }
f32a , } , @lengthOf(float )@tag(
    3 )
    // a // b
    @tag(// " ++ [128512]%N ++ runes_of_ascii " emoji
10 )	roots
BodyLength , string tag //	t
,
} MetaData int {  char[ 1 ] As
, Packet u128 , // c
pack
    x_y_z
`{ , }` ,
    string_
len ,
zchar[
0
] Header , string
    zchar `
`, } root packet uint8x { char[] u128
, }root packet crc { repeat trueish { f32 lengthOf `say ""hi""` , i8 crc	@calculatedFrom( """ ++ [233]%N ++ runes_of_ascii "t" ++ [233]%N ++ runes_of_ascii """) , match Z9_ as repeatCount
    {
    [ 3 ] :  string_
, ""it's""  : A 0 :	u8x 65535 : u128  } , // trailing space 
i32 x , },char[]
    pack `// not a comment` , char[]leftPad @calculatedFrom("""" ) `
` ,
string o `doc` ,}
    packet// " ++ [27880; 37322]%N ++ runes_of_ascii "
rootA  { // " ++ [128512]%N ++ runes_of_ascii " emoji
repeat x_y_z{
    zchar[
//	t
//	t
3 ]
    stringy
`crlf
line`,  BodyLength
    BodyLength
    `` , lengthOf
@calculatedFrom(
""x y""
) , // c
float64
    // " ++ [27880; 37322]%N ++ runes_of_ascii "
    Logon	@calculatedFrom(
""a\\"" ) ,
} , @lengthOf( Pad
)// `tick` ""quote"" 'q'
@calculatedFrom( ""abc"") @tag(4294967296 )uint8x @lengthOf( // packet A { u8 x, }
crc )  ,
@calculatedFrom( //	t
""" ++ [233]%N ++ runes_of_ascii "t" ++ [233]%N ++ runes_of_ascii """  )
string u
@lengthOf(
uint8x)
    `// not a comment` ,u
    metadata`u8 x,`
,
    }
")).
Eval vm_compute in ("<<<M103>>>" ++ check (runes_of_ascii "packet
trueish {
@calculatedFrom(	"""" ) u
    @lengthOf( a1
) ,
} options //	t
{
    trueish =
42 }
options { //	t
}packet Foo {match matchKey
as body	{
    // `tick` ""quote"" 'q'
    [4294967296 ]	: Packet , 00 : A ,
    } , @calculatedFrom( ""x y"" ) // " ++ [27880; 37322]%N ++ runes_of_ascii "
@lengthOf(	a1)
    repeat f64	rootA , } packet len{ @calculatedFrom( ""// no comment"") string T @lengthOf(
f32a )
    , float32 chars
    , @rightPad ( ' ' ) repeat chars{ string A , string
i64_ `line1
line2`
,
float32
    //
    i8i8 ,uint64
    /// triple
    matchKey @calculatedFrom( ""abc"" )
/// triple
// `tick` ""quote"" 'q'
`" ++ [233]%N ++ runes_of_ascii "` , } , A
    `a\` ,
@tag( 00
)
    @tag( 0123456789 )
    @tag( 1	)
u128 {i64_
    {
// c
// trailing space 
BodyLength , i64 u
`{ , }` , match
    Z9_
    as
chars /// triple
{ ["""" ] : // `tick` ""quote"" 'q'
float , [ 0123456789  , 42
    , 3 ,
    //	t
    10  , 10 ]
// a // b
/// triple
: stringy , ""1"" :trueish , // packet A { u8 x, }
""packet"" : u128 [
""x y"" ,7 ] : A
} ,
    int32	a1 ,} , rootA
//x
/// triple
`doc` ,
//x
// `tick` ""quote"" 'q'
} , @rightPad ( ' ' ) repeat options1  { int
    @calculatedFrom( ""packet"" ) , // " ++ [128512]%N ++ runes_of_ascii " emoji
} , repeat char[65535]
    falsey
    // packet A { u8 x, }
    , @rightPad ( ) repeat char[] i8i8,
repeat calculatedFrom  msg_type ,@rightPad (	) @tag(
65535 ) repeat calculatedFrom crc , } 	 ")).
Eval vm_compute in ("<<<M1404>>>" ++ check (runes_of_ascii "options {
    StringPrefixLenType = u16;
    ArrayPrefixLenType = u16;
}

packet SampleBinary {
    uint16 MsgType `" ++ [28040; 24687; 31867; 22411]%N ++ runes_of_ascii "`,
    u16 BodyLenght @lengthOf(Body) `" ++ [28040; 24687; 20307; 38271; 24230]%N ++ runes_of_ascii "`,
    match MsgType as Body {
        1 : Logon,
        2 : Logout,
        3 : Heartbeat,
        4 : RiskControlRequest,
        5 : RiskControlResponse,
    },
    @calculatedFrom(""CRC32"")
    u32 Ckecksum `" ++ [26657; 39564; 21644]%N ++ runes_of_ascii "`,
}

packet Logon {
    @leftPad('0')
    char[10] UserName `" ++ [29992; 25143; 21517]%N ++ runes_of_ascii "`,
    string Password `" ++ [23494; 30721]%N ++ runes_of_ascii "`,
    uint64 ClientId `" ++ [23458; 25143; 31471]%N ++ runes_of_ascii "ID`,
    u16 HeartbeatInterval `" ++ [24515; 36339; 38388; 38548]%N ++ runes_of_ascii "`,
}

packet Logout {
    @rightPad('0')
    char[10] UserName `" ++ [29992; 25143; 21517]%N ++ runes_of_ascii "`,
    uint64 ClientId `" ++ [23458; 25143; 31471]%N ++ runes_of_ascii "ID`,
}

packet Heartbeat {
}

packet RiskControlRequest {
    string UniqueOrderId `" ++ [21807; 19968; 35746; 21333; 21495]%N ++ runes_of_ascii "`,
    char[16] ClOrdID `" ++ [23458; 25143; 35746; 21333; 21495]%N ++ runes_of_ascii "`,
    char[3] MarketID `" ++ [24066; 22330]%N ++ runes_of_ascii "id`,
    char[12] SecurityID `" ++ [35777; 21048; 20195; 30721]%N ++ runes_of_ascii "`,
    char Side `" ++ [20080; 21334; 26041; 21521]%N ++ runes_of_ascii "`,
    char OrderType `" ++ [35746; 21333; 31867; 22411]%N ++ runes_of_ascii "`,
    u64 Price `" ++ [20215; 26684]%N ++ runes_of_ascii "`,
    u32 Qty `" ++ [25968; 37327]%N ++ runes_of_ascii "`,
    repeat string ExtraInfo `" ++ [38468; 21152; 20449; 24687]%N ++ runes_of_ascii "`,
    repeat SubOrder {
        char[16] ClOrdID `" ++ [23376; 35746; 21333; 21495]%N ++ runes_of_ascii "`,
        u64 Price `" ++ [23376; 35746; 21333; 20215; 26684]%N ++ runes_of_ascii "`,
        u32 Qty `" ++ [23376; 35746; 21333; 25968; 37327]%N ++ runes_of_ascii "`,
    },
}

packet RiskControlResponse {
    string UniqueOrderId `" ++ [21807; 19968; 35746; 21333; 21495]%N ++ runes_of_ascii "`,
    i32 Status `" ++ [29366; 24577]%N ++ runes_of_ascii "`,
    string Msg `" ++ [32467; 26524; 20449; 24687]%N ++ runes_of_ascii "`,
    repeat Detail,
}

packet Detail {
    string RuleName `" ++ [35268; 21017; 21517; 31216]%N ++ runes_of_ascii "`,
    u16 Code `" ++ [21407; 22240; 20195; 30721]%N ++ runes_of_ascii "`,
}")).
Eval vm_compute in ("<<<M118>>>" ++ check (runes_of_ascii "
packet // c
zchar { i8 uint8x//
`a\`,
    match
leftPad as matchKey
// a // b
// @lengthOf(
{  007
    :f32a  ,
7// " ++ [27880; 37322]%N ++ runes_of_ascii "
: // " ++ [128512]%N ++ runes_of_ascii " emoji
falsey ,3
:_x	, [ ""1"" ] : u8x ,
    //	t
    ""it's""
: i8i8 ,
    10 :pack , } , repeat string
rootA`say ""hi""`, repeat
int32 repeatCount `" ++ [233]%N ++ runes_of_ascii "` , @lengthOf( calculatedFrom)
zchar[// @lengthOf(
4294967296 ]
// @lengthOf(
// packet A { u8 x, }
T ,
    @tag(
4294967296 )
crc @calculatedFrom( // packet A { u8 x, }
"""" )
, @calculatedFrom(""abc"")u8x	@lengthOf( o) `crlf
line`, }packet
//
// c
T { i64 repeatCount ,
    calculatedFrom pack
,
@calculatedFrom( ""`tick`"" // packet A { u8 x, }
)
    f32a Foo
, match body as string_ {  ""packet"":	uint8x // " ++ [128512]%N ++ runes_of_ascii " emoji
,// @lengthOf(
""" ++ [128512]%N ++ runes_of_ascii """ /// triple
: body, 007	:
Logon, ""it's"" // a // b
:leftPad
    ,
[ ""x y"" ,
255 , ""\" ++ [233]%N ++ runes_of_ascii """,
1 //
, 0123456789]: options1 ,} , @rightPad ( '\x00'	)
    // packet A { u8 x, }
    match
//	t
// @lengthOf(
As as
    roots { 4294967296 :len """ ++ [28040; 24687]%N ++ runes_of_ascii """ :msg_type
, } ,
    f32 chars ,
// `tick` ""quote"" 'q'
// @lengthOf(
repeat calculatedFrom , @calculatedFrom( ""x y"" ) f32
roots
// `tick` ""quote"" 'q'
//x
`{ , }` , } root packet calculatedFrom{ }
")).
Eval vm_compute in ("<<<M1257>>>" ++ check (runes_of_ascii "//	t
MetaData i8i8 {
char packetx`
`
// a // b
// `tick` ""quote"" 'q'
, // c
char[]
Header`" ++ [233]%N ++ runes_of_ascii "` , u32 options1 , Header i8i8
`two words`
    , }
root packet Header {
    match falsey
as pack // packet A { u8 x, }
{// c
""CRC32"" :crc  ,
    }
    ,o rootA //	t
,
match  rootA as u { [255
,
    ""\n"" ]
:metadata , 42 : uint8x
,
[ """ ++ [128512]%N ++ runes_of_ascii """]
    :float , // " ++ [128512]%N ++ runes_of_ascii " emoji
""\n""	: u ,
3: MetaDataX} ,
    @leftPad ('\x00' )float64
    Packet
@calculatedFrom( ""abc""
)	`say ""hi""` , repeat u8x	, @lengthOf(
msg_type )  uint8x
    // c
    {
packetx
    // " ++ [128512]%N ++ runes_of_ascii " emoji
    repeatCount
, asx
@calculatedFrom(
""x y"" ) , zchar[007 /// triple
]
u `say ""hi""` // c
, } , repeat i16
calculatedFrom
    `
`// c
, int16 //	t
T// " ++ [27880; 37322]%N ++ runes_of_ascii "
@calculatedFrom( ""a	b"" ) ,
@rightPad ( )char[00 ]Foo
    @lengthOf(pack )
    `tab	here` ,
    uint8x `" ++ [28040; 24687; 31867; 22411]%N ++ runes_of_ascii "` , } options  {x_y_z = 255; metadata
= ""CRC32"" ; leftPad =  ""{,}"";
    u128 = true tag
= string;
// " ++ [128512]%N ++ runes_of_ascii " emoji
// a // b
} root
packet x_y_z { @lengthOf(  body
    ) int32
    // `tick` ""quote"" 'q'
    Z9_ @calculatedFrom(
    ""{,}""
)`" ++ [28040; 24687; 31867; 22411]%N ++ runes_of_ascii "` // " ++ [128512]%N ++ runes_of_ascii " emoji
,
}
")).
Eval vm_compute in ("<<<M139>>>" ++ check (runes_of_ascii "
packet len{ repeat i8i8 `u8 x,`
    ,
// @lengthOf(
// a // b
repeat char[ // c
0123456789
//x
//
]	a1 ,
@rightPad ( )
// trailing space 
// " ++ [27880; 37322]%N ++ runes_of_ascii "
match options1 as
    string_
{ 007 :uint8x  [
""it's"", // c
""\n"" ] : body } , zchar[ 1
] float @lengthOf( Header) , @lengthOf( rootA )  @tag(
    // packet A { u8 x, }
    00 ) @lengthOf( metadata ) repeat
    //x
    metadata { int16
    // " ++ [27880; 37322]%N ++ runes_of_ascii "
    i64_
    ,} ,
i64_ , zchar[ 0123456789 ] lengthOf @calculatedFrom(""it's"" ) ,  } root
    packet
f32a { @leftPad
    ( '0' ) @leftPad // " ++ [128512]%N ++ runes_of_ascii " emoji
( '\x00' ) i64_`tab	here`
,repeat x Packet ,char[ 42 ] Foo @calculatedFrom( ""abc"" ) , int16  uint8x @lengthOf( MetaDataX ) // @lengthOf(
`a\`
, // " ++ [27880; 37322]%N ++ runes_of_ascii "
i8 Header `
` /// triple
, repeat//
Pad
    A , char[3  ] _x , @calculatedFrom(// trailing space 
""x y"")
match MetaDataX	as As {
//	t
//x
[	""a	b"", """ ++ [28040; 24687]%N ++ runes_of_ascii """
]
:	options1, [""" ++ [28040; 24687]%N ++ runes_of_ascii """ ,
""it's""
    , 3
    , 7
,
42 ,""abc""	] :	_x , """"
    //	t
    :
charz ,
""a\\"" :// trailing space 
a1
, //
} , @tag( 7 ) u8 float ,
    }
")).
Eval vm_compute in ("<<<M4452>>>" ++ check (runes_of_ascii "packet T {
    x repeatCount `tab	here`,
    repeat a1 `a\`,
    a1 @calculatedFrom(""CRC32""),
    repeat string msg_type `// not a comment`,// trailing space 
}

packet uint8x {
    zchar[65535] roots,
    i64_ stringy,
    zchar[0123456789] tag `" ++ [28040; 24687; 31867; 22411]%N ++ runes_of_ascii "`,
    @tag(42)
    match i8i8 as Header {
        [""// no comment"", ""abc"", 255, 65535] : charz,
        00 : Z9_,
    },
    uint8 int @calculatedFrom(""`tick`""),
    @lengthOf(asx)
    match crc as trueish {
        ["""", ""// no comment"", 42, ""packet""] : chars,
        0 : x,
        ""packet"" : crc,
    },
    @calculatedFrom(""{,}"")
    repeatCount,
    @tag(7)
    BodyLength @calculatedFrom(""a	b""),
    repeat u32 i64_,
}

packet f32a {
    @tag(42)
    @tag(10)
    string MetaDataX @calculatedFrom(""" ++ [28040; 24687]%N ++ runes_of_ascii """),
    //	t
    crc {
        a1 @calculatedFrom(""a\\"") `crlf
        line`,
        repeat zchar[10] A,
    },// " ++ [27880; 37322]%N ++ runes_of_ascii "
    match Packet as Pad {
        ""CRC32"" : msg_type,
    },
    repeat string A `doc`,
}")).
Eval vm_compute in ("<<<M1222>>>" ++ check (runes_of_ascii "//	t
root packet Header{ @tag(
255  )
    float32 msg_type
// @lengthOf(
// packet A { u8 x, }
@lengthOf(u8x	) `" ++ [28040; 24687; 31867; 22411]%N ++ runes_of_ascii "` ,
    //x
    @calculatedFrom( ""a	b"" )
    repeat string i64_, repeat x_y_z {//x
asx , string i8i8 @lengthOf( float ) ,uint16 // `tick` ""quote"" 'q'
As// @lengthOf(
@calculatedFrom( ""x y""
    //
    )	, }	,//
@lengthOf( i8i8) msg_type { match
tag as Z9_ {
[1
    // " ++ [27880; 37322]%N ++ runes_of_ascii "
    , ""packet"" ] : Z9_ ,
[4294967296	] : options1
,""\n"" :
Pad,
} ,
    match calculatedFrom as packetx
{ 0123456789 /// triple
:	metadata [ """ ++ [233]%N ++ runes_of_ascii "t" ++ [233]%N ++ runes_of_ascii """
] :
    T , 1
    : i64_ , } , //	t
match BodyLength as chars{ 0
    : metadata
,""" ++ [128512]%N ++ runes_of_ascii """
: u128, ""a\""b"" :
    calculatedFrom ,
0
: As, """ ++ [128512]%N ++ runes_of_ascii """ :x_y_z 7
    :f32a,}//	t
,u trueish
    // " ++ [128512]%N ++ runes_of_ascii " emoji
    ,
} , } MetaData charz
{i32 // " ++ [128512]%N ++ runes_of_ascii " emoji
x `u8 x,`
,
char[]
calculatedFrom`two words`, int8
// packet A { u8 x, }
// trailing space 
packetx `crlf
line`	, } MetaData//	t
charz {
}
")).
Eval vm_compute in ("<<<M3957>>>" ++ check (runes_of_ascii "  packet 
    // `tick` ""quote"" 'q'
// `tick` ""quote"" 'q'
rootA
{
@tag(
3

    )
zchar[

    00]	// trailing space 
x_y_z `" ++ [28040; 24687; 31867; 22411]%N ++ runes_of_ascii "` ,	_x , 
// a // b
      float64	A

@lengthOf(//
  u8x  ), u8 rootA
    `line1
line2` 
,
zchar[

    7 ]// c
stringy

    , match  Header as f32a 
{
	""\" ++ [233]%N ++ runes_of_ascii """ :
	o	,[ 
	// `tick` ""quote"" 'q'
4294967296 ,7,	// c
    	4294967296

    , 
""packet""
	,
	""a	b""	,
    ""CRC32""
, 7 ,
	""a	b""  // trailing space 

] 
:  // packet A { u8 x, }
  repeatCount ,

    ""a\""b""
	: 
Header [

    ""a\""b""]	:crc
	,[	007
	,
007
,	""abc""
]	:

    metadata  ,4294967296 :

    chars , } 	 // " ++ [128512]%N ++ runes_of_ascii " emoji
	,

    @tag( 1
) i8  matchKey	`a\`

, 
  // @lengthOf(
		// " ++ [128512]%N ++ runes_of_ascii " emoji
@lengthOf(

body  )
tag

, 
@lengthOf(matchKey )
@lengthOf(o

    ) @lengthOf(pack

    ) repeat
	u {
calculatedFrom

    @lengthOf(

falsey)
	,  }

,

} ")).
Eval vm_compute in ("<<<M3652>>>" ++ check (runes_of_ascii "MetaData As {
    roots repeatCount,
    char trueish,
    zchar[255] u128 `crlf
        line`,
    char[] int,
    asx u128 `say ""hi""`,
    i32 packetx,
}

options {
    A = false;
    packetx = char[0]
    A = true
    crc = 1;
    calculatedFrom = """ ++ [233]%N ++ runes_of_ascii "t" ++ [233]%N ++ runes_of_ascii """
}

MetaData i8i8 {
}

packet len {
    @tag(00)
    // packet A { u8 x, }
    uint64 stringy @lengthOf(x_y_z),
}

packet rootA {
    // trailing space 
    @lengthOf(zchar)
    char _x @lengthOf(x_y_z),//	t
    string_ @calculatedFrom(""" ++ [233]%N ++ runes_of_ascii "t" ++ [233]%N ++ runes_of_ascii """),// " ++ [128512]%N ++ runes_of_ascii " emoji
    @lengthOf(A)
    x_y_z {
        Pad,
        match trueish as u8x {
            4294967296 : u,
            3 : int,
            00 : u8x,
            [
                ""{,}"", ""a	b"", 0, 3, 0123456789,
                ""a\""b""
            ] : body,
            65535 : T,
        },
    },
    i32 chars,
}")).
Eval vm_compute in ("<<<M1071>>>" ++ check (runes_of_ascii "packet BodyLength {@calculatedFrom( ""1""
)@tag( 10
)
    @lengthOf(
Pad
) char[0123456789  ] asx `" ++ [233]%N ++ runes_of_ascii "`
    ,	char[]	msg_type
    @calculatedFrom(
""""	) , @tag(
4294967296 )repeat a1 {char[ 007
// c
//x
]
Logon
`crlf
line`,
    // a // b
    u32
    trueish `u8 x,` ,
match	Z9_	as body {
""1"" :	Packet, 0 :
x, } ,int16 options1 `" ++ [233]%N ++ runes_of_ascii "`
, }
    , }options
{ rootA = true ; // @lengthOf(
uint8x =
' ' matchKey
= char[]
    ; stringy = ' '  options1 = 4294967296 } options {stringy = true
chars =
    ' ' }packet T { string Pad @calculatedFrom( ""\" ++ [233]%N ++ runes_of_ascii """
    ) , //	t
repeat
MetaDataX{repeat
    u32 // `tick` ""quote"" 'q'
body `line1
line2` ,string crc
@lengthOf(
// trailing space 
// " ++ [27880; 37322]%N ++ runes_of_ascii "
As
) `" ++ [28040; 24687; 31867; 22411]%N ++ runes_of_ascii "`
    , } , /// triple
repeat
// c
// trailing space 
float32 Header
    `a\` , float`a\`  , }")).
Eval vm_compute in ("<<<M4170>>>" ++ check (runes_of_ascii "options {
    len = int8/// triple
    Header = '0';
}

packet options1 {
    @calculatedFrom(""{,}"")
    repeat body,
}

packet uint8x {
    repeat int8 f32a,
}

packet As {
    match u128 as o {
        0 : len,
        // c
    },
    @calculatedFrom("""")
    zchar As,
    zchar[00] u8x,
    @lengthOf(u8x)
    match stringy as o {
        [""1"", ""\" ++ [233]%N ++ runes_of_ascii """] : repeatCount,
        [
            7, 3, ""1"", 007, ""\n"",
            0
        ] : metadata,
        //	t
        ""it's"" : o,
        00 : roots,
        4294967296 : uint8x,
    },
    @calculatedFrom(""it's"")
    @tag(3)
    int @lengthOf(int),
    char[] asx @calculatedFrom(""a\""b"") `a\`,
    int16 charz,
    //	t
    string x_y_z @lengthOf(int) `a\`,
    i64 o,
}

root packet zchar {
}")).
Eval vm_compute in ("<<<M3536>>>" ++ check (runes_of_ascii "options {
    StringPrefixLenType = u16;
    ArrayPrefixLenType = u32;
    FixedStringPadFromLeft = false;
    FixedStringPadChar = '0';
}
packet Logout {
    f64 f1,
    i16 Note,
    @rightPad('\x00') char[11] Flags,
}
packet Cancel {
    float64 msgKind,
}
packet Reject {
    InQty43 {
        float32 sym,
        char[10] Tail,
        uint8 venue,
        uint16 f1,
        char[9] Acct,
    },
}
packet Trade {
    char[] x,
    zchar[6] Note,
    repeat Reject,
}
root packet Order {
    Cancel,
    Logout,
    u64 Acct,
    u32 OrderId,
    match OrderId as Body {
        [127, 70] : Reject,
        177 : Trade,
        58 : Logout,
        75 : Cancel,
    },
    u32 Tail @calculatedFrom(""CRC32""),
}
")).
Eval vm_compute in ("<<<M803>>>" ++ check (runes_of_ascii "packet int { Packet{ match x  as asx	{	""" ++ [233]%N ++ runes_of_ascii "t" ++ [233]%N ++ runes_of_ascii """:
    //	t
    i64_
1 : /// triple
o 255
    : MetaDataX// packet A { u8 x, }
""\n""
    : chars ,
}// packet A { u8 x, }
, } , pack rootA
    ,
zchar[
// a // b
// " ++ [27880; 37322]%N ++ runes_of_ascii "
1
] T ,
    } packet u{
    zchar `tab	here` , zchar[ 255
    ]metadata ,repeat _x{// " ++ [128512]%N ++ runes_of_ascii " emoji
zchar
{ f32a repeatCount
// packet A { u8 x, }
// packet A { u8 x, }
`it's` //
,  }
,
} ,// @lengthOf(
@leftPad // packet A { u8 x, }
(  ' ' )  x_y_z	@calculatedFrom( // `tick` ""quote"" 'q'
""{,}"" ) `{ , }`
    , repeat
A a1 `u8 x,`, Foo @calculatedFrom( ""{,}""),}packet Pad {
@tag( 7 ) @lengthOf( // c
stringy ) @calculatedFrom(""" ++ [28040; 24687]%N ++ runes_of_ascii """  ) repeat
    stringy ,
char
crc,
    }
")).
Eval vm_compute in ("<<<M42>>>" ++ check (runes_of_ascii "packet Header { @lengthOf( BodyLength)string body	@lengthOf(	zchar	)  `two words` , @lengthOf( rootA )i32 metadata `it's` ,
    @tag( 00 ) // trailing space 
msg_type@lengthOf( // " ++ [27880; 37322]%N ++ runes_of_ascii "
As )  ,
int { repeat string
//
//	t
u128 `" ++ [233]%N ++ runes_of_ascii "`,
    match MetaDataX as packetx {[ 1	,0] : MetaDataX
    , ""{,}"" :calculatedFrom ,} ,
    // trailing space 
    match asx as Logon  {
7 :uint8x  , 00 : x_y_z
,
    ""\" ++ [233]%N ++ runes_of_ascii """
    : o ,""" ++ [233]%N ++ runes_of_ascii "t" ++ [233]%N ++ runes_of_ascii """
:chars /// triple
, } , body
// `tick` ""quote"" 'q'
// a // b
i64_ `crlf
line` , },	a1
    `line1
line2`  ,
// `tick` ""quote"" 'q'
// a // b
chars `// not a comment`	,@tag( 7
    )
leftPad charz	, int64 a1 @calculatedFrom(
""\n""
)  ,
}")).
Eval vm_compute in ("<<<M835>>>" ++ check (runes_of_ascii "root packet
x{
    // trailing space 
    @lengthOf(
u)// " ++ [27880; 37322]%N ++ runes_of_ascii "
@tag( 00 )
    @calculatedFrom(
""x y""// @lengthOf(
) float64 stringy@calculatedFrom(
"""" ) ,  @leftPad( '0'
) Pad @lengthOf( i8i8
    )
,
    match metadata
    as crc //	t
{ ""abc""
    : calculatedFrom ,// @lengthOf(
[1
, 3 ,	"""" , ""a	b"" ,
007
,""a\""b"",
    42
, ""it's"" ]
: msg_type , 4294967296// @lengthOf(
:
repeatCount
,[ 0 ] : T	, 4294967296:
f32a ,	42 :
u
    , } ,
    @leftPad(' ' ) uint64 A	@calculatedFrom(""`tick`"" ) , match
// c
//
roots as Packet { ""packet"" :
    uint8x//
, 0
: Packet},  } options
{  int = ""CRC32"" charz= ""CRC32""
Foo = true
    ; } 	 ")).
Eval vm_compute in ("<<<M868>>>" ++ check (runes_of_ascii "packet Z9_
{ } root packet u  {
@lengthOf( int ) f64	tag
`" ++ [28040; 24687; 31867; 22411]%N ++ runes_of_ascii "`	,
    @calculatedFrom(
// c
/// triple
""CRC32""
    ) calculatedFrom
// @lengthOf(
/// triple
@lengthOf(//
a1
    )`two words` , @rightPad (	'\x00'//	t
) @rightPad(
) @calculatedFrom(""it's"" ) string int
/// triple
// `tick` ""quote"" 'q'
@calculatedFrom(
    ""\n"" )`// not a comment`, repeat	f32a { string_
    @calculatedFrom( ""abc"" ) `" ++ [28040; 24687; 31867; 22411]%N ++ runes_of_ascii "` , zchar[65535 ] metadata
, match i8i8
    as
len	{""// no comment"":
repeatCount
,	[
    ""{,}""
// c
//x
, 65535] : Header
,} ,  } ,
}packet int {
repeat int32 pack `tab	here` , }
")).
Eval vm_compute in ("<<<M293>>>" ++ check (runes_of_ascii "root packet zchar { @rightPad (  ) repeat
uint32 Pad  ,
// a // b
// c
char[ 4294967296 ] f32a @calculatedFrom( """" )
`u8 x,`
, uint16 BodyLength @lengthOf( packetx)
`it's`  , @calculatedFrom( ""a\\"" ) string falsey // c
`a\`
    , matchKey Packet`it's` , match trueish as matchKey
{ ""\n"" : trueish [ ""\n"" ,
3]
    : len , [ 10  ] : Logon // `tick` ""quote"" 'q'
0123456789
: packetx ,  ""it's"" :
Pad , 42
// @lengthOf(
// a // b
:
    falsey , } ,
match metadata
    as rootA { """ ++ [128512]%N ++ runes_of_ascii """ : Header ,
255 : T ,0123456789 : tag
    , ""x y""
: MetaDataX ,} ,}")).
Eval vm_compute in ("<<<M3821>>>" ++ check (runes_of_ascii "
packet trueish { @tag( 
007
)len
	{ string
	float

    ,
    // packet A { u8 x, }
  repeat 
    // c
	//	t

	Z9_
`tab	here` 
,	f32	A @calculatedFrom( ""CRC32"" ) 
, } ,match
    BodyLength	// " ++ [27880; 37322]%N ++ runes_of_ascii "
		as// `tick` ""quote"" 'q'
  int  { 1 
:
msg_type
,	""" ++ [128512]%N ++ runes_of_ascii """	// @lengthOf(
  :falsey
    // a // b
  ,
	// " ++ [128512]%N ++ runes_of_ascii " emoji

  /// triple
  ""// no comment""  /// triple
:x_y_z// @lengthOf(
}
,  repeat // @lengthOf(
  i32
rootA	`doc`
,

}

packet asx

    {	}options	// `tick` ""quote"" 'q'
    {

    T

    =
""a	b""
    }")).
Eval vm_compute in ("<<<M815>>>" ++ check (runes_of_ascii "root packet o { options1 repeatCount,
zchar[ 0 ]_x , @tag( 4294967296
) char[]
    options1`doc`
    , i64_ , u16 len`two words`	,	match
pack as u{ 10 :
a1
,} ,
@calculatedFrom( ""abc""
) repeat int int
`// not a comment`,repeat chars	{
    lengthOf tag `" ++ [233]%N ++ runes_of_ascii "` , repeat x { repeat uint8 matchKey ``
, //x
string// trailing space 
roots //	t
`two words`	,int64 len @lengthOf(  Header ) ,}
,repeat char[]
// `tick` ""quote"" 'q'
// " ++ [128512]%N ++ runes_of_ascii " emoji
Z9_
`tab	here`	,
}
    ,
// `tick` ""quote"" 'q'
// c
} //x")).
Eval vm_compute in ("<<<M350>>>" ++ check (runes_of_ascii "packet uint8x{ string_	{ repeat zchar
    {
// `tick` ""quote"" 'q'
//x
match u128
as A{42 : pack
    , }, // " ++ [27880; 37322]%N ++ runes_of_ascii "
int64  u128	, repeatCount `it's` // trailing space 
, string asx
//	t
//	t
@calculatedFrom( ""a\""b"" ) , }
    ,
matchKey
@calculatedFrom( ""1"" ) , } ,
match o as
Z9_
{
    // a // b
    [ 7	] : uint8x ,
[ 00 // `tick` ""quote"" 'q'
,// " ++ [128512]%N ++ runes_of_ascii " emoji
""" ++ [233]%N ++ runes_of_ascii "t" ++ [233]%N ++ runes_of_ascii """  , ""\" ++ [233]%N ++ runes_of_ascii """// trailing space 
]  : Packet ,// a // b
} ,f32
A, }root
    packet Foo{	repeat	float32	msg_type , }
")).
Eval vm_compute in ("<<<M3509>>>" ++ check (runes_of_ascii "
options
{
    LittleEndian 
= false
; StringPrefixLenType
=

    u32
;
    ArrayPrefixLenType=
	u16
    ;

    } packet
	Party
	{@leftPad
(

'0' )  char[	12 
]

    Ref

,	repeat
    char[

    6
	]	x
, }
packet
    Logon {

    uint32 clOrdID, Party, }

    root

    packet
Ack {
zchar[2

]  f1 
,	u32 
seqNo

    ,

    u32

    Side2
	@lengthOf( 
Body

), 
match
seqNo 
as  Body {
43
:

    Logon , 93: 
Party
,} ,
}

")).
Eval vm_compute in ("<<<M808>>>" ++ check (runes_of_ascii "packet
    x
{
} MetaData calculatedFrom { } MetaData x_y_z{
char u , char[]u8x ,// a // b
char[ 0123456789 ] u128
//x
/// triple
`say ""hi""`
    ,zchar rootA , f64 x_y_z,
    } packet uint8x { @calculatedFrom( // " ++ [128512]%N ++ runes_of_ascii " emoji
""a\""b""
)  @calculatedFrom( ""CRC32""	)
repeat char[] trueish ,
}root packet falsey
    { repeat// `tick` ""quote"" 'q'
uint8x
{ string metadata
    @calculatedFrom(
    ""a\\"" )	`" ++ [28040; 24687; 31867; 22411]%N ++ runes_of_ascii "`	, Foo @lengthOf( falsey
), },}
")).
Eval vm_compute in ("<<<M4518>>>" ++ check (runes_of_ascii "options {
    LittleEndian = false;
    StringPrefixLenType = u8;
    ArrayPrefixLenType = u16;
    FixedStringPadFromLeft = false;
}

packet Heartbeat {
    u8 seqNo,
    @rightPad('\x00')
    char[8] x,
}

root packet Trade {
    repeat Heartbeat,
    float32 OrderId,
    i64 Acct,
    u16 Qty,
    u16 clOrdID,
    match clOrdID as Body {
        131 : Heartbeat,
    },
    u16 sym @calculatedFrom(""CR\
    C32""),
}")).
Eval vm_compute in ("<<<M1324>>>" ++ check (runes_of_ascii "
root	packet A
// c
// c
{/// triple
repeat string Packet`say ""hi""` ,} MetaData o { char[] u128 `line1
line2`, lengthOf x_y_z , char[1 ]	i8i8 `a\` , int16 leftPad
    // a // b
    `two words`
    , i16 asx
,
} // packet A { u8 x, }
MetaData
    charz
    { Header	a1 , Header // a // b
trueish
`u8 x,` // `tick` ""quote"" 'q'
, u128
stringy, uint8
matchKey , uint32 options1, matchKey
    i8i8 , }")).
Eval vm_compute in ("<<<M1288>>>" ++ check (runes_of_ascii "packet
int // @lengthOf(
{ string crc `{ , }` , repeat	uint8
roots `doc` ,u32 Logon `
` ,	}packet
// " ++ [27880; 37322]%N ++ runes_of_ascii "
//
x_y_z
{metadata {Pad @calculatedFrom( ""it's""
) `crlf
line` , char[]asx
    , Z9_ @lengthOf( x
    ) `two words` , },tag
    x_y_z `it's` , @calculatedFrom( ""a	b"" )
@calculatedFrom(""{,}""
    ) @rightPad
    // trailing space 
    (
    '\x00'
    )
int64 packetx //x
`` , }")).
Eval vm_compute in ("<<<M79>>>" ++ check (runes_of_ascii "options { len =
    255 tag=""" ++ [233]%N ++ runes_of_ascii "t" ++ [233]%N ++ runes_of_ascii """ }packet	packetx
{
    } options { repeatCount= '\x00' ; x = 4294967296 len =
false	; A =
    false ;Packet
= """" // " ++ [27880; 37322]%N ++ runes_of_ascii "
;
    }MetaData
    x  {
//
// `tick` ""quote"" 'q'
uint32 roots,  lengthOf o `
`	,
u32
    x_y_z `line1
line2` ,
    int64  msg_type
// a // b
//
`crlf
line`	, string repeatCount `line1
line2` , u128 stringy
    , }")).
Eval vm_compute in ("<<<M3686>>>" ++ check (runes_of_ascii "  packet
	metadata{char[ 0

    ] 
Z9_ `line1
line2`
,

} root
	packet	chars
	{
    /// triple
  	// @lengthOf(
	As {
zchar[	3

    ]
BodyLength @calculatedFrom(  ""it's""  )
`line1
line2` ,	} ,
}
	packet
o 
{

    @rightPad
    // trailing space 
	// trailing space 
(
'\x00'
) string

f32a

@calculatedFrom(
""it's""
)`// not a comment` , }
")).
Eval vm_compute in ("<<<M87>>>" ++ check (runes_of_ascii "options {
    x_y_z	= false
;
    stringy =
    """ ++ [233]%N ++ runes_of_ascii "t" ++ [233]%N ++ runes_of_ascii """;
    // trailing space 
    crc =
""" ++ [128512]%N ++ runes_of_ascii """  i8i8=
'0'
    ;
}
    // `tick` ""quote"" 'q'
    packet _x { match u128 as tag { ""CRC32"" :stringy , 3
    //	t
    : repeatCount ,// " ++ [27880; 37322]%N ++ runes_of_ascii "
""\" ++ [233]%N ++ runes_of_ascii """ :	float,	[
"""" ,  """"	, """ ++ [28040; 24687]%N ++ runes_of_ascii """ , ""a\""b"" ]
    : u8x ,""1""
:
    x_y_z
, } , }packet stringy {
}
// " ++ [128512]%N ++ runes_of_ascii " emoji
")).
Eval vm_compute in ("<<<M158>>>" ++ check (runes_of_ascii "packet crc { // " ++ [128512]%N ++ runes_of_ascii " emoji
int `" ++ [28040; 24687; 31867; 22411]%N ++ runes_of_ascii "`,  repeat Header	`doc` ,
    @tag(
    // " ++ [128512]%N ++ runes_of_ascii " emoji
    65535 )
    leftPad BodyLength
    `// not a comment` // " ++ [128512]%N ++ runes_of_ascii " emoji
, /// triple
char[ 42 ]
    roots	`` // a // b
, } packet
    uint8x
    // `tick` ""quote"" 'q'
    { @lengthOf(
i8i8 )
// trailing space 
//	t
Pad
    MetaDataX//	t
,}
")).
Eval vm_compute in ("<<<M136>>>" ++ check (runes_of_ascii "options { As
=char[007 ] ;_x // a // b
=1
;
    matchKey
    =true
;
Logon // trailing space 
= ' ' ;
    stringy =/// triple
zchar[007  ] ;
    } root
    packet MetaDataX { //x
match leftPad
    as Logon { 255
    : packetx [0123456789
    ]
    : x_y_z
, 10
// `tick` ""quote"" 'q'
// a // b
: rootA} , }")).
Eval vm_compute in ("<<<M1432>>>" ++ check (runes_of_ascii "root packet Foo // " ++ [128512]%N ++ runes_of_ascii " emoji
{ @lengthOf( options {
    // a // b
    tag // `tick` ""quote"" 'q'
= //	t
""""
    ; u8x = zchar[0  ] }
MetaData
    int {zchar[ 10]
lengthOf	`` , i64 u8x`// not a comment` ,MetaDataX pack// `tick` ""quote"" 'q'
`crlf
line`
, Logon charz `crlf
line`
    ,
    // a // b
    }
")).
Eval vm_compute in ("<<<M1455>>>" ++ check (runes_of_ascii "root packet Foo // " ++ [128512]%N ++ runes_of_ascii " emoji
{ } options {
    // a // b
    tag // `tick` ""quote"" 'q'
= //	t
"""" """"
    ; u8x = zchar[0  ] }
MetaData
    int {zchar[ 10]
lengthOf	`` , i64 u8x`// not a comment` ,MetaDataX pack// `tick` ""quote"" 'q'
`crlf
line`
, Logon charz `crlf
line`
    ,
    // a // b
    }
")).
Eval vm_compute in ("<<<M1600>>>" ++ check (runes_of_ascii "root packet Foo // " ++ [128512]%N ++ runes_of_ascii " emoji
{ } options {
    // a // b
    tag // `tick` ""quote"" 'q'
= //	t
""""
    ; u8x = zchar[0  ] }
MetaData
    int {zchar[ 10]
lengthOf	`` , i64 u8x`// not a comment` ,MetaDataX pack// `tick` ""quote"" 'q'
`crlf
line`
, Logon charz `crlf
line`
    ,
    // a // b
    } }
")).
Eval vm_compute in ("<<<M1452>>>" ++ check (runes_of_ascii "root packet Foo // " ++ [128512]%N ++ runes_of_ascii " emoji
{ } options {
    // a // b
    tag // `tick` ""quote"" 'q'
} //	t
""""
    ; u8x = zchar[0  ] }
MetaData
    int {zchar[ 10]
lengthOf	`` , i64 u8x`// not a comment` ,MetaDataX pack// `tick` ""quote"" 'q'
`crlf
line`
, Logon charz `crlf
line`
    ,
    // a // b
    }
")).
Eval vm_compute in ("<<<M43>>>" ++ check (runes_of_ascii "MetaData Foo
    {
    chars i8i8 ,  }MetaData
// trailing space 
// " ++ [27880; 37322]%N ++ runes_of_ascii "
BodyLength{calculatedFrom a1 `it's`
,
} packet Z9_ //	t
{ @calculatedFrom(
    """ ++ [128512]%N ++ runes_of_ascii """ ) @lengthOf( metadata )
    string a1
    /// triple
    `{ , }` ,
    match
u8x as o { 10
:  Foo // @lengthOf(
, ""abc"" : falsey},
}
")).
Eval vm_compute in ("<<<M655>>>" ++ check (runes_of_ascii "
packet Z9_
{ i8 x_y_z @lengthOf( u128 // packet A { u8 x, }
)	, }packet stringy
{
@rightPad ( '0'
) match repeatCount
as Foo
    {007 : float
    }
,@tag( 0 )repeat	zchar[ 4294967296 ] zchar `" ++ [233]%N ++ runes_of_ascii "` ,
}MetaData roots {  u8x Pad
`u8 x,` , uint8 packetx
,
/// triple
// packet A { u8 x, }
}
")).
Eval vm_compute in ("<<<M1279>>>" ++ check (runes_of_ascii "root packet packetx
{ char[ 65535] u
    , @lengthOf( MetaDataX
) @lengthOf( rootA ) @lengthOf( u8x
)  zchar[ 3 ]zchar`
` ,
// packet A { u8 x, }
//	t
lengthOf len	, repeat A	{
    // c
    lengthOf @calculatedFrom( ""x y"" ) ,	zchar[
// a // b
// " ++ [27880; 37322]%N ++ runes_of_ascii "
007]zchar @lengthOf( float	) ,} ,}
")).
Eval vm_compute in ("<<<M1549>>>" ++ check (runes_of_ascii "root packet Foo // " ++ [128512]%N ++ runes_of_ascii " emoji
{ } options {
    // a // b
    tag // `tick` ""quote"" 'q'
= //	t
""""
    ; u8x = zchar[0  ] }
MetaData
    int {zchar[ 10]
lengthOf	`` , i64 u8x ,MetaDataX pack// `tick` ""quote"" 'q'
`crlf
line`
, Logon charz `crlf
line`
    ,
    // a // b
    }
")).
Eval vm_compute in ("<<<M766>>>" ++ check (runes_of_ascii "root packet // trailing space 
crc { @lengthOf(
//	t
// " ++ [27880; 37322]%N ++ runes_of_ascii "
i8i8 )@tag( 42 ) @calculatedFrom( ""CRC32"" )
//	t
//x
repeat x uint8x ,	zchar[
    // a // b
    0 ]x_y_z @lengthOf(
    stringy ), As trueish ,
} // " ++ [27880; 37322]%N ++ runes_of_ascii "
root// packet A { u8 x, }
packet chars{
    } // " ++ [27880; 37322]%N)).
Eval vm_compute in ("<<<M1385>>>" ++ check (runes_of_ascii "packet
    metadata  { @rightPad
    //x
    ( '\x00'
    // c
    )
@rightPad
    ( '\x00'  ) char[] _x @calculatedFrom( ""a\\""	) ,repeat int64
    roots , repeat // trailing space 
zchar[ 007 // c
] i64_,
match	A
    as o{
""1""	: Foo ,
    } , //x
}")).
Eval vm_compute in ("<<<M108>>>" ++ check (runes_of_ascii "packet T {	match Packet as
// c
// " ++ [27880; 37322]%N ++ runes_of_ascii "
Header { 42 : BodyLength , ""// no comment""
// `tick` ""quote"" 'q'
// packet A { u8 x, }
: matchKey ""`tick`"" :
crc ,	[ 1  ]	:o, } ,	}// " ++ [128512]%N ++ runes_of_ascii " emoji
packet As {
} options  { u128
= //x
' '
body=
    char[] }
")).
Eval vm_compute in ("<<<M359>>>" ++ check (runes_of_ascii "
MetaData falsey
{uint64
matchKey
`// not a comment` ,	char Pad
    ,
    int16 Pad
// packet A { u8 x, }
// @lengthOf(
`" ++ [28040; 24687; 31867; 22411]%N ++ runes_of_ascii "`// @lengthOf(
,
    zchar[ 00 ]x_y_z, char[] // packet A { u8 x, }
i64_ , Logon repeatCount `tab	here` ,}")).
Eval vm_compute in ("<<<M2308>>>" ++ check (runes_of_ascii "MetaData Packet { }packet	asx  { @lengthOf( asx) falsey`crlf
line`
,
    }
    packet x	{uint32// @lengthOf(
rootA	@lengthOf(u32 options1 `say ""hi""` , @tag( 7
    )// packet A { u8 x, }
msg_type @lengthOf(
stringy	)	, }

")).
Eval vm_compute in ("<<<M4506>>>" ++ check (runes_of_ascii "packet
u8x {int32
o

    ,}
    options{//x
	options1=

    10 
	// a // b
  Header=
1	// " ++ [27880; 37322]%N ++ runes_of_ascii "
; lengthOf
	=
'\x00'
;
	} root packet// packet A { u8 x, }
falsey
{	@lengthOf( 
Header )
	Foo
    `" ++ [28040; 24687; 31867; 22411]%N ++ runes_of_ascii "`

    ,
}
")).
Eval vm_compute in ("<<<M2366>>>" ++ check (runes_of_ascii "MetaData Packet { }packet	asx  { @lengthOf( asx) falsey`crlf
line`
,
    }
    packet x	{uint32// @lengthOf(
rootA	,u32 options1 `say ""hi""` , @tag( 7
    )// packet A { u8 x, }
msg_type @lengthOf(
stringy	)	, , }

")).
Eval vm_compute in ("<<<M2252>>>" ++ check (runes_of_ascii "MetaData Packet { }packet	asx  { @lengthOf( )asx falsey`crlf
line`
,
    }
    packet x	{uint32// @lengthOf(
rootA	,u32 options1 `say ""hi""` , @tag( 7
    )// packet A { u8 x, }
msg_type @lengthOf(
stringy	)	, }

")).
Eval vm_compute in ("<<<M2270>>>" ++ check (runes_of_ascii "MetaData Packet { }packet	asx  { @lengthOf( asx) falsey`crlf
line`

    }
    packet x	{uint32// @lengthOf(
rootA	,u32 options1 `say ""hi""` , @tag( 7
    )// packet A { u8 x, }
msg_type @lengthOf(
stringy	)	, }

")).
Eval vm_compute in ("<<<M4178>>>" ++ check (runes_of_ascii "options

    {// `tick` ""quote"" 'q'
	}
    options // packet A { u8 x, }
{As=""\n""

    // `tick` ""quote"" 'q'
  // a // b
;

} MetaData 
msg_type
    { 
string trueish
	,	}
options{A
=
    ""{,}"" ;

    }")).
Eval vm_compute in ("<<<M2248>>>" ++ check (runes_of_ascii "MetaData Packet { }packet	asx  { ; asx) falsey`crlf
line`
,
    }
    packet x	{uint32// @lengthOf(
rootA	,u32 options1 `say ""hi""` , @tag( 7
    )// packet A { u8 x, }
msg_type @lengthOf(
stringy	)	, }

")).
Eval vm_compute in ("<<<M2359>>>" ++ check (runes_of_ascii "MetaData Packet { }packet	asx  { @lengthOf( asx) falsey`crlf
line`
,
    }
    packet x	{uint32// @lengthOf(
rootA	,u32 options1 `say ""hi""` , @tag( 7
    )// packet A { u8 x, }
msg_type @lengthOf(")).
Eval vm_compute in ("<<<M674>>>" ++ check (runes_of_ascii "
MetaData
// packet A { u8 x, }
//x
Pad
    {int32 MetaDataX, trueish
//x
// " ++ [128512]%N ++ runes_of_ascii " emoji
o `crlf
line` , string
Foo , uint32
    int
    `two words` ,
string
Foo,  string MetaDataX `` //
, }
")).
Eval vm_compute in ("<<<M4078>>>" ++ check (runes_of_ascii "packet A {
    Inner {
        match k as n {
            [
                1, 22, 007, 4, 5,
                66, 7, 8, 9, 10,
                11
            ] : B,
        },
    },
}")).
Eval vm_compute in ("<<<M1203>>>" ++ check (runes_of_ascii "packet i8i8
    { int64	BodyLength	@calculatedFrom( ""packet"")	,  @leftPad()
    zchar[ /// triple
1 ] calculatedFrom ,
    repeat
x_y_z , //	t
T A
, }MetaData
charz {
} // " ++ [27880; 37322]%N)).
Eval vm_compute in ("<<<M1140>>>" ++ check (runes_of_ascii "packet MetaDataX{repeat Z9_ Header , @lengthOf( rootA
)  stringy
`it's` ,
@tag(65535
    )
repeat
    Pad// packet A { u8 x, }
x
    `
`//x
, char[ 42 ] As `doc`
,	}
")).
Eval vm_compute in ("<<<M3859>>>" ++ check (runes_of_ascii "packet A {
    match k as n {
        [
            1, 22, ""c c"", 4, 5,
            ""f"", 7, 8, ""i"", 10,
            11, ""l""
        ] : B,
        2 : C,
    },
}")).
Eval vm_compute in ("<<<M185>>>" ++ check (runes_of_ascii "options {  Logon =
    ""{,}"" } //	t
MetaData leftPad { i8 zchar `// not a comment`, } MetaData len
    {char[] u128	,} // " ++ [27880; 37322]%N ++ runes_of_ascii "
root
    packet Pad
{
    }")).
Eval vm_compute in ("<<<M4338>>>" ++ check (runes_of_ascii "packet msg_type {
    char[] body @calculatedFrom(""1"") `doc`,
    @tag(00)
    lengthOf @lengthOf(trueish) `crlf
        line`,
}// trailing space ")).
Eval vm_compute in ("<<<M1105>>>" ++ check (runes_of_ascii "MetaData
chars { char[]body, char[]leftPad// c
`tab	here` ,
    char Packet,f32a
    trueish,
rootA
i64_ ,	} options
{ rootA=
    zchar[ 0
] }")).
Eval vm_compute in ("<<<M1680>>>" ++ check (runes_of_ascii "root packet /// triple
rootA {	i32
MetaDataX@calculatedFrom( ""CRC32"" ) `line1
line2` , @lengthOf( MetaData BodyLength {
u8
rootA, } // c")).
Eval vm_compute in ("<<<M3453>>>" ++ check (runes_of_ascii "options{	LittleEndian	= true	;	}

    root
packet
	P
	{

    u16

    a ,
u32
    Sum
@calculatedFrom( ""CRC32""
	) 
,

    }
")).
Eval vm_compute in ("<<<M70>>>" ++ check (runes_of_ascii "MetaData f32a{uint8 // a // b
repeatCount, x_y_z i8i8, f32 msg_type , charz
lengthOf `tab	here`, char[	7
    ]chars,float  x ,
}
")).
Eval vm_compute in ("<<<M1635>>>" ++ check (runes_of_ascii "root packet /// triple
{ rootA	i32
MetaDataX@calculatedFrom( ""CRC32"" ) `line1
line2` , } MetaData BodyLength {
u8
rootA, } // c")).
Eval vm_compute in ("<<<M504>>>" ++ check (runes_of_ascii "MetaData
    u128
{char[255 ] _x
`{ , }`
,
    string leftPad , u8
    A
, zchar[
0123456789]Foo , char[] As`{ , }` , } 	 ")).
Eval vm_compute in ("<<<M814>>>" ++ check (runes_of_ascii "root
    packet  T{  string zchar ,
zchar[  3] stringy , } packet
    rootA {
    u {repeatCount@lengthOf(o)`{ , }` , } , }
")).
Eval vm_compute in ("<<<M1660>>>" ++ check (runes_of_ascii "root packet /// triple
rootA {	i32
MetaDataX@calculatedFrom( : ) `line1
line2` , } MetaData BodyLength {
u8
rootA, } // c")).
Eval vm_compute in ("<<<M3423>>>" ++ check (runes_of_ascii "
options

    { LittleEndian

=	true

    ; } root packet 
P 
{ 
repeat char
	cs
    ,

    u8

    x ,
    }

")).
Eval vm_compute in ("<<<M1828>>>" ++ check (runes_of_ascii "packet
    Pad // a // b
{ i8i8 @calculatedFrom( ""a	b"") `u8 x,` ,
i8 options{ float// " ++ [128512]%N ++ runes_of_ascii " emoji
= f64 i64_
=//	t
00 }
")).
Eval vm_compute in ("<<<M1813>>>" ++ check (runes_of_ascii "packet
    Pad // a // b
{ i8i8 @calculatedFrom( ""a	b""[ `u8 x,` ,
} options{ float// " ++ [128512]%N ++ runes_of_ascii " emoji
= f64 i64_
=//	t
00 }
")).
Eval vm_compute in ("<<<M2992>>>" ++ check (runes_of_ascii "packet A {
  match k as n {
    [""a"", ""bb"", ""c c"", ""d"", ""e"", ""f"", ""g"", ""h"", ""i"", ""j"", ""k"", ""l""] : B
    2 : C
  },
}")).
Eval vm_compute in ("<<<M907>>>" ++ check (runes_of_ascii "options{ zchar
/// triple
// a // b
=42 //
i64_ = char[]T=
    // trailing space 
    char repeatCount =
' ' ;}

")).
Eval vm_compute in ("<<<M3992>>>" ++ check (runes_of_ascii "

  packet A	{ match
	k as

    n

{	[
    ""a""
	,
""bb""
, 
007 ,
    ""d"" , ""e""]  :
    B  2 : 
C}
    , 
}

")).
Eval vm_compute in ("<<<M3646>>>" ++ check (runes_of_ascii "
options
    {
Foo =

""`tick`""
	pack
	= 
  //
	""" ++ [233]%N ++ runes_of_ascii "t" ++ [233]%N ++ runes_of_ascii """
;
leftPad  =
false ;
    int =char[] ;a1
=
	i16; }

")).
Eval vm_compute in ("<<<M4446>>>" ++ check (runes_of_ascii "
packet o  {

    @tag( 
42
    ) 
repeat
    x{char[ 0123456789  ] // c
  i64_,
}  ,	}
options
{ }
")).
Eval vm_compute in ("<<<M3348>>>" ++ check (runes_of_ascii "packet calculatedFrom { @tag( 4294967296
// c
) u msg_type , char[ 3 ] crc @lengthOf( len ) `u8 x,` , }")).
Eval vm_compute in ("<<<M1093>>>" ++ check (runes_of_ascii "MetaData
    f32a  { u8
    roots`doc`  , zchar[ 7 ] uint8x ,
    matchKey
    u128 `tab	here` ,
    }")).
Eval vm_compute in ("<<<M3980>>>" ++ check (runes_of_ascii "packet int{ 
}
    // packet A { u8 x, }
packet 
Pad { repeat  zchar[ 7
    ]	body`" ++ [233]%N ++ runes_of_ascii "`

    ,  }

")).
Eval vm_compute in ("<<<M2961>>>" ++ check (runes_of_ascii "packet A {
  match k as n {
    [""a"", ""bb"", 007, ""d"", ""e"", 66, ""g"", ""h"", 9] : B
    2 : C
  },
}")).
Eval vm_compute in ("<<<M3224>>>" ++ check (runes_of_ascii "packet Logon { @tag( 42 // c
) @rightPad ( ' ' ) @leftPad ( ) repeat trueish { string T , } , }")).
Eval vm_compute in ("<<<M3256>>>" ++ check (runes_of_ascii "packet Logon { @tag( 42 ) @rightPad ( ' ' ) @leftPad ( ) repeat trueish { string T , } , // c
}")).
Eval vm_compute in ("<<<M1963>>>" ++ check (runes_of_ascii "root
packet packet crc
    { f32a @calculatedFrom( """ ++ [233]%N ++ runes_of_ascii "t" ++ [233]%N ++ runes_of_ascii """ )
    `say ""hi""`, lengthOf `` ,  }")).
Eval vm_compute in ("<<<M3961>>>" ++ check (runes_of_ascii "
packet A

{ match 
k as
n 
{
    [

    1
, ""bb"" 
, 007 
,  ""d"" ,5 ] 
:B 
2:  C	}  ,}")).
Eval vm_compute in ("<<<M1137>>>" ++ check (runes_of_ascii "packet roots {rootA @lengthOf(
    trueish ) `line1
line2` , int16 Packet
`" ++ [28040; 24687; 31867; 22411]%N ++ runes_of_ascii "` , } 	 ")).
Eval vm_compute in ("<<<M2033>>>" ++ check (runes_of_ascii "root
packet crc
    { f32a @calculatedFrom(# """ ++ [233]%N ++ runes_of_ascii "t" ++ [233]%N ++ runes_of_ascii """ )
    `say ""hi""`, lengthOf `` ,  }")).
Eval vm_compute in ("<<<M2013>>>" ++ check (runes_of_ascii "root
packet crc
    { f32a @calculatedFrom( """ ++ [233]%N ++ runes_of_ascii "t" ++ [233]%N ++ runes_of_ascii """ )
    `say ""hi""`, lengthOf , ``  }")).
Eval vm_compute in ("<<<M1605>>>" ++ check (runes_of_ascii "root packet Foo // " ++ [128512]%N ++ runes_of_ascii " emoji
{ } options {
    // a // b
    tag // `tick` ""quote"" 'q")).
Eval vm_compute in ("<<<M2933>>>" ++ check (runes_of_ascii "packet A {
  match k as n {
    [1, 22, ""c c"", 4, 5, ""f"", 7] : B
    2 : C
  },
}")).
Eval vm_compute in ("<<<M3323>>>" ++ check (runes_of_ascii "packet o { @tag( 42 ) repeat x { char[ 0123456789 ] i64_ , }
// c
, } options { }")).
Eval vm_compute in ("<<<M436>>>" ++ check (runes_of_ascii "
root packet	f32a {packetx
@calculatedFrom( ""CRC32""
    )
// a // b
//x
,  }
")).
Eval vm_compute in ("<<<M2015>>>" ++ check (runes_of_ascii "root
packet crc
    { f32a @calculatedFrom( """ ++ [233]%N ++ runes_of_ascii "t" ++ [233]%N ++ runes_of_ascii """ )
    `say ""hi""`, lengthOf")).
Eval vm_compute in ("<<<M1996>>>" ++ check (runes_of_ascii "root
packet crc
    { f32a @calculatedFrom( """ ++ [233]%N ++ runes_of_ascii "t" ++ [233]%N ++ runes_of_ascii """ )
    , lengthOf `` ,  }")).
Eval vm_compute in ("<<<M2907>>>" ++ check (runes_of_ascii "packet A {
  match k as n {
    [1, 22, ""c c"", 4, 5] : B
    2 : C
  },
}")).
Eval vm_compute in ("<<<M1272>>>" ++ check (runes_of_ascii "  options{
calculatedFrom //x
= true i8i8 = ""a	b"";  f32a
= false
; }
")).
Eval vm_compute in ("<<<M4002>>>" ++ check (runes_of_ascii "packet chars // packet A { u8 x, }
    	{
}	packet 
u
{
	} 
	//	t
 
")).
Eval vm_compute in ("<<<M2203>>>" ++ check (runes_of_ascii "root
    // `tick` ""quote"" 'q'
    packet As { trueish Packet , "" }
")).
Eval vm_compute in ("<<<M1377>>>" ++ check (runes_of_ascii "options
{ trueish// @lengthOf(
= // @lengthOf(
zchar[65535 ]; }
")).
Eval vm_compute in ("<<<M2865>>>" ++ check (runes_of_ascii "packet A {
  match k as n {
    [""a"", ""bb""] : B,
    2 : C
  },
}")).
Eval vm_compute in ("<<<M4419>>>" ++ check (runes_of_ascii "
// " ++ [128512]%N ++ runes_of_ascii " emoji
  MetaData
u
	{  int Foo,
f32a
stringy
`doc`,

}
")).
Eval vm_compute in ("<<<M1923>>>" ++ check (runes_of_ascii "
packet	As { @calculatedFrom(//x
""{,}""	match lengthOf , } 	 ")).
Eval vm_compute in ("<<<M1901>>>" ++ check (runes_of_ascii "
packet	As As { @calculatedFrom(//x
""{,}""	)lengthOf , } 	 ")).
Eval vm_compute in ("<<<M4217>>>" ++ check (runes_of_ascii "root packet A {
    u8 x `a
            b
          c`,
}")).
Eval vm_compute in ("<<<M1927>>>" ++ check (runes_of_ascii "
packet	As { @calculatedFrom(//x
""{,}""	), lengthOf } 	 ")).
Eval vm_compute in ("<<<M2808>>>" ++ check (runes_of_ascii "match , ) u32 @lengthOf( [ int16 00 u8 ) = u16 { u16")).
Eval vm_compute in ("<<<M2417>>>" ++ check (runes_of_ascii "MetaData A
{
i64
chars	' ' } // `tick` ""quote"" 'q'")).
Eval vm_compute in ("<<<M644>>>" ++ check (runes_of_ascii "// trailing space 
packet chars { string len , }")).
Eval vm_compute in ("<<<M2259>>>" ++ check (runes_of_ascii "MetaData Packet { }packet	asx  { @lengthOf( asx")).
Eval vm_compute in ("<<<M4310>>>" ++ check (runes_of_ascii "
packet  A{

    }  // a
  // b
      // c
")).
Eval vm_compute in ("<<<M2170>>>" ++ check (runes_of_ascii "root
    // `tick` ""quote"" 'q'
    packet As")).
Eval vm_compute in ("<<<M847>>>" ++ check (runes_of_ascii "// a // b
options{ Logon = 255 // " ++ [27880; 37322]%N ++ runes_of_ascii "
;}

")).
Eval vm_compute in ("<<<M3207>>>" ++ check (runes_of_ascii "MetaData zchar { zchar[ 3 ] Pad , }
// c
")).
Eval vm_compute in ("<<<M3191>>>" ++ check (runes_of_ascii "MetaData
// c
zchar { zchar[ 3 ] Pad , }")).
Eval vm_compute in ("<<<M2146>>>" ++ check (runes_of_ascii "MetaData x
{// " ++ [128512]%N ++ runes_of_ascii " emoji
i1%6 stringy , }")).
Eval vm_compute in ("<<<M3152>>>" ++ check (runes_of_ascii "packet A {    u8 x, // c    u8 y,}")).
Eval vm_compute in ("<<<M2132>>>" ++ check (runes_of_ascii "MetaData x
{// " ++ [128512]%N ++ runes_of_ascii " emoji
i16 stringy ,")).
Eval vm_compute in ("<<<M2579>>>" ++ check (runes_of_ascii "packet A { char[3] @lengthOf(y), }")).
Eval vm_compute in ("<<<M330>>>" ++ check (runes_of_ascii "packet Logon
    { }packet _x{}
")).
Eval vm_compute in ("<<<M3682>>>" ++ check (runes_of_ascii "options {
    matchKey = '0';
}")).
Eval vm_compute in ("<<<M3108>>>" ++ check (runes_of_ascii "packet A {
 u8 x `d" ++ [8239]%N ++ runes_of_ascii "`, // c" ++ [8239]%N ++ runes_of_ascii "
}")).
Eval vm_compute in ("<<<M1092>>>" ++ check (runes_of_ascii "MetaData BodyLength //	t
{ }")).
Eval vm_compute in ("<<<M2646>>>" ++ check (runes_of_ascii "MetaData M { repeat u8 x, }")).
Eval vm_compute in ("<<<M2592>>>" ++ check (runes_of_ascii "packet A { x @leftPad(), }")).
Eval vm_compute in ("<<<M3270>>>" ++ check (runes_of_ascii "
// c
options { u8x = 3 }")).
Eval vm_compute in ("<<<M3272>>>" ++ check (runes_of_ascii "options
// c
{ u8x = 3 }")).
Eval vm_compute in ("<<<M2590>>>" ++ check (runes_of_ascii "packet A { x @tag(1), }")).
Eval vm_compute in ("<<<M2766>>>" ++ check ([28; 31; 65533; 22; 1; 65533]%N ++ runes_of_ascii "W" ++ [65533]%N ++ runes_of_ascii "??=" ++ [65533]%N ++ runes_of_ascii "Bq" ++ [65533]%N ++ runes_of_ascii "[" ++ [65533; 65533; 15]%N ++ runes_of_ascii "\)$")).
Eval vm_compute in ("<<<M218>>>" ++ check (runes_of_ascii "
packet len
    { }")).
Eval vm_compute in ("<<<M2637>>>" ++ check (runes_of_ascii "root MetaData M { }")).
Eval vm_compute in ("<<<M2712>>>" ++ check (runes_of_ascii "dA]ucOM4KH8ZrzZ}/;")).
Eval vm_compute in ("<<<M3121>>>" ++ check (runes_of_ascii "packet A {
}
// c" ++ [12]%N)).
Eval vm_compute in ("<<<M2855>>>" ++ check (runes_of_ascii "65535 65535 false")).
Eval vm_compute in ("<<<M3616>>>" ++ check (runes_of_ascii "//	t
options {
}")).
Eval vm_compute in ("<<<M2798>>>" ++ check (runes_of_ascii "/" ++ [65533]%N ++ runes_of_ascii "FS" ++ [65533]%N ++ runes_of_ascii "A" ++ [65533; 65533; 65533]%N ++ runes_of_ascii "q" ++ [65533; 65533; 65533]%N ++ runes_of_ascii "%")).
Eval vm_compute in ("<<<M2485>>>" ++ check (runes_of_ascii "@lengthOf (")).
Eval vm_compute in ("<<<M1877>>>" ++ check (runes_of_ascii "packet
 ")).
Eval vm_compute in ("<<<M1228>>>" ++ check (runes_of_ascii " // " ++ [27880; 37322]%N)).
Eval vm_compute in ("<<<M2448>>>" ++ check (runes_of_ascii "true1")).
Eval vm_compute in ("<<<M3140>>>" ++ check (runes_of_ascii "// c" ++ [6158]%N)).
Eval vm_compute in ("<<<M1318>>>" ++ check (runes_of_ascii "


")).
Eval vm_compute in ("<<<M2803>>>" ++ check (runes_of_ascii "4KK")).
Eval vm_compute in ("<<<M2503>>>" ++ check (runes_of_ascii """")).
