From FP Require Import Lexer Parser ShowPT Digest Formatter.
From Coq Require Import String List NArith.
Import ListNotations.
Open Scope string_scope.
Set Printing Width 100000000.
Set Printing Depth 100000000.
Definition show_fres (r : fres) : string :=
  match r with
  | FOk s => "OK:" ++ sh_escaped s ""
  | FErr s => "ERR:" ++ sh_escaped s ""
  | FPanic p => "PANIC:" ++ p
  end.
Definition check (rs : list rune) : string := digest (show_fres (format_res rs)).
Definition full (rs : list rune) : string := show_fres (format_res rs).
Eval vm_compute in ("<<<M1874>>>" ++ check (runes_of_ascii "  options
/// triple

//

{

matchKey

=

true
;  packetx
= uint32 ; metadata	=

    int64 ;
Packet =
float64
	_x
    =  // @lengthOf(
	""" ++ [233]%N ++ runes_of_ascii "t" ++ [233]%N ++ runes_of_ascii """ }  root 
packet
asx {
	@rightPad( '\x00' ) @calculatedFrom( """"//
	) @tag(
4294967296
    )  msg_type
{ repeat
	zchar[

65535 ]
	charz `{ , }`
, char
    roots
,  T
{	rootA  len ,
    }
	,repeat u128
`u8 x,`
    , } ,
}
root 
packet	MetaDataX 
{	// c
  char[
	4294967296 ]
    Z9_	// `tick` ""quote"" 'q'
      ,
lengthOf// c

	rootA
`{ , }`	,
	@rightPad ('0'
	)
    zchar[ 00 ]i8i8

    ,

    char[ 
1]
a1 , 
// c
  float32	crc
`
`
,

Z9_
	{  f32a	{ float32//
	len ,
f32a {  char[
0 ] // " ++ [27880; 37322]%N ++ runes_of_ascii "
  pack	@calculatedFrom(

    ""it's""	)

,
    T@lengthOf(// 50% %s
f32a ) 
// c
	// `tick` ""quote"" 'q'
  , i64
lengthOf // " ++ [128512]%N ++ runes_of_ascii " emoji
	@calculatedFrom( 
""x y""

) 
,zchar[4294967296 
]
As	@calculatedFrom(""x y""
),
    }

,
	}
,
	repeat calculatedFrom  {

repeat
Packet{x
,
} ,
    } ,
u8x
{	metadata
@calculatedFrom( ""1""

) 

// 50% %s
  , repeat

zchar[ // a // b
		65535] Z9_ 
, 
    // " ++ [128512]%N ++ runes_of_ascii " emoji
	// a // b
	}  , match

    As as
repeatCount
    {
    65535 :
roots
	,	""packet"": uint8x
	,3  :	A,

""{,}"" :	leftPad

    ,
}
	,
} ,  @calculatedFrom(  // trailing space 

""// no comment""

    )  repeat stringy
asx ,char[] MetaDataX 
@lengthOf( 
    // " ++ [128512]%N ++ runes_of_ascii " emoji
// packet A { u8 x, }
    A ) ,
	@rightPad

(

'0'
)

    @leftPad

(
	' ' 
)  Z9_ @calculatedFrom(
    ""a\""b""

    ) ,
    match  // packet A { u8 x, }
	o
as
repeatCount
{ [3  ,0123456789]

: 
// c
  string_  , 4294967296
: Logon
	,7
: 
o

    ,

}
, }  packet
body
    {

}
")).
Eval vm_compute in ("<<<M1935>>>" ++ check (runes_of_ascii "
packet	A
{

    @rightPad
    (' '
    )
	// trailing space 
    zchar[

    42  
      // 50% %s
	]
MetaDataX 
, repeat
    int32	// 50% %s
	Logon 
,leftPad
string_  // packet A { u8 x, }

,
@calculatedFrom( ""packet""

)
char[

    3
]
    // 50% %s

  Logon`{ , }`
    , match
    crc as

_x

    { 
65535

    :
	float
    , 
00 :
BodyLength [ 
""" ++ [128512]%N ++ runes_of_ascii """, 	 // `tick` ""quote"" 'q'
  ""a\\""

    ,	// packet A { u8 x, }
		""a\""b""

    , 
""// no comment"",	""\n"",
	255
]:

    // c

MetaDataX ,0  : 
u8x} , } options  {  zchar
= 
false

    ;
	i64_=
	zchar[
    7]
	;

    BodyLength
=
    ""1"" i8i8 = 	 // @lengthOf(
	true

    ; 
_x  // packet A { u8 x, }
  = ""// no comment"";
}	packet 	 //	t
    crc	{ match
As	as	zchar { 0
:
    leftPad
, [	0

,255  ,
""" ++ [233]%N ++ runes_of_ascii "t" ++ [233]%N ++ runes_of_ascii """,

""x y""

    , 
""`tick`"" ,4294967296
,""" ++ [233]%N ++ runes_of_ascii "t" ++ [233]%N ++ runes_of_ascii """  //	t
,

    """" ]
    :stringy [
0  ,
    ""{,}"" 
,""packet"",

    3 
,

    65535 ,

42	, ""packet""
, 
0] :
A
    00
:

    x }	,
@tag( 42 )

    match
chars	as
    x
    {
	[ ""packet"" ,  65535] ://x
    T
,  """ ++ [28040; 24687]%N ++ runes_of_ascii """

    :
	float
	,
    """ ++ [28040; 24687]%N ++ runes_of_ascii """  :

packetx
0: 
        /// triple
    trueish

    , """ ++ [128512]%N ++ runes_of_ascii """ 
:	pack
	,}
    , // packet A { u8 x, }
    @calculatedFrom(""abc""  )

    stringy
pack
, }packet
    msg_type{}
")).
Eval vm_compute in ("<<<M1347>>>" ++ check (runes_of_ascii "// top
packet
    // c0
NewOrder {
    // c2
u32 // c3
qty ,
    // c5
} packet
    // c7
Cancel { u64 // c10a
  // c10b
id // c11
, // c12a
  // c12b
} packet // c14a
  // c14b
Business // c15
{ // c16
u8 Kind // c18
, match // c20
Kind // c21a
  // c21b
as Detail
    // c23
{ 1 // c25
: NewOrder
    // c27
, // c28a
  // c28b
2 :
    // c30
Cancel // c31a
  // c31b
, }
    // c33
, // c34
} packet // c36
TcpFrame // c37a
  // c37b
{ // c38
u8 // c39a
  // c39b
T // c40
, // c41
match // c42
T as
    // c44
Body
    // c45
{ 1 : // c48a
  // c48b
Business , } // c51a
  // c51b
, // c52a
  // c52b
} // c53
packet // c54
UdpFrame {
    // c56
u8 // c57
U
    // c58
, // c59
match // c60a
  // c60b
U as // c62
Body // c63a
  // c63b
{
    // c64
1 : // c66
Business , // c68a
  // c68b
} // c69
,
    // c70
Business
    // c71
extra
    // c72
, } root // c75a
  // c75b
packet // c76a
  // c76b
Wire
    // c77
{ // c78
TcpFrame
    // c79
, // c80a
  // c80b
UdpFrame // c81a
  // c81b
, // c82
} // c83
")).
Eval vm_compute in ("<<<M1732>>>" ++ check (runes_of_ascii "options {
    LittleEndian = false;
    StringPrefixLenType = u16;
    ArrayPrefixLenType = u8;
    FixedStringPadChar = '0';
}

packet Leg {
    zchar[1] Ref,
    repeat string count,
    repeat InMsgkind21 {
        repeat char[2] price,
        uint64 sym,
        zchar[9] msgKind,
    },
    zchar[5] Note,
}

packet Ack {
    u16 seqNo,
    repeat char[1] Acct,
    @leftPad(' ')
    char[4] msgKind,
    repeat InTag747 {
        Leg,
    },
    repeat string Tail,
    Leg,
}

packet Trade {
    u64 clOrdID,
    repeat InLastpx24 {
        char[10] Note,
        char[3] Qty,
        repeat char[2] Side2,
        Ack,
        repeat InX47 {
            Ack,
        },
    },
}

root packet Heartbeat {
    repeat u64 Acct,
    string lastPx,
    u8 Side2,
    match Side2 as Body {
        2 : Trade,
        157 : Ack,
        46 : Leg,
    },
    u32 sym @calculatedFrom(""CR\
        C32""),
}")).
Eval vm_compute in ("<<<M1383>>>" ++ check (runes_of_ascii "options {
    ArrayPrefixLenType = u32;
    FixedStringPadFromLeft = false;
    FixedStringPadChar = '0';
}
packet Trade {
    repeat InVenue78 {
        u16 tag7,
        repeat InLastpx9 {
            u8 pad0,
        },
        int64 Tail,
        repeat InQty37 {
            char[2] OrderId,
            zchar[6] lastPx,
            int64 Qty,
        },
        uint8 Side2,
    },
}
packet Logon {
    repeat string venue,
    @rightPad('\x00') char[3] sym,
    zchar[9] count,
    zchar[7] f1,
    Trade,
}
packet Logout {
}
root packet Reject {
    int32 sym,
    u8 Px,
    u32 Tail @lengthOf(Body),
    match Px as Body {
        184 : Trade,
        173 : Logon,
        12 : Logout,
    },
    u32 tag7 @calculatedFrom(""CR\
C32""),
}
")).
Eval vm_compute in ("<<<M344>>>" ++ check (runes_of_ascii "// a // b
packet
    rootA	{ @tag( 0 ) string falsey @calculatedFrom( ""// no comment"" ) ,
u32 string_ ,
} packet Header {
    //	t
    repeat // c
zchar[10// " ++ [27880; 37322]%N ++ runes_of_ascii "
] Header`" ++ [28040; 24687; 31867; 22411]%N ++ runes_of_ascii "`
    ,
}root
    packet// trailing space 
charz
    { @tag(42 ) f32 Z9_ // packet A { u8 x, }
@calculatedFrom(
""a\""b"")	`it's`
    , @calculatedFrom( ""\" ++ [233]%N ++ runes_of_ascii """ )match rootA as
    rootA
{ """ ++ [28040; 24687]%N ++ runes_of_ascii """ :
    //	t
    x 7//
:charz }
    ,// c
int64
    metadata @calculatedFrom( """ ++ [233]%N ++ runes_of_ascii "t" ++ [233]%N ++ runes_of_ascii """ ) ,match i8i8 as i64_ { 3 : Logon
    , [
7 , """ ++ [28040; 24687]%N ++ runes_of_ascii """ ]: repeatCount
    // `tick` ""quote"" 'q'
    , ""\" ++ [233]%N ++ runes_of_ascii """ : msg_type//
, }
    //
    ,
@lengthOf( Logon
) repeat
    leftPad  BodyLength
,	repeat//	t
uint8x `
` , }
")).
Eval vm_compute in ("<<<M1133>>>" ++ check (runes_of_ascii "// top
packet
    // c0
float
    // c1
{
    // c2
@rightPad
    // c3
(
    // c4
)
    // c5
rootA
    // c6
@lengthOf(
    // c7
trueish
    // c8
)
    // c9
,
    // c10
stringy
    // c11
@lengthOf(
    // c12
matchKey
    // c13
)
    // c14
,
    // c15
char[
    // c16
4294967296
    // c17
]
    // c18
pack
    // c19
@lengthOf(
    // c20
uint8x
    // c21
)
    // c22
,
    // c23
}
    // c24
root
    // c25
packet
    // c26
trueish
    // c27
{
    // c28
repeat
    // c29
uint64
    // c30
u128
    // c31
`say ""hi""`
    // c32
,
    // c33
}
    // c34
")).
Eval vm_compute in ("<<<M269>>>" ++ check (runes_of_ascii "options {stringy = 00//
f32a= // " ++ [128512]%N ++ runes_of_ascii " emoji
uint16 ;u8x = int64 ; // " ++ [27880; 37322]%N ++ runes_of_ascii "
}
root packet Header { body { // @lengthOf(
string	repeatCount	@calculatedFrom( ""x y"") `// not a comment` ,
    match roots as uint8x
    { ""a\\"": T , } , repeat i64_ { trueish @lengthOf( x_y_z )`" ++ [28040; 24687; 31867; 22411]%N ++ runes_of_ascii "` , } , } , int64 Packet , match
pack as
zchar
    {
    ""it's""
    : Header ,	[""a\\"" , 3] :calculatedFrom ,
    00 : options1// packet A { u8 x, }
, 0
    // c
    : u8x
    [ 65535 , 0123456789]
: float  255
: uint8x,} ,	}
    MetaData
u {// a // b
}
")).
Eval vm_compute in ("<<<M1440>>>" ++ check (runes_of_ascii "
MetaData x_y_z

{
	zchar[

00 
] MetaDataX  // a // b
		,

    }root
packet 
u 
{  @lengthOf( 
// @lengthOf(
	// a // b
  	calculatedFrom
	) 
repeat

    Header{ charz

    @lengthOf(
matchKey)	,repeat
u8	// trailing space 
	charz ,char[]float @calculatedFrom( 
""CRC32""	)`{ , }` ,
}
,}
	root packet lengthOf 
{  @tag(
    7

    )

@lengthOf( 
o)

    @tag(
	0 
)  BodyLength	@calculatedFrom( 

    // " ++ [128512]%N ++ runes_of_ascii " emoji
  //
  ""a\\""
)
, }options{ f32a  =  ""// no comment""
    ;}
")).
Eval vm_compute in ("<<<M1952>>>" ++ check (runes_of_ascii "MetaData T {
    char[0123456789] rootA `line1
    line2`,
    i32 Logon,
    rootA asx,
}

root packet Header {
    uint32 len @lengthOf(u) `
    `,
    repeat char MetaDataX `" ++ [28040; 24687; 31867; 22411]%N ++ runes_of_ascii "`,
    uint8x @lengthOf(zchar) `u8 x,`,
    uint8 Z9_,
    @lengthOf(u128)
    @lengthOf(MetaDataX)
    @tag(0123456789)
    Logon @lengthOf(body),
}

options {
    Z9_ = uint32;
    options1 = '\x00'
}

options {
    Foo = ""// no comment"";
}

packet float {
}")).
Eval vm_compute in ("<<<M1537>>>" ++ check (runes_of_ascii "packet uint8x {
}

root packet repeatCount {
    @rightPad('\x00')
    // 50% %s
    i16 roots,
    @rightPad()
    repeat trueish {
        tag @calculatedFrom(""1"") `line1
        line2`,
        string crc `100% of %d`,
        repeat char[] trueish `// not a comment`,
        repeat BodyLength u `{ , }`,
    },
    char tag,
    @lengthOf(body)
    @tag(007)
    @calculatedFrom(""" ++ [128512]%N ++ runes_of_ascii """)
    char[007] uint8x,
}")).
Eval vm_compute in ("<<<M1897>>>" ++ check (runes_of_ascii "root packet rootA {
    @tag(3)
    T {
        int64 pack @calculatedFrom(""a\\"") `tab	here`,
        char[10] float,
        u {
            repeat f32 chars,
        },
        char[] f32a @lengthOf(zchar),
    },
    @calculatedFrom(""CRC32"")
    u32 x_y_z @lengthOf(Header) `say ""hi""`,
    @tag(65535)
    char Logon `line1
    line2`,
    float32 zchar `// not a comment`,
}")).
Eval vm_compute in ("<<<M1717>>>" ++ check (runes_of_ascii "MetaData o {
    float32 Z9_ `two words`,
    char[0123456789] As,
    char[4294967296] u8x `100% of %d`,/// triple
}

packet u8x {
    @rightPad(' ')
    match len as packetx {
        [
            ""a	b"", 10, 42, 007, 4294967296,
            ""packet"", ""it's""
        ] : x_y_z,
        0 : o,
    },
}

MetaData calculatedFrom {
    char[3] len,
}")).
Eval vm_compute in ("<<<M1677>>>" ++ check (runes_of_ascii "packet float {
    // c2
    @rightPad()
    // c5a
    // c5b
    rootA @lengthOf(trueish),
    // c10
    stringy @lengthOf(matchKey),// c15a
    // c15b
    char[4294967296] pack @lengthOf(uint8x),
    // c23
}// c24

root packet trueish {
    // c28
    repeat uint64 u128 `say ""hi""`,
    // c33
}
// c34")).
Eval vm_compute in ("<<<M1753>>>" ++ check (runes_of_ascii "options {
    LittleEndian = true;
}

packet Sub {
    u8 a,
    @calculatedFrom(""CRC16"")
    uint64 SubSum,
}

root packet Frame {
    u16 MsgType,
    u16 BodyLen @lengthOf(Body),
    Sub Body,
    string note,
    @calculatedFrom(""CRC16"")
    uint64 Checksum,
    u8 tail,
}")).
Eval vm_compute in ("<<<M1755>>>" ++ check (runes_of_ascii "packet
options1

{ @calculatedFrom(	""""
) @rightPad ('\x00')

    char[
007 ]
	msg_type
,

    i64 Header

`" ++ [233]%N ++ runes_of_ascii "`
,
//	t
@calculatedFrom(""packet""
	) @calculatedFrom( ""`tick`""
)	@calculatedFrom(
	""a	b""

    ) i32

options1
	@lengthOf(
	Pad
    ),

}
")).
Eval vm_compute in ("<<<M442>>>" ++ check (runes_of_ascii "packet
    asx { @calculatedFrom(
""""  ) @tag( 255 )repeat
// packet A { u8 x, }
// trailing space 
int16 u8x u8x
,
@tag(
    //
    007 )
    @tag( 0
    /// triple
    ) @tag( 1) u
    @lengthOf( T ),
// `tick` ""quote"" 'q'
//x
} // " ++ [128512]%N ++ runes_of_ascii " emoji")).
Eval vm_compute in ("<<<M537>>>" ++ check (runes_of_ascii "packet
    asx { @calculatedFrom(
""""  ) @tag( 255 )repeat
// packet A { u8 x, }
// trailing space 
int16 u8x
,\
@tag(
    //
    007 )
    @tag( 0
    /// triple
    ) @tag( 1) u
    @lengthOf( T ),
// `tick` ""quote"" 'q'
//x
} // " ++ [128512]%N ++ runes_of_ascii " emoji")).
Eval vm_compute in ("<<<M498>>>" ++ check (runes_of_ascii "packet
    asx { @calculatedFrom(
""""  ) @tag( 255 )repeat
// packet A { u8 x, }
// trailing space 
int16 u8x
,
@tag(
    //
    007 )
    @tag( 0
    /// triple
    ) @tag( 1) @lengthOf(
    u T ),
// `tick` ""quote"" 'q'
//x
} // " ++ [128512]%N ++ runes_of_ascii " emoji")).
Eval vm_compute in ("<<<M421>>>" ++ check (runes_of_ascii "packet
    asx { @calculatedFrom(
""""  ) @tag(  )repeat
// packet A { u8 x, }
// trailing space 
int16 u8x
,
@tag(
    //
    007 )
    @tag( 0
    /// triple
    ) @tag( 1) u
    @lengthOf( T ),
// `tick` ""quote"" 'q'
//x
} // " ++ [128512]%N ++ runes_of_ascii " emoji")).
Eval vm_compute in ("<<<M1860>>>" ++ check (runes_of_ascii "// c
options {
    As = '0';
    float = char[]
    u = ""a\""b"";
    msg_type = u32;
    falsey = 7;/// triple
}

// a // b
packet x_y_z {
    T ``,
}

packet pack {
    @leftPad()
    rootA float,
}// packet A { u8 x, }")).
Eval vm_compute in ("<<<M1613>>>" ++ check (runes_of_ascii "// top
packet FooBar {
    // c2
    u8 a,// c5
}

// c6
packet foo_bar {
    // c9
    u16 b,// c12a
    // c12b
}

// c13
root packet R {
    FooBar,// c19a
    // c19b
    foo_bar,// c21
}// c22")).
Eval vm_compute in ("<<<M134>>>" ++ check (runes_of_ascii "MetaData len
{ x_y_z options1
    `// not a comment` //
,
f32	msg_type
    // " ++ [27880; 37322]%N ++ runes_of_ascii "
    `
` , char[]string_,} // c
MetaData // `tick` ""quote"" 'q'
packetx
{
string
u128 `say ""hi""`
, }")).
Eval vm_compute in ("<<<M587>>>" ++ check (runes_of_ascii "MetaData u
    { } MetaData o
{ float uint8x uint8x
`100% of %d` ,repeatCount u8x, string_ leftPad
, i32
    Foo , int64 x `two words` , calculatedFrom
stringy `a\` ,
}
")).
Eval vm_compute in ("<<<M577>>>" ++ check (runes_of_ascii "MetaData u
    { } MetaData o
{ { float uint8x
`100% of %d` ,repeatCount u8x, string_ leftPad
, i32
    Foo , int64 x `two words` , calculatedFrom
stringy `a\` ,
}
")).
Eval vm_compute in ("<<<M550>>>" ++ check (runes_of_ascii "@leftPad u
    { } MetaData o
{ float uint8x
`100% of %d` ,repeatCount u8x, string_ leftPad
, i32
    Foo , int64 x `two words` , calculatedFrom
stringy `a\` ,
}
")).
Eval vm_compute in ("<<<M717>>>" ++ check (runes_of_ascii "packet
crc
{repeat  Foo A  `u8 x,` ,	@lengthOf( uint8x ) string
matchKey @lengthOf( " ++ [252]%N ++ runes_of_ascii "ber ) `a\`
,
    // c
    }
MetaData chars{
leftPad
    //	t
    crc
`" ++ [233]%N ++ runes_of_ascii "`
,}")).
Eval vm_compute in ("<<<M584>>>" ++ check (runes_of_ascii "MetaData u
    { } MetaData o
{ : uint8x
`100% of %d` ,repeatCount u8x, string_ leftPad
, i32
    Foo , int64 x `two words` , calculatedFrom
stringy `a\` ,
}
")).
Eval vm_compute in ("<<<M1770>>>" ++ check (runes_of_ascii "packet A {
    match k as n {
        [
            ""a"", ""bb"", ""c c"", ""d"", ""e"",
            ""f"", ""g"", ""h"", ""i"", ""j""
        ] : B,
        2 : C,
    },
}")).
Eval vm_compute in ("<<<M1658>>>" ++ check (runes_of_ascii "packet A {
    match k as n {
        [
            ""a"", 22, ""c c"", 4, ""e"",
            66, ""g"", 8, ""i"", 10
        ] : B,
        2 : C,
    },
}")).
Eval vm_compute in ("<<<M46>>>" ++ check (runes_of_ascii "packet u8x  { @leftPad ( //	t
'0'//x
)
    uint8x lengthOf
    `line1
line2`
    // 50% %s
    ,
}
packet msg_type{
}MetaData u {
}

")).
Eval vm_compute in ("<<<M1518>>>" ++ check (runes_of_ascii "packet A {
    match k as n {
        [
            1, 22, 007, 4, 5,
            66, 7, 8
        ] : B,
        2 : C,
    },
}")).
Eval vm_compute in ("<<<M1955>>>" ++ check (runes_of_ascii "

  options {  LittleEndian 
=

    true; 
}  root packet	P
{ 
u16 
a
	,u32

Sum 
@calculatedFrom(
""CR\
C32"" ) , }
")).
Eval vm_compute in ("<<<M1210>>>" ++ check (runes_of_ascii "options { } options
// c
{ MetaDataX = char ; } MetaData Pad { i8 metadata , string stringy , int8 As `{ , }` , }")).
Eval vm_compute in ("<<<M1242>>>" ++ check (runes_of_ascii "options { } options { MetaDataX = char ; } MetaData Pad { i8 metadata , string stringy , int8
// c
As `{ , }` , }")).
Eval vm_compute in ("<<<M645>>>" ++ check (runes_of_ascii "MetaData u
    { } MetaData o
{ float uint8x
`100% of %d` ,repeatCount u8x, string_ leftPad
, i32
    Foo")).
Eval vm_compute in ("<<<M328>>>" ++ check (runes_of_ascii "// `tick` ""quote"" 'q'
packet o {} options { }MetaData
    trueish{ u64
repeatCount`100% of %d`,
    }")).
Eval vm_compute in ("<<<M1703>>>" ++ check (runes_of_ascii "packet A {
    Inner {
        match k as n {
            [1, 22, 007, 4] : B,
        },
    },
}")).
Eval vm_compute in ("<<<M120>>>" ++ check (runes_of_ascii "options { T = 42 packetx
    = true //	t
;x_y_z = char[] ;trueish // trailing space 
=
u16 }")).
Eval vm_compute in ("<<<M857>>>" ++ check (runes_of_ascii "packet A {
  match k as n {
    [""a"", 22, ""c c"", 4, ""e"", 66, ""g"", 8] : B
    2 : C
  },
}")).
Eval vm_compute in ("<<<M26>>>" ++ check (runes_of_ascii "root// trailing space 
packet uint8x
{  string stringy
    @lengthOf(matchKey
)	, }")).
Eval vm_compute in ("<<<M814>>>" ++ check (runes_of_ascii "packet A {
  match k as n {
    [""a"", ""bb"", ""c c"", ""d"", ""e""] : B
    2 : C
  },
}")).
Eval vm_compute in ("<<<M800>>>" ++ check (runes_of_ascii "packet A {
  match k as n {
    [""a"", ""bb"", ""c c"", ""d""] : B,
    2 : C
  },
}")).
Eval vm_compute in ("<<<M888>>>" ++ check (runes_of_ascii "packet A { Inner { match k as n { [1,22,007,4,5,66,7,8,9,10] : B, }, }, }")).
Eval vm_compute in ("<<<M798>>>" ++ check (runes_of_ascii "packet A {
  match k as n {
    [1, 22, 007, 4] : B,
    2 : C
  },
}")).
Eval vm_compute in ("<<<M779>>>" ++ check (runes_of_ascii "packet A {
  match k as n {
    [""a"", ""bb""] : B
    2 : C
  },
}")).
Eval vm_compute in ("<<<M33>>>" ++ check (runes_of_ascii "root packet u // @lengthOf(
{ Pad asx ,  calculatedFrom ,}
")).
Eval vm_compute in ("<<<M1718>>>" ++ check (runes_of_ascii "MetaData M {
    u8 x `a
    b`,
    T t `a
    b`,
}")).
Eval vm_compute in ("<<<M1254>>>" ++ check (runes_of_ascii "root packet P {
    repeat char cs,
    u8 x,
}
")).
Eval vm_compute in ("<<<M1466>>>" ++ check (runes_of_ascii "
root// a
  packet  // b
	A // c
	{
	}
")).
Eval vm_compute in ("<<<M1884>>>" ++ check (runes_of_ascii "root packet A {
    u8 x `a
    b`,
}")).
Eval vm_compute in ("<<<M1441>>>" ++ check (runes_of_ascii "packet A {
    u8 x,// c
    u8 y,
}")).
Eval vm_compute in ("<<<M1490>>>" ++ check (runes_of_ascii "  // c" ++ [8287]%N ++ runes_of_ascii "

  packet

    A {
}
")).
Eval vm_compute in ("<<<M1002>>>" ++ check (runes_of_ascii "packet A {
 u8 x `d" ++ [12288]%N ++ runes_of_ascii "`, // c" ++ [12288]%N ++ runes_of_ascii "
}")).
Eval vm_compute in ("<<<M1618>>>" ++ check (runes_of_ascii "// c 
packet 
A
	{

    } ")).
Eval vm_compute in ("<<<M1761>>>" ++ check (runes_of_ascii "root packet msg_type {
}")).
Eval vm_compute in ("<<<M1126>>>" ++ check (runes_of_ascii "MetaData tag // c
{ }")).
Eval vm_compute in ("<<<M1030>>>" ++ check (runes_of_ascii "packet A {
}
// c" ++ [8232]%N)).
Eval vm_compute in ("<<<M1008>>>" ++ check (runes_of_ascii "packet A {
}// c" ++ [133]%N)).
Eval vm_compute in ("<<<M1090>>>" ++ check (runes_of_ascii "packet A {
}


")).
Eval vm_compute in ("<<<M748>>>" ++ check (runes_of_ascii "&{`8[")).
Eval vm_compute in ("<<<M723>>>" ++ check (runes_of_ascii " ")).
