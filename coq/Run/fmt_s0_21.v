From FP Require Import Lexer Parser ShowPT Digest Formatter.
From Coq Require Import String List NArith.
Import ListNotations.
Open Scope string_scope.
Set Printing Width 100000000.
Set Printing Depth 100000000.
Definition show_fres (r : fres) : string :=
  match r with
  | FOk s => "OK:" ++ sh_escaped s ""
  | FErr s => "ERR:" ++ sh_escaped s ""
  | FPanic p => "PANIC:" ++ p
  end.
Definition check (rs : list rune) : string := digest (show_fres (format_res rs)).
Definition full (rs : list rune) : string := show_fres (format_res rs).
Eval vm_compute in ("<<<M41>>>" ++ check (runes_of_ascii "  root packet u{ match crc as
leftPad { [ 00 ] : //
o,  42
    /// triple
    :
// trailing space 
//x
crc [
""a	b"" ,
""CRC32"" , ""a\""b"" , ""\n""
, 0
, 255 ] : // packet A { u8 x, }
zchar ,
// " ++ [128512]%N ++ runes_of_ascii " emoji
//
} //	t
,	string stringy
    @lengthOf(matchKey ),
    int ,@tag(
1)repeat	zchar[ 4294967296] roots , @leftPad ( '\x00'	) x
    //x
    @lengthOf( crc ), } packet// c
repeatCount { zchar[ 255]	f32a	@calculatedFrom(
    ""x y"" )
,@tag(
    255) char[] asx
@calculatedFrom(""" ++ [28040; 24687]%N ++ runes_of_ascii """
    // " ++ [27880; 37322]%N ++ runes_of_ascii "
    ) , leftPad{
/// triple
// a // b
repeat int u8x ,
i64
trueish	@lengthOf(	i8i8 ) `" ++ [28040; 24687; 31867; 22411]%N ++ runes_of_ascii "`
    // a // b
    ,
repeat
int64 //	t
pack
    , } ,
    match float as o { //
65535
:
Pad ,[
""" ++ [128512]%N ++ runes_of_ascii """ , """ ++ [28040; 24687]%N ++ runes_of_ascii """,
    0123456789 ]
//x
// @lengthOf(
:i8i8
, 7 :
asx 00: stringy } ,@calculatedFrom(
""" ++ [233]%N ++ runes_of_ascii "t" ++ [233]%N ++ runes_of_ascii """ ) f32a
// packet A { u8 x, }
// trailing space 
u , repeat msg_type `" ++ [233]%N ++ runes_of_ascii "` ,
repeat zchar[
42 ]crc
    , uint64
    // " ++ [27880; 37322]%N ++ runes_of_ascii "
    lengthOf , repeat As``
    ,
zchar[ 007 ] tag `tab	here`  , }	root packet charz
{
    string msg_type , @calculatedFrom( """") repeat//	t
string  tag `tab	here`
    ,repeat calculatedFrom ,
repeat Foo, uint64
Foo@lengthOf( packetx) ,
@rightPad  ( )	match	falsey as calculatedFrom { [ 0 , 10
    , ""a\""b"" ] : metadata ,
} , @calculatedFrom( ""\" ++ [233]%N ++ runes_of_ascii """ )
    i64  As ``,
    @lengthOf(
rootA) u32 Logon // c
@lengthOf(a1  ) , @calculatedFrom( """" ) @leftPad ( ' '
    )
    uint16
i8i8
@calculatedFrom( ""// no comment""
) ,  } root packet// trailing space 
uint8x {
    repeat f32
chars `tab	here` ,}
MetaData calculatedFrom
{
//
// `tick` ""quote"" 'q'
metadata crc , }

")).
Eval vm_compute in ("<<<M1350>>>" ++ check (runes_of_ascii "// top
options // c0a
  // c0b
{ // c1a
  // c1b
ArrayPrefixLenType // c2
=
    // c3
u64 ; // c5
FixedStringPadFromLeft // c6
=
    // c7
true ; FixedStringPadChar // c10a
  // c10b
= // c11a
  // c11b
'0' ;
    // c13
}
    // c14
packet
    // c15
Quote
    // c16
{ } // c18a
  // c18b
packet Ack // c20
{ repeat
    // c22
InNote66 // c23
{ u8
    // c25
pad0
    // c26
,
    // c27
} , // c29
} packet // c31a
  // c31b
Reject { // c33a
  // c33b
}
    // c34
root // c35
packet // c36a
  // c36b
Order // c37
{ // c38
Quote // c39
,
    // c40
repeat Reject // c42a
  // c42b
, // c43
string venue // c45
,
    // c46
string // c47
seqNo
    // c48
, uint32 // c50a
  // c50b
Ref
    // c51
, // c52
u16 // c53
lastPx // c54a
  // c54b
, u32 clOrdID @lengthOf( Body // c59a
  // c59b
) // c60
, // c61a
  // c61b
match lastPx
    // c63
as
    // c64
Body // c65
{
    // c66
190 : Reject // c69a
  // c69b
, // c70
186
    // c71
:
    // c72
Quote
    // c73
, // c74
22 // c75
: // c76
Ack ,
    // c78
}
    // c79
, u16 // c81a
  // c81b
Flags // c82a
  // c82b
@calculatedFrom(
    // c83
""CRC32""
    // c84
) , // c86
}
    // c87
")).
Eval vm_compute in ("<<<M1539>>>" ++ check (runes_of_ascii "// top
    options  
  // c0
    	{ // c1
uint8x  // c2a
    // c2b
	  = 007	// c4a
	  // c4b
    ;lengthOf 
    // c6

	=i8

; // c9a
    // c9b
  	}

packet
i64_

// c12
	{  // c13
      @calculatedFrom(// c14
""1"" 
    // c15
    	) // c16
      @tag(	// c17
	3

) 
    // c19
	  @lengthOf(
// c20
  rootA ) 	 // c22
	  repeat 	 // c23
int8 // c24a
  // c24b
  Packet	// c25a

	// c25b
    `u8 x,`// c26
	, // c27
}// c28a
  // c28b

  root 
    // c29
packet// c30a
	  // c30b
    stringy 
    // c31
{// c32a
    	// c32b
	@rightPad

(
    ' ' 	 // c35
	) 	 // c36

	repeat	// c37a
  // c37b
  char[ 	 // c38

10  // c39

  ]

    repeatCount 	 // c41a
  // c41b
    ,  // c42
	  @tag( 	 // c43a
    // c43b
	255 
    // c44
  ) // c45
  float64 
        // c46
  msg_type  
      // c47

	@calculatedFrom(
""packet""
    // c49
  )  // c50a
	  // c50b
	, 	 // c51a
      // c51b
    	}  // c52
")).
Eval vm_compute in ("<<<M1374>>>" ++ check (runes_of_ascii "options {
    FixedStringPadFromLeft = true;
    FixedStringPadChar = '0';
}
packet Leg {
    repeat InSym93 {
        zchar[3] Acct,
        string Side2,
        i32 Flags,
        f32 Note,
        i32 msgKind,
    },
    f64 Note,
    uint16 Px,
}
packet Quote {
    zchar[2] OrderId,
}
packet Ack {
    repeat string lastPx,
    zchar[4] price,
    uint32 OrderId,
    Quote,
    int8 Acct,
}
packet Fill {
    repeat Leg,
    @rightPad('0') char[11] Note,
    f64 Px,
    @rightPad('\x00') char[5] Flags,
    zchar[9] x,
    string msgKind,
}
root packet Order {
    Leg,
    repeat Ack,
    @rightPad('\x00') char[3] Side2,
    repeat char[1] seqNo,
    u16 clOrdID,
    match clOrdID as Body {
        198 : Leg,
        23 : Quote,
        13 : Ack,
        159 : Fill,
    },
    u32 venue @calculatedFrom(""CR\
C32""),
}
")).
Eval vm_compute in ("<<<M1124>>>" ++ check (runes_of_ascii "// top
options
    // c0
{ // c1
uint8x // c2a
  // c2b
= 007 // c4a
  // c4b
; lengthOf
    // c6
= i8 ; // c9a
  // c9b
} packet i64_
    // c12
{ // c13
@calculatedFrom( // c14
""1""
    // c15
) // c16
@tag( // c17
3 )
    // c19
@lengthOf(
    // c20
rootA ) // c22
repeat // c23
int8 // c24a
  // c24b
Packet // c25a
  // c25b
`u8 x,` // c26
, // c27
} // c28a
  // c28b
root
    // c29
packet // c30a
  // c30b
stringy
    // c31
{ // c32a
  // c32b
@rightPad ( ' ' // c35
) // c36
repeat // c37a
  // c37b
char[ // c38
10 // c39
] repeatCount // c41a
  // c41b
, // c42
@tag( // c43a
  // c43b
255
    // c44
) // c45
float64
    // c46
msg_type
    // c47
@calculatedFrom( ""packet""
    // c49
) // c50a
  // c50b
, // c51a
  // c51b
} // c52
")).
Eval vm_compute in ("<<<M243>>>" ++ check (runes_of_ascii "// a // b
packet stringy { @tag( 3 ) // trailing space 
i64
    len
,@calculatedFrom( ""1""  ) char[
0 ]
x @lengthOf(Foo )
,@calculatedFrom( """" )
body
// c
// " ++ [128512]%N ++ runes_of_ascii " emoji
@lengthOf(
calculatedFrom )`line1
line2`
    , @calculatedFrom( ""it's"" // " ++ [128512]%N ++ runes_of_ascii " emoji
)// packet A { u8 x, }
match falsey
    // packet A { u8 x, }
    as u8x {[
""" ++ [128512]%N ++ runes_of_ascii """
    , // a // b
42 , 1 ,10 ]
: Header , } ,
// trailing space 
// `tick` ""quote"" 'q'
} MetaData// " ++ [128512]%N ++ runes_of_ascii " emoji
stringy{ f32a
    u128 `{ , }` , char[ // a // b
10 ]u128	, chars _x , zchar[ 65535 // trailing space 
]/// triple
falsey
    `{ , }`
    , _x i64_
, int32
Packet
`crlf
line` , } MetaData lengthOf
{
    }
// trailing space 
")).
Eval vm_compute in ("<<<M1347>>>" ++ check (runes_of_ascii "
options { LittleEndian=

    false	;
ArrayPrefixLenType
    = u8
;FixedStringPadFromLeft 
=
true;FixedStringPadChar
= '0';

    }
packet
Heartbeat  { 
string	lastPx,

    uint8
Qty
, i64
    Acct 
, char[

    4	]
Ref
,	} 
packet

Fill{

    uint8  Ref
,

    Heartbeat

, f32

    OrderId
	,repeat
	f32	x
    ,}
root

packet 
Order
    {
	zchar[2
] OrderId,  zchar[  2 ]Acct
,zchar[1]  Note

    , zchar[ 9
] 
Qty ,
	string	price
	,

    string
tag7 , u32  x
,match	x

    as
	Body
{
    123

:
	Fill,

112
    :

    Heartbeat,},	u32 seqNo  @calculatedFrom(
""CRC32"" ) , }
")).
Eval vm_compute in ("<<<M1564>>>" ++ check (runes_of_ascii "
MetaData

    falsey
{ } root packet	// `tick` ""quote"" 'q'
  o

    {
@tag( 3 	 // " ++ [128512]%N ++ runes_of_ascii " emoji
  	)
@calculatedFrom(

""""
	)
@lengthOf(pack) char[
	65535 ] falsey
@lengthOf(	falsey
	)

    , }root
	packet
	roots
    {@lengthOf(

chars	)match
Logon

    as
    chars
    { ""`tick`"" :

charz
// packet A { u8 x, }
    ""a\\"" :
    Z9_ 
007 :	trueish 
""CRC32""
    :msg_type  ,
    [

    3 ,
3// `tick` ""quote"" 'q'
  ,
00,4294967296	, 0

,

7

    ,//
""x y""  , ""\" ++ [233]%N ++ runes_of_ascii """
    //	t
      ]
:

metadata
    ,
""a	b"" 
	//x
	// " ++ [27880; 37322]%N ++ runes_of_ascii "
	:
    crc	}
,}
")).
Eval vm_compute in ("<<<M1333>>>" ++ check (runes_of_ascii "// top
packet // c0
u128 {
    // c2
u8 // c3a
  // c3b
a // c4
, // c5a
  // c5b
} // c6
root // c7a
  // c7b
packet Msg { u8
    // c11
k // c12
,
    // c13
u24
    // c14
{ u8 Hi // c17a
  // c17b
, u16 // c19a
  // c19b
Lo ,
    // c21
} // c22
, repeat // c24a
  // c24b
i24 { // c26
u32 // c27a
  // c27b
q // c28
,
    // c29
} , // c31
u128 // c32a
  // c32b
, // c33a
  // c33b
u16 // c34
float32x ,
    // c36
string // c37
s
    // c38
, // c39a
  // c39b
} // c40
")).
Eval vm_compute in ("<<<M1378>>>" ++ check (runes_of_ascii "options {
    LittleEndian = true;
    StringPrefixLenType = u64;
    ArrayPrefixLenType = u16;
    FixedStringPadFromLeft = false;
    FixedStringPadChar = ' ';
}
packet Logon {
    zchar[5] Side2,
}
root packet Logout {
    repeat i64 Tail,
    Logon,
    repeat i16 OrderId,
    char[] venue,
    uint64 x,
    repeat i16 count,
    u8 Flags,
    match Flags as Body {
        25 : Logon,
    },
    u16 Qty @calculatedFrom(""CR\
C32""),
}
")).
Eval vm_compute in ("<<<M1337>>>" ++ check (runes_of_ascii "  options{
	LittleEndian
	= false
	;StringPrefixLenType	=u8
; ArrayPrefixLenType	=
u64;	FixedStringPadFromLeft

    = false 
;
	FixedStringPadChar =	' ';

}

packet
Reject  {
repeat

    char[ 4 ] seqNo,
    string

Px
    ,  }
	root
packet Trade	{@rightPad(  '0'
    )
char[ 2	] 
msgKind

,	repeat

    f64
price ,
InAcct79
{ repeat
Reject
	,
zchar[ 
7 ] OrderId
,
}

,	Reject ,}")).
Eval vm_compute in ("<<<M106>>>" ++ check (runes_of_ascii "MetaData Pad
    {
    i16 repeatCount , // c
f32 pack `a\`,} packet//
f32a {@lengthOf( metadata // a // b
)match msg_type as matchKey
    {
00: rootA ,  }, @rightPad ( ) match repeatCount as len {
    [/// triple
""x y""
// c
//
,
10] : As , 42: i64_""" ++ [128512]%N ++ runes_of_ascii """	: BodyLength
, 7
: f32a  ,
    }
    ,	@lengthOf( BodyLength )	repeat Foo `line1
line2` , } // @lengthOf(")).
Eval vm_compute in ("<<<M1950>>>" ++ check (runes_of_ascii "packet Header {

    @calculatedFrom(	// a // b

  ""a	b"") char[
255 ]
    falsey 
`tab	here`	,
int8 
    // " ++ [27880; 37322]%N ++ runes_of_ascii "

u `doc`
,	float32
lengthOf @calculatedFrom( ""a	b""
	)

// a // b

  ,
    @rightPad
(
' ')  @tag(
3 )

    float64

    asx

    ,
int8	metadata @lengthOf( zchar
	) 	 // a // b
		,Pad

    f32a  ,
} ")).
Eval vm_compute in ("<<<M1310>>>" ++ check (runes_of_ascii "
packet
A
	{

u8 a
	, } packet
    B 
{ u16 b
,
	} packet
    C 
{	u32 
c,

}
	root
    packet

    M
	{u16

    Kc ,
u16 Kb
	, u16
    Ka

,
match  Kc

    as
X
	{9
:A

    ,
10
:B  , } ,match	Kb  as
Y{	2
: C
,  1 :A

,

} ,  match	Ka
    as
Z {
1 :
B	, 
}, A 
,B
, C
,

    }")).
Eval vm_compute in ("<<<M1911>>>" ++ check (runes_of_ascii "
options
{	LittleEndian  =
true

    ;
} packet
    Logon
	{	u8

    x 
, string
	user , 
} 
packet Logout
	{u16 reason 
, }
packet
Empty { }root
    packet Frame
{ u16	MsgType,  u8
BodyLen	@lengthOf(Body
), u8 flags	,  Logon
Body
	,

u32 
trailer 
,
}

")).
Eval vm_compute in ("<<<M1247>>>" ++ check (runes_of_ascii "options { LittleEndian // c2a
  // c2b
= // c3
true
    // c4
; } root
    // c7
packet P // c9a
  // c9b
{ repeat char // c12a
  // c12b
cs // c13a
  // c13b
, // c14a
  // c14b
u8
    // c15
x
    // c16
, // c17
}
    // c18
")).
Eval vm_compute in ("<<<M10>>>" ++ check (runes_of_ascii "MetaData //	t
x{
    } packet rootA
//x
//	t
{ i64	As
//x
// @lengthOf(
@lengthOf(
    A )
`// not a comment` ,
}
    options { asx =	string ; i8i8 =zchar[
0123456789 ];	Foo =10 ; As =true
; }
")).
Eval vm_compute in ("<<<M9>>>" ++ check (runes_of_ascii "
options {body = """ ++ [28040; 24687]%N ++ runes_of_ascii """ }	packet matchKey
{string_
// packet A { u8 x, }
// a // b
@lengthOf( f32a) ,	int32 int @lengthOf(u128 )	, tag x_y_z ,}packet BodyLength /// triple
{ }")).
Eval vm_compute in ("<<<M73>>>" ++ check (runes_of_ascii "root
    packet As { //
char	charz @lengthOf( packetx
) `{ , }`,//
char[0123456789
]
MetaDataX
// " ++ [27880; 37322]%N ++ runes_of_ascii "
// `tick` ""quote"" 'q'
`it's` , zchar[
    7]o `u8 x,`
, }")).
Eval vm_compute in ("<<<M528>>>" ++ check (runes_of_ascii "packet uint8x
{ match pack
    as msg_type	{
    0123456789 :	float
}
,
} packet //	t
a1
    { } options {packetx
    = '\x00'	; u128= ""a	b""  packet }
")).
Eval vm_compute in ("<<<M516>>>" ++ check (runes_of_ascii "packet uint8x
{ match pack
    as msg_type	{
    0123456789 :	float
}
,
} packet //	t
a1
    { } options {packetx
    = '\x00'	; u128= = ""a	b""  ; }
")).
Eval vm_compute in ("<<<M427>>>" ++ check (runes_of_ascii "packet uint8x
{ match pack
    as msg_type	0123456789
    { :	float
}
,
} packet //	t
a1
    { } options {packetx
    = '\x00'	; u128= ""a	b""  ; }
")).
Eval vm_compute in ("<<<M455>>>" ++ check (runes_of_ascii "packet uint8x
{ match pack
    as msg_type	{
    0123456789 :	float
}
,
 packet //	t
a1
    { } options {packetx
    = '\x00'	; u128= ""a	b""  ; }
")).
Eval vm_compute in ("<<<M1936>>>" ++ check (runes_of_ascii "options {
    f32a = ""a\""b"";
    Z9_ = ""`tick`""
    Logon = ""CRC32""
    u128 = f64;
    rootA = false;
}//	t

packet lengthOf {
}

MetaData len {
}")).
Eval vm_compute in ("<<<M664>>>" ++ check (runes_of_ascii "// @lengthOf(
packet i8i8 { u128 o , }
options { MetaDataX = true;
    BodyLength =""packet"" packet= 007
crc //x
= ""abc"" ;
    msg_type =
i16 }")).
Eval vm_compute in ("<<<M692>>>" ++ check (runes_of_ascii "// @lengthOf(
packet i8i8 { u128 o , }
options { MetaDataX = true;
    BodyLength =""packet"" x_y_z= 007
u8 //x
= ""abc"" ;
    msg_type =
i16 }")).
Eval vm_compute in ("<<<M519>>>" ++ check (runes_of_ascii "packet uint8x
{ match pack
    as msg_type	{
    0123456789 :	float
}
,
} packet //	t
a1
    { } options {packetx
    = '\x00'	; u128")).
Eval vm_compute in ("<<<M1718>>>" ++ check (runes_of_ascii "MetaData leftPad {
    chars MetaDataX,
}

packet repeatCount {
    char[255] uint8x `" ++ [233]%N ++ runes_of_ascii "`,
}

MetaData pack {
    // c
    As Foo,
}")).
Eval vm_compute in ("<<<M1264>>>" ++ check (runes_of_ascii "packet B {
    u8 a,
}
root packet P {
    u8 K,
    match K as Body {
        1 : B,
    },
    u16 L @lengthOf(Body),
}
")).
Eval vm_compute in ("<<<M1151>>>" ++ check (runes_of_ascii "MetaData leftPad { chars MetaDataX // c
, } packet repeatCount { char[ 255 ] uint8x `" ++ [233]%N ++ runes_of_ascii "` , } MetaData pack { As Foo , }")).
Eval vm_compute in ("<<<M1183>>>" ++ check (runes_of_ascii "MetaData leftPad { chars MetaDataX , } packet repeatCount { char[ 255 ] uint8x `" ++ [233]%N ++ runes_of_ascii "` , } MetaData pack { As // c
Foo , }")).
Eval vm_compute in ("<<<M894>>>" ++ check (runes_of_ascii "packet A {
  match k as n {
    [""a"", ""bb"", ""c c"", ""d"", ""e"", ""f"", ""g"", ""h"", ""i"", ""j"", ""k""] : B
    2 : C
  },
}")).
Eval vm_compute in ("<<<M49>>>" ++ check (runes_of_ascii "options  { f32a = true;  metadata =""CRC32"" ;
body // " ++ [27880; 37322]%N ++ runes_of_ascii "
=
char ; A =
float64	;
} MetaData
    rootA { }")).
Eval vm_compute in ("<<<M1713>>>" ++ check (runes_of_ascii "packet A {
    Inner {
        match k as n {
            [1, 22, 007, 4, 5] : B,
        },
    },
}")).
Eval vm_compute in ("<<<M590>>>" ++ check (runes_of_ascii "
packet
    asx {match u128 as lengthOf
MetaData
//	t
// `tick` ""quote"" 'q'
255 : x ,
    } ,	}")).
Eval vm_compute in ("<<<M891>>>" ++ check (runes_of_ascii "packet A {
  match k as n {
    [1, 22, 007, 4, 5, 66, 7, 8, 9, 10, 11] : B,
    2 : C
  },
}")).
Eval vm_compute in ("<<<M1426>>>" ++ check (runes_of_ascii "packet A {
    match k as n {
        [""a"", 22, ""c c"", 4, ""e""] : B,
        2 : C,
    },
}")).
Eval vm_compute in ("<<<M619>>>" ++ check (runes_of_ascii "
packet
    asx {match u128 as lengthOf
{
//	t
// `tick` ""quote"" 'q'
255 : x ,
    } }	,")).
Eval vm_compute in ("<<<M1413>>>" ++ check (runes_of_ascii "  packet

    A	{
	match

    k as n{ [	1

,
22

]
	:
B

    2
	:
    C }  ,  }

")).
Eval vm_compute in ("<<<M553>>>" ++ check (runes_of_ascii "

    asx {match u128 as lengthOf
{
//	t
// `tick` ""quote"" 'q'
255 : x ,
    } ,	}")).
Eval vm_compute in ("<<<M616>>>" ++ check (runes_of_ascii "
packet
    asx {match u128 as lengthOf
{
//	t
// `tick` ""quote"" 'q'
255 : x ,")).
Eval vm_compute in ("<<<M1282>>>" ++ check (runes_of_ascii "root 
packet

    P  { u16	a ,

u32

Sum	@calculatedFrom( ""CRC32""
	) ,

} ")).
Eval vm_compute in ("<<<M1633>>>" ++ check (runes_of_ascii "  packet

    A {

match
k as n
{
1 
:

B	,
        // c
    } ,
}
")).
Eval vm_compute in ("<<<M787>>>" ++ check (runes_of_ascii "packet A {
  match k as n {
    [1, 22, 007] : B,
    2 : C
  },
}")).
Eval vm_compute in ("<<<M1126>>>" ++ check (runes_of_ascii "// top
MetaData
    // c0
u
    // c1
{
    // c2
}
    // c3
")).
Eval vm_compute in ("<<<M1753>>>" ++ check (runes_of_ascii "  packet 
A { }
	packet B{

} MetaData M	{ } options

{
	}")).
Eval vm_compute in ("<<<M1219>>>" ++ check (runes_of_ascii "packet body { i32 f32a `{ , }` , } options { } // c
")).
Eval vm_compute in ("<<<M341>>>" ++ check (runes_of_ascii "options  { len = // " ++ [128512]%N ++ runes_of_ascii " emoji
""packet"" int
= ""abc""}")).
Eval vm_compute in ("<<<M1630>>>" ++ check (runes_of_ascii "root packet A {
    u8 x `tab
        	x`,
}")).
Eval vm_compute in ("<<<M591>>>" ++ check (runes_of_ascii "
packet
    asx {match u128 as lengthOf")).
Eval vm_compute in ("<<<M1647>>>" ++ check (runes_of_ascii "root packet A {
    u8 x `
    `,
}")).
Eval vm_compute in ("<<<M1768>>>" ++ check (runes_of_ascii "packet A {
    u8 x `a
    b`,
}")).
Eval vm_compute in ("<<<M1053>>>" ++ check (runes_of_ascii "packet A {
 u8 x `d" ++ [65279]%N ++ runes_of_ascii "`, // c" ++ [65279]%N ++ runes_of_ascii "
}")).
Eval vm_compute in ("<<<M929>>>" ++ check (runes_of_ascii "packet A {
    u8 x `
`,
}")).
Eval vm_compute in ("<<<M1479>>>" ++ check (runes_of_ascii "packet x
{} 
    // c")).
Eval vm_compute in ("<<<M162>>>" ++ check (runes_of_ascii "
packet f32a  { }
")).
Eval vm_compute in ("<<<M1001>>>" ++ check (runes_of_ascii "packet A {
}
// c" ++ [8192]%N)).
Eval vm_compute in ("<<<M277>>>" ++ check (runes_of_ascii "MetaData i64_ { }")).
Eval vm_compute in ("<<<M356>>>" ++ check (runes_of_ascii "packet uint8x {}")).
Eval vm_compute in ("<<<M750>>>" ++ check (runes_of_ascii "uk%W,3^r>l")).
Eval vm_compute in ("<<<M293>>>" ++ check (runes_of_ascii "  

")).
