From FP Require Import Lexer Parser ShowPT Digest Formatter.
From Coq Require Import String List NArith.
Import ListNotations.
Open Scope string_scope.
Set Printing Width 100000000.
Set Printing Depth 100000000.
Definition show_fres (r : fres) : string :=
  match r with
  | FOk s => "OK:" ++ sh_escaped s ""
  | FErr s => "ERR:" ++ sh_escaped s ""
  | FPanic p => "PANIC:" ++ p
  end.
Definition check (rs : list rune) : string := digest (show_fres (format_res rs)).
Definition full (rs : list rune) : string := show_fres (format_res rs).
Eval vm_compute in ("<<<M146>>>" ++ check (runes_of_ascii "MetaData
chars {	int8 Z9_,	float rootA	`tab	here`// @lengthOf(
,
//x
// @lengthOf(
T o `it's` ,
roots int , // c
repeatCount MetaDataX, float32
    falsey `say ""hi""`,} packet
    msg_type
{ repeat f32
o // `tick` ""quote"" 'q'
, @tag( 0
)char[]  A	,  repeat char[] tag `say ""hi""` ,repeat char[ 0 ] Z9_ ,
zchar[ 1 ] lengthOf ,
i64 T , match float as
leftPad {
    007 : len /// triple
, ""it's"" : len
    , ""it's"" : // @lengthOf(
float
    [ 255 ,
00
, ""abc"", ""abc""
,
1
, """ ++ [28040; 24687]%N ++ runes_of_ascii """ // `tick` ""quote"" 'q'
, ""x y"" , """" // a // b
] :	_x ,
    """" : len ,""\" ++ [233]%N ++ runes_of_ascii """  : // a // b
i64_
, //	t
}, roots{ char[ 1
]// @lengthOf(
Header
@lengthOf( x_y_z )
    , body u128 , // `tick` ""quote"" 'q'
char[]
float ,chars@lengthOf( x  )
    `doc` ,}
,
    crc `it's`
    // `tick` ""quote"" 'q'
    , @calculatedFrom(""" ++ [128512]%N ++ runes_of_ascii """
    )
    BodyLength `" ++ [28040; 24687; 31867; 22411]%N ++ runes_of_ascii "` , }
    packet
    u128{  lengthOf ,pack
@lengthOf( u8x// c
)`// not a comment`// " ++ [27880; 37322]%N ++ runes_of_ascii "
,@leftPad
    (
' ' ) float{match
    asx as
    charz
{ [ 4294967296,""""
, 255 ,42
    ,""1""  ] : u8x ""{,}""	: Foo 42  :
leftPad[ // trailing space 
255 ,
    // " ++ [128512]%N ++ runes_of_ascii " emoji
    ""a\""b"" , ""it's""  , 4294967296 ] : stringy , 3
:Header ,
} ,match o // `tick` ""quote"" 'q'
as
    Pad
    // trailing space 
    { 3 :
    i64_//x
, } ,repeat
    string msg_type ,
    match
packetx // " ++ [27880; 37322]%N ++ runes_of_ascii "
as
lengthOf
    { [ ""x y"","""" ]
:x_y_z
// " ++ [27880; 37322]%N ++ runes_of_ascii "
// c
}, } ,i64 float,repeat
    zchar[ 3  ] rootA
    `crlf
line`, match msg_type as len{
""CRC32"":
MetaDataX
,
} ,
    f32
A , char[
0123456789 ] chars// " ++ [27880; 37322]%N ++ runes_of_ascii "
`{ , }` , /// triple
@calculatedFrom( ""a\""b""
) string
string_
    `" ++ [233]%N ++ runes_of_ascii "` ,}
")).
Eval vm_compute in ("<<<M1866>>>" ++ check (runes_of_ascii "options {
    BodyLength = 3;// " ++ [128512]%N ++ runes_of_ascii " emoji
    T = ""packet"";
    // c
    // trailing space 
    crc = true;
    falsey = '\x00';
}

root packet A {
    @leftPad('0')
    char[65535] Header `" ++ [233]%N ++ runes_of_ascii "`,
    @rightPad('0')
    //
    a1 @lengthOf(msg_type),
    @lengthOf(rootA)
    match _x as stringy {
        ""CRC32"" : chars,
        3 : float,
        255 : asx,
        10 : tag,
        //
    },
    @calculatedFrom(""" ++ [128512]%N ++ runes_of_ascii """)
    u32 u8x `crlf
        line`,
    repeat char[] asx `a\`,
    @rightPad('0')
    match f32a as Packet {
        [
            255, ""CRC32"", 007, ""1"", ""packet"",
            00, 4294967296
        ] : calculatedFrom,
        ""packet"" : falsey,
        ""a\""b"" : body,
        7 : Packet,
        // " ++ [128512]%N ++ runes_of_ascii " emoji
        0123456789 : i64_,
        // a // b
        [4294967296, 0123456789] : options1,
    },
    crc @lengthOf(Foo),
    @calculatedFrom(""{,}"")
    @lengthOf(metadata)
    @lengthOf(i8i8)
    int64 options1 @calculatedFrom(""CRC32"") `line1
        line2`,// @lengthOf(
}

packet a1 {
    match lengthOf as x_y_z {
        ""it's"" : matchKey,
        10 : Packet,
        [""abc""] : A,
        10 : metadata,
    },
}

MetaData body {
    char string_,
    char[] x,
    len Pad,
    string leftPad,
}// trailing space ")).
Eval vm_compute in ("<<<M1609>>>" ++ check (runes_of_ascii "

  root packet i64_
{ trueish

    ,
	@calculatedFrom( ""abc"" )  @tag(
	7
    ) 
    // c
int16 asx ,
	@calculatedFrom(
""a\\"" )float32
crc

    @lengthOf(	Foo  )
    ,@tag(  // `tick` ""quote"" 'q'
	  42// c
  ) zchar[ 
    // c
	// packet A { u8 x, }
    	7 ]  asx@lengthOf( calculatedFrom 
)	`// not a comment`
	,	//

	repeat  zchar[

    1 ]  // a // b
  As 
, 
chars

    `two words`

    ,
@calculatedFrom(
""1""
    )  @tag(
	// `tick` ""quote"" 'q'
  0123456789
)

    @leftPad 
('0'
)repeat char[] BodyLength  `tab	here`
    , }
MetaData  u128 	 // packet A { u8 x, }
	{
	u16 
i64_ , float32
asx //
	`two words`, 	 //
	i64

    leftPad	,

    zchar[  00// `tick` ""quote"" 'q'
  ]
_x
, //

}
	MetaData chars 
        //

{
	Foo crc
	`say ""hi""`

, uint8
    u`two words`

    , 	 // " ++ [128512]%N ++ runes_of_ascii " emoji
f32
pack	`crlf
line`

,
	string _x
`" ++ [233]%N ++ runes_of_ascii "`
	, }
packet

    x_y_z { }	options{	calculatedFrom
=
	""CRC32""
    crc
=	uint16
    ;
	u

=
false  Foo

=
char 
}  // " ++ [128512]%N ++ runes_of_ascii " emoji
")).
Eval vm_compute in ("<<<M1739>>>" ++ check (runes_of_ascii "
options
	{ FixedStringPadFromLeft = true ;

    FixedStringPadChar  = 
'0';}
packet Leg 
{
	InPrice0{repeat
	string	clOrdID 
, 
int16
    msgKind

, 
zchar[5] Px, } ,i16

f1  ,  repeat

    f64	Side2
,
string
Acct
    ,
}  packet
Cancel
{

    zchar[4] clOrdID, 
string
    seqNo  ,Leg,

@leftPad	(
'0') char[
11 
] OrderId ,  }  packet
Quote  {
    repeat
    char[

4]	sym, 
f64

OrderId

,repeat
Leg
    ,
repeat i64

f1  , 
int16
	Note
    ,

zchar[ 
3
]	count, } root packet
    Ack
	{
@leftPad
( ' '  )
char[
    10
] sym  ,  InPx60 { 
Cancel 
,

    repeat  char[ 1 ]	f1
,
string Tail

    ,

repeat InNote55 { int8
	count , f64
	f1
,  repeat

    Cancel	,
}

    , 
char[] 
tag7 ,
repeat  string  msgKind, }
	,u8
	lastPx
,
	match lastPx  as Body{

152: Quote,
	173
: Cancel,
4
	:

    Leg

,

} , u16  Ref
@calculatedFrom(	""CRC32""
)

,
}
")).
Eval vm_compute in ("<<<M1448>>>" ++ check (runes_of_ascii "packet leftPad {
    //
    i8 stringy @calculatedFrom(""" ++ [128512]%N ++ runes_of_ascii """),
    int @calculatedFrom(""a	b"") `it's`,
    @leftPad()
    @tag(0123456789)
    int32 u8x,
    @lengthOf(A)
    float64 u128 @calculatedFrom(""a\\""),//x
}

options {
    //x
    Pad = 0
    u = ' '
}

MetaData a1 {
    char[] metadata `// not a comment`,
}

packet Foo {
    @tag(42)
    repeat BodyLength,
    int8 metadata `{ , }`,
    @leftPad()
    // " ++ [27880; 37322]%N ++ runes_of_ascii "
    @calculatedFrom(""`tick`"")
    @calculatedFrom(""a	b"")
    u32 stringy,
    @lengthOf(roots)
    zchar[0] msg_type @lengthOf(i64_) `tab	here`,
    i8 Header `{ , }`,
    char[7] trueish @lengthOf(packetx),
    u64 charz `
        `,
    zchar[65535] repeatCount `it's`,
    match calculatedFrom as calculatedFrom {
        ""a	b"" : roots,
        42 : MetaDataX,
    },
}")).
Eval vm_compute in ("<<<M1407>>>" ++ check (runes_of_ascii "
packet	// packet A { u8 x, }
	u8x

{

}  root packet 
matchKey
    {

repeat
zchar[	0123456789]  // packet A { u8 x, }
	int
    ,

char[
	// `tick` ""quote"" 'q'
  // a // b
	4294967296
]
    asx`{ , }` , 
repeat
    i8i8 
,repeat

    Packet
	{	repeat	leftPad {f32
    u128@lengthOf(
    As ),
body
`two words`, // packet A { u8 x, }
rootA

    Pad ,
}  ,
char[
    00
] msg_type 
`tab	here` // " ++ [128512]%N ++ runes_of_ascii " emoji
  	,
repeat
//x
  	i64_
    `doc`
    ,
zchar x_y_z,}  ,

    } 
root 
packet int{ repeat
    f32a {repeat	f32a

    asx

    `u8 x,`
	, } ,
	@lengthOf(
	// @lengthOf(

  //	t

msg_type // packet A { u8 x, }
      )
body
    , 
      // c
//

Z9_ // c
    zchar	`a\`//x
  , }  //x
")).
Eval vm_compute in ("<<<M164>>>" ++ check (runes_of_ascii "//x
packet x { @lengthOf(
string_ )
// `tick` ""quote"" 'q'
// trailing space 
msg_type{
int // a // b
@lengthOf( chars
    )
//x
// " ++ [27880; 37322]%N ++ runes_of_ascii "
`" ++ [28040; 24687; 31867; 22411]%N ++ runes_of_ascii "` , int`a\`  , }
    ,uint32 chars  @calculatedFrom(
""`tick`""
    )
    `
` , @lengthOf( packetx // trailing space 
)
match
    metadata as x_y_z
{ 65535	: x ,007
// `tick` ""quote"" 'q'
// " ++ [128512]%N ++ runes_of_ascii " emoji
: u [ 7 ,
""// no comment""	,  """ ++ [28040; 24687]%N ++ runes_of_ascii """] :x ""a\\""
: MetaDataX,0123456789 : lengthOf
10 :
//
// `tick` ""quote"" 'q'
float  }
    ,
    u16 Logon@calculatedFrom(""x y"") `tab	here`
//	t
//
,@lengthOf(Foo ) zchar /// triple
, }  packet
    tag { } root packet
x_y_z{ } MetaData int {
    string
A `" ++ [233]%N ++ runes_of_ascii "` ,
}
")).
Eval vm_compute in ("<<<M1239>>>" ++ check (runes_of_ascii "// top
options // c0
{ // c1a
  // c1b
zchar // c2
= // c3a
  // c3b
true // c4
; Pad // c6a
  // c6b
=
    // c7
char[ 00 // c9a
  // c9b
]
    // c10
a1 = // c12a
  // c12b
uint32 // c13a
  // c13b
BodyLength = true // c16a
  // c16b
;
    // c17
} root // c19
packet // c20
T // c21a
  // c21b
{
    // c22
@lengthOf( // c23a
  // c23b
repeatCount ) @tag( // c26a
  // c26b
1
    // c27
) // c28a
  // c28b
@calculatedFrom( // c29
""a	b"" // c30a
  // c30b
) // c31a
  // c31b
string // c32
stringy @calculatedFrom( ""\n"" ) // c36
`u8 x,` // c37a
  // c37b
, // c38
} // c39
")).
Eval vm_compute in ("<<<M1348>>>" ++ check (runes_of_ascii "  options
{ ArrayPrefixLenType = u64
    ; FixedStringPadFromLeft = true
    ;

    FixedStringPadChar 
=	'0'
	;
}
packet Quote
    {}

packet
Ack	{ repeat
	InNote66
    {
u8
pad0 ,}
, }packet
    Reject

    {
	}

    root packet
    Order
	{	Quote

, repeat	Reject ,

string

venue,
string
seqNo,uint32	Ref
	, 
u16
lastPx
, 
u32 clOrdID
@lengthOf(Body)

,

    match 
lastPx as

    Body { 
190 
:
Reject ,
    186

: Quote,  22:
Ack

,
    }
,u16  Flags @calculatedFrom(  ""CRC32""

    ),	}")).
Eval vm_compute in ("<<<M33>>>" ++ check (runes_of_ascii "packet
int {zchar[ 007 ] metadata ,i16	matchKey,
@rightPad('0')
@lengthOf(
    metadata) repeat zchar[
    10 ]
//
// " ++ [128512]%N ++ runes_of_ascii " emoji
charz
    // trailing space 
    ,	} packet int { @tag( 65535 )
u32 x @calculatedFrom(
    ""x y""// " ++ [27880; 37322]%N ++ runes_of_ascii "
),match pack as MetaDataX
{
    [	""abc"" ,
    // " ++ [27880; 37322]%N ++ runes_of_ascii "
    0123456789 , ""`tick`"" ] :
body}	, @lengthOf( zchar ) match leftPad as u8x{
    10:  u8x ,
[
007
    // " ++ [128512]%N ++ runes_of_ascii " emoji
    , 255
    ]
    :
    chars	"""" :
    body ,42 : trueish , }, }")).
Eval vm_compute in ("<<<M1140>>>" ++ check (runes_of_ascii "// top
MetaData
    // c0
leftPad // c1
{
    // c2
chars // c3a
  // c3b
MetaDataX // c4
, // c5a
  // c5b
} packet // c7a
  // c7b
repeatCount // c8
{ char[
    // c10
255 // c11a
  // c11b
] // c12a
  // c12b
uint8x
    // c13
`" ++ [233]%N ++ runes_of_ascii "` // c14a
  // c14b
,
    // c15
} // c16a
  // c16b
MetaData // c17a
  // c17b
pack // c18
{ // c19a
  // c19b
As // c20a
  // c20b
Foo
    // c21
,
    // c22
} // c23a
  // c23b
")).
Eval vm_compute in ("<<<M1515>>>" ++ check (runes_of_ascii "packet	a1

{ char[]
    charz @calculatedFrom( 
    //x
	""" ++ [28040; 24687]%N ++ runes_of_ascii """

    )
    , uint8x`crlf
line`

, uint64
	T
	`line1
line2`,  @leftPad
	(
'0'
    ) 

    // a // b
/// triple
    @calculatedFrom(""abc""
	)@tag(3
)match	int// a // b

as
len
{
0
: chars  ,
[

10 , 
""a\\"" , 1	,
0
,10 , 0
	] :

body, 007 :
// a // b
  rootA 	 // a // b
  ,},
falsey
options1,}
")).
Eval vm_compute in ("<<<M30>>>" ++ check (runes_of_ascii "packet
repeatCount
    {@calculatedFrom(	""abc"" ) zchar[
    // @lengthOf(
    0
] // `tick` ""quote"" 'q'
MetaDataX  `
`	, string_
@calculatedFrom( ""1""
    ) ,	match string_
    as msg_type{ [// a // b
65535	,// a // b
""a	b""
    , 7
    ,	255 ]:
matchKey , 10 :
    options1 , 3 :Logon
    , } ,
    // " ++ [27880; 37322]%N ++ runes_of_ascii "
    packetx `a\` ,}
")).
Eval vm_compute in ("<<<M321>>>" ++ check (runes_of_ascii "
options
{ a1 = '\x00'
As
= ""{,}"" u8x
=//x
""a	b""
    ; asx
    = u64;
o
// @lengthOf(
// c
=0123456789 } packet Header
{
    //
    @lengthOf(x // trailing space 
)
    // " ++ [27880; 37322]%N ++ runes_of_ascii "
    repeat
falsey { repeatCount
    trueish
`u8 x,` , } ,
// `tick` ""quote"" 'q'
// " ++ [128512]%N ++ runes_of_ascii " emoji
zchar[
65535 ] x
    ,
}")).
Eval vm_compute in ("<<<M1320>>>" ++ check (runes_of_ascii "packet P1 {
    u8 a,
}
packet P2 {
    P1,
}
packet P3 {
    P2,
    P1,
}
packet P4 {
    repeat P3,
    P2,
}
root packet P5 {
    P4,
    P3,
    P1,
    u8 K,
    match K as Body {
        4 : P4,
        3 : P3,
        2 : P2,
        1 : P1,
    },
}
")).
Eval vm_compute in ("<<<M1845>>>" ++ check (runes_of_ascii "// top
MetaData uint8x {
    // c2
    char[] f32a `// not a comment`,
    // c6
    float32 roots,
    // c9
    char[7] u8x,
    // c14
    zchar[10] f32a,
    // c19
    u64 pack,
    // c22
    u16 pack,
    // c25
}
// c26")).
Eval vm_compute in ("<<<M207>>>" ++ check (runes_of_ascii "
MetaData chars { } options
{ As
= true ;As // `tick` ""quote"" 'q'
= false; stringy
= true} packet repeatCount  {string
    float@lengthOf(
    matchKey )
// packet A { u8 x, }
//x
`say ""hi""` ,
}
")).
Eval vm_compute in ("<<<M62>>>" ++ check (runes_of_ascii "packet
crc { @leftPad //	t
( ) repeat
charz float
    ,} root packet
options1 {
@tag( 65535/// triple
)packetx
{ u128 , f32 /// triple
a1 ,
    } , }
// trailing space 
")).
Eval vm_compute in ("<<<M421>>>" ++ check (runes_of_ascii "packet uint8x
{ match pack
    as msg_type msg_type	{
    0123456789 :	float
}
,
} packet //	t
a1
    { } options {packetx
    = '\x00'	; u128= ""a	b""  ; }
")).
Eval vm_compute in ("<<<M1639>>>" ++ check (runes_of_ascii "

  packet uint8x{  match  pack as

    msg_type{ 
0123456789
: float }
	,
    }
packet	//	t
a1
{} options  {packetx

=
	char;
u128
	=""a	b""
    ; 
}
")).
Eval vm_compute in ("<<<M542>>>" ++ check (runes_of_ascii "$ packet uint8x
{ match pack
    as msg_type	{
    0123456789 :	float
}
,
} packet //	t
a1
    { } options {packetx
    = '\x00'	; u128= ""a	b""  ; }
")).
Eval vm_compute in ("<<<M442>>>" ++ check (runes_of_ascii "packet uint8x
{ match pack
    as msg_type	{
    0123456789 :	}
float
,
} packet //	t
a1
    { } options {packetx
    = '\x00'	; u128= ""a	b""  ; }
")).
Eval vm_compute in ("<<<M470>>>" ++ check (runes_of_ascii "packet uint8x
{ match pack
    as msg_type	{
    0123456789 :	float
}
,
} packet //	t
a1
     } options {packetx
    = '\x00'	; u128= ""a	b""  ; }
")).
Eval vm_compute in ("<<<M667>>>" ++ check (runes_of_ascii "// @lengthOf(
packet i8i8 { u128 o char }
options { MetaDataX = true;
    BodyLength =""packet"" x_y_z= 007
crc //x
= ""abc"" ;
    msg_type =
i16 }")).
Eval vm_compute in ("<<<M718>>>" ++ check (runes_of_ascii "// @lengthOf(
packet i8i8 { u128 o , }
options { MetaDataX = true;
    BodyLength =""packet"" x_y_z= 007
crc //x
= ""abc"" ;
    msg_type as
i16 }")).
Eval vm_compute in ("<<<M710>>>" ++ check (runes_of_ascii "// @lengthOf(
packet i8i8 { u128 o , }
options { MetaDataX = true;
    BodyLength =""packet"" x_y_z= 007
crc //x
= ""abc"" ;
    msg_type 
i16 }")).
Eval vm_compute in ("<<<M1500>>>" ++ check (runes_of_ascii "packet A {
    match k as n {
        [
            1, ""bb"", 007, ""d"", 5,
            ""f"", 7, ""h""
        ] : B,
        2 : C,
    },
}")).
Eval vm_compute in ("<<<M1814>>>" ++ check (runes_of_ascii "  packet B
{ u8
a,

    }
root
	packet
P  { u8
	K, 
u8 L

    @lengthOf(
Body

    )
,
	match  K	as

Body	{1 : B
	, }, }
")).
Eval vm_compute in ("<<<M1572>>>" ++ check (runes_of_ascii "packet A {
    u16 len @lengthOf(body) `x
        `,
    u32 crc @calculatedFrom(""CRC32"") `x
        `,
    string body,
}")).
Eval vm_compute in ("<<<M1156>>>" ++ check (runes_of_ascii "MetaData leftPad { chars MetaDataX , }
// c
packet repeatCount { char[ 255 ] uint8x `" ++ [233]%N ++ runes_of_ascii "` , } MetaData pack { As Foo , }")).
Eval vm_compute in ("<<<M1188>>>" ++ check (runes_of_ascii "MetaData leftPad { chars MetaDataX , } packet repeatCount { char[ 255 ] uint8x `" ++ [233]%N ++ runes_of_ascii "` , } MetaData pack { As Foo ,
// c
}")).
Eval vm_compute in ("<<<M1844>>>" ++ check (runes_of_ascii "  packet A  {

    match k
as
n {
[ 1 
,

""bb""	,007
	,

""d"" ,
    5,""f"",

    7
]: B  2:
C
}

    ,

} ")).
Eval vm_compute in ("<<<M142>>>" ++ check (runes_of_ascii "packet
len
    // " ++ [128512]%N ++ runes_of_ascii " emoji
    { int64 a1	@lengthOf(x_y_z )	, }
// c
// trailing space 
packet x_y_z { }

")).
Eval vm_compute in ("<<<M896>>>" ++ check (runes_of_ascii "packet A {
  match k as n {
    [1, ""bb"", 007, ""d"", 5, ""f"", 7, ""h"", 9, ""j"", 11] : B
    2 : C
  },
}")).
Eval vm_compute in ("<<<M905>>>" ++ check (runes_of_ascii "packet A {
  match k as n {
    [1, 22, 007, 4, 5, 66, 7, 8, 9, 10, 11, 12] : B
    2 : C
  },
}")).
Eval vm_compute in ("<<<M580>>>" ++ check (runes_of_ascii "
packet
    asx {match u128 char[ lengthOf
{
//	t
// `tick` ""quote"" 'q'
255 : x ,
    } ,	}")).
Eval vm_compute in ("<<<M636>>>" ++ check (runes_of_ascii "
packet
    asx {match u128 as lengthOf
{
//	t
// `ti/ck` ""quote"" 'q'
255 : x ,
    } ,	}")).
Eval vm_compute in ("<<<M575>>>" ++ check (runes_of_ascii "
packet
    asx {match u64 as lengthOf
{
//	t
// `tick` ""quote"" 'q'
255 : x ,
    } ,	}")).
Eval vm_compute in ("<<<M572>>>" ++ check (runes_of_ascii "
packet
    asx {match  as lengthOf
{
//	t
// `tick` ""quote"" 'q'
255 : x ,
    } ,	}")).
Eval vm_compute in ("<<<M847>>>" ++ check (runes_of_ascii "packet A {
  match k as n {
    [1, 22, ""c c"", 4, 5, ""f"", 7] : B,
    2 : C
  },
}")).
Eval vm_compute in ("<<<M1591>>>" ++ check (runes_of_ascii "packet A {
    match k as n {
        [""a"", ""bb""] : B,
        2 : C,
    },
}")).
Eval vm_compute in ("<<<M67>>>" ++ check (runes_of_ascii "options { charz =""1"" _x= """ ++ [128512]%N ++ runes_of_ascii """ u = string ; stringy=
""" ++ [28040; 24687]%N ++ runes_of_ascii """ }
// @lengthOf(
")).
Eval vm_compute in ("<<<M1796>>>" ++ check (runes_of_ascii "packet A {
    match k as n {
        [1] : B,
        2 : C,
    },
}")).
Eval vm_compute in ("<<<M780>>>" ++ check (runes_of_ascii "packet A {
  match k as n {
    [""a"", ""bb""] : B,
    2 : C
  },
}")).
Eval vm_compute in ("<<<M439>>>" ++ check (runes_of_ascii "packet uint8x
{ match pack
    as msg_type	{
    0123456789")).
Eval vm_compute in ("<<<M774>>>" ++ check (runes_of_ascii "packet A {
  match k as n {
    [1] : B
    2 : C
  },
}")).
Eval vm_compute in ("<<<M1201>>>" ++ check (runes_of_ascii "packet body // c
{ i32 f32a `{ , }` , } options { }")).
Eval vm_compute in ("<<<M1482>>>" ++ check (runes_of_ascii "
packet
A
{	u8
    x  `d" ++ [12288]%N ++ runes_of_ascii "`

    , 	 // c" ++ [12288]%N ++ runes_of_ascii "
  }
")).
Eval vm_compute in ("<<<M968>>>" ++ check (runes_of_ascii "options {
    a = ""x\
y"";
    b = ""x\
y""
}")).
Eval vm_compute in ("<<<M591>>>" ++ check (runes_of_ascii "
packet
    asx {match u128 as lengthOf")).
Eval vm_compute in ("<<<M132>>>" ++ check (runes_of_ascii "options
    { Foo = 0123456789
; }")).
Eval vm_compute in ("<<<M1543>>>" ++ check (runes_of_ascii "root packet P {
    string s,
}")).
Eval vm_compute in ("<<<M923>>>" ++ check (runes_of_ascii "packet A {
    u8 x `a
b`,
}")).
Eval vm_compute in ("<<<M1898>>>" ++ check (runes_of_ascii "MetaData tag {
    // c
}")).
Eval vm_compute in ("<<<M1106>>>" ++ check (runes_of_ascii "MetaData
// c
tag { }")).
Eval vm_compute in ("<<<M1132>>>" ++ check (runes_of_ascii "MetaData u // c
{ }")).
Eval vm_compute in ("<<<M1026>>>" ++ check (runes_of_ascii "packet A {
}
// c" ++ [8287]%N)).
Eval vm_compute in ("<<<M1009>>>" ++ check (runes_of_ascii "packet A {
}// c" ++ [8232]%N)).
Eval vm_compute in ("<<<M761>>>" ++ check (runes_of_ascii "{];z" ++ [65533]%N ++ runes_of_ascii """t" ++ [65533; 65533; 65533]%N ++ runes_of_ascii "XKU" ++ [65533; 2]%N)).
Eval vm_compute in ("<<<M29>>>" ++ check (runes_of_ascii "// " ++ [27880; 37322]%N ++ runes_of_ascii "

")).
Eval vm_compute in ("<<<M1808>>>" ++ check (runes_of_ascii "
//
")).
