From FP Require Import Lexer Parser ShowPT Digest Formatter.
From Coq Require Import String List NArith.
Import ListNotations.
Open Scope string_scope.
Set Printing Width 100000000.
Set Printing Depth 100000000.
Definition show_fres (r : fres) : string :=
  match r with
  | FOk s => "OK:" ++ sh_escaped s ""
  | FErr s => "ERR:" ++ sh_escaped s ""
  | FPanic p => "PANIC:" ++ p
  end.
Definition check (rs : list rune) : string := digest (show_fres (format_res rs)).
Definition full (rs : list rune) : string := show_fres (format_res rs).
Eval vm_compute in ("<<<M1875>>>" ++ check (runes_of_ascii "  // @lengthOf(
    MetaData BodyLength
{
u8x u128

`a\` , }
packet
	// c
	  stringy {
	}
packet// " ++ [128512]%N ++ runes_of_ascii " emoji

	a1
	{
i8

    f32a

`
`

    , 
repeat
i64
    len

, @calculatedFrom(

    ""\" ++ [233]%N ++ runes_of_ascii """
)
string
    leftPad
	`line1
line2` ,	match
	a1
as 
float {

[  007 ,3 ] :  repeatCount 
, 3/// triple

:
	MetaDataX  ""CRC32""
    /// triple

: 
u128 

// trailing space 
	,
	[
""a\""b""
    ,

""// no comment""
] : roots
    ,  ""\" ++ [233]%N ++ runes_of_ascii """ : 	 // c
    	A

    }	// packet A { u8 x, }
	,
zchar[

42

    ] Pad ,/// triple
	@calculatedFrom(
""" ++ [233]%N ++ runes_of_ascii "t" ++ [233]%N ++ runes_of_ascii """ )	// `tick` ""quote"" 'q'
	  match
chars  as // trailing space 
      string_ { 3
	:

    options1 
,  } 
,uint32
	packetx ``  ,
	@tag(  // 50% %s

42  )

@tag( 1

    )  /// triple
  @calculatedFrom(

    """ ++ [128512]%N ++ runes_of_ascii """)_x

    `// not a comment` 
,
	} root

packet
repeatCount	{
	@leftPad
( ) char[

0 ]
x_y_z
	@calculatedFrom(

""1"" 	 //x
	),@rightPad( )

    char[]
int,
f64	// c
asx,	repeat

    Pad ,match i64_

as 
roots {[ ""1"",

""packet""

] 
/// triple
	:
a1
,	""`tick`""
	: 
	    // c
  trueish 
,
[	3

, ""\n""	// `tick` ""quote"" 'q'
  , ""`tick`"" , 
""it's"" , 
10 
,  ""a\""b"" // a // b
  ,
""CRC32""  // a // b

  ]
        //	t
    :

As ,

    [
10,	10

    ]
    :

    options1
,
	""CRC32""	:
a1
,
65535
:

u ,  // c
  }
,@calculatedFrom(
	""x y""
	) @tag(
    255
	)
    @tag(	1 )  // c
	zchar[
1

] 
crc  // " ++ [27880; 37322]%N ++ runes_of_ascii "
`
`

    , 
repeat	u16 tag	`crlf
line`

    ,	@leftPad (' '

    )

    roots
@calculatedFrom(  
      //	t
	""""
)
,

    }

")).
Eval vm_compute in ("<<<M1626>>>" ++ check (runes_of_ascii "

  // top
  packet  
      // c0
	  NewOrder{
// c2
    u32	// c3
qty
	, 
  // c5
    	}packet 
      // c7

Cancel 
{
	u64  // c10a

// c10b
id  // c11
		,  // c12a
// c12b

  }
packet 	 // c14a
  // c14b
	  Business// c15

  {	// c16

u8
	Kind // c18
	,match // c20
  Kind 	 // c21a

	// c21b
	as Detail 
// c23

{ 1 	 // c25
	:

    NewOrder

// c27
	  , // c28a
    // c28b
	2

: 
// c30
	Cancel  // c31a
  // c31b
    	,
	} 
// c33

, 	 // c34
    }	packet// c36
  TcpFrame // c37a
  // c37b
  {// c38

	u8 // c39a
// c39b
T 	 // c40
	, 	 // c41
  match 	 // c42
T

as
	    // c44

  Body 
    // c45
    { 1
:	// c48a
	  // c48b
	Business
,
}	// c51a

	// c51b
,  // c52a

// c52b

  }  // c53
  packet // c54

  UdpFrame {  
  // c56
	u8 	 // c57
U
    // c58
	, 	 // c59

  match  // c60a
// c60b
U  as	// c62
    Body 	 // c63a
  // c63b
{ 

// c64
	1:// c66
Business

    , // c68a
  // c68b
    }// c69
  , 
    // c70
    Business 
      // c71
  extra

// c72
	, 
}	root  // c75a
// c75b
    packet// c76a

  // c76b
Wire 
    // c77

{ 	 // c78
		TcpFrame 

// c79
,// c80a
  // c80b
	UdpFrame	// c81a
  // c81b
  , 	 // c82

}  // c83")).
Eval vm_compute in ("<<<M76>>>" ++ check (runes_of_ascii "packet rootA{
@lengthOf( a1 ) f32a
@lengthOf( Header )
    `// not a comment` ,match  T as
    i64_
{42: // packet A { u8 x, }
string_,	}, match// trailing space 
stringy
as Header {[	65535]: msg_type , ""it's""	:u
// " ++ [128512]%N ++ runes_of_ascii " emoji
// " ++ [27880; 37322]%N ++ runes_of_ascii "
,
    ""\n""
: lengthOf // `tick` ""quote"" 'q'
} , @tag(
    42 )
    repeat
zchar f32a `u8 x,` ,@tag( 255
) //
repeat //	t
Pad {  x T
,
}
    , @calculatedFrom(  ""{,}""
    /// triple
    )
repeat leftPad
    {
    //	t
    u64 u8x `" ++ [28040; 24687; 31867; 22411]%N ++ runes_of_ascii "`
,len @calculatedFrom(""\" ++ [233]%N ++ runes_of_ascii """ )
    , zchar[	4294967296 ] // " ++ [27880; 37322]%N ++ runes_of_ascii "
falsey,}
    , @tag(
    7
)match i8i8 as
    pack{ 3	: string_ 0123456789
:packetx
,[42 ] : tag ,""\n"" : a1 , [ 0123456789	,
    1 ]	:
    x_y_z 0:
float }
    ,  repeat
u128 As , }	options { packetx=
    """ ++ [128512]%N ++ runes_of_ascii """; msg_type = ' '
; Packet// 50% %s
=10;
    }
    // a // b
    packet Pad//
{
    // " ++ [27880; 37322]%N ++ runes_of_ascii "
    char[] pack ,	repeat float32
falsey  ,char[42
]	Z9_ , Logon  @lengthOf( i8i8
)
    `
`	,
tag{	x , i32 float @lengthOf( crc
    ) , } , }
")).
Eval vm_compute in ("<<<M1958>>>" ++ check (runes_of_ascii "
MetaData 
BodyLength

    {
}packet

x_y_z {	@lengthOf(
	roots
    )

A{ // " ++ [128512]%N ++ runes_of_ascii " emoji
	repeat	zchar[0123456789]
Z9_ `a\`

,
    }	, }
options 	 // packet A { u8 x, }
{
Pad
=	""x y""
;	// trailing space 

trueish  = 
true

    body
	=	3
; 
matchKey

=
true //x
  ;
    i64_	=
	char[]
;
} packet
	Packet	{

    char[] 
  // " ++ [128512]%N ++ runes_of_ascii " emoji
  // `tick` ""quote"" 'q'

  float

    @calculatedFrom(""`tick`"") ,

char[] charz @calculatedFrom(""abc"")  ,
    match As

    as 
	// packet A { u8 x, }
      asx// @lengthOf(
    {

    [
    """ ++ [28040; 24687]%N ++ runes_of_ascii """
, ""`tick`""
,
""{,}""
,
	""{,}""	, ""a	b""

    // " ++ [27880; 37322]%N ++ runes_of_ascii "

,
1 ,
""\" ++ [233]%N ++ runes_of_ascii """ 
]	:

rootA
, 255  :asx

42 
:
a1

    ,42 :x_y_z""""
    :msg_type ,
    7 
:
    f32a, }, @leftPad 
( '0' ) repeatCount crc
    `// not a comment`,
	@lengthOf(
    MetaDataX 
) 
float64 falsey@calculatedFrom(
	""\" ++ [233]%N ++ runes_of_ascii """

) 
`" ++ [233]%N ++ runes_of_ascii "`
,

    }
")).
Eval vm_compute in ("<<<M242>>>" ++ check (runes_of_ascii "/// triple
packet
    falsey
{ } packet Logon { @tag( // @lengthOf(
1 ) // c
body a1 ,repeat BodyLength,repeat Foo
    { match
rootA as x { [3 ]
    :
    //
    i8i8 }
    , match charz as // a // b
charz {007	: Packet , [ ""// no comment"" ] // trailing space 
:/// triple
A
    ,
    [ 10 ]
: float
,
[ ""`tick`"" , 10 ]
:
    int
,  } ,
    }
    ,// " ++ [27880; 37322]%N ++ runes_of_ascii "
repeat u8x , asx{int32 Packet
    @calculatedFrom(
// 50% %s
// a // b
""// no comment""),},
    @lengthOf( leftPad ) int8 float
//
// @lengthOf(
@calculatedFrom( ""CRC32"" ), lengthOf// packet A { u8 x, }
{ char[65535] string_ @calculatedFrom( """") // a // b
,} ,len @calculatedFrom( """ ++ [233]%N ++ runes_of_ascii "t" ++ [233]%N ++ runes_of_ascii """	),	@lengthOf( As)
char[ 1 ]
BodyLength// " ++ [27880; 37322]%N ++ runes_of_ascii "
,
    } // a // b")).
Eval vm_compute in ("<<<M70>>>" ++ check (runes_of_ascii "packet  u128
{
    string a1 ,x ,
    @calculatedFrom( ""\n""
)
    @tag( 0 ) @tag(42 ) i8 Packet @calculatedFrom( ""a	b"" // @lengthOf(
) `a\`	, @calculatedFrom(
    ""\n""// @lengthOf(
)
repeat string uint8x `{ , }` , char[] string_ , } packet repeatCount {  @leftPad ( '\x00'
) o @calculatedFrom(""abc"" ) `u8 x,` ,  char[ 1]
    repeatCount	,
    char[] x , @tag( 007
)
    repeat i16
u8x `a\`, @lengthOf( u ) repeat uint16 u128 , repeat uint8 repeatCount ,repeat stringy {char[ 10 ] options1,int `doc`
,}
, } MetaData BodyLength {i64 // " ++ [27880; 37322]%N ++ runes_of_ascii "
x_y_z
    `" ++ [233]%N ++ runes_of_ascii "`,u64 x `
`
, asx asx,char[ 3
    ]
leftPad , }
MetaData zchar //	t
{}
")).
Eval vm_compute in ("<<<M1611>>>" ++ check (runes_of_ascii "

  packet  // c

_x

    {	calculatedFrom  @lengthOf( 
roots
)

    `it's` ,	match metadata
	as
	BodyLength 
{ [
    10	,	10
,
""a\""b"" 
,
    """"	//	t
  	,
""\n""
,  // @lengthOf(
  ""a\\""
    ,

4294967296 ] 
:	u
	,
    }	,
repeat // trailing space 
    i64_ Packet// " ++ [128512]%N ++ runes_of_ascii " emoji

	`{ , }`  // " ++ [27880; 37322]%N ++ runes_of_ascii "
	, // packet A { u8 x, }
  @tag( 
65535 )
    char[] float
    `crlf
line`

,

    char[	7  ] 
	/// triple
	  x

@calculatedFrom( 
""{,}"" )  
  /// triple
  // a // b
	, @leftPad
	(
	)u64
stringy 

    // c
	@calculatedFrom(

""\" ++ [233]%N ++ runes_of_ascii """ ),}
packet
A

{  }

")).
Eval vm_compute in ("<<<M354>>>" ++ check (runes_of_ascii "MetaData o { charz calculatedFrom`
` // a // b
, float64 rootA , } packet A
{  asx
    @lengthOf(
packetx
)
`u8 x,` , @lengthOf(
packetx
    ) a1 {  int32 matchKey @lengthOf( asx ) `" ++ [28040; 24687; 31867; 22411]%N ++ runes_of_ascii "` , Header `{ , }` ,	repeat f64 falsey `100% of %d`// 50% %s
,
}  ,
repeat
    u32// `tick` ""quote"" 'q'
lengthOf , u64 Z9_ ,
    /// triple
    @lengthOf( _x ) packetx{_x , /// triple
}
// " ++ [27880; 37322]%N ++ runes_of_ascii "
//	t
, zchar[ 1]
a1 @lengthOf( chars
)	,	u64	crc	`100% of %d` , char[65535 ]
    chars
, }
    root packet int { }

")).
Eval vm_compute in ("<<<M360>>>" ++ check (runes_of_ascii "root packet
    MetaDataX
    { u16 Logon@lengthOf( body
), match
lengthOf as As {
    // " ++ [128512]%N ++ runes_of_ascii " emoji
    7 :As	42 :
rootA
    , 0123456789 : repeatCount
    ,
""abc"":Packet ,
""1"": trueish ""a	b"" :
//x
// " ++ [128512]%N ++ runes_of_ascii " emoji
leftPad  ,	}	, match x as A// 50% %s
{ ""`tick`"" : trueish ,}
, uint32 u8x`tab	here`	, tag @calculatedFrom(
    """ ++ [28040; 24687]%N ++ runes_of_ascii """
    ),
repeat body//	t
repeatCount ,
@calculatedFrom(""x y"")  asx @calculatedFrom( // `tick` ""quote"" 'q'
""a\""b""
    ) , }")).
Eval vm_compute in ("<<<M1376>>>" ++ check (runes_of_ascii "options {
    ArrayPrefixLenType = u64;
    FixedStringPadFromLeft = true;
    FixedStringPadChar = '0';
}
packet Order {
}
root packet Leg {
    char[] Ref,
    repeat Order,
    f32 Acct,
    @leftPad('0') char[10] venue,
    @rightPad('0') char[3] seqNo,
    repeat u64 Px,
    u8 Flags,
    u32 lastPx @lengthOf(Body),
    match Flags as Body {
        185 : Order,
    },
    u16 sym @calculatedFrom(""CRC32""),
}
")).
Eval vm_compute in ("<<<M1573>>>" ++ check (runes_of_ascii "MetaData body {
    //x
    asx As,
    Foo calculatedFrom ``,
    packetx pack `{ , }`,// packet A { u8 x, }
    u8x falsey `say ""hi""`,
    float32 float `line1
    line2`,
    char[] u `it's`,
}

packet asx {
    uint32 pack @calculatedFrom(""CRC32"") `line1
    line2`,
    char[65535] roots,
    Z9_ zchar,
    repeat uint64 float `line1
    line2`,
}

root packet options1 {
}")).
Eval vm_compute in ("<<<M1470>>>" ++ check (runes_of_ascii "root packet u128 {
    a1 @calculatedFrom(""a\""b""),
}

root packet pack {
    BodyLength @calculatedFrom(""{,}"") `// not a comment`,//x
    uint8x,
    i64 rootA,
    @lengthOf(BodyLength)
    string zchar,// " ++ [128512]%N ++ runes_of_ascii " emoji
}

packet _x {
    @tag(7)
    match trueish as packetx {
        10 : Header,
        7 : trueish,
        ""a\""b"" : pack,
    },
}")).
Eval vm_compute in ("<<<M1858>>>" ++ check (runes_of_ascii "packet leftPad {
    @tag(10)
    @tag(007)
    @lengthOf(a1)
    repeat metadata,
}

options {
    // " ++ [128512]%N ++ runes_of_ascii " emoji
    lengthOf = """ ++ [128512]%N ++ runes_of_ascii """;
}

packet T {
    A {
        tag @calculatedFrom(""abc""),
    },
    @lengthOf(matchKey)
    string Header @lengthOf(metadata),
    leftPad @calculatedFrom(""a\""b"") `tab	here`,
}")).
Eval vm_compute in ("<<<M1405>>>" ++ check (runes_of_ascii "options {
    LittleEndian = true;
}

packet Sub {
    u8 a,
    @calculatedFrom(""CRC16"")
    u64 SubSum,
}

root packet Frame {
    u16 MsgType,
    u16 BodyLen @lengthOf(Body),
    Sub Body,
    string note,
    @calculatedFrom(""CRC16"")
    u64 Checksum,
    u8 tail,
}")).
Eval vm_compute in ("<<<M308>>>" ++ check (runes_of_ascii "MetaData packetx
    { zchar[ 255 ]	u128`" ++ [233]%N ++ runes_of_ascii "` ,  } packet Pad {
repeat crc ,
zchar[
10 ]  calculatedFrom `{ , }`
,}packet _x
    {@lengthOf(
roots )match Header
as metadata
    // " ++ [27880; 37322]%N ++ runes_of_ascii "
    {  [ 10
    ]	:pack } , char[
255 ] // 50% %s
Logon
, } // a // b")).
Eval vm_compute in ("<<<M392>>>" ++ check (runes_of_ascii "packet
    asx asx { @calculatedFrom(
""""  ) @tag( 255 )repeat
// packet A { u8 x, }
// trailing space 
int16 u8x
,
@tag(
    //
    007 )
    @tag( 0
    /// triple
    ) @tag( 1) u
    @lengthOf( T ),
// `tick` ""quote"" 'q'
//x
} // " ++ [128512]%N ++ runes_of_ascii " emoji")).
Eval vm_compute in ("<<<M484>>>" ++ check (runes_of_ascii "packet
    asx { @calculatedFrom(
""""  ) @tag( 255 )repeat
// packet A { u8 x, }
// trailing space 
int16 u8x
,
@tag(
    //
    007 )
    @tag( 0
    /// triple
    ) uint32 1) u
    @lengthOf( T ),
// `tick` ""quote"" 'q'
//x
} // " ++ [128512]%N ++ runes_of_ascii " emoji")).
Eval vm_compute in ("<<<M464>>>" ++ check (runes_of_ascii "packet
    asx { @calculatedFrom(
""""  ) @tag( 255 )repeat
// packet A { u8 x, }
// trailing space 
int16 u8x
,
@tag(
    //
    007 [
    @tag( 0
    /// triple
    ) @tag( 1) u
    @lengthOf( T ),
// `tick` ""quote"" 'q'
//x
} // " ++ [128512]%N ++ runes_of_ascii " emoji")).
Eval vm_compute in ("<<<M521>>>" ++ check (runes_of_ascii "packet
    asx { @calculatedFrom(
""""  ) @tag( 255 )repeat
// packet A { u8 x, }
// trailing space 
int16 u8x
,
@tag(
    //
    007 )
    @tag( 0
    /// triple
    ) @tag( 1) u
    @lengthOf( T ),
// `tick` ""quote"" 'q'
//x
 // " ++ [128512]%N ++ runes_of_ascii " emoji")).
Eval vm_compute in ("<<<M1400>>>" ++ check (runes_of_ascii "packet Sub {
    u8 a,
    @calculatedFrom(""CRC16"") i64 SubSum,
}
root packet Frame {
    u16 MsgType,
    u16 BodyLen @lengthOf(Body),
    Sub Body,
    string note,
    @calculatedFrom(""CRC16"") i64 Checksum,
    u8 tail,
}
")).
Eval vm_compute in ("<<<M330>>>" ++ check (runes_of_ascii "packet uint8x { u64	f32a @calculatedFrom( ""`tick`"") ,
match tag as
    leftPad { """ ++ [233]%N ++ runes_of_ascii "t" ++ [233]%N ++ runes_of_ascii """: charz // 50% %s
, } , @leftPad
( ' ' )
    int32
x_y_z // a // b
,}	options { matchKey =uint16; } // `tick` ""quote"" 'q'")).
Eval vm_compute in ("<<<M227>>>" ++ check (runes_of_ascii "MetaData Header
    // " ++ [128512]%N ++ runes_of_ascii " emoji
    { trueish Pad ,
} MetaData
    Z9_ { char[] metadata , Header
    A
    ``, uint32 packetx, int16 uint8x ,
    Header // packet A { u8 x, }
leftPad , }
")).
Eval vm_compute in ("<<<M1779>>>" ++ check (runes_of_ascii "options {
    Packet = u16;
    f32a = ""a\""b""
    lengthOf = '0';
    uint8x = i8
    uint8x = '\x00';
}

packet rootA {
}

options {
    uint8x = ""\" ++ [233]%N ++ runes_of_ascii """
}

MetaData Packet {
}")).
Eval vm_compute in ("<<<M1944>>>" ++ check (runes_of_ascii "packet roots {
    f64 u @calculatedFrom(""a\\""),
    @tag(1)
    zchar[0] stringy @lengthOf(u),
}

MetaData body {
    BodyLength tag,
    u32 MetaDataX,// @lengthOf(
}")).
Eval vm_compute in ("<<<M715>>>" ++ check (runes_of_ascii "packet
crc
{repeat  Foo A  `u8 x,` ,	@lengthOf( uint8x ) string
matchKey @lengthOf( stringy ) `a\`
,
    // c
    }
MetaData chars{
leftPad
    //	t
    crc
`" ++ [233]%N ++ runes_of_ascii "`
,")).
Eval vm_compute in ("<<<M623>>>" ++ check (runes_of_ascii "MetaData u
    { } MetaData o
{ float uint8x
`100% of %d` ,repeatCount u8x, string_ ,
leftPad i32
    Foo , int64 x `two words` , calculatedFrom
stringy `a\` ,
}
")).
Eval vm_compute in ("<<<M686>>>" ++ check (runes_of_ascii "MetaData u
    { } MetaData o
{ float uint8x
`100% of %d` ,repeatCount u8x, string_ leftPad
, i32
    Foo , int64 x `two words` , calculatedFrom
stringy `a\` ,

")).
Eval vm_compute in ("<<<M621>>>" ++ check (runes_of_ascii "MetaData u
    { } MetaData o
{ float uint8x
`100% of %d` ,repeatCount u8x, string_ 
, i32
    Foo , int64 x `two words` , calculatedFrom
stringy `a\` ,
}
")).
Eval vm_compute in ("<<<M1556>>>" ++ check (runes_of_ascii "
packet A

{
	match

k
    as n	{ [1
,""bb""
,
    007

    ,
    ""d""
    ,5
, ""f""
,
7
,""h"" , 9

,""j""

, 
11,	""l"" ]

    :B , 2 :

    C 
},} ")).
Eval vm_compute in ("<<<M1271>>>" ++ check (runes_of_ascii "  packet	B
{u8
    a 
,  }  root packet

    P{
	u8
	K ,u8 L

    @lengthOf(	Body )
,

    match
K 
as 
Body	{
1

:
B	, }
    ,
} ")).
Eval vm_compute in ("<<<M1296>>>" ++ check (runes_of_ascii "// top
root // c0
packet P // c2a
  // c2b
{ // c3a
  // c3b
string
    // c4
s // c5a
  // c5b
, // c6a
  // c6b
} // c7a
  // c7b
")).
Eval vm_compute in ("<<<M1289>>>" ++ check (runes_of_ascii "
options
	{	LittleEndian
	= true

;

}
root

packet 
P
    {
	u16
a, u32 Sum

    @calculatedFrom( ""CRC32""
    ) 
,	}

")).
Eval vm_compute in ("<<<M655>>>" ++ check (runes_of_ascii "MetaData u
    { } MetaData o
{ float uint8x
`100% of %d` ,repeatCount u8x, string_ leftPad
, i32
    Foo , int64")).
Eval vm_compute in ("<<<M1219>>>" ++ check (runes_of_ascii "options { } options { MetaDataX = char ; // c
} MetaData Pad { i8 metadata , string stringy , int8 As `{ , }` , }")).
Eval vm_compute in ("<<<M362>>>" ++ check (runes_of_ascii "options { }
options {
    _x=
    ""`tick`""; matchKey
=""it's"" ; options1= u16; stringy =	true }packet x_y_z{ }

")).
Eval vm_compute in ("<<<M1915>>>" ++ check (runes_of_ascii "
packet B
    {

    u8
a
,
string  s ,
} root

packet P
	{  u16  L @lengthOf(
B
	) 
, B ,  u8
t ,}
")).
Eval vm_compute in ("<<<M918>>>" ++ check (runes_of_ascii "packet A {
    Inner {
        u8 x `a
b`,
        Deep {
            u8 y `a
b`,
        },
    },
}")).
Eval vm_compute in ("<<<M898>>>" ++ check (runes_of_ascii "packet A {
  match k as n {
    [1, 22, ""c c"", 4, 5, ""f"", 7, 8, ""i"", 10, 11] : B
    2 : C
  },
}")).
Eval vm_compute in ("<<<M885>>>" ++ check (runes_of_ascii "packet A {
  match k as n {
    [1, 22, ""c c"", 4, 5, ""f"", 7, 8, ""i"", 10] : B
    2 : C
  },
}")).
Eval vm_compute in ("<<<M1838>>>" ++ check (runes_of_ascii "

  packet A
	{

match k
	as  n  { [1

    , 22
,
007, 
4 
]:	B,

    2
: C }
	, }
")).
Eval vm_compute in ("<<<M286>>>" ++ check (runes_of_ascii "// a // b
root packet falsey {
    }	options {Pad//
= // " ++ [27880; 37322]%N ++ runes_of_ascii "
f32 } root packet T { }")).
Eval vm_compute in ("<<<M831>>>" ++ check (runes_of_ascii "packet A {
  match k as n {
    [""a"", 22, ""c c"", 4, ""e"", 66] : B
    2 : C
  },
}")).
Eval vm_compute in ("<<<M901>>>" ++ check (runes_of_ascii "packet A { Inner { match k as n { [1,22,007,4,5,66,7,8,9,10,11] : B, }, }, }")).
Eval vm_compute in ("<<<M787>>>" ++ check (runes_of_ascii "packet A {
  match k as n {
    [""a"", ""bb"", ""c c""] : B,
    2 : C
  },
}")).
Eval vm_compute in ("<<<M1303>>>" ++ check (runes_of_ascii "
root	packet

P	{u8
	s_u8
    ,repeat
    u8
	r_u8 
, u16  b_len
,}

")).
Eval vm_compute in ("<<<M779>>>" ++ check (runes_of_ascii "packet A {
  match k as n {
    [""a"", ""bb""] : B
    2 : C
  },
}")).
Eval vm_compute in ("<<<M33>>>" ++ check (runes_of_ascii "root packet u // @lengthOf(
{ Pad asx ,  calculatedFrom ,}
")).
Eval vm_compute in ("<<<M1862>>>" ++ check (runes_of_ascii "  options 
{A

    =	""// no comment"" 

    // c
	}

")).
Eval vm_compute in ("<<<M1442>>>" ++ check (runes_of_ascii "root packet A {
    u8 x `a
        b
      c`,
}")).
Eval vm_compute in ("<<<M1114>>>" ++ check (runes_of_ascii "packet A { char[ // a
 3 // b
 ] // c
 x, }")).
Eval vm_compute in ("<<<M155>>>" ++ check (runes_of_ascii "options {stringy =
i64 ; float = '0' }")).
Eval vm_compute in ("<<<M1188>>>" ++ check (runes_of_ascii "options { A
// c
= ""// no comment"" }")).
Eval vm_compute in ("<<<M1538>>>" ++ check (runes_of_ascii "MetaData u128 {
    body float,
}")).
Eval vm_compute in ("<<<M1032>>>" ++ check (runes_of_ascii "packet A {
 u8 x `d" ++ [8232]%N ++ runes_of_ascii "`, // c" ++ [8232]%N ++ runes_of_ascii "
}")).
Eval vm_compute in ("<<<M1084>>>" ++ check (runes_of_ascii "packet A {
}// a// b// c
")).
Eval vm_compute in ("<<<M1141>>>" ++ check (runes_of_ascii "// c
root packet a1 { }")).
Eval vm_compute in ("<<<M1440>>>" ++ check (runes_of_ascii "packet
A
{ } 	 // c" ++ [133]%N)).
Eval vm_compute in ("<<<M1031>>>" ++ check (runes_of_ascii "// c" ++ [8232]%N ++ runes_of_ascii "
packet A {
}")).
Eval vm_compute in ("<<<M1018>>>" ++ check (runes_of_ascii "packet A {
}// c" ++ [8192]%N)).
Eval vm_compute in ("<<<M1090>>>" ++ check (runes_of_ascii "packet A {
}


")).
Eval vm_compute in ("<<<M1004>>>" ++ check (runes_of_ascii "// c" ++ [160]%N)).
