From FP Require Import Lexer Parser ShowPT Digest Formatter.
From Coq Require Import String List NArith.
Import ListNotations.
Open Scope string_scope.
Set Printing Width 100000000.
Set Printing Depth 100000000.
Definition show_fres (r : fres) : string :=
  match r with
  | FOk s => "OK:" ++ sh_escaped s ""
  | FErr s => "ERR:" ++ sh_escaped s ""
  | FPanic p => "PANIC:" ++ p
  end.
Definition check (rs : list rune) : string := digest (show_fres (format_res rs)).
Definition full (rs : list rune) : string := show_fres (format_res rs).
Eval vm_compute in ("<<<M1899>>>" ++ check (runes_of_ascii "MetaData asx {
    char[] MetaDataX,
    lengthOf Z9_,
    crc Foo,
    char[4294967296] BodyLength,
    Foo leftPad `doc`,
    tag u128,
}

root packet stringy {
    // trailing space 
    match Header as repeatCount {
        [""{,}""] : Header,
        255 : repeatCount,
        00 : pack,
        1 : trueish,
        7 : A,
    },
    T {
        Z9_ `
        `,
    },
    int16 o @calculatedFrom(""it's"") `line1
    line2`,
    match zchar as As {
        ""CRC32"" : a1,
        42 : Header,
        [10] : zchar,
    },
    @tag(42)
    repeat i64_ {
        // c
        char[00] _x `{ , }`,
    },
    repeat char[] uint8x `crlf
    line`,
    @leftPad('\x00')
    @tag(7)
    int32 repeatCount @calculatedFrom(""x y"") `// not a comment`,
    u32 zchar `
    `,
    repeat stringy {
        i8i8 lengthOf,
    },// packet A { u8 x, }
    @calculatedFrom(""abc"")
    @lengthOf(tag)
    @lengthOf(rootA)
    char[3] rootA `" ++ [233]%N ++ runes_of_ascii "`,// c
}

MetaData crc {
    float32 asx `" ++ [233]%N ++ runes_of_ascii "`,
    string i64_,
}

root packet Packet {
    charz @lengthOf(zchar),
    f32 f32a `{ , }`,
    i64 matchKey @lengthOf(leftPad),
    string trueish,
    @leftPad('0')
    // trailing space 
    tag @lengthOf(string_) `doc`,
    match stringy as calculatedFrom {
        [0123456789] : repeatCount,
    },// trailing space 
    char[3] Header,
    int64 MetaDataX,
    @leftPad()
    len {
        packetx @lengthOf(chars) ``,
    },
    @rightPad('0')
    x_y_z,
}

options {
    rootA = '0';
    Foo = char;
    A = zchar[0123456789];
    packetx = """ ++ [233]%N ++ runes_of_ascii "t" ++ [233]%N ++ runes_of_ascii """
    float = true
}//x")).
Eval vm_compute in ("<<<M225>>>" ++ check (runes_of_ascii "packet T
    // " ++ [128512]%N ++ runes_of_ascii " emoji
    { match repeatCount as
Packet {
    ""packet"" : msg_type , 00 :
    Foo
    ,""" ++ [128512]%N ++ runes_of_ascii """ : trueish, """": repeatCount
    [ // packet A { u8 x, }
4294967296 , 65535 ] :	u ,	}, @calculatedFrom( ""a\\"" )
    float32 len @lengthOf(// " ++ [128512]%N ++ runes_of_ascii " emoji
string_
    ), stringy Pad, roots{ repeat x_y_z
    `// not a comment`
, T
`" ++ [233]%N ++ runes_of_ascii "` , }, @tag(
007 )  _x
{// " ++ [128512]%N ++ runes_of_ascii " emoji
char[] body
@calculatedFrom( """ ++ [233]%N ++ runes_of_ascii "t" ++ [233]%N ++ runes_of_ascii """
    //	t
    ) ,repeat Pad// packet A { u8 x, }
``
// c
/// triple
, }
    //x
    , match	u as packetx{// `tick` ""quote"" 'q'
[ ""// no comment"" ,
007]	: T
, [  ""\" ++ [233]%N ++ runes_of_ascii """// " ++ [27880; 37322]%N ++ runes_of_ascii "
] :// trailing space 
u8x } , @rightPad( ) int8 _x , @lengthOf(
A	)match/// triple
crc
as metadata { [ 00,
    //	t
    ""a\""b"" ,3
    , 1
    ,
10 ] : Packet , //	t
[
4294967296	, ""abc"" , """"] // @lengthOf(
:
// `tick` ""quote"" 'q'
// " ++ [27880; 37322]%N ++ runes_of_ascii "
a1 , """ ++ [28040; 24687]%N ++ runes_of_ascii """ // `tick` ""quote"" 'q'
:
    repeatCount  , } , }options { }MetaData Header
{  trueish Pad ,
    } MetaData Z9_ { char[]
metadata ,
// " ++ [128512]%N ++ runes_of_ascii " emoji
// packet A { u8 x, }
Header A
`doc`
// a // b
// a // b
, //x
uint32 // " ++ [27880; 37322]%N ++ runes_of_ascii "
packetx ,
int16 uint8x
    //
    , Header// @lengthOf(
leftPad
    , // packet A { u8 x, }
}
// trailing space 
")).
Eval vm_compute in ("<<<M1327>>>" ++ check (runes_of_ascii "// top
options
    // c0
{ // c1a
  // c1b
LittleEndian
    // c2
= true // c4a
  // c4b
;
    // c5
StringPrefixLenType =
    // c7
u16 // c8
; // c9a
  // c9b
FixedStringPadChar // c10
= // c11
' '
    // c12
;
    // c13
} // c14
packet // c15a
  // c15b
Logon { // c17a
  // c17b
@leftPad ( '0' ) // c21
char[ // c22a
  // c22b
10 // c23
] // c24
tag7 // c25a
  // c25b
,
    // c26
} // c27a
  // c27b
root packet
    // c29
Ack // c30a
  // c30b
{ int32 // c32
Px , // c34
uint16
    // c35
count // c36
,
    // c37
string // c38a
  // c38b
Qty
    // c39
, // c40a
  // c40b
string // c41a
  // c41b
OrderId // c42
, string Flags // c45a
  // c45b
,
    // c46
u8 // c47a
  // c47b
x // c48a
  // c48b
, // c49a
  // c49b
match // c50
x // c51
as
    // c52
Body
    // c53
{ // c54
[ // c55a
  // c55b
58 // c56
, // c57
169 // c58a
  // c58b
] // c59
: Logon , // c62a
  // c62b
} // c63
,
    // c64
}
    // c65
")).
Eval vm_compute in ("<<<M1683>>>" ++ check (runes_of_ascii "root packet u {
    match T as body {
        [3, ""a\""b""] : stringy,
        ""a	b"" : charz,
        10 : lengthOf,
        ""CRC32"" : falsey,
        0123456789 : _x,
    },
    body @lengthOf(i64_),
    u64 chars `u8 x,`,
    T {
        i64_ string_,
        u32 metadata,
        zchar[1] Z9_,
    },
    @calculatedFrom(""a\\"")
    rootA x_y_z `u8 x,`,
    zchar[007] body @calculatedFrom(""\n""),
    @leftPad('0')
    @rightPad('0')
    @calculatedFrom(""" ++ [233]%N ++ runes_of_ascii "t" ++ [233]%N ++ runes_of_ascii """)
    repeat uint64 A,
    repeat u8x {
        match o as x {
            10 : charz,
            ""a	b"" : matchKey,
            ""x y"" : trueish,
            [""" ++ [233]%N ++ runes_of_ascii "t" ++ [233]%N ++ runes_of_ascii """] : zchar,
            ""1"" : charz,
            [""a\""b"", ""abc"", ""a\\"", ""abc"", """"] : u8x,
        },
    },
    repeat falsey {
        rootA tag,
        zchar[0] falsey,
    },
    charz a1 `{ , }`,
}

root packet Header {
}")).
Eval vm_compute in ("<<<M1814>>>" ++ check (runes_of_ascii "packet leftPad {
    //
    i8 stringy @calculatedFrom(""" ++ [128512]%N ++ runes_of_ascii """),
    int @calculatedFrom(""a	b"") `it's`,
    @leftPad()
    @tag(0123456789)
    int32 u8x,
    @lengthOf(A)
    float64 u128 @calculatedFrom(""a\\""),//x
}

options {
    //x
    Pad = 0
    u = ' '
}

MetaData a1 {
    char[] metadata `// not a comment`,
}

packet Foo {
    @tag(42)
    repeat BodyLength,
    int8 metadata `{ , }`,
    @leftPad()
    @calculatedFrom(""`tick`"")
    @calculatedFrom(""a	b"")
    u32 stringy,
    @lengthOf(roots)
    zchar[0] msg_type @lengthOf(i64_) `tab	here`,
    i8 Header `{ , }`,
    char[7] trueish @lengthOf(packetx),
    u64 charz `
    `,
    zchar[65535] repeatCount `it's`,
    match calculatedFrom as calculatedFrom {
        ""a	b"" : roots,
        42 : MetaDataX,
    },
}")).
Eval vm_compute in ("<<<M192>>>" ++ check (runes_of_ascii "// trailing space 
options { f32a=
false;	stringy=	true
;
u=  ""\" ++ [233]%N ++ runes_of_ascii """  ;
    stringy = false;
} packet options1 // " ++ [27880; 37322]%N ++ runes_of_ascii "
{
} MetaData
packetx { f32 uint8x  ,  } root packet zchar {
@tag( 4294967296
) @lengthOf(a1
)
i8
_x
`it's` ,//x
char[]	o , body
    ,
zchar[ 65535] msg_type
`crlf
line` , repeat
    BodyLength{ repeat char[ 65535
    ] stringy,
},
@calculatedFrom( """ ++ [128512]%N ++ runes_of_ascii """
) @tag( 10
    // a // b
    ) repeat f32
lengthOf`line1
line2` , repeat  u {
    uint32 Z9_, //
repeat body
`
` , }  , @tag( 4294967296
) i64_ @lengthOf( tag
    // packet A { u8 x, }
    ), @lengthOf(//	t
float) @lengthOf(
    // " ++ [128512]%N ++ runes_of_ascii " emoji
    packetx	) @calculatedFrom( """ ++ [128512]%N ++ runes_of_ascii """
)	repeat x_y_z u  ,@tag( 65535 )u8
A	,} //")).
Eval vm_compute in ("<<<M147>>>" ++ check (runes_of_ascii "root
    packet falsey{	@tag( 255) len@calculatedFrom( ""`tick`""
    )//
,match MetaDataX as
crc
{	[7 ] :
    roots ,} ,	@tag( 10 ) @tag(
// `tick` ""quote"" 'q'
// `tick` ""quote"" 'q'
10//
) @tag( 255)	repeat /// triple
uint64 rootA	, tag // a // b
`" ++ [28040; 24687; 31867; 22411]%N ++ runes_of_ascii "` ,
float32  i64_ , int64 _x  `doc` , @leftPad( ' '
    )
match
// @lengthOf(
// @lengthOf(
i8i8 as pack { // `tick` ""quote"" 'q'
7 : Logon , ""x y"" : lengthOf , } , // trailing space 
match x_y_z as u
{
// `tick` ""quote"" 'q'
// " ++ [27880; 37322]%N ++ runes_of_ascii "
[ 0123456789 ] :	packetx ,007 :x_y_z
// trailing space 
//
, 10 : rootA , 7 : u 0123456789 :falsey
, }	, // packet A { u8 x, }
}
")).
Eval vm_compute in ("<<<M1849>>>" ++ check (runes_of_ascii "// top
options {
    LittleEndian = false;
    // c5
    StringPrefixLenType = u8;// c9
    ArrayPrefixLenType = u64;// c13a
    // c13b
    FixedStringPadFromLeft = false;
    // c17
    FixedStringPadChar = ' ';
}

// c22
packet Reject {
    // c25a
    // c25b
    repeat char[4] seqNo,// c31
    string Px,
}

root packet Trade {
    @rightPad('0')
    // c43
    char[2] msgKind,// c48
    repeat f64 price,
    InAcct79 {
        // c54
        repeat Reject,
        // c57
        zchar[7] OrderId,
    },// c64
    Reject,// c66
}")).
Eval vm_compute in ("<<<M328>>>" ++ check (runes_of_ascii "
packet
Logon { repeatCount { BodyLength
    `crlf
line`, }
    , zchar a1 `u8 x,`  ,
match Foo as Foo { ""\n"" :i8i8,[
""abc""
    , // trailing space 
""CRC32"" ]
/// triple
// " ++ [128512]%N ++ runes_of_ascii " emoji
: // @lengthOf(
crc
    [ 3 ,
//
// " ++ [128512]%N ++ runes_of_ascii " emoji
""x y"", 42 , ""`tick`""
, 1 , ""a\""b"",
    ""CRC32"" , 255 ]:repeatCount , [// " ++ [128512]%N ++ runes_of_ascii " emoji
1
// a // b
// " ++ [27880; 37322]%N ++ runes_of_ascii "
,007 ,
""\n"",007 , 7 , ""// no comment"" ,
255 ] :
    uint8x 00
: f32a , } ,
    // a // b
    uint16 Pad @lengthOf( uint8x)// packet A { u8 x, }
`doc`  ,
}")).
Eval vm_compute in ("<<<M1113>>>" ++ check (runes_of_ascii "// top
packet // c0
float // c1
{ // c2
@rightPad // c3
( // c4
) // c5
rootA // c6
@lengthOf( // c7
trueish // c8
) // c9
, // c10
stringy // c11
@lengthOf( // c12
matchKey // c13
) // c14
, // c15
char[ // c16
4294967296 // c17
] // c18
pack // c19
@lengthOf( // c20
uint8x // c21
) // c22
, // c23
} // c24
root // c25
packet // c26
trueish // c27
{ // c28
repeat // c29
uint64 // c30
u128 // c31
`line1
line2` // c32
, // c33
} // c34
")).
Eval vm_compute in ("<<<M1271>>>" ++ check (runes_of_ascii "options { // c1a
  // c1b
LittleEndian
    // c2
= // c3
true // c4
; } // c6a
  // c6b
packet B { u8 // c10a
  // c10b
a
    // c11
, // c12a
  // c12b
string // c13
s // c14
, } // c16
root // c17a
  // c17b
packet
    // c18
P // c19
{ u16 // c21
L @lengthOf( B ) // c25a
  // c25b
, // c26a
  // c26b
B // c27a
  // c27b
,
    // c28
u8
    // c29
t // c30
, // c31
} // c32a
  // c32b
")).
Eval vm_compute in ("<<<M75>>>" ++ check (runes_of_ascii "packet zchar { @calculatedFrom( ""`tick`""
) uint32
    falsey,} MetaData packetx {
string
//
// @lengthOf(
msg_type `u8 x,`, }packet i8i8 {zchar@lengthOf(
uint8x
    ) ,
    }packet As{ zchar[ 4294967296
    // " ++ [27880; 37322]%N ++ runes_of_ascii "
    ] T	@calculatedFrom( ""abc"" ) , @tag(007 )
    repeat
    i16
// " ++ [27880; 37322]%N ++ runes_of_ascii "
// packet A { u8 x, }
u8x `say ""hi""`, @lengthOf( u )
repeat uint16 u128 , }")).
Eval vm_compute in ("<<<M194>>>" ++ check (runes_of_ascii "// `tick` ""quote"" 'q'
options
    //	t
    { }  packet lengthOf // `tick` ""quote"" 'q'
{  } packet
// a // b
// " ++ [27880; 37322]%N ++ runes_of_ascii "
Foo {
@tag(
1
) string
uint8x ,_x { chars  , string uint8x , i64 _x //
`it's`
    , repeat uint8 As,	}
, float32
f32a , @leftPad( '\x00')
    @calculatedFrom( """ ++ [28040; 24687]%N ++ runes_of_ascii """
) // trailing space 
uint8 Logon
,
    }")).
Eval vm_compute in ("<<<M1677>>>" ++ check (runes_of_ascii "
packet //x
	x_y_z  { rootA

    @lengthOf(
	o
    )
	`two words`  ,
} 
MetaData 
f32a  {
trueish
// packet A { u8 x, }
    	x ,

    }MetaData	body

    {
	u128 pack

    ,

f64  
      // @lengthOf(
    	float ,char[

65535
    //	t
	/// triple
  ]  tag  `" ++ [233]%N ++ runes_of_ascii "`// c
  	,
} 	 // " ++ [128512]%N ++ runes_of_ascii " emoji
")).
Eval vm_compute in ("<<<M1348>>>" ++ check (runes_of_ascii "options {
    LittleEndian = false;
    StringPrefixLenType = u16;
}
packet Heartbeat {
    @rightPad('0') char[7] seqNo,
    uint64 Tail,
    i16 Flags,
    u16 msgKind,
}
root packet Reject {
    zchar[3] tag7,
    repeat Heartbeat,
    repeat string clOrdID,
}
")).
Eval vm_compute in ("<<<M234>>>" ++ check (runes_of_ascii "//	t
options{
    chars=true As= char[]
// trailing space 
// " ++ [128512]%N ++ runes_of_ascii " emoji
; /// triple
x_y_z	= 7; // " ++ [27880; 37322]%N ++ runes_of_ascii "
i8i8 = true packetx = /// triple
' ' } root packet	x_y_z {repeat
    char[
    42
    //x
    ] //	t
Pad,
    }
// packet A { u8 x, }
")).
Eval vm_compute in ("<<<M1476>>>" ++ check (runes_of_ascii "MetaData falsey {
    Header falsey `
    `,
    string Foo `" ++ [28040; 24687; 31867; 22411]%N ++ runes_of_ascii "`,
    falsey repeatCount,
    i8 u,
}

packet A {
    match _x as T {
        007 : lengthOf,
        // `tick` ""quote"" 'q'
    },
}")).
Eval vm_compute in ("<<<M1301>>>" ++ check (runes_of_ascii "

  packet A
{u8 a

    ,
	} packet 
B { u16

    b , }root packet P

    {u8 K
    , match
    K as M
	{ [ 1
,
	2 ]: 
A

    ,

3 :B
    ,	7
    : A,
	}
	,  }

")).
Eval vm_compute in ("<<<M491>>>" ++ check (runes_of_ascii "packet uint8x
{ match pack
    as msg_type	{
    0123456789 :	float
}
,
} packet //	t
a1
    { } options {packetx packetx
    = '\x00'	; u128= ""a	b""  ; }
")).
Eval vm_compute in ("<<<M518>>>" ++ check (runes_of_ascii "packet uint8x
{ match pack
    as msg_type	{
    0123456789 :	float
}
,
} packet //	t
a1
    { } options {packetx
    = '\x00'	; u128 true ""a	b""  ; }
")).
Eval vm_compute in ("<<<M526>>>" ++ check (runes_of_ascii "packet uint8x
{ match pack
    as msg_type	{
    0123456789 :	float
}
,
} packet //	t
a1
    { } options {packetx
    = '\x00'	; u128= ""a	b""  ; ; }
")).
Eval vm_compute in ("<<<M422>>>" ++ check (runes_of_ascii "packet uint8x
{ match pack
    as {	msg_type
    0123456789 :	float
}
,
} packet //	t
a1
    { } options {packetx
    = '\x00'	; u128= ""a	b""  ; }
")).
Eval vm_compute in ("<<<M445>>>" ++ check (runes_of_ascii "packet uint8x
{ match pack
    as msg_type	{
    0123456789 :	float

,
} packet //	t
a1
    { } options {packetx
    = '\x00'	; u128= ""a	b""  ; }
")).
Eval vm_compute in ("<<<M1451>>>" ++ check (runes_of_ascii "packet uint8x {
    match pack as msg_type {
        0123456789 : float,
    },
}

packet a1 {
}

options {
    packetx = char;
    u128 = ""a	b"";
}")).
Eval vm_compute in ("<<<M395>>>" ++ check (runes_of_ascii "packet 
{ match pack
    as msg_type	{
    0123456789 :	float
}
,
} packet //	t
a1
    { } options {packetx
    = '\x00'	; u128= ""a	b""  ; }
")).
Eval vm_compute in ("<<<M1656>>>" ++ check (runes_of_ascii "MetaData	leftPad
{
chars
MetaDataX

,	}  packet
    repeatCount

{

    // c
	char[255
    ] 
uint8x
`" ++ [233]%N ++ runes_of_ascii "`
,
} MetaData pack{
As Foo

,
	}
")).
Eval vm_compute in ("<<<M1861>>>" ++ check (runes_of_ascii "packet
Logon {	repeat 
u {zchar{ 
zchar[ 007
	]

a1
    ``

    ,
    x_y_z
	@calculatedFrom( 
    //

  // " ++ [128512]%N ++ runes_of_ascii " emoji
  ""{,}"")
,}
	,  },
}")).
Eval vm_compute in ("<<<M1401>>>" ++ check (runes_of_ascii "packet

    A
	{ match

    k
as n
	{

    [
	1	,22 ,
""c c""
	,  4,	5 ,
""f"" ,  7 ,
    8	,
    ""i"" , 10 ]	:
B 2 
:C} 
, }

")).
Eval vm_compute in ("<<<M1261>>>" ++ check (runes_of_ascii "packet B {
    u8 a,
}
root packet P {
    u8 K,
    u64 L @lengthOf(Body),
    match K as Body {
        1 : B,
    },
}
")).
Eval vm_compute in ("<<<M1152>>>" ++ check (runes_of_ascii "MetaData leftPad { chars MetaDataX
// c
, } packet repeatCount { char[ 255 ] uint8x `" ++ [233]%N ++ runes_of_ascii "` , } MetaData pack { As Foo , }")).
Eval vm_compute in ("<<<M1184>>>" ++ check (runes_of_ascii "MetaData leftPad { chars MetaDataX , } packet repeatCount { char[ 255 ] uint8x `" ++ [233]%N ++ runes_of_ascii "` , } MetaData pack { As
// c
Foo , }")).
Eval vm_compute in ("<<<M1661>>>" ++ check (runes_of_ascii "packet asx {
    match u128 as lengthOf {
        //	t
        // `ti/ck` ""quote"" 'q'
        255 : x,
    },
}")).
Eval vm_compute in ("<<<M1618>>>" ++ check (runes_of_ascii "packet

    A	{

match
k

as
	n
{

    [
	1
    , ""bb""  ,  007  ]:
    B

    ,
2

:C 
}

    ,}
")).
Eval vm_compute in ("<<<M641>>>" ++ check (runes_of_ascii "
packet
    asx {match u128 as lengthOf
{
//	t
// `tick` ""quote"" 'q'
255 : x ,
    } @lengthOf ,	}")).
Eval vm_compute in ("<<<M1841>>>" ++ check (runes_of_ascii "

  options {

    FixedStringPadFromLeft =
true

    ;}  root packet  P	{ char[
4 ] z ,	}")).
Eval vm_compute in ("<<<M841>>>" ++ check (runes_of_ascii "packet A {
  match k as n {
    [""a"", ""bb"", ""c c"", ""d"", ""e"", ""f"", ""g""] : B,
    2 : C
  },
}")).
Eval vm_compute in ("<<<M638>>>" ++ check (runes_of_ascii "
packet
    asx {match u128 as leng""thOf
{
//	t
// `tick` ""quote"" 'q'
255 : x ,
    } ,	}")).
Eval vm_compute in ("<<<M607>>>" ++ check (runes_of_ascii "
packet
    asx {match u128 as lengthOf
{
//	t
// `tick` ""quote"" 'q'
255 : x 
    } ,	}")).
Eval vm_compute in ("<<<M621>>>" ++ check (runes_of_ascii "
packet
    asx {match u128 as lengthOf
{
//	t
// `tick` ""quote"" 'q'
255 : x ,
    }")).
Eval vm_compute in ("<<<M1440>>>" ++ check (runes_of_ascii "MetaData charz {
    As u128,
    Logon options1 `say ""hi""`,
    zchar[0] Logon,
}")).
Eval vm_compute in ("<<<M1499>>>" ++ check (runes_of_ascii "packet A {
    match k as n {
        [""a"", ""bb""] : B,
        2 : C,
    },
}")).
Eval vm_compute in ("<<<M345>>>" ++ check (runes_of_ascii "
options
{ } // " ++ [128512]%N ++ runes_of_ascii " emoji
options { float // `tick` ""quote"" 'q'
=	65535 }
")).
Eval vm_compute in ("<<<M1651>>>" ++ check (runes_of_ascii "packet  body

{i32 f32a 
`{ , }`
, 
        // c
  }  options 
{
	} ")).
Eval vm_compute in ("<<<M1591>>>" ++ check (runes_of_ascii "packet 
A
{
	match
	k	as  n

    { 1 :
    B ,
	// c
  } , 
}
")).
Eval vm_compute in ("<<<M2>>>" ++ check (runes_of_ascii "root
// trailing space 
// " ++ [27880; 37322]%N ++ runes_of_ascii "
packet
u{  } // trailing space ")).
Eval vm_compute in ("<<<M1089>>>" ++ check (runes_of_ascii "packet A { // a
 @tag(1) u8 x, // b
 // c
 @tag(2) u8 y, }")).
Eval vm_compute in ("<<<M1478>>>" ++ check (runes_of_ascii "MetaData M
	{

    u8 
x `a

b`
,

T
t`a

b`
,  } ")).
Eval vm_compute in ("<<<M333>>>" ++ check (runes_of_ascii "  MetaData
x_y_z{ }	packet chars	{	} options {}
")).
Eval vm_compute in ("<<<M763>>>" ++ check (runes_of_ascii "@calculatedFrom( true ; MetaData """ ++ [233]%N ++ runes_of_ascii "t" ++ [233]%N ++ runes_of_ascii """ match")).
Eval vm_compute in ("<<<M752>>>" ++ check (runes_of_ascii "repeatCount u32 as false uint64 0 @tag(")).
Eval vm_compute in ("<<<M1652>>>" ++ check (runes_of_ascii "packet A {
    u8 x `d x`,// c x
}")).
Eval vm_compute in ("<<<M978>>>" ++ check (runes_of_ascii "packet A {
 u8 x `d `, // c 
}")).
Eval vm_compute in ("<<<M757>>>" ++ check (runes_of_ascii "z>" ++ [65533]%N ++ runes_of_ascii "*" ++ [65533]%N ++ runes_of_ascii "7" ++ [65533; 65533; 65533; 65533]%N ++ runes_of_ascii "+" ++ [65533]%N ++ runes_of_ascii "~" ++ [65533; 0; 65533; 65533]%N ++ runes_of_ascii "c" ++ [1171]%N ++ runes_of_ascii "n" ++ [65533; 65533; 65533; 12; 65533]%N ++ runes_of_ascii "E>K")).
Eval vm_compute in ("<<<M326>>>" ++ check (runes_of_ascii "  options{// a // b
}

")).
Eval vm_compute in ("<<<M1110>>>" ++ check (runes_of_ascii "MetaData tag {
// c
}")).
Eval vm_compute in ("<<<M278>>>" ++ check (runes_of_ascii "packet Packet { }
")).
Eval vm_compute in ("<<<M1052>>>" ++ check (runes_of_ascii "// c" ++ [65279]%N ++ runes_of_ascii "
packet A {
}")).
Eval vm_compute in ("<<<M1082>>>" ++ check (runes_of_ascii "options { // a
 }")).
Eval vm_compute in ("<<<M740>>>" ++ check (runes_of_ascii ", = , ; int16")).
Eval vm_compute in ("<<<M1030>>>" ++ check (runes_of_ascii "// c" ++ [11]%N)).
