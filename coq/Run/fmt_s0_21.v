From FP Require Import Lexer Parser ShowPT Digest Formatter.
From Coq Require Import String List NArith.
Import ListNotations.
Open Scope string_scope.
Set Printing Width 100000000.
Set Printing Depth 100000000.
Definition show_fres (r : fres) : string :=
  match r with
  | FOk s => "OK:" ++ sh_escaped s ""
  | FErr s => "ERR:" ++ sh_escaped s ""
  | FPanic p => "PANIC:" ++ p
  end.
Definition check (rs : list rune) : string := digest (show_fres (format_res rs)).
Definition full (rs : list rune) : string := show_fres (format_res rs).
Eval vm_compute in ("<<<M146>>>" ++ check (runes_of_ascii "MetaData
chars {	int8 Z9_,	float rootA	`tab	here`// @lengthOf(
,
//x
// @lengthOf(
T o `it's` ,
roots int , // c
repeatCount MetaDataX, float32
    falsey `say ""hi""`,} packet
    msg_type
{ repeat f32
o // `tick` ""quote"" 'q'
, @tag( 0
)char[]  A	,  repeat char[] tag `say ""hi""` ,repeat char[ 0 ] Z9_ ,
zchar[ 1 ] lengthOf ,
i64 T , match float as
leftPad {
    007 : len /// triple
, ""it's"" : len
    , ""it's"" : // @lengthOf(
float
    [ 255 ,
00
, ""abc"", ""abc""
,
1
, """ ++ [28040; 24687]%N ++ runes_of_ascii """ // `tick` ""quote"" 'q'
, ""x y"" , """" // a // b
] :	_x ,
    """" : len ,""\" ++ [233]%N ++ runes_of_ascii """  : // a // b
i64_
, //	t
}, roots{ char[ 1
]// @lengthOf(
Header
@lengthOf( x_y_z )
    , body u128 , // `tick` ""quote"" 'q'
char[]
float ,chars@lengthOf( x  )
    `doc` ,}
,
    crc `it's`
    // `tick` ""quote"" 'q'
    , @calculatedFrom(""" ++ [128512]%N ++ runes_of_ascii """
    )
    BodyLength `" ++ [28040; 24687; 31867; 22411]%N ++ runes_of_ascii "` , }
    packet
    u128{  lengthOf ,pack
@lengthOf( u8x// c
)`// not a comment`// " ++ [27880; 37322]%N ++ runes_of_ascii "
,@leftPad
    (
' ' ) float{match
    asx as
    charz
{ [ 4294967296,""""
, 255 ,42
    ,""1""  ] : u8x ""{,}""	: Foo 42  :
leftPad[ // trailing space 
255 ,
    // " ++ [128512]%N ++ runes_of_ascii " emoji
    ""a\""b"" , ""it's""  , 4294967296 ] : stringy , 3
:Header ,
} ,match o // `tick` ""quote"" 'q'
as
    Pad
    // trailing space 
    { 3 :
    i64_//x
, } ,repeat
    string msg_type ,
    match
packetx // " ++ [27880; 37322]%N ++ runes_of_ascii "
as
lengthOf
    { [ ""x y"","""" ]
:x_y_z
// " ++ [27880; 37322]%N ++ runes_of_ascii "
// c
}, } ,i64 float,repeat
    zchar[ 3  ] rootA
    `crlf
line`, match msg_type as len{
""CRC32"":
MetaDataX
,
} ,
    f32
A , char[
0123456789 ] chars// " ++ [27880; 37322]%N ++ runes_of_ascii "
`{ , }` , /// triple
@calculatedFrom( ""a\""b""
) string
string_
    `" ++ [233]%N ++ runes_of_ascii "` ,}
")).
Eval vm_compute in ("<<<M1867>>>" ++ check (runes_of_ascii "options {
    BodyLength = 3;// " ++ [128512]%N ++ runes_of_ascii " emoji
    T = ""packet"";
    // c
    // trailing space 
    crc = true;
    falsey = '\x00';
}

root packet A {
    @leftPad('0')
    char[65535] Header `" ++ [233]%N ++ runes_of_ascii "`,
    @rightPad('0')
    //
    a1 @lengthOf(msg_type),
    @lengthOf(rootA)
    match _x as stringy {
        ""CRC32"" : chars,
        3 : float,
        255 : asx,
        10 : tag,
        //
    },
    @calculatedFrom(""" ++ [128512]%N ++ runes_of_ascii """)
    u32 u8x `crlf
        line`,
    repeat char[] asx `a\`,
    @rightPad('0')
    match f32a as Packet {
        [
            255, ""CRC32"", 007, ""1"", ""packet"",
            00, 4294967296
        ] : calculatedFrom,
        ""packet"" : falsey,
        ""a\""b"" : body,
        7 : Packet,
        // " ++ [128512]%N ++ runes_of_ascii " emoji
        0123456789 : i64_,
        // a // b
        [4294967296, 0123456789] : options1,
    },
    crc @lengthOf(Foo),
    @calculatedFrom(""{,}"")
    @lengthOf(metadata)
    @lengthOf(i8i8)
    int64 options1 @calculatedFrom(""CRC32"") `line1
        line2`,// @lengthOf(
}

packet a1 {
    match lengthOf as x_y_z {
        ""it's"" : matchKey,
        10 : Packet,
        [""abc""] : A,
        10 : metadata,
    },
}

MetaData body {
    char string_,
    char[] x,
    len Pad,
    string leftPad,
}// trailing space ")).
Eval vm_compute in ("<<<M1466>>>" ++ check (runes_of_ascii "

  root packet i64_
{ trueish

    ,
	@calculatedFrom( ""abc"" )  @tag(
	7
    ) 
    // c
int16 asx ,
	@calculatedFrom(
""a\\"" )float32
crc

    @lengthOf(	Foo  )
    ,@tag(  // `tick` ""quote"" 'q'
	  42// c
  ) zchar[ 
    // c
	// packet A { u8 x, }
    	7 ]  asx@lengthOf( calculatedFrom 
)	`// not a comment`
	,	//

	repeat  zchar[

    1 ]  // a // b
  As 
, 
chars

    `two words`

    ,
@calculatedFrom(
""1""
    )  @tag(
	// `tick` ""quote"" 'q'
  0123456789
)

    @leftPad 
('0'
)repeat char[] BodyLength  `tab	here`
    , }
MetaData  u128 	 // packet A { u8 x, }
	{
	u16 
i64_ , float32
asx //
	`two words`, 	 //
	i64

    leftPad	,

    zchar[  00// `tick` ""quote"" 'q'
  ]
_x
, //

}
	MetaData chars 
        //

{
	Foo crc
	`say ""hi""`

, uint8
    u`two words`

    , 	 // " ++ [128512]%N ++ runes_of_ascii " emoji
f32
pack	`crlf
line`

,
	string _x
`" ++ [233]%N ++ runes_of_ascii "`
	, }
packet

    x_y_z { }	options{	calculatedFrom
=
	""CRC32""
    crc
=	uint16
    ;
	u

=
false  Foo

=
char 
}  // " ++ [128512]%N ++ runes_of_ascii " emoji
")).
Eval vm_compute in ("<<<M1735>>>" ++ check (runes_of_ascii "
options
	{ FixedStringPadFromLeft = true ;

    FixedStringPadChar  = 
'0';}
packet Leg 
{
	InPrice0{repeat
	string	clOrdID 
, 
int16
    msgKind

, 
zchar[5] Px, } ,i16

f1  ,  repeat

    f64	Side2
,
string
Acct
    ,
}  packet
Cancel
{

    zchar[4] clOrdID, 
string
    seqNo  ,Leg,

@leftPad	(
'0') char[
11 
] OrderId ,  }  packet
Quote  {
    repeat
    char[

4]	sym, 
f64

OrderId

,repeat
Leg
    ,
repeat i64

f1  , 
int16
	Note
    ,

zchar[ 
3
]	count, } root packet
    Ack
	{
@leftPad
( ' '  )
char[
    10
] sym  ,  InPx60 { 
Cancel 
,

    repeat  char[ 1 ]	f1
,
string Tail

    ,

repeat InNote55 { int8
	count , f64
	f1
,  repeat

    Cancel	,
}

    , 
char[] 
tag7 ,
repeat  string  msgKind, }
	,u8
	lastPx
,
	match lastPx  as Body{

152: Quote,
	173
: Cancel,
4
	:

    Leg

,

} , u16  Ref
@calculatedFrom(	""CRC32""
)

,
}
")).
Eval vm_compute in ("<<<M1448>>>" ++ check (runes_of_ascii "packet leftPad {
    //
    i8 stringy @calculatedFrom(""" ++ [128512]%N ++ runes_of_ascii """),
    int @calculatedFrom(""a	b"") `it's`,
    @leftPad()
    @tag(0123456789)
    int32 u8x,
    @lengthOf(A)
    float64 u128 @calculatedFrom(""a\\""),//x
}

options {
    //x
    Pad = 0
    u = ' '
}

MetaData a1 {
    char[] metadata `// not a comment`,
}

packet Foo {
    @tag(42)
    repeat BodyLength,
    int8 metadata `{ , }`,
    @leftPad()
    // " ++ [27880; 37322]%N ++ runes_of_ascii "
    @calculatedFrom(""`tick`"")
    @calculatedFrom(""a	b"")
    u32 stringy,
    @lengthOf(roots)
    zchar[0] msg_type @lengthOf(i64_) `tab	here`,
    i8 Header `{ , }`,
    char[7] trueish @lengthOf(packetx),
    u64 charz `
        `,
    zchar[65535] repeatCount `it's`,
    match calculatedFrom as calculatedFrom {
        ""a	b"" : roots,
        42 : MetaDataX,
    },
}")).
Eval vm_compute in ("<<<M1516>>>" ++ check (runes_of_ascii "

  packet
crc  { @lengthOf(Header) 
repeat

roots  
  // @lengthOf(
	  `a\`  ,@lengthOf(  tag  ) match
	x 
as
	string_ {
[

""a\\""

, ""packet""
]
:Header	""// no comment"" 
  /// triple
: Logon,

    7: 
falsey	, 7

:
metadata [	7 ,
	00
]	:
    // `tick` ""quote"" 'q'
    repeatCount

    3
:

    u

    , }
, 
        //	t
	@lengthOf(
    u128 

    //

// " ++ [27880; 37322]%N ++ runes_of_ascii "

  )
@rightPad('\x00'// c
		)  char[] 
int,
int16 Packet	@lengthOf(
	string_

    )
,  trueish
{repeat
	crc  {  zchar calculatedFrom, },
	}
	, 

// @lengthOf(
	//x

@rightPad (
)

repeat
	_x	pack// " ++ [27880; 37322]%N ++ runes_of_ascii "
	  , @lengthOf( 
    // c
// trailing space 
  chars )repeat  string_ { repeat

    uint8x
`// not a comment`
	,
    } 
, }")).
Eval vm_compute in ("<<<M1238>>>" ++ check (runes_of_ascii "// top
options
    // c0
{
    // c1
zchar
    // c2
=
    // c3
true
    // c4
;
    // c5
Pad
    // c6
=
    // c7
char[
    // c8
00
    // c9
]
    // c10
a1
    // c11
=
    // c12
uint32
    // c13
BodyLength
    // c14
=
    // c15
true
    // c16
;
    // c17
}
    // c18
root
    // c19
packet
    // c20
T
    // c21
{
    // c22
@lengthOf(
    // c23
repeatCount
    // c24
)
    // c25
@tag(
    // c26
1
    // c27
)
    // c28
@calculatedFrom(
    // c29
""a	b""
    // c30
)
    // c31
string
    // c32
stringy
    // c33
@calculatedFrom(
    // c34
""\n""
    // c35
)
    // c36
`u8 x,`
    // c37
,
    // c38
}
    // c39
")).
Eval vm_compute in ("<<<M1312>>>" ++ check (runes_of_ascii "// top
options // c0a
  // c0b
{ // c1a
  // c1b
FixedStringPadChar = // c3
'0' ; } packet
    // c7
Q // c8
{ // c9a
  // c9b
zchar[ // c10a
  // c10b
4 // c11
] // c12
z , // c14
@rightPad ( // c16
'\x00' ) // c18a
  // c18b
char[ 3 // c20a
  // c20b
]
    // c21
n ,
    // c23
char[
    // c24
5
    // c25
] // c26
d // c27
, } // c29a
  // c29b
root
    // c30
packet R
    // c32
{ // c33
Q , // c35a
  // c35b
zchar[ 8 // c37
] // c38
top , // c40a
  // c40b
repeat
    // c41
zchar[
    // c42
2
    // c43
] // c44a
  // c44b
zs
    // c45
, // c46a
  // c46b
} // c47
")).
Eval vm_compute in ("<<<M1115>>>" ++ check (runes_of_ascii "packet float
    // c1
{ // c2
@rightPad // c3a
  // c3b
( // c4a
  // c4b
) // c5a
  // c5b
rootA // c6
@lengthOf( // c7a
  // c7b
trueish // c8
)
    // c9
,
    // c10
stringy // c11a
  // c11b
@lengthOf( // c12a
  // c12b
matchKey )
    // c14
, // c15a
  // c15b
char[ 4294967296 ]
    // c18
pack @lengthOf(
    // c20
uint8x
    // c21
) // c22a
  // c22b
,
    // c23
} // c24
root // c25
packet trueish {
    // c28
repeat uint64
    // c30
u128
    // c31
`line1
line2` // c32
,
    // c33
}
    // c34
")).
Eval vm_compute in ("<<<M33>>>" ++ check (runes_of_ascii "packet
int {zchar[ 007 ] metadata ,i16	matchKey,
@rightPad('0')
@lengthOf(
    metadata) repeat zchar[
    10 ]
//
// " ++ [128512]%N ++ runes_of_ascii " emoji
charz
    // trailing space 
    ,	} packet int { @tag( 65535 )
u32 x @calculatedFrom(
    ""x y""// " ++ [27880; 37322]%N ++ runes_of_ascii "
),match pack as MetaDataX
{
    [	""abc"" ,
    // " ++ [27880; 37322]%N ++ runes_of_ascii "
    0123456789 , ""`tick`"" ] :
body}	, @lengthOf( zchar ) match leftPad as u8x{
    10:  u8x ,
[
007
    // " ++ [128512]%N ++ runes_of_ascii " emoji
    , 255
    ]
    :
    chars	"""" :
    body ,42 : trueish , }, }")).
Eval vm_compute in ("<<<M374>>>" ++ check (runes_of_ascii "MetaData BodyLength { zchar[ 65535 ]	As `crlf
line`
, u16 charz , body len,
zchar msg_type ,uint64 metadata
,}
root packet //
matchKey
    {
repeat i8i8  `{ , }` ,
} MetaData a1 { i8i8 Pad`it's`	,
// trailing space 
// `tick` ""quote"" 'q'
int64
    // " ++ [128512]%N ++ runes_of_ascii " emoji
    roots `doc` ,
Foo BodyLength `u8 x,` , } packet	_x
{ lengthOf
    {
pack `" ++ [28040; 24687; 31867; 22411]%N ++ runes_of_ascii "` ,
string_ // @lengthOf(
, repeat //
rootA len , zchar[ 1
] u8x,} , }
")).
Eval vm_compute in ("<<<M1139>>>" ++ check (runes_of_ascii "// top
MetaData
    // c0
leftPad
    // c1
{
    // c2
chars
    // c3
MetaDataX
    // c4
,
    // c5
}
    // c6
packet
    // c7
repeatCount
    // c8
{
    // c9
char[
    // c10
255
    // c11
]
    // c12
uint8x
    // c13
`" ++ [233]%N ++ runes_of_ascii "`
    // c14
,
    // c15
}
    // c16
MetaData
    // c17
pack
    // c18
{
    // c19
As
    // c20
Foo
    // c21
,
    // c22
}
    // c23
")).
Eval vm_compute in ("<<<M127>>>" ++ check (runes_of_ascii "packet a1{ @leftPad ( ) float
@lengthOf(
uint8x ) , }
packet Logon {
char Logon
@calculatedFrom( ""a\\"" )
    ,T stringy ,
//
// c
repeat uint8 stringy `two words` , } MetaData charz{ u
    tag
    `
`
, a1 falsey ,//x
Z9_
matchKey , f64 lengthOf	`a\` // @lengthOf(
,
    f32a roots
    ``
,float64
    x_y_z // @lengthOf(
, }
")).
Eval vm_compute in ("<<<M1376>>>" ++ check (runes_of_ascii "options {
    LittleEndian = true;
}
packet Logon {
    u8 x,
}
packet Logout {
    u16 reason,
}
root packet Frame {
    u8 Kind,
    u8 Kind2,
    match Kind as Body {
        1 : Logon,
        [2, 3, 4] : Logout,
        100 : Logon,
    },
    match Kind2 as Trailer {
        0 : Logout,
    },
}
")).
Eval vm_compute in ("<<<M1401>>>" ++ check (runes_of_ascii "packet MDSnapshotZZ {
    u8 a,
}

packet OrderACK {
    u16 b,
}

packet HTTPServerInfo {
    string s,
}

root packet FIXMsg {
    u8 KType,
    MDSnapshotZZ,
    repeat OrderACK,
    match KType as Body {
        1 : HTTPServerInfo,
        2 : OrderACK,
    },
}")).
Eval vm_compute in ("<<<M1934>>>" ++ check (runes_of_ascii "packet Sub {
    u8 a,
    @calculatedFrom(""CRC16"")
    i32 SubSum,
}

root packet Frame {
    u16 MsgType,
    u16 BodyLen @lengthOf(Body),
    Sub Body,
    string note,
    @calculatedFrom(""CRC16"")
    i32 Checksum,
    u8 tail,
}")).
Eval vm_compute in ("<<<M1545>>>" ++ check (runes_of_ascii "
packet

A

{ u8
a  ,}
    packet B

{
    u16
b
, } root 
packet

P { 
u8

    K1,
    u8

    K2,

    match
	K1 as M1

    {
    1: A
    ,}  ,match

    K2
	as
M2
{
	1 :
    B
    ,  }

, }

")).
Eval vm_compute in ("<<<M1428>>>" ++ check (runes_of_ascii "packet
    A

    { 
Inner{	match  k
as

    n
	{
    [
1

,  22 ,007

    ,

    4,5  ,  66	,

    7
, 8,
	9

    , 10
,	11
,12 ]

    :
B
    ,},
}
	,
}

")).
Eval vm_compute in ("<<<M1562>>>" ++ check (runes_of_ascii "
// @lengthOf(
	packet

i8i8
	{
	u128 o
    ,
}	options
{MetaDataX	=
true

;
BodyLength = 
""packet""x_y_z

    = 007 crc //x
	=
""abc""
msg_type = 
i16 
}

")).
Eval vm_compute in ("<<<M438>>>" ++ check (runes_of_ascii "packet uint8x
{ match pack
    as msg_type	{
    0123456789 `it's`	float
}
,
} packet //	t
a1
    { } options {packetx
    = '\x00'	; u128= ""a	b""  ; }
")).
Eval vm_compute in ("<<<M456>>>" ++ check (runes_of_ascii "packet uint8x
{ match pack
    as msg_type	{
    0123456789 :	float
}
,
} } packet //	t
a1
    { } options {packetx
    = '\x00'	; u128= ""a	b""  ; }
")).
Eval vm_compute in ("<<<M393>>>" ++ check (runes_of_ascii "uint8x packet
{ match pack
    as msg_type	{
    0123456789 :	float
}
,
} packet //	t
a1
    { } options {packetx
    = '\x00'	; u128= ""a	b""  ; }
")).
Eval vm_compute in ("<<<M673>>>" ++ check (runes_of_ascii "// @lengthOf(
packet i8i8 { u128 o , }
options { MetaDataX = true;
    BodyLength =""packet"" x_y_z float64 007
crc //x
= ""abc"" ;
    msg_type =
i16 }")).
Eval vm_compute in ("<<<M1951>>>" ++ check (runes_of_ascii "
packet

A { match  k
    as
n  {
[  ""a""
	,  ""bb""
,
""c c"" ,
    ""d""	,	""e""

,

""f"" ,""g"" ,

""h"" ,
""i"",
    ""j""
    ,""k""]:
B
	,

2
	:C }

,

    }
")).
Eval vm_compute in ("<<<M395>>>" ++ check (runes_of_ascii "packet 
{ match pack
    as msg_type	{
    0123456789 :	float
}
,
} packet //	t
a1
    { } options {packetx
    = '\x00'	; u128= ""a	b""  ; }
")).
Eval vm_compute in ("<<<M137>>>" ++ check (runes_of_ascii "
packet u128//x
{ @calculatedFrom(  ""x y""
    ) // `tick` ""quote"" 'q'
@rightPad (  ' ') char[ 42 ]  Header
    @calculatedFrom( ""abc"" ),  }

")).
Eval vm_compute in ("<<<M524>>>" ++ check (runes_of_ascii "packet uint8x
{ match pack
    as msg_type	{
    0123456789 :	float
}
,
} packet //	t
a1
    { } options {packetx
    = '\x00'	; u128=")).
Eval vm_compute in ("<<<M144>>>" ++ check (runes_of_ascii "  MetaData falsey {o i8i8
,char[]
pack  ,
float32 lengthOf , len //x
BodyLength, BodyLength o
, stringy  u128	`crlf
line` , } 	 ")).
Eval vm_compute in ("<<<M1455>>>" ++ check (runes_of_ascii "packet A
	{ match k 
as 
n
	{ [ 1  ,

22
    ,  ""c c"" ,

    4

, 
5 ,""f""  ,  7 ,	8
	, 
""i"" , 10]:	B

2
    :
	C } ,
}

")).
Eval vm_compute in ("<<<M1150>>>" ++ check (runes_of_ascii "MetaData leftPad { chars
// c
MetaDataX , } packet repeatCount { char[ 255 ] uint8x `" ++ [233]%N ++ runes_of_ascii "` , } MetaData pack { As Foo , }")).
Eval vm_compute in ("<<<M1182>>>" ++ check (runes_of_ascii "MetaData leftPad { chars MetaDataX , } packet repeatCount { char[ 255 ] uint8x `" ++ [233]%N ++ runes_of_ascii "` , } MetaData pack {
// c
As Foo , }")).
Eval vm_compute in ("<<<M961>>>" ++ check (runes_of_ascii "packet A {
    u16 len @lengthOf(body) `tab
	x`,
    u32 crc @calculatedFrom(""CRC32"") `tab
	x`,
    string body,
}")).
Eval vm_compute in ("<<<M902>>>" ++ check (runes_of_ascii "packet A {
  match k as n {
    [""a"", ""bb"", 007, ""d"", ""e"", 66, ""g"", ""h"", 9, ""j"", ""k""] : B
    2 : C
  },
}")).
Eval vm_compute in ("<<<M868>>>" ++ check (runes_of_ascii "packet A {
  match k as n {
    [""a"", ""bb"", ""c c"", ""d"", ""e"", ""f"", ""g"", ""h"", ""i""] : B
    2 : C
  },
}")).
Eval vm_compute in ("<<<M882>>>" ++ check (runes_of_ascii "packet A {
  match k as n {
    [1, ""bb"", 007, ""d"", 5, ""f"", 7, ""h"", 9, ""j""] : B,
    2 : C
  },
}")).
Eval vm_compute in ("<<<M593>>>" ++ check (runes_of_ascii "
packet
    asx {match u128 as lengthOf
{
//	t
// `tick` ""quote"" 'q'
255 255 : x ,
    } ,	}")).
Eval vm_compute in ("<<<M842>>>" ++ check (runes_of_ascii "packet A {
  match k as n {
    [""a"", ""bb"", ""c c"", ""d"", ""e"", ""f"", ""g""] : B
    2 : C
  },
}")).
Eval vm_compute in ("<<<M619>>>" ++ check (runes_of_ascii "
packet
    asx {match u128 as lengthOf
{
//	t
// `tick` ""quote"" 'q'
255 : x ,
    } }	,")).
Eval vm_compute in ("<<<M592>>>" ++ check (runes_of_ascii "
packet
    asx {match u128 as lengthOf
{
//	t
// `tick` ""quote"" 'q'
 : x ,
    } ,	}")).
Eval vm_compute in ("<<<M837>>>" ++ check (runes_of_ascii "packet A {
  match k as n {
    [""a"", ""bb"", 007, ""d"", ""e"", 66] : B
    2 : C
  },
}")).
Eval vm_compute in ("<<<M1821>>>" ++ check (runes_of_ascii "packet A {
    match k as n {
        [1, 22, 007] : B,
        2 : C,
    },
}")).
Eval vm_compute in ("<<<M1503>>>" ++ check (runes_of_ascii "packet A {
    @tag(1)
    // a
    @leftPad('0')
    // b
    char[4] x,
}")).
Eval vm_compute in ("<<<M793>>>" ++ check (runes_of_ascii "packet A {
  match k as n {
    [""a"", 22, ""c c""] : B,
    2 : C
  },
}")).
Eval vm_compute in ("<<<M942>>>" ++ check (runes_of_ascii "packet A {
    B b `a

b`,
    B `a

b`,
    repeat B bs `a

b`,
}")).
Eval vm_compute in ("<<<M778>>>" ++ check (runes_of_ascii "packet A {
  match k as n {
    [1, 22] : B,
    2 : C
  },
}")).
Eval vm_compute in ("<<<M799>>>" ++ check (runes_of_ascii "packet A { Inner { match k as n { [1,22,007] : B, }, }, }")).
Eval vm_compute in ("<<<M963>>>" ++ check (runes_of_ascii "MetaData M {
    u8 x `tab
	x`,
    T t `tab
	x`,
}")).
Eval vm_compute in ("<<<M333>>>" ++ check (runes_of_ascii "  MetaData
x_y_z{ }	packet chars	{	} options {}
")).
Eval vm_compute in ("<<<M763>>>" ++ check (runes_of_ascii "@calculatedFrom( true ; MetaData """ ++ [233]%N ++ runes_of_ascii "t" ++ [233]%N ++ runes_of_ascii """ match")).
Eval vm_compute in ("<<<M1607>>>" ++ check (runes_of_ascii "root packet A {
    u8 x `
        x`,
}")).
Eval vm_compute in ("<<<M197>>>" ++ check (runes_of_ascii "
options {u8x
=
    ""packet"" ;	}
")).
Eval vm_compute in ("<<<M766>>>" ++ check (runes_of_ascii "Dr1UAAa-*U|u3S?xE-Vr&9^'H>gI<.E")).
Eval vm_compute in ("<<<M175>>>" ++ check (runes_of_ascii "
packet calculatedFrom { } 	 ")).
Eval vm_compute in ("<<<M1080>>>" ++ check (runes_of_ascii "options { a = 1 // a
 ; }")).
Eval vm_compute in ("<<<M1103>>>" ++ check (runes_of_ascii "// c
MetaData tag { }")).
Eval vm_compute in ("<<<M1061>>>" ++ check (runes_of_ascii "packet A {
}
// c x")).
Eval vm_compute in ("<<<M1012>>>" ++ check (runes_of_ascii "// c" ++ [8232]%N ++ runes_of_ascii "
packet A {
}")).
Eval vm_compute in ("<<<M989>>>" ++ check (runes_of_ascii "packet A {
}// c" ++ [133]%N)).
Eval vm_compute in ("<<<M378>>>" ++ check (runes_of_ascii "// @lengthOf(

")).
Eval vm_compute in ("<<<M561>>>" ++ check (runes_of_ascii "
packet")).
Eval vm_compute in ("<<<M56>>>" ++ check (runes_of_ascii " 	 ")).
