From FP Require Import Lexer Parser ShowPT Digest Formatter.
From Coq Require Import String List NArith.
Import ListNotations.
Open Scope string_scope.
Set Printing Width 100000000.
Set Printing Depth 100000000.
Definition show_fres (r : fres) : string :=
  match r with
  | FOk s => "OK:" ++ sh_escaped s ""
  | FErr s => "ERR:" ++ sh_escaped s ""
  | FPanic p => "PANIC:" ++ p
  end.
Definition check (rs : list rune) : string := digest (show_fres (format_res rs)).
Definition full (rs : list rune) : string := show_fres (format_res rs).
Eval vm_compute in ("<<<M1867>>>" ++ check (runes_of_ascii "  options{
    BodyLength
    =	char[7
    ]

    ;

    } 
  // c
		// @lengthOf(
    	packet asx	// " ++ [128512]%N ++ runes_of_ascii " emoji
  	{ int16
x_y_z ,
@calculatedFrom( """"
	)
@lengthOf( 
	    /// triple

chars)	//
repeat 
repeatCount 
charz 
/// triple
	// " ++ [27880; 37322]%N ++ runes_of_ascii "
    	,@leftPad (

    )

    i64_@calculatedFrom( 
""\" ++ [233]%N ++ runes_of_ascii """ ) 
`// not a comment`, tag
    Z9_
`two words`

    ,

@lengthOf(

    asx ) @calculatedFrom(
""`tick`""
)
	match uint8x as matchKey { 0123456789
	// packet A { u8 x, }
  // a // b
  :u8x
	, 1

    :zchar

,
	},
u128
@lengthOf( 
u128// packet A { u8 x, }
      )// " ++ [128512]%N ++ runes_of_ascii " emoji

,
    }
	MetaData	msg_type{string	BodyLength
`two words` ,
options1// " ++ [128512]%N ++ runes_of_ascii " emoji
	  i64_  ,

} 	 // " ++ [128512]%N ++ runes_of_ascii " emoji
    	packet roots

{u
``

,
@calculatedFrom(
""a	b""
	) match len
    as

    msg_type{ 
// c
  """ ++ [28040; 24687]%N ++ runes_of_ascii """

    :
    charz 
}  ,
crc	@calculatedFrom(
    // packet A { u8 x, }
	  // packet A { u8 x, }
	""it's"" )

    `a\` ,
@leftPad

    (

    '0'	)@tag( 007
)

zchar[  // trailing space 
  3 
    // trailing space 

	]falsey  ,	@calculatedFrom(  // `tick` ""quote"" 'q'
    	""\n"" 
) @calculatedFrom(
""CRC32""  // c
	)  
  // trailing space 
match 
//x

	Packet

as // @lengthOf(
  stringy {1:Pad 
,	""it's""

    : 
f32a

    ,
    }  ,

    @leftPad
(' '

)match// " ++ [27880; 37322]%N ++ runes_of_ascii "
  int as
a1
{ 
[ 0123456789

,
255]: options1
	    //x
    //x
	}
,
    BodyLength

    //

	@calculatedFrom(
    """ ++ [28040; 24687]%N ++ runes_of_ascii """  ) ,  float32 zchar	@calculatedFrom(
""// no comment""  )

,	@tag( 
10 
)

zchar[  
  // packet A { u8 x, }
	1  ]rootA 
,

    }

")).
Eval vm_compute in ("<<<M1708>>>" ++ check (runes_of_ascii "  root
    packet  // @lengthOf(
	repeatCount {
	@lengthOf( u8x 
)
	@calculatedFrom(  ""1""
	)

@tag(  007

)
repeat
	zchar[42
	]  Header `" ++ [28040; 24687; 31867; 22411]%N ++ runes_of_ascii "` ,
	match options1	as asx  {
255  
      // `tick` ""quote"" 'q'

  :
    roots 
,  }
	,  // a // b
	Header
@lengthOf(
// a // b
options1)

``

, Header 	 //	t
    	@lengthOf(	len 
) 
`{ , }` ,
o 
matchKey `u8 x,`	,  }

packet packetx	{
	zchar[

    255]crc
	,	}packet 
Logon
    {  body
    { 
float
	{  repeat 
Logon

    trueish
,

} ,}  ,
	@calculatedFrom( 
  // `tick` ""quote"" 'q'
  	""`tick`"" )
repeat	char[
0	]

    f32a 
, 
match
	body
    as
float{
    [

65535
,
    """ ++ [28040; 24687]%N ++ runes_of_ascii """]
    :calculatedFrom,
	},
u32 float @calculatedFrom(

""" ++ [233]%N ++ runes_of_ascii "t" ++ [233]%N ++ runes_of_ascii """// @lengthOf(
)

,	string

    body
@lengthOf(len

) `
`//
, u8x@calculatedFrom( 
""a\""b""	)
//	t
	  ,  //	t
    float64
    options1 @calculatedFrom(	""" ++ [128512]%N ++ runes_of_ascii """)
	`it's`
,  
      //x
  // trailing space 

match 
crc as

chars  {

    3 :
options1 // @lengthOf(
    ,
    [ 10
    ] :	_x

    [""{,}"" 
]
	:options1,
[

    ""CRC32""	,
""a\\""
, ""a\\""
, 
""packet""

    ,  7

// `tick` ""quote"" 'q'
	]	:As

} 
, 
i16	msg_type ,

    }

")).
Eval vm_compute in ("<<<M1398>>>" ++ check (runes_of_ascii "packet T {
    match repeatCount as Packet {
        ""packet"" : msg_type,
        00 : Foo,
        """ ++ [128512]%N ++ runes_of_ascii """ : trueish,
        """" : repeatCount,
        [4294967296, 65535] : u,
    },
    @calculatedFrom(""a\\"")
    float32 len @lengthOf(string_),
    stringy Pad,
    roots {
        repeat x_y_z `// not a comment`,
        T `" ++ [233]%N ++ runes_of_ascii "`,
    },
    @tag(007)
    _x {
        // " ++ [128512]%N ++ runes_of_ascii " emoji
        char[] body @calculatedFrom(""" ++ [233]%N ++ runes_of_ascii "t" ++ [233]%N ++ runes_of_ascii """),
        repeat Pad ``,
    },
    match u as packetx {
        // `tick` ""quote"" 'q'
        [007, ""// no comment""] : T,
        [""\" ++ [233]%N ++ runes_of_ascii """] : u8x,
    },
    @rightPad()
    int8 _x,
    @lengthOf(A)
    match crc as metadata {
        [00, 3, 1, 10, ""a\""b""] : Packet,
        //	t
        [4294967296, ""abc"", """"] : a1,
        """ ++ [28040; 24687]%N ++ runes_of_ascii """ : repeatCount,
    },
}

options {
}

MetaData Header {
    trueish Pad,
}

MetaData Z9_ {
    char[] metadata,
    Header A `doc`,
    uint32 packetx,
    int16 uint8x,
    Header leftPad,
}")).
Eval vm_compute in ("<<<M1341>>>" ++ check (runes_of_ascii "options {
    StringPrefixLenType = u64;
    ArrayPrefixLenType = u32;
    FixedStringPadFromLeft = false;
}
packet Party {
    zchar[7] OrderId,
    InTail6 {
        repeat char[1] msgKind,
        char[3] Tail,
        char[3] Flags,
        i16 tag7,
    },
    @rightPad('0') char[12] clOrdID,
}
packet Quote {
    @leftPad('0') char[11] price,
    repeat InCount7 {
        i32 x,
        Party,
        u8 Ref,
        u8 tag7,
    },
    char[] seqNo,
    Party,
}
packet Logon {
    @rightPad('\x00') char[5] Note,
    i16 sym,
    InPrice72 {
        char[9] Ref,
        zchar[1] venue,
    },
    char[] clOrdID,
}
root packet Reject {
    repeat Logon,
    @leftPad(' ') char[4] seqNo,
    zchar[5] Acct,
    u32 x,
    u16 f1 @lengthOf(Body),
    match x as Body {
        [169, 74] : Quote,
        45 : Party,
        7 : Logon,
    },
}
")).
Eval vm_compute in ("<<<M330>>>" ++ check (runes_of_ascii "root packet
As {
} MetaData Pad { string
    metadata  `// not a comment` ,
    }
packet metadata
    { string	charz
`a\` , @leftPad ( ' ' )pack@lengthOf(x_y_z ), @calculatedFrom( ""packet"")
match crc
    as chars { [ ""packet"" ,7 ]
    :  repeatCount }
, Pad @lengthOf( matchKey
    ),
@calculatedFrom( ""\n""
    )int64
    Z9_ @lengthOf(
    // a // b
    _x ),
@lengthOf(repeatCount// trailing space 
) repeat float
{ u128 @lengthOf( zchar) , u8 crc
, } ,
    int64 pack, u128
    `it's` , repeat
// a // b
// `tick` ""quote"" 'q'
i32 T , //	t
@tag(00 ) rootA  @lengthOf(
float
    )
,
} MetaData Header // @lengthOf(
{u32 u,	string A `crlf
line` ,
u16
    roots `a\` ,int16 chars , }
packet repeatCount { repeat char[
// trailing space 
//x
65535]
    x `line1
line2`
, }")).
Eval vm_compute in ("<<<M219>>>" ++ check (runes_of_ascii "
packet
falsey{ // `tick` ""quote"" 'q'
repeat charz
    /// triple
    float // a // b
`tab	here`
    ,
char[]stringy  , Logon
    f32a,
    char[] string_/// triple
,
int16
_x
`` ,
    match/// triple
crc as stringy { ""abc"" :Pad
    [ ""\n"" , 10, 4294967296, 0123456789 , ""abc"" ,	""" ++ [28040; 24687]%N ++ runes_of_ascii """
    ] :
i8i8 , 10 :
    //x
    Header , 10:// c
calculatedFrom
    , 0123456789: charz
10
    :
    repeatCount} ,
    leftPad @lengthOf(
u8x )  , @lengthOf(a1) repeat x body ,
} MetaData
string_
{ float64  f32a	, zchar[
255] T, u32 trueish, BodyLength roots
`two words` , }
// " ++ [128512]%N ++ runes_of_ascii " emoji
//	t
packet stringy{ zchar[
    255
    ]Foo ,
}
MetaData
leftPad {
    } //
options { x //x
=
true
    ;
zchar = """" } //")).
Eval vm_compute in ("<<<M1238>>>" ++ check (runes_of_ascii "// top
options
    // c0
{
    // c1
zchar
    // c2
=
    // c3
true
    // c4
;
    // c5
Pad
    // c6
=
    // c7
char[
    // c8
00
    // c9
]
    // c10
a1
    // c11
=
    // c12
uint32
    // c13
BodyLength
    // c14
=
    // c15
true
    // c16
;
    // c17
}
    // c18
root
    // c19
packet
    // c20
T
    // c21
{
    // c22
@lengthOf(
    // c23
repeatCount
    // c24
)
    // c25
@tag(
    // c26
1
    // c27
)
    // c28
@calculatedFrom(
    // c29
""a	b""
    // c30
)
    // c31
string
    // c32
stringy
    // c33
@calculatedFrom(
    // c34
""\n""
    // c35
)
    // c36
`u8 x,`
    // c37
,
    // c38
}
    // c39
")).
Eval vm_compute in ("<<<M1239>>>" ++ check (runes_of_ascii "// top
options // c0
{ // c1a
  // c1b
zchar // c2
= // c3a
  // c3b
true // c4
; Pad // c6a
  // c6b
=
    // c7
char[ 00 // c9a
  // c9b
]
    // c10
a1 = // c12a
  // c12b
uint32 // c13a
  // c13b
BodyLength = true // c16a
  // c16b
;
    // c17
} root // c19
packet // c20
T // c21a
  // c21b
{
    // c22
@lengthOf( // c23a
  // c23b
repeatCount ) @tag( // c26a
  // c26b
1
    // c27
) // c28a
  // c28b
@calculatedFrom( // c29
""a	b"" // c30a
  // c30b
) // c31a
  // c31b
string // c32
stringy @calculatedFrom( ""\n"" ) // c36
`u8 x,` // c37a
  // c37b
, // c38
} // c39
")).
Eval vm_compute in ("<<<M1115>>>" ++ check (runes_of_ascii "packet float
    // c1
{ // c2
@rightPad // c3a
  // c3b
( // c4a
  // c4b
) // c5a
  // c5b
rootA // c6
@lengthOf( // c7a
  // c7b
trueish // c8
)
    // c9
,
    // c10
stringy // c11a
  // c11b
@lengthOf( // c12a
  // c12b
matchKey )
    // c14
, // c15a
  // c15b
char[ 4294967296 ]
    // c18
pack @lengthOf(
    // c20
uint8x
    // c21
) // c22a
  // c22b
,
    // c23
} // c24
root // c25
packet trueish {
    // c28
repeat uint64
    // c30
u128
    // c31
`line1
line2` // c32
,
    // c33
}
    // c34
")).
Eval vm_compute in ("<<<M291>>>" ++ check (runes_of_ascii "root
// " ++ [27880; 37322]%N ++ runes_of_ascii "
// @lengthOf(
packet
    Packet
{ string o @calculatedFrom( ""\" ++ [233]%N ++ runes_of_ascii """)
, @lengthOf( Packet
    // packet A { u8 x, }
    ) body @calculatedFrom( // @lengthOf(
""x y"" )
`it's` ,
float64 As @calculatedFrom( ""`tick`""	), char[]	stringy  @calculatedFrom(""" ++ [28040; 24687]%N ++ runes_of_ascii """	) `doc` , @calculatedFrom(""a	b"") match
float as o{ [ """ ++ [128512]%N ++ runes_of_ascii """
    ,007]
    :metadata
,
} ,f32a a1 `a\` , }
MetaData
repeatCount
    { packetx i64_ `" ++ [28040; 24687; 31867; 22411]%N ++ runes_of_ascii "` , // " ++ [128512]%N ++ runes_of_ascii " emoji
zchar[
3
] tag ,
i8i8 int , }
")).
Eval vm_compute in ("<<<M256>>>" ++ check (runes_of_ascii "
options // " ++ [27880; 37322]%N ++ runes_of_ascii "
{ T = zchar[ 42
] options1 = uint8 ;
lengthOf
=
    // a // b
    char[4294967296
    ]
    ; } packet Z9_ { repeat
MetaDataX
`crlf
line`
    ,
repeat string x_y_z	,
    u32 x
, // `tick` ""quote"" 'q'
@tag(
// " ++ [128512]%N ++ runes_of_ascii " emoji
// " ++ [128512]%N ++ runes_of_ascii " emoji
00 )repeat i64 Logon ,
u8x
f32a, repeat
    lengthOf``, repeat
stringy Pad
    // @lengthOf(
    `
`,
    repeat
    string_ chars `// not a comment` , }

")).
Eval vm_compute in ("<<<M74>>>" ++ check (runes_of_ascii "options{ u = 7
    // " ++ [27880; 37322]%N ++ runes_of_ascii "
    roots
=zchar[
65535
    ]
msg_type = """ ++ [233]%N ++ runes_of_ascii "t" ++ [233]%N ++ runes_of_ascii """
; x =false
    } MetaData string_ { char[ // trailing space 
42
//x
// " ++ [128512]%N ++ runes_of_ascii " emoji
]
i8i8 `" ++ [28040; 24687; 31867; 22411]%N ++ runes_of_ascii "`	, u8
    x_y_z
, packetx lengthOf``
    // " ++ [27880; 37322]%N ++ runes_of_ascii "
    ,
T Header `line1
line2` ,
char[] // " ++ [27880; 37322]%N ++ runes_of_ascii "
u8x `two words` ,}packet
float //x
{
    calculatedFrom
    ,
@rightPad ( '0'
) char[
    3
] u128 , } 	 ")).
Eval vm_compute in ("<<<M100>>>" ++ check (runes_of_ascii "
root packet
a1
    {
tag Pad``
, } options {
}
    root packet int	{
    uint64 f32a , } packet
MetaDataX {// c
@leftPad( ' ' ) /// triple
repeat uint16 Header	`{ , }`
,
// `tick` ""quote"" 'q'
/// triple
}
options {
Z9_= false
    falsey //	t
= ""x y"" ; rootA = false
    // a // b
    Foo	=true
lengthOf
    = float64 }")).
Eval vm_compute in ("<<<M1767>>>" ++ check (runes_of_ascii "// top
packet A {
    // c2
    u8 a,
}// c6a

// c6b
packet B {
    u16 b,
}

// c13
root packet P {
    // c17a
    // c17b
    u8 K1,// c20
    u8 K2,// c23a
    // c23b
    match K1 as M1 {
        // c28a
        // c28b
        1 : A,
    },
    match K2 as M2 {
        1 : B,
    },
}// c46")).
Eval vm_compute in ("<<<M1847>>>" ++ check (runes_of_ascii "// top
packet float {
    @rightPad()
    // c5
    rootA @lengthOf(trueish),
    // c10
    stringy @lengthOf(matchKey),
    // c15
    char[4294967296] pack @lengthOf(uint8x),
}

// c24
root packet trueish {
    // c28
    repeat uint64 u128 `line1
    line2`,
}")).
Eval vm_compute in ("<<<M190>>>" ++ check (runes_of_ascii "packet // @lengthOf(
f32a
    {	@rightPad (
    '0' ) @lengthOf( BodyLength ) uint8 Foo ``,
    //x
    char[]
    options1 @calculatedFrom(
    ""it's"" ) ,@tag(255/// triple
) uint64
    Header @calculatedFrom( ""abc""
) `
`
,}

")).
Eval vm_compute in ("<<<M1590>>>" ++ check (runes_of_ascii "packet matchKey {
    @lengthOf(a1)
    string_ T `" ++ [28040; 24687; 31867; 22411]%N ++ runes_of_ascii "`,//
}

packet body {
    f32 _x,
    packetx @lengthOf(options1) ``,
    @leftPad(' ')
    i16 crc,
    @calculatedFrom(""" ++ [128512]%N ++ runes_of_ascii """)
    Pad,
}//")).
Eval vm_compute in ("<<<M1753>>>" ++ check (runes_of_ascii "
MetaData
leftPad  {

chars  MetaDataX

    // c
	, } packet

repeatCount

    {

    char[

    255 ] 
uint8x

`" ++ [233]%N ++ runes_of_ascii "`  , } 
MetaData
    pack

    {  As

Foo 
, }
")).
Eval vm_compute in ("<<<M453>>>" ++ check (runes_of_ascii "packet uint8x
{ match pack
    as msg_type	{
    0123456789 :	float
}
@lengthOf(
} packet //	t
a1
    { } options {packetx
    = '\x00'	; u128= ""a	b""  ; }
")).
Eval vm_compute in ("<<<M518>>>" ++ check (runes_of_ascii "packet uint8x
{ match pack
    as msg_type	{
    0123456789 :	float
}
,
} packet //	t
a1
    { } options {packetx
    = '\x00'	; u128 true ""a	b""  ; }
")).
Eval vm_compute in ("<<<M542>>>" ++ check (runes_of_ascii "$ packet uint8x
{ match pack
    as msg_type	{
    0123456789 :	float
}
,
} packet //	t
a1
    { } options {packetx
    = '\x00'	; u128= ""a	b""  ; }
")).
Eval vm_compute in ("<<<M437>>>" ++ check (runes_of_ascii "packet uint8x
{ match pack
    as msg_type	{
    0123456789 float	:
}
,
} packet //	t
a1
    { } options {packetx
    = '\x00'	; u128= ""a	b""  ; }
")).
Eval vm_compute in ("<<<M468>>>" ++ check (runes_of_ascii "packet uint8x
{ match pack
    as msg_type	{
    0123456789 :	float
}
,
} packet //	t
,
    { } options {packetx
    = '\x00'	; u128= ""a	b""  ; }
")).
Eval vm_compute in ("<<<M533>>>" ++ check (runes_of_ascii "packet uint8x
{ match pack
    as msg_type	{
    0123456789 :	float
}
,
} packet //	t
a1
    { } options {packetx
    = '\x00'	; u128= ""a	b""  ;")).
Eval vm_compute in ("<<<M718>>>" ++ check (runes_of_ascii "// @lengthOf(
packet i8i8 { u128 o , }
options { MetaDataX = true;
    BodyLength =""packet"" x_y_z= 007
crc //x
= ""abc"" ;
    msg_type as
i16 }")).
Eval vm_compute in ("<<<M699>>>" ++ check (runes_of_ascii "// @lengthOf(
packet i8i8 { a" ++ [769]%N ++ runes_of_ascii "b o , }
options { MetaDataX = true;
    BodyLength =""packet"" x_y_z= 007
crc //x
= ""abc"" ;
    msg_type =
i16 }")).
Eval vm_compute in ("<<<M1426>>>" ++ check (runes_of_ascii "packet stringy {
}

MetaData u8x {
    zchar[65535] Pad,
    stringy string_ `u8 x,`,
    u8 lengthOf `
        `,
    char[255] pack,
}")).
Eval vm_compute in ("<<<M1403>>>" ++ check (runes_of_ascii "  MetaData
leftPad{	chars

MetaDataX ,
}packet

repeatCount{

char[255  ]
	uint8x

`" ++ [233]%N ++ runes_of_ascii "` ,

}MetaData pack
{	As

Foo , // c
  }
")).
Eval vm_compute in ("<<<M1142>>>" ++ check (runes_of_ascii "
// c
MetaData leftPad { chars MetaDataX , } packet repeatCount { char[ 255 ] uint8x `" ++ [233]%N ++ runes_of_ascii "` , } MetaData pack { As Foo , }")).
Eval vm_compute in ("<<<M1168>>>" ++ check (runes_of_ascii "MetaData leftPad { chars MetaDataX , } packet repeatCount { char[ 255 ]
// c
uint8x `" ++ [233]%N ++ runes_of_ascii "` , } MetaData pack { As Foo , }")).
Eval vm_compute in ("<<<M1655>>>" ++ check (runes_of_ascii "

  packet

A

    {match k as
n
    {
    [
	1

    ,
	""bb"",
007  ,	""d"" , 5  , ""f"",7 ] : B 2

    :C } , 
}

")).
Eval vm_compute in ("<<<M1459>>>" ++ check (runes_of_ascii "packet
A {
match  k
    as

n
    {
[  ""a"", 
22
	,""c c""  ,
    4

    ,""e""  ,	66, ""g""]	: B

2	:

C }

, }
")).
Eval vm_compute in ("<<<M1391>>>" ++ check (runes_of_ascii "options {
    LittleEndian = true;
}

root packet P {
    u16 a,
    u32 Sum @calculatedFrom(""CRC32""),
}")).
Eval vm_compute in ("<<<M1248>>>" ++ check (runes_of_ascii "  options
{LittleEndian 
= true 
; }

    root  packet

P {

    repeat
char
cs

, u8
	x, }

")).
Eval vm_compute in ("<<<M871>>>" ++ check (runes_of_ascii "packet A {
  match k as n {
    [""a"", 22, ""c c"", 4, ""e"", 66, ""g"", 8, ""i""] : B,
    2 : C
  },
}")).
Eval vm_compute in ("<<<M1686>>>" ++ check (runes_of_ascii "packet body {
    match Logon as _x {
        4294967296 : _x,
        """ ++ [28040; 24687]%N ++ runes_of_ascii """ : u128,
    },
}")).
Eval vm_compute in ("<<<M1765>>>" ++ check (runes_of_ascii "
//	t
    	options
    {

roots= ""\n""	;

o 

    //
	  =

    '0'

; tag
    =
true }
")).
Eval vm_compute in ("<<<M622>>>" ++ check (runes_of_ascii "
packet
    asx {match u128 as lengthOf
{
//	t
// `tick` ""quote"" 'q'
255 : x ,
    } ,	")).
Eval vm_compute in ("<<<M1275>>>" ++ check (runes_of_ascii "

  options{ FixedStringPadFromLeft
= 
true 
; }root 
packet  P {char[
    4 ]
z,
	}")).
Eval vm_compute in ("<<<M690>>>" ++ check (runes_of_ascii "// @lengthOf(
packet i8i8 { u128 o , }
options { MetaDataX = true;
    BodyLength")).
Eval vm_compute in ("<<<M125>>>" ++ check (runes_of_ascii "//	t
options {
    roots  =  ""\n""	; o
    //
    = '0' ;
tag
    =true
    }")).
Eval vm_compute in ("<<<M1879>>>" ++ check (runes_of_ascii "packet A {
    match k as n {
        [1, 22] : B,
        2 : C,
    },
}")).
Eval vm_compute in ("<<<M797>>>" ++ check (runes_of_ascii "packet A {
  match k as n {
    [""a"", ""bb"", 007] : B,
    2 : C
  },
}")).
Eval vm_compute in ("<<<M628>>>" ++ check (runes_of_ascii "
packet
    asx {match u128 as lengthOf
{
//	t
// `tick` ""quote""")).
Eval vm_compute in ("<<<M189>>>" ++ check (runes_of_ascii "
packet
i64_ { @tag( 0123456789 ) repeat u16 stringy
,
    }")).
Eval vm_compute in ("<<<M1593>>>" ++ check (runes_of_ascii "
root
packet	P {	hdr  {u8
a
    ,

    }	,
	u8 x,  }

")).
Eval vm_compute in ("<<<M1202>>>" ++ check (runes_of_ascii "packet body
// c
{ i32 f32a `{ , }` , } options { }")).
Eval vm_compute in ("<<<M1243>>>" ++ check (runes_of_ascii "root packet P {
    repeat char cs,
    u8 x,
}
")).
Eval vm_compute in ("<<<M724>>>" ++ check (runes_of_ascii "// @lengthOf(
packet i8i8 { u128 o , }
opt")).
Eval vm_compute in ("<<<M1075>>>" ++ check (runes_of_ascii "MetaData M {
}// c
MetaData N {
}// d")).
Eval vm_compute in ("<<<M85>>>" ++ check (runes_of_ascii "options// c
{MetaDataX =int16 }
")).
Eval vm_compute in ("<<<M1003>>>" ++ check (runes_of_ascii "packet A {
 u8 x `d" ++ [8192]%N ++ runes_of_ascii "`, // c" ++ [8192]%N ++ runes_of_ascii "
}")).
Eval vm_compute in ("<<<M1065>>>" ++ check (runes_of_ascii "packet A {
}// a// b// c
")).
Eval vm_compute in ("<<<M770>>>" ++ check (runes_of_ascii "EJYa-@ZpfaJe_ojrLyZC9M")).
Eval vm_compute in ("<<<M211>>>" ++ check (runes_of_ascii "MetaData
roots {
}

")).
Eval vm_compute in ("<<<M987>>>" ++ check (runes_of_ascii "// c" ++ [160]%N ++ runes_of_ascii "
packet A {
}")).
Eval vm_compute in ("<<<M1232>>>" ++ check (runes_of_ascii "packet x { } // c
")).
Eval vm_compute in ("<<<M1231>>>" ++ check (runes_of_ascii "packet x {
// c
}")).
Eval vm_compute in ("<<<M1389>>>" ++ check (runes_of_ascii "packet A {
}")).
Eval vm_compute in ("<<<M1030>>>" ++ check (runes_of_ascii "// c" ++ [11]%N)).
